import CaoProofs.Lemmas.CaptureStep
/-!
# One instruction keeps the capture invariant: the plain opcodes (C)
-/
namespace Cao.Vm
set_option linter.unusedSectionVars false
set_option linter.unusedVariables false

variable {p : Prog} {G : Nat → Prop} {lvl cnt : Nat → Nat} {E : ErrKind → Prop} [ErrClass E]
  {re : Reenter} {W0 : List (Option Nat × Nat)} {fs0 : List Frame} {l : Frame} {src : Nat}

theorem st_op_and (hs : CapStatic p G lvl cnt) (hsrc : G src)
    (hre : ReSpecS re (InvX p lvl none (W0 ++ [(l.closure, lvl src)]) (fs0 ++ [l])) E)
    (hop : p.bytecode.getD src 0 = Compiler.op.and) :
    St (InvX p lvl none (W0 ++ [(l.closure, lvl src)]) (fs0 ++ [l])) (step p re src)
      (StepQ p lvl W0 fs0 l src) E := by
  st_op hop
  all_goals q_seq hs, hsrc, hop, 1

theorem st_op_or (hs : CapStatic p G lvl cnt) (hsrc : G src)
    (hre : ReSpecS re (InvX p lvl none (W0 ++ [(l.closure, lvl src)]) (fs0 ++ [l])) E)
    (hop : p.bytecode.getD src 0 = Compiler.op.or) :
    St (InvX p lvl none (W0 ++ [(l.closure, lvl src)]) (fs0 ++ [l])) (step p re src)
      (StepQ p lvl W0 fs0 l src) E := by
  st_op hop
  all_goals q_seq hs, hsrc, hop, 1

theorem st_op_xor (hs : CapStatic p G lvl cnt) (hsrc : G src)
    (hre : ReSpecS re (InvX p lvl none (W0 ++ [(l.closure, lvl src)]) (fs0 ++ [l])) E)
    (hop : p.bytecode.getD src 0 = Compiler.op.xor) :
    St (InvX p lvl none (W0 ++ [(l.closure, lvl src)]) (fs0 ++ [l])) (step p re src)
      (StepQ p lvl W0 fs0 l src) E := by
  st_op hop
  all_goals q_seq hs, hsrc, hop, 1

theorem st_op_add (hs : CapStatic p G lvl cnt) (hsrc : G src)
    (hre : ReSpecS re (InvX p lvl none (W0 ++ [(l.closure, lvl src)]) (fs0 ++ [l])) E)
    (hop : p.bytecode.getD src 0 = Compiler.op.add) :
    St (InvX p lvl none (W0 ++ [(l.closure, lvl src)]) (fs0 ++ [l])) (step p re src)
      (StepQ p lvl W0 fs0 l src) E := by
  st_op hop
  all_goals q_seq hs, hsrc, hop, 1

theorem st_op_sub (hs : CapStatic p G lvl cnt) (hsrc : G src)
    (hre : ReSpecS re (InvX p lvl none (W0 ++ [(l.closure, lvl src)]) (fs0 ++ [l])) E)
    (hop : p.bytecode.getD src 0 = Compiler.op.sub) :
    St (InvX p lvl none (W0 ++ [(l.closure, lvl src)]) (fs0 ++ [l])) (step p re src)
      (StepQ p lvl W0 fs0 l src) E := by
  st_op hop
  all_goals q_seq hs, hsrc, hop, 1

theorem st_op_mul (hs : CapStatic p G lvl cnt) (hsrc : G src)
    (hre : ReSpecS re (InvX p lvl none (W0 ++ [(l.closure, lvl src)]) (fs0 ++ [l])) E)
    (hop : p.bytecode.getD src 0 = Compiler.op.mul) :
    St (InvX p lvl none (W0 ++ [(l.closure, lvl src)]) (fs0 ++ [l])) (step p re src)
      (StepQ p lvl W0 fs0 l src) E := by
  st_op hop
  all_goals q_seq hs, hsrc, hop, 1

theorem st_op_div (hs : CapStatic p G lvl cnt) (hsrc : G src)
    (hre : ReSpecS re (InvX p lvl none (W0 ++ [(l.closure, lvl src)]) (fs0 ++ [l])) E)
    (hop : p.bytecode.getD src 0 = Compiler.op.div) :
    St (InvX p lvl none (W0 ++ [(l.closure, lvl src)]) (fs0 ++ [l])) (step p re src)
      (StepQ p lvl W0 fs0 l src) E := by
  st_op hop
  all_goals q_seq hs, hsrc, hop, 1

theorem st_op_equals (hs : CapStatic p G lvl cnt) (hsrc : G src)
    (hre : ReSpecS re (InvX p lvl none (W0 ++ [(l.closure, lvl src)]) (fs0 ++ [l])) E)
    (hop : p.bytecode.getD src 0 = Compiler.op.equals) :
    St (InvX p lvl none (W0 ++ [(l.closure, lvl src)]) (fs0 ++ [l])) (step p re src)
      (StepQ p lvl W0 fs0 l src) E := by
  st_op hop
  all_goals q_seq hs, hsrc, hop, 1

theorem st_op_notEquals (hs : CapStatic p G lvl cnt) (hsrc : G src)
    (hre : ReSpecS re (InvX p lvl none (W0 ++ [(l.closure, lvl src)]) (fs0 ++ [l])) E)
    (hop : p.bytecode.getD src 0 = Compiler.op.notEquals) :
    St (InvX p lvl none (W0 ++ [(l.closure, lvl src)]) (fs0 ++ [l])) (step p re src)
      (StepQ p lvl W0 fs0 l src) E := by
  st_op hop
  all_goals q_seq hs, hsrc, hop, 1

theorem st_op_less (hs : CapStatic p G lvl cnt) (hsrc : G src)
    (hre : ReSpecS re (InvX p lvl none (W0 ++ [(l.closure, lvl src)]) (fs0 ++ [l])) E)
    (hop : p.bytecode.getD src 0 = Compiler.op.less) :
    St (InvX p lvl none (W0 ++ [(l.closure, lvl src)]) (fs0 ++ [l])) (step p re src)
      (StepQ p lvl W0 fs0 l src) E := by
  st_op hop
  all_goals q_seq hs, hsrc, hop, 1

theorem st_op_lessOrEq (hs : CapStatic p G lvl cnt) (hsrc : G src)
    (hre : ReSpecS re (InvX p lvl none (W0 ++ [(l.closure, lvl src)]) (fs0 ++ [l])) E)
    (hop : p.bytecode.getD src 0 = Compiler.op.lessOrEq) :
    St (InvX p lvl none (W0 ++ [(l.closure, lvl src)]) (fs0 ++ [l])) (step p re src)
      (StepQ p lvl W0 fs0 l src) E := by
  st_op hop
  all_goals q_seq hs, hsrc, hop, 1

end Cao.Vm
