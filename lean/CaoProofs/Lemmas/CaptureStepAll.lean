import CaoProofs.Lemmas.CaptureOpsA
import CaoProofs.Lemmas.CaptureOpsB
import CaoProofs.Lemmas.CaptureOpsC
import CaoProofs.Lemmas.CaptureOpsD
import CaoProofs.Lemmas.CaptureOpsE
import CaoProofs.Lemmas.CaptureReg
/-!
# One instruction keeps the capture invariant (C04c, stage A): `st_step`
-/
namespace Cao.Vm
open Cao.Gc Cao.C02
set_option linter.unusedSectionVars false
set_option linter.unusedVariables false

variable {p : Prog} {G : Nat → Prop} {lvl cnt : Nat → Nat} {E : ErrKind → Prop} [ErrClass E]
  {re : Reenter} {W0 : List (Option Nat × Nat)} {fs0 : List Frame} {l : Frame} {src : Nat}

theorem st_op_registerUpvalue (hs : CapStatic p G lvl cnt) (hsrc : G src)
    (hop : p.bytecode.getD src 0 = Compiler.op.registerUpvalue) :
    St (InvX p lvl none (W0 ++ [(l.closure, lvl src)]) (fs0 ++ [l])) (step p re src)
      (StepQ p lvl W0 fs0 l src) E := by
  have h := st_regUp (p := p) (lvl := lvl) (E := E) (re := re) (W0 := W0) (fs0 := fs0) (l := l) (src := src)
    (n := lvl src) (x := none) (a := 0) (hd0 := 0) (k := 0) hop (hs.reg src hsrc hop) (.inl rfl)
  refine st_conseq h (fun s hs' => ⟨hs', fun hx => by cases hx⟩) (fun ctl s' hq => ?_) (fun _ h => h)
  obtain ⟨h1, h2, h3, _⟩ := hq
  refine StepQ.ord h1 h3 ?_
  rw [h2]
  exact hs.seq src 3 hsrc (by rw [hop]; decide) (by rw [hop]; decide) (by rw [hop]; decide) (by rw [hop]; decide)

/-- **stage A — one instruction of the normal phase**: it keeps the invariant, moves to a position of the
same level (or calls / returns / starts a closure), and raises neither capture assertion -/
theorem st_step (hs : CapStatic p G lvl cnt) (hc : Cfi p G) (hsrc : G src) (hroot : RootedIn W0 fs0)
    (hre : ReSpecS re (InvX p lvl none (W0 ++ [(l.closure, lvl src)]) (fs0 ++ [l])) E) :
    St (InvX p lvl none (W0 ++ [(l.closure, lvl src)]) (fs0 ++ [l])) (step p re src)
      (StepQ p lvl W0 fs0 l src) E := by
  by_cases h0 : p.bytecode.getD src 0 = Compiler.op.initTable; · exact st_op_initTable hs hsrc hre h0
  by_cases h1 : p.bytecode.getD src 0 = Compiler.op.getProperty; · exact st_op_getProperty hs hsrc hre h1
  by_cases h2 : p.bytecode.getD src 0 = Compiler.op.setProperty; · exact st_op_setProperty hs hsrc hre h2
  by_cases h3 : p.bytecode.getD src 0 = Compiler.op.beginForEach; · exact st_op_beginForEach hs hsrc hre h3
  by_cases h4 : p.bytecode.getD src 0 = Compiler.op.forEach; · exact st_op_forEach hs hsrc hre h4
  by_cases h5 : p.bytecode.getD src 0 = Compiler.op.gotoIfTrue; · exact st_op_gotoIfTrue hs hsrc h5
  by_cases h6 : p.bytecode.getD src 0 = Compiler.op.gotoIfFalse; · exact st_op_gotoIfFalse hs hsrc h6
  by_cases h7 : p.bytecode.getD src 0 = Compiler.op.goto; · exact st_op_goto hs hsrc h7
  by_cases h8 : p.bytecode.getD src 0 = Compiler.op.swapLast; · exact st_op_swapLast hs hsrc hre h8
  by_cases h9 : p.bytecode.getD src 0 = Compiler.op.scalarNil; · exact st_op_scalarNil hs hsrc hre h9
  by_cases h10 : p.bytecode.getD src 0 = Compiler.op.clearStack; · exact st_op_clearStack hs hsrc hre h10
  by_cases h11 : p.bytecode.getD src 0 = Compiler.op.setLocalVar; · exact st_op_setLocalVar hs hsrc hre h11
  by_cases h12 : p.bytecode.getD src 0 = Compiler.op.readLocalVar; · exact st_op_readLocalVar hs hsrc hre h12
  by_cases h13 : p.bytecode.getD src 0 = Compiler.op.setGlobalVar; · exact st_op_setGlobalVar hs hsrc hre h13
  by_cases h14 : p.bytecode.getD src 0 = Compiler.op.readGlobalVar; · exact st_op_readGlobalVar hs hsrc hre h14
  by_cases h15 : p.bytecode.getD src 0 = Compiler.op.pop; · exact st_op_pop hs hsrc hre h15
  by_cases h16 : p.bytecode.getD src 0 = Compiler.op.callFunction; · exact st_op_callFunction hs hsrc hre h16
  by_cases h17 : p.bytecode.getD src 0 = Compiler.op.ret; · exact st_op_ret hroot h17
  by_cases h18 : p.bytecode.getD src 0 = Compiler.op.exit; · exact st_op_exit h18
  by_cases h19 : p.bytecode.getD src 0 = Compiler.op.copyLast; · exact st_op_copyLast hs hsrc hre h19
  by_cases h20 : p.bytecode.getD src 0 = Compiler.op.nativeFunctionPointer
  · exact st_op_nativeFunctionPointer hs hsrc hre h20
  by_cases h21 : p.bytecode.getD src 0 = Compiler.op.functionPointer; · exact st_op_functionPointer hs hsrc h21
  by_cases h22 : p.bytecode.getD src 0 = Compiler.op.closure; · exact st_op_closure hs hsrc h22
  by_cases h23 : p.bytecode.getD src 0 = Compiler.op.scalarInt; · exact st_op_scalarInt hs hsrc hre h23
  by_cases h24 : p.bytecode.getD src 0 = Compiler.op.scalarFloat; · exact st_op_scalarFloat hs hsrc hre h24
  by_cases h25 : p.bytecode.getD src 0 = Compiler.op.not; · exact st_op_not hs hsrc hre h25
  by_cases h26a : p.bytecode.getD src 0 = Compiler.op.and; · exact st_op_and hs hsrc hre h26a
  by_cases h26b : p.bytecode.getD src 0 = Compiler.op.or; · exact st_op_or hs hsrc hre h26b
  by_cases h26c : p.bytecode.getD src 0 = Compiler.op.xor; · exact st_op_xor hs hsrc hre h26c
  by_cases h26d : p.bytecode.getD src 0 = Compiler.op.add; · exact st_op_add hs hsrc hre h26d
  by_cases h26e : p.bytecode.getD src 0 = Compiler.op.sub; · exact st_op_sub hs hsrc hre h26e
  by_cases h26f : p.bytecode.getD src 0 = Compiler.op.mul; · exact st_op_mul hs hsrc hre h26f
  by_cases h26g : p.bytecode.getD src 0 = Compiler.op.div; · exact st_op_div hs hsrc hre h26g
  by_cases h26h : p.bytecode.getD src 0 = Compiler.op.equals; · exact st_op_equals hs hsrc hre h26h
  by_cases h26i : p.bytecode.getD src 0 = Compiler.op.notEquals; · exact st_op_notEquals hs hsrc hre h26i
  by_cases h26j : p.bytecode.getD src 0 = Compiler.op.less; · exact st_op_less hs hsrc hre h26j
  by_cases h26k : p.bytecode.getD src 0 = Compiler.op.lessOrEq; · exact st_op_lessOrEq hs hsrc hre h26k
  by_cases h27 : p.bytecode.getD src 0 = Compiler.op.stringLiteral; · exact st_op_stringLiteral hs hsrc hre h27
  by_cases h28 : p.bytecode.getD src 0 = Compiler.op.callNative; · exact st_op_callNative hs hsrc hre h28
  by_cases h29 : p.bytecode.getD src 0 = Compiler.op.len; · exact st_op_len hs hsrc hre h29
  by_cases h30 : p.bytecode.getD src 0 = Compiler.op.nthRow; · exact st_op_nthRow hs hsrc hre h30
  by_cases h31 : p.bytecode.getD src 0 = Compiler.op.appendTable; · exact st_op_appendTable hs hsrc hre h31
  by_cases h32 : p.bytecode.getD src 0 = Compiler.op.popTable; · exact st_op_popTable hs hsrc h32
  by_cases h33 : p.bytecode.getD src 0 = Compiler.op.setUpvalue; · exact st_op_setUpvalue hs hsrc hre h33
  by_cases h34 : p.bytecode.getD src 0 = Compiler.op.readUpvalue; · exact st_op_readUpvalue hs hsrc hre h34
  by_cases h35 : p.bytecode.getD src 0 = Compiler.op.registerUpvalue; · exact st_op_registerUpvalue hs hsrc h35
  by_cases h36 : p.bytecode.getD src 0 = Compiler.op.closeUpvalue; · exact st_op_closeUpvalue hs hsrc hre h36
  exfalso
  apply hc.valid src hsrc
  apply spanOf_none_of_no_branch <;> simp only [beq_iff_eq, Bool.or_eq_true, not_or] <;> first | assumption | skip
  exact ⟨⟨⟨⟨⟨⟨⟨⟨⟨⟨h26a, h26b⟩, h26c⟩, h26d⟩, h26e⟩, h26f⟩, h26g⟩, h26h⟩, h26i⟩, h26j⟩, h26k⟩

end Cao.Vm
