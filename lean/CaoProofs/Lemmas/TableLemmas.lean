import CaoModel.Table
import CaoProofs.Props.C12
/-!
# Helper lemmas for C07 (`CaoLangTable`)

* list facts: pigeonhole for duplicate-free lists, `findC` (lookup of an entry by canonical key in
  an insertion-ordered entry list) and how it interacts with append / overwrite / filter,
* the *interface* of `HMap` that the table proofs use, derived from the public theorems of
  `CaoProofs/Props/C12.lean` (`hm_inv_preserved`, `hm_frame`, `hm_get_after`, `step_refines`,
  `R_canon`): what `insert` / `remove` do to `get`, when `insert` reports `allocErr`, and that the
  entry count is determined by the set of keys.
-/
namespace Cao.TL
open Cao

/-! ## lists -/

/-- pigeonhole: a duplicate-free list contained in another list is not longer -/
theorem nodup_subset_length {α : Type} [DecidableEq α] :
    ∀ {l1 l2 : List α}, l1.Nodup → l1 ⊆ l2 → l1.length ≤ l2.length := by
  intro l1
  induction l1 with
  | nil => intro l2 _ _; simp
  | cons a l1 ih =>
    intro l2 hnd hsub
    have ha : a ∈ l2 := hsub (by simp)
    rw [List.nodup_cons] at hnd
    have hsub' : l1 ⊆ l2.erase a := by
      intro x hx
      have hxa : x ≠ a := fun e => hnd.1 (e ▸ hx)
      exact (List.mem_erase_of_ne hxa).mpr (hsub (List.mem_cons_of_mem _ hx))
    have h1 := ih hnd.2 hsub'
    rw [List.length_erase_of_mem ha] at h1
    have : 0 < l2.length := List.length_pos_of_mem ha
    simp only [List.length_cons]; omega

theorem filterMap_fst {α β : Type} (f : α → Option (α × β)) :
    ∀ (ks : List α), (∀ k ∈ ks, ∃ v, f k = some (k, v)) → (ks.filterMap f).map Prod.fst = ks := by
  intro ks
  induction ks with
  | nil => intro _; rfl
  | cons k ks ih =>
    intro h
    obtain ⟨v, hv⟩ := h k (by simp)
    rw [List.filterMap_cons, hv]
    simp only [List.map_cons]
    rw [ih (fun k' hk' => h k' (List.mem_cons_of_mem _ hk'))]

theorem filterMap_eq_self {α : Type} (f : α → Option α) :
    ∀ (l : List α), (∀ e ∈ l, f e = some e) → l.filterMap f = l := by
  intro l
  induction l with
  | nil => intro _; rfl
  | cons a l ih =>
    intro h
    rw [List.filterMap_cons, h a (by simp), ih (fun e he => h e (List.mem_cons_of_mem _ he))]

/-! ## `findC`: the entry stored under a canonical key -/

section FindC
variable {W C : Type} [DecidableEq C] (ck : W → C)

/-- first entry of `l` whose key has canonical form `c` -/
def findC (l : List (W × W)) (c : C) : Option (W × W) := l.find? (fun e => decide (ck e.1 = c))

/-- canonical keys of an entry list -/
def ckeys (l : List (W × W)) : List C := l.map (fun e => ck e.1)

@[simp] theorem findC_nil (c : C) : findC ck ([] : List (W × W)) c = none := rfl

theorem findC_cons (e : W × W) (l : List (W × W)) (c : C) :
    findC ck (e :: l) c = if ck e.1 = c then some e else findC ck l c := by
  unfold findC
  rw [List.find?_cons]
  by_cases h : ck e.1 = c <;> simp [h]

variable {ck}

theorem findC_some {l : List (W × W)} {c : C} {e : W × W} (h : findC ck l c = some e) :
    e ∈ l ∧ ck e.1 = c := by
  refine ⟨List.mem_of_find?_eq_some h, ?_⟩
  have := List.find?_some h
  simpa using this

theorem findC_none {l : List (W × W)} {c : C} : findC ck l c = none ↔ ∀ e ∈ l, ck e.1 ≠ c := by
  unfold findC
  rw [List.find?_eq_none]
  simp

theorem findC_none_iff_ckeys {l : List (W × W)} {c : C} : findC ck l c = none ↔ c ∉ ckeys ck l := by
  rw [findC_none]
  unfold ckeys
  simp only [List.mem_map, not_exists, not_and]

theorem findC_of_mem {l : List (W × W)} (nd : (ckeys ck l).Nodup) {e : W × W} (he : e ∈ l) :
    findC ck l (ck e.1) = some e := by
  induction l with
  | nil => cases he
  | cons a l ih =>
    rw [findC_cons]
    unfold ckeys at nd
    simp only [List.map_cons, List.nodup_cons] at nd
    rcases List.mem_cons.mp he with rfl | hel
    · simp
    · have hne : ck a.1 ≠ ck e.1 := by
        intro heq
        exact nd.1 (List.mem_map.mpr ⟨e, hel, heq.symm⟩)
      rw [if_neg hne]
      exact ih nd.2 hel

theorem findC_append (l l' : List (W × W)) (c : C) :
    findC ck (l ++ l') c = (findC ck l c).or (findC ck l' c) := by
  unfold findC; rw [List.find?_append]

/-- appending an entry whose canonical key is new -/
theorem findC_concat_new {l : List (W × W)} {e : W × W} (hnew : findC ck l (ck e.1) = none)
    (c : C) : findC ck (l ++ [e]) c = if c = ck e.1 then some e else findC ck l c := by
  rw [findC_append, findC_cons, findC_nil]
  by_cases hc : c = ck e.1
  · subst hc; rw [hnew]; simp
  · have : ck e.1 ≠ c := fun h => hc h.symm
    rw [if_neg hc, if_neg this]; simp

/-- dropping the last entry of a list without duplicate canonical keys -/
theorem findC_dropLast {l : List (W × W)} {e : W × W} (nd : (ckeys ck (l ++ [e])).Nodup) (c : C) :
    findC ck l c = if c = ck e.1 then none else findC ck (l ++ [e]) c := by
  have hnew : findC ck l (ck e.1) = none := by
    rw [findC_none_iff_ckeys]
    unfold ckeys at nd ⊢
    rw [List.map_append, List.nodup_append] at nd
    intro hm
    exact nd.2.2 _ hm _ (by simp) rfl
  rw [findC_concat_new hnew]
  by_cases hc : c = ck e.1
  · subst hc; simp [hnew]
  · simp [hc]

/-- overwrite the value of the entry stored under canonical key `c0` (in place) -/
def setVal (c0 : C) (v : W) (l : List (W × W)) : List (W × W) :=
  l.map (fun e => if ck e.1 = c0 then (e.1, v) else e)

theorem setVal_fst (c0 : C) (v : W) (l : List (W × W)) :
    (setVal (ck := ck) c0 v l).map Prod.fst = l.map Prod.fst := by
  unfold setVal
  rw [List.map_map]
  apply List.map_congr_left
  intro e _
  simp only [Function.comp]
  split <;> rfl

theorem setVal_ckeys (c0 : C) (v : W) (l : List (W × W)) :
    ckeys ck (setVal (ck := ck) c0 v l) = ckeys ck l := by
  unfold ckeys setVal
  rw [List.map_map]
  apply List.map_congr_left
  intro e _
  simp only [Function.comp]
  split <;> rfl

theorem findC_setVal (c0 : C) (v : W) (l : List (W × W)) (c : C) :
    findC ck (setVal (ck := ck) c0 v l) c =
      (findC ck l c).map (fun e => if ck e.1 = c0 then (e.1, v) else e) := by
  induction l with
  | nil => rfl
  | cons a l ih =>
    have hcons : setVal (ck := ck) c0 v (a :: l) =
        (if ck a.1 = c0 then (a.1, v) else a) :: setVal (ck := ck) c0 v l := rfl
    rw [hcons, findC_cons, findC_cons, ih]
    have hfst : ck (if ck a.1 = c0 then (a.1, v) else a).1 = ck a.1 := by split <;> rfl
    rw [hfst]
    by_cases h : ck a.1 = c <;> simp [h]

/-- overwriting under a key that is present: pointwise description -/
theorem findC_setVal_present {l : List (W × W)} {c0 : C} {e0 : W × W}
    (h0 : findC ck l c0 = some e0) (v : W) (c : C) :
    findC ck (setVal (ck := ck) c0 v l) c = if c = c0 then some (e0.1, v) else findC ck l c := by
  rw [findC_setVal]
  by_cases hc : c = c0
  · subst hc
    rw [h0, if_pos rfl]
    simp [(findC_some h0).2]
  · rw [if_neg hc]
    cases hf : findC ck l c with
    | none => rfl
    | some e =>
      have := (findC_some hf).2
      have hne : ck e.1 ≠ c0 := by rw [this]; exact hc
      simp [hne]

theorem findC_filter (c0 : C) (l : List (W × W)) (c : C) :
    findC ck (l.filter (fun e => !decide (ck e.1 = c0))) c =
      if c = c0 then none else findC ck l c := by
  induction l with
  | nil => simp
  | cons a l ih =>
    by_cases ha : ck a.1 = c0
    · rw [List.filter_cons]
      simp only [ha, decide_true, Bool.not_true, Bool.false_eq_true, if_false]
      rw [ih, findC_cons]
      by_cases hc : c = c0
      · simp [hc]
      · have : ¬ ck a.1 = c := by rw [ha]; exact fun h => hc h.symm
        simp [hc, this]
    · rw [List.filter_cons]
      simp only [ha, decide_false, Bool.not_false, if_true]
      rw [findC_cons, findC_cons, ih]
      by_cases hc : c = c0
      · simp [hc, ha]
      · simp [hc]

omit [DecidableEq C] in
theorem ckeys_filter_nodup {l : List (W × W)} (nd : (ckeys ck l).Nodup) (p : W × W → Bool) :
    (ckeys ck (l.filter p)).Nodup := by
  unfold ckeys at nd ⊢
  exact List.Nodup.sublist (List.Sublist.map _ List.filter_sublist) nd

/-- `AL.lookup` of the association list `canonical key ↦ entry` is `findC` -/
theorem lookup_canon (l : List (W × W)) (c : C) :
    AL.lookup (l.map (fun e => (ck e.1, e))) c = findC ck l c := by
  induction l with
  | nil => rfl
  | cons a l ih =>
    rw [List.map_cons, AL.lookup_cons, findC_cons, ih]

end FindC

/-! ## the `HMap` interface used by the table -/

section HM
variable {K V : Type} [DecidableEq K] {hashOf : K → UInt64}

/-- capacity after making room for one more key in a table of capacity `cap` holding `len`
    keys: growth (one allocation, which fails iff `failAt = some 0`) is needed exactly when the
    load factor 0.7 would be exceeded; `none` = the allocation failed. -/
def roomCap (cap len : Nat) (failAt : Option Nat) : Option Nat :=
  if HMap.needsGrow (len + 1) cap then
    (if (C12.oracle failAt).next.1 then some (HMap.growCap cap) else none)
  else some cap

omit [DecidableEq K] in
theorem noPanic_ne {α : Type} {r : Res α} (h : C12.NoPanic r) (w : String) : r ≠ .panic w := by
  intro e; subst e; exact h

/-- the number of stored entries is the length of any duplicate-free association list with
    the same lookups -/
theorem hm_count_eq {m : HMap K V} (hI : C12.HInv hashOf m) (l : List (K × V)) (wf : AL.WF l)
    (h : ∀ k, AL.lookup l k = m.get hashOf k) : m.count = l.length := by
  have habs : OA.Abs m.cap m.slots (AL.lookup l) := by
    have : AL.lookup l = OA.get m.cap (HMap.home hashOf m.cap) m.slots := funext h
    rw [this]; exact OA.Abs_get hI.2.1
  rw [hI.2.2.1]
  exact (AL.length_eq_size hI.2.1 wf habs).symm

/-- `insert`, any allocation oracle: invariant kept, no panic, and unless the allocation failed the
    map is updated at `k` only -/
theorem hm_insert_gen {m : HMap K V} (hI : C12.HInv hashOf m) (k : K) (v : V) (al : Alloc) :
    C12.HInv hashOf (m.insert hashOf k v al).1 ∧ (∀ w, (m.insert hashOf k v al).2.2 ≠ .panic w) ∧
    ((m.insert hashOf k v al).2.2 ≠ .allocErr →
      ∀ k', (m.insert hashOf k v al).1.get hashOf k' = if k' = k then some v else m.get hashOf k') := by
  obtain ⟨h1, h2⟩ := (C12.hm_inv_preserved hI).1 k v al
  refine ⟨h1, noPanic_ne h2, ?_⟩
  intro hne k'
  by_cases hk : k' = k
  · subst hk; rw [if_pos rfl]; exact (C12.hm_get_after hI k').1 v al hne
  · rw [if_neg hk]; exact (C12.hm_frame hI hk).1 v al

/-- `remove`: always succeeds, keeps the capacity, clears `k` only -/
theorem hm_remove_gen {m : HMap K V} (hI : C12.HInv hashOf m) (k : K) :
    ∃ m' old, m.remove hashOf k = (m', .ok old) ∧ C12.HInv hashOf m' ∧ m'.cap = m.cap ∧
      ∀ k', m'.get hashOf k' = if k' = k then none else m.get hashOf k' := by
  have hstep := C12.step_refines (C12.R_canon hI) (.remove k)
  have hinv := (C12.hm_inv_preserved hI).2.2.1 k
  have hget := (C12.hm_get_after hI k).2
  have hframe := fun k' (hk : k' ≠ k) => (C12.hm_frame hI hk).2.2
  rcases hrem : m.remove hashOf k with ⟨m', r⟩
  rw [hrem] at hinv hget hframe
  simp only [C12.modelStep, hrem, C12.specStep] at hstep
  cases r with
  | ok old =>
    refine ⟨m', old, rfl, hinv.1, ?_, ?_⟩
    · exact hstep.1.2.1.symm
    · intro k'
      by_cases hk : k' = k
      · subst hk; rw [if_pos rfl]; exact hget
      · rw [if_neg hk]; exact hframe k' hk
  | allocErr =>
    exfalso
    rcases hstep.2 with h | ⟨_, _, h, _⟩ | ⟨_, _, h, _⟩ <;> cases h
  | panic w => exact absurd hinv.2 (by intro h; exact h)

/-- `insert` under the per-operation oracle `C12.oracle failAt`: which result it reports and
    the capacity it ends with -/
theorem hm_insert_oracle {m : HMap K V} (hI : C12.HInv hashOf m) (k : K) (v : V)
    (fa : Option Nat) :
    (∀ w, m.get hashOf k = some w →
      ∃ m' al', m.insert hashOf k v (C12.oracle fa) = (m', al', .ok (some (k, w))) ∧
        m'.cap = m.cap) ∧
    (m.get hashOf k = none →
      (∀ cap', roomCap m.cap m.count fa = some cap' →
        ∃ m' al', m.insert hashOf k v (C12.oracle fa) = (m', al', .ok none) ∧ m'.cap = cap') ∧
      (roomCap m.cap m.count fa = none →
        ∃ m' al', m.insert hashOf k v (C12.oracle fa) = (m', al', .allocErr))) := by
  have hstep := C12.step_refines (C12.R_canon hI) (.insert k v fa)
  have hlook : AL.lookup m.toList k = m.get hashOf k :=
    (OA.get_spec hI.2.1 (AL.abs_toList hI.2.1) k).symm
  have hlen : m.toList.length = m.count := hI.2.2.1.symm
  rcases hins : m.insert hashOf k v (C12.oracle fa) with ⟨m', al', r⟩
  simp only [C12.modelStep, hins, C12.specStep, hlook] at hstep
  constructor
  · intro w hw
    rw [hw] at hstep
    simp only at hstep
    obtain ⟨hR, hout⟩ := hstep
    have hcap : m.cap = m'.cap := by cases r <;> exact hR.2.1
    cases r with
    | ok old =>
      rcases hout with h | ⟨_, _, h, _⟩ | ⟨_, _, h, _⟩
      · simp only [C12.Out.displaced.injEq] at h
        subst h
        exact ⟨m', al', rfl, hcap.symm⟩
      · cases h
      · cases h
    | allocErr => rcases hout with h | ⟨_, _, h, _⟩ | ⟨_, _, h, _⟩ <;> cases h
    | panic w => rcases hout with h | ⟨_, _, h, _⟩ | ⟨_, _, h, _⟩ <;> cases h
  · intro hnone
    rw [hnone] at hstep
    simp only [C12.specMakeRoom, hlen] at hstep
    unfold roomCap
    cases hg : HMap.needsGrow (m.count + 1) m.cap with
    | false =>
      simp only [hg, Bool.false_eq_true, if_false] at hstep ⊢
      obtain ⟨hR, hout⟩ := hstep
      have hcap : m.cap = m'.cap := by cases r <;> exact hR.2.1
      refine ⟨?_, by intro h; cases h⟩
      intro cap' hc
      simp only [Option.some.injEq] at hc
      subst hc
      cases r with
      | ok old =>
        rcases hout with h | ⟨_, _, h, _⟩ | ⟨_, _, h, _⟩
        · simp only [C12.Out.displaced.injEq] at h
          subst h
          exact ⟨m', al', rfl, hcap.symm⟩
        · cases h
        · cases h
      | allocErr => rcases hout with h | ⟨_, _, h, _⟩ | ⟨_, _, h, _⟩ <;> cases h
      | panic w => rcases hout with h | ⟨_, _, h, _⟩ | ⟨_, _, h, _⟩ <;> cases h
    | true =>
      cases hn : (C12.oracle fa).next.1 with
      | true =>
        simp only [hg, hn, if_true] at hstep ⊢
        obtain ⟨hR, hout⟩ := hstep
        have hcap : HMap.growCap m.cap = m'.cap := by cases r <;> exact hR.2.1
        refine ⟨?_, by intro h; cases h⟩
        intro cap' hc
        simp only [Option.some.injEq] at hc
        subst hc
        cases r with
        | ok old =>
          rcases hout with h | ⟨_, _, h, _⟩ | ⟨_, _, h, _⟩
          · simp only [C12.Out.displaced.injEq] at h
            subst h
            exact ⟨m', al', rfl, hcap.symm⟩
          · cases h
          · cases h
        | allocErr => rcases hout with h | ⟨_, _, h, _⟩ | ⟨_, _, h, _⟩ <;> cases h
        | panic w => rcases hout with h | ⟨_, _, h, _⟩ | ⟨_, _, h, _⟩ <;> cases h
      | false =>
        simp only [hg, hn, if_true, Bool.false_eq_true, if_false] at hstep ⊢
        obtain ⟨hR, hout⟩ := hstep
        refine ⟨(by intro cap' h; cases h), fun _ => ?_⟩
        cases r with
        | ok old => rcases hout with h | ⟨_, _, h, _⟩ | ⟨_, _, h, _⟩ <;> cases h
        | allocErr => exact ⟨m', al', rfl⟩
        | panic w => rcases hout with h | ⟨_, _, h, _⟩ | ⟨_, _, h, _⟩ <;> cases h

end HM

end Cao.TL
