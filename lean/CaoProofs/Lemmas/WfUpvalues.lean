import CaoProofs.Lemmas.WfFinal
/-!
# Upvalue operands are below the number of upvalues their closure registers (C10, clause `checkUp`)

`UpT bc L n a b`: the byte range `[a, b)` of `bc` is the code of one *nesting level* whose closure
registers `n` upvalues: a sequence of

* plain instructions (anything but `Closure` / `CopyLast` / `RegisterUpvalue`), where every
  `ReadUpvalue i` / `SetUpvalue i` has `i < n`, and
* closure blocks `Goto _; ⟨body⟩; Closure h arity; (CopyLast; RegisterUpvalue j l)^m` whose body
  `⟨body⟩` is the code of a level with `m` upvalues (`UpT bc L m …`), whose label `(h, start of body)`
  is in the label log `L`, and whose non-local captures (`l = 0`) have `j < n`.

The predicate does not look at jump operands (so back-patching does not disturb it) and it is
ghost-free: it only talks about the emitted bytes and the label log.

`Up m`: the Hoare triple that threads `UpT` (and the consistency `US` of the compiler's upvalue
tables) through the compiler; `closure_region_upvalues` is the rule for `closureCode`.
-/
namespace Cao.Compiler
open Cao Cao.Bytecode Cao.Compiler.Wf

/-! ## the level structure of a byte range -/

/-- the opcodes that only occur in the tail of a closure expression -/
def isClosPart (o : UInt8) : Bool := o == op.closure || o == op.copyLast || o == op.registerUpvalue

/-- upvalue accesses -/
def isUpAcc (o : UInt8) : Bool := o == op.setUpvalue || o == op.readUpvalue

/-- `m` pairs `CopyLast; RegisterUpvalue j l` start at `at_`; the non-local ones (`l = 0`) have `j < n` -/
def Pairs (bc : Array UInt8) (n : Nat) : Nat → Nat → Prop
  | 0, _ => True
  | m+1, at_ => bc.getD at_ 0 = op.copyLast ∧ bc.getD (at_ + 1) 0 = op.registerUpvalue ∧
      (bc.getD (at_ + 3) 0 = 0 → (bc.getD (at_ + 2) 0).toNat < n) ∧ Pairs bc n m (at_ + 4)

inductive UpT (bc : Array UInt8) (L : List (UInt32 × Nat)) : Nat → Nat → Nat → Prop
  | nil (n a : Nat) : UpT bc L n a a
  | plain {n a k b : Nat} : Gen.spanOf (bc.getD a 0) = some k → isClosPart (bc.getD a 0) = false →
      (isUpAcc (bc.getD a 0) = true → rdU32 bc (a + 1) < n) → UpT bc L n (a + k) b → UpT bc L n a b
  | clos {n m a c b : Nat} : bc.getD a 0 = op.goto → UpT bc L m (a + 5) c → bc.getD c 0 = op.closure →
      (UInt32.ofNat (rdU32 bc (c + 1)), a + 5) ∈ L → m ≤ 255 → Pairs bc n m (c + 9) →
      UpT bc L n (c + 9 + 4 * m) b → UpT bc L n a b

theorem Pairs.mono {bc bc' : Array UInt8} {n n' : Nat} (hn : n ≤ n') : ∀ {m at_ : Nat}, Pairs bc n m at_ →
    (∀ i, at_ ≤ i → i < at_ + 4 * m → bc'.getD i 0 = bc.getD i 0) → Pairs bc' n' m at_
  | 0, _, _, _ => trivial
  | m+1, at_, h, he => by
    obtain ⟨h1, h2, h3, h4⟩ := h
    refine ⟨by rw [he _ (by omega) (by omega)]; exact h1, by rw [he _ (by omega) (by omega)]; exact h2, ?_,
      Pairs.mono hn h4 fun i hi1 hi2 => he i (by omega) (by omega)⟩
    rw [he _ (by omega) (by omega), he _ (by omega) (by omega)]
    intro hz; exact Nat.lt_of_lt_of_le (h3 hz) hn

theorem Pairs.tiled {bc : Array UInt8} {n : Nat} : ∀ {m at_ : Nat}, Pairs bc n m at_ →
    Tiled bc at_ (at_ + 4 * m)
  | 0, _, _ => .nil _
  | m+1, at_, h => by
    obtain ⟨h1, h2, _, h4⟩ := h
    have e : at_ + 4 * (m + 1) = at_ + 1 + 3 + 4 * m := by omega
    rw [e]
    refine .cons (n := 1) (by rw [h1]; decide) (.cons (n := 3) (by rw [h2]; decide) ?_)
    have := Pairs.tiled h4
    rwa [show at_ + 4 + 4 * m = at_ + 1 + 3 + 4 * m by omega] at this

/-- the instruction starts inside a run of pairs are the `CopyLast`s and the `RegisterUpvalue`s -/
theorem Pairs.starts {bc : Array UInt8} {n : Nat} : ∀ {m at_ pos : Nat}, Pairs bc n m at_ →
    Tiled bc at_ pos → pos < at_ + 4 * m →
    (bc.getD pos 0 = op.copyLast) ∨
    (bc.getD pos 0 = op.registerUpvalue ∧ (bc.getD (pos + 2) 0 = 0 → (bc.getD (pos + 1) 0).toNat < n))
  | 0, _, _, _, ht, hlt => by have := ht.le; omega
  | m+1, at_, pos, h, ht, hlt => by
    obtain ⟨h1, h2, h3, h4⟩ := h
    cases ht with
    | nil => exact .inl h1
    | @cons _ k _ hs ht' =>
      rw [h1] at hs
      have : k = 1 := by
        have : Gen.spanOf op.copyLast = some 1 := by decide
        rw [this] at hs; cases hs; rfl
      subst this
      cases ht' with
      | nil => exact .inr ⟨h2, h3⟩
      | @cons _ k' _ hs' ht'' =>
        rw [h2] at hs'
        have : k' = 3 := by
          have : Gen.spanOf op.registerUpvalue = some 3 := by decide
          rw [this] at hs'; cases hs'; rfl
        subst this
        exact Pairs.starts h4 (by rwa [show at_ + 1 + 3 = at_ + 4 by omega] at ht'') (by omega)

theorem isUpAcc_span {o : UInt8} (h : isUpAcc o = true) : Gen.spanOf o = some 5 := by
  simp only [isUpAcc, Bool.or_eq_true, beq_iff_eq] at h
  rcases h with h | h <;> subst h <;> decide

theorem rdU32_congr {bc bc' : Array UInt8} {p : Nat} (h : ∀ i, p ≤ i → i < p + 4 → bc'.getD i 0 = bc.getD i 0) :
    rdU32 bc' p = rdU32 bc p := by
  rw [rdU32_eq, rdU32_eq, h p (by omega) (by omega), h (p + 1) (by omega) (by omega),
    h (p + 2) (by omega) (by omega), h (p + 3) (by omega) (by omega)]

theorem UpT.le {bc : Array UInt8} {L : List (UInt32 × Nat)} {n a b : Nat} (h : UpT bc L n a b) : a ≤ b := by
  induction h with
  | nil => exact Nat.le_refl _
  | plain hs _ _ _ ih => have := span_pos hs; omega
  | clos _ _ _ _ _ _ _ ih1 ih2 => omega

/-- the predicate only depends on the bytes of its range, and is monotone in the label log and in `n` -/
theorem UpT.mono {bc bc' : Array UInt8} {L L' : List (UInt32 × Nat)} {n n' a b : Nat} (h : UpT bc L n a b)
    (he : ∀ i, a ≤ i → i < b → bc'.getD i 0 = bc.getD i 0) (hL : ∀ l ∈ L, l ∈ L') (hn : n ≤ n') :
    UpT bc' L' n' a b := by
  induction h generalizing n' with
  | nil => exact .nil _ _
  | @plain n a k b hs hc hu ht ih =>
    have hk := span_pos hs
    have hle := ht.le
    have e0 := he a (Nat.le_refl _) (by omega)
    refine .plain (by rw [e0]; exact hs) (by rw [e0]; exact hc) ?_
      (ih (fun i h1 h2 => he i (by omega) h2) hn)
    rw [e0]
    intro hacc
    have hk5 := isUpAcc_span hacc
    rw [hs] at hk5; cases hk5
    rw [rdU32_congr (bc := bc) fun i h1 h2 => he i (by omega) (by omega)]
    exact Nat.lt_of_lt_of_le (hu hacc) hn
  | @clos n m a c b hg hb hcl hl hm hp ht ihb iht =>
    have h1 := hb.le
    have h2 := ht.le
    refine .clos (by rw [he a (Nat.le_refl _) (by omega)]; exact hg)
      (ihb (fun i h1 h2 => he i (by omega) (by omega)) (Nat.le_refl _))
      (by rw [he c (by omega) (by omega)]; exact hcl) ?_ hm
      (hp.mono hn fun i h1 h2 => he i (by omega) (by omega))
      (iht (fun i h1 h2 => he i (by omega) h2) hn)
    rw [rdU32_congr (bc := bc) fun i h1 h2 => he i (by omega) (by omega)]
    exact hL _ hl

theorem UpT.append {bc : Array UInt8} {L : List (UInt32 × Nat)} {n a b c : Nat} (h1 : UpT bc L n a b)
    (h2 : UpT bc L n b c) : UpT bc L n a c := by
  induction h1 with
  | nil => exact h2
  | plain hs hc hu _ ih => exact .plain hs hc hu (ih h2)
  | clos hg hb hcl hl hm hp _ _ ih => exact .clos hg hb hcl hl hm hp (ih h2)

/-- a level is a concatenation of whole instructions -/
theorem UpT.tiled {bc : Array UInt8} {L : List (UInt32 × Nat)} {n a b : Nat} (h : UpT bc L n a b) :
    Tiled bc a b := by
  induction h with
  | nil => exact .nil _
  | plain hs _ _ _ ih => exact .cons hs ih
  | @clos n m a c b hg _ hcl _ _ hp _ ihb iht =>
    refine .cons (n := 5) (by rw [hg]; decide) (ihb.trans ?_)
    refine .cons (n := 9) (by rw [hcl]; decide) ?_
    exact hp.tiled.trans iht

/-- every `Closure` instruction of a level (or of a level nested in it) has the label of its own
body: `(handle operand, start of the body)` is in the log, the body starting after a 5-byte `Goto`
inside the range -/
theorem UpT.closure_label {bc : Array UInt8} {L : List (UInt32 × Nat)} {n a b : Nat} (h : UpT bc L n a b) :
    ∀ c, Tiled bc a c → c < b → bc.getD c 0 = op.closure →
      ∃ a', a ≤ a' ∧ a' + 5 ≤ c ∧ (UInt32.ofNat (rdU32 bc (c + 1)), a' + 5) ∈ L := by
  induction h with
  | nil => intro c ht hlt; have := ht.le; omega
  | @plain n a k b hs hc hu ht ih =>
    intro c htc hlt hcl
    cases htc with
    | nil => rw [hcl] at hc; exact absurd hc (by decide)
    | @cons _ k' _ hs' ht' =>
      rw [hs] at hs'; cases hs'
      obtain ⟨a', h1, h2, h3⟩ := ih c ht' hlt hcl
      exact ⟨a', by omega, h2, h3⟩
  | @clos n m a c0 b hg hb hcl0 hl hm hp ht ihb iht =>
    intro c htc hlt hcl
    have hbt := hb.tiled
    have hble := hb.le
    cases htc with
    | nil => rw [hg] at hcl; exact absurd hcl (by decide)
    | @cons _ k' _ hs' ht' =>
      have : k' = 5 := by
        rw [hg] at hs'
        have : Gen.spanOf op.goto = some 5 := by decide
        rw [this] at hs'; cases hs'; rfl
      subst this
      rcases Nat.lt_or_ge c c0 with hlt0 | hge0
      · obtain ⟨a', h1, h2, h3⟩ := ihb c ht' hlt0 hcl
        exact ⟨a', by omega, h2, h3⟩
      · have ht2 := hbt.split ht' hge0
        cases ht2 with
        | nil => exact ⟨a, Nat.le_refl _, hble, hl⟩
        | @cons _ k'' _ hs'' ht'' =>
          have : k'' = 9 := by
            rw [hcl0] at hs''
            have : Gen.spanOf op.closure = some 9 := by decide
            rw [this] at hs''; cases hs''; rfl
          subst this
          rcases Nat.lt_or_ge c (c0 + 9 + 4 * m) with hlt1 | hge1
          · rcases hp.starts ht'' hlt1 with h | ⟨h, _⟩
            · rw [hcl] at h; exact absurd h (by decide)
            · rw [hcl] at h; exact absurd h (by decide)
          · have ht3 := hp.tiled.split ht'' hge1
            obtain ⟨a', h1, h2, h3⟩ := iht c ht3 hlt hcl
            exact ⟨a', by omega, h2, h3⟩

/-! ## actions that only touch tables other than the upvalue lists -/

/-- what the upvalue argument looks at -/
def ucore (s : CState) := (s.bytecode, s.labels, s.upvalues, s.functionId)

structure Keep {α : Type} (m : CM α) : Prop where
  run : ∀ s a s', m s = .ok (a, s') → ucore s' = ucore s

theorem keep_pure {α : Type} {a : α} : Keep (pure a : CM α) := by
  constructor; intro s b s' hr
  simp only [pure_run, Except.ok.injEq, Prod.mk.injEq] at hr
  rw [hr.2]
theorem keep_get : Keep (get : CM CState) := by
  constructor; intro s b s' hr
  simp only [get_run, Except.ok.injEq, Prod.mk.injEq] at hr
  rw [hr.2]
theorem keep_modify {f : CState → CState} (h : ∀ s, ucore (f s) = ucore s) : Keep (modify f : CM Unit) := by
  constructor; intro s b s' hr
  simp only [modify_run, Except.ok.injEq, Prod.mk.injEq] at hr
  rw [← hr.2]; exact h s
theorem keep_bind {α β : Type} {m : CM α} {f : α → CM β} (hm : Keep m) (hf : ∀ a, Keep (f a)) :
    Keep (m >>= f) := by
  constructor; intro s b s'' hr
  obtain ⟨a, s', h1, h2⟩ := bind_ok.1 hr
  rw [(hf a).run _ _ _ h2, hm.run _ _ _ h1]
theorem keep_throw {α : Type} {e : CErr} : Keep (throw e : CM α) := by
  constructor; intro s b s' hr; simp at hr
theorem keep_fail {α : Type} {e : CErrKind} : Keep (fail e : CM α) := by
  constructor; intro s b s' hr; simp at hr
theorem keep_throw_bind {α β : Type} {e : CErr} {f : α → CM β} : Keep ((throw e : CM α) >>= f) := by
  constructor; intro s b s' hr
  obtain ⟨a, s1, h1, _⟩ := bind_ok.1 hr
  simp at h1
theorem keep_fail_bind {α β : Type} {e : CErrKind} {f : α → CM β} : Keep ((fail e : CM α) >>= f) := by
  constructor; intro s b s' hr
  obtain ⟨a, s1, h1, _⟩ := bind_ok.1 hr
  simp at h1
theorem keep_ite {α : Type} {c : Prop} [Decidable c] {x y : CM α} (hx : Keep x) (hy : Keep y) :
    Keep (if c then x else y) := by
  split <;> assumption

syntax "keep_prim" : tactic
macro_rules | `(tactic| keep_prim) => `(tactic| assumption)
macro "keep_step" : tactic => `(tactic| first
  | keep_prim
  | dsimp only
  | with_reducible exact keep_throw_bind
  | with_reducible exact keep_fail_bind
  | with_reducible exact keep_pure
  | with_reducible exact keep_get
  | with_reducible exact keep_throw
  | with_reducible exact keep_fail
  | with_reducible exact keep_modify (fun _ => rfl)
  | with_reducible apply keep_bind
  | with_reducible apply keep_ite
  | intro _
  | split)
macro "keep" : tactic => `(tactic| repeat' keep_step)

theorem pushSub_keep (i : Nat) : Keep (pushSub i) := by unfold pushSub; keep
theorem popSub_keep : Keep popSub := by unfold popSub; keep
theorem scopeBegin_keep : Keep scopeBegin := by unfold scopeBegin; keep
theorem curTrace_keep : Keep curTrace := by unfold curTrace; keep
theorem validateVarName_keep (n : String) : Keep (validateVarName n) := by unfold validateVarName; keep
macro_rules | `(tactic| keep_prim) => `(tactic| with_reducible exact validateVarName_keep _)
theorem addLocalUnchecked_keep (n : String) : Keep (addLocalUnchecked n) := by unfold addLocalUnchecked; keep
macro_rules | `(tactic| keep_prim) => `(tactic| with_reducible exact addLocalUnchecked_keep _)
theorem addLocal_keep (n : String) : Keep (addLocal n) := by unfold addLocal; keep
macro_rules | `(tactic| keep_prim) => `(tactic| with_reducible exact addLocal_keep _)
theorem addLocals_keep : ∀ ps, Keep (addLocals ps)
  | [] => by unfold addLocals; keep
  | p :: ps => by
    have ih := addLocals_keep ps
    unfold addLocals; keep
theorem globalId_keep (n : String) : Keep (globalId n) := by unfold globalId; keep
theorem addFunction_keep (f : FunctionIr) : Keep (addFunction f) := by unfold addFunction; keep
macro_rules | `(tactic| keep_prim) => `(tactic| with_reducible exact addFunction_keep _)
theorem addFunctions_keep : ∀ fs, Keep (addFunctions fs)
  | [] => by unfold addFunctions; keep
  | f :: fs => by
    have ih := addFunctions_keep fs
    unfold addFunctions; keep

/-! ## the upvalue tables -/

/-- number of upvalues registered so far for the closure being compiled -/
def nUp (s : CState) : Nat := (s.upvalues.getD s.functionId []).length

/-- consistency of the upvalue tables: one list per open context, none for the top level, and every
non-local capture of level `lvl + 1` refers to an upvalue that level `lvl` already has -/
structure US (s : CState) : Prop where
  len : s.upvalues.length = s.functionId + 1
  base : s.upvalues.getD 0 [] = []
  le : ∀ lvl, (s.upvalues.getD lvl []).length ≤ 255
  nonloc : ∀ lvl j, (false, j) ∈ s.upvalues.getD (lvl + 1) [] → j.toNat < (s.upvalues.getD lvl []).length

theorem US.of_core {s s' : CState} (h : US s) (hc : ucore s' = ucore s) : US s' := by
  simp only [ucore, Prod.mk.injEq] at hc
  obtain ⟨_, _, h3, h4⟩ := hc
  exact ⟨by rw [h3, h4]; exact h.len, by rw [h3]; exact h.base, by rw [h3]; exact h.le, by rw [h3]; exact h.nonloc⟩

/-- what a block does: same context, the upvalue lists and the label log only grow, the old bytecode
is untouched, and the new bytes are code of the current level -/
structure UR (s s' : CState) : Prop where
  fid : s'.functionId = s.functionId
  grow : ∀ lvl, ∃ ext, s'.upvalues.getD lvl [] = s.upvalues.getD lvl [] ++ ext
  labels : ∃ l, s'.labels = s.labels ++ l
  size_le : s.bytecode.size ≤ s'.bytecode.size
  pref : ∀ i, i < s.bytecode.size → s'.bytecode.getD i 0 = s.bytecode.getD i 0
  seg : UpT s'.bytecode s'.labels (nUp s') s.bytecode.size s'.bytecode.size

theorem UR.nUp_le {s s' : CState} (h : UR s s') : nUp s ≤ nUp s' := by
  obtain ⟨ext, he⟩ := h.grow s.functionId
  unfold nUp
  rw [h.fid, he, List.length_append]; omega

theorem UR.of_core {s s' : CState} (hc : ucore s' = ucore s) : UR s s' := by
  simp only [ucore, Prod.mk.injEq] at hc
  obtain ⟨h1, h2, h3, h4⟩ := hc
  exact ⟨h4, fun lvl => ⟨[], by rw [h3]; simp⟩, ⟨[], by rw [h2]; simp⟩, by rw [h1]; exact Nat.le_refl _,
    fun i _ => by rw [h1], by rw [h1]; exact .nil _ _⟩

theorem UR.refl (s : CState) : UR s s := UR.of_core rfl

/-- tables grew, no code emitted -/
theorem UR.tables {s s' : CState} (hb : s'.bytecode = s.bytecode) (hf : s'.functionId = s.functionId)
    (hg : ∀ lvl, ∃ ext, s'.upvalues.getD lvl [] = s.upvalues.getD lvl [] ++ ext)
    (hl : ∃ l, s'.labels = s.labels ++ l) : UR s s' :=
  ⟨hf, hg, hl, by rw [hb]; exact Nat.le_refl _, fun i _ => by rw [hb], by rw [hb]; exact .nil _ _⟩

theorem UR.trans {s s1 s2 : CState} (h1 : UR s s1) (h2 : UR s1 s2) : UR s s2 := by
  obtain ⟨l1, e1⟩ := h1.labels
  obtain ⟨l2, e2⟩ := h2.labels
  refine ⟨by rw [h2.fid, h1.fid], fun lvl => ?_, ⟨l1 ++ l2, by rw [e2, e1, List.append_assoc]⟩,
    Nat.le_trans h1.size_le h2.size_le, fun i hi => ?_, ?_⟩
  · obtain ⟨x1, g1⟩ := h1.grow lvl
    obtain ⟨x2, g2⟩ := h2.grow lvl
    exact ⟨x1 ++ x2, by rw [g2, g1, List.append_assoc]⟩
  · rw [h2.pref i (Nat.lt_of_lt_of_le hi h1.size_le), h1.pref i hi]
  · refine UpT.append (h1.seg.mono (fun i _ hi => h2.pref i hi) (fun l hl => ?_) h2.nUp_le) h2.seg
    rw [e2]; exact List.mem_append_left _ hl

/-- the Hoare triple of the upvalue argument -/
structure Up {α : Type} (m : CM α) : Prop where
  run : ∀ s a s', m s = .ok (a, s') → US s → US s' ∧ UR s s'

theorem up_of_keep {α : Type} {m : CM α} (h : Keep m) : Up m :=
  ⟨fun s a s' hr hu => ⟨hu.of_core (h.run s a s' hr), UR.of_core (h.run s a s' hr)⟩⟩

theorem up_pure {α : Type} {a : α} : Up (pure a : CM α) := up_of_keep keep_pure
theorem up_get : Up (get : CM CState) := up_of_keep keep_get
theorem up_throw {α : Type} {e : CErr} : Up (throw e : CM α) := up_of_keep keep_throw
theorem up_fail {α : Type} {e : CErrKind} : Up (fail e : CM α) := up_of_keep keep_fail
theorem up_throw_bind {α β : Type} {e : CErr} {f : α → CM β} : Up ((throw e : CM α) >>= f) :=
  up_of_keep keep_throw_bind
theorem up_fail_bind {α β : Type} {e : CErrKind} {f : α → CM β} : Up ((fail e : CM α) >>= f) :=
  up_of_keep keep_fail_bind

theorem up_bind {α β : Type} {m : CM α} {f : α → CM β} (hm : Up m) (hf : ∀ a, Up (f a)) : Up (m >>= f) := by
  constructor
  intro s b s'' hr hu
  obtain ⟨a, s', h1, h2⟩ := bind_ok.1 hr
  obtain ⟨u1, r1⟩ := hm.run s a s' h1 hu
  obtain ⟨u2, r2⟩ := (hf a).run s' b s'' h2 u1
  exact ⟨u2, r1.trans r2⟩

theorem up_ite {α : Type} {c : Prop} [Decidable c] {x y : CM α} (hx : Up x) (hy : Up y) :
    Up (if c then x else y) := by
  split <;> assumption

theorem up_assoc {α β γ : Type} {m : CM α} {f : α → CM β} {g : β → CM γ} (h : Up ((m >>= f) >>= g)) :
    Up (m >>= fun a => f a >>= g) := by
  constructor
  intro s c s' hr
  refine h.run s c s' ?_
  obtain ⟨a, s1, h1, h2⟩ := bind_ok.1 hr
  obtain ⟨b, s2, h3, h4⟩ := bind_ok.1 h2
  exact bind_ok.2 ⟨b, s2, bind_ok.2 ⟨a, s1, h1, h3⟩, h4⟩

theorem up_unit_bind {β : Type} {m : CM Unit} {f : Unit → CM Unit} {g : Unit → CM β}
    (hu : Up (m >>= f)) (hg : Up (g ())) : Up (m >>= fun a => f a >>= g) :=
  up_assoc (up_bind hu fun _ => hg)

/-- a state update that only appends labels -/
theorem up_modify {f : CState → CState} (hb : ∀ s, (f s).bytecode = s.bytecode)
    (hu : ∀ s, (f s).upvalues = s.upvalues) (hf : ∀ s, (f s).functionId = s.functionId)
    (hl : ∀ s, ∃ l, (f s).labels = s.labels ++ l) : Up (modify f : CM Unit) := by
  constructor
  intro s a s' hr hus
  simp only [modify_run, Except.ok.injEq, Prod.mk.injEq] at hr
  obtain ⟨_, rfl⟩ := hr
  refine ⟨⟨by rw [hu, hf]; exact hus.len, by rw [hu]; exact hus.base, by rw [hu]; exact hus.le,
    by rw [hu]; exact hus.nonloc⟩, UR.tables (hb s) (hf s) (fun lvl => ⟨[], by rw [hu]; simp⟩) (hl s)⟩

syntax "up_prim" : tactic
macro_rules | `(tactic| up_prim) => `(tactic| assumption)
macro_rules | `(tactic| up_prim) => `(tactic| with_reducible exact (by assumption : ∀ _, Up _) _)
macro_rules | `(tactic| up_prim) => `(tactic| with_reducible exact (by assumption : ∀ _ _, Up _) _ _)

macro "up_step" : tactic => `(tactic| first
  | up_prim
  | dsimp only
  | with_reducible exact up_throw_bind
  | with_reducible exact up_fail_bind
  | with_reducible exact up_pure
  | with_reducible exact up_get
  | with_reducible exact up_throw
  | with_reducible exact up_fail
  | with_reducible apply up_bind
  | with_reducible apply up_ite
  | intro _
  | split)
macro "up" : tactic => `(tactic| repeat' up_step)

macro_rules | `(tactic| up_prim) => `(tactic| with_reducible exact up_of_keep (keep_modify (fun _ => rfl)))
macro_rules | `(tactic| up_prim) => `(tactic| with_reducible exact up_of_keep (pushSub_keep _))
macro_rules | `(tactic| up_prim) => `(tactic| with_reducible exact up_of_keep popSub_keep)
macro_rules | `(tactic| up_prim) => `(tactic| with_reducible exact up_of_keep scopeBegin_keep)
macro_rules | `(tactic| up_prim) => `(tactic| with_reducible exact up_of_keep (validateVarName_keep _))
macro_rules | `(tactic| up_prim) => `(tactic| with_reducible exact up_of_keep (addLocalUnchecked_keep _))
macro_rules | `(tactic| up_prim) => `(tactic| with_reducible exact up_of_keep (addLocal_keep _))
macro_rules | `(tactic| up_prim) => `(tactic| with_reducible exact up_of_keep (addLocals_keep _))
macro_rules | `(tactic| up_prim) => `(tactic| with_reducible exact up_of_keep (globalId_keep _))
macro_rules | `(tactic| up_prim) => `(tactic| with_reducible exact up_of_keep (addFunctions_keep _))

theorem withSub_up {i : Nat} {m : CM Unit} (hm : Up m) : Up (withSub i m) := by
  unfold withSub; up
macro_rules | `(tactic| up_prim) => `(tactic| with_reducible apply withSub_up)

theorem insertLabel_up (h : UInt32) (pos : Nat) : Up (insertLabel h pos) := by
  have hm : Up (modify fun s => { s with labels := s.labels ++ [(h, pos)] } : CM Unit) :=
    up_modify (fun _ => rfl) (fun _ => rfl) (fun _ => rfl) (fun _ => ⟨_, rfl⟩)
  unfold insertLabel; up
theorem cardLabel_up : Up cardLabel := by
  unfold cardLabel
  exact up_bind up_get fun _ => insertLabel_up _ _
macro_rules | `(tactic| up_prim) => `(tactic| with_reducible exact cardLabel_up)

/-! ## instruction units -/

theorem US.of_eq {s s' : CState} (h : US s) (hu : s'.upvalues = s.upvalues) (hf : s'.functionId = s.functionId) :
    US s' :=
  ⟨by rw [hu, hf]; exact h.len, by rw [hu]; exact h.base, by rw [hu]; exact h.le, by rw [hu]; exact h.nonloc⟩

theorem getD_append_op (bc : Array UInt8) (o : UInt8) (bs : List UInt8) :
    (bc ++ (o :: bs).toArray).getD bc.size 0 = o := by
  rw [getD_append_right (Nat.le_refl _), Nat.sub_self, getD_toArray]; rfl

/-- the generic step: one whole plain instruction is appended, the upvalue tables are unchanged -/
theorem instr_step {s s' : CState} {o : UInt8} {bs : List UInt8} (hu : US s)
    (hb : s'.bytecode = s.bytecode ++ (o :: bs).toArray) (hl : ∃ l, s'.labels = s.labels ++ l)
    (hups : s'.upvalues = s.upvalues) (hf : s'.functionId = s.functionId)
    (hsp : Gen.spanOf o = some (bs.length + 1)) (hc : isClosPart o = false)
    (ha : isUpAcc o = true → u32L bs 0 < nUp s) : US s' ∧ UR s s' := by
  have hsz : s'.bytecode.size = s.bytecode.size + (bs.length + 1) := by rw [hb]; simp
  have ho : s'.bytecode.getD s.bytecode.size 0 = o := by rw [hb]; exact getD_append_op _ _ _
  have hn : nUp s' = nUp s := by unfold nUp; rw [hups, hf]
  refine ⟨hu.of_eq hups hf, hf, fun lvl => ⟨[], by rw [hups]; simp⟩, hl, by omega,
    fun i hi => by rw [hb]; exact getD_append_left hi, ?_⟩
  rw [hsz]
  refine .plain (by rw [ho]; exact hsp) (by rw [ho]; exact hc) ?_ (.nil _ _)
  rw [ho, hn]
  intro hacc
  have h5 := isUpAcc_span hacc
  rw [hsp] at h5
  have hlen : bs.length = 4 := by simpa using h5
  have := rdU32_opBytes s'.bytecode s.bytecode.size bs.length 0 (by omega)
  rw [Nat.add_zero] at this
  rw [this, hb, opBytes_append]
  exact ha hacc

theorem instr_up {o : UInt8} {bs : List UInt8} (hsp : Gen.spanOf o = some (bs.length + 1))
    (hc : isClosPart o = false) (ha : isUpAcc o = false) : Up (pushInstr o >>= fun _ => emitBytes bs) := by
  constructor
  intro s a s' hr hu
  rw [pushInstr_emit_run] at hr
  simp only [Except.ok.injEq, Prod.mk.injEq] at hr
  obtain ⟨_, rfl⟩ := hr
  exact instr_step hu rfl ⟨[], by simp [afterInstr]⟩ rfl rfl hsp hc (by rw [ha]; intro h; cases h)

theorem instr0_up {o : UInt8} (hsp : Gen.spanOf o = some 1) (hc : isClosPart o = false)
    (ha : isUpAcc o = false) : Up (pushInstr o) := by
  constructor
  intro s a s' hr hu
  rw [pushInstr_run] at hr
  simp only [Except.ok.injEq, Prod.mk.injEq] at hr
  obtain ⟨_, rfl⟩ := hr
  exact instr_step (bs := []) hu rfl ⟨[], by simp [afterInstr]⟩ rfl rfl hsp hc (by rw [ha]; intro h; cases h)

theorem instrU32_up {o : UInt8} {x : Nat} (hsp : Gen.spanOf o = some 5) (hc : isClosPart o = false)
    (ha : isUpAcc o = false) : Up (pushInstr o >>= fun _ => emitU32 x) :=
  instr_up (bs := le32 (UInt32.ofNat x)) (by rw [le32_length]; exact hsp) hc ha

/-- an upvalue access with an index the current closure already has -/
theorem upAcc_run {o : UInt8} {x : Nat} {s s' : CState} {u : Unit} (ho : isUpAcc o = true)
    (hr : (pushInstr o >>= fun _ => emitU32 x) s = .ok (u, s')) (hu : US s) (hx : x < nUp s) :
    US s' ∧ UR s s' := by
  change (pushInstr o >>= fun _ => emitBytes (le32 (UInt32.ofNat x))) s = _ at hr
  rw [pushInstr_emit_run] at hr
  simp only [Except.ok.injEq, Prod.mk.injEq] at hr
  obtain ⟨_, rfl⟩ := hr
  refine instr_step hu rfl ⟨[], by simp [afterInstr]⟩ rfl rfl (by rw [le32_length]; exact isUpAcc_span ho) ?_ ?_
  · simp only [isUpAcc, Bool.or_eq_true, beq_iff_eq] at ho
    rcases ho with ho | ho <;> subst ho <;> decide
  · intro _
    rw [u32L_ofNat]
    exact Nat.lt_of_le_of_lt (Nat.mod_le _ _) hx

theorem readLocalVar_up (i : Nat) : Up (readLocalVar i) := instrU32_up (by decide) (by decide) (by decide)
theorem writeLocalVar_up (i : Nat) : Up (writeLocalVar i) := instrU32_up (by decide) (by decide) (by decide)
macro_rules | `(tactic| up_prim) => `(tactic| with_reducible exact readLocalVar_up _)
macro_rules | `(tactic| up_prim) => `(tactic| with_reducible exact writeLocalVar_up _)

theorem plain_unOp (u : UnKind) :
    Gen.spanOf (unOp u) = some 1 ∧ isClosPart (unOp u) = false ∧ isUpAcc (unOp u) = false := by
  cases u <;> decide
theorem plain_binOp (b : BinKind) :
    Gen.spanOf (binOp b) = some 1 ∧ isClosPart (binOp b) = false ∧ isUpAcc (binOp b) = false := by
  cases b <;> decide

macro_rules | `(tactic| up_prim) => `(tactic| with_reducible exact instr0_up (by decide) (by decide) (by decide))
macro_rules | `(tactic| up_prim) => `(tactic| with_reducible exact instr0_up (plain_unOp _).1 (plain_unOp _).2.1 (plain_unOp _).2.2)
macro_rules | `(tactic| up_prim) => `(tactic| with_reducible exact instr0_up (plain_binOp _).1 (plain_binOp _).2.1 (plain_binOp _).2.2)
macro_rules | `(tactic| up_prim) => `(tactic| with_reducible exact instrU32_up (by decide) (by decide) (by decide))
macro_rules | `(tactic| up_prim) => `(tactic| with_reducible exact instr_up (by first | (rw [le64_length]; decide) | (rw [le32_length]; decide)) (by decide) (by decide))

/-- raw one-byte instructions (`scope_end`) -/
theorem raw_run : ∀ (bytes : List UInt8) (s : CState), US s →
    (∀ b ∈ bytes, b = op.pop ∨ b = op.closeUpvalue) →
    UR s { s with bytecode := s.bytecode ++ bytes.toArray }
  | [], s, _, _ => UR.of_core (by simp [ucore])
  | b :: rest, s, hu, hb => by
    have hb1 : Gen.spanOf b = some 1 ∧ isClosPart b = false ∧ isUpAcc b = false := by
      rcases hb b (List.mem_cons_self ..) with h | h <;> subst h <;> decide
    have h1 := instr_step (s := s) (s' := { s with bytecode := s.bytecode ++ [b].toArray }) (o := b) (bs := [])
      hu rfl ⟨[], by simp⟩ rfl rfl hb1.1 hb1.2.1 (by rw [hb1.2.2]; intro h; cases h)
    have h2 := raw_run rest _ h1.1 (fun b' hb' => hb b' (List.mem_cons_of_mem _ hb'))
    have e : s.bytecode ++ [b].toArray ++ rest.toArray = s.bytecode ++ (b :: rest).toArray := by simp
    simp only [e] at h2
    exact h1.2.trans h2

theorem raw_up {bytes : List UInt8} (h : ∀ b ∈ bytes, b = op.pop ∨ b = op.closeUpvalue) :
    Up (emitBytes bytes) := by
  constructor
  intro s a s' hr hu
  rw [emitBytes_run] at hr
  simp only [Except.ok.injEq, Prod.mk.injEq] at hr
  obtain ⟨_, rfl⟩ := hr
  exact ⟨hu.of_eq rfl rfl, raw_run bytes s hu h⟩

theorem scopeEnd_up : Up scopeEnd := by
  unfold scopeEnd
  refine up_bind (up_of_keep (keep_modify fun _ => rfl)) fun _ => up_bind up_get fun st => ?_
  dsimp only
  refine up_bind (up_of_keep (keep_modify fun _ => rfl)) fun _ => raw_up ?_
  intro b hb
  obtain ⟨l, _, rfl⟩ := List.mem_map.1 hb
  split
  · exact .inr rfl
  · exact .inl rfl
macro_rules | `(tactic| up_prim) => `(tactic| with_reducible exact scopeEnd_up)

/-- `pushInstr o; pushStr str` -/
theorem strInstr_up {o : UInt8} (hsp : Gen.spanOf o = some 5) (hc : isClosPart o = false)
    (ha : isUpAcc o = false) (str : String) : Up (pushInstr o >>= fun _ => pushStr str) := by
  constructor
  intro s a s' hr hu
  unfold pushStr at hr
  rw [pushInstr_bind_run, get_bind_run, emitU32_bind_run, modify_run] at hr
  simp only [Except.ok.injEq, Prod.mk.injEq] at hr
  obtain ⟨_, rfl⟩ := hr
  exact instr_step (o := o) (bs := le32 (UInt32.ofNat s.data.size)) hu (by simp [afterInstr])
    ⟨[], by simp [afterInstr]⟩ rfl rfl (by rw [le32_length]; exact hsp) hc (by rw [ha]; intro h; cases h)

/-- `pushInstr functionPointer; encodeJump name` -/
theorem fnpInstr_up (name : String) : Up (pushInstr op.functionPointer >>= fun _ => encodeJump name) := by
  constructor
  intro s a s' hr hu
  unfold encodeJump at hr
  rw [pushInstr_bind_run] at hr
  obtain ⟨r, s1, h1, h2⟩ := bind_ok.1 hr
  obtain ⟨rfl, _⟩ := (resolveFunction_ro name _).run r s1 h1
  obtain ⟨h, arity⟩ := r
  simp only at h2
  rw [emitBytes_bind_run, emitBytes_run] at h2
  simp only [Except.ok.injEq, Prod.mk.injEq] at h2
  obtain ⟨_, rfl⟩ := h2
  exact instr_step (o := op.functionPointer) (bs := le32 h ++ le32 arity) hu (by simp [afterInstr])
    ⟨[], by simp [afterInstr]⟩ rfl rfl (by rw [List.length_append, le32_length, le32_length]; decide)
    (by decide) (by intro h; exact absurd h (by decide))

theorem setGlobalTail_up (name : String) : Up (setGlobalTail name) := by
  constructor
  intro s a s' hr hu
  unfold setGlobalTail at hr
  rw [pushInstr_bind_run] at hr
  split at hr
  · rw [fail_bind_run] at hr; cases hr
  · obtain ⟨id, s1, h1, h2⟩ := bind_ok.1 hr
    rw [emitU32_run] at h2
    simp only [Except.ok.injEq, Prod.mk.injEq] at h2
    obtain ⟨_, rfl⟩ := h2
    have hc := (globalId_keep name).run _ _ _ h1
    simp only [ucore, Prod.mk.injEq] at hc
    obtain ⟨c1, c2, c3, c4⟩ := hc
    exact instr_step (o := op.setGlobalVar) (bs := le32 (UInt32.ofNat id)) hu (by simp [afterInstr, c1])
      ⟨[], by simp [afterInstr, c2]⟩ (by simp [afterInstr, c3]) (by simp [afterInstr, c4])
      (by rw [le32_length]; decide) (by decide) (by intro h; exact absurd h (by decide))

macro_rules | `(tactic| up_prim) => `(tactic| with_reducible exact setGlobalTail_up _)
macro_rules | `(tactic| up_prim) => `(tactic| with_reducible exact strInstr_up (by decide) (by decide) (by decide) _)
macro_rules | `(tactic| up_prim) => `(tactic| with_reducible exact fnpInstr_up _)
macro_rules | `(tactic| up_prim) => `(tactic| with_reducible apply up_unit_bind (strInstr_up (by decide) (by decide) (by decide) _))
macro_rules | `(tactic| up_prim) => `(tactic| with_reducible apply up_unit_bind (fnpInstr_up _))
macro_rules | `(tactic| up_prim) => `(tactic| with_reducible apply up_unit_bind (instrU32_up (by decide) (by decide) (by decide)))

theorem scalarIntCode_up (i : Int64) : Up (scalarIntCode i) := by unfold scalarIntCode; up
macro_rules | `(tactic| up_prim) => `(tactic| with_reducible exact scalarIntCode_up _)
theorem processScalarInt_up (i : Int64) : Up (processScalarInt i) := by unfold processScalarInt; up
macro_rules | `(tactic| up_prim) => `(tactic| with_reducible exact processScalarInt_up _)
theorem readProps_up : ∀ ps, Up (readProps ps)
  | [] => by unfold readProps; up
  | p :: ps => by
    have ih := readProps_up ps
    unfold readProps; up
macro_rules | `(tactic| up_prim) => `(tactic| with_reducible exact readProps_up _)
theorem bindLoopVar_up (n : Option String) (src : Nat) : Up (bindLoopVar n src) := by
  unfold bindLoopVar; up
macro_rules | `(tactic| up_prim) => `(tactic| with_reducible exact bindLoopVar_up _ _)

/-! ## variable resolution: the indices handed out are below the current number of upvalues -/

/-- the upvalue lists grew, nothing else (that matters here) changed -/
structure UG (s s' : CState) : Prop where
  bc : s'.bytecode = s.bytecode
  labels : s'.labels = s.labels
  fid : s'.functionId = s.functionId
  grow : ∀ lvl, ∃ ext, s'.upvalues.getD lvl [] = s.upvalues.getD lvl [] ++ ext

theorem UG.of_core {s s' : CState} (hc : ucore s' = ucore s) : UG s s' := by
  simp only [ucore, Prod.mk.injEq] at hc
  obtain ⟨h1, h2, h3, h4⟩ := hc
  exact ⟨h1, h2, h4, fun lvl => ⟨[], by rw [h3]; simp⟩⟩

theorem UG.trans {s s1 s2 : CState} (h1 : UG s s1) (h2 : UG s1 s2) : UG s s2 := by
  refine ⟨by rw [h2.bc, h1.bc], by rw [h2.labels, h1.labels], by rw [h2.fid, h1.fid], fun lvl => ?_⟩
  obtain ⟨x1, g1⟩ := h1.grow lvl
  obtain ⟨x2, g2⟩ := h2.grow lvl
  exact ⟨x1 ++ x2, by rw [g2, g1, List.append_assoc]⟩

theorem UG.ur {s s' : CState} (h : UG s s') : UR s s' :=
  UR.tables h.bc h.fid h.grow ⟨[], by rw [h.labels]; simp⟩

theorem getD_set_self {α : Type} (l : List α) (i : Nat) (x d : α) (h : i < l.length) :
    (l.set i x).getD i d = x := by
  simp [List.getD_eq_getElem?_getD, h]

theorem getD_set_ne {α : Type} (l : List α) (i j : Nat) (x d : α) (h : i ≠ j) :
    (l.set i x).getD j d = l.getD j d := by
  simp [List.getD_eq_getElem?_getD, List.getElem?_set_ne h]

theorem addUpvalue_spec {index : UInt8} {isLocal : Bool} {fid i : Nat} {s s' : CState}
    (h : addUpvalue index isLocal fid s = .ok (i, s')) (hfid : fid < s.upvalues.length)
    (hle : (s.upvalues.getD fid []).length ≤ 255) :
    s'.bytecode = s.bytecode ∧ s'.labels = s.labels ∧ s'.functionId = s.functionId ∧
    s'.upvalues.length = s.upvalues.length ∧
    (∃ ext, s'.upvalues.getD fid [] = s.upvalues.getD fid [] ++ ext ∧ ∀ u ∈ ext, u = (isLocal, index)) ∧
    (∀ g, g ≠ fid → s'.upvalues.getD g [] = s.upvalues.getD g []) ∧
    i < (s'.upvalues.getD fid []).length ∧ (s'.upvalues.getD fid []).length ≤ 255 := by
  unfold addUpvalue at h
  rw [get_bind_run] at h
  dsimp only at h
  cases hj : (s.upvalues.getD fid []).findIdx? (fun u => u.2 == index && u.1 == isLocal) with
  | some j =>
    rw [hj] at h
    simp only [pure_run, Except.ok.injEq, Prod.mk.injEq] at h
    obtain ⟨rfl, rfl⟩ := h
    have := (List.findIdx?_eq_some_iff_findIdx_eq.1 hj).1
    exact ⟨rfl, rfl, rfl, rfl, ⟨[], by simp, by simp⟩, fun _ _ => rfl, this, hle⟩
  | none =>
    rw [hj] at h
    dsimp only at h
    by_cases hlen : (s.upvalues.getD fid []).length ≥ 255
    · rw [if_pos hlen, fail_bind_run] at h; cases h
    · rw [if_neg hlen, modify_bind_run, pure_run] at h
      simp only [Except.ok.injEq, Prod.mk.injEq] at h
      obtain ⟨rfl, rfl⟩ := h
      have hget := getD_set_self s.upvalues fid (s.upvalues.getD fid [] ++ [(isLocal, index)]) [] hfid
      refine ⟨rfl, rfl, rfl, by simp, ⟨[(isLocal, index)], hget, by simp⟩,
        fun g hg => getD_set_ne _ _ _ _ _ (Ne.symm hg), ?_, ?_⟩
      · show _ < ((s.upvalues.set fid _).getD fid []).length
        rw [hget]; simp
      · show ((s.upvalues.set fid _).getD fid []).length ≤ 255
        rw [hget]; simp only [List.length_append, List.length_cons, List.length_nil]; omega

theorem addUpvalue_US {index : UInt8} {isLocal : Bool} {fid i : Nat} {s s' : CState} (hu : US s)
    (h : addUpvalue index isLocal (fid + 1) s = .ok (i, s')) (hfid : fid + 1 ≤ s.functionId)
    (hnl : isLocal = false → index.toNat < (s.upvalues.getD fid []).length) :
    US s' ∧ UG s s' ∧ i < (s'.upvalues.getD (fid + 1) []).length := by
  obtain ⟨h1, h2, h3, h4, ⟨ext, h5, h5'⟩, h6, h7, h8⟩ :=
    addUpvalue_spec h (by rw [hu.len]; omega) (hu.le _)
  have hgrow : ∀ lvl, ∃ x, s'.upvalues.getD lvl [] = s.upvalues.getD lvl [] ++ x := by
    intro lvl
    by_cases hl : lvl = fid + 1
    · subst hl; exact ⟨ext, h5⟩
    · exact ⟨[], by rw [h6 lvl hl]; simp⟩
  refine ⟨⟨by rw [h4, h3]; exact hu.len, by rw [h6 0 (by omega)]; exact hu.base, ?_, ?_⟩, ⟨h1, h2, h3, hgrow⟩, h7⟩
  · intro lvl
    by_cases hl : lvl = fid + 1
    · subst hl; exact h8
    · rw [h6 lvl hl]; exact hu.le lvl
  · intro lvl j hj
    obtain ⟨x, hx⟩ := hgrow lvl
    have hmono : (s.upvalues.getD lvl []).length ≤ (s'.upvalues.getD lvl []).length := by
      rw [hx, List.length_append]; omega
    by_cases hl : lvl = fid
    · subst hl
      rw [h5] at hj
      rcases List.mem_append.1 hj with hj | hj
      · exact Nat.lt_of_lt_of_le (hu.nonloc _ _ hj) hmono
      · have := h5' _ hj
        simp only [Prod.mk.injEq] at this
        obtain ⟨e1, e2⟩ := this
        subst e2
        exact Nat.lt_of_lt_of_le (hnl e1.symm) hmono
    · rw [h6 (lvl + 1) (by omega)] at hj
      exact Nat.lt_of_lt_of_le (hu.nonloc _ _ hj) hmono

theorem resolveUpvalue_spec (name : String) : ∀ (fid : Nat) {s s' : CState} {v : Variable},
    resolveUpvalue name fid s = .ok (v, s') → US s → fid ≤ s.functionId →
    US s' ∧ UG s s' ∧ ∀ u, v = .upvalue u → u < (s'.upvalues.getD fid []).length
  | 0, s, s', v, h, hu, _ => by
    unfold resolveUpvalue at h
    simp only [pure_run, Except.ok.injEq, Prod.mk.injEq] at h
    obtain ⟨rfl, rfl⟩ := h
    exact ⟨hu, UG.of_core rfl, fun u hv => by cases hv⟩
  | fid+1, s, s', v, h, hu, hf => by
    unfold resolveUpvalue at h
    rw [get_bind_run] at h
    dsimp only at h
    cases hfi : (s.locals.getD fid []).findIdx? (fun l => l.name == name) with
    | some i =>
      rw [hfi] at h
      dsimp only at h
      rw [modify_bind_run] at h
      obtain ⟨u, s2, h2, h⟩ := bind_ok.1 h
      simp only [pure_run, Except.ok.injEq, Prod.mk.injEq] at h
      obtain ⟨rfl, rfl⟩ := h
      have key := fun hu1 => addUpvalue_US (isLocal := true) hu1 h2 hf (fun h => by cases h)
      obtain ⟨a1, a2, a3⟩ := key (hu.of_eq rfl rfl)
      refine ⟨a1, ⟨a2.bc, a2.labels, a2.fid, a2.grow⟩, fun u' hv => ?_⟩
      cases hv; exact a3
    | none =>
      rw [hfi] at h
      dsimp only at h
      obtain ⟨r, s1, h1, h⟩ := bind_ok.1 h
      obtain ⟨u1, g1, r1⟩ := resolveUpvalue_spec name fid h1 hu (by omega)
      cases r with
      | upvalue i =>
        dsimp only at h
        obtain ⟨u, s2, h2, h⟩ := bind_ok.1 h
        simp only [pure_run, Except.ok.injEq, Prod.mk.injEq] at h
        obtain ⟨rfl, rfl⟩ := h
        have hi := r1 i rfl
        have hi255 : i < 256 := by have := u1.le fid; omega
        obtain ⟨a1, a2, a3⟩ := addUpvalue_US u1 h2 (by rw [g1.fid]; exact hf) (fun _ => by
          rw [UInt8.toNat_ofNat', Nat.mod_eq_of_lt hi255]; exact hi)
        refine ⟨a1, g1.trans a2, fun u' hv => ?_⟩
        cases hv; exact a3
      | global =>
        simp only [pure_run, Except.ok.injEq, Prod.mk.injEq] at h
        obtain ⟨rfl, rfl⟩ := h
        exact ⟨u1, g1, fun u' hv => by cases hv⟩
      | local_ i =>
        simp only [pure_run, Except.ok.injEq, Prod.mk.injEq] at h
        obtain ⟨rfl, rfl⟩ := h
        exact ⟨u1, g1, fun u' hv => by cases hv⟩

theorem resolveVar_spec {name : String} {s s' : CState} {v : Variable}
    (h : resolveVar name s = .ok (v, s')) (hu : US s) :
    US s' ∧ UG s s' ∧ ∀ u, v = .upvalue u → u < nUp s' := by
  unfold resolveVar at h
  obtain ⟨_, s0, h0, h⟩ := bind_ok.1 h
  have hc := (validateVarName_keep name).run _ _ _ h0
  have u0 := hu.of_core hc
  have g0 : UG s s0 := UG.of_core hc
  rw [get_bind_run] at h
  generalize List.find? _ (List.range _).reverse = x at h
  cases x with
  | some i =>
    simp only [pure_run, Except.ok.injEq, Prod.mk.injEq] at h
    obtain ⟨rfl, rfl⟩ := h
    exact ⟨u0, g0, fun u hv => by cases hv⟩
  | none =>
    obtain ⟨a1, a2, a3⟩ := resolveUpvalue_spec name _ h u0 (Nat.le_refl _)
    refine ⟨a1, g0.trans a2, fun u hv => ?_⟩
    unfold nUp
    rw [a2.fid]
    exact a3 u hv

/-- the triple from one given state -/
def UpAt {α : Type} (s : CState) (m : CM α) : Prop := ∀ a s', m s = .ok (a, s') → US s → US s' ∧ UR s s'

theorem Up.at {α : Type} {m : CM α} (h : Up m) (s : CState) : UpAt s m := fun a s' hr hu => h.run s a s' hr hu

theorem upAt_bind {α β : Type} {s : CState} {m : CM α} {f : α → CM β} (hm : UpAt s m) (hf : ∀ a, Up (f a)) :
    UpAt s (m >>= f) := by
  intro b s'' hr hu
  obtain ⟨a, s', h1, h2⟩ := bind_ok.1 hr
  obtain ⟨u1, r1⟩ := hm a s' h1 hu
  obtain ⟨u2, r2⟩ := (hf a).run s' b s'' h2 u1
  exact ⟨u2, r1.trans r2⟩

theorem readUpvalue_at {i : Nat} {s : CState} (h : i < nUp s) : UpAt s (readUpvalue i) :=
  fun _ _ hr hu => upAcc_run (by decide) hr hu h
theorem writeUpvalue_at {i : Nat} {s : CState} (h : i < nUp s) : UpAt s (writeUpvalue i) :=
  fun _ _ hr hu => upAcc_run (by decide) hr hu h

/-- code that depends on the result of `resolveVar`: an upvalue index is below the current count -/
theorem resolveVar_bind_up {β : Type} {name : String} {f : Variable → CM β}
    (hf : ∀ v s1, (∀ u, v = .upvalue u → u < nUp s1) → UpAt s1 (f v)) : Up (resolveVar name >>= f) := by
  constructor
  intro s b s'' hr hu
  obtain ⟨v, s1, h1, h2⟩ := bind_ok.1 hr
  obtain ⟨u1, g1, r1⟩ := resolveVar_spec h1 hu
  obtain ⟨u2, r2⟩ := hf v s1 r1 b s'' h2 u1
  exact ⟨u2, g1.ur.trans r2⟩

theorem readVarCard_up (x : String) : Up (readVarCard x) := by
  unfold readVarCard
  split
  all_goals
    refine resolveVar_bind_up fun v s1 hv => ?_
    dsimp only
    split
    · exact Up.at (by up) s1
    · exact upAt_bind (readUpvalue_at (hv _ rfl)) fun _ => readProps_up _
    · exact Up.at (by up) s1
macro_rules | `(tactic| up_prim) => `(tactic| with_reducible exact readVarCard_up _)

theorem setVarTarget_up (n : String) : Up (setVarTarget n) := by
  unfold setVarTarget
  split
  · refine resolveVar_bind_up fun v s1 hv => ?_
    split
    · exact Up.at (by up) s1
    · exact Up.at (by up) s1
    · exact writeUpvalue_at (hv _ rfl)
  · refine resolveVar_bind_up fun v s1 hv => ?_
    split
    · exact Up.at (by up) s1
    · exact Up.at (by up) s1
    · exact writeUpvalue_at (hv _ rfl)
  · up
macro_rules | `(tactic| up_prim) => `(tactic| with_reducible exact setVarTarget_up _)

/-! ## back-patching -/

theorem patchI32_spec {at_ v : Nat} {s s' : CState} {u : Unit} (h : patchI32 at_ v s = .ok (u, s'))
    (hle : at_ + 4 ≤ s.bytecode.size) :
    s'.bytecode.size = s.bytecode.size ∧
    (∀ i, ¬ (at_ ≤ i ∧ i < at_ + 4) → s'.bytecode.getD i 0 = s.bytecode.getD i 0) ∧
    s'.labels = s.labels ∧ s'.upvalues = s.upvalues ∧ s'.functionId = s.functionId := by
  unfold patchI32 at h
  simp only [modify_run, Except.ok.injEq, Prod.mk.injEq] at h
  obtain ⟨_, rfl⟩ := h
  refine ⟨(patch_bytes at_ (le32 (UInt32.ofNat v)) s.bytecode).1, fun i hi => ?_, rfl, rfl, rfl⟩
  show Array.getD _ i 0 = _
  rw [patch_getD at_ _ _ hle i, if_neg hi]

theorem isJump_plain {o : UInt8} (h : isJump o = true) : isClosPart o = false ∧ isUpAcc o = false := by
  simp only [isJump, Bool.or_eq_true, beq_iff_eq] at h
  rcases h with (h | h) | h <;> subst h <;> decide

/-- changing the operand of the jump instruction at the head of a level keeps the level structure -/
theorem UpT.patch_head {bc bc' : Array UInt8} {L : List (UInt32 × Nat)} {n a b : Nat} (h : UpT bc L n a b)
    (hj : isJump (bc.getD a 0) = true)
    (he : ∀ i, a ≤ i → i < b → ¬ (a + 1 ≤ i ∧ i < a + 1 + 4) → bc'.getD i 0 = bc.getD i 0) :
    UpT bc' L n a b := by
  cases h with
  | nil => exact .nil _ _
  | @plain _ _ k _ hs hc hu ht =>
    have := isJump_span hj
    rw [hs] at this; cases this
    have hle := ht.le
    have h0 : bc'.getD a 0 = bc.getD a 0 := he a (Nat.le_refl _) (by omega) (by omega)
    refine .plain (by rw [h0]; exact hs) (by rw [h0]; exact hc) ?_
      (ht.mono (fun i h1 h2 => he i (by omega) h2 (by omega)) (fun _ h => h) (Nat.le_refl _))
    rw [h0, (isJump_plain hj).2]
    intro h; cases h
  | @clos _ m _ c _ hg hb hcl hl hm hp ht =>
    have h1 := hb.le
    have h2 := ht.le
    have h0 : bc'.getD a 0 = bc.getD a 0 := he a (Nat.le_refl _) (by omega) (by omega)
    refine .clos (by rw [h0]; exact hg)
      (hb.mono (fun i h1 h2 => he i (by omega) (by omega) (by omega)) (fun _ h => h) (Nat.le_refl _))
      (by rw [he c (by omega) (by omega) (by omega)]; exact hcl) ?_ hm
      (hp.mono (Nat.le_refl _) fun i h1 h2 => he i (by omega) (by omega) (by omega))
      (ht.mono (fun i h1 h2 => he i (by omega) h2 (by omega)) (fun _ h => h) (Nat.le_refl _))
    rw [rdU32_congr (bc := bc) fun i h1 h2 => he i (by omega) (by omega) (by omega)]
    exact hl

/-- back-patching the jump at the head of a block -/
theorem UR.patch {s s3 s4 : CState} {v : Nat} {u : Unit} (hr : UR s s3)
    (hj : isJump (s3.bytecode.getD s.bytecode.size 0) = true) (h5 : s.bytecode.size + 5 ≤ s3.bytecode.size)
    (hp : patchI32 (s.bytecode.size + 1) v s3 = .ok (u, s4)) : UR s s4 := by
  obtain ⟨p1, p2, p3, p4, p5⟩ := patchI32_spec hp (by omega)
  have hn : nUp s4 = nUp s3 := by unfold nUp; rw [p4, p5]
  refine ⟨by rw [p5]; exact hr.fid, by rw [p4]; exact hr.grow, by rw [p3]; exact hr.labels,
    by rw [p1]; exact hr.size_le, fun i hi => by rw [p2 i (by omega)]; exact hr.pref i hi, ?_⟩
  rw [p1, p3, hn]
  exact hr.seg.patch_head hj fun i _ _ => p2 i

theorem afterJump_bytecode (s : CState) (o : UInt8) (x : Nat) :
    (afterJump s o x).bytecode = s.bytecode ++ (o :: le32 (UInt32.ofNat x)).toArray := by
  simp [afterJump, afterInstr]

/-- emitting a jump with a placeholder operand -/
theorem jump_step {s : CState} {o : UInt8} (x : Nat) (hu : US s) (ho : isJump o = true) :
    US (afterJump s o x) ∧ UR s (afterJump s o x) ∧ (afterJump s o x).bytecode.size = s.bytecode.size + 5 ∧
    (afterJump s o x).bytecode.getD s.bytecode.size 0 = o := by
  have hb := afterJump_bytecode s o x
  have h := instr_step (s' := afterJump s o x) (o := o) (bs := le32 (UInt32.ofNat x)) hu hb
    ⟨[], by simp [afterJump, afterInstr]⟩ rfl rfl (by rw [le32_length]; exact isJump_span ho)
    (isJump_plain ho).1 (by rw [(isJump_plain ho).2]; intro h; cases h)
  refine ⟨h.1, h.2, by rw [hb]; simp [le32_length], ?_⟩
  rw [hb]; exact getD_append_op _ _ _

theorem encodeIfThen_up {skip : UInt8} (hs : isJump skip = true) {m : CM Unit} (hm : Up m) :
    Up (encodeIfThen skip m) := by
  constructor
  intro s a s' hr hu
  unfold encodeIfThen at hr
  rw [pushInstr_bind_run, get_bind_run, emitU32_bind_run] at hr
  obtain ⟨_, s3, h1, h2⟩ := bind_ok.1 hr
  rw [get_bind_run] at h2
  obtain ⟨u2, r2, z2, o2⟩ := jump_step 0 hu hs
  change m (afterJump s skip 0) = _ at h1
  obtain ⟨u3, r3⟩ := hm.run _ _ _ h1 u2
  have e1 : (afterInstr s skip []).bytecode.size = s.bytecode.size + 1 := by simp [afterInstr]
  rw [e1] at h2
  have z3 := r3.size_le
  obtain ⟨_, _, _, p4, p5⟩ := patchI32_spec h2 (by omega)
  refine ⟨u3.of_eq p4 p5, (r2.trans r3).patch ?_ (by omega) h2⟩
  rw [r3.pref _ (by omega), o2]; exact hs

macro_rules | `(tactic| up_prim) => `(tactic| with_reducible apply encodeIfThen_up (by decide))

/-! ## the combinators of `processCard` -/

theorem eachInstr_bind_up {β : Type} {o : UInt8} {a b c d e : Nat} (hsp : Gen.spanOf o = some 21)
    (hc : isClosPart o = false) (ha : isUpAcc o = false) {g : Unit → CM β} (hg : Up (g ())) :
    Up (pushInstr o >>= fun _ => emitU32 a >>= fun _ => emitU32 b >>= fun _ => emitU32 c >>= fun _ =>
      emitU32 d >>= fun _ => emitU32 e >>= g) := by
  have e1 : (pushInstr o >>= fun _ => emitU32 a >>= fun _ => emitU32 b >>= fun _ => emitU32 c >>= fun _ =>
      emitU32 d >>= fun _ => emitU32 e >>= g) =
      (pushInstr o >>= fun _ => emitBytes (le32 (UInt32.ofNat a) ++ (le32 (UInt32.ofNat b) ++
        (le32 (UInt32.ofNat c) ++ (le32 (UInt32.ofNat d) ++ le32 (UInt32.ofNat e))))) >>= g) := by
    simp only [emitU32, emitBytes_append_bind]
  rw [e1]
  exact up_unit_bind (instr_up (by simp only [List.length_append, le32_length]; exact hsp) hc ha) hg

theorem forEachCode_up {i kk v : Option String} {it body : CM Unit} (h1 : Up it) (h2 : Up body) :
    Up (forEachCode i kk v it body) := by
  unfold forEachCode
  refine up_bind (withSub_up h1) fun _ => ?_
  refine up_bind (up_of_keep scopeBegin_keep) fun _ => ?_
  refine up_bind (up_of_keep (addLocalUnchecked_keep _)) fun loopVar => ?_
  refine up_bind (up_of_keep (addLocalUnchecked_keep _)) fun loopItem => ?_
  refine up_bind (up_of_keep (addLocalUnchecked_keep _)) fun vIndex => ?_
  refine up_bind (up_of_keep (addLocalUnchecked_keep _)) fun kIndex => ?_
  refine up_bind (up_of_keep (addLocalUnchecked_keep _)) fun iIndex => ?_
  refine eachInstr_bind_up (by decide) (by decide) (by decide) ?_
  refine up_bind up_get fun st => ?_
  dsimp only
  refine eachInstr_bind_up (by decide) (by decide) (by decide) ?_
  up

theorem whileCode_up {c b : CM Unit} (h1 : Up c) (h2 : Up b) : Up (whileCode c b) := by
  unfold whileCode; up

theorem repeatCode_up {i : Option String} {n b : CM Unit} (h1 : Up n) (h2 : Up b) : Up (repeatCode i n b) := by
  unfold repeatCode; up

theorem setVarCode_up {n : String} {v : CM Unit} (h : Up v) : Up (setVarCode n v) := by
  unfold setVarCode; up

theorem setGlobalVarCode_up {n : String} {v : CM Unit} (h : Up v) : Up (setGlobalVarCode n v) := by
  rw [setGlobalVarCode_eq]; up

theorem ifCode_up {skip : UInt8} (hs : isJump skip = true) {c b : CM Unit} (h1 : Up c) (h2 : Up b) :
    Up (ifCode skip c b) := by
  unfold ifCode
  exact up_bind (withSub_up h1) fun _ => up_bind (up_of_keep (pushSub_keep _)) fun _ =>
    up_bind (encodeIfThen_up hs h2) fun _ => up_of_keep popSub_keep

theorem callCode_up {n : String} {a : CM Unit} (h : Up a) : Up (callCode n a) := by
  unfold callCode; up

theorem callNativeCode_up {n : String} {a : CM Unit} (h : Up a) : Up (callNativeCode n a) := by
  unfold callNativeCode; up

theorem arrayCode_up {items : Nat → CM Unit} (h : ∀ tv, Up (items tv)) : Up (arrayCode items) := by
  unfold arrayCode; up

theorem unCode_up {u : UnKind} {c : CM Unit} (h : Up c) : Up (unCode u c) := by
  unfold unCode; up

theorem dynamicCallCode_up {a f : CM Unit} (h1 : Up a) (h2 : Up f) : Up (dynamicCallCode a f) := by
  unfold dynamicCallCode; up

/-! ## `IfElse`: two back-patched jumps -/

/-- the table part of `UR` -/
structure UTab (s s' : CState) : Prop where
  fid : s'.functionId = s.functionId
  grow : ∀ lvl, ∃ ext, s'.upvalues.getD lvl [] = s.upvalues.getD lvl [] ++ ext
  labels : ∃ l, s'.labels = s.labels ++ l

theorem UR.tab {s s' : CState} (h : UR s s') : UTab s s' := ⟨h.fid, h.grow, h.labels⟩

theorem UTab.of_eq {s s' : CState} (hl : s'.labels = s.labels) (hu : s'.upvalues = s.upvalues)
    (hf : s'.functionId = s.functionId) : UTab s s' :=
  ⟨hf, fun lvl => ⟨[], by rw [hu]; simp⟩, ⟨[], by rw [hl]; simp⟩⟩

theorem UTab.trans {s s1 s2 : CState} (h1 : UTab s s1) (h2 : UTab s1 s2) : UTab s s2 := by
  obtain ⟨l1, e1⟩ := h1.labels
  obtain ⟨l2, e2⟩ := h2.labels
  refine ⟨by rw [h2.fid, h1.fid], fun lvl => ?_, ⟨l1 ++ l2, by rw [e2, e1, List.append_assoc]⟩⟩
  obtain ⟨x1, g1⟩ := h1.grow lvl
  obtain ⟨x2, g2⟩ := h2.grow lvl
  exact ⟨x1 ++ x2, by rw [g2, g1, List.append_assoc]⟩

theorem UTab.nUp_le {s s' : CState} (h : UTab s s') : nUp s ≤ nUp s' := by
  obtain ⟨ext, he⟩ := h.grow s.functionId
  unfold nUp
  rw [h.fid, he, List.length_append]; omega

theorem UTab.labels_sub {s s' : CState} (h : UTab s s') : ∀ l ∈ s.labels, l ∈ s'.labels := by
  obtain ⟨x, e⟩ := h.labels
  intro l hl; rw [e]; exact List.mem_append_left _ hl

theorem Up.step {α β : Type} {m : CM α} {f : α → CM β} {s s'' : CState} {b : β} (hm : Up m) (hu : US s)
    (hr : (m >>= f) s = .ok (b, s'')) : ∃ a s', US s' ∧ UR s s' ∧ f a s' = .ok (b, s'') := by
  obtain ⟨a, s', h1, h2⟩ := bind_ok.1 hr
  obtain ⟨u, r⟩ := hm.run s a s' h1 hu
  exact ⟨a, s', u, r, h2⟩

theorem ifElseCode_up {c t e : CM Unit} (hc : Up c) (ht : Up t) (he : Up e) : Up (ifElseCode c t e) := by
  constructor
  intro s a s' hr hu
  unfold ifElseCode encodeIfThenRet at hr
  obtain ⟨_, s1, u1, r1, h2⟩ := (withSub_up hc).step hu hr
  obtain ⟨_, s1', u1', r1', h2⟩ := (up_of_keep (pushSub_keep 1)).step u1 h2
  obtain ⟨idx, s5, h3, h4⟩ := bind_ok.1 h2
  rw [pushInstr_bind_run, get_bind_run, emitU32_bind_run] at h3
  obtain ⟨r, s4, h5, h6⟩ := bind_ok.1 h3
  obtain ⟨_, s3, h7, h8⟩ := bind_ok.1 h5
  rw [pushInstr_bind_run, get_bind_run, emitU32_bind_run, pure_run] at h8
  rw [get_bind_run] at h6
  obtain ⟨_, s5a, h9, h10⟩ := bind_ok.1 h6
  obtain ⟨_, s5', h11, h12⟩ := bind_ok.1 h4
  obtain ⟨_, s6, h13, h14⟩ := bind_ok.1 h12
  rw [get_bind_run] at h14
  -- the conditional jump and the `then` branch
  obtain ⟨u2, r2, z2, o2⟩ := jump_step 0 u1' (by decide : isJump op.gotoIfFalse = true)
  change t (afterJump s1' op.gotoIfFalse 0) = _ at h7
  obtain ⟨u3, r3⟩ := ht.run _ _ _ h7 u2
  have z3 := r3.size_le
  have rA : UR s1' s3 := r2.trans r3
  -- the jump over the `else` branch
  simp only [Except.ok.injEq, Prod.mk.injEq] at h8
  obtain ⟨hr_, hs4⟩ := h8
  subst hr_
  have hs4' : afterJump s3 op.goto 0xEEF = s4 := hs4
  obtain ⟨u4, r4, z4, o4⟩ := jump_step 0xEEF u3 (by decide : isJump op.goto = true)
  rw [hs4'] at u4 r4 z4 o4
  clear hs4 hs4'
  -- first patch
  rw [afterInstr_size] at h9
  obtain ⟨p1, p2, p3, p4, p5⟩ := patchI32_spec h9 (by omega)
  simp only [pure_run, Except.ok.injEq, Prod.mk.injEq] at h10
  obtain ⟨rfl, rfl⟩ := h10
  have u5 : US s5a := u4.of_eq p4 p5
  -- `else` branch
  have k5 := (popSub_keep).run _ _ _ h11
  have u5' := u5.of_core k5
  simp only [ucore, Prod.mk.injEq] at k5
  obtain ⟨k51, k52, k53, k54⟩ := k5
  obtain ⟨u6, r6⟩ := (withSub_up he).run _ _ _ h13 u5'
  have z6 := r6.size_le
  -- second patch
  rw [afterInstr_size] at h14
  have hs5 : s5'.bytecode.size = s3.bytecode.size + 5 := by rw [k51, p1, z4]
  obtain ⟨q1, q2, q3, q4, q5⟩ := patchI32_spec h14 (by omega)
  refine ⟨u6.of_eq q4 q5, r1.trans (r1'.trans ?_)⟩
  have t34 : UTab s3 s5' := r4.tab.trans ((UTab.of_eq p3 p4 p5).trans (UTab.of_eq k52 k53 k54))
  have t36 : UTab s3 s' := t34.trans (r6.tab.trans (UTab.of_eq q3 q4 q5))
  have t6 : UTab s6 s' := UTab.of_eq q3 q4 q5
  have tab : UTab s1' s' := rA.tab.trans t36
  -- bytes of the final state
  have low : ∀ i, i < s3.bytecode.size → ¬ (s1'.bytecode.size + 1 ≤ i ∧ i < s1'.bytecode.size + 1 + 4) →
      s'.bytecode.getD i 0 = s3.bytecode.getD i 0 := by
    intro i hi hn
    rw [q2 i (by omega), r6.pref i (by omega), k51, p2 i hn, r4.pref i hi]
  have hgoto : s'.bytecode.getD s3.bytecode.size 0 = op.goto := by
    rw [q2 _ (by omega), r6.pref _ (by omega), k51, p2 _ (by omega), o4]
  refine ⟨tab.fid, tab.grow, tab.labels, by omega, fun i hi => ?_, ?_⟩
  · rw [low i (by have := rA.size_le; omega) (by omega), rA.pref i hi]
  · have hA : UpT s'.bytecode s'.labels (nUp s') s1'.bytecode.size s3.bytecode.size :=
      (rA.seg.patch_head (bc' := s'.bytecode) (by rw [r3.pref _ (by omega), o2]; rfl)
        (fun i _ h2 h3 => low i h2 h3)).mono (fun _ _ _ => rfl) t36.labels_sub t36.nUp_le
    have hE : UpT s'.bytecode s'.labels (nUp s') (s3.bytecode.size + 5) s'.bytecode.size := by
      rw [q1, ← hs5]
      exact r6.seg.mono (fun i h1 _ => q2 i (by omega)) t6.labels_sub t6.nUp_le
    refine hA.append (.plain (k := 5) (by rw [hgoto]; decide) (by rw [hgoto]; decide) ?_ hE)
    rw [hgoto]; intro h; exact absurd h (by decide)

theorem binCode_up {bk : BinKind} {a b : CM Unit} (h1 : Up a) (h2 : Up b) : Up (binCode bk a b) := by
  unfold binCode
  split
  · exact whileCode_up h1 h2
  · exact ifCode_up (by decide) h1 h2
  · exact ifCode_up (by decide) h1 h2
  · up

theorem triCode_up {tk : TriKind} {a b c : CM Unit} (h1 : Up a) (h2 : Up b) (h3 : Up c) :
    Up (triCode tk a b c) := by
  unfold triCode
  split
  · exact ifElseCode_up h1 h2 h3
  · up

/-! ## closures -/

theorem getD_append_nil {α : Type} (l : List (List α)) (i : Nat) : (l ++ [[]]).getD i [] = l.getD i [] := by
  simp only [List.getD_eq_getElem?_getD]
  by_cases h : i < l.length
  · rw [List.getElem?_append_left h]
  · rw [List.getElem?_append_right (by omega), List.getElem?_eq_none (by omega : l.length ≤ i)]
    cases i - l.length with
    | zero => simp
    | succ k => simp

theorem getD_dropLast {α : Type} (l : List (List α)) (i : Nat) :
    l.dropLast.getD i [] = if i + 1 < l.length then l.getD i [] else [] := by
  simp only [List.getD_eq_getElem?_getD, List.getElem?_dropLast]
  by_cases h : i + 1 < l.length
  · rw [if_pos (by omega), if_pos h]
  · rw [if_neg (by omega), if_neg h]; rfl

/-- the bytes `emitUpvalues` produces -/
def upvalueBytes (ups : List (Bool × UInt8)) : List UInt8 :=
  ups.flatMap (fun u => [op.copyLast, op.registerUpvalue, u.2, if u.1 then 1 else 0])

theorem upvalueBytes_length (ups : List (Bool × UInt8)) : (upvalueBytes ups).length = 4 * ups.length := by
  induction ups with
  | nil => rfl
  | cons u rest ih =>
    simp only [upvalueBytes, List.flatMap_cons, List.length_append, List.length_cons, List.length_nil] at ih ⊢
    omega

/-- `emitUpvalues` emits exactly one `CopyLast; RegisterUpvalue index isLocal` per entry -/
theorem emitUpvalues_spec : ∀ (ups : List (Bool × UInt8)) (s s' : CState),
    emitUpvalues ups s = .ok ((), s') →
    s'.bytecode = s.bytecode ++ (upvalueBytes ups).toArray ∧ s'.labels = s.labels ∧
    s'.upvalues = s.upvalues ∧ s'.functionId = s.functionId
  | [], s, s', h => by
    unfold emitUpvalues at h
    simp only [pure_run, Except.ok.injEq, Prod.mk.injEq, true_and] at h
    subst h
    simp [upvalueBytes]
  | (l, i) :: rest, s, s', h => by
    unfold emitUpvalues at h
    rw [pushInstr_bind_run, pushInstr_bind_run, emitBytes_bind_run] at h
    obtain ⟨h1, h2, h3, h4⟩ := emitUpvalues_spec rest _ _ h
    refine ⟨?_, by rw [h2]; rfl, by rw [h3]; rfl, by rw [h4]; rfl⟩
    rw [h1]
    simp only [afterInstr, upvalueBytes, List.flatMap_cons]
    apply Array.ext'
    simp

theorem pairs_of_ups (bc : Array UInt8) (n : Nat) : ∀ (ups : List (Bool × UInt8)) (at_ : Nat),
    (∀ i, i < 4 * ups.length → bc.getD (at_ + i) 0 = (upvalueBytes ups).getD i 0) →
    (∀ j, (false, j) ∈ ups → j.toNat < n) → Pairs bc n ups.length at_
  | [], _, _, _ => trivial
  | (l, idx) :: rest, at_, hb, hn => by
    have e : upvalueBytes ((l, idx) :: rest) =
        [op.copyLast, op.registerUpvalue, idx, if l then 1 else 0] ++ upvalueBytes rest := rfl
    have h0 := hb 0 (by simp only [List.length_cons]; omega)
    have h1 := hb 1 (by simp only [List.length_cons]; omega)
    have h2 := hb 2 (by simp only [List.length_cons]; omega)
    have h3 := hb 3 (by simp only [List.length_cons]; omega)
    rw [e] at h0 h1 h2 h3
    simp only [List.cons_append, List.nil_append, List.getD_cons_zero, List.getD_cons_succ, Nat.add_zero] at h0 h1 h2 h3
    refine ⟨h0, h1, ?_, pairs_of_ups bc n rest (at_ + 4) (fun i hi => ?_) (fun j hj => hn j (List.mem_cons_of_mem _ hj))⟩
    · rw [h3, h2]
      intro hz
      cases l with
      | true => exact absurd hz (by decide)
      | false => exact hn idx (List.mem_cons_self ..)
    · have := hb (4 + i) (by simp only [List.length_cons]; omega)
      rw [e] at this
      rw [show at_ + 4 + i = at_ + (4 + i) by omega, this]
      simp only [List.getD_eq_getElem?_getD]
      rw [List.getElem?_append_right (by simp)]
      simp

/-- **the closure rule** (`closure_region_upvalues`).  One run of `closureCode args body` from a state
with consistent upvalue tables, the body being code of its own level (`Up body`), emits
`Goto _; ⟨body⟩; Closure h arity; (CopyLast; RegisterUpvalue j l)^m` where

* `⟨body⟩ = [size s + 5, c)` is the code of a level with `m` upvalues: every `ReadUpvalue i` /
  `SetUpvalue i` emitted at this nesting level has `i < m`, `m` being the length of the closure's upvalue
  list at the end of the body, and `emitUpvalues` emits exactly `m` pairs;
* every non-local pair (`l = 0`) has `j <` the number of upvalues of the enclosing closure (`nUp s'`);
* the label `(h, start of the body)` is in the label log;

and it leaves the tables consistent, the enclosing context unchanged up to growth. -/
theorem closure_region_upvalues {args : List String} {body : CM Unit} (hb : Up body) {s s' : CState} {u : Unit}
    (hr : closureCode args body s = .ok (u, s')) (hu : US s) :
    ∃ c m, s'.bytecode.getD s.bytecode.size 0 = op.goto ∧
      UpT s'.bytecode s'.labels m (s.bytecode.size + 5) c ∧
      s'.bytecode.getD c 0 = op.closure ∧
      (UInt32.ofNat (rdU32 s'.bytecode (c + 1)), s.bytecode.size + 5) ∈ s'.labels ∧
      m ≤ 255 ∧ Pairs s'.bytecode (nUp s') m (c + 9) ∧ s'.bytecode.size = c + 9 + 4 * m ∧
      US s' ∧ UTab s s' ∧ (∀ i, i < s.bytecode.size → s'.bytecode.getD i 0 = s.bytecode.getD i 0) := by
  unfold closureCode at hr
  rw [pushInstr_bind_run, get_bind_run, emitU32_bind_run] at hr
  -- the jump over the body
  obtain ⟨u1, r1, z1, o1⟩ := jump_step 0xEEF hu (by decide : isJump op.goto = true)
  generalize hs1 : afterJump s op.goto 0xEEF = s1 at u1 r1 z1 o1
  change (compileBegin >>= _) (afterJump s op.goto 0xEEF) = _ at hr
  rw [hs1] at hr
  -- a new context
  obtain ⟨_, s2, h2, hr⟩ := bind_ok.1 hr
  unfold compileBegin at h2
  simp only [modify_run, Except.ok.injEq, Prod.mk.injEq, true_and] at h2
  have e2b : s2.bytecode = s1.bytecode := by rw [← h2]
  have e2l : s2.labels = s1.labels := by rw [← h2]
  have e2u : s2.upvalues = s1.upvalues ++ [[]] := by rw [← h2]
  have e2f : s2.functionId = s1.functionId + 1 := by rw [← h2]
  rw [get_bind_run] at hr
  dsimp only at hr
  obtain ⟨_, s3, h3, hr⟩ := bind_ok.1 hr
  have e3 := insertLabel_ok h3
  generalize hfh : s2.fnHandle ^^^ Hash.handleFromBytes (s2.curIndices.flatMap fun i => le32 (UInt32.ofNat i)) ^^^
    Hash.handleFromU64 closureMask = fh at hr e3 h3
  have e3b : s3.bytecode = s2.bytecode := by rw [e3]
  have e3l : s3.labels = s2.labels ++ [(fh, s2.bytecode.size)] := by rw [e3]
  have e3u : s3.upvalues = s2.upvalues := by rw [e3]
  have e3f : s3.functionId = s2.functionId := by rw [e3]
  have u3 : US s3 := by
    refine ⟨by rw [e3u, e3f, e2u, e2f, List.length_append, u1.len]; rfl, ?_, fun lvl => ?_, fun lvl j hj => ?_⟩
    · rw [e3u, e2u, getD_append_nil]; exact u1.base
    · rw [e3u, e2u, getD_append_nil]; exact u1.le lvl
    · rw [e3u, e2u, getD_append_nil] at hj ⊢; exact u1.nonloc lvl j hj
  -- the body
  obtain ⟨_, s4, u4, r4, hr⟩ := (up_of_keep scopeBegin_keep).step u3 hr
  obtain ⟨_, s5, u5, r5, hr⟩ := (up_of_keep (addLocals_keep _)).step u4 hr
  obtain ⟨_, s6, u6, r6, hr⟩ := hb.step u5 hr
  obtain ⟨_, s7, u7, r7, hr⟩ := scopeEnd_up.step u6 hr
  obtain ⟨_, s8, u8, r8, hr⟩ := (instr0_up (by decide) (by decide) (by decide)).step u7 hr
  obtain ⟨_, s9, u9, r9, hr⟩ := (instr0_up (by decide) (by decide) (by decide)).step u8 hr
  have r39 : UR s3 s9 := ((((r4.trans r5).trans r6).trans r7).trans r8).trans r9
  clear r4 r5 r6 r7 r8 r9 u4 u5 u6 u7 u8
  have z39 := r39.size_le
  -- patch the jump
  rw [get_bind_run] at hr
  obtain ⟨_, s10, h10, hr⟩ := bind_ok.1 hr
  rw [afterInstr_size] at h10
  have z3 : s3.bytecode.size = s.bytecode.size + 5 := by rw [e3b, e2b, z1]
  obtain ⟨p1, p2, p3, p4, p5⟩ := patchI32_spec h10 (by omega)
  -- the `Closure` instruction and the registrations
  rw [closInstr_bind_run, get_bind_run] at hr
  generalize hs11 : afterInstr s10 op.closure (le32 fh ++ le32 (UInt32.ofNat args.length)) = s11 at hr
  have e11b : s11.bytecode = s10.bytecode ++ (op.closure :: (le32 fh ++ le32 (UInt32.ofNat args.length))).toArray := by
    rw [← hs11]; rfl
  have e11l : s11.labels = s10.labels := by rw [← hs11]; rfl
  have e11u : s11.upvalues = s10.upvalues := by rw [← hs11]; rfl
  have e11f : s11.functionId = s10.functionId := by rw [← hs11]; rfl
  obtain ⟨_, s12, h12, hr⟩ := bind_ok.1 hr
  obtain ⟨e12b, e12l, e12u, e12f⟩ := emitUpvalues_spec _ _ _ h12
  unfold compileEnd at hr
  simp only [modify_run, Except.ok.injEq, Prod.mk.injEq, true_and] at hr
  have eb : s'.bytecode = s12.bytecode := by rw [← hr]
  have el : s'.labels = s12.labels := by rw [← hr]
  have eu : s'.upvalues = s12.upvalues.dropLast := by rw [← hr]
  have ef : s'.functionId = s12.functionId - 1 := by rw [← hr]
  clear hr h12 hs11 h10 h3 e3 h2
  -- tables of the final state in terms of `s9`
  have hu9 : s12.upvalues = s9.upvalues := by rw [e12u, e11u, p4]
  have hf9 : s12.functionId = s9.functionId := by rw [e12f, e11f, p5]
  have hl9 : s'.labels = s9.labels := by rw [el, e12l, e11l, p3]
  have f9 : s9.functionId = s.functionId + 1 := by
    rw [r39.fid, e3f, e2f]; exact congrArg (· + 1) r1.fid
  have len9 : s9.upvalues.length = s.functionId + 2 := by rw [u9.len, f9]
  have fid' : s'.functionId = s.functionId := by rw [ef, hf9, f9]; rfl
  have ups' : ∀ lvl, s'.upvalues.getD lvl [] = if lvl ≤ s.functionId then s9.upvalues.getD lvl [] else [] := by
    intro lvl
    rw [eu, hu9, getD_dropLast, len9]
    by_cases h : lvl ≤ s.functionId
    · rw [if_pos (by omega), if_pos h]
    · rw [if_neg (by omega), if_neg h]
  generalize hups : s11.upvalues.getD s11.functionId [] = ups at e12b
  have hups9 : ups = s9.upvalues.getD (s.functionId + 1) [] := by
    rw [← hups, e11u, e11f, p4, p5, f9]
  have hm9 : nUp s9 = ups.length := by unfold nUp; rw [f9, hups9]
  have hn' : nUp s' = (s9.upvalues.getD s.functionId []).length := by
    unfold nUp; rw [fid', ups', if_pos (Nat.le_refl _)]
  -- bytes of the final state
  have hc : s10.bytecode.size = s9.bytecode.size := p1
  have hsz11 : s11.bytecode.size = s9.bytecode.size + 9 := by
    rw [e11b]; simp [le32_length, hc]
  have hsz : s'.bytecode.size = s9.bytecode.size + 9 + 4 * ups.length := by
    rw [eb, e12b]; simp [upvalueBytes_length, hsz11]
  have b11 : ∀ i, i < s9.bytecode.size + 9 → s'.bytecode.getD i 0 = s11.bytecode.getD i 0 := by
    intro i hi; rw [eb, e12b]; exact getD_append_left (by omega)
  have b10 : ∀ i, i < s9.bytecode.size → s'.bytecode.getD i 0 = s10.bytecode.getD i 0 := by
    intro i hi; rw [b11 i (by omega), e11b]; exact getD_append_left (by omega)
  have b9 : ∀ i, i < s9.bytecode.size → ¬ (s.bytecode.size + 1 ≤ i ∧ i < s.bytecode.size + 1 + 4) →
      s'.bytecode.getD i 0 = s9.bytecode.getD i 0 := by
    intro i hi hn; rw [b10 i hi, p2 i hn]
  have b1 : ∀ i, i < s3.bytecode.size → ¬ (s.bytecode.size + 1 ≤ i ∧ i < s.bytecode.size + 1 + 4) →
      s'.bytecode.getD i 0 = s1.bytecode.getD i 0 := by
    intro i hi hn; rw [b9 i (by omega) hn, r39.pref i hi, e3b, e2b]
  have hclos : s'.bytecode.getD s9.bytecode.size 0 = op.closure := by
    rw [b11 _ (by omega), e11b, ← hc]; exact getD_append_op _ _ _
  have hrd : UInt32.ofNat (rdU32 s'.bytecode (s9.bytecode.size + 1)) = fh := by
    rw [rdU32_congr (bc := s11.bytecode) fun i _ _ => b11 i (by omega)]
    have := rdU32_opBytes s11.bytecode s10.bytecode.size
      (le32 fh ++ le32 (UInt32.ofNat args.length)).length 0 (by simp [le32_length])
    rw [Nat.add_zero, hc] at this
    rw [this, ← hc, e11b, opBytes_append, u32L_append_left _ _ _ (by rw [le32_length]; omega), u32L_le32,
      UInt32.ofNat_toNat]
  have hlab : (fh, s.bytecode.size + 5) ∈ s'.labels := by
    rw [hl9]
    apply r39.tab.labels_sub
    rw [e3l, e2b, z1]; simp
  have tab : UTab s s' := by
    refine ⟨fid', fun lvl => ?_, ?_⟩
    · rw [ups']
      by_cases h : lvl ≤ s.functionId
      · rw [if_pos h]
        obtain ⟨x, hx⟩ := r39.grow lvl
        obtain ⟨y, hy⟩ := r1.grow lvl
        rw [e3u, e2u, getD_append_nil] at hx
        exact ⟨y ++ x, by rw [hx, hy, List.append_assoc]⟩
      · rw [if_neg h]
        refine ⟨[], ?_⟩
        have : s.upvalues.length ≤ lvl := by rw [hu.len]; omega
        simp [List.getD_eq_getElem?_getD, List.getElem?_eq_none this]
    · obtain ⟨x, hx⟩ := r39.labels
      obtain ⟨y, hy⟩ := r1.labels
      exact ⟨y ++ (fh, s2.bytecode.size) :: x, by rw [hl9, hx, e3l, e2l, hy]; simp⟩
  refine ⟨s9.bytecode.size, ups.length, ?_, ?_, hclos, by rw [hrd]; exact hlab, ?_, ?_, hsz, ?_, tab, ?_⟩
  · rw [b1 _ (by omega) (by omega), o1]
  · rw [← z3, ← hm9]
    exact r39.seg.mono (fun i h1 h2 => b9 i h2 (by omega)) (fun l hl => by rw [hl9]; exact hl) (Nat.le_refl _)
  · rw [hups9]; exact u9.le _
  · refine pairs_of_ups _ _ ups _ (fun i hi => ?_) (fun j hj => ?_)
    · rw [eb, e12b, getD_append_right (by omega), getD_toArray]
      congr 1; omega
    · rw [hn']
      rw [hups9] at hj
      exact u9.nonloc _ _ hj
  · refine ⟨by rw [eu, hu9, List.length_dropLast, len9, fid']; rfl, ?_, fun lvl => ?_, fun lvl j hj => ?_⟩
    · rw [ups', if_pos (Nat.zero_le _)]; exact u9.base
    · rw [ups']; split
      · exact u9.le lvl
      · exact Nat.zero_le _
    · rw [ups'] at hj ⊢
      by_cases h : lvl + 1 ≤ s.functionId
      · rw [if_pos h] at hj; rw [if_pos (by omega)]; exact u9.nonloc lvl j hj
      · rw [if_neg h] at hj; cases hj
  · intro i hi
    rw [b1 i (by omega) (by omega), r1.pref i hi]

theorem closureCode_up {args : List String} {body : CM Unit} (hb : Up body) : Up (closureCode args body) := by
  constructor
  intro s u s' hr hu
  obtain ⟨c, m, h1, h2, h3, h4, h5, h6, h7, h8, h9, h10⟩ := closure_region_upvalues hb hr hu
  have hle := h2.le
  refine ⟨h8, h9.fid, h9.grow, h9.labels, by omega, h10, ?_⟩
  exact .clos h1 h2 h3 h4 h5 h6 (by rw [h7]; exact .nil _ _)

/-! ## the mutual induction, and whole compilation units -/

macro_rules | `(tactic| up_prim) => `(tactic| with_reducible apply forEachCode_up)
macro_rules | `(tactic| up_prim) => `(tactic| with_reducible apply repeatCode_up)
macro_rules | `(tactic| up_prim) => `(tactic| with_reducible apply setVarCode_up)
macro_rules | `(tactic| up_prim) => `(tactic| with_reducible apply setGlobalVarCode_up)
macro_rules | `(tactic| up_prim) => `(tactic| with_reducible apply callCode_up)
macro_rules | `(tactic| up_prim) => `(tactic| with_reducible apply callNativeCode_up)
macro_rules | `(tactic| up_prim) => `(tactic| with_reducible apply closureCode_up)
macro_rules | `(tactic| up_prim) => `(tactic| with_reducible apply unCode_up)
macro_rules | `(tactic| up_prim) => `(tactic| with_reducible apply binCode_up)
macro_rules | `(tactic| up_prim) => `(tactic| with_reducible apply triCode_up)
macro_rules | `(tactic| up_prim) => `(tactic| with_reducible apply dynamicCallCode_up)
macro_rules | `(tactic| up_prim) => `(tactic| with_reducible apply arrayCode_up)

theorem processCard_up_all :
    (∀ c, Up (processCard c)) ∧
    (∀ tv i cs, Up (processArrayItems tv i cs)) ∧
    (∀ i cs, Up (compileSubexprFrom i cs)) := by
  apply processCard.mutual_induct
    (motive_1 := fun c => Up (processCard c))
    (motive_2 := fun tv i cs => Up (processArrayItems tv i cs))
    (motive_3 := fun i cs => Up (compileSubexprFrom i cs))
  all_goals
    intros
    simp only [processCard, processArrayItems, compileSubexprFrom]
    up

theorem processCard_up (c : Card) : Up (processCard c) := processCard_up_all.1 c
theorem compileSubexprFrom_up (i : Nat) (cs : List Card) : Up (compileSubexprFrom i cs) :=
  processCard_up_all.2.2 i cs

theorem processFunctionCards_up : ∀ i cs, Up (processFunctionCards i cs)
  | _, [] => by unfold processFunctionCards; up
  | i, c :: cs => by
    have ih := processFunctionCards_up (i + 1) cs
    have hc := processCard_up c
    unfold processFunctionCards; up

theorem processFunction_up (f : FunctionIr) : Up (processFunction f) := by
  have h := processFunctionCards_up 0 f.cards
  unfold processFunction; up

theorem compileFunction_up (f : FunctionIr) : Up (compileFunction f) := by
  have h := processFunction_up f
  have hl := insertLabel_up
  unfold compileFunction; up

theorem compileFunctions_up : ∀ fs, Up (compileFunctions fs)
  | [] => by unfold compileFunctions; up
  | f :: fs => by
    have ih := compileFunctions_up fs
    have h := compileFunction_up f
    unfold compileFunctions; up

theorem compileUnit_up (unit : Array FunctionIr) : Up (compileUnit unit) := by
  have hmain := processFunction_up unit[0]!
  have habort := processCard_up .abort
  have hfs := compileFunctions_up (unit.toList.drop 1)
  unfold compileUnit; up

/-- the initial state has consistent (empty) upvalue tables -/
theorem US.init : US ({} : CState) := ⟨rfl, rfl, fun lvl => by
  cases lvl with
  | zero => exact Nat.zero_le _
  | succ k => exact Nat.zero_le _, fun lvl j hj => by simp [List.getD_eq_getElem?_getD] at hj⟩

/-- **the whole bytecode of a compiled unit is top-level code**: a level with no upvalues -/
theorem compileUnit_level {unit : Array FunctionIr} {s' : CState}
    (hr : (compileUnit unit).run {} = .ok ((), s')) : UpT s'.bytecode s'.labels 0 0 s'.bytecode.size := by
  change compileUnit unit {} = _ at hr
  obtain ⟨u, r⟩ := (compileUnit_up unit).run _ _ _ hr US.init
  have h0 : nUp s' = 0 := by
    unfold nUp
    rw [r.fid]
    show (s'.upvalues.getD 0 []).length = 0
    rw [u.base]; rfl
  have := r.seg
  rw [h0] at this
  exact this

/-! ## non-vacuity -/

/-- the hypotheses of `closure_region_upvalues` are satisfiable: the initial state has consistent
tables, a compiled card list is level code, and the run succeeds -/
example : US ({} : CState) ∧ Up (compileSubexprFrom 0 [.scalarNil]) ∧
    (match closureCode [] (compileSubexprFrom 0 [.scalarNil]) {} with
     | .ok _ => true
     | .error _ => false) = true :=
  ⟨US.init, compileSubexprFrom_up _ _, by decide +kernel⟩

/-- a concrete level: `ScalarNil; ReadUpvalue 1; Return` is code of a level with two upvalues, not of a
level with one -/
example : UpT #[op.scalarNil, op.readUpvalue, 1, 0, 0, 0, op.ret] [] 2 0 7 :=
  .plain (k := 1) (by decide) (by decide) (by decide)
    (.plain (k := 5) (by decide) (by decide) (by decide) (.plain (k := 1) (by decide) (by decide) (by decide) (.nil _ _)))

end Cao.Compiler
