import CaoProofs.Lemmas.CaptureStepAll
/-!
# The capture assertions are unreachable in every run of a program with `CapStatic` (C04c, stage B)

The induction over the fuel of `exec` (skeleton of `NoPanicExec.exec_cfi`): the dispatch loop keeps the
invariant `InvX` with the obligations `Wof` derived from the call stack above a protected base, in one
of two phases (`Mode`): normal, or between a `Closure` instruction and the end of its
`CopyLast; RegisterUpvalue` pairs; `run_function` keeps the invariant of its caller.
-/
namespace Cao.Vm
open Cao.Gc Cao.C02
set_option linter.unusedSectionVars false
set_option linter.unusedVariables false

/-- the obligations of frames that wait for a callee: continue at `dst` with their closure -/
def Wof (lvl : Nat → Nat) (fs : List Frame) : List (Option Nat × Nat) := fs.map (fun f => (f.closure, lvl f.dst))

theorem wof_concat (lvl : Nat → Nat) (fs : List Frame) (f : Frame) :
    Wof lvl (fs ++ [f]) = Wof lvl fs ++ [(f.closure, lvl f.dst)] := by simp [Wof]

theorem rooted_wof (lvl : Nat → Nat) (fs : List Frame) : RootedIn (Wof lvl fs) fs := by
  intro w hw c hc
  obtain ⟨f, hf, rfl⟩ := List.mem_map.1 hw
  unfold fcs
  exact List.mem_filterMap.2 ⟨f, hf, hc⟩

theorem RootedIn.weaken {W : List (Option Nat × Nat)} {fs fs' : List Frame} (h : RootedIn W fs) :
    RootedIn W (fs ++ fs') := fun w hw c hc => mem_fcs_append.2 (.inl (h w hw c hc))

theorem RootedIn.app {W W' : List (Option Nat × Nat)} {fs fs' : List Frame} (h : RootedIn W fs)
    (h' : RootedIn W' fs') : RootedIn (W ++ W') (fs ++ fs') := by
  intro w hw c hc
  rcases List.mem_append.1 hw with hw | hw
  · exact mem_fcs_append.2 (.inl (h w hw c hc))
  · exact mem_fcs_append.2 (.inr (h' w hw c hc))

/-- outcome of a run of `exec`: `Q` for the state it returns with, `E` for its error -/
def ExecPostS (Q : VmState → Prop) (E : ErrKind → Prop) (r : VmState × Except RunErr (Option Val)) : Prop :=
  match r.2 with
  | .ok _ => Q r.1
  | .error e => E e.kind

theorem execPostS_mono {Q Q' : VmState → Prop} {E : ErrKind → Prop} {r : VmState × Except RunErr (Option Val)}
    (h : ExecPostS Q E r) (hq : ∀ s, Q s → Q' s) : ExecPostS Q' E r := by
  unfold ExecPostS at h ⊢
  split
  · next heq => rw [heq] at h; exact hq _ h
  · next heq => rw [heq] at h; exact h

theorem st_liftRun {K : VmState → Prop} {E : ErrKind → Prop}
    {g : VmState → VmState × Except RunErr (Option Val)}
    (h : ∀ s, K s → ExecPostS K E (g s)) : St K (liftRun g) (fun _ => K) E := by
  constructor
  · intro s a s' hs hg
    have := h s hs
    unfold ExecPostS at this
    have hgo : (liftRun g).go s = (match g s with
      | (s', .ok (some v)) => ((.ok v : Except ErrKind Val), s')
      | (s', .ok none) => (.ok .nil, s')
      | (s', .error e) => (.error e.kind, s')) := rfl
    rw [hgo] at hg
    rcases hgs : g s with ⟨s1, (e | (_ | v))⟩ <;> rw [hgs] at hg this <;> simp only [Prod.mk.injEq] at hg
    · exact absurd hg.1 (by simp)
    · obtain ⟨_, rfl⟩ := hg; exact this
    · obtain ⟨_, rfl⟩ := hg; exact this
  · intro s e s' hs hg
    have := h s hs
    unfold ExecPostS at this
    have hgo : (liftRun g).go s = (match g s with
      | (s', .ok (some v)) => ((.ok v : Except ErrKind Val), s')
      | (s', .ok none) => (.ok .nil, s')
      | (s', .error e) => (.error e.kind, s')) := rfl
    rw [hgo] at hg
    rcases hgs : g s with ⟨s1, (e' | (_ | v))⟩ <;> rw [hgs] at hg this <;> simp only [Prod.mk.injEq] at hg
    · obtain ⟨h1, _⟩ := hg
      simp only [Except.error.injEq] at h1
      exact h1 ▸ this
    · exact absurd hg.1 (by simp)
    · exact absurd hg.1 (by simp)

/-- the error class that excludes nothing (to reuse the control-flow facts of `exec_cfi`) -/
instance execErrTrue : ExecErr (fun _ => True) where
  calm _ := trivial
  wrap _ := trivial
  capture := trivial
  index := trivial
  gas := trivial

section inv
variable {p : Prog} {lvl : Nat → Nat}

/-- other obligations, another call stack, any value stack (no closure under construction) -/
theorem InvX.reframe_none {W W' : List (Option Nat × Nat)} {fs fs' : List Frame} {s s' : VmState}
    (h : InvX p lvl none W fs s) (hh : s'.heap = s.heap) (hf : s'.frames = fs')
    (hW : ∀ w ∈ W', w ∈ W) (hr : RootedIn W' fs') : InvX p lvl none W' fs' s' :=
  ⟨by rw [hh]; exact h.heap, fun w hw => by rw [hh]; exact h.obl w (hW w hw), hr, hf, fun _ hx => by cases hx⟩

theorem heapOk_empty (hp : Heap) (h : hp.objs = []) : HeapOkX p lvl none hp := by
  have : ∀ a, hp.get a = none := fun a => by unfold Heap.get; rw [h]; rfl
  exact ⟨fun a hd ar hg => (by rw [this] at hg; cases hg), fun a hd ar ups hg => (by rw [this] at hg; cases hg)⟩

/-- a fresh machine satisfies the invariant -/
theorem invX_fresh (c : Config) : InvX p lvl none [] [] (VmState.fresh c) :=
  ⟨heapOk_empty _ rfl, fun _ hw => (by cases hw), fun _ hw => (by cases hw), rfl, fun _ hx => (by cases hx)⟩

/-- so does a cleared one -/
theorem invX_clear (s : VmState) : InvX p lvl none [] [] (clear s) :=
  ⟨heapOk_empty _ rfl, fun _ hw => (by cases hw), fun _ hw => (by cases hw), rfl, fun _ hx => (by cases hx)⟩

end inv

section exec
variable (p : Prog) (G : Nat → Prop) (lvl cnt : Nat → Nat)

/-- the two phases of the loop: normal, or the closure at `a` (created by the `Closure` instruction at `c`)
is under construction, `k` of its pairs are done -/
def Mode (W0 : List (Option Nat × Nat)) (fs0 : List Frame) (l : Frame) (ip : Nat) (s : VmState) : Prop :=
  InvX p lvl none (W0 ++ [(l.closure, lvl ip)]) (fs0 ++ [l]) s ∨
  ∃ a c k ar ups, G c ∧ p.bytecode.getD c 0 = Compiler.op.closure ∧ k < cnt c ∧
    InvX p lvl (some a) (W0 ++ [(l.closure, lvl ip)]) (fs0 ++ [l]) s ∧
    s.heap.get a = some (.closure (UInt32.ofNat (rdU32 p.bytecode (c + 1))) ar ups) ∧ k ≤ ups.length ∧
    ((ip = c + 9 + 4 * k ∧ TopIs s a) ∨ (ip = c + 9 + 4 * k + 1 ∧ Top2Is s a))

/-- what the loop guarantees: above the protected base `B` (obligations `WB`) -/
def LoopSpecS (gas : Nat) : Prop :=
  ∀ (WB : List (Option Nat × Nat)) (B rest : List Frame) (l : Frame) (ip : Nat) (s : VmState),
    BaseExit p B → RootedIn WB B → Good G (B ++ rest ++ [l]) → G ip →
    Mode p G lvl cnt (WB ++ Wof lvl rest) (B ++ rest) l ip s →
    ExecPostS (fun s' => ∃ W', InvX p lvl none (WB ++ W') s'.frames s' ∧ B <+: s'.frames) NoCap
      (exec p gas (.loop ip) s)

/-- what `run_function` guarantees: the invariant of its caller -/
def CallSpecS (gas : Nat) : Prop :=
  ∀ (f : Val) (s : VmState) (W : List (Option Nat × Nat)) (fs : List Frame), InvX p lvl none W fs s →
    Good G fs → ExecPostS (fun s' => InvX p lvl none W fs s') NoCap (exec p gas (.call f) s)

variable {p G lvl cnt}

/-- the loop at an `Exit` -/
theorem exec_at_exit (gas ip : Nat) (s : VmState) (W : List (Option Nat × Nat)) (fs : List Frame)
    (hx : p.bytecode.getD ip 0 = Compiler.op.exit) (h : InvX p lvl none W fs s) :
    ExecPostS (fun s' => InvX p lvl none W fs s') NoCap (exec p gas (.loop ip) s) := by
  cases gas with
  | zero => rw [exec_zero]; exact noCap_gas
  | succ gas =>
    rw [exec_loop]
    split
    · (show NoCap _; exact ErrClass.calm (calm_of_plain rfl))
    split
    · (show NoCap _; exact ErrClass.calm (calm_of_plain rfl))
    rw [step_exit p _ ip hx]
    simp only [go_pure, if_true]
    show InvX p lvl none W fs s.tick
    exact h.congr' rfl rfl

theorem enterScript_capture (hs : CapStatic p G lvl cnt) (hc : Cfi p G) (gas : Nat)
    (ih : LoopSpecS p G lvl cnt gas) (s : VmState) (label : UInt32) (ar : Nat) (clo : Option Nat)
    (W : List (Option Nat × Nat)) (hK : InvX p lvl none W s.frames s) (hg : Good G s.frames)
    (hfo : ∀ e, p.labels.find? (fun l => l.1 == label) = some e → FrameOk s.heap (lvl e.2) clo) :
    ExecPostS (fun s' => InvX p lvl none W s.frames s') NoCap (enterScript p gas s label ar clo) := by
  unfold enterScript
  split
  · (show NoCap _; exact ErrClass.calm (calm_of_plain rfl))
  next pos hfind =>
  dsimp only
  split
  · (show NoCap _; exact ErrClass.calm (calm_of_plain rfl))
  split
  · (show NoCap _; exact ErrClass.calm (calm_of_plain rfl))
  split
  · (show NoCap _; exact ErrClass.calm (calm_of_plain rfl))
  generalize hfr : ({ src := pos, dst := p.bytecode.size - 1, stackOffset := s.stack.count - ar, closure := clo } : Frame) = fr
  have hdst : fr.dst = p.bytecode.size - 1 := by rw [← hfr]
  have hclo : fr.closure = clo := by rw [← hfr]
  have hB : BaseExit p (s.frames ++ [fr]) := by
    intro c' hc'
    rw [List.getLast?_append, List.getLast?_singleton] at hc'
    simp only [Option.some_or, Option.some.injEq] at hc'
    rw [← hc', hdst]; exact hc.lastExit
  have hgood : Good G (s.frames ++ [fr] ++ [] ++ [fr]) := by
    intro f hf
    simp only [List.mem_append, List.mem_cons, List.not_mem_nil, or_false] at hf
    rcases hf with (hf | rfl) | rfl
    · exact hg f hf
    · rw [hdst]; exact hc.last
    · rw [hdst]; exact hc.last
  have hpos : G pos := hc.label _ (List.mem_of_find?_eq_some hfind)
  have hroot : ∀ c, fr.closure = some c → c ∈ fcs (s.frames ++ [fr]) := fun c hcl =>
    mem_fcs_append.2 (.inr (mem_fcs_singleton.2 hcl))
  have hWB : RootedIn (W ++ [(fr.closure, lvl fr.dst)]) (s.frames ++ [fr]) := by
    intro w hw c hcw
    rcases List.mem_append.1 hw with hw | hw
    · exact mem_fcs_append.2 (.inl (hK.rooted w hw c hcw))
    · simp only [List.mem_singleton] at hw; subst hw; exact hroot c hcw
  have hm0 : InvX p lvl none W (s.frames ++ [fr] ++ [fr]) { s with frames := s.frames ++ [fr, fr] } :=
    hK.reframe_none rfl (by simp) (fun w hw => hw) (fun w hw c hcw =>
      mem_fcs_append.2 (.inl (mem_fcs_append.2 (.inl (hK.rooted w hw c hcw)))))
  have hm1 := hm0.add_obl (n := lvl fr.dst) (clo := fr.closure) (.inl (by rw [hdst]; exact hs.lastLvl))
    (fun c hcl => mem_fcs_append.2 (.inl (hroot c hcl)))
  have hm2 := hm1.add_obl (n := lvl pos) (clo := fr.closure) (by rw [hclo]; exact hfo _ hfind)
    (fun c hcl => mem_fcs_append.2 (.inl (hroot c hcl)))
  have key := ih (W ++ [(fr.closure, lvl fr.dst)]) (s.frames ++ [fr]) [] fr pos
    { s with frames := s.frames ++ [fr, fr] } hB hWB hgood hpos
    (.inl (by simpa [Wof] using hm2))
  unfold ExecPostS at key ⊢
  rcases hex : exec p gas (.loop pos) { s with frames := s.frames ++ [fr, fr] } with ⟨s', r⟩
  rw [hex] at key
  cases r with
  | error e => exact key
  | ok v =>
    obtain ⟨W', hI, ⟨u, hu⟩⟩ := key
    dsimp only at hI hu ⊢
    refine hI.reframe_none rfl ?_ (fun w hw => List.mem_append_left _ (List.mem_append_left _ hw)) hK.rooted
    show s'.frames.take s.frames.length = s.frames
    rw [← hu, List.append_assoc, List.take_left' rfl]

/-- **the capture invariant of the dispatch loop and of `run_function`**, by induction on the fuel -/
theorem exec_capture (hs : CapStatic p G lvl cnt) (hc : Cfi p G) :
    ∀ gas, LoopSpecS p G lvl cnt gas ∧ CallSpecS p G lvl gas := by
  intro gas
  induction gas with
  | zero =>
    constructor
    · intro WB B rest l ip s _ _ _ _ _
      rw [exec_zero]; exact noCap_gas
    · intro f s W fs _ _
      rw [exec_zero]; exact noCap_gas
  | succ gas ih =>
    have hreT : ReBase (reenterOf p gas) G (fun _ => True) := fun f fs hg =>
      fr_liftRun (fun s hs' => by subst hs'; exact (exec_cfi (E := fun _ => True) p hc gas).2.prefix f s hg)
    have hreS : ∀ W fs, Good G fs → ReSpecS (reenterOf p gas) (InvX p lvl none W fs) NoCap := fun W fs hg f =>
      st_liftRun (fun s hK => ih.2 f s W fs hK hg)
    constructor
    · intro WB B rest l ip s hB hWB hgood hip hmode
      have hfr : s.frames = B ++ rest ++ [l] := by
        rcases hmode with h | ⟨_, _, _, _, _, _, _, _, h, _⟩ <;> exact h.frames
      have hroot : RootedIn (WB ++ Wof lvl rest) (B ++ rest) := hWB.app (rooted_wof lvl rest)
      rw [exec_loop]
      split
      · (show NoCap _; exact ErrClass.calm (calm_of_plain rfl))
      split
      · (show NoCap _; exact ErrClass.calm (calm_of_plain rfl))
      have hne : s.frames ≠ [] := by rw [hfr]; simp
      have hcfi := fr_step_cfi (E := fun _ => True) p hc (reenterOf p gas) hreT ip s.frames hne
        (hfr ▸ hgood) hip
      rcases hmode with hN | ⟨a, c, k, ar, ups, hGc, hopc, hk, hI, hga, hku, hpos⟩
      · -- the normal phase
        have hst := st_step (E := NoCap) (re := reenterOf p gas) (W0 := WB ++ Wof lvl rest) (fs0 := B ++ rest)
          (l := l) hs hc hip hroot (hreS _ _ hgood)
        split
        · next e s' heq => exact hst.err s.tick e s' (hN.congr' rfl rfl) heq
        · next ctl s' heq =>
          have post := hcfi.ok s.tick ctl s' rfl heq
          have hq := hst.ok s.tick ctl s' (hN.congr' rfl rfl) heq
          cases hq with
          | exit hx hK =>
            rw [if_pos hx]
            refine ⟨Wof lvl rest ++ [(l.closure, lvl ip)], ?_, ?_⟩
            · show InvX p lvl none _ s'.frames s'
              rw [hK.frames, ← List.append_assoc]; exact hK
            · show B <+: s'.frames
              rw [hK.frames, List.append_assoc]; exact List.prefix_append _ _
          | ord hx hK hl =>
            rw [if_neg (by simp [hx])]
            exact ih.1 WB B rest l ctl.ip s' hB hWB (hK.frames ▸ post.good) (post.next hx)
              (.inl (by rw [hl]; exact hK))
          | call l' nf hx hcl hl hK hfo =>
            rw [if_neg (by simp [hx])]
            have hK2 := hK.add_obl hfo (fun c hcc =>
              mem_fcs_append.2 (.inr (mem_fcs_singleton.2 hcc)))
            have e1 : WB ++ Wof lvl (rest ++ [l']) = WB ++ Wof lvl rest ++ [(l.closure, lvl ip)] := by
              rw [wof_concat, hcl, hl, List.append_assoc]
            have e2 : B ++ (rest ++ [l']) = B ++ rest ++ [l'] := by rw [List.append_assoc]
            refine ih.1 WB B (rest ++ [l']) nf ctl.ip s' hB hWB ?_ (post.next hx) (.inl ?_)
            · rw [e2, ← hK.frames]; exact post.good
            · rw [e1, e2]; exact hK2
          | ret hx hK hcf =>
            rw [if_neg (by simp [hx])]
            obtain ⟨cf, hcf, hipc⟩ := hcf
            rcases List.eq_nil_or_concat rest with hrest | ⟨rest', cfr, hrest⟩
            · subst hrest
              have hcf' : B.getLast? = some cf := by simpa using hcf
              rw [hipc]
              refine execPostS_mono (exec_at_exit gas cf.dst s' _ _ (hB cf hcf') hK) (fun s'' h'' => ⟨[], ?_, ?_⟩)
              · rw [h''.frames]; simpa [Wof] using h''
              · rw [h''.frames]; simp
            · rw [List.concat_eq_append] at hrest
              subst hrest
              have hcc : cf = cfr := by
                rw [← List.append_assoc, List.getLast?_concat] at hcf
                exact (Option.some.inj hcf).symm
              subst hcc
              rw [hipc]
              refine ih.1 WB B rest' cf cf.dst s' hB hWB ?_ (hipc ▸ post.next hx) (.inl ?_)
              · rw [← List.append_assoc] at hK; rw [← hK.frames]; exact post.good
              · have := hK
                rw [wof_concat, ← List.append_assoc, ← List.append_assoc] at this
                exact this
          | clos a ar hx hipc hop hK hga htop =>
            rw [if_neg (by simp [hx])]
            have hl : lvl ctl.ip = lvl ip := by
              rw [hipc]
              exact hs.seq ip 9 hip (by rw [hop]; decide) (by rw [hop]; decide) (by rw [hop]; decide)
                (by rw [hop]; decide)
            by_cases hcnt : 0 < cnt ip
            · refine ih.1 WB B rest l ctl.ip s' hB hWB (hK.frames ▸ post.good) (post.next hx)
                (.inr ⟨a, ip, 0, ar, [], hip, hop, hcnt, by rw [hl]; exact hK, hga, Nat.le_refl _,
                  .inl ⟨by rw [hipc], htop⟩⟩)
            · have hcomp := hs.closLabel ip hip hop
              have hK' := hK.finish hga (hcomp.mono (by show cnt ip ≤ 0; omega))
              exact ih.1 WB B rest l ctl.ip s' hB hWB (hK'.frames ▸ post.good) (post.next hx)
                (.inl (by rw [hl]; exact hK'))
      · -- a closure is under construction
        have hpairs := hs.pairs c k hGc hopc hk
        rcases hpos with ⟨hip', ht⟩ | ⟨hip', ht2⟩
        · -- `CopyLast`
          have hopl : p.bytecode.getD ip 0 = Compiler.op.copyLast := by rw [hip']; exact hpairs.1
          have hst := st_copyLast_tail (p := p) (lvl := lvl) (E := NoCap) (re := reenterOf p gas)
            (W := WB ++ Wof lvl rest ++ [(l.closure, lvl ip)]) (fs := B ++ rest ++ [l]) (src := ip) hopl a
            (.closure (UInt32.ofNat (rdU32 p.bytecode (c + 1))) ar ups)
          have hl : lvl (ip + 1) = lvl ip :=
            hs.seq ip 1 hip (by rw [hopl]; decide) (by rw [hopl]; decide) (by rw [hopl]; decide)
              (by rw [hopl]; decide)
          split
          · next e s' heq => exact hst.err s.tick e s' ⟨hI.congr rfl rfl (.inr rfl), hga, ht⟩ heq
          · next ctl s' heq =>
            have post := hcfi.ok s.tick ctl s' rfl heq
            obtain ⟨hx, hipn, hI', hga', ht2'⟩ := hst.ok s.tick ctl s' ⟨hI.congr rfl rfl (.inr rfl), hga, ht⟩ heq
            rw [if_neg (by simp [hx])]
            refine ih.1 WB B rest l ctl.ip s' hB hWB (hI'.frames ▸ post.good) (post.next hx)
              (.inr ⟨a, c, k, ar, ups, hGc, hopc, hk, ?_, hga', hku, .inr ⟨by rw [hipn, hip'], ht2'⟩⟩)
            rw [hipn, hl]; exact hI'
        · -- `RegisterUpvalue`
          have hopr : p.bytecode.getD ip 0 = Compiler.op.registerUpvalue := by rw [hip']; exact hpairs.2
          have hst := st_regUp (p := p) (lvl := lvl) (E := NoCap) (re := reenterOf p gas)
            (W0 := WB ++ Wof lvl rest) (fs0 := B ++ rest) (l := l) (src := ip) (n := lvl ip) (x := some a) (a := a)
            (hd0 := UInt32.ofNat (rdU32 p.bytecode (c + 1))) (k := k) hopr (hs.reg ip hip hopr) (.inr rfl)
          have hl : lvl (ip + 3) = lvl ip :=
            hs.seq ip 3 hip (by rw [hopr]; decide) (by rw [hopr]; decide) (by rw [hopr]; decide)
              (by rw [hopr]; decide)
          have hpre : InvX p lvl (some a) (WB ++ Wof lvl rest ++ [(l.closure, lvl ip)]) (B ++ rest ++ [l]) s.tick ∧
              (some a = some a → Top2Is s.tick a ∧ ∃ ar ups,
                s.tick.heap.get a = some (.closure (UInt32.ofNat (rdU32 p.bytecode (c + 1))) ar ups) ∧
                  k ≤ ups.length) :=
            ⟨hI.congr rfl rfl (.inr rfl), fun _ => ⟨ht2, ar, ups, hga, hku⟩⟩
          split
          · next e s' heq => exact hst.err s.tick e s' hpre heq
          · next ctl s' heq =>
            have post := hcfi.ok s.tick ctl s' rfl heq
            obtain ⟨hx, hipn, hI', htr⟩ := hst.ok s.tick ctl s' hpre heq
            obtain ⟨ht', ar', ups', hga', hku'⟩ := htr rfl
            rw [if_neg (by simp [hx])]
            by_cases hk1 : k + 1 < cnt c
            · refine ih.1 WB B rest l ctl.ip s' hB hWB (hI'.frames ▸ post.good) (post.next hx)
                (.inr ⟨a, c, k + 1, ar', ups', hGc, hopc, hk1, ?_, hga', hku', .inl ⟨by rw [hipn, hip']; omega, ht'⟩⟩)
              rw [hipn, hl]; exact hI'
            · have hcomp := hs.closLabel c hGc hopc
              have hK' := hI'.finish hga' (hcomp.mono (by omega))
              refine ih.1 WB B rest l ctl.ip s' hB hWB (hK'.frames ▸ post.good) (post.next hx) (.inl ?_)
              rw [hipn, hl]; exact hK'
    · intro f s W fs hK hg
      have hf := hK.frames
      subst hf
      rw [exec_call]
      split
      · next a =>
        split
        · next _ h hget =>
          have hn := st_callNative (E := NoCap) (reenterOf p gas) (hreS W s.frames hg) h
          split
          · next s' heq => exact (hn.ok s () s' hK heq).congr' rfl rfl
          · next e s' heq => exact (hn.err s e s' hK heq : NoCap e)
        · next _ h ar hget =>
          exact enterScript_capture hs hc gas ih.1 s _ _ _ W hK hg
            (fun e he => .inl (hK.heap.fn a h ar hget e he))
        · next _ h ar ups hget =>
          exact enterScript_capture hs hc gas ih.1 s _ _ _ W hK hg
            (fun e he => .inr ⟨a, rfl, h, ar, ups, hget, hK.heap.clo a h ar ups hget (by simp) e he⟩)
        · (show NoCap _; exact ErrClass.calm (calm_of_plain rfl))
      · (show NoCap _; exact ErrClass.calm (calm_of_plain rfl))

/-- the loop that `run` starts -/
theorem started_capture (hs : CapStatic p G lvl cnt) (hc : Cfi p G) (h0 : G 0) (n : Nat) (s : VmState)
    (hK : InvX p lvl none (Wof lvl s.frames) s.frames s) (hg : Good G s.frames) :
    ExecPostS (fun s' => ∃ W', InvX p lvl none ([] ++ W') s'.frames s' ∧ [] <+: s'.frames) NoCap
      (exec p (gasFor (started n s) n) (.loop 0) (started n s)) := by
  have hgood : Good G ([] ++ s.frames ++ [{ src := 0, dst := 0, stackOffset := 0, closure := none }]) := by
    intro f hf
    simp only [List.nil_append, List.mem_append, List.mem_singleton] at hf
    rcases hf with hf | rfl
    · exact hg f hf
    · exact h0
  have hm0 : InvX p lvl none (Wof lvl s.frames)
      (s.frames ++ [{ src := 0, dst := 0, stackOffset := 0, closure := none }]) (started n s) :=
    hK.reframe_none rfl rfl (fun w hw => hw) (fun w hw c hcw => mem_fcs_append.2 (.inl (hK.rooted w hw c hcw)))
  have hm1 := hm0.add_obl (n := lvl 0) (clo := none) (.inl hs.entryLvl) (fun c hcl => by cases hcl)
  exact (exec_capture hs hc (gasFor (started n s) n)).1 [] [] s.frames
    { src := 0, dst := 0, stackOffset := 0, closure := none } 0 (started n s)
    (fun c hc' => by simp at hc') (fun w hw => by cases hw) hgood h0 (.inl (by simpa using hm1))

/-- **stage B — `run`**: a program with the static facts `CapStatic` (and control-flow integrity), run with
any budget from a machine that satisfies the invariant (see `invX_fresh`, `invX_clear`, `run_keeps_inv`):
no reported error has a capture assertion as its root cause -/
theorem run_no_capture_panic_of (hs : CapStatic p G lvl cnt) (hc : Cfi p G) (h0 : G 0) (n : Nat) (s : VmState)
    (hK : InvX p lvl none (Wof lvl s.frames) s.frames s) (hg : Good G s.frames) (e : RunErr)
    (h : (run p n s).2 = some e) : NoCap e.kind := by
  by_cases hr : s.frames.length < s.frameCap
  · rw [run_room p n s hr] at h
    simp only at h
    have key := started_capture hs hc h0 n s hK hg
    unfold ExecPostS at key
    split at h
    · cases h
    · next e' heq =>
      simp only [Option.some.injEq] at h
      subst h
      rw [heq] at key
      exact key
  · rw [run_no_room p n s (Nat.not_lt.1 hr)] at h
    simp only [Option.some.injEq] at h
    subst h
    exact ErrClass.calm (calm_of_plain rfl)

/-- a run that ends without an error leaves a machine that satisfies the invariant again: the hypothesis
of `run_no_capture_panic_of` is an invariant of (error-free) use of a machine for one program -/
theorem run_keeps_inv (hs : CapStatic p G lvl cnt) (hc : Cfi p G) (h0 : G 0) (n : Nat) (s : VmState)
    (hfr : s.frames = []) (hK : InvX p lvl none [] [] s) (hok : (run p n s).2 = none) :
    InvX p lvl none [] [] (run p n s).1 := by
  by_cases hr : s.frames.length < s.frameCap
  · rw [run_room p n s hr] at hok ⊢
    simp only at hok ⊢
    have key := started_capture hs hc h0 n s (by rw [hfr]; exact hK) (by rw [hfr]; intro f hf; cases hf)
    unfold ExecPostS at key
    split at hok
    · next v heq =>
      rw [heq] at key
      obtain ⟨W', hI, _⟩ := key
      refine hI.reframe_none rfl ?_ (fun w hw => by cases hw) (fun w hw => by cases hw)
      show List.take s.frames.length _ = []
      rw [hfr]; rfl
    · cases hok
  · rw [run_no_room p n s (Nat.not_lt.1 hr)]
    exact hK

end exec

end Cao.Vm
