import CaoProofs.Lemmas.ResolveLemmas
/-!
# Every `Call` card leaves its static-call sequence in the final bytecode (C08b)

`Site T m l`: running `m` with the resolution tables `T` installed leaves, for every name `n ∈ l`,
the ten bytes `FunctionPointer h a; CallFunction` at some position of the *new* part of the
bytecode, `(h, a)` being what `n` resolves to. The sequence is emitted by `callCode`
(`site_callCode_head`); everything the compiler does afterwards appends, or back-patches the
operand of a jump placeholder that lies outside the sequence (`site_encodeIfThen`,
`site_ifElseCode_*`, `site_closureCode`); all other contexts are handled by the two sequencing
rules (`site_bind_left`, `site_bind_right`) and the tactic `site_nav`.
-/
namespace Cao.Compiler
open Cao
set_option linter.unusedVariables false
set_option linter.unusedSimpArgs false

/-! ## the call sequence -/

/-- the ten bytes of a static call -/
def siteBytes (h a : UInt32) : List UInt8 := op.functionPointer :: (le32 h ++ le32 a ++ [op.callFunction])

theorem le32_len (x : UInt32) : (le32 x).length = 4 := by simp [le32, Hash.le32]

theorem siteBytes_length (h a : UInt32) : (siteBytes h a).length = 10 := by
  simp [siteBytes, le32_len]

/-- the code of a static call with operands `(h, a)` sits at `src` -/
def SiteAt (bc : Array UInt8) (src : Nat) (h a : UInt32) : Prop :=
  src + 10 ≤ bc.size ∧ ∀ k, k < 10 → bc[src + k]? = (siteBytes h a)[k]?

theorem SiteAt.ext {bc bc' : Array UInt8} {src : Nat} {h a : UInt32} (hs : SiteAt bc src h a)
    (hsz : bc.size ≤ bc'.size) (hk : ∀ i, src ≤ i → i < src + 10 → bc'[i]? = bc[i]?) : SiteAt bc' src h a :=
  ⟨Nat.le_trans hs.1 hsz, fun k hk' => by rw [hk (src + k) (by omega) (by omega)]; exact hs.2 k hk'⟩

/-- between `s` and `s'` a static call of `n` was emitted, and it is there in `s'` -/
def Emits (T : Tables) (n : String) (s s' : CState) : Prop :=
  ∃ h a src, resolveSpec T.jt T.ns T.imports n = .ok (h, a) ∧ s.bytecode.size ≤ src ∧
    SiteAt s'.bytecode src h a

def EmitsAll (T : Tables) (l : List String) (s s' : CState) : Prop := ∀ n ∈ l, Emits T n s s'

/-- what comes later keeps the bytes that are there -/
theorem Emits.left {T : Tables} {n : String} {s s1 s2 : CState} (he : Emits T n s s1)
    (hx : Ext s1.bytecode.size s1 s2) : Emits T n s s2 := by
  obtain ⟨h, a, src, hr, hle, hs⟩ := he
  exact ⟨h, a, src, hr, hle, hs.ext hx.size_le (fun i _ hi => hx.pref i (by have := hs.1; omega))⟩

theorem Emits.right {T : Tables} {n : String} {s s1 s2 : CState} (hle : s.bytecode.size ≤ s1.bytecode.size)
    (he : Emits T n s1 s2) : Emits T n s s2 := by
  obtain ⟨h, a, src, hr, hle', hs⟩ := he
  exact ⟨h, a, src, hr, Nat.le_trans hle hle', hs⟩

/-- the triple -/
def Site (T : Tables) {α : Type} (m : CM α) (l : List String) : Prop :=
  ∀ s a s', T.holds s → m s = .ok (a, s') → EmitsAll T l s s'

section rules
variable {T : Tables} {α β : Type}

theorem site_nil {m : CM α} : Site T m [] := fun _ _ _ _ _ n hn => nomatch hn

theorem site_append {m : CM α} {a b : List String} (ha : Site T m a) (hb : Site T m b) : Site T m (a ++ b) := by
  intro s x s' hT hr n hn
  rcases List.mem_append.1 hn with h | h
  · exact ha s x s' hT hr n h
  · exact hb s x s' hT hr n h

/-- one name (a separate constant, so that splitting a list of names terminates) -/
def Site1 (T : Tables) {α : Type} (m : CM α) (n : String) : Prop := Site T m [n]

theorem site_cons {m : CM α} {n : String} {l : List String} (hn : Site1 T m n) (hl : Site T m l) :
    Site T m (n :: l) := site_append (a := [n]) hn hl

theorem site_get_bind {f : CState → CM β} {l : List String} (h : ∀ st, Site T (f st) l) :
    Site T (get >>= f) l := by
  intro s b s' hT hr
  obtain ⟨a, s1, h1, h2⟩ := bind_ok.1 hr
  simp only [get_run, Except.ok.injEq, Prod.mk.injEq] at h1
  obtain ⟨rfl, rfl⟩ := h1
  exact h _ _ b s' hT h2

theorem mono_size {m : CM α} (hm : ∀ k, Mono k m) {s s' : CState} {a : α} (h : m s = .ok (a, s')) :
    s.bytecode.size ≤ s'.bytecode.size :=
  ((hm 0).run s a s' h (Nat.zero_le _)).1.size_le

theorem mono_ext {m : CM α} (hm : ∀ k, Mono k m) {s s' : CState} {a : α} (h : m s = .ok (a, s')) :
    Ext s.bytecode.size s s' :=
  ((hm s.bytecode.size).run s a s' h (Nat.le_refl _)).1

/-- the sequence was emitted by the first action; the rest only extends the code -/
theorem site_bind_left {m : CM α} {f : α → CM β} {l : List String} (hm : Site T m l)
    (hf : ∀ a k, Mono k (f a)) : Site T (m >>= f) l := by
  intro s b s'' hT hr n hn
  obtain ⟨a, s', h1, h2⟩ := bind_ok.1 hr
  exact (hm s a s' hT h1 n hn).left (mono_ext (hf a) h2)

/-- the sequence is emitted by the rest; the first action keeps the tables -/
theorem site_bind_right {m : CM α} {f : α → CM β} {l : List String} (hk : Kp m) (hmono : ∀ k, Mono k m)
    (hf : ∀ a, Site T (f a) l) : Site T (m >>= f) l := by
  intro s b s'' hT hr n hn
  obtain ⟨a, s', h1, h2⟩ := bind_ok.1 hr
  exact (hf a s' b s'' (Tables.holds_of_keeps hT (hk.run s a s' h1)) h2 n hn).right (mono_size hmono h1)

end rules

/-! ## `callCode` emits the sequence -/

theorem pushInstr_run' (o : UInt8) (s : CState) :
    pushInstr o s = .ok ((), { s with
      trace := s.trace ++ [(s.bytecode.size, { ns := s.ns, function := s.curFunction, indices := s.curIndices })],
      bytecode := s.bytecode.push o }) := rfl

theorem getElem?_of_toList {bc : Array UInt8} {pre l : List UInt8} (h : bc.toList = pre ++ l) (k : Nat) :
    bc[pre.length + k]? = l[k]? := by
  rw [← Array.getElem?_toList, h, List.getElem?_append_right (Nat.le_add_right _ _), Nat.add_sub_cancel_left]

/-- **a `Call` card emits `FunctionPointer h a; CallFunction` with the operands its name resolves
    to** (after the code of its arguments) -/
theorem site_callCode_head {T : Tables} (name : String) (args : CM Unit) (hk : Kp args)
    (hm : ∀ k, Mono k args) : Site T (callCode name args) [name] := by
  intro s u s' hT hr n hn
  rw [List.mem_singleton] at hn
  subst hn
  unfold callCode at hr
  obtain ⟨_, s1, h1, hr⟩ := bind_ok.1 hr
  obtain ⟨_, s2, h2, hr⟩ := bind_ok.1 hr
  obtain ⟨_, s3, h3, h4⟩ := bind_ok.1 hr
  have hT1 := Tables.holds_of_keeps hT (hk.run s _ s1 h1)
  rw [pushInstr_run'] at h2
  simp only [Except.ok.injEq, Prod.mk.injEq, true_and] at h2
  subst h2
  rw [encodeJump_run] at h3
  dsimp only at h3
  rw [hT1.1, hT1.2.1, hT1.2.2] at h3
  cases hres : resolveSpec T.jt T.ns T.imports n with
  | error k => rw [hres] at h3; cases h3
  | ok r =>
    obtain ⟨h, a⟩ := r
    rw [hres] at h3
    simp only [Except.ok.injEq, Prod.mk.injEq, true_and] at h3
    subst h3
    rw [pushInstr_run'] at h4
    simp only [Except.ok.injEq, Prod.mk.injEq, true_and] at h4
    subst h4
    refine ⟨h, a, s1.bytecode.size, hres, mono_size hm h1, ?_⟩
    have hlist : ((s1.bytecode.push op.functionPointer ++ (le32 h).toArray ++ (le32 a).toArray).push
        op.callFunction).toList = s1.bytecode.toList ++ siteBytes h a := by
      simp [siteBytes]
    constructor
    · show s1.bytecode.size + 10 ≤ ((s1.bytecode.push op.functionPointer ++ (le32 h).toArray ++
        (le32 a).toArray).push op.callFunction).size
      simp [le32_len]
    · intro k _
      have := getElem?_of_toList hlist k
      rw [Array.length_toList] at this
      exact this

/-- the sequences of the arguments of a `Call` card stay -/
theorem site_callCode_args {T : Tables} (name : String) (args : CM Unit) {l : List String}
    (h : Site T args l) : Site T (callCode name args) l := by
  unfold callCode
  exact site_bind_left h (fun _ k => by mono)

/-! ## back-patching -/

theorem patch_bytes_above (at_ : Nat) (bs : List UInt8) (a : Array UInt8) :
    ∀ i, at_ + 4 ≤ i → ((List.range 4).foldl (fun a i => a.set! (at_ + i) (bs.getD i 0)) a)[i]? = a[i]? := by
  have hr : List.range 4 = [0, 1, 2, 3] := by decide
  simp only [hr, List.foldl_cons, List.foldl_nil, Array.set!_eq_setIfInBounds]
  intro i hi
  repeat rw [Array.getElem?_setIfInBounds_ne (by omega)]

/-- a back-patch at `idx` keeps every call sequence that does not overlap `[idx, idx+4)` -/
theorem patchI32_site {idx v : Nat} {s s' : CState} (h : patchI32 idx v s = .ok ((), s'))
    {src : Nat} {hd a : UInt32} (hs : SiteAt s.bytecode src hd a) (hout : idx + 4 ≤ src ∨ src + 10 ≤ idx) :
    SiteAt s'.bytecode src hd a := by
  unfold patchI32 at h
  simp only [modify_run, Except.ok.injEq, Prod.mk.injEq, true_and] at h
  subst h
  obtain ⟨h1, h2⟩ := patch_bytes idx (le32 (UInt32.ofNat v)) s.bytecode
  have h3 := patch_bytes_above idx (le32 (UInt32.ofNat v)) s.bytecode
  refine hs.ext (by dsimp only; rw [h1]; exact Nat.le_refl _) (fun i hi1 hi2 => ?_)
  dsimp only
  rcases hout with h | h
  · exact h3 i (by omega)
  · exact h2 i (by omega)

theorem Emits.patch {T : Tables} {n : String} {s s1 s2 : CState} {idx v : Nat} (he : Emits T n s s1)
    (h : patchI32 idx v s1 = .ok ((), s2)) (hout : idx + 4 ≤ s.bytecode.size) : Emits T n s s2 := by
  obtain ⟨hd, a, src, hr, hle, hs⟩ := he
  exact ⟨hd, a, src, hr, hle, patchI32_site h hs (.inl (by omega))⟩

theorem pushInstr_size {o : UInt8} {s s' : CState} (h : pushInstr o s = .ok ((), s')) :
    s'.bytecode.size = s.bytecode.size + 1 := by
  rw [pushInstr_run'] at h
  simp only [Except.ok.injEq, Prod.mk.injEq, true_and] at h
  subst h; simp

theorem emitU32_size {x : Nat} {s s' : CState} (h : emitU32 x s = .ok ((), s')) :
    s'.bytecode.size = s.bytecode.size + 4 := by
  unfold emitU32 at h
  rw [emitBytes_run] at h
  simp only [Except.ok.injEq, Prod.mk.injEq, true_and] at h
  subst h; simp [le32_len]

theorem kp_holds {T : Tables} {α : Type} {m : CM α} (hk : Kp m) {s s' : CState} {a : α} (hT : T.holds s)
    (h : m s = .ok (a, s')) : T.holds s' := Tables.holds_of_keeps hT (hk.run s a s' h)

/-- `encode_if_then`: the placeholder that is patched at the end lies in front of the block -/
theorem site_encodeIfThen {T : Tables} {skip : UInt8} {tb : CM Unit} {l : List String} (h : Site T tb l) :
    Site T (encodeIfThen skip tb) l := by
  intro s u s' hT hr n hn
  unfold encodeIfThen at hr
  obtain ⟨_, s1, h1, hr⟩ := bind_ok.1 hr
  obtain ⟨st, s1', h2, hr⟩ := bind_ok.1 hr
  simp only [get_run, Except.ok.injEq, Prod.mk.injEq] at h2
  obtain ⟨rfl, rfl⟩ := h2
  obtain ⟨_, s2, h3, hr⟩ := bind_ok.1 hr
  obtain ⟨_, s3, h4, hr⟩ := bind_ok.1 hr
  obtain ⟨st3, s3', h5, h6⟩ := bind_ok.1 hr
  simp only [get_run, Except.ok.injEq, Prod.mk.injEq] at h5
  obtain ⟨rfl, rfl⟩ := h5
  have hT1 := kp_holds (pushInstr_kp _) hT h1
  have hT2 := kp_holds (emitU32_kp _) hT1 h3
  have e1 := pushInstr_size h1
  have e2 := emitU32_size h3
  have he := h s2 _ _ hT2 h4 n hn
  have := he.patch h6 (by omega)
  exact this.right (by omega)

/-! ## more contexts with a back-patch: `IfElse`, `Closure` -/

theorem SiteAt.step {α : Type} {m : CM α} (hm : ∀ k, Mono k m) {s s' : CState} {x : α}
    (h : m s = .ok (x, s')) {src : Nat} {hd a : UInt32} (hs : SiteAt s.bytecode src hd a) :
    SiteAt s'.bytecode src hd a := by
  have hx := mono_ext hm h
  exact hs.ext hx.size_le (fun i _ hi => hx.pref i (by have := hs.1; omega))

theorem patchI32_size {idx v : Nat} {s s' : CState} (h : patchI32 idx v s = .ok ((), s')) :
    s'.bytecode.size = s.bytecode.size := by
  unfold patchI32 at h
  simp only [modify_run, Except.ok.injEq, Prod.mk.injEq, true_and] at h
  subst h
  exact (patch_bytes idx (le32 (UInt32.ofNat v)) s.bytecode).1

theorem site_withSub {T : Tables} {i : Nat} {m : CM Unit} {l : List String} (h : Site T m l) :
    Site T (withSub i m) l := by
  unfold withSub
  exact site_bind_right (pushSub_kp _) (fun _ => pushSub_mono _)
    (fun _ => site_bind_left h (fun _ _ => mono_bind popSub_mono (fun _ _ => mono_pure)))

theorem pushSub_size {i : Nat} {s s' : CState} (h : pushSub i s = .ok ((), s')) :
    s'.bytecode.size = s.bytecode.size := by
  unfold pushSub at h
  simp only [modify_run, Except.ok.injEq, Prod.mk.injEq, true_and] at h
  subst h; rfl

theorem popSub_size {s s' : CState} (h : popSub s = .ok ((), s')) :
    s'.bytecode.size = s.bytecode.size := by
  unfold popSub at h
  simp only [modify_run, Except.ok.injEq, Prod.mk.injEq, true_and] at h
  subst h; rfl

/-- the decomposition of a run of `ifElseCode` that the three lemmas below share -/
theorem ifElseCode_run {c t e : CM Unit} {s s' : CState} (hr : ifElseCode c t e s = .ok ((), s')) :
    ∃ s1 s2 a1 a2 b1 b2 b3 a4 s4 s5,
      withSub 0 c s = .ok ((), s1) ∧ pushSub 1 s1 = .ok ((), s2) ∧
      pushInstr op.gotoIfFalse s2 = .ok ((), a1) ∧ emitU32 0 a1 = .ok ((), a2) ∧
      t a2 = .ok ((), b1) ∧ pushInstr op.goto b1 = .ok ((), b2) ∧ emitU32 0xEEF b2 = .ok ((), b3) ∧
      patchI32 a1.bytecode.size b3.bytecode.size b3 = .ok ((), a4) ∧
      popSub a4 = .ok ((), s4) ∧ withSub 2 e s4 = .ok ((), s5) ∧
      patchI32 b2.bytecode.size s5.bytecode.size s5 = .ok ((), s') := by
  unfold ifElseCode at hr
  obtain ⟨_, s1, h1, hr⟩ := bind_ok.1 hr
  obtain ⟨_, s2, h2, hr⟩ := bind_ok.1 hr
  obtain ⟨idxRef, s3, h3, hr⟩ := bind_ok.1 hr
  obtain ⟨_, s4, h4, hr⟩ := bind_ok.1 hr
  obtain ⟨_, s5, h5, hr⟩ := bind_ok.1 hr
  obtain ⟨st5, s5', h6, h7⟩ := bind_ok.1 hr
  simp only [get_run, Except.ok.injEq, Prod.mk.injEq] at h6
  obtain ⟨rfl, rfl⟩ := h6
  unfold encodeIfThenRet at h3
  obtain ⟨_, a1, g1, h3⟩ := bind_ok.1 h3
  obtain ⟨x1, a1', g2, h3⟩ := bind_ok.1 h3
  simp only [get_run, Except.ok.injEq, Prod.mk.injEq] at g2
  obtain ⟨rfl, rfl⟩ := g2
  obtain ⟨_, a2, g3, h3⟩ := bind_ok.1 h3
  obtain ⟨r, a3, g4, h3⟩ := bind_ok.1 h3
  obtain ⟨x3, a3', g5, h3⟩ := bind_ok.1 h3
  simp only [get_run, Except.ok.injEq, Prod.mk.injEq] at g5
  obtain ⟨rfl, rfl⟩ := g5
  obtain ⟨_, a4, g6, h3⟩ := bind_ok.1 h3
  simp only [pure_run, Except.ok.injEq, Prod.mk.injEq] at h3
  obtain ⟨rfl, rfl⟩ := h3
  obtain ⟨_, b1, k1, g4⟩ := bind_ok.1 g4
  obtain ⟨_, b2, k2, g4⟩ := bind_ok.1 g4
  obtain ⟨y, b2', k3, g4⟩ := bind_ok.1 g4
  simp only [get_run, Except.ok.injEq, Prod.mk.injEq] at k3
  obtain ⟨rfl, rfl⟩ := k3
  obtain ⟨_, b3, k4, g4⟩ := bind_ok.1 g4
  simp only [pure_run, Except.ok.injEq, Prod.mk.injEq] at g4
  obtain ⟨rfl, rfl⟩ := g4
  exact ⟨s1, s2, a1, a2, b1, _, _, a4, s4, s5, h1, h2, g1, g3, k1, k2, k4, g6, h4, h5, h7⟩

theorem site_ifElseCode_then {T : Tables} {c t e : CM Unit} {l : List String} (hkc : Kp c)
    (hmc : ∀ k, Mono k c) (hme : ∀ k, Mono k e) (h : Site T t l) : Site T (ifElseCode c t e) l := by
  intro s u s' hT hr n hn
  obtain ⟨s1, s2, a1, a2, b1, b2, b3, a4, s4, s5, h1, h2, g1, g3, k1, k2, k4, g6, h4, h5, h7⟩ :=
    ifElseCode_run hr
  have hT1 := kp_holds (withSub_kp hkc) hT h1
  have hT2 := kp_holds (pushSub_kp _) hT1 h2
  have hTa1 := kp_holds (pushInstr_kp _) hT2 g1
  have hTa2 := kp_holds (emitU32_kp _) hTa1 g3
  obtain ⟨hd, a, src, hres, hle, hs⟩ := h a2 _ b1 hTa2 k1 n hn
  have z1 := mono_size (fun k => withSub_mono (hmc k)) h1
  have z2 := pushSub_size h2
  have z3 := pushInstr_size g1
  have z4 := emitU32_size g3
  have z5 := pushInstr_size k2
  have hs2 := hs.step (fun _ => pushInstr_mono _) k2
  have hs3 := hs2.step (fun _ => emitU32_mono _) k4
  have hs4 := patchI32_site g6 hs3 (.inl (by omega))
  have hs5 := hs4.step (fun _ => popSub_mono) h4
  have hs6 := hs5.step (fun k => withSub_mono (hme k)) h5
  have hs7 := patchI32_site h7 hs6 (.inr (by have := hs.1; omega))
  exact ⟨hd, a, src, hres, by omega, hs7⟩

theorem site_ifElseCode_else {T : Tables} {c t e : CM Unit} {l : List String} (hkc : Kp c) (hkt : Kp t)
    (hmc : ∀ k, Mono k c) (hmt : ∀ k, Mono k t) (h : Site T e l) : Site T (ifElseCode c t e) l := by
  intro s u s' hT hr n hn
  obtain ⟨s1, s2, a1, a2, b1, b2, b3, a4, s4, s5, h1, h2, g1, g3, k1, k2, k4, g6, h4, h5, h7⟩ :=
    ifElseCode_run hr
  have hT1 := kp_holds (withSub_kp hkc) hT h1
  have hT2 := kp_holds (pushSub_kp _) hT1 h2
  have hTa1 := kp_holds (pushInstr_kp _) hT2 g1
  have hTa2 := kp_holds (emitU32_kp _) hTa1 g3
  have hTb1 := kp_holds hkt hTa2 k1
  have hTb2 := kp_holds (pushInstr_kp _) hTb1 k2
  have hTb3 := kp_holds (emitU32_kp _) hTb2 k4
  have hTa4 : T.holds a4 := by
    unfold patchI32 at g6
    simp only [modify_run, Except.ok.injEq, Prod.mk.injEq, true_and] at g6
    subst g6; exact hTb3
  have hT4 := kp_holds popSub_kp hTa4 h4
  have he := site_withSub h s4 _ s5 hT4 h5 n hn
  have z1 := mono_size (fun k => withSub_mono (hmc k)) h1
  have z2 := pushSub_size h2
  have z3 := pushInstr_size g1
  have z4 := emitU32_size g3
  have z5 := mono_size hmt k1
  have z6 := pushInstr_size k2
  have z7 := emitU32_size k4
  have z8 := patchI32_size g6
  have z9 := popSub_size h4
  exact (he.patch h7 (by omega)).right (by omega)

theorem site_ifElseCode_cond {T : Tables} {c t e : CM Unit} {l : List String}
    (hmt : ∀ k, Mono k t) (hme : ∀ k, Mono k e) (h : Site T c l) : Site T (ifElseCode c t e) l := by
  unfold ifElseCode
  refine site_bind_left (site_withSub h) (fun _ k => ?_)
  apply mono_bind (pushSub_mono _); intro _ _
  apply mono_bind (Q := fun r => k ≤ r)
  · apply encodeIfThenRet_mono
    have := hmt k
    mono
    exact monoV_pure (by assumption)
  · intro idx hidx
    have := hme k
    mono

/-- `Closure`: the `Goto` placeholder that is patched behind the body lies in front of it -/
theorem site_closureCode {T : Tables} {args : List String} {body : CM Unit} {l : List String}
    (h : Site T body l) : Site T (closureCode args body) l := by
  intro s u s' hT hr n hn
  unfold closureCode at hr
  obtain ⟨_, s1, h1, hr⟩ := bind_ok.1 hr
  obtain ⟨x1, s1', h2, hr⟩ := bind_ok.1 hr
  simp only [get_run, Except.ok.injEq, Prod.mk.injEq] at h2
  obtain ⟨rfl, rfl⟩ := h2
  obtain ⟨_, s2, h3, hr⟩ := bind_ok.1 hr
  obtain ⟨_, s3, h4, hr⟩ := bind_ok.1 hr
  obtain ⟨x3, s3', h5, hr⟩ := bind_ok.1 hr
  simp only [get_run, Except.ok.injEq, Prod.mk.injEq] at h5
  obtain ⟨rfl, rfl⟩ := h5
  obtain ⟨_, s4, h6, hr⟩ := bind_ok.1 hr
  obtain ⟨_, s5, h7, hr⟩ := bind_ok.1 hr
  obtain ⟨_, s6, h8, hr⟩ := bind_ok.1 hr
  obtain ⟨_, s7, h9, hr⟩ := bind_ok.1 hr
  obtain ⟨_, s8, h10, hr⟩ := bind_ok.1 hr
  obtain ⟨_, s9, h11, hr⟩ := bind_ok.1 hr
  obtain ⟨_, s10, h12, hr⟩ := bind_ok.1 hr
  obtain ⟨x10, s10', h13, hr⟩ := bind_ok.1 hr
  simp only [get_run, Except.ok.injEq, Prod.mk.injEq] at h13
  obtain ⟨rfl, rfl⟩ := h13
  obtain ⟨_, s11, h14, hr⟩ := bind_ok.1 hr
  have hT1 := kp_holds (pushInstr_kp _) hT h1
  have hT2 := kp_holds (emitU32_kp _) hT1 h3
  have hT3 := kp_holds (by unfold compileBegin; kp) hT2 h4
  have hT4 := kp_holds (insertLabel_kp _ _) hT3 h6
  have hT5 := kp_holds (by unfold scopeBegin; kp) hT4 h7
  have hT6 := kp_holds (addLocals_kp _) hT5 h8
  have he := h s6 _ s7 hT6 h9 n hn
  have z1 := pushInstr_size h1
  have z2 := emitU32_size h3
  have z3 := mono_size (fun _ => compileBegin_mono) h4
  have z4 := mono_size (fun _ => insertLabel_mono _ _) h6
  have z5 := mono_size (fun _ => scopeBegin_mono) h7
  have z6 := mono_size (fun _ => addLocals_mono _) h8
  have he8 := he.left (mono_ext (fun _ => scopeEnd_mono) h10)
  have he9 := he8.left (mono_ext (fun _ => pushInstr_mono _) h11)
  have he10 := he9.left (mono_ext (fun _ => pushInstr_mono _) h12)
  have he11 := he10.patch h14 (by omega)
  -- the rest only appends
  have hrest : ∀ k, Mono k (do
      pushInstr op.closure
      emitBytes (le32 (s3.fnHandle ^^^ Hash.handleFromBytes (s3.curIndices.flatMap (fun i => le32 (UInt32.ofNat i)))
              ^^^ Hash.handleFromU64 closureMask))
      emitU32 args.length
      let s ← get
      let ups := s.upvalues.getD s.functionId []
      emitUpvalues ups
      compileEnd : CM Unit) := fun k => by mono
  exact (he11.left (mono_ext hrest hr)).right (by omega)

/-! ## all cards -/

mutual
  /-- the names of all `Call` cards in a card tree (`calls` without the `Function` references,
      which emit a `FunctionPointer` but no `CallFunction`) -/
  def callNames : Card → List String
    | .bin _ a b => callNames a ++ callNames b
    | .un _ c => callNames c
    | .tri _ a b c => callNames a ++ (callNames b ++ callNames c)
    | .function _ => []
    | .setVar _ v => callNames v
    | .setGlobalVar _ v => callNames v
    | .callNative _ args => callNamesList args
    | .call name args => name :: callNamesList args
    | .repeat _ n body => callNames n ++ callNames body
    | .forEach _ _ _ it body => callNames it ++ callNames body
    | .composite _ cards => callNamesList cards
    | .dynamicCall args f => callNamesList args ++ callNames f
    | .array cards => callNamesList cards
    | .closure _ cards => callNamesList cards
    | .scalarNil | .createTable | .abort | .scalarInt _ | .scalarFloat _ | .stringLiteral _
    | .comment _ | .nativeFunction _ | .readVar _ => []
  def callNamesList : List Card → List String
    | [] => []
    | c :: cs => callNames c ++ callNamesList cs
end

macro_rules | `(tactic| mono_prim) => `(tactic| with_reducible exact processCard_mono _)
macro_rules | `(tactic| mono_prim) => `(tactic| with_reducible exact processArrayItems_mono _ _ _)
macro_rules | `(tactic| mono_prim) => `(tactic| with_reducible exact compileSubexprFrom_mono _ _)
macro_rules | `(tactic| mono_prim) => `(tactic| with_reducible exact cardLabel_mono)
macro_rules | `(tactic| mono_prim) => `(tactic| with_reducible apply ifElseCode_mono)
macro_rules | `(tactic| kp_prim) => `(tactic| with_reducible apply ifElseCode_kp)

/-- find the sub-action that establishes the goal inside a tree of binds -/
syntax "site_nav" : tactic
macro_rules | `(tactic| site_nav) => `(tactic| first
  | with_reducible assumption
  | with_reducible exact (by assumption : ∀ tv : Nat, Site _ (processArrayItems tv _ _) _) _
  | ((with_reducible refine site_callCode_head _ _ ?k ?m) <;> first | (kp; done) | (intro _; mono; done))
  | ((with_reducible apply site_callCode_args); site_nav)
  | ((with_reducible apply site_withSub); site_nav)
  | ((with_reducible apply site_encodeIfThen); site_nav)
  | ((with_reducible apply site_closureCode); site_nav)
  | ((with_reducible refine site_ifElseCode_cond ?m1 ?m2 ?_) <;> first | site_nav | (intro _; mono; done))
  | ((with_reducible refine site_ifElseCode_then ?k1 ?m1 ?m2 ?_) <;> first | site_nav | (kp; done) | (intro _; mono; done))
  | ((with_reducible refine site_ifElseCode_else ?k1 ?k2 ?m1 ?m2 ?_) <;> first | site_nav | (kp; done) | (intro _; mono; done))
  | ((with_reducible refine site_get_bind (fun _ => ?_)); site_nav)
  | ((with_reducible refine site_bind_left ?_ ?c); (focus site_nav); (focus (intro _ _; mono; done)))
  | ((with_reducible refine site_bind_right ?k ?m (fun _ => ?r)); rotate_left 2; (focus site_nav); (focus (kp; done)); (focus (intro _; mono; done)))
  | (dsimp only; site_nav)
  | (split <;> site_nav))

macro "site_all" : tactic => `(tactic|
  (repeat' (first | exact site_nil | (with_reducible apply site_append) | (with_reducible apply site_cons))) <;>
    (try unfold Site1) <;> site_nav)

/-- **every `Call` card leaves its call sequence**: for all cards, by the mutual induction of
    `processCard` -/
theorem processCard_site_all (T : Tables) :
    (∀ c, Site T (processCard c) (callNames c)) ∧
    (∀ tv i cs, Site T (processArrayItems tv i cs) (callNamesList cs)) ∧
    (∀ i cs, Site T (compileSubexprFrom i cs) (callNamesList cs)) := by
  apply processCard.mutual_induct
    (motive_1 := fun c => Site T (processCard c) (callNames c))
    (motive_2 := fun tv i cs => Site T (processArrayItems tv i cs) (callNamesList cs))
    (motive_3 := fun i cs => Site T (compileSubexprFrom i cs) (callNamesList cs))
  all_goals
    intros
    simp only [processCard, processArrayItems, compileSubexprFrom, callNames, callNamesList,
      forEachCode, whileCode, repeatCode, setVarCode, setGlobalVarCode, ifCode,
      callNativeCode, arrayCode, unCode, dynamicCallCode]
    try unfold binCode
    try unfold triCode
    try simp only [whileCode, ifCode]
    site_all

theorem processCard_site (T : Tables) (c : Card) : Site T (processCard c) (callNames c) :=
  (processCard_site_all T).1 c

theorem processFunctionCards_site (T : Tables) : ∀ i cs,
    Site T (processFunctionCards i cs) (callNamesList cs)
  | _, [] => by unfold processFunctionCards; simp only [callNamesList]; exact site_nil
  | i, c :: cs => by
    have ih := processFunctionCards_site T (i + 1) cs
    have hc := processCard_site T c
    have hk := processFunctionCards_kp (i + 1) cs
    unfold processFunctionCards
    simp only [callNamesList]
    site_all

/-- the names of the `Call` cards are among the names C08 speaks about (`calls`) -/
theorem callNames_sub_all :
    (∀ c, ∀ n ∈ callNames c, n ∈ calls c) ∧
    (∀ (tv i : Nat) cs, ∀ n ∈ callNamesList cs, n ∈ callsList cs) ∧
    (∀ (i : Nat) cs, ∀ n ∈ callNamesList cs, n ∈ callsList cs) := by
  apply processCard.mutual_induct
    (motive_1 := fun c => ∀ n ∈ callNames c, n ∈ calls c)
    (motive_2 := fun _ _ cs => ∀ n ∈ callNamesList cs, n ∈ callsList cs)
    (motive_3 := fun _ cs => ∀ n ∈ callNamesList cs, n ∈ callsList cs)
  all_goals
    intros
    simp only [callNames, callNamesList, calls, callsList, List.mem_append, List.mem_cons,
      List.not_mem_nil] at *
    try (first
      | (rename_i ih n hn; exact ih 0 n hn)
      | grind)

theorem callNamesList_sub (cs : List Card) : ∀ n ∈ callNamesList cs, n ∈ callsList cs :=
  callNames_sub_all.2.2 0 cs

/-- **the body of a compiled function contains, for every `Call` card in it, the ten bytes
    `FunctionPointer h a; CallFunction` with the operands the card's name resolves to (under the
    function's namespace and imports), at a position inside the body — in the final bytecode** -/
theorem BodyAt.call_sites {jt : JumpTable} {f : FunctionIr} {pos : Nat} {final : CState}
    (h : BodyAt jt f pos final) :
    ∀ n ∈ callNamesList f.cards, ∃ hd a src, resolveSpec jt f.ns f.imports n = .ok (hd, a) ∧
      pos ≤ src ∧ SiteAt final.bytecode src hd a := by
  obtain ⟨sb, sb', h1, h2, h3, _, h5, h6, _, h8⟩ := h
  intro n hn
  obtain ⟨hd, a, src, hr, hle, hs⟩ :=
    processFunctionCards_site ⟨jt, f.ns, f.imports⟩ 0 f.cards sb () sb' ⟨h1, h2, h3⟩ h6 n hn
  refine ⟨hd, a, src, hr, by omega, hs.ext h8.size_le (fun i _ hi => h8.pref i (by have := hs.1; omega))⟩

end Cao.Compiler
