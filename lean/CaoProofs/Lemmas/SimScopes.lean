import CaoProofs.Lemmas.SimLocals
/-!
# Scoped locals (compile side): locals declared in `While` bodies, `Repeat`

A *block* is a list of cards compiled and executed in one scope: its cards are declarations of new
locals (`SetVar` of a name that is not yet a local) or statements. Statements declare nothing;
the body of a `While` (a composite card) is a block of its own, whose locals are popped at the end
of every iteration.
-/
namespace Cao.Sim
open Cao Cao.Vm

mutual
  /-- statements at scope depth `d` with the locals `L` in scope (they declare nothing) -/
  def isStmtS (d : Int) (L : LCtx) : Card → Bool
    | .setGlobalVar n e => !n.isEmpty && isExpr e
    | .setVar n e => simpleName n && (lidx L n).isSome && isExpr e
    | .bin .ifTrue c b => isExpr c && isStmtS d L b
    | .bin .ifFalse c b => isExpr c && isStmtS d L b
    | .bin .while c (.composite _ cs) => isExpr c && isBlock (d + 1) L cs
    | .tri .ifElse c t e => isExpr c && isStmtS d L t && isStmtS d L e
    | .composite _ cs => isStmtsS d L cs
    | .comment _ => true
    | _ => false
  def isStmtsS (d : Int) (L : LCtx) : List Card → Bool
    | [] => true
    | c :: cs => isStmtS d L c && isStmtsS d L cs
  /-- the cards of a scope at depth `d` -/
  def isBlock (d : Int) (L : LCtx) : List Card → Bool
    | [] => true
    | c :: cs =>
      match declOf L c with
      | some (n, e) => simpleName n && isExpr e && isBlock d (L ++ [(n, d)]) cs
      | none => isStmtS d L c && isBlock d L cs
end

/-- the locals in scope after the cards of a block -/
def blockCtx (d : Int) : LCtx → List Card → LCtx
  | L, [] => L
  | L, c :: cs =>
    match declOf L c with
    | some (n, _) => blockCtx d (L ++ [(n, d)]) cs
    | none => blockCtx d L cs

section code
variable (B : Array UInt8) (F : List (UInt32 × Nat))

mutual
  def SCodeS (d : Int) (L : LCtx) : Card → Nat → Nat → Prop
    | .setGlobalVar n e, pc, pc' => ∃ m id, ECodeL B F L e pc m ∧ B.getD m 0 = Compiler.op.setGlobalVar ∧
        gidOf F n = some id ∧ rdU32 B (m + 1) = id ∧ pc' = m + 5
    | .setVar n e, pc, pc' => ∃ m i, lidx L n = some i ∧ ECodeL B F L e pc m ∧
        B.getD m 0 = Compiler.op.setLocalVar ∧ rdU32 B (m + 1) = i ∧ pc' = m + 5
    | .bin .ifTrue c b, pc, pc' => ∃ m, ECodeL B F L c pc m ∧ B.getD m 0 = Compiler.op.gotoIfFalse ∧
        rdU32 B (m + 1) = pc' ∧ SCodeS d L b (m + 5) pc'
    | .bin .ifFalse c b, pc, pc' => ∃ m, ECodeL B F L c pc m ∧ B.getD m 0 = Compiler.op.gotoIfTrue ∧
        rdU32 B (m + 1) = pc' ∧ SCodeS d L b (m + 5) pc'
    | .bin .while c (.composite _ cs), pc, pc' => ∃ m1 m2, ECodeL B F L c pc m1 ∧
        B.getD m1 0 = Compiler.op.gotoIfFalse ∧ rdU32 B (m1 + 1) = pc' ∧ BCodes (d + 1) L cs (m1 + 5) m2 ∧
        (∀ j, j < (blockCtx (d + 1) L cs).length - L.length → B.getD (m2 + j) 0 = Compiler.op.pop) ∧
        B.getD (m2 + ((blockCtx (d + 1) L cs).length - L.length)) 0 = Compiler.op.goto ∧
        rdU32 B (m2 + ((blockCtx (d + 1) L cs).length - L.length) + 1) = pc ∧
        pc' = m2 + ((blockCtx (d + 1) L cs).length - L.length) + 5
    | .tri .ifElse c t e, pc, pc' => ∃ m1 m2, ECodeL B F L c pc m1 ∧ B.getD m1 0 = Compiler.op.gotoIfFalse ∧
        rdU32 B (m1 + 1) = m2 + 5 ∧ SCodeS d L t (m1 + 5) m2 ∧ B.getD m2 0 = Compiler.op.goto ∧
        rdU32 B (m2 + 1) = pc' ∧ SCodeS d L e (m2 + 5) pc'
    | .composite _ cs, pc, pc' => SCodesS d L cs pc pc'
    | .comment _, pc, pc' => pc' = pc
    | _, _, _ => False
  def SCodesS (d : Int) (L : LCtx) : List Card → Nat → Nat → Prop
    | [], pc, pc' => pc' = pc
    | c :: cs, pc, pc' => ∃ m, SCodeS d L c pc m ∧ SCodesS d L cs m pc'
  /-- code of the cards of a block at depth `d` -/
  def BCodes (d : Int) (L : LCtx) : List Card → Nat → Nat → Prop
    | [], pc, pc' => pc' = pc
    | c :: cs, pc, pc' =>
      match declOf L c with
      | some (n, e) => ∃ m, ECodeL B F L e pc m ∧ B.getD m 0 = Compiler.op.setLocalVar ∧
          rdU32 B (m + 1) = L.length ∧ BCodes d (L ++ [(n, d)]) cs (m + 5) pc'
      | none => ∃ m, SCodeS d L c pc m ∧ BCodes d L cs m pc'
end
end code
end Cao.Sim

namespace Cao.Compiler
open Cao Cao.Sim

theorem curDepth_depthUp_succ (l : List Int) (h : l ≠ []) :
    (depthUp l).getLast?.getD 0 = l.getLast?.getD 0 + 1 := by
  unfold depthUp
  cases hr : l.reverse with
  | nil => simp at hr; exact absurd hr h
  | cons d r =>
    have hl : l = (d :: r).reverse := by rw [← hr, List.reverse_reverse]
    rw [hl]
    simp

theorem depthUp_ne_nil {l : List Int} (h : l ≠ []) : depthUp l ≠ [] := by
  unfold depthUp
  cases hr : l.reverse with
  | nil => simp at hr; exact absurd hr h
  | cons d r => simp

theorem dropWhile_append_all {α : Type} {p : α → Bool} : ∀ {a : List α} (b : List α), (∀ x ∈ a, p x = true) →
    (a ++ b).dropWhile p = b.dropWhile p
  | [], _, _ => rfl
  | x :: a, b, h => by
    rw [List.cons_append, List.dropWhile_cons, h x (List.mem_cons_self ..)]
    exact dropWhile_append_all b fun y hy => h y (List.mem_cons_of_mem _ hy)

/-- `scopeEnd` pops exactly the locals `L'` of the scope that ends -/
theorem scopeEnd_split {s s' : CState} {a : Unit} {L L' : LCtx} (hfid : s.functionId = 0)
    (hloc : s.locals = [(L ++ L').map mkLoc])
    (hd : ∀ p ∈ L, p.2 ≤ (depthDown s.scopeDepth).getLast?.getD 0)
    (hd' : ∀ p ∈ L', (depthDown s.scopeDepth).getLast?.getD 0 < p.2)
    (h : scopeEnd s = .ok (a, s')) :
    s'.bytecode = s.bytecode ++ (List.replicate L'.length op.pop).toArray ∧ QV s s' ∧
    s'.locals = [L.map mkLoc] ∧ s'.functionId = 0 ∧ s'.scopeDepth = depthDown s.scopeDepth := by
  unfold scopeEnd at h
  obtain ⟨_, s1, h1, h⟩ := bind_ok.1 h
  simp only [modify_run, Except.ok.injEq, Prod.mk.injEq, true_and] at h1
  obtain ⟨s2, s2', hg, h⟩ := bind_ok.1 h
  simp only [get_run, Except.ok.injEq, Prod.mk.injEq] at hg
  obtain ⟨rfl, rfl⟩ := hg
  have e1d : s1.scopeDepth = depthDown s.scopeDepth := by rw [← h1]; rfl
  have e1f : s1.functionId = 0 := by rw [← h1]; exact hfid
  have e1l : s1.locals = [(L ++ L').map mkLoc] := by rw [← h1]; exact hloc
  have hls : s1.locals.getD s1.functionId [] = (L ++ L').map mkLoc := by rw [e1f, e1l]; rfl
  have hkeep : (((L ++ L').map mkLoc).reverse.dropWhile (fun l => decide (l.depth > curDepth s1))).reverse =
      L.map mkLoc := by
    rw [List.map_append, List.reverse_append, dropWhile_append_all, dropWhile_none, List.reverse_reverse]
    · intro x hx
      simp only [List.mem_reverse, List.mem_map] at hx
      obtain ⟨p, hp, rfl⟩ := hx
      have := hd p hp
      simp only [decide_eq_false_iff_not, mkLoc, curDepth, e1d]
      omega
    · intro x hx
      simp only [List.mem_reverse, List.mem_map] at hx
      obtain ⟨p, hp, rfl⟩ := hx
      have := hd' p hp
      simp only [decide_eq_true_eq, mkLoc, curDepth, e1d]
      omega
  have hbytes : List.map (fun (l : Local) => if l.captured = true then op.closeUpvalue else op.pop)
      (List.drop (L.map mkLoc).length ((L ++ L').map mkLoc)).reverse = List.replicate L'.length op.pop := by
    rw [List.map_append, List.drop_left, List.eq_replicate_iff]
    refine ⟨by simp, fun b hb => ?_⟩
    simp only [List.mem_map, List.mem_reverse] at hb
    obtain ⟨l, ⟨p, _, rfl⟩, rfl⟩ := hb
    rfl
  simp only [hls, hkeep, hbytes] at h
  obtain ⟨_, s3, h3, h4⟩ := bind_ok.1 h
  simp only [modify_run, Except.ok.injEq, Prod.mk.injEq, true_and] at h3
  obtain ⟨b4, l4, v4⟩ := emitBytes_ok h4
  have e3l : s3.locals = [L.map mkLoc] := by
    rw [← h3]; show s1.locals.set s1.functionId (L.map mkLoc) = _; rw [e1f, e1l]; rfl
  refine ⟨?_, ?_, ?_, ?_, ?_⟩
  · rw [b4, ← h3, ← h1]
  · exact ⟨by rw [v4.ids, ← h3, ← h1], by rw [v4.next, ← h3, ← h1], by rw [v4.data, ← h3, ← h1]⟩
  · rw [l4.locals, e3l]
  · rw [l4.fid, ← h3]; exact e1f
  · rw [l4.depth, ← h3]; exact e1d

section
variable (B : Array UInt8) (F : List (UInt32 × Nat)) (hB : B.size < 4294967296)
  (hF : ∀ p ∈ F, p.2 < 4294967296)
include hB hF
set_option linter.unusedSectionVars false

theorem whileCodeS_spec {L new : LCtx} {d : Int} {c b : Card} (PB : Nat → Nat → Prop)
    (hnew : ∀ p ∈ new, p.2 = d + 1)
    (ihb : ∀ s s', processCard b s = .ok ((), s') → LInv s L → curDepth s = d + 1 → s.scopeDepth ≠ [] →
      AgreeFrom B s' s.bytecode.size → (∃ t, F = s'.varIds ++ t) →
      LInv s' (L ++ new) ∧ PB s.bytecode.size s'.bytecode.size)
    (hc : isExpr c = true) {s0 s' : CState}
    (h : whileCode (processCard c) (processCard b) s0 = .ok ((), s')) (hl : LInv s0 L)
    (hd : curDepth s0 = d) (hsd : s0.scopeDepth ≠ [])
    (hag : AgreeFrom B s' s0.bytecode.size) (hv : ∃ t, F = s'.varIds ++ t) :
    LInv s' L ∧ ∃ m1 m2, ECodeL B F L c s0.bytecode.size m1 ∧ B.getD m1 0 = op.gotoIfFalse ∧
      Vm.rdU32 B (m1 + 1) = s'.bytecode.size ∧ PB (m1 + 5) m2 ∧
      (∀ j, j < new.length → B.getD (m2 + j) 0 = op.pop) ∧ B.getD (m2 + new.length) 0 = op.goto ∧
      Vm.rdU32 B (m2 + new.length + 1) = s0.bytecode.size ∧ s'.bytecode.size = m2 + new.length + 5 := by
  unfold whileCode at h
  obtain ⟨s0', s0'', hg, h⟩ := bind_ok.1 h
  simp only [get_run, Except.ok.injEq, Prod.mk.injEq] at hg
  obtain ⟨rfl, rfl⟩ := hg
  obtain ⟨_, s1', h2, h⟩ := bind_ok.1 h
  obtain ⟨sa, s1, h4, ba, la, va, b1, l1, v1⟩ := withSub_ok' h2
  obtain ⟨_, s1'', h5, h⟩ := bind_ok.1 h
  obtain ⟨b2, l2, v2⟩ := pushSub_ok h5
  obtain ⟨_, s5, h6, h7⟩ := bind_ok.1 h
  obtain ⟨b7, l7, v7⟩ := popSub_ok h7
  obtain ⟨s3, s4, h8, e3, l3, v3, e5, l5, v5, hge, g1, g2, g3, g4⟩ :=
    encodeIfThen_ok (fun k => by have := processCard_mono (k := k) b; mono) h6
  obtain ⟨_, s3b, h8b, h⟩ := bind_ok.1 h8
  obtain ⟨bsb, lsb, fsb, vsb, dsb⟩ := scopeBegin_ok' h8b
  obtain ⟨_, s6, h9, h⟩ := bind_ok.1 h
  obtain ⟨_, s6e, h9e, h⟩ := bind_ok.1 h
  obtain ⟨_, s7, h10, h11⟩ := bind_ok.1 h
  obtain ⟨b10, l10, v10⟩ := pushInstr_ok h10
  obtain ⟨b11, l11, v11⟩ := emitBytes_ok h11
  have em : s1''.bytecode.size = s1.bytecode.size := by rw [b2, b1]
  rw [em] at e3 hge g1 g2 g3 g4
  have e3b : s3b.bytecode.size = s1.bytecode.size + 5 := by rw [bsb, e3]
  have hsz1 := processCard_size_le h4
  have hsz6 := processCard_size_le h9
  have esa : sa.bytecode.size = s0.bytecode.size := by rw [ba]
  have esz' : s'.bytecode.size = s4.bytecode.size := by rw [b7, e5]
  have hb4e : s4.bytecode = s6e.bytecode.push op.goto ++ (le32 (UInt32.ofNat s0.bytecode.size)).toArray := by
    rw [b11, b10]
  have hext6 := ((scopeEnd_mono (k := s6.bytecode.size)).run _ _ _ h9e (Nat.le_refl _)).1
  have hsz6e := hext6.size_le
  have e4e : s4.bytecode.size = s6e.bytecode.size + 5 := by rw [hb4e]; simp [le32_length]
  have hvr := (processCard_vr b).run _ _ _ h9
  have hv4 : ∃ t, F = s4.varIds ++ t := vpre_eq (vpre_eq hv v7.ids) v5.ids
  have hv6e : ∃ t, F = s6e.varIds ++ t := vpre_eq (vpre_eq hv4 v11.ids) v10.ids
  obtain ⟨ql1, hcc⟩ := ecodeL_of_processCard B F hF L (by have := hl.len; omega) c hc sa s1 h4 (hl.of_ql la)
    (by
      rw [ba]
      refine hag.sub (Nat.le_refl _) (by omega) fun i _ hi => ?_
      rw [b7, g4 i hi, b2, b1])
    (by
      obtain ⟨t, ht⟩ := vpre_back (vpre_back hv6e (scopeEnd_vr.run _ _ _ h9e)) hvr
      exact ⟨t, by rw [ht, vsb.ids, v3.ids, v2.ids, v1.ids]⟩)
  have hl1 : LInv s1 L := (hl.of_ql la).of_ql ql1
  have hv6 : ∃ t, F = s6.varIds ++ t := vpre_back hv6e (scopeEnd_vr.run _ _ _ h9e)
  have h46 : ∀ i, i < s6.bytecode.size → s4.bytecode[i]? = s6.bytecode[i]? := fun i hi => by
    rw [hb4e, Array.getElem?_append_left (by simp; omega), ← hext6.pref i hi,
      Array.getElem?_push_lt (by omega)]
    simp
  have hl3 : LInv s3 L := hl1.of_ql ((l1.trans l2).trans l3)
  have hl3b : LInv s3b L :=
    ⟨fsb.trans hl3.fid, lsb.trans hl3.locals, fun p hp => by
      unfold curDepth; rw [dsb]
      exact Int.le_trans (hl3.depth p hp) (curDepth_depthUp _), hl3.len⟩
  have hsd3 : s3.scopeDepth = s0.scopeDepth := by
    rw [l3.depth, l2.depth, l1.depth, ql1.depth, la.depth]
  have hd3b : curDepth s3b = d + 1 := by
    unfold curDepth at hd ⊢
    rw [dsb, hsd3, curDepth_depthUp_succ _ hsd, hd]
  have hsd3b : s3b.scopeDepth ≠ [] := by
    rw [dsb, hsd3]; exact depthUp_ne_nil hsd
  obtain ⟨hl6, hcb⟩ := ihb s3b s6 h9 hl3b hd3b hsd3b
    (by
      rw [e3b]
      refine hag.sub (by omega) (by omega) fun i hi hi' => ?_
      rw [b7, g3 i hi, h46 i hi'])
    hv6
  have hbal := processCard_balanced (c := b) (s := s3b) (s' := s6) h9 hl3b.locals_ne
  have hd6 : depthDown s6.scopeDepth = s3.scopeDepth := by
    rw [hbal.scopeDepth, dsb, depthDown_depthUp]
  have hcd3 : s3.scopeDepth.getLast?.getD 0 = d := by rw [hsd3]; exact hd
  obtain ⟨b6e, _, l6e, f6e, d6e⟩ := scopeEnd_split (L := L) (L' := new) hl6.fid hl6.locals
    (fun p hp => by rw [hd6]; exact hl3.depth p hp)
    (fun p hp => by rw [hd6, hcd3, hnew p hp]; omega) h9e
  have hl6e : LInv s6e L :=
    ⟨f6e, l6e, fun p hp => by
      unfold curDepth; rw [d6e, hd6]; exact hl3.depth p hp, hl3.len⟩
  have e6e : s6e.bytecode.size = s6.bytecode.size + new.length := by rw [b6e]; simp
  have e4 : s4.bytecode.size = s6.bytecode.size + new.length + 5 := by rw [e4e, e6e]
  have hlt : s4.bytecode.size < 4294967296 := by have := hag.size_le; omega
  have hag4 : AgreeFrom B s4 (s1.bytecode.size + 5) :=
    hag.sub (by omega) (by omega) fun i hi _ => by rw [b7, g3 i hi]
  obtain ⟨a1, a2, a3⟩ := agree_instr (a := s6e.bytecode) hb4e (hag4.weaken (by omega))
  rw [e6e] at a1 a2
  refine ⟨hl6e.of_ql (((l10.trans l11).trans l5).trans l7), s1.bytecode.size, s6.bytecode.size,
    by rw [ba] at hcc; exact hcc, ?_, ?_, ?_, ?_, a1, ?_, by omega⟩
  · rw [hag.getD (by omega) (by omega), b7]; exact g1
  · rw [hag.rdU32 (by omega) (by omega), b7, e5]
    exact rdU32_patched hlt g2
  · rw [e3b] at hcb; exact hcb
  · intro j hj
    rw [hag4.getD (by omega) (by omega), hb4e,
      show (s6e.bytecode.push op.goto ++ (le32 (UInt32.ofNat s0.bytecode.size)).toArray).getD (s6.bytecode.size + j) 0
        = s6e.bytecode.getD (s6.bytecode.size + j) 0 from getD_congr (by
          rw [Array.getElem?_append_left (by simp; omega), Array.getElem?_push_lt (by omega)]; simp),
      b6e]
    simp [Array.getD_eq_getD_getElem?, hj]
  · exact rdU32_patched (by have := hag.size_le; omega) (fun j hj => a2 j (by rw [le32_length]; exact hj))


end
end Cao.Compiler

namespace Cao.Compiler
open Cao Cao.Sim

theorem blockCtx_ext (d : Int) : ∀ (cs : List Card) (L : LCtx),
    ∃ new, blockCtx d L cs = L ++ new ∧ ∀ p ∈ new, p.2 = d
  | [], L => ⟨[], by simp [blockCtx], fun p hp => by cases hp⟩
  | c :: cs, L => by
    simp only [blockCtx]
    rcases hdecl : declOf L c with _ | ⟨n, e⟩
    · simp only []
      exact blockCtx_ext d cs L
    · simp only []
      obtain ⟨new, h1, h2⟩ := blockCtx_ext d cs (L ++ [(n, d)])
      refine ⟨(n, d) :: new, by rw [h1]; simp, fun p hp => ?_⟩
      rcases List.mem_cons.1 hp with rfl | hp
      · rfl
      · exact h2 p hp

section
variable (B : Array UInt8) (F : List (UInt32 × Nat)) (hB : B.size < 4294967296)
  (hF : ∀ p ∈ F, p.2 < 4294967296)
include hB hF

set_option linter.unusedSectionVars false in
mutual
theorem scodeS_of_processCard (d : Int) (L : LCtx) :
    ∀ (c : Card), isStmtS d L c = true → ∀ (s s' : CState), processCard c s = .ok ((), s') → LInv s L → curDepth s = d → s.scopeDepth ≠ [] →
      AgreeFrom B s' s.bytecode.size → (∃ t, F = s'.varIds ++ t) →
      LInv s' L ∧ SCodeS B F d L c s.bytecode.size s'.bytecode.size
  | .comment _ => by
    intro _ s s' h hl hd hsd hag hv
    simp only [processCard] at h
    obtain ⟨_, s0, h0, h1⟩ := bind_ok.1 h
    obtain ⟨b0, l0, v0⟩ := cardLabel_ok' h0
    simp only [pure_run, Except.ok.injEq, Prod.mk.injEq, true_and] at h1
    subst h1
    exact ⟨hl.of_ql l0, by simp only [SCodeS]; rw [b0]⟩
  | .composite _ cs => by
    intro hc s s' h hl hd hsd hag hv
    simp only [isStmtS] at hc
    simp only [processCard] at h
    obtain ⟨_, s0, h0, h1⟩ := bind_ok.1 h
    obtain ⟨b0, l0, v0⟩ := cardLabel_ok' h0
    have := scodesS_of_compileSubexprFrom d L cs hc 0 s0 s' h1 (hl.of_ql l0)
      (by unfold curDepth at hd ⊢; rw [l0.depth]; exact hd) (by rw [l0.depth]; exact hsd) (by rw [b0]; exact hag) hv
    rw [b0] at this
    exact ⟨this.1, by simp only [SCodeS]; exact this.2⟩
  | .setGlobalVar n e => by
    intro hc s s' h hl hd hsd hag hv
    simp only [isStmtS, Bool.and_eq_true, Bool.not_eq_true'] at hc
    obtain ⟨hne, he⟩ := hc
    simp only [processCard] at h
    obtain ⟨_, s0, h0, h1⟩ := bind_ok.1 h
    obtain ⟨b0, l0, v0⟩ := cardLabel_ok' h0
    unfold setGlobalVarCode at h1
    obtain ⟨_, s1', h2, h1⟩ := bind_ok.1 h1
    obtain ⟨sa, s1, h4, ba, la, va, b1, l1, v1⟩ := withSub_ok' h2
    obtain ⟨_, s2, h5, h1⟩ := bind_ok.1 h1
    obtain ⟨b2, l2, v2⟩ := pushInstr_ok h5
    rw [if_neg (by simp [hne])] at h1
    obtain ⟨id, s3, h7, h8⟩ := bind_ok.1 h1
    obtain ⟨b3, l3, d3, hd, hfind⟩ := globalId_ok' h7
    obtain ⟨b4, l4, v4⟩ := emitBytes_ok h8
    have esa : sa.bytecode.size = s.bytecode.size := by rw [ba, b0]
    have hsz1 := processCard_size_le h4
    have hb' : s'.bytecode = s1.bytecode.push op.setGlobalVar ++ (le32 (UInt32.ofNat id)).toArray := by
      rw [b4, b3, b2, b1]
    have hvr := (globalId_vr n).run _ _ _ h7
    obtain ⟨ql1, hce⟩ := ecodeL_of_processCard B F hF L (by have := hl.len; omega) e he sa s1 h4 (hl.of_ql (l0.trans la))
      (by
        rw [esa]
        refine hag.sub (Nat.le_refl _) (by rw [hb']; simp) fun i _ hi => ?_
        rw [hb', Array.getElem?_append_left (by simp; omega), Array.getElem?_push_lt hi]; simp)
      (by
        obtain ⟨t, ht⟩ := vpre_back (vpre_eq hv v4.ids) hvr
        exact ⟨t, by rw [ht, v2.ids, v1.ids]⟩)
    obtain ⟨a1, a2, a3⟩ := agree_instr (a := s1.bytecode) hb' (hag.weaken (by omega))
    have hgid : gidOf F n = some id := by
      obtain ⟨t, ht⟩ := hv
      unfold gidOf
      rw [ht, v4.ids, find?_append_of_some hfind]
      rfl
    have hlt : id < 4294967296 := by
      unfold gidOf at hgid
      rcases hf : List.find? (fun p => p.fst == Vm.hName n) F with _ | ⟨x⟩
      · rw [hf] at hgid; cases hgid
      · rw [hf] at hgid
        simp only [Option.map_some, Option.some.injEq] at hgid
        have := hF x (List.mem_of_find?_eq_some hf)
        omega
    have hl1 : LInv s1 L := (hl.of_ql (l0.trans la)).of_ql ql1
    refine ⟨hl1.of_ql (((l1.trans l2).trans l3).trans l4), ?_⟩
    simp only [SCodeS]
    rw [esa] at hce
    refine ⟨_, id, hce, a1, hgid, ?_, ?_⟩
    · exact rdU32_patched hlt (fun j hj => a2 j (by rw [le32_length]; exact hj))
    · rw [a3, le32_length]
  | .setVar n e => by
    intro hc s s' h hl hd hsd hag hv
    simp only [isStmtS, Bool.and_eq_true] at hc
    obtain ⟨⟨hn, hsome⟩, he⟩ := hc
    obtain ⟨m, k1, k2, k3, k4, k5⟩ := setVar_spec B F hB hF hn he h hl hag hv
    rcases hli : lidx L n with _ | i
    · rw [hli] at hsome; cases hsome
    · rw [hli] at k5
      exact ⟨k5.2, by simp only [SCodeS]; exact ⟨m, i, hli, k1, k2, k5.1, k3⟩⟩
  | .bin .ifTrue c b => by
    intro hc s s' h hl hd hsd hag hv
    simp only [isStmtS, Bool.and_eq_true] at hc
    simp only [processCard] at h
    obtain ⟨_, s0, h0, h1⟩ := bind_ok.1 h
    obtain ⟨b0, l0, v0⟩ := cardLabel_ok' h0
    have := ifCodeL_spec B F hB hF (SCodeS B F d L b) (fun s s' h hl hsd' => scodeS_of_processCard d L b hc.2 s s' h hl (by unfold curDepth at hd ⊢; rw [hsd', l0.depth]; exact hd) (by rw [hsd', l0.depth]; exact hsd)) hc.1
      (show ifCode op.gotoIfFalse (processCard c) (processCard b) s0 = .ok ((), s') from h1)
      (hl.of_ql l0) rfl (by rw [b0]; exact hag) hv
    rw [b0] at this
    obtain ⟨hl', m, q1, q2, q3, q4⟩ := this
    exact ⟨hl', by simp only [SCodeS]; exact ⟨m, q1, q2, q3, q4⟩⟩
  | .bin .ifFalse c b => by
    intro hc s s' h hl hd hsd hag hv
    simp only [isStmtS, Bool.and_eq_true] at hc
    simp only [processCard] at h
    obtain ⟨_, s0, h0, h1⟩ := bind_ok.1 h
    obtain ⟨b0, l0, v0⟩ := cardLabel_ok' h0
    have := ifCodeL_spec B F hB hF (SCodeS B F d L b) (fun s s' h hl hsd' => scodeS_of_processCard d L b hc.2 s s' h hl (by unfold curDepth at hd ⊢; rw [hsd', l0.depth]; exact hd) (by rw [hsd', l0.depth]; exact hsd)) hc.1
      (show ifCode op.gotoIfTrue (processCard c) (processCard b) s0 = .ok ((), s') from h1)
      (hl.of_ql l0) rfl (by rw [b0]; exact hag) hv
    rw [b0] at this
    obtain ⟨hl', m, q1, q2, q3, q4⟩ := this
    exact ⟨hl', by simp only [SCodeS]; exact ⟨m, q1, q2, q3, q4⟩⟩
  | .bin .while c (.composite ty cs) => by
    intro hc s s' h hl hd hsd hag hv
    simp only [isStmtS, Bool.and_eq_true] at hc
    simp only [processCard] at h
    obtain ⟨_, s0, h0, h1⟩ := bind_ok.1 h
    obtain ⟨b0, l0, v0⟩ := cardLabel_ok' h0
    obtain ⟨new, hnew1, hnew2⟩ := blockCtx_ext (d + 1) cs L
    have := whileCodeS_spec B F hB hF (L := L) (new := new) (d := d) (BCodes B F (d + 1) L cs) hnew2
      (fun s1 s1' h' hl' hd' hsd' hag' hv' => by
        have h'' : (cardLabel >>= fun _ => compileSubexprFrom 0 cs) s1 = .ok ((), s1') := h'
        obtain ⟨_, s2, h2, h3⟩ := bind_ok.1 h''
        obtain ⟨b2, l2, v2⟩ := cardLabel_ok' h2
        have := bcodes_of_compileSubexprFrom (d + 1) cs L hc.2 0 s2 s1' h3 (hl'.of_ql l2)
          (by unfold curDepth at hd' ⊢; rw [l2.depth]; exact hd') (by rw [l2.depth]; exact hsd')
          (by rw [b2]; exact hag') hv'
        rw [b2, hnew1] at this
        exact this)
      hc.1
      (show whileCode (processCard c) (processCard (.composite ty cs)) s0 = .ok ((), s') from h1)
      (hl.of_ql l0) (by unfold curDepth at hd ⊢; rw [l0.depth]; exact hd) (by rw [l0.depth]; exact hsd)
      (by rw [b0]; exact hag) hv
    rw [b0] at this
    obtain ⟨hl', m1, m2, q1, q2, q3, q4, q5, q6, q7, q8⟩ := this
    have hk : (blockCtx (d + 1) L cs).length - L.length = new.length := by rw [hnew1]; simp
    refine ⟨hl', ?_⟩
    simp only [SCodeS, hk]
    exact ⟨m1, m2, q1, q2, q3, q4, q5, q6, q7, q8⟩
  | .tri .ifElse c t e => by
    intro hc s s' h hl hd hsd hag hv
    simp only [isStmtS, Bool.and_eq_true] at hc
    simp only [processCard] at h
    obtain ⟨_, s0, h0, h1⟩ := bind_ok.1 h
    obtain ⟨b0, l0, v0⟩ := cardLabel_ok' h0
    have := ifElseCodeL_spec B F hB hF (SCodeS B F d L t) (SCodeS B F d L e)
      (fun s s' h hl hsd' => scodeS_of_processCard d L t hc.1.2 s s' h hl (by unfold curDepth at hd ⊢; rw [hsd', l0.depth]; exact hd) (by rw [hsd', l0.depth]; exact hsd))
      (fun s s' h hl hsd' => scodeS_of_processCard d L e hc.2 s s' h hl (by unfold curDepth at hd ⊢; rw [hsd', l0.depth]; exact hd) (by rw [hsd', l0.depth]; exact hsd)) hc.1.1
      (show ifElseCode (processCard c) (processCard t) (processCard e) s0 = .ok ((), s') from h1)
      (hl.of_ql l0) rfl (by rw [b0]; exact hag) hv
    rw [b0] at this
    obtain ⟨hl', m1, m2, q1, q2, q3, q4, q5, q6, q7⟩ := this
    exact ⟨hl', by simp only [SCodeS]; exact ⟨m1, m2, q1, q2, q3, q4, q5, q6, q7⟩⟩
  | .bin .while _ (.bin _ _ _) | .bin .while _ (.un _ _) | .bin .while _ (.tri _ _ _ _) | .bin .while _ .scalarNil
  | .bin .while _ .createTable | .bin .while _ .abort | .bin .while _ (.scalarInt _) | .bin .while _ (.scalarFloat _)
  | .bin .while _ (.stringLiteral _) | .bin .while _ (.comment _) | .bin .while _ (.function _)
  | .bin .while _ (.nativeFunction _) | .bin .while _ (.readVar _) | .bin .while _ (.setVar _ _)
  | .bin .while _ (.setGlobalVar _ _) | .bin .while _ (.callNative _ _) | .bin .while _ (.call _ _)
  | .bin .while _ (.repeat _ _ _) | .bin .while _ (.forEach _ _ _ _ _) | .bin .while _ (.dynamicCall _ _)
  | .bin .while _ (.array _) | .bin .while _ (.closure _ _)
  | .bin .add _ _ | .bin .sub _ _ | .bin .mul _ _ | .bin .div _ _ | .bin .less _ _ | .bin .lessOrEq _ _
  | .bin .equals _ _ | .bin .notEquals _ _ | .bin .and _ _ | .bin .or _ _ | .bin .xor _ _
  | .bin .getProperty _ _ | .bin .get _ _ | .bin .appendTable _ _
  | .un _ _ | .tri .setProperty _ _ _ | .scalarNil | .createTable | .abort | .scalarInt _ | .scalarFloat _
  | .stringLiteral _ | .function _ | .nativeFunction _ | .readVar _ | .callNative _ _
  | .call _ _ | .repeat _ _ _ | .forEach _ _ _ _ _ | .dynamicCall _ _ | .array _ | .closure _ _ => by
    intro hc
    simp [isStmtS] at hc

theorem scodesS_of_compileSubexprFrom (d : Int) (L : LCtx) :
    ∀ (cs : List Card), isStmtsS d L cs = true → ∀ (i : Nat) (s s' : CState),
      compileSubexprFrom i cs s = .ok ((), s') → LInv s L → curDepth s = d → s.scopeDepth ≠ [] →
      AgreeFrom B s' s.bytecode.size → (∃ t, F = s'.varIds ++ t) →
      LInv s' L ∧ SCodesS B F d L cs s.bytecode.size s'.bytecode.size
  | [] => by
    intro _ i s s' h hl _ _ _ _
    simp only [compileSubexprFrom, pure_run, Except.ok.injEq, Prod.mk.injEq, true_and] at h
    subst h
    exact ⟨hl, by simp only [SCodesS]⟩
  | c :: cs => by
    intro hc i s s' h hl hd hsd hag hv
    simp only [isStmtsS, Bool.and_eq_true] at hc
    simp only [compileSubexprFrom] at h
    obtain ⟨_, s1', h2, h3⟩ := bind_ok.1 h
    obtain ⟨sa, s1, h4, ba, la, va, b1, l1, v1⟩ := withSub_ok' h2
    have esa : sa.bytecode.size = s.bytecode.size := by rw [ba]
    have hsz1 := processCard_size_le h4
    have hext := ((compileSubexprFrom_mono (k := s1'.bytecode.size) (i + 1) cs).run _ _ _ h3 (Nat.le_refl _)).1
    have hvr := (compileSubexprFrom_vr (i + 1) cs).run _ _ _ h3
    have hbal := processCard_balanced (c := c) (s := sa) (s' := s1) h4 (hl.of_ql la).locals_ne
    obtain ⟨hl1, hcc⟩ := scodeS_of_processCard d L c hc.1 sa s1 h4 (hl.of_ql la)
      (by unfold curDepth at hd ⊢; rw [la.depth]; exact hd) (by rw [la.depth]; exact hsd)
      (by
        rw [esa]
        refine hag.sub (Nat.le_refl _) (by rw [← b1]; exact hext.size_le) fun i _ hi => ?_
        rw [hext.pref i (by rw [b1]; exact hi), b1])
      (by
        obtain ⟨t, ht⟩ := vpre_back hv hvr
        exact ⟨t, by rw [ht, v1.ids]⟩)
    obtain ⟨hl2, hcs⟩ := scodesS_of_compileSubexprFrom d L cs hc.2 (i + 1) s1' s' h3 (hl1.of_ql l1)
      (by unfold curDepth at hd ⊢; rw [l1.depth, hbal.scopeDepth, la.depth]; exact hd)
      (by rw [l1.depth, hbal.scopeDepth, la.depth]; exact hsd)
      (by rw [b1]; exact hag.weaken (by omega)) hv
    refine ⟨hl2, ?_⟩
    simp only [SCodesS]
    rw [esa] at hcc
    rw [b1] at hcs
    exact ⟨_, hcc, hcs⟩
theorem bcodes_of_compileSubexprFrom (d : Int) :
    ∀ (cs : List Card) (L : LCtx), isBlock d L cs = true → ∀ (i : Nat) (s s' : CState),
      compileSubexprFrom i cs s = .ok ((), s') → LInv s L → curDepth s = d → s.scopeDepth ≠ [] →
      AgreeFrom B s' s.bytecode.size → (∃ t, F = s'.varIds ++ t) →
      LInv s' (blockCtx d L cs) ∧ BCodes B F d L cs s.bytecode.size s'.bytecode.size
  | [], L => by
    intro _ i s s' h hl _ _ _ _
    simp only [compileSubexprFrom, pure_run, Except.ok.injEq, Prod.mk.injEq, true_and] at h
    subst h
    exact ⟨hl, by simp only [BCodes]⟩
  | c :: cs, L => by
    intro hc i s s' h hl hd hsd hag hv
    simp only [compileSubexprFrom] at h
    obtain ⟨_, s1', h2, h3⟩ := bind_ok.1 h
    obtain ⟨sa, s1, h4, ba, la, va, b1, l1, v1⟩ := withSub_ok' h2
    have esa : sa.bytecode.size = s.bytecode.size := by rw [ba]
    have hla : LInv sa L := hl.of_ql la
    have hda : curDepth sa = d := by unfold curDepth at hd ⊢; rw [la.depth]; exact hd
    have hsda : sa.scopeDepth ≠ [] := by rw [la.depth]; exact hsd
    have hsz1 := processCard_size_le h4
    have hext := ((compileSubexprFrom_mono (k := s1'.bytecode.size) (i + 1) cs).run _ _ _ h3 (Nat.le_refl _)).1
    have hvr := (compileSubexprFrom_vr (i + 1) cs).run _ _ _ h3
    have hag1 : AgreeFrom B s1 sa.bytecode.size := by
      rw [esa]
      refine hag.sub (Nat.le_refl _) (by rw [← b1]; exact hext.size_le) fun i _ hi => ?_
      rw [hext.pref i (by rw [b1]; exact hi), b1]
    have hv1 : ∃ t, F = s1.varIds ++ t := by
      obtain ⟨t, ht⟩ := vpre_back hv hvr
      exact ⟨t, by rw [ht, v1.ids]⟩
    have hbal := processCard_balanced (c := c) (s := sa) (s' := s1) h4 hla.locals_ne
    have hd1 : curDepth s1' = d := by unfold curDepth at hda ⊢; rw [l1.depth, hbal.scopeDepth]; exact hda
    have hsd1 : s1'.scopeDepth ≠ [] := by rw [l1.depth, hbal.scopeDepth]; exact hsda
    simp only [isBlock] at hc
    simp only [blockCtx, BCodes]
    rcases hdecl : declOf L c with _ | ⟨n, e⟩
    · simp only [hdecl, Bool.and_eq_true] at hc ⊢
      obtain ⟨hl1, hcc⟩ := scodeS_of_processCard d L c hc.1 sa s1 h4 hla hda hsda hag1 hv1
      obtain ⟨hl2, hcs⟩ := bcodes_of_compileSubexprFrom d cs L hc.2 (i + 1) s1' s' h3 (hl1.of_ql l1) hd1 hsd1
        (by rw [b1]; exact hag.weaken (by omega)) hv
      rw [esa] at hcc
      rw [b1] at hcs
      exact ⟨hl2, _, hcc, hcs⟩
    · simp only [hdecl, Bool.and_eq_true] at hc ⊢
      obtain ⟨rfl, hnone⟩ := declOf_some hdecl
      obtain ⟨m, k1, k2, k3, k4, k5⟩ := setVar_spec B F hB hF hc.1.1 hc.1.2 h4 hla hag1 hv1
      rw [hnone] at k5
      simp only at k5
      rw [hda] at k5
      obtain ⟨hl2, hcs⟩ := bcodes_of_compileSubexprFrom d cs (L ++ [(n, d)]) hc.2 (i + 1) s1' s' h3
        (k5.2.of_ql l1) hd1 hsd1 (by rw [b1]; exact hag.weaken (by omega)) hv
      rw [esa] at k1
      rw [b1, k3] at hcs
      exact ⟨hl2, m, k1, k2, k5.1, hcs⟩
end

end
end Cao.Compiler

namespace Cao.Compiler
open Cao Cao.Sim

section
variable (B : Array UInt8) (F : List (UInt32 × Nat)) (hB : B.size < 4294967296)
  (hF : ∀ p ∈ F, p.2 < 4294967296)
include hB hF

theorem bcodes_of_processFunctionCards (d : Int) :
    ∀ (cs : List Card) (L : LCtx), isBlock d L cs = true → ∀ (i : Nat) (s s' : CState),
      processFunctionCards i cs s = .ok ((), s') → LInv s L → curDepth s = d → s.scopeDepth ≠ [] →
      AgreeFrom B s' s.bytecode.size → (∃ t, F = s'.varIds ++ t) →
      LInv s' (blockCtx d L cs) ∧ s'.scopeDepth = s.scopeDepth ∧ BCodes B F d L cs s.bytecode.size s'.bytecode.size
  | [], L => by
    intro _ i s s' h hl hd _ _ _
    simp only [processFunctionCards, pure_run, Except.ok.injEq, Prod.mk.injEq, true_and] at h
    subst h
    exact ⟨hl, rfl, by simp only [BCodes]⟩
  | c :: cs, L => by
    intro hc i s s' h hl hd hsd hag hv
    simp only [processFunctionCards] at h
    obtain ⟨_, sa, h1, h⟩ := bind_ok.1 h
    obtain ⟨ba, la, va⟩ := popSub_ok h1
    obtain ⟨_, sb, h2, h⟩ := bind_ok.1 h
    obtain ⟨bb, lb, vb⟩ := pushSub_ok h2
    obtain ⟨_, s1, h4, h3⟩ := bind_ok.1 h
    have esb : sb.bytecode.size = s.bytecode.size := by rw [bb, ba]
    have hlb : LInv sb L := hl.of_ql (la.trans lb)
    have hdb : curDepth sb = d := by unfold curDepth at hd ⊢; rw [lb.depth, la.depth]; exact hd
    have hsz1 := processCard_size_le h4
    have hext := ((processFunctionCards_mono (k := s1.bytecode.size) (i + 1) cs).run _ _ _ h3 (Nat.le_refl _)).1
    have hvr := (processFunctionCards_vr (i + 1) cs).run _ _ _ h3
    have hag1 : AgreeFrom B s1 sb.bytecode.size := by
      rw [esb]
      exact hag.sub (Nat.le_refl _) hext.size_le fun i _ hi => hext.pref i hi
    have hbal := processCard_balanced (c := c) (s := sb) (s' := s1) h4 hlb.locals_ne
    have hd1 : curDepth s1 = d := by unfold curDepth at hdb ⊢; rw [hbal.scopeDepth]; exact hdb
    have hsdb : sb.scopeDepth ≠ [] := by rw [lb.depth, la.depth]; exact hsd
    have hsd1 : s1.scopeDepth ≠ [] := by rw [hbal.scopeDepth]; exact hsdb
    simp only [isBlock] at hc
    simp only [blockCtx, BCodes]
    rcases hdecl : declOf L c with _ | ⟨n, e⟩
    · simp only [hdecl, Bool.and_eq_true] at hc ⊢
      obtain ⟨hl1, hcc⟩ := scodeS_of_processCard B F hB hF d L c hc.1 sb s1 h4 hlb hdb hsdb hag1 (vpre_back hv hvr)
      obtain ⟨hl2, hd2, hcs⟩ := bcodes_of_processFunctionCards d cs L hc.2 (i + 1) s1 s' h3 hl1 hd1 hsd1
        (hag.weaken (by omega)) hv
      rw [esb] at hcc
      exact ⟨hl2, by rw [hd2, hbal.scopeDepth, lb.depth, la.depth], _, hcc, hcs⟩
    · simp only [hdecl, Bool.and_eq_true] at hc ⊢
      obtain ⟨rfl, hnone⟩ := declOf_some hdecl
      obtain ⟨m, k1, k2, k3, k4, k5⟩ := setVar_spec B F hB hF hc.1.1 hc.1.2 h4 hlb hag1 (vpre_back hv hvr)
      rw [hnone] at k5
      simp only at k5
      rw [hdb] at k5
      obtain ⟨hl2, hd2, hcs⟩ := bcodes_of_processFunctionCards d cs (L ++ [(n, d)]) hc.2 (i + 1) s1 s' h3 k5.2 hd1 hsd1
        (hag.weaken (by omega)) hv
      rw [esb] at k1
      rw [k3] at hcs
      exact ⟨hl2, by rw [hd2, hbal.scopeDepth, lb.depth, la.depth], m, k1, k2, k5.1, hcs⟩

end

theorem compileUnit_mainS {unit : Array FunctionIr} {sf : CState} (h : compileUnit unit {} = .ok ((), sf))
    (hargs : unit[0]!.arguments = []) (hst : isBlock 1 [] unit[0]!.cards = true)
    (hB : sf.bytecode.size < 4294967296) (hV : sf.varIds.length < 4294967296) :
    ∃ mainEnd, BCodes sf.bytecode sf.varIds 1 [] unit[0]!.cards 0 mainEnd ∧
      (∀ j, j < (blockCtx 1 [] unit[0]!.cards).length → sf.bytecode.getD (mainEnd + j) 0 = op.pop) ∧
      sf.bytecode.getD (mainEnd + (blockCtx 1 [] unit[0]!.cards).length) 0 = op.exit ∧
      mainEnd + (blockCtx 1 [] unit[0]!.cards).length < sf.bytecode.size ∧ VInv sf := by
  have hinv : VInv sf := ((compileUnit_vr unit).run _ _ _ h).inv ⟨rfl, fun p hp => (by cases hp), List.Pairwise.nil⟩
  have hF : ∀ p ∈ sf.varIds, p.2 < 4294967296 := fun p hp => by
    have := hinv.lt p hp; rw [hinv.len] at this; omega
  unfold compileUnit at h
  split at h
  · obtain ⟨_, _, h1, _⟩ := bind_ok.1 h
    simp at h1
  · obtain ⟨_, s1, h1, h⟩ := bind_ok.1 h
    have e1 := addFunctions_ok _ h1
    obtain ⟨_, s2, h2, h⟩ := bind_ok.1 h
    simp only [modify_run, Except.ok.injEq, Prod.mk.injEq, true_and] at h2
    obtain ⟨_, s3, h3, h⟩ := bind_ok.1 h
    unfold scopeBegin at h3
    simp only [modify_run, Except.ok.injEq, Prod.mk.injEq, true_and] at h3
    obtain ⟨_, s5, h5, h⟩ := bind_ok.1 h
    unfold processFunction at h5
    obtain ⟨_, s4, h4, h5⟩ := bind_ok.1 h5
    simp only [modify_run, Except.ok.injEq, Prod.mk.injEq, true_and] at h4
    rw [hargs] at h5
    simp only [List.reverse_nil, addLocals, pure_bind] at h5
    obtain ⟨_, s6, h6, h⟩ := bind_ok.1 h
    simp only [modify_run, Except.ok.injEq, Prod.mk.injEq, true_and] at h6
    obtain ⟨_, s7, h7, h⟩ := bind_ok.1 h
    obtain ⟨_, s8, h8, h⟩ := bind_ok.1 h
    obtain ⟨_, s9, h9, h⟩ := bind_ok.1 h
    obtain ⟨_, s10, h10, h11⟩ := bind_ok.1 h
    simp only [modify_run, Except.ok.injEq, Prod.mk.injEq, true_and] at h10
    -- the state in which the cards of `main` are compiled
    have hb4 : s4.bytecode = #[] := by rw [← h4, ← h3, ← h2, e1]
    have hsd4 : s4.scopeDepth = [1] := by rw [← h4, ← h3, ← h2, e1]; rfl
    have hl4 : LInv s4 [] := by
      refine ⟨?_, ?_, fun p hp => (by cases hp), by simp⟩
      · rw [← h4, ← h3, ← h2, e1]
      · rw [← h4, ← h3, ← h2, e1]; rfl
    -- what follows only appends
    have x6 : Ext s5.bytecode.size s5 s6 := Ext.of_eq (by rw [← h6]) (by rw [← h6])
    have x7 := ((scopeEnd_mono (k := s5.bytecode.size)).run _ _ _ h7 x6.size_le).1
    have x8 := ((processCard_mono (k := s7.bytecode.size) .abort).run _ _ _ h8 (Nat.le_refl _)).1
    have x9 := ((compileFunctions_mono (k := s8.bytecode.size) _).run _ _ _ h9 (Nat.le_refl _)).1
    have x10 : Ext s8.bytecode.size s9 s10 := Ext.of_eq (by rw [← h10]) (by rw [← h10])
    have x11 := ((pushInstr_mono (k := s8.bytecode.size) op.exit).run _ _ _ h11
      (Nat.le_trans x9.size_le x10.size_le)).1
    have x8f : Ext s8.bytecode.size s8 sf := (x9.trans x10).trans x11
    have x7f : Ext s7.bytecode.size s7 sf := x8.trans (x8f.weaken x8.size_le)
    have x5f : Ext s5.bytecode.size s5 sf := (x6.trans x7).trans (x7f.weaken (Nat.le_trans x6.size_le x7.size_le))
    have v6 : VExt s5 s6 := VExt.of_eq (by rw [← h6]) (by rw [← h6]) (by rw [← h6])
    have v10 : VExt s9 s10 := VExt.of_eq (by rw [← h10]) (by rw [← h10]) (by rw [← h10])
    have v5f : VExt s5 sf :=
      ((((v6.trans (scopeEnd_vr.run _ _ _ h7)).trans ((processCard_vr .abort).run _ _ _ h8)).trans
        ((compileFunctions_vr _).run _ _ _ h9)).trans v10).trans ((pushInstr_vr _).run _ _ _ h11)
    obtain ⟨t, ht⟩ := v5f.ids
    obtain ⟨hl5, hd5, hcs⟩ := bcodes_of_processFunctionCards sf.bytecode sf.varIds hB hF 1 _ [] hst 0 s4 s5 h5 hl4
      (by unfold curDepth; rw [hsd4]; rfl) (by rw [hsd4]; exact List.cons_ne_nil _ _) ⟨x5f.size_le, fun i _ hi => x5f.pref i hi⟩ ⟨t, ht⟩
    rw [hb4] at hcs
    -- the `Pop`s of the locals and the `Exit` after the cards of `main`
    have hsd6 : s6.scopeDepth = [1] := by rw [← h6, hd5, hsd4]
    have hdepths : ∀ L cs, (∀ p ∈ L, p.2 = (1 : Int)) → ∀ p ∈ blockCtx 1 L cs, p.2 = (1 : Int) := by
      intro L cs
      induction cs generalizing L with
      | nil => intro hL; exact hL
      | cons c cs ih =>
        intro hL
        simp only [blockCtx]
        rcases declOf L c with _ | ⟨n, e⟩
        · exact ih L hL
        · refine ih _ fun p hp => ?_
          rcases List.mem_append.1 hp with hp | hp
          · exact hL p hp
          · simp only [List.mem_singleton] at hp; rw [hp]
    obtain ⟨b7, _⟩ := scopeEnd_pops (L := blockCtx 1 [] unit[0]!.cards) (s := s6)
      (by rw [← h6]; exact hl5.fid) (by rw [← h6]; exact hl5.locals)
      (fun p hp => by
        rw [hsd6, hdepths [] _ (fun p hp => by cases hp) p hp]
        decide) h7
    simp only [processCard] at h8
    obtain ⟨_, s7', h8a, h8b⟩ := bind_ok.1 h8
    obtain ⟨b8a, _, _⟩ := cardLabel_ok' h8a
    obtain ⟨b8b, _, _⟩ := pushInstr_ok h8b
    have e7 : s7.bytecode = s5.bytecode ++ (List.replicate (blockCtx 1 [] unit[0]!.cards).length op.pop).toArray := by
      rw [b7, ← h6]
    have hsz7 : s7.bytecode.size = s5.bytecode.size + (blockCtx 1 [] unit[0]!.cards).length := by
      rw [e7]; simp
    have e8 : s8.bytecode = s7.bytecode.push op.exit := by rw [b8b, b8a]
    have hsz8 : s8.bytecode.size = s7.bytecode.size + 1 := by rw [e8]; simp
    refine ⟨s5.bytecode.size, by simpa using hcs, fun j hj => ?_, ?_, by have := x8f.size_le; omega, hinv⟩
    · rw [getD_congr (x7f.pref (s5.bytecode.size + j) (by omega)), e7]
      simp [Array.getD_eq_getD_getElem?, hj]
    · rw [← hsz7, getD_congr (x8f.pref s7.bytecode.size (by omega)), e8]
      simp [Array.getD_eq_getD_getElem?]


/-- the layout of a compiled program whose `main` uses locals: the code of the cards of `main` from
    address 0, one `Pop` per local, then `Exit` -/
theorem compile_mainS {m std : Module} {limit : Nat} {p : Program} (h : compile m std limit = .ok p)
    {i : Nat} {nf : String × Func}
    (hi : m.functions.findIdx? (fun p => p.1 == "main") = some i) (hf : m.functions[i]? = some nf)
    (hargs : nf.2.arguments = []) (hst : isBlock 1 [] nf.2.cards = true)
    (hB : p.bytecode.size < 4294967296) (hV : p.varIds.length < 4294967296) :
    ∃ mainEnd, BCodes p.bytecode p.varIds 1 [] nf.2.cards 0 mainEnd ∧
      (∀ j, j < (blockCtx 1 [] nf.2.cards).length → p.bytecode.getD (mainEnd + j) 0 = op.pop) ∧
      p.bytecode.getD (mainEnd + (blockCtx 1 [] nf.2.cards).length) 0 = op.exit ∧
      mainEnd + (blockCtx 1 [] nf.2.cards).length < p.bytecode.size ∧
      (∀ a b, a ∈ p.varIds → b ∈ p.varIds → a.2 = b.2 → a = b) := by
  unfold compile at h
  split at h
  · cases h
  · rename_i unit hunit
    split at h
    · cases h
    · rename_i s hs
      simp only [Except.ok.injEq] at h
      subst h
      obtain ⟨e1, e2⟩ := intoIrStream_main hunit hi hf
      obtain ⟨mainEnd, c1, c2, c3, c4, c5⟩ := compileUnit_mainS (unit := unit) (sf := s) hs (by rw [e1, hargs])
        (by rw [e2, hst]) hB hV
      rw [e2] at c1 c2 c3 c4
      exact ⟨mainEnd, c1, c2, c3, c4, pairwise_inj (f := fun (p : UInt32 × Nat) => p.2) c5.inj⟩


end Cao.Compiler
