import CaoProofs.Lemmas.SimLocals
/-!
# Scoped locals (compile side): locals declared in `While` bodies, `Repeat`

A *block* is a list of cards compiled and executed in one scope: its cards are declarations of new
locals (`SetVar` of a name that is not yet a local) or statements. Statements declare nothing;
the body of a `While` (a composite card) is a block of its own, whose locals are popped at the end
of every iteration.
-/
namespace Cao.Sim
open Cao Cao.Vm

/-- which optional card kinds a fragment contains -/
structure Feat where
  /-- `Repeat` -/
  rep : Bool := false
  /-- `Return` -/
  ret : Bool := false
  /-- the functions that may be called: name and declaration -/
  fns : List (String × Func) := []

/-- the declaration of a function that may be called -/
def Feat.lookup (ft : Feat) (g : String) : Option Func := (ft.fns.find? (fun p => p.1 == g)).map (·.2)

/-- the arguments of a call: expressions -/
def isExprs : List Card → Bool
  | [] => true
  | e :: es => isExpr e && isExprs es

/-- a static call of one of the functions of `ft`, with as many arguments as it has parameters -/
def isCall (ft : Feat) : Card → Bool
  | .call g args =>
    (match ft.lookup g with
      | some fd => fd.arguments.length == args.length
      | none => false) && isExprs args
  | _ => false

/-- value positions (of `SetVar`, `SetGlobalVar`, `Return`): an expression or a static call -/
def isVal (ft : Feat) (e : Card) : Bool := isExpr e || isCall ft e

theorem isVal_cases {ft : Feat} {e : Card} (h : isVal ft e = true) :
    isExpr e = true ∨ ∃ g args, e = .call g args ∧ isCall ft (.call g args) = true := by
  unfold isVal at h
  rcases Bool.or_eq_true_iff.1 h with h | h
  · exact Or.inl h
  · cases e <;> first | (simp [isCall] at h; done) | exact Or.inr ⟨_, _, rfl, h⟩

/-- the locals in scope in the body of `Repeat`: the hidden `n` and counter, then the loop variable -/
def repCtx (d : Int) (L : LCtx) (i : Option String) : LCtx :=
  match i with
  | some v => L ++ [("", d + 1), ("", d + 1)] ++ [(v, d + 2)]
  | none => L ++ [("", d + 1), ("", d + 1)]

def optName : Option String → Bool
  | some v => simpleName v
  | none => true

mutual
  /-- statements at scope depth `d` with the locals `L` in scope (they declare nothing) -/
  def isStmtS (ft : Feat) (d : Int) (L : LCtx) : Card → Bool
    | .setGlobalVar n e => !n.isEmpty && isVal ft e
    | .setVar n e => simpleName n && (lidx L n).isSome && isVal ft e
    | .un .ret e => ft.ret && isVal ft e
    | .bin .ifTrue c b => isExpr c && isStmtS ft d L b
    | .bin .ifFalse c b => isExpr c && isStmtS ft d L b
    | .bin .while c (.composite _ cs) => isExpr c && isBlock ft (d + 1) L cs
    | .repeat i n (.composite _ cs) => ft.rep && isExpr n && optName i && isBlock ft (d + 2) (repCtx d L i) cs
    | .tri .ifElse c t e => isExpr c && isStmtS ft d L t && isStmtS ft d L e
    | .composite _ cs => isStmtsS ft d L cs
    | .comment _ => true
    | _ => false
  def isStmtsS (ft : Feat) (d : Int) (L : LCtx) : List Card → Bool
    | [] => true
    | c :: cs => isStmtS ft d L c && isStmtsS ft d L cs
  /-- the cards of a scope at depth `d` -/
  def isBlock (ft : Feat) (d : Int) (L : LCtx) : List Card → Bool
    | [] => true
    | c :: cs =>
      match declOf L c with
      | some (n, e) => simpleName n && isVal ft e && isBlock ft d (L ++ [(n, d)]) cs
      | none => isStmtS ft d L c && isBlock ft d L cs
end

/-- the locals in scope after the cards of a block -/
def blockCtx (d : Int) : LCtx → List Card → LCtx
  | L, [] => L
  | L, c :: cs =>
    match declOf L c with
    | some (n, _) => blockCtx d (L ++ [(n, d)]) cs
    | none => blockCtx d L cs

section code
variable (B : Array UInt8) (F : List (UInt32 × Nat)) (J : Compiler.JumpTable)

/-- `ReadLocalVar j` at `pc` -/
def IsRead (pc j : Nat) : Prop := B.getD pc 0 = Compiler.op.readLocalVar ∧ rdU32 B (pc + 1) = j
/-- `SetLocalVar j` at `pc` -/
def IsSet (pc j : Nat) : Prop := B.getD pc 0 = Compiler.op.setLocalVar ∧ rdU32 B (pc + 1) = j

/-- the code of the arguments of a call, left to right -/
def ECodesL (L : LCtx) : List Card → Nat → Nat → Prop
  | [], pc, pc' => pc' = pc
  | e :: es, pc, pc' => ∃ m, ECodeL B F L e pc m ∧ ECodesL L es m pc'

/-- the code of a static call: the arguments, `FunctionPointer handle arity`, `CallFunction` -/
def CCode (L : LCtx) : Card → Nat → Nat → Prop
  | .call g args, pc, pc' => ∃ m h a, ECodesL B F L args pc m ∧ B.getD m 0 = Compiler.op.functionPointer ∧
      Compiler.look J g = some (h, a) ∧ rdU32 B (m + 1) = h.toNat ∧ rdU32 B (m + 5) = a.toNat ∧
      B.getD (m + 9) 0 = Compiler.op.callFunction ∧ pc' = m + 10
  | _, _, _ => False

/-- the code of a value: an expression or a static call -/
def VCode (L : LCtx) (e : Card) (pc pc' : Nat) : Prop := ECodeL B F L e pc pc' ∨ CCode B F J L e pc pc'

mutual
  def SCodeS (d : Int) (L : LCtx) : Card → Nat → Nat → Prop
    | .setGlobalVar n e, pc, pc' => ∃ m id, VCode B F J L e pc m ∧ B.getD m 0 = Compiler.op.setGlobalVar ∧
        gidOf F n = some id ∧ rdU32 B (m + 1) = id ∧ pc' = m + 5
    | .setVar n e, pc, pc' => ∃ m i, lidx L n = some i ∧ VCode B F J L e pc m ∧
        B.getD m 0 = Compiler.op.setLocalVar ∧ rdU32 B (m + 1) = i ∧ pc' = m + 5
    | .un .ret e, pc, pc' => ∃ m, VCode B F J L e pc m ∧ B.getD m 0 = Compiler.op.ret ∧ pc' = m + 1
    | .bin .ifTrue c b, pc, pc' => ∃ m, ECodeL B F L c pc m ∧ B.getD m 0 = Compiler.op.gotoIfFalse ∧
        rdU32 B (m + 1) = pc' ∧ SCodeS d L b (m + 5) pc'
    | .bin .ifFalse c b, pc, pc' => ∃ m, ECodeL B F L c pc m ∧ B.getD m 0 = Compiler.op.gotoIfTrue ∧
        rdU32 B (m + 1) = pc' ∧ SCodeS d L b (m + 5) pc'
    | .bin .while c (.composite _ cs), pc, pc' => ∃ m1 m2, ECodeL B F L c pc m1 ∧
        B.getD m1 0 = Compiler.op.gotoIfFalse ∧ rdU32 B (m1 + 1) = pc' ∧ BCodes (d + 1) L cs (m1 + 5) m2 ∧
        (∀ j, j < (blockCtx (d + 1) L cs).length - L.length → B.getD (m2 + j) 0 = Compiler.op.pop) ∧
        B.getD (m2 + ((blockCtx (d + 1) L cs).length - L.length)) 0 = Compiler.op.goto ∧
        rdU32 B (m2 + ((blockCtx (d + 1) L cs).length - L.length) + 1) = pc ∧
        pc' = m2 + ((blockCtx (d + 1) L cs).length - L.length) + 5
    | .repeat i n (.composite _ cs), pc, pc' => ∃ m0 mb m2,
        ECodeL B F L n pc m0 ∧ IsSet B m0 L.length ∧ ECodeL B F L (.scalarInt 0) (m0 + 5) (m0 + 14) ∧
        IsSet B (m0 + 14) (L.length + 1) ∧
        IsRead B (m0 + 19) (L.length + 1) ∧ IsRead B (m0 + 24) L.length ∧
        B.getD (m0 + 29) 0 = Compiler.op.less ∧ B.getD (m0 + 30) 0 = Compiler.op.gotoIfFalse ∧
        rdU32 B (m0 + 31) = pc' - 2 ∧
        (match i with
          | some _ => IsRead B (m0 + 35) (L.length + 1) ∧ IsSet B (m0 + 40) (L.length + 2) ∧ mb = m0 + 45
          | none => mb = m0 + 35) ∧
        BCodes (d + 2) (repCtx d L i) cs mb m2 ∧
        (∀ j, j < (blockCtx (d + 2) (repCtx d L i) cs).length - (L.length + 2) →
          B.getD (m2 + j) 0 = Compiler.op.pop) ∧
        ECodeL B F L (.scalarInt 1) (m2 + ((blockCtx (d + 2) (repCtx d L i) cs).length - (L.length + 2)))
          (m2 + ((blockCtx (d + 2) (repCtx d L i) cs).length - (L.length + 2)) + 9) ∧
        IsRead B (m2 + ((blockCtx (d + 2) (repCtx d L i) cs).length - (L.length + 2)) + 9) (L.length + 1) ∧
        B.getD (m2 + ((blockCtx (d + 2) (repCtx d L i) cs).length - (L.length + 2)) + 14) 0 = Compiler.op.add ∧
        IsSet B (m2 + ((blockCtx (d + 2) (repCtx d L i) cs).length - (L.length + 2)) + 15) (L.length + 1) ∧
        B.getD (m2 + ((blockCtx (d + 2) (repCtx d L i) cs).length - (L.length + 2)) + 20) 0 = Compiler.op.goto ∧
        rdU32 B (m2 + ((blockCtx (d + 2) (repCtx d L i) cs).length - (L.length + 2)) + 21) = m0 + 19 ∧
        B.getD (pc' - 2) 0 = Compiler.op.pop ∧ B.getD (pc' - 1) 0 = Compiler.op.pop ∧
        pc' = m2 + ((blockCtx (d + 2) (repCtx d L i) cs).length - (L.length + 2)) + 27
    | .tri .ifElse c t e, pc, pc' => ∃ m1 m2, ECodeL B F L c pc m1 ∧ B.getD m1 0 = Compiler.op.gotoIfFalse ∧
        rdU32 B (m1 + 1) = m2 + 5 ∧ SCodeS d L t (m1 + 5) m2 ∧ B.getD m2 0 = Compiler.op.goto ∧
        rdU32 B (m2 + 1) = pc' ∧ SCodeS d L e (m2 + 5) pc'
    | .composite _ cs, pc, pc' => SCodesS d L cs pc pc'
    | .comment _, pc, pc' => pc' = pc
    | _, _, _ => False
  def SCodesS (d : Int) (L : LCtx) : List Card → Nat → Nat → Prop
    | [], pc, pc' => pc' = pc
    | c :: cs, pc, pc' => ∃ m, SCodeS d L c pc m ∧ SCodesS d L cs m pc'
  /-- code of the cards of a block at depth `d` -/
  def BCodes (d : Int) (L : LCtx) : List Card → Nat → Nat → Prop
    | [], pc, pc' => pc' = pc
    | c :: cs, pc, pc' =>
      match declOf L c with
      | some (n, e) => ∃ m, VCode B F J L e pc m ∧ B.getD m 0 = Compiler.op.setLocalVar ∧
          rdU32 B (m + 1) = L.length ∧ BCodes d (L ++ [(n, d)]) cs (m + 5) pc'
      | none => ∃ m, SCodeS d L c pc m ∧ BCodes d L cs m pc'
end
end code
end Cao.Sim

namespace Cao.Compiler
open Cao Cao.Sim

theorem curDepth_depthUp_succ (l : List Int) (h : l ≠ []) :
    (depthUp l).getLast?.getD 0 = l.getLast?.getD 0 + 1 := by
  unfold depthUp
  cases hr : l.reverse with
  | nil => simp at hr; exact absurd hr h
  | cons d r =>
    have hl : l = (d :: r).reverse := by rw [← hr, List.reverse_reverse]
    rw [hl]
    simp

theorem depthUp_ne_nil {l : List Int} (h : l ≠ []) : depthUp l ≠ [] := by
  unfold depthUp
  cases hr : l.reverse with
  | nil => simp at hr; exact absurd hr h
  | cons d r => simp

theorem dropWhile_append_all {α : Type} {p : α → Bool} : ∀ {a : List α} (b : List α), (∀ x ∈ a, p x = true) →
    (a ++ b).dropWhile p = b.dropWhile p
  | [], _, _ => rfl
  | x :: a, b, h => by
    rw [List.cons_append, List.dropWhile_cons, h x (List.mem_cons_self ..)]
    exact dropWhile_append_all b fun y hy => h y (List.mem_cons_of_mem _ hy)

/-- `scopeEnd` pops exactly the locals `L'` of the scope that ends -/
theorem scopeEnd_split {s s' : CState} {a : Unit} {L L' : LCtx} (hfid : s.functionId = 0)
    (hloc : s.locals = [(L ++ L').map mkLoc])
    (hd : ∀ p ∈ L, p.2 ≤ (depthDown s.scopeDepth).getLast?.getD 0)
    (hd' : ∀ p ∈ L', (depthDown s.scopeDepth).getLast?.getD 0 < p.2)
    (h : scopeEnd s = .ok (a, s')) :
    s'.bytecode = s.bytecode ++ (List.replicate L'.length op.pop).toArray ∧ QV s s' ∧
    s'.locals = [L.map mkLoc] ∧ s'.functionId = 0 ∧ s'.scopeDepth = depthDown s.scopeDepth := by
  unfold scopeEnd at h
  obtain ⟨_, s1, h1, h⟩ := bind_ok.1 h
  simp only [modify_run, Except.ok.injEq, Prod.mk.injEq, true_and] at h1
  obtain ⟨s2, s2', hg, h⟩ := bind_ok.1 h
  simp only [get_run, Except.ok.injEq, Prod.mk.injEq] at hg
  obtain ⟨rfl, rfl⟩ := hg
  have e1d : s1.scopeDepth = depthDown s.scopeDepth := by rw [← h1]; rfl
  have e1f : s1.functionId = 0 := by rw [← h1]; exact hfid
  have e1l : s1.locals = [(L ++ L').map mkLoc] := by rw [← h1]; exact hloc
  have hls : s1.locals.getD s1.functionId [] = (L ++ L').map mkLoc := by rw [e1f, e1l]; rfl
  have hkeep : (((L ++ L').map mkLoc).reverse.dropWhile (fun l => decide (l.depth > curDepth s1))).reverse =
      L.map mkLoc := by
    rw [List.map_append, List.reverse_append, dropWhile_append_all, dropWhile_none, List.reverse_reverse]
    · intro x hx
      simp only [List.mem_reverse, List.mem_map] at hx
      obtain ⟨p, hp, rfl⟩ := hx
      have := hd p hp
      simp only [decide_eq_false_iff_not, mkLoc, curDepth, e1d]
      omega
    · intro x hx
      simp only [List.mem_reverse, List.mem_map] at hx
      obtain ⟨p, hp, rfl⟩ := hx
      have := hd' p hp
      simp only [decide_eq_true_eq, mkLoc, curDepth, e1d]
      omega
  have hbytes : List.map (fun (l : Local) => if l.captured = true then op.closeUpvalue else op.pop)
      (List.drop (L.map mkLoc).length ((L ++ L').map mkLoc)).reverse = List.replicate L'.length op.pop := by
    rw [List.map_append, List.drop_left, List.eq_replicate_iff]
    refine ⟨by simp, fun b hb => ?_⟩
    simp only [List.mem_map, List.mem_reverse] at hb
    obtain ⟨l, ⟨p, _, rfl⟩, rfl⟩ := hb
    rfl
  simp only [hls, hkeep, hbytes] at h
  obtain ⟨_, s3, h3, h4⟩ := bind_ok.1 h
  simp only [modify_run, Except.ok.injEq, Prod.mk.injEq, true_and] at h3
  obtain ⟨b4, l4, v4⟩ := emitBytes_ok h4
  have e3l : s3.locals = [L.map mkLoc] := by
    rw [← h3]; show s1.locals.set s1.functionId (L.map mkLoc) = _; rw [e1f, e1l]; rfl
  refine ⟨?_, ?_, ?_, ?_, ?_⟩
  · rw [b4, ← h3, ← h1]
  · exact ⟨by rw [v4.ids, ← h3, ← h1], by rw [v4.next, ← h3, ← h1], by rw [v4.data, ← h3, ← h1]⟩
  · rw [l4.locals, e3l]
  · rw [l4.fid, ← h3]; exact e1f
  · rw [l4.depth, ← h3]; exact e1d

section
variable (B : Array UInt8) (F : List (UInt32 × Nat)) (hB : B.size < 4294967296)
  (hF : ∀ p ∈ F, p.2 < 4294967296)
include hB hF
set_option linter.unusedSectionVars false

theorem whileCodeS_spec {L new : LCtx} {d : Int} {J : JumpTable} {c b : Card} (PB : Nat → Nat → Prop)
    (hnew : ∀ p ∈ new, p.2 = d + 1)
    (ihb : ∀ s s', processCard b s = .ok ((), s') → LInv s L → curDepth s = d + 1 → s.scopeDepth ≠ [] →
      s.jumpTable = J → AgreeFrom B s' s.bytecode.size → (∃ t, F = s'.varIds ++ t) →
      LInv s' (L ++ new) ∧ PB s.bytecode.size s'.bytecode.size)
    (hc : isExpr c = true) {s0 s' : CState}
    (h : whileCode (processCard c) (processCard b) s0 = .ok ((), s')) (hl : LInv s0 L)
    (hd : curDepth s0 = d) (hsd : s0.scopeDepth ≠ []) (hj : s0.jumpTable = J)
    (hag : AgreeFrom B s' s0.bytecode.size) (hv : ∃ t, F = s'.varIds ++ t) :
    LInv s' L ∧ ∃ m1 m2, ECodeL B F L c s0.bytecode.size m1 ∧ B.getD m1 0 = op.gotoIfFalse ∧
      Vm.rdU32 B (m1 + 1) = s'.bytecode.size ∧ PB (m1 + 5) m2 ∧
      (∀ j, j < new.length → B.getD (m2 + j) 0 = op.pop) ∧ B.getD (m2 + new.length) 0 = op.goto ∧
      Vm.rdU32 B (m2 + new.length + 1) = s0.bytecode.size ∧ s'.bytecode.size = m2 + new.length + 5 := by
  unfold whileCode at h
  obtain ⟨s0', s0'', hg, h⟩ := bind_ok.1 h
  simp only [get_run, Except.ok.injEq, Prod.mk.injEq] at hg
  obtain ⟨rfl, rfl⟩ := hg
  obtain ⟨_, s1', h2, h⟩ := bind_ok.1 h
  obtain ⟨sa, s1, h4, ba, la, va, b1, l1, v1⟩ := withSub_ok' h2
  obtain ⟨_, s1'', h5, h⟩ := bind_ok.1 h
  obtain ⟨b2, l2, v2⟩ := pushSub_ok h5
  obtain ⟨_, s5, h6, h7⟩ := bind_ok.1 h
  obtain ⟨b7, l7, v7⟩ := popSub_ok h7
  obtain ⟨s3, s4, h8, e3, l3, v3, e5, l5, v5, hge, g1, g2, g3, g4⟩ :=
    encodeIfThen_ok (fun k => by have := processCard_mono (k := k) b; mono) h6
  obtain ⟨_, s3b, h8b, h⟩ := bind_ok.1 h8
  obtain ⟨bsb, lsb, fsb, vsb, dsb⟩ := scopeBegin_ok' h8b
  obtain ⟨_, s6, h9, h⟩ := bind_ok.1 h
  obtain ⟨_, s6e, h9e, h⟩ := bind_ok.1 h
  obtain ⟨_, s7, h10, h11⟩ := bind_ok.1 h
  obtain ⟨b10, l10, v10⟩ := pushInstr_ok h10
  obtain ⟨b11, l11, v11⟩ := emitBytes_ok h11
  have em : s1''.bytecode.size = s1.bytecode.size := by rw [b2, b1]
  rw [em] at e3 hge g1 g2 g3 g4
  have e3b : s3b.bytecode.size = s1.bytecode.size + 5 := by rw [bsb, e3]
  have hsz1 := processCard_size_le h4
  have hsz6 := processCard_size_le h9
  have esa : sa.bytecode.size = s0.bytecode.size := by rw [ba]
  have esz' : s'.bytecode.size = s4.bytecode.size := by rw [b7, e5]
  have hb4e : s4.bytecode = s6e.bytecode.push op.goto ++ (le32 (UInt32.ofNat s0.bytecode.size)).toArray := by
    rw [b11, b10]
  have hext6 := ((scopeEnd_mono (k := s6.bytecode.size)).run _ _ _ h9e (Nat.le_refl _)).1
  have hsz6e := hext6.size_le
  have e4e : s4.bytecode.size = s6e.bytecode.size + 5 := by rw [hb4e]; simp [le32_length]
  have hvr := (processCard_vr b).run _ _ _ h9
  have hv4 : ∃ t, F = s4.varIds ++ t := vpre_eq (vpre_eq hv v7.ids) v5.ids
  have hv6e : ∃ t, F = s6e.varIds ++ t := vpre_eq (vpre_eq hv4 v11.ids) v10.ids
  obtain ⟨ql1, hcc⟩ := ecodeL_of_processCard B F hF L (by have := hl.len; omega) c hc sa s1 h4 (hl.of_ql la)
    (by
      rw [ba]
      refine hag.sub (Nat.le_refl _) (by omega) fun i _ hi => ?_
      rw [b7, g4 i hi, b2, b1])
    (by
      obtain ⟨t, ht⟩ := vpre_back (vpre_back hv6e (scopeEnd_vr.run _ _ _ h9e)) hvr
      exact ⟨t, by rw [ht, vsb.ids, v3.ids, v2.ids, v1.ids]⟩)
  have hl1 : LInv s1 L := (hl.of_ql la).of_ql ql1
  have hv6 : ∃ t, F = s6.varIds ++ t := vpre_back hv6e (scopeEnd_vr.run _ _ _ h9e)
  have h46 : ∀ i, i < s6.bytecode.size → s4.bytecode[i]? = s6.bytecode[i]? := fun i hi => by
    rw [hb4e, Array.getElem?_append_left (by simp; omega), ← hext6.pref i hi,
      Array.getElem?_push_lt (by omega)]
    simp
  have hl3 : LInv s3 L := hl1.of_ql ((l1.trans l2).trans l3)
  have hl3b : LInv s3b L :=
    ⟨fsb.trans hl3.fid, lsb.trans hl3.locals, fun p hp => by
      unfold curDepth; rw [dsb]
      exact Int.le_trans (hl3.depth p hp) (curDepth_depthUp _), hl3.len⟩
  have hsd3 : s3.scopeDepth = s0.scopeDepth := by
    rw [l3.depth, l2.depth, l1.depth, ql1.depth, la.depth]
  have hd3b : curDepth s3b = d + 1 := by
    unfold curDepth at hd ⊢
    rw [dsb, hsd3, curDepth_depthUp_succ _ hsd, hd]
  have hsd3b : s3b.scopeDepth ≠ [] := by
    rw [dsb, hsd3]; exact depthUp_ne_nil hsd
  obtain ⟨hl6, hcb⟩ := ihb s3b s6 h9 hl3b hd3b hsd3b
    (by rw [(kp_run scopeBegin_kp h8b).jt, l3.jt, l2.jt, l1.jt, ql1.jt, la.jt]; exact hj)
    (by
      rw [e3b]
      refine hag.sub (by omega) (by omega) fun i hi hi' => ?_
      rw [b7, g3 i hi, h46 i hi'])
    hv6
  have hbal := processCard_balanced (c := b) (s := s3b) (s' := s6) h9 hl3b.locals_ne
  have hd6 : depthDown s6.scopeDepth = s3.scopeDepth := by
    rw [hbal.scopeDepth, dsb, depthDown_depthUp]
  have hcd3 : s3.scopeDepth.getLast?.getD 0 = d := by rw [hsd3]; exact hd
  obtain ⟨b6e, _, l6e, f6e, d6e⟩ := scopeEnd_split (L := L) (L' := new) hl6.fid hl6.locals
    (fun p hp => by rw [hd6]; exact hl3.depth p hp)
    (fun p hp => by rw [hd6, hcd3, hnew p hp]; omega) h9e
  have hl6e : LInv s6e L :=
    ⟨f6e, l6e, fun p hp => by
      unfold curDepth; rw [d6e, hd6]; exact hl3.depth p hp, hl3.len⟩
  have e6e : s6e.bytecode.size = s6.bytecode.size + new.length := by rw [b6e]; simp
  have e4 : s4.bytecode.size = s6.bytecode.size + new.length + 5 := by rw [e4e, e6e]
  have hlt : s4.bytecode.size < 4294967296 := by have := hag.size_le; omega
  have hag4 : AgreeFrom B s4 (s1.bytecode.size + 5) :=
    hag.sub (by omega) (by omega) fun i hi _ => by rw [b7, g3 i hi]
  obtain ⟨a1, a2, a3⟩ := agree_instr (a := s6e.bytecode) hb4e (hag4.weaken (by omega))
  rw [e6e] at a1 a2
  refine ⟨hl6e.of_ql (((l10.trans l11).trans l5).trans l7), s1.bytecode.size, s6.bytecode.size,
    by rw [ba] at hcc; exact hcc, ?_, ?_, ?_, ?_, a1, ?_, by omega⟩
  · rw [hag.getD (by omega) (by omega), b7]; exact g1
  · rw [hag.rdU32 (by omega) (by omega), b7, e5]
    exact rdU32_patched hlt g2
  · rw [e3b] at hcb; exact hcb
  · intro j hj
    rw [hag4.getD (by omega) (by omega), hb4e,
      show (s6e.bytecode.push op.goto ++ (le32 (UInt32.ofNat s0.bytecode.size)).toArray).getD (s6.bytecode.size + j) 0
        = s6e.bytecode.getD (s6.bytecode.size + j) 0 from getD_congr (by
          rw [Array.getElem?_append_left (by simp; omega), Array.getElem?_push_lt (by omega)]; simp),
      b6e]
    simp [Array.getD_eq_getD_getElem?, hj]
  · exact rdU32_patched (by have := hag.size_le; omega) (fun j hj => a2 j (by rw [le32_length]; exact hj))


end
end Cao.Compiler

namespace Cao.Compiler
open Cao Cao.Sim

theorem blockCtx_ext (d : Int) : ∀ (cs : List Card) (L : LCtx),
    ∃ new, blockCtx d L cs = L ++ new ∧ ∀ p ∈ new, p.2 = d
  | [], L => ⟨[], by simp [blockCtx], fun p hp => by cases hp⟩
  | c :: cs, L => by
    simp only [blockCtx]
    rcases hdecl : declOf L c with _ | ⟨n, e⟩
    · simp only []
      exact blockCtx_ext d cs L
    · simp only []
      obtain ⟨new, h1, h2⟩ := blockCtx_ext d cs (L ++ [(n, d)])
      refine ⟨(n, d) :: new, by rw [h1]; simp, fun p hp => ?_⟩
      rcases List.mem_cons.1 hp with rfl | hp
      · rfl
      · exact h2 p hp

/-! ## the code of a static call in a value position -/

section callx
variable (B : Array UInt8) (F : List (UInt32 × Nat)) (J : JumpTable) (hB : B.size < 4294967296)
  (hF : ∀ p ∈ F, p.2 < 4294967296)
include hF

theorem ecodesL_of_compileSubexprFrom (L : LCtx) (hL : L.length < 4294967296) :
    ∀ (args : List Card), isExprs args = true → ∀ (k : Nat) (s s' : CState),
      compileSubexprFrom k args s = .ok ((), s') → LInv s L →
      AgreeFrom B s' s.bytecode.size → (∃ t, F = s'.varIds ++ t) →
      QL s s' ∧ ECodesL B F L args s.bytecode.size s'.bytecode.size
  | [] => by
    intro _ k s s' h hl _ _
    simp only [compileSubexprFrom, pure_run, Except.ok.injEq, Prod.mk.injEq, true_and] at h
    subst h
    exact ⟨QL.refl _, by simp only [ECodesL]⟩
  | c :: cs => by
    intro hc k s s' h hl hag hv
    simp only [isExprs, Bool.and_eq_true] at hc
    simp only [compileSubexprFrom] at h
    obtain ⟨_, s1', h2, h3⟩ := bind_ok.1 h
    obtain ⟨sa, s1, h4, ba, la, va, b1, l1, v1⟩ := withSub_ok' h2
    have esa : sa.bytecode.size = s.bytecode.size := by rw [ba]
    have hsz1 := processCard_size_le h4
    have hext := ((compileSubexprFrom_mono (k := s1'.bytecode.size) (k + 1) cs).run _ _ _ h3 (Nat.le_refl _)).1
    have hvr := (compileSubexprFrom_vr (k + 1) cs).run _ _ _ h3
    obtain ⟨ql1, hcc⟩ := ecodeL_of_processCard B F hF L hL c hc.1 sa s1 h4 (hl.of_ql la)
      (by
        rw [esa]
        refine hag.sub (Nat.le_refl _) (by rw [← b1]; exact hext.size_le) fun i _ hi => ?_
        rw [hext.pref i (by rw [b1]; exact hi), b1])
      (by
        obtain ⟨t, ht⟩ := vpre_back hv hvr
        exact ⟨t, by rw [ht, v1.ids]⟩)
    obtain ⟨ql2, hcs⟩ := ecodesL_of_compileSubexprFrom L hL cs hc.2 (k + 1) s1' s' h3
      (((hl.of_ql la).of_ql ql1).of_ql l1) (by rw [b1]; exact hag.weaken (by omega)) hv
    refine ⟨((la.trans ql1).trans l1).trans ql2, ?_⟩
    simp only [ECodesL]
    rw [esa] at hcc
    rw [b1] at hcs
    exact ⟨_, hcc, hcs⟩

omit hF in
theorem exprs_ql (L : LCtx) : ∀ (args : List Card), isExprs args = true → ∀ (k : Nat) (s s' : CState),
    compileSubexprFrom k args s = .ok ((), s') → LInv s L → QL s s'
  | [] => by
    intro _ k s s' h _
    simp only [compileSubexprFrom, pure_run, Except.ok.injEq, Prod.mk.injEq, true_and] at h
    subst h
    exact QL.refl _
  | c :: cs => by
    intro hc k s s' h hl
    simp only [isExprs, Bool.and_eq_true] at hc
    simp only [compileSubexprFrom] at h
    obtain ⟨_, s1', h2, h3⟩ := bind_ok.1 h
    obtain ⟨sa, s1, h4, ba, la, va, b1, l1, v1⟩ := withSub_ok' h2
    have ql1 := expr_ql L c hc.1 sa s1 h4 (hl.of_ql la)
    have ql2 := exprs_ql L cs hc.2 (k + 1) s1' s' h3 (((hl.of_ql la).of_ql ql1).of_ql l1)
    exact ((la.trans ql1).trans l1).trans ql2

omit hF in
theorem resolveSpec_look {jt : JumpTable} {ns : List String} {imports : List (String × String)} {g : String}
    {r : UInt32 × UInt32} (h : look jt g = some r) : resolveSpec jt ns imports g = .ok r := by
  simp [resolveSpec, resolveWith, stepThen, h]

omit hF in
/-- what `Call g args` appends after the code of the arguments -/
theorem callCode_tail {g : String} {s s' : CState} {r : UInt32 × UInt32} (hr : look s.jumpTable g = some r)
    (h : (do pushInstr op.functionPointer; encodeJump g; pushInstr op.callFunction : CM Unit) s = .ok ((), s')) :
    s'.bytecode = ((s.bytecode.push op.functionPointer ++ (le32 r.1).toArray) ++ (le32 r.2).toArray).push op.callFunction ∧
      QL s s' ∧ QV s s' := by
  obtain ⟨_, s1, h1, h⟩ := bind_ok.1 h
  obtain ⟨_, s2, h2, h3⟩ := bind_ok.1 h
  obtain ⟨b1, l1, v1⟩ := pushInstr_ok h1
  obtain ⟨b3, l3, v3⟩ := pushInstr_ok h3
  rw [encodeJump_run, resolveSpec_look (by rw [l1.jt]; exact hr)] at h2
  obtain ⟨h, a⟩ := r
  simp only [Except.ok.injEq, Prod.mk.injEq, true_and] at h2
  subst h2
  refine ⟨by rw [b3]; simp only [b1], l1.trans ⟨l3.locals, l3.fid, l3.depth, l3.jt⟩,
    v1.trans ⟨v3.ids, v3.next, v3.data⟩⟩

omit hF in
theorem call_bytes (a : Array UInt8) (o o2 : UInt8) (xs ys : List UInt8) (hx : xs.length = 4) (hy : ys.length = 4) :
    let arr := ((a.push o ++ xs.toArray) ++ ys.toArray).push o2
    arr.size = a.size + 10 ∧ arr.getD a.size 0 = o ∧
    (∀ i, i < 4 → arr.getD (a.size + 1 + i) 0 = xs.getD i 0) ∧
    (∀ i, i < 4 → arr.getD (a.size + 5 + i) 0 = ys.getD i 0) ∧
    arr.getD (a.size + 9) 0 = o2 ∧ ∀ i, i < a.size → arr[i]? = a[i]? := by
  intro arr
  have e : arr = (a.toList ++ (o :: (xs ++ (ys ++ [o2])))).toArray := by
    apply Array.ext'
    simp [arr]
  have hg : ∀ k, arr.getD (a.size + k) 0 = (o :: (xs ++ (ys ++ [o2]))).getD k 0 := by
    intro k
    rw [e, Array.getD_eq_getD_getElem?, List.getElem?_toArray, List.getElem?_append_right (by simp),
      List.getD_eq_getElem?_getD]
    simp
  refine ⟨by rw [e]; simp [hx, hy], ?_, ?_, ?_, ?_, ?_⟩
  · have := hg 0; simpa using this
  · intro i hi
    have := hg (1 + i)
    rw [← Nat.add_assoc] at this
    rw [this, show 1 + i = i + 1 by omega, List.getD_cons_succ, List.getD_eq_getElem?_getD,
      List.getElem?_append_left (by omega), List.getD_eq_getElem?_getD]
  · intro i hi
    have := hg (5 + i)
    rw [← Nat.add_assoc] at this
    rw [this, show 5 + i = (4 + i) + 1 by omega, List.getD_cons_succ, List.getD_eq_getElem?_getD,
      List.getElem?_append_right (by omega), List.getElem?_append_left (by omega), List.getD_eq_getElem?_getD]
    congr 2; omega
  · have := hg 9
    rw [this, show (9 : Nat) = 8 + 1 by rfl, List.getD_cons_succ, List.getD_eq_getElem?_getD,
      List.getElem?_append_right (by omega), List.getElem?_append_right (by omega)]
    simp [hx, hy]
  · intro i hi
    rw [e, List.getElem?_toArray, List.getElem?_append_left (by simpa using hi)]
    simp

omit hF in
theorem call_ql (ft : Feat) (L : LCtx) {g : String} {args : List Card} (hc : isCall ft (.call g args) = true)
    {sa s1 : CState} (h : processCard (.call g args) sa = .ok ((), s1)) (hl : LInv sa L) : QL sa s1 := by
  simp only [isCall, Bool.and_eq_true] at hc
  simp only [processCard] at h
  obtain ⟨_, s0, h0, h⟩ := bind_ok.1 h
  obtain ⟨b0, l0, v0⟩ := cardLabel_ok' h0
  unfold callCode at h
  obtain ⟨_, s2, h2, h⟩ := bind_ok.1 h
  have ql2 := exprs_ql L args hc.2 0 s0 s2 h2 (hl.of_ql l0)
  obtain ⟨_, s3, h3, h⟩ := bind_ok.1 h
  obtain ⟨_, s4, h4, h5⟩ := bind_ok.1 h
  obtain ⟨b3, l3, v3⟩ := pushInstr_ok h3
  obtain ⟨b5, l5, v5⟩ := pushInstr_ok h5
  rw [encodeJump_run] at h4
  have l4 : QL s3 s4 := by
    cases hr : resolveSpec s3.jumpTable s3.ns s3.imports g with
    | error k => rw [hr] at h4; cases h4
    | ok r =>
      obtain ⟨x, y⟩ := r
      rw [hr] at h4
      simp only [Except.ok.injEq, Prod.mk.injEq, true_and] at h4
      subst h4
      exact ⟨rfl, rfl, rfl, rfl⟩
  exact (((l0.trans ql2).trans l3).trans l4).trans l5

/-- the code of `Call g args` in the final program -/
theorem ccode_of_processCard (ft : Feat) (L : LCtx) (hL : L.length < 4294967296) {g : String} {args : List Card}
    (hc : isCall ft (.call g args) = true) (hJ : ∃ r, look J g = some r)
    {sa s1 : CState} (h : processCard (.call g args) sa = .ok ((), s1)) (hl : LInv sa L)
    (hj : sa.jumpTable = J) (hag : AgreeFrom B s1 sa.bytecode.size) (hv : ∃ t, F = s1.varIds ++ t) :
    CCode B F J L (.call g args) sa.bytecode.size s1.bytecode.size := by
  simp only [isCall, Bool.and_eq_true] at hc
  obtain ⟨r, hr⟩ := hJ
  simp only [processCard] at h
  obtain ⟨_, s0, h0, h⟩ := bind_ok.1 h
  obtain ⟨b0, l0, v0⟩ := cardLabel_ok' h0
  unfold callCode at h
  obtain ⟨_, s2, h2, h⟩ := bind_ok.1 h
  have ql2 := exprs_ql L args hc.2 0 s0 s2 h2 (hl.of_ql l0)
  obtain ⟨bt, lt, vt⟩ := callCode_tail (g := g) (s := s2) (s' := s1) (r := r)
    (by rw [ql2.jt, l0.jt, hj]; exact hr) h
  have hx : (le32 r.1).length = 4 := le32_length _
  have hy : (le32 r.2).length = 4 := le32_length _
  obtain ⟨c1, c2, c3, c4, c5, c6⟩ := call_bytes s2.bytecode op.functionPointer op.callFunction (le32 r.1) (le32 r.2) hx hy
  rw [← bt] at c1 c2 c3 c4 c5 c6
  have hsz2 := ((compileSubexprFrom_mono (k := s0.bytecode.size) 0 args).run _ _ _ h2 (Nat.le_refl _)).1.size_le
  have e0 : s0.bytecode.size = sa.bytecode.size := by rw [b0]
  obtain ⟨_, hcs⟩ := ecodesL_of_compileSubexprFrom B F hF L hL args hc.2 0 s0 s2 h2 (hl.of_ql l0)
    (by
      rw [e0]
      exact hag.sub (Nat.le_refl _) (by omega) fun i _ hi => c6 i hi)
    (vpre_eq hv vt.ids)
  rw [e0] at hcs
  simp only [CCode]
  refine ⟨s2.bytecode.size, r.1, r.2, hcs, ?_, hr, ?_, ?_, ?_, by omega⟩
  · rw [hag.getD (by omega) (by omega)]; exact c2
  · exact Sim.rdU32_eq _ _ _ fun i hi => by rw [hag.getD (by omega) (by omega)]; exact c3 i hi
  · exact Sim.rdU32_eq _ _ _ fun i hi => by rw [hag.getD (by omega) (by omega)]; exact c4 i hi
  · rw [hag.getD (by omega) (by omega)]; exact c5

omit hF in
/-- a value card leaves the scoping bookkeeping alone -/
theorem val_ql (ft : Feat) (L : LCtx) {e : Card} (he : isVal ft e = true) {sa s1 : CState}
    (h : processCard e sa = .ok ((), s1)) (hl : LInv sa L) : QL sa s1 := by
  rcases isVal_cases he with he | ⟨g, args, rfl, hc⟩
  · exact expr_ql L e he sa s1 h hl
  · exact call_ql ft L hc h hl

/-- the code of a value card in the final program -/
theorem vcode_of_processCard (ft : Feat) (hJ : ∀ g fd, ft.lookup g = some fd → ∃ r, look J g = some r)
    (L : LCtx) (hL : L.length < 4294967296) {e : Card} (he : isVal ft e = true) {sa s1 : CState}
    (h : processCard e sa = .ok ((), s1)) (hl : LInv sa L) (hj : sa.jumpTable = J)
    (hag : AgreeFrom B s1 sa.bytecode.size) (hv : ∃ t, F = s1.varIds ++ t) :
    VCode B F J L e sa.bytecode.size s1.bytecode.size := by
  rcases isVal_cases he with he | ⟨g, args, rfl, hc⟩
  · exact Or.inl (ecodeL_of_processCard B F hF L hL e he sa s1 h hl hag hv).2
  · refine Or.inr (ccode_of_processCard B F J hF ft L hL hc ?_ h hl hj hag hv)
    have hc' := hc
    simp only [isCall, Bool.and_eq_true] at hc'
    rcases hlk : ft.lookup g with _ | fd
    · rw [hlk] at hc'; exact absurd hc'.1 (by simp)
    · exact hJ g fd hlk

end callx


/-- what the extraction of the code of a `Repeat` card has to provide (given the extraction for the
    cards of its body); proved in `SimRepeat.lean`, trivial for fragments without `Repeat` -/
def RepX (B : Array UInt8) (F : List (UInt32 × Nat)) (J : JumpTable) (ft : Feat) : Prop :=
  ∀ (d : Int) (L : LCtx) (i : Option String) (n : Card) (ty : String) (cs : List Card),
    (∀ (L' : LCtx) (k : Nat) (s s' : CState), isBlock ft (d + 2) L' cs = true →
      compileSubexprFrom k cs s = .ok ((), s') → LInv s L' → curDepth s = d + 2 → s.scopeDepth ≠ [] →
      s.jumpTable = J → AgreeFrom B s' s.bytecode.size → (∃ t, F = s'.varIds ++ t) →
      LInv s' (blockCtx (d + 2) L' cs) ∧ BCodes B F J (d + 2) L' cs s.bytecode.size s'.bytecode.size) →
    isStmtS ft d L (.repeat i n (.composite ty cs)) = true →
    ∀ (s s' : CState), processCard (.repeat i n (.composite ty cs)) s = .ok ((), s') → LInv s L →
      curDepth s = d → s.scopeDepth ≠ [] → s.jumpTable = J → AgreeFrom B s' s.bytecode.size →
      (∃ t, F = s'.varIds ++ t) →
      LInv s' L ∧ SCodeS B F J d L (.repeat i n (.composite ty cs)) s.bytecode.size s'.bytecode.size

/-- the handler for all final programs -/
def RepXAll (ft : Feat) : Prop :=
  ∀ (B : Array UInt8) (F : List (UInt32 × Nat)) (J : JumpTable), B.size < 4294967296 →
    (∀ p ∈ F, p.2 < 4294967296) → RepX B F J ft

theorem repX_false {ft : Feat} (h : ft.rep = false) : RepXAll ft := by
  intro B F J _ _ d L i n ty cs _ hs
  simp [isStmtS, h] at hs

section
variable (B : Array UInt8) (F : List (UInt32 × Nat)) (J : JumpTable) (hB : B.size < 4294967296)
  (hF : ∀ p ∈ F, p.2 < 4294967296) (ft : Feat) (hrepX : RepX B F J ft)
  (hJ : ∀ g fd, ft.lookup g = some fd → ∃ r, look J g = some r)
include hB hF hrepX hJ

set_option linter.unusedSectionVars false in
mutual
theorem scodeS_of_processCard (d : Int) (L : LCtx) :
    ∀ (c : Card), isStmtS ft d L c = true → ∀ (s s' : CState), processCard c s = .ok ((), s') → LInv s L → curDepth s = d → s.scopeDepth ≠ [] → s.jumpTable = J →
      AgreeFrom B s' s.bytecode.size → (∃ t, F = s'.varIds ++ t) →
      LInv s' L ∧ SCodeS B F J d L c s.bytecode.size s'.bytecode.size
  | .comment _ => by
    intro _ s s' h hl hd hsd hj hag hv
    simp only [processCard] at h
    obtain ⟨_, s0, h0, h1⟩ := bind_ok.1 h
    obtain ⟨b0, l0, v0⟩ := cardLabel_ok' h0
    simp only [pure_run, Except.ok.injEq, Prod.mk.injEq, true_and] at h1
    subst h1
    exact ⟨hl.of_ql l0, by simp only [SCodeS]; rw [b0]⟩
  | .composite _ cs => by
    intro hc s s' h hl hd hsd hj hag hv
    simp only [isStmtS] at hc
    simp only [processCard] at h
    obtain ⟨_, s0, h0, h1⟩ := bind_ok.1 h
    obtain ⟨b0, l0, v0⟩ := cardLabel_ok' h0
    have := scodesS_of_compileSubexprFrom d L cs hc 0 s0 s' h1 (hl.of_ql l0)
      (by unfold curDepth at hd ⊢; rw [l0.depth]; exact hd) (by rw [l0.depth]; exact hsd) (by rw [l0.jt]; exact hj)
      (by rw [b0]; exact hag) hv
    rw [b0] at this
    exact ⟨this.1, by simp only [SCodeS]; exact this.2⟩
  | .setGlobalVar n e => by
    intro hc s s' h hl hd hsd hj hag hv
    simp only [isStmtS, Bool.and_eq_true, Bool.not_eq_true'] at hc
    obtain ⟨hne, he⟩ := hc
    simp only [processCard] at h
    obtain ⟨_, s0, h0, h1⟩ := bind_ok.1 h
    obtain ⟨b0, l0, v0⟩ := cardLabel_ok' h0
    unfold setGlobalVarCode at h1
    obtain ⟨_, s1', h2, h1⟩ := bind_ok.1 h1
    obtain ⟨sa, s1, h4, ba, la, va, b1, l1, v1⟩ := withSub_ok' h2
    obtain ⟨_, s2, h5, h1⟩ := bind_ok.1 h1
    obtain ⟨b2, l2, v2⟩ := pushInstr_ok h5
    rw [if_neg (by simp [hne])] at h1
    obtain ⟨id, s3, h7, h8⟩ := bind_ok.1 h1
    obtain ⟨b3, l3, d3, hd, hfind⟩ := globalId_ok' h7
    obtain ⟨b4, l4, v4⟩ := emitBytes_ok h8
    have esa : sa.bytecode.size = s.bytecode.size := by rw [ba, b0]
    have hsz1 := processCard_size_le h4
    have hb' : s'.bytecode = s1.bytecode.push op.setGlobalVar ++ (le32 (UInt32.ofNat id)).toArray := by
      rw [b4, b3, b2, b1]
    have hvr := (globalId_vr n).run _ _ _ h7
    have ql1 := val_ql ft L he h4 (hl.of_ql (l0.trans la))
    have hce := vcode_of_processCard B F J hF ft hJ L (by have := hl.len; omega) he h4 (hl.of_ql (l0.trans la))
      (by rw [la.jt, l0.jt]; exact hj)
      (by
        rw [esa]
        refine hag.sub (Nat.le_refl _) (by rw [hb']; simp) fun i _ hi => ?_
        rw [hb', Array.getElem?_append_left (by simp; omega), Array.getElem?_push_lt hi]; simp)
      (by
        obtain ⟨t, ht⟩ := vpre_back (vpre_eq hv v4.ids) hvr
        exact ⟨t, by rw [ht, v2.ids, v1.ids]⟩)
    obtain ⟨a1, a2, a3⟩ := agree_instr (a := s1.bytecode) hb' (hag.weaken (by omega))
    have hgid : gidOf F n = some id := by
      obtain ⟨t, ht⟩ := hv
      unfold gidOf
      rw [ht, v4.ids, find?_append_of_some hfind]
      rfl
    have hlt : id < 4294967296 := by
      unfold gidOf at hgid
      rcases hf : List.find? (fun p => p.fst == Vm.hName n) F with _ | ⟨x⟩
      · rw [hf] at hgid; cases hgid
      · rw [hf] at hgid
        simp only [Option.map_some, Option.some.injEq] at hgid
        have := hF x (List.mem_of_find?_eq_some hf)
        omega
    have hl1 : LInv s1 L := (hl.of_ql (l0.trans la)).of_ql ql1
    refine ⟨hl1.of_ql (((l1.trans l2).trans l3).trans l4), ?_⟩
    simp only [SCodeS]
    rw [esa] at hce
    refine ⟨_, id, hce, a1, hgid, ?_, ?_⟩
    · exact rdU32_patched hlt (fun j hj => a2 j (by rw [le32_length]; exact hj))
    · rw [a3, le32_length]
  | .setVar n e => by
    intro hc s s' h hl hd hsd hj hag hv
    simp only [isStmtS, Bool.and_eq_true] at hc
    obtain ⟨⟨hn, hsome⟩, he⟩ := hc
    obtain ⟨m, k1, k2, k3, k4, k5⟩ := setVar_specV B F hB hF (VCode B F J L e)
      (fun sa' s1' h' hl' => val_ql ft L he h' hl')
      (fun sa' s1' h' hl' hj' hag' hv' => vcode_of_processCard B F J hF ft hJ L (by have := hl.len; omega) he h' hl'
        (by rw [hj']; exact hj) hag' hv') hn h hl hag hv
    rcases hli : lidx L n with _ | i
    · rw [hli] at hsome; cases hsome
    · rw [hli] at k5
      exact ⟨k5.2, by simp only [SCodeS]; exact ⟨m, i, hli, k1, k2, k5.1, k3⟩⟩
  | .bin .ifTrue c b => by
    intro hc s s' h hl hd hsd hj hag hv
    simp only [isStmtS, Bool.and_eq_true] at hc
    simp only [processCard] at h
    obtain ⟨_, s0, h0, h1⟩ := bind_ok.1 h
    obtain ⟨b0, l0, v0⟩ := cardLabel_ok' h0
    have := ifCodeL_spec B F hB hF (SCodeS B F J d L b) (fun s s' h hl hsd' hj' => scodeS_of_processCard d L b hc.2 s s' h hl (by unfold curDepth at hd ⊢; rw [hsd', l0.depth]; exact hd) (by rw [hsd', l0.depth]; exact hsd) hj') hc.1
      (show ifCode op.gotoIfFalse (processCard c) (processCard b) s0 = .ok ((), s') from h1)
      (hl.of_ql l0) rfl (by rw [l0.jt]; exact hj) (by rw [b0]; exact hag) hv
    rw [b0] at this
    obtain ⟨hl', m, q1, q2, q3, q4⟩ := this
    exact ⟨hl', by simp only [SCodeS]; exact ⟨m, q1, q2, q3, q4⟩⟩
  | .bin .ifFalse c b => by
    intro hc s s' h hl hd hsd hj hag hv
    simp only [isStmtS, Bool.and_eq_true] at hc
    simp only [processCard] at h
    obtain ⟨_, s0, h0, h1⟩ := bind_ok.1 h
    obtain ⟨b0, l0, v0⟩ := cardLabel_ok' h0
    have := ifCodeL_spec B F hB hF (SCodeS B F J d L b) (fun s s' h hl hsd' hj' => scodeS_of_processCard d L b hc.2 s s' h hl (by unfold curDepth at hd ⊢; rw [hsd', l0.depth]; exact hd) (by rw [hsd', l0.depth]; exact hsd) hj') hc.1
      (show ifCode op.gotoIfTrue (processCard c) (processCard b) s0 = .ok ((), s') from h1)
      (hl.of_ql l0) rfl (by rw [l0.jt]; exact hj) (by rw [b0]; exact hag) hv
    rw [b0] at this
    obtain ⟨hl', m, q1, q2, q3, q4⟩ := this
    exact ⟨hl', by simp only [SCodeS]; exact ⟨m, q1, q2, q3, q4⟩⟩
  | .bin .while c (.composite ty cs) => by
    intro hc s s' h hl hd hsd hj hag hv
    simp only [isStmtS, Bool.and_eq_true] at hc
    simp only [processCard] at h
    obtain ⟨_, s0, h0, h1⟩ := bind_ok.1 h
    obtain ⟨b0, l0, v0⟩ := cardLabel_ok' h0
    obtain ⟨new, hnew1, hnew2⟩ := blockCtx_ext (d + 1) cs L
    have := whileCodeS_spec B F hB hF (L := L) (new := new) (d := d) (BCodes B F J (d + 1) L cs) hnew2
      (fun s1 s1' h' hl' hd' hsd' hj' hag' hv' => by
        have h'' : (cardLabel >>= fun _ => compileSubexprFrom 0 cs) s1 = .ok ((), s1') := h'
        obtain ⟨_, s2, h2, h3⟩ := bind_ok.1 h''
        obtain ⟨b2, l2, v2⟩ := cardLabel_ok' h2
        have := bcodes_of_compileSubexprFrom (d + 1) cs L hc.2 0 s2 s1' h3 (hl'.of_ql l2)
          (by unfold curDepth at hd' ⊢; rw [l2.depth]; exact hd') (by rw [l2.depth]; exact hsd')
          (by rw [l2.jt]; exact hj') (by rw [b2]; exact hag') hv'
        rw [b2, hnew1] at this
        exact this)
      hc.1
      (show whileCode (processCard c) (processCard (.composite ty cs)) s0 = .ok ((), s') from h1)
      (hl.of_ql l0) (by unfold curDepth at hd ⊢; rw [l0.depth]; exact hd) (by rw [l0.depth]; exact hsd)
      (by rw [l0.jt]; exact hj) (by rw [b0]; exact hag) hv
    rw [b0] at this
    obtain ⟨hl', m1, m2, q1, q2, q3, q4, q5, q6, q7, q8⟩ := this
    have hk : (blockCtx (d + 1) L cs).length - L.length = new.length := by rw [hnew1]; simp
    refine ⟨hl', ?_⟩
    simp only [SCodeS, hk]
    exact ⟨m1, m2, q1, q2, q3, q4, q5, q6, q7, q8⟩
  | .tri .ifElse c t e => by
    intro hc s s' h hl hd hsd hj hag hv
    simp only [isStmtS, Bool.and_eq_true] at hc
    simp only [processCard] at h
    obtain ⟨_, s0, h0, h1⟩ := bind_ok.1 h
    obtain ⟨b0, l0, v0⟩ := cardLabel_ok' h0
    have := ifElseCodeL_spec B F hB hF (SCodeS B F J d L t) (SCodeS B F J d L e)
      (fun s s' h hl hsd' hj' => scodeS_of_processCard d L t hc.1.2 s s' h hl (by unfold curDepth at hd ⊢; rw [hsd', l0.depth]; exact hd) (by rw [hsd', l0.depth]; exact hsd) hj')
      (fun s s' h hl hsd' hj' => scodeS_of_processCard d L e hc.2 s s' h hl (by unfold curDepth at hd ⊢; rw [hsd', l0.depth]; exact hd) (by rw [hsd', l0.depth]; exact hsd) hj') hc.1.1
      (show ifElseCode (processCard c) (processCard t) (processCard e) s0 = .ok ((), s') from h1)
      (hl.of_ql l0) rfl (by rw [l0.jt]; exact hj) (by rw [b0]; exact hag) hv
    rw [b0] at this
    obtain ⟨hl', m1, m2, q1, q2, q3, q4, q5, q6, q7⟩ := this
    exact ⟨hl', by simp only [SCodeS]; exact ⟨m1, m2, q1, q2, q3, q4, q5, q6, q7⟩⟩
  | .bin .while _ (.bin _ _ _) | .bin .while _ (.un _ _) | .bin .while _ (.tri _ _ _ _) | .bin .while _ .scalarNil
  | .bin .while _ .createTable | .bin .while _ .abort | .bin .while _ (.scalarInt _) | .bin .while _ (.scalarFloat _)
  | .bin .while _ (.stringLiteral _) | .bin .while _ (.comment _) | .bin .while _ (.function _)
  | .bin .while _ (.nativeFunction _) | .bin .while _ (.readVar _) | .bin .while _ (.setVar _ _)
  | .bin .while _ (.setGlobalVar _ _) | .bin .while _ (.callNative _ _) | .bin .while _ (.call _ _)
  | .bin .while _ (.repeat _ _ _) | .bin .while _ (.forEach _ _ _ _ _) | .bin .while _ (.dynamicCall _ _)
  | .bin .while _ (.array _) | .bin .while _ (.closure _ _)
  | .bin .add _ _ | .bin .sub _ _ | .bin .mul _ _ | .bin .div _ _ | .bin .less _ _ | .bin .lessOrEq _ _
  | .bin .equals _ _ | .bin .notEquals _ _ | .bin .and _ _ | .bin .or _ _ | .bin .xor _ _
  | .bin .getProperty _ _ | .bin .get _ _ | .bin .appendTable _ _
  | .un .not _ | .un .len _ | .un .popTable _ | .tri .setProperty _ _ _ | .scalarNil | .createTable | .abort | .scalarInt _ | .scalarFloat _
  | .stringLiteral _ | .function _ | .nativeFunction _ | .readVar _ | .callNative _ _
  | .call _ _ | .forEach _ _ _ _ _ | .dynamicCall _ _ | .array _ | .closure _ _
  | .repeat _ _ (.bin _ _ _) | .repeat _ _ (.un _ _) | .repeat _ _ (.tri _ _ _ _) | .repeat _ _ .scalarNil
  | .repeat _ _ .createTable | .repeat _ _ .abort | .repeat _ _ (.scalarInt _) | .repeat _ _ (.scalarFloat _)
  | .repeat _ _ (.stringLiteral _) | .repeat _ _ (.comment _) | .repeat _ _ (.function _)
  | .repeat _ _ (.nativeFunction _) | .repeat _ _ (.readVar _) | .repeat _ _ (.setVar _ _)
  | .repeat _ _ (.setGlobalVar _ _) | .repeat _ _ (.callNative _ _) | .repeat _ _ (.call _ _)
  | .repeat _ _ (.repeat _ _ _) | .repeat _ _ (.forEach _ _ _ _ _) | .repeat _ _ (.dynamicCall _ _)
  | .repeat _ _ (.array _) | .repeat _ _ (.closure _ _) => by
    intro hc
    simp [isStmtS] at hc
  | .un .ret e => by
    intro hc s s' h hl hd hsd hj hag hv
    simp only [isStmtS, Bool.and_eq_true] at hc
    obtain ⟨_, he⟩ := hc
    simp only [processCard] at h
    obtain ⟨_, s0, h0, h1⟩ := bind_ok.1 h
    obtain ⟨b0, l0, v0⟩ := cardLabel_ok' h0
    unfold unCode at h1
    obtain ⟨_, s1', h2, h3⟩ := bind_ok.1 h1
    obtain ⟨sa, s1, h4, ba, la, va, b1, l1, v1⟩ := withSub_ok' h2
    obtain ⟨b3, l3, v3⟩ := pushInstr_ok h3
    have esa : sa.bytecode.size = s.bytecode.size := by rw [ba, b0]
    have hsz1 := processCard_size_le h4
    have hb' : s'.bytecode = s1.bytecode.push op.ret := by rw [b3, b1]; rfl
    have hla : LInv sa L := hl.of_ql (l0.trans la)
    have ql1 := val_ql ft L he h4 hla
    have hce := vcode_of_processCard B F J hF ft hJ L (by have := hl.len; omega) he h4 hla
      (by rw [la.jt, l0.jt]; exact hj)
      (by
        rw [esa]
        refine hag.sub (Nat.le_refl _) (by rw [hb']; simp) fun i _ hi => ?_
        rw [hb', Array.getElem?_push_lt hi]; simp)
      (vpre_eq (vpre_eq hv v3.ids) v1.ids)
    obtain ⟨a1, a3⟩ := agree_op hb' hag (by omega)
    refine ⟨(hla.of_ql ql1).of_ql (l1.trans l3), ?_⟩
    simp only [SCodeS]
    rw [esa] at hce
    exact ⟨_, hce, a1, a3⟩
  | .repeat i n (.composite ty cs) => by
    intro hc s s' h hl hd hsd hj hag hv
    exact hrepX d L i n ty cs
      (fun L' k s1 s1' hb h1 hl1 hd1 hsd1 hj1 hag1 hv1 =>
        bcodes_of_compileSubexprFrom (d + 2) cs L' hb k s1 s1' h1 hl1 hd1 hsd1 hj1 hag1 hv1)
      hc s s' h hl hd hsd hj hag hv

theorem scodesS_of_compileSubexprFrom (d : Int) (L : LCtx) :
    ∀ (cs : List Card), isStmtsS ft d L cs = true → ∀ (i : Nat) (s s' : CState),
      compileSubexprFrom i cs s = .ok ((), s') → LInv s L → curDepth s = d → s.scopeDepth ≠ [] → s.jumpTable = J →
      AgreeFrom B s' s.bytecode.size → (∃ t, F = s'.varIds ++ t) →
      LInv s' L ∧ SCodesS B F J d L cs s.bytecode.size s'.bytecode.size
  | [] => by
    intro _ i s s' h hl _ _ _ _ _
    simp only [compileSubexprFrom, pure_run, Except.ok.injEq, Prod.mk.injEq, true_and] at h
    subst h
    exact ⟨hl, by simp only [SCodesS]⟩
  | c :: cs => by
    intro hc i s s' h hl hd hsd hj hag hv
    simp only [isStmtsS, Bool.and_eq_true] at hc
    simp only [compileSubexprFrom] at h
    obtain ⟨_, s1', h2, h3⟩ := bind_ok.1 h
    obtain ⟨sa, s1, h4, ba, la, va, b1, l1, v1⟩ := withSub_ok' h2
    have esa : sa.bytecode.size = s.bytecode.size := by rw [ba]
    have hsz1 := processCard_size_le h4
    have hext := ((compileSubexprFrom_mono (k := s1'.bytecode.size) (i + 1) cs).run _ _ _ h3 (Nat.le_refl _)).1
    have hvr := (compileSubexprFrom_vr (i + 1) cs).run _ _ _ h3
    have hbal := processCard_balanced (c := c) (s := sa) (s' := s1) h4 (hl.of_ql la).locals_ne
    obtain ⟨hl1, hcc⟩ := scodeS_of_processCard d L c hc.1 sa s1 h4 (hl.of_ql la)
      (by unfold curDepth at hd ⊢; rw [la.depth]; exact hd) (by rw [la.depth]; exact hsd)
      (by rw [la.jt]; exact hj)
      (by
        rw [esa]
        refine hag.sub (Nat.le_refl _) (by rw [← b1]; exact hext.size_le) fun i _ hi => ?_
        rw [hext.pref i (by rw [b1]; exact hi), b1])
      (by
        obtain ⟨t, ht⟩ := vpre_back hv hvr
        exact ⟨t, by rw [ht, v1.ids]⟩)
    obtain ⟨hl2, hcs⟩ := scodesS_of_compileSubexprFrom d L cs hc.2 (i + 1) s1' s' h3 (hl1.of_ql l1)
      (by unfold curDepth at hd ⊢; rw [l1.depth, hbal.scopeDepth, la.depth]; exact hd)
      (by rw [l1.depth, hbal.scopeDepth, la.depth]; exact hsd)
      (by rw [l1.jt, (kp_run (processCard_kp c) h4).jt, la.jt]; exact hj)
      (by rw [b1]; exact hag.weaken (by omega)) hv
    refine ⟨hl2, ?_⟩
    simp only [SCodesS]
    rw [esa] at hcc
    rw [b1] at hcs
    exact ⟨_, hcc, hcs⟩
theorem bcodes_of_compileSubexprFrom (d : Int) :
    ∀ (cs : List Card) (L : LCtx), isBlock ft d L cs = true → ∀ (i : Nat) (s s' : CState),
      compileSubexprFrom i cs s = .ok ((), s') → LInv s L → curDepth s = d → s.scopeDepth ≠ [] → s.jumpTable = J →
      AgreeFrom B s' s.bytecode.size → (∃ t, F = s'.varIds ++ t) →
      LInv s' (blockCtx d L cs) ∧ BCodes B F J d L cs s.bytecode.size s'.bytecode.size
  | [], L => by
    intro _ i s s' h hl _ _ _ _ _
    simp only [compileSubexprFrom, pure_run, Except.ok.injEq, Prod.mk.injEq, true_and] at h
    subst h
    exact ⟨hl, by simp only [BCodes]⟩
  | c :: cs, L => by
    intro hc i s s' h hl hd hsd hj hag hv
    simp only [compileSubexprFrom] at h
    obtain ⟨_, s1', h2, h3⟩ := bind_ok.1 h
    obtain ⟨sa, s1, h4, ba, la, va, b1, l1, v1⟩ := withSub_ok' h2
    have esa : sa.bytecode.size = s.bytecode.size := by rw [ba]
    have hla : LInv sa L := hl.of_ql la
    have hda : curDepth sa = d := by unfold curDepth at hd ⊢; rw [la.depth]; exact hd
    have hsda : sa.scopeDepth ≠ [] := by rw [la.depth]; exact hsd
    have hja : sa.jumpTable = J := by rw [la.jt]; exact hj
    have hj1 : s1'.jumpTable = J := by rw [l1.jt, (kp_run (processCard_kp c) h4).jt]; exact hja
    have hsz1 := processCard_size_le h4
    have hext := ((compileSubexprFrom_mono (k := s1'.bytecode.size) (i + 1) cs).run _ _ _ h3 (Nat.le_refl _)).1
    have hvr := (compileSubexprFrom_vr (i + 1) cs).run _ _ _ h3
    have hag1 : AgreeFrom B s1 sa.bytecode.size := by
      rw [esa]
      refine hag.sub (Nat.le_refl _) (by rw [← b1]; exact hext.size_le) fun i _ hi => ?_
      rw [hext.pref i (by rw [b1]; exact hi), b1]
    have hv1 : ∃ t, F = s1.varIds ++ t := by
      obtain ⟨t, ht⟩ := vpre_back hv hvr
      exact ⟨t, by rw [ht, v1.ids]⟩
    have hbal := processCard_balanced (c := c) (s := sa) (s' := s1) h4 hla.locals_ne
    have hd1 : curDepth s1' = d := by unfold curDepth at hda ⊢; rw [l1.depth, hbal.scopeDepth]; exact hda
    have hsd1 : s1'.scopeDepth ≠ [] := by rw [l1.depth, hbal.scopeDepth]; exact hsda
    simp only [isBlock] at hc
    simp only [blockCtx, BCodes]
    rcases hdecl : declOf L c with _ | ⟨n, e⟩
    · simp only [hdecl, Bool.and_eq_true] at hc ⊢
      obtain ⟨hl1, hcc⟩ := scodeS_of_processCard d L c hc.1 sa s1 h4 hla hda hsda hja hag1 hv1
      obtain ⟨hl2, hcs⟩ := bcodes_of_compileSubexprFrom d cs L hc.2 (i + 1) s1' s' h3 (hl1.of_ql l1) hd1 hsd1 hj1
        (by rw [b1]; exact hag.weaken (by omega)) hv
      rw [esa] at hcc
      rw [b1] at hcs
      exact ⟨hl2, _, hcc, hcs⟩
    · simp only [hdecl, Bool.and_eq_true] at hc ⊢
      obtain ⟨rfl, hnone⟩ := declOf_some hdecl
      obtain ⟨m, k1, k2, k3, k4, k5⟩ := setVar_specV B F hB hF (VCode B F J L e)
        (fun sa' s1' h' hl' => val_ql ft L hc.1.2 h' hl')
        (fun sa' s1' h' hl' hj' hag' hv' => vcode_of_processCard B F J hF ft hJ L (by have := hla.len; omega) hc.1.2 h' hl'
          (by rw [hj']; exact hja) hag' hv') hc.1.1 h4 hla hag1 hv1
      rw [hnone] at k5
      simp only at k5
      rw [hda] at k5
      obtain ⟨hl2, hcs⟩ := bcodes_of_compileSubexprFrom d cs (L ++ [(n, d)]) hc.2 (i + 1) s1' s' h3
        (k5.2.of_ql l1) hd1 hsd1 hj1 (by rw [b1]; exact hag.weaken (by omega)) hv
      rw [esa] at k1
      rw [b1, k3] at hcs
      exact ⟨hl2, m, k1, k2, k5.1, hcs⟩
end

end
end Cao.Compiler

namespace Cao.Compiler
open Cao Cao.Sim

section
variable (B : Array UInt8) (F : List (UInt32 × Nat)) (J : JumpTable) (hB : B.size < 4294967296)
  (hF : ∀ p ∈ F, p.2 < 4294967296) (ft : Feat) (hrepX : RepX B F J ft)
  (hJ : ∀ g fd, ft.lookup g = some fd → ∃ r, look J g = some r)
include hB hF hrepX hJ

theorem bcodes_of_processFunctionCards (d : Int) :
    ∀ (cs : List Card) (L : LCtx), isBlock ft d L cs = true → ∀ (i : Nat) (s s' : CState),
      processFunctionCards i cs s = .ok ((), s') → LInv s L → curDepth s = d → s.scopeDepth ≠ [] → s.jumpTable = J →
      AgreeFrom B s' s.bytecode.size → (∃ t, F = s'.varIds ++ t) →
      LInv s' (blockCtx d L cs) ∧ s'.scopeDepth = s.scopeDepth ∧ BCodes B F J d L cs s.bytecode.size s'.bytecode.size
  | [], L => by
    intro _ i s s' h hl hd _ _ _ _
    simp only [processFunctionCards, pure_run, Except.ok.injEq, Prod.mk.injEq, true_and] at h
    subst h
    exact ⟨hl, rfl, by simp only [BCodes]⟩
  | c :: cs, L => by
    intro hc i s s' h hl hd hsd hj hag hv
    simp only [processFunctionCards] at h
    obtain ⟨_, sa, h1, h⟩ := bind_ok.1 h
    obtain ⟨ba, la, va⟩ := popSub_ok h1
    obtain ⟨_, sb, h2, h⟩ := bind_ok.1 h
    obtain ⟨bb, lb, vb⟩ := pushSub_ok h2
    obtain ⟨_, s1, h4, h3⟩ := bind_ok.1 h
    have esb : sb.bytecode.size = s.bytecode.size := by rw [bb, ba]
    have hlb : LInv sb L := hl.of_ql (la.trans lb)
    have hdb : curDepth sb = d := by unfold curDepth at hd ⊢; rw [lb.depth, la.depth]; exact hd
    have hsz1 := processCard_size_le h4
    have hext := ((processFunctionCards_mono (k := s1.bytecode.size) (i + 1) cs).run _ _ _ h3 (Nat.le_refl _)).1
    have hvr := (processFunctionCards_vr (i + 1) cs).run _ _ _ h3
    have hag1 : AgreeFrom B s1 sb.bytecode.size := by
      rw [esb]
      exact hag.sub (Nat.le_refl _) hext.size_le fun i _ hi => hext.pref i hi
    have hbal := processCard_balanced (c := c) (s := sb) (s' := s1) h4 hlb.locals_ne
    have hd1 : curDepth s1 = d := by unfold curDepth at hdb ⊢; rw [hbal.scopeDepth]; exact hdb
    have hsdb : sb.scopeDepth ≠ [] := by rw [lb.depth, la.depth]; exact hsd
    have hsd1 : s1.scopeDepth ≠ [] := by rw [hbal.scopeDepth]; exact hsdb
    have hjb : sb.jumpTable = J := by rw [lb.jt, la.jt]; exact hj
    have hj1 : s1.jumpTable = J := by rw [(kp_run (processCard_kp c) h4).jt]; exact hjb
    simp only [isBlock] at hc
    simp only [blockCtx, BCodes]
    rcases hdecl : declOf L c with _ | ⟨n, e⟩
    · simp only [hdecl, Bool.and_eq_true] at hc ⊢
      obtain ⟨hl1, hcc⟩ := scodeS_of_processCard B F J hB hF ft hrepX hJ d L c hc.1 sb s1 h4 hlb hdb hsdb hjb hag1 (vpre_back hv hvr)
      obtain ⟨hl2, hd2, hcs⟩ := bcodes_of_processFunctionCards d cs L hc.2 (i + 1) s1 s' h3 hl1 hd1 hsd1 hj1
        (hag.weaken (by omega)) hv
      rw [esb] at hcc
      exact ⟨hl2, by rw [hd2, hbal.scopeDepth, lb.depth, la.depth], _, hcc, hcs⟩
    · simp only [hdecl, Bool.and_eq_true] at hc ⊢
      obtain ⟨rfl, hnone⟩ := declOf_some hdecl
      obtain ⟨m, k1, k2, k3, k4, k5⟩ := setVar_specV B F hB hF (VCode B F J L e)
        (fun sa' s1' h' hl' => val_ql ft L hc.1.2 h' hl')
        (fun sa' s1' h' hl' hj' hag' hv' => vcode_of_processCard B F J hF ft hJ L (by have := hlb.len; omega) hc.1.2 h' hl'
          (by rw [hj']; exact hjb) hag' hv') hc.1.1 h4 hlb hag1 (vpre_back hv hvr)
      rw [hnone] at k5
      simp only at k5
      rw [hdb] at k5
      obtain ⟨hl2, hd2, hcs⟩ := bcodes_of_processFunctionCards d cs (L ++ [(n, d)]) hc.2 (i + 1) s1 s' h3 k5.2 hd1 hsd1 hj1
        (hag.weaken (by omega)) hv
      rw [esb] at k1
      rw [k3] at hcs
      exact ⟨hl2, by rw [hd2, hbal.scopeDepth, lb.depth, la.depth], m, k1, k2, k5.1, hcs⟩

end

theorem compileUnit_mainS {ft : Feat} (hrepX : RepXAll ft) {unit : Array FunctionIr} {sf : CState}
    (h : compileUnit unit {} = .ok ((), sf))
    (hJ : ∀ g fd, ft.lookup g = some fd → ∃ r, look (jumpTableOf unit.toList) g = some r)
    (hargs : unit[0]!.arguments = []) (hst : isBlock ft 1 [] unit[0]!.cards = true)
    (hB : sf.bytecode.size < 4294967296) (hV : sf.varIds.length < 4294967296) :
    ∃ mainEnd, BCodes sf.bytecode sf.varIds (jumpTableOf unit.toList) 1 [] unit[0]!.cards 0 mainEnd ∧
      (∀ j, j < (blockCtx 1 [] unit[0]!.cards).length → sf.bytecode.getD (mainEnd + j) 0 = op.pop) ∧
      sf.bytecode.getD (mainEnd + (blockCtx 1 [] unit[0]!.cards).length) 0 = op.exit ∧
      mainEnd + (blockCtx 1 [] unit[0]!.cards).length < sf.bytecode.size ∧ VInv sf := by
  have hinv : VInv sf := ((compileUnit_vr unit).run _ _ _ h).inv ⟨rfl, fun p hp => (by cases hp), List.Pairwise.nil⟩
  have hF : ∀ p ∈ sf.varIds, p.2 < 4294967296 := fun p hp => by
    have := hinv.lt p hp; rw [hinv.len] at this; omega
  unfold compileUnit at h
  split at h
  · obtain ⟨_, _, h1, _⟩ := bind_ok.1 h
    simp at h1
  · obtain ⟨_, s1, h1, h⟩ := bind_ok.1 h
    have e1 := addFunctions_okS _ h1
    have ej1 : s1.jumpTable = jumpTableOf unit.toList := by
      have := ((addFunctions_ok _ _ _).1 h1).2.2
      rw [this]; simp
    obtain ⟨_, s2, h2, h⟩ := bind_ok.1 h
    simp only [modify_run, Except.ok.injEq, Prod.mk.injEq, true_and] at h2
    obtain ⟨_, s3, h3, h⟩ := bind_ok.1 h
    unfold scopeBegin at h3
    simp only [modify_run, Except.ok.injEq, Prod.mk.injEq, true_and] at h3
    obtain ⟨_, s5, h5, h⟩ := bind_ok.1 h
    unfold processFunction at h5
    obtain ⟨_, s4, h4, h5⟩ := bind_ok.1 h5
    simp only [modify_run, Except.ok.injEq, Prod.mk.injEq, true_and] at h4
    rw [hargs] at h5
    simp only [List.reverse_nil, addLocals, pure_bind] at h5
    obtain ⟨_, s6, h6, h⟩ := bind_ok.1 h
    simp only [modify_run, Except.ok.injEq, Prod.mk.injEq, true_and] at h6
    obtain ⟨_, s7, h7, h⟩ := bind_ok.1 h
    obtain ⟨_, s8, h8, h⟩ := bind_ok.1 h
    obtain ⟨_, s9, h9, h⟩ := bind_ok.1 h
    obtain ⟨_, s10, h10, h11⟩ := bind_ok.1 h
    simp only [modify_run, Except.ok.injEq, Prod.mk.injEq, true_and] at h10
    -- the state in which the cards of `main` are compiled
    have hb4 : s4.bytecode = #[] := by rw [← h4, ← h3, ← h2, e1]
    have hsd4 : s4.scopeDepth = [1] := by rw [← h4, ← h3, ← h2, e1]; rfl
    have hl4 : LInv s4 [] := by
      refine ⟨?_, ?_, fun p hp => (by cases hp), by simp⟩
      · rw [← h4, ← h3, ← h2, e1]
      · rw [← h4, ← h3, ← h2, e1]; rfl
    -- what follows only appends
    have x6 : Ext s5.bytecode.size s5 s6 := Ext.of_eq (by rw [← h6]) (by rw [← h6])
    have x7 := ((scopeEnd_mono (k := s5.bytecode.size)).run _ _ _ h7 x6.size_le).1
    have x8 := ((processCard_mono (k := s7.bytecode.size) .abort).run _ _ _ h8 (Nat.le_refl _)).1
    have x9 := ((compileFunctions_mono (k := s8.bytecode.size) _).run _ _ _ h9 (Nat.le_refl _)).1
    have x10 : Ext s8.bytecode.size s9 s10 := Ext.of_eq (by rw [← h10]) (by rw [← h10])
    have x11 := ((pushInstr_mono (k := s8.bytecode.size) op.exit).run _ _ _ h11
      (Nat.le_trans x9.size_le x10.size_le)).1
    have x8f : Ext s8.bytecode.size s8 sf := (x9.trans x10).trans x11
    have x7f : Ext s7.bytecode.size s7 sf := x8.trans (x8f.weaken x8.size_le)
    have x5f : Ext s5.bytecode.size s5 sf := (x6.trans x7).trans (x7f.weaken (Nat.le_trans x6.size_le x7.size_le))
    have v6 : VExt s5 s6 := VExt.of_eq (by rw [← h6]) (by rw [← h6]) (by rw [← h6])
    have v10 : VExt s9 s10 := VExt.of_eq (by rw [← h10]) (by rw [← h10]) (by rw [← h10])
    have v5f : VExt s5 sf :=
      ((((v6.trans (scopeEnd_vr.run _ _ _ h7)).trans ((processCard_vr .abort).run _ _ _ h8)).trans
        ((compileFunctions_vr _).run _ _ _ h9)).trans v10).trans ((pushInstr_vr _).run _ _ _ h11)
    obtain ⟨t, ht⟩ := v5f.ids
    have hj4 : s4.jumpTable = jumpTableOf unit.toList := by rw [← h4, ← h3, ← h2]; exact ej1
    obtain ⟨hl5, hd5, hcs⟩ := bcodes_of_processFunctionCards sf.bytecode sf.varIds (jumpTableOf unit.toList) hB hF ft
      (hrepX _ _ _ hB hF) hJ 1 _ [] hst 0 s4 s5 h5 hl4
      (by unfold curDepth; rw [hsd4]; rfl) (by rw [hsd4]; exact List.cons_ne_nil _ _) hj4
      ⟨x5f.size_le, fun i _ hi => x5f.pref i hi⟩ ⟨t, ht⟩
    rw [hb4] at hcs
    -- the `Pop`s of the locals and the `Exit` after the cards of `main`
    have hsd6 : s6.scopeDepth = [1] := by rw [← h6, hd5, hsd4]
    have hdepths : ∀ L cs, (∀ p ∈ L, p.2 = (1 : Int)) → ∀ p ∈ blockCtx 1 L cs, p.2 = (1 : Int) := by
      intro L cs
      induction cs generalizing L with
      | nil => intro hL; exact hL
      | cons c cs ih =>
        intro hL
        simp only [blockCtx]
        rcases declOf L c with _ | ⟨n, e⟩
        · exact ih L hL
        · refine ih _ fun p hp => ?_
          rcases List.mem_append.1 hp with hp | hp
          · exact hL p hp
          · simp only [List.mem_singleton] at hp; rw [hp]
    obtain ⟨b7, _⟩ := scopeEnd_pops (L := blockCtx 1 [] unit[0]!.cards) (s := s6)
      (by rw [← h6]; exact hl5.fid) (by rw [← h6]; exact hl5.locals)
      (fun p hp => by
        rw [hsd6, hdepths [] _ (fun p hp => by cases hp) p hp]
        decide) h7
    simp only [processCard] at h8
    obtain ⟨_, s7', h8a, h8b⟩ := bind_ok.1 h8
    obtain ⟨b8a, _, _⟩ := cardLabel_ok' h8a
    obtain ⟨b8b, _, _⟩ := pushInstr_ok h8b
    have e7 : s7.bytecode = s5.bytecode ++ (List.replicate (blockCtx 1 [] unit[0]!.cards).length op.pop).toArray := by
      rw [b7, ← h6]
    have hsz7 : s7.bytecode.size = s5.bytecode.size + (blockCtx 1 [] unit[0]!.cards).length := by
      rw [e7]; simp
    have e8 : s8.bytecode = s7.bytecode.push op.exit := by rw [b8b, b8a]
    have hsz8 : s8.bytecode.size = s7.bytecode.size + 1 := by rw [e8]; simp
    refine ⟨s5.bytecode.size, by simpa using hcs, fun j hj => ?_, ?_, by have := x8f.size_le; omega, hinv⟩
    · rw [getD_congr (x7f.pref (s5.bytecode.size + j) (by omega)), e7]
      simp [Array.getD_eq_getD_getElem?, hj]
    · rw [← hsz7, getD_congr (x8f.pref s7.bytecode.size (by omega)), e8]
      simp [Array.getD_eq_getD_getElem?]


/-- the layout of a compiled program whose `main` uses locals: the code of the cards of `main` from
    address 0, one `Pop` per local, then `Exit` -/
theorem compile_mainS {ft : Feat} (hrepX : RepXAll ft) (hfns : ft.fns = []) {m std : Module} {limit : Nat} {p : Program}
    (h : compile m std limit = .ok p)
    {i : Nat} {nf : String × Func}
    (hi : m.functions.findIdx? (fun p => p.1 == "main") = some i) (hf : m.functions[i]? = some nf)
    (hargs : nf.2.arguments = []) (hst : isBlock ft 1 [] nf.2.cards = true)
    (hB : p.bytecode.size < 4294967296) (hV : p.varIds.length < 4294967296) :
    ∃ J mainEnd, BCodes p.bytecode p.varIds J 1 [] nf.2.cards 0 mainEnd ∧
      (∀ j, j < (blockCtx 1 [] nf.2.cards).length → p.bytecode.getD (mainEnd + j) 0 = op.pop) ∧
      p.bytecode.getD (mainEnd + (blockCtx 1 [] nf.2.cards).length) 0 = op.exit ∧
      mainEnd + (blockCtx 1 [] nf.2.cards).length < p.bytecode.size ∧
      (∀ a b, a ∈ p.varIds → b ∈ p.varIds → a.2 = b.2 → a = b) := by
  unfold compile at h
  split at h
  · cases h
  · rename_i unit hunit
    split at h
    · cases h
    · rename_i s hs
      simp only [Except.ok.injEq] at h
      subst h
      obtain ⟨e1, e2⟩ := intoIrStream_main hunit hi hf
      obtain ⟨mainEnd, c1, c2, c3, c4, c5⟩ := compileUnit_mainS hrepX (unit := unit) (sf := s) hs
        (fun g fd hl => by simp [Feat.lookup, hfns] at hl) (by rw [e1, hargs])
        (by rw [e2, hst]) hB hV
      rw [e2] at c1 c2 c3 c4
      exact ⟨_, mainEnd, c1, c2, c3, c4, pairwise_inj (f := fun (p : UInt32 × Nat) => p.2) c5.inj⟩


end Cao.Compiler
