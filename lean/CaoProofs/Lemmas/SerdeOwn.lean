import CaoProofs.Props.C05
/-!
# `own` / `ownD`: the deep value of a runtime value — theory

`Owns h v o`: unfolding the heap graph below `v` succeeds (with some fuel) and yields the tree `o`.

* `Owns.functional`, fuel monotonicity;
* `Owns.table_intro` / `table_elim`: the table case as a pointwise relation (`All2`);
* `Owns.mono_heap`, `Owns.congr_heap`, `Owns.keep`: heap extension / preservation;
* `Owns.ownD`: **the default fuel of `ownD` (`number of objects + 1`) always suffices** — a value
  that unfolds at all is acyclic, and an acyclic path visits every allocated address at most once.
-/
namespace Cao.Serde
open Cao Cao.Vm

/-! ## pointwise relation of two lists (core has no `Forall₂`) -/

inductive All2 {α β : Type} (R : α → β → Prop) : List α → List β → Prop
  | nil : All2 R [] []
  | cons {a : α} {b : β} {l : List α} {r : List β} : R a b → All2 R l r → All2 R (a :: l) (b :: r)

namespace All2
variable {α β : Type} {R S : α → β → Prop}

theorem imp (h : ∀ a b, R a b → S a b) : ∀ {l r}, All2 R l r → All2 S l r
  | _, _, .nil => .nil
  | _, _, .cons h1 h2 => .cons (h _ _ h1) (imp h h2)

theorem imp_mem : ∀ {l r}, All2 R l r → (∀ a ∈ l, ∀ b, R a b → S a b) → All2 S l r
  | _, _, .nil, _ => .nil
  | _, _, .cons h1 h2, h =>
    .cons (h _ List.mem_cons_self _ h1) (imp_mem h2 (fun a ha => h a (List.mem_cons_of_mem _ ha)))

theorem length_eq : ∀ {l r}, All2 R l r → l.length = r.length
  | _, _, .nil => rfl
  | _, _, .cons _ h2 => by simp [length_eq h2]

theorem append : ∀ {l r l' r'}, All2 R l r → All2 R l' r' → All2 R (l ++ l') (r ++ r')
  | _, _, _, _, .nil, h => h
  | _, _, _, _, .cons h1 h2, h => .cons h1 (append h2 h)

theorem right_unique (hu : ∀ a b b', R a b → R a b' → b = b') :
    ∀ {l r r'}, All2 R l r → All2 R l r' → r = r'
  | _, _, _, .nil, .nil => rfl
  | _, _, _, .cons h1 h2, .cons h1' h2' => by rw [hu _ _ _ h1 h1', right_unique hu h2 h2']

theorem mem_left : ∀ {l r}, All2 R l r → ∀ a ∈ l, ∃ b ∈ r, R a b
  | _, _, .cons h1 h2, a, ha => by
    rcases List.mem_cons.mp ha with rfl | ha
    · exact ⟨_, List.mem_cons_self, h1⟩
    · obtain ⟨b, hb, hr⟩ := mem_left h2 a ha
      exact ⟨b, List.mem_cons_of_mem _ hb, hr⟩

theorem mem_right : ∀ {l r}, All2 R l r → ∀ b ∈ r, ∃ a ∈ l, R a b
  | _, _, .cons h1 h2, b, hb => by
    rcases List.mem_cons.mp hb with rfl | hb
    · exact ⟨_, List.mem_cons_self, h1⟩
    · obtain ⟨a, ha, hr⟩ := mem_right h2 b hb
      exact ⟨a, List.mem_cons_of_mem _ ha, hr⟩

end All2

theorem mapM_some_iff {α β : Type} (g : α → Option β) : ∀ (l : List α) (r : List β),
    l.mapM g = some r ↔ All2 (fun a b => g a = some b) l r := by
  intro l
  induction l with
  | nil =>
    intro r
    cases r with
    | nil => simp; exact .nil
    | cons b r => simp; intro h; cases h
  | cons a l ih =>
    intro r
    rw [List.mapM_cons]
    cases hg : g a with
    | none =>
      simp only [Option.bind_eq_bind, Option.bind_none, reduceCtorEq, false_iff]
      intro h; cases h with
      | cons h1 _ => rw [hg] at h1; cases h1
    | some b =>
      cases hm : l.mapM g with
      | none =>
        simp only [Option.bind_eq_bind, Option.bind_some, Option.bind_none, reduceCtorEq, false_iff]
        intro h
        cases h with
        | cons h1 h2 => rw [(ih _).mpr h2] at hm; cases hm
      | some bs =>
        simp only [Option.bind_eq_bind, Option.bind_some, Option.pure_def, Option.some.injEq]
        constructor
        · rintro rfl; exact .cons hg ((ih bs).mp hm)
        · intro h
          cases h with
          | cons h1 h2 =>
            rw [(ih _).mpr h2] at hm
            rw [hg] at h1
            cases hm; cases h1; rfl

/-! ## the equations of `own` -/

/-- an entry of a table unfolds to an entry of the deep table -/
def OwnsEntryF (h : Heap) (f : Nat) (e : Val × Val) (oe : OVal × OVal) : Prop :=
  own h f e.1 = some oe.1 ∧ own h f e.2 = some oe.2

theorem own_scalar (h : Heap) (f : Nat) :
    own h f .nil = some .nil ∧ (∀ i, own h f (.int i) = some (.int i)) ∧
    (∀ b, own h f (.real b) = some (.real b)) := by
  cases f <;> simp [own]

theorem own_zero_obj (h : Heap) (a : Nat) : own h 0 (.obj a) = none := by simp [own]

private theorem entry_fn_iff (h : Heap) (f : Nat) (e : Val × Val) (oe : OVal × OVal) :
    ((fun (x : Val × Val) => match x with
      | (k, v) => do
        let k' ← own h f k
        let v' ← own h f v
        pure (k', v')) e = some oe) ↔ OwnsEntryF h f e oe := by
  obtain ⟨k, v⟩ := e
  obtain ⟨ok, ov⟩ := oe
  simp only [OwnsEntryF]
  cases own h f k with
  | none => simp
  | some k' =>
    cases own h f v with
    | none => simp
    | some v' => simp

theorem own_table {h : Heap} {a cap : Nat} {es : List (Val × Val)} (hg : h.get a = some (.table cap es))
    (f : Nat) (o : OVal) :
    own h (f+1) (.obj a) = some o ↔ ∃ oes, o = .table oes ∧ All2 (OwnsEntryF h f) es oes := by
  rw [own, hg]
  simp only [Option.map_eq_some_iff]
  constructor
  · rintro ⟨oes, hm, rfl⟩
    refine ⟨oes, rfl, ?_⟩
    exact ((mapM_some_iff _ _ _).mp hm).imp (fun e oe he => (entry_fn_iff h f e oe).mp he)
  · rintro ⟨oes, rfl, hall⟩
    refine ⟨oes, ?_, rfl⟩
    exact (mapM_some_iff _ _ _).mpr (hall.imp (fun e oe he => (entry_fn_iff h f e oe).mpr he))

theorem own_str {h : Heap} {a : Nat} {b : List UInt8} (hg : h.get a = some (.str b)) (f : Nat) :
    own h (f+1) (.obj a) = some (.str b) := by
  rw [own, hg]

theorem own_none {h : Heap} {a : Nat} (hg : h.get a = none) (f : Nat) :
    own h f (.obj a) = none := by
  cases f with
  | zero => exact own_zero_obj h a
  | succ f => rw [own, hg]

/-- `own` at an object that is not a table -/
def ownNT : Obj → Option OVal
  | .str b => some (.str b)
  | .fn hd ar => some (.fn hd ar)
  | .native hd => some (.native hd)
  | .closure hd ar _ => some (.closure hd ar)
  | .upvalue _ => none
  | .table _ _ => none

/-- the shape of `own` at an object that is not a table: independent of the fuel and of the rest
    of the heap -/
theorem own_nontable {h : Heap} {a : Nat} {ob : Obj} (hg : h.get a = some ob)
    (hnt : ∀ cap es, ob ≠ .table cap es) (f : Nat) :
    own h (f+1) (.obj a) = ownNT ob := by
  rw [own, hg]
  cases ob with
  | table cap es => exact absurd rfl (hnt cap es)
  | _ => rfl

/-! ## a generic preservation lemma

`S` is a set of addresses containing `v`'s address, closed under the children of the objects of
`h`, on which `h'` has the same objects as `h`. -/

theorem own_keep {h h' : Heap} (S : Nat → Prop)
    (hkeep : ∀ b ob, S b → h.get b = some ob → h'.get b = some ob)
    (hclosed : ∀ b ob c, S b → h.get b = some ob → Val.obj c ∈ Heap.children ob → S c) :
    ∀ (f : Nat) (v : Val) (o : OVal), (∀ a, v = .obj a → S a) → own h f v = some o →
      own h' f v = some o := by
  intro f
  induction f with
  | zero =>
    intro v o _ ho
    cases v with
    | obj a => rw [own_zero_obj] at ho; cases ho
    | nil => rw [(own_scalar h' 0).1]; rw [(own_scalar h 0).1] at ho; exact ho
    | int i => rw [(own_scalar h' 0).2.1]; rw [(own_scalar h 0).2.1] at ho; exact ho
    | real b => rw [(own_scalar h' 0).2.2]; rw [(own_scalar h 0).2.2] at ho; exact ho
  | succ f ih =>
    intro v o hS ho
    cases v with
    | nil => rw [(own_scalar h' _).1]; rw [(own_scalar h _).1] at ho; exact ho
    | int i => rw [(own_scalar h' _).2.1]; rw [(own_scalar h _).2.1] at ho; exact ho
    | real b => rw [(own_scalar h' _).2.2]; rw [(own_scalar h _).2.2] at ho; exact ho
    | obj a =>
      have hSa := hS a rfl
      cases hg : h.get a with
      | none => rw [own_none hg] at ho; cases ho
      | some ob =>
        have hg' := hkeep a ob hSa hg
        by_cases hnt : ∀ cap es, ob ≠ .table cap es
        · rw [own_nontable hg hnt] at ho
          rw [own_nontable hg' hnt]; exact ho
        · have : ∃ cap es, ob = .table cap es := by
            cases ob with
            | table cap es => exact ⟨cap, es, rfl⟩
            | _ => exact absurd (fun _ _ h => by cases h) hnt
          obtain ⟨cap, es, rfl⟩ := this
          obtain ⟨oes, rfl, hall⟩ := (own_table hg f o).mp ho
          refine (own_table hg' f _).mpr ⟨oes, rfl, ?_⟩
          apply hall.imp_mem
          intro e he oe ⟨h1, h2⟩
          have hc1 : ∀ c, e.1 = .obj c → S c := by
            intro c hc
            apply hclosed a _ c hSa hg
            simp only [Heap.children, List.mem_flatMap]
            exact ⟨e, he, by simp [hc]⟩
          have hc2 : ∀ c, e.2 = .obj c → S c := by
            intro c hc
            apply hclosed a _ c hSa hg
            simp only [Heap.children, List.mem_flatMap]
            exact ⟨e, he, by simp [hc]⟩
          exact ⟨ih e.1 oe.1 hc1 h1, ih e.2 oe.2 hc2 h2⟩

/-- `own` reads the heap only through `get` -/
theorem own_congr_heap {h h' : Heap} (hget : ∀ b, h'.get b = h.get b) (f : Nat) (v : Val) :
    own h' f v = own h f v := by
  have h1 : ∀ o, own h f v = some o → own h' f v = some o :=
    fun o => own_keep (fun _ => True) (fun b ob _ hb => by rw [hget]; exact hb)
      (fun _ _ _ _ _ _ => trivial) f v o (fun _ _ => trivial)
  have h2 : ∀ o, own h' f v = some o → own h f v = some o :=
    fun o => own_keep (fun _ => True) (fun b ob _ hb => by rw [← hget]; exact hb)
      (fun _ _ _ _ _ _ => trivial) f v o (fun _ _ => trivial)
  cases ho : own h f v with
  | some o => exact h1 o ho
  | none =>
    cases ho' : own h' f v with
    | none => rfl
    | some o => rw [h2 o ho'] at ho; cases ho

/-- a heap that contains every object of `h` unfolds at least as much -/
theorem own_mono_heap {h h' : Heap} (hsub : ∀ b ob, h.get b = some ob → h'.get b = some ob)
    (f : Nat) (v : Val) (o : OVal) (ho : own h f v = some o) : own h' f v = some o :=
  own_keep (fun _ => True) (fun b ob _ hb => hsub b ob hb) (fun _ _ _ _ _ _ => trivial) f v o
    (fun _ _ => trivial) ho

/-! ## fuel monotonicity -/

theorem own_fuel_succ (h : Heap) : ∀ (f : Nat) (v : Val) (o : OVal),
    own h f v = some o → own h (f+1) v = some o := by
  intro f
  induction f with
  | zero =>
    intro v o ho
    cases v with
    | obj a => rw [own_zero_obj] at ho; cases ho
    | nil => rw [(own_scalar h _).1]; rw [(own_scalar h 0).1] at ho; exact ho
    | int i => rw [(own_scalar h _).2.1]; rw [(own_scalar h 0).2.1] at ho; exact ho
    | real b => rw [(own_scalar h _).2.2]; rw [(own_scalar h 0).2.2] at ho; exact ho
  | succ f ih =>
    intro v o ho
    cases v with
    | nil => rw [(own_scalar h _).1]; rw [(own_scalar h _).1] at ho; exact ho
    | int i => rw [(own_scalar h _).2.1]; rw [(own_scalar h _).2.1] at ho; exact ho
    | real b => rw [(own_scalar h _).2.2]; rw [(own_scalar h _).2.2] at ho; exact ho
    | obj a =>
      cases hg : h.get a with
      | none => rw [own_none hg] at ho; cases ho
      | some ob =>
        by_cases hnt : ∀ cap es, ob ≠ .table cap es
        · rw [own_nontable hg hnt] at ho
          rw [own_nontable hg hnt]; exact ho
        · have : ∃ cap es, ob = .table cap es := by
            cases ob with
            | table cap es => exact ⟨cap, es, rfl⟩
            | _ => exact absurd (fun _ _ h => by cases h) hnt
          obtain ⟨cap, es, rfl⟩ := this
          obtain ⟨oes, rfl, hall⟩ := (own_table hg f o).mp ho
          refine (own_table hg (f+1) _).mpr ⟨oes, rfl, ?_⟩
          exact hall.imp (fun e oe ⟨h1, h2⟩ => ⟨ih _ _ h1, ih _ _ h2⟩)

theorem own_fuel_le (h : Heap) {f f' : Nat} (hle : f ≤ f') (v : Val) (o : OVal)
    (ho : own h f v = some o) : own h f' v = some o := by
  induction hle with
  | refl => exact ho
  | step _ ih => exact own_fuel_succ h _ v o ih

/-! ## `Owns` -/

/-- `v` unfolds (with some fuel) to the tree `o` -/
def Owns (h : Heap) (v : Val) (o : OVal) : Prop := ∃ f, own h f v = some o

def OwnsEntry (h : Heap) (e : Val × Val) (oe : OVal × OVal) : Prop :=
  Owns h e.1 oe.1 ∧ Owns h e.2 oe.2

theorem Owns.functional {h : Heap} {v : Val} {o o' : OVal} (h1 : Owns h v o) (h2 : Owns h v o') :
    o = o' := by
  obtain ⟨f1, h1⟩ := h1
  obtain ⟨f2, h2⟩ := h2
  have a := own_fuel_le h (Nat.le_max_left f1 f2) v o h1
  have b := own_fuel_le h (Nat.le_max_right f1 f2) v o' h2
  rw [a] at b; cases b; rfl

theorem Owns.nil (h : Heap) : Owns h .nil .nil := ⟨0, (own_scalar h 0).1⟩
theorem Owns.int (h : Heap) (i : Int64) : Owns h (.int i) (.int i) := ⟨0, (own_scalar h 0).2.1 i⟩
theorem Owns.real (h : Heap) (b : UInt64) : Owns h (.real b) (.real b) := ⟨0, (own_scalar h 0).2.2 b⟩

theorem Owns.str {h : Heap} {a : Nat} {b : List UInt8} (hg : h.get a = some (.str b)) :
    Owns h (.obj a) (.str b) := ⟨1, own_str hg 0⟩

/-- a common fuel for all entries -/
theorem all2_uniform_fuel {h : Heap} : ∀ {es : List (Val × Val)} {oes : List (OVal × OVal)},
    All2 (OwnsEntry h) es oes → ∃ f, All2 (OwnsEntryF h f) es oes
  | _, _, .nil => ⟨0, .nil⟩
  | _, _, .cons (a := e) (b := oe) ⟨⟨f1, h1⟩, ⟨f2, h2⟩⟩ hrest => by
    obtain ⟨f3, h3⟩ := all2_uniform_fuel hrest
    refine ⟨max (max f1 f2) f3, .cons ⟨?_, ?_⟩ ?_⟩
    · exact own_fuel_le h (by omega) _ _ h1
    · exact own_fuel_le h (by omega) _ _ h2
    · exact h3.imp (fun e oe ⟨a, b⟩ =>
        ⟨own_fuel_le h (by omega) _ _ a, own_fuel_le h (by omega) _ _ b⟩)

theorem Owns.table_intro {h : Heap} {a cap : Nat} {es : List (Val × Val)}
    {oes : List (OVal × OVal)} (hg : h.get a = some (.table cap es))
    (hall : All2 (OwnsEntry h) es oes) : Owns h (.obj a) (.table oes) := by
  obtain ⟨f, hf⟩ := all2_uniform_fuel hall
  exact ⟨f+1, (own_table hg f _).mpr ⟨oes, rfl, hf⟩⟩

theorem Owns.table_elim {h : Heap} {a cap : Nat} {es : List (Val × Val)} {o : OVal}
    (hg : h.get a = some (.table cap es)) (ho : Owns h (.obj a) o) :
    ∃ oes, o = .table oes ∧ All2 (OwnsEntry h) es oes := by
  obtain ⟨f, hf⟩ := ho
  cases f with
  | zero => rw [own_zero_obj] at hf; cases hf
  | succ f =>
    obtain ⟨oes, rfl, hall⟩ := (own_table hg f o).mp hf
    exact ⟨oes, rfl, hall.imp (fun e oe ⟨h1, h2⟩ => ⟨⟨f, h1⟩, ⟨f, h2⟩⟩)⟩

theorem Owns.mono_heap {h h' : Heap} (hsub : ∀ b ob, h.get b = some ob → h'.get b = some ob)
    {v : Val} {o : OVal} (ho : Owns h v o) : Owns h' v o := by
  obtain ⟨f, hf⟩ := ho
  exact ⟨f, own_mono_heap hsub f v o hf⟩

theorem Owns.congr_heap {h h' : Heap} (hget : ∀ b, h'.get b = h.get b)
    {v : Val} {o : OVal} (ho : Owns h v o) : Owns h' v o := by
  obtain ⟨f, hf⟩ := ho
  exact ⟨f, by rw [own_congr_heap hget]; exact hf⟩

theorem Owns.keep {h h' : Heap} (S : Nat → Prop)
    (hkeep : ∀ b ob, S b → h.get b = some ob → h'.get b = some ob)
    (hclosed : ∀ b ob c, S b → h.get b = some ob → Val.obj c ∈ Heap.children ob → S c)
    {v : Val} {o : OVal} (hS : ∀ a, v = .obj a → S a) (ho : Owns h v o) : Owns h' v o := by
  obtain ⟨f, hf⟩ := ho
  exact ⟨f, own_keep S hkeep hclosed f v o hS hf⟩

/-! ## structural size of a deep value -/

mutual
  def osize : OVal → Nat
    | .table es => 1 + osizeL es
    | _ => 1
  def osizeL : List (OVal × OVal) → Nat
    | [] => 0
    | (k, v) :: r => osize k + osize v + osizeL r
end

theorem osize_mem {es : List (OVal × OVal)} {oe : OVal × OVal} (h : oe ∈ es) :
    osize oe.1 + osize oe.2 ≤ osizeL es := by
  induction es with
  | nil => cases h
  | cons x es ih =>
    obtain ⟨k, v⟩ := x
    rcases List.mem_cons.mp h with rfl | h
    · simp only [osizeL]; omega
    · have := ih h; simp only [osizeL]; omega

/-! ## removing an object from the heap -/

/-- the heap without the object at `a` -/
def heapErase (h : Heap) (a : Nat) : Heap := { h with objs := h.objs.filter (fun p => !(p.1 == a)) }

theorem heapErase_get (h : Heap) (a b : Nat) :
    (heapErase h a).get b = if b = a then none else h.get b := by
  unfold heapErase Heap.get
  simp only
  split
  · rename_i hb
    subst hb
    have : (h.objs.filter (fun p => !(p.1 == b))).find? (fun x => x.1 == b) = none := by
      rw [List.find?_eq_none]
      intro x hx hxb
      have := (List.mem_filter.mp hx).2
      simp_all
    rw [this]; rfl
  · rename_i hb
    rw [Cao.Gc.find?_filter_of_imp]
    intro x _ hx
    have : x.1 = b := by simpa using hx
    simp [this, hb]

theorem heapErase_length {h : Heap} {a : Nat} {ob : Obj} (hg : h.get a = some ob) :
    (heapErase h a).objs.length < h.objs.length := by
  unfold heapErase
  simp only
  unfold Heap.get at hg
  cases hf : h.objs.find? (fun x => x.1 == a) with
  | none => rw [hf] at hg; cases hg
  | some p =>
    have hp := List.mem_of_find?_eq_some hf
    have hpa := List.find?_some hf
    have hle := List.length_filter_le (fun p : Nat × Obj => !(p.1 == a)) h.objs
    rcases Nat.lt_or_ge (h.objs.filter (fun p => !(p.1 == a))).length h.objs.length with hlt | hge
    · exact hlt
    · exfalso
      have heq : (h.objs.filter (fun p => !(p.1 == a))).length = h.objs.length := by omega
      have := List.length_filter_eq_length_iff.mp heq p hp
      simp_all

/-- either the unfolding of `v` never looks at `a`, or it contains the unfolding of `a` -/
theorem own_erase_or (h : Heap) (a : Nat) : ∀ (f : Nat) (v : Val) (o : OVal),
    own h f v = some o →
    own (heapErase h a) f v = some o ∨ ∃ f' oa, own h f' (.obj a) = some oa ∧ osize oa ≤ osize o := by
  intro f
  induction f with
  | zero =>
    intro v o ho
    cases v with
    | obj b => rw [own_zero_obj] at ho; cases ho
    | nil => left; rw [(own_scalar _ 0).1]; rw [(own_scalar h 0).1] at ho; exact ho
    | int i => left; rw [(own_scalar _ 0).2.1]; rw [(own_scalar h 0).2.1] at ho; exact ho
    | real b => left; rw [(own_scalar _ 0).2.2]; rw [(own_scalar h 0).2.2] at ho; exact ho
  | succ f ih =>
    intro v o ho
    cases v with
    | nil => left; rw [(own_scalar _ _).1]; rw [(own_scalar h _).1] at ho; exact ho
    | int i => left; rw [(own_scalar _ _).2.1]; rw [(own_scalar h _).2.1] at ho; exact ho
    | real b => left; rw [(own_scalar _ _).2.2]; rw [(own_scalar h _).2.2] at ho; exact ho
    | obj b =>
      by_cases hba : b = a
      · subst hba
        exact Or.inr ⟨f+1, o, ho, Nat.le_refl _⟩
      · cases hg : h.get b with
        | none => rw [own_none hg] at ho; cases ho
        | some ob =>
          have hg' : (heapErase h a).get b = some ob := by rw [heapErase_get, if_neg hba]; exact hg
          by_cases hnt : ∀ cap es, ob ≠ .table cap es
          · left
            rw [own_nontable hg hnt] at ho
            rw [own_nontable hg' hnt]; exact ho
          · have : ∃ cap es, ob = .table cap es := by
              cases ob with
              | table cap es => exact ⟨cap, es, rfl⟩
              | _ => exact absurd (fun _ _ h => by cases h) hnt
            obtain ⟨cap, es, rfl⟩ := this
            obtain ⟨oes, rfl, hall⟩ := (own_table hg f o).mp ho
            -- either every entry avoids `a`, or one of them contains it
            have key : ∀ (es : List (Val × Val)) (oes' : List (OVal × OVal)),
                All2 (OwnsEntryF h f) es oes' → (∀ oe ∈ oes', oe ∈ oes) →
                All2 (OwnsEntryF (heapErase h a) f) es oes' ∨
                ∃ f' oa, own h f' (.obj a) = some oa ∧ osize oa ≤ osize (.table oes) := by
              intro es oes' hall'
              induction hall' with
              | nil => intro _; exact Or.inl .nil
              | @cons e oe l r hhd _ ihl =>
                intro hsub
                have hmem : oe ∈ oes := hsub oe List.mem_cons_self
                have hsz := osize_mem hmem
                rcases ih _ _ hhd.1 with h1 | ⟨f', oa, h1, h2⟩
                · rcases ih _ _ hhd.2 with h3 | ⟨f', oa, h3, h4⟩
                  · rcases ihl (fun x hx => hsub x (List.mem_cons_of_mem _ hx)) with h5 | h5
                    · exact Or.inl (.cons ⟨h1, h3⟩ h5)
                    · exact Or.inr h5
                  · exact Or.inr ⟨f', oa, h3, by simp only [osize]; omega⟩
                · exact Or.inr ⟨f', oa, h1, by simp only [osize]; omega⟩
            rcases key es oes hall (fun _ hx => hx) with h1 | h1
            · exact Or.inl ((own_table hg' f _).mpr ⟨oes, rfl, h1⟩)
            · exact Or.inr h1

/-- the entries of a table that unfolds do not contain the table -/
theorem own_entry_erase {h : Heap} {a cap : Nat} {es : List (Val × Val)}
    (hg : h.get a = some (.table cap es)) {f : Nat} {oes : List (OVal × OVal)}
    (hall : All2 (OwnsEntryF h f) es oes) :
    All2 (OwnsEntryF (heapErase h a) f) es oes := by
  have htab : own h (f+1) (.obj a) = some (.table oes) := (own_table hg f _).mpr ⟨oes, rfl, hall⟩
  have hno : ∀ (v : Val) (o : OVal) (oe : OVal × OVal), oe ∈ oes → (o = oe.1 ∨ o = oe.2) →
      own h f v = some o → own (heapErase h a) f v = some o := by
    intro v o oe hmem ho hv
    rcases own_erase_or h a f v o hv with h1 | ⟨f', oa, h1, h2⟩
    · exact h1
    · exfalso
      have e1 := own_fuel_le h (Nat.le_max_left (f+1) f') _ _ htab
      have e2 := own_fuel_le h (Nat.le_max_right (f+1) f') _ _ h1
      rw [e1] at e2
      cases e2
      have hsz := osize_mem hmem
      have h1' : 1 ≤ osize oe.1 := by cases oe.1 <;> simp [osize]
      have h2' : 1 ≤ osize oe.2 := by cases oe.2 <;> simp [osize]
      simp only [osize] at h2
      rcases ho with rfl | rfl <;> omega
  have : ∀ (es' : List (Val × Val)) (oes' : List (OVal × OVal)),
      All2 (OwnsEntryF h f) es' oes' → (∀ oe ∈ oes', oe ∈ oes) →
      All2 (OwnsEntryF (heapErase h a) f) es' oes' := by
    intro es' oes' hall'
    induction hall' with
    | nil => intro _; exact .nil
    | @cons e oe l r hhd _ ihl =>
      intro hsub
      exact .cons ⟨hno _ _ oe (hsub oe List.mem_cons_self) (Or.inl rfl) hhd.1,
        hno _ _ oe (hsub oe List.mem_cons_self) (Or.inr rfl) hhd.2⟩
        (ihl (fun x hx => hsub x (List.mem_cons_of_mem _ hx)))
  exact this es oes hall (fun _ hx => hx)

/-- **fuel adequacy**: whatever unfolds with some fuel unfolds with `number of objects` many
    levels (one level per allocated object on the path) -/
theorem own_adequate : ∀ (n : Nat) (h : Heap), h.objs.length = n → ∀ (f : Nat) (v : Val) (o : OVal),
    own h f v = some o → own h (n + 1) v = some o := by
  intro n
  induction n using Nat.strongRecOn with
  | _ n ihn =>
    intro h hlen f v o ho
    cases v with
    | nil => rw [(own_scalar h _).1]; rw [(own_scalar h _).1] at ho; exact ho
    | int i => rw [(own_scalar h _).2.1]; rw [(own_scalar h _).2.1] at ho; exact ho
    | real b => rw [(own_scalar h _).2.2]; rw [(own_scalar h _).2.2] at ho; exact ho
    | obj a =>
      cases f with
      | zero => rw [own_zero_obj] at ho; cases ho
      | succ f =>
        cases hg : h.get a with
        | none => rw [own_none hg] at ho; cases ho
        | some ob =>
          by_cases hnt : ∀ cap es, ob ≠ .table cap es
          · rw [own_nontable hg hnt] at ho
            rw [own_nontable hg hnt]; exact ho
          · have : ∃ cap es, ob = .table cap es := by
              cases ob with
              | table cap es => exact ⟨cap, es, rfl⟩
              | _ => exact absurd (fun _ _ h => by cases h) hnt
            obtain ⟨cap, es, rfl⟩ := this
            obtain ⟨oes, rfl, hall⟩ := (own_table hg f o).mp ho
            have hall' := own_entry_erase hg hall
            have hlt := heapErase_length hg
            rw [hlen] at hlt
            have hsub : ∀ b ob, (heapErase h a).get b = some ob → h.get b = some ob := by
              intro b ob hb
              rw [heapErase_get] at hb
              split at hb
              · cases hb
              · exact hb
            refine (own_table hg n _).mpr ⟨oes, rfl, ?_⟩
            apply hall'.imp
            intro e oe ⟨h1, h2⟩
            have a1 := ihn _ hlt (heapErase h a) rfl f _ _ h1
            have a2 := ihn _ hlt (heapErase h a) rfl f _ _ h2
            exact ⟨own_mono_heap hsub _ _ _ (own_fuel_le _ (by omega) _ _ a1),
                   own_mono_heap hsub _ _ _ (own_fuel_le _ (by omega) _ _ a2)⟩

/-- **`ownD` computes the deep value of everything that unfolds** -/
theorem Owns.ownD {h : Heap} {v : Val} {o : OVal} (ho : Owns h v o) : ownD h v = o := by
  obtain ⟨f, hf⟩ := ho
  unfold Cao.ownD ownFuel
  rw [own_adequate _ h rfl f v o hf]
  rfl

theorem Owns.own_fuel {h : Heap} {v : Val} {o : OVal} (ho : Owns h v o) :
    own h (ownFuel h) v = some o := by
  obtain ⟨f, hf⟩ := ho
  exact own_adequate _ h rfl f v o hf

/-- entries that unfold pointwise: mapping `ownD` over the stored entries gives the deep entries -/
theorem all2_map_ownD {h : Heap} {f : Nat} {l : List (Val × Val)} {r : List (OVal × OVal)}
    (hall : All2 (OwnsEntryF h f) l r) :
    l.map (fun e => (ownD h e.1, ownD h e.2)) = r := by
  induction hall with
  | nil => rfl
  | @cons e oe l r hhd _ ih =>
    have h1 : ownD h e.1 = oe.1 := Owns.ownD ⟨f, hhd.1⟩
    have h2 : ownD h e.2 = oe.2 := Owns.ownD ⟨f, hhd.2⟩
    simp only [List.map_cons, ih, h1, h2]

end Cao.Serde
