import CaoProofs.Lemmas.CompilerLemmas
/-!
# Which errors the compiler model can end with (C04, item 1)

`CT P m`: every error the compiler action `m` ends with satisfies `P` — the analogue for the
compiler monad `CM` of `Throws` (`Lemmas/VmFrame.lean`). Instantiated with
`HandlePanic`: "a `panic` outcome carries one of the two zero-handle messages of `HandleTable`".
-/
namespace Cao.Compiler
open Cao
set_option linter.unusedVariables false

theorem bind_err {α β : Type} {m : CM α} {f : α → CM β} {s : CState} {e : CErr} :
    (m >>= f) s = .error e ↔ m s = .error e ∨ ∃ a s', m s = .ok (a, s') ∧ f a s' = .error e := by
  show (StateT.bind m f s) = _ ↔ _
  unfold StateT.bind
  show (Except.bind (m s) _) = _ ↔ _
  cases h : m s with
  | error e' => simp [Except.bind]
  | ok p =>
    cases p with
    | mk a s' =>
      simp only [Except.bind]
      constructor
      · intro h'; exact .inr ⟨a, s', rfl, h'⟩
      · rintro (h' | ⟨a1, s1, h1, h2⟩)
        · cases h'
        · simp only [Except.ok.injEq, Prod.mk.injEq] at h1
          obtain ⟨rfl, rfl⟩ := h1
          exact h2

/-- every error `m` ends with satisfies `P` -/
structure CT {α : Type} (P : CErr → Prop) (m : CM α) : Prop where
  err : ∀ s e, m s = .error e → P e

/-- the two places where the Rust `HandleTable` asserts a non-zero handle -/
def handlePanics : List String :=
  ["HandleTable::insert with handle 0", "HandleTable::entry with handle 0"]

/-- a compilation error proper, or one of the two zero-handle panics -/
def HandlePanic (e : CErr) : Prop := ∀ w, e = .panic w → w ∈ handlePanics

section rules
variable {P : CErr → Prop} {α β : Type}

theorem ct_pure {a : α} : CT P (pure a : CM α) := ⟨fun s e h => by simp at h⟩
theorem ct_get : CT P (get : CM CState) := ⟨fun s e h => by simp at h⟩
theorem ct_modify {f : CState → CState} : CT P (modify f : CM Unit) := ⟨fun s e h => by simp at h⟩
theorem ct_throw {e : CErr} (h : P e) : CT P (throw e : CM α) :=
  ⟨fun s e' h' => by simp only [throw_run, Except.error.injEq] at h'; exact h' ▸ h⟩
theorem ct_fail {k : CErrKind} (h : ∀ t, P (.err k t)) : CT P (fail k : CM α) :=
  ⟨fun s e' h' => by simp only [fail_run, Except.error.injEq] at h'; exact h' ▸ h _⟩
theorem ct_bind {m : CM α} {f : α → CM β} (hm : CT P m) (hf : ∀ a, CT P (f a)) : CT P (m >>= f) :=
  ⟨fun s e h => by
    rcases bind_err.1 h with h | ⟨a, s', _, h⟩
    · exact hm.err s e h
    · exact (hf a).err s' e h⟩
theorem ct_ite {c : Prop} [Decidable c] {x y : CM α} (hx : CT P x) (hy : CT P y) :
    CT P (if c then x else y) := by
  split <;> assumption
end rules

/-- closes `HandlePanic e` for concrete `e` -/
macro "ct_side" : tactic => `(tactic| focus first
  | (intro w h; cases h; done)
  | (intro w h; cases h; decide)
  | (intro t w h; cases h; done))

syntax "ct_prim" : tactic
macro_rules | `(tactic| ct_prim) => `(tactic| assumption)

macro "ct_step" : tactic => `(tactic| first
  | ct_prim
  | dsimp only
  | with_reducible exact ct_pure
  | with_reducible exact ct_get
  | with_reducible exact ct_modify
  | ((with_reducible apply ct_throw); ct_side)
  | ((with_reducible apply ct_fail); ct_side)
  | with_reducible apply ct_bind
  | with_reducible apply ct_ite
  | intro _
  | split)
macro "ct" : tactic => `(tactic| repeat' ct_step)

local notation "HP" => HandlePanic

theorem curTrace_ct : CT HP (curTrace) := by unfold curTrace; ct
macro_rules | `(tactic| ct_prim) => `(tactic| with_reducible exact curTrace_ct)

theorem emitBytes_ct (bs : List UInt8) : CT HP (emitBytes bs) := by unfold emitBytes; ct
macro_rules | `(tactic| ct_prim) => `(tactic| with_reducible exact emitBytes_ct _)

theorem emitU32_ct (x : Nat) : CT HP (emitU32 x) := by unfold emitU32; ct
macro_rules | `(tactic| ct_prim) => `(tactic| with_reducible exact emitU32_ct _)

theorem pushInstr_ct (o : UInt8) : CT HP (pushInstr o) := by unfold pushInstr; ct
macro_rules | `(tactic| ct_prim) => `(tactic| with_reducible exact pushInstr_ct _)

theorem pushSub_ct (i : Nat) : CT HP (pushSub i) := by unfold pushSub; ct
macro_rules | `(tactic| ct_prim) => `(tactic| with_reducible exact pushSub_ct _)

theorem popSub_ct : CT HP (popSub) := by unfold popSub; ct
macro_rules | `(tactic| ct_prim) => `(tactic| with_reducible exact popSub_ct)

theorem insertLabel_ct (h : UInt32) (pos : Nat) : CT HP (insertLabel h pos) := by unfold insertLabel; ct
macro_rules | `(tactic| ct_prim) => `(tactic| with_reducible exact insertLabel_ct _ _)

theorem patchI32_ct (a v : Nat) : CT HP (patchI32 a v) := by unfold patchI32; ct
macro_rules | `(tactic| ct_prim) => `(tactic| with_reducible exact patchI32_ct _ _)

theorem scopeBegin_ct : CT HP (scopeBegin) := by unfold scopeBegin; ct
macro_rules | `(tactic| ct_prim) => `(tactic| with_reducible exact scopeBegin_ct)

theorem scopeEnd_ct : CT HP (scopeEnd) := by unfold scopeEnd; ct
macro_rules | `(tactic| ct_prim) => `(tactic| with_reducible exact scopeEnd_ct)

theorem addLocalUnchecked_ct (n : String) : CT HP (addLocalUnchecked n) := by unfold addLocalUnchecked; ct
macro_rules | `(tactic| ct_prim) => `(tactic| with_reducible exact addLocalUnchecked_ct _)

theorem validateVarName_ct (n : String) : CT HP (validateVarName n) := by unfold validateVarName; ct
macro_rules | `(tactic| ct_prim) => `(tactic| with_reducible exact validateVarName_ct _)

theorem addLocal_ct (n : String) : CT HP (addLocal n) := by unfold addLocal; ct
macro_rules | `(tactic| ct_prim) => `(tactic| with_reducible exact addLocal_ct _)

theorem addUpvalue_ct (i : UInt8) (l : Bool) (f : Nat) : CT HP (addUpvalue i l f) := by unfold addUpvalue; ct
macro_rules | `(tactic| ct_prim) => `(tactic| with_reducible exact addUpvalue_ct _ _ _)

theorem resolveUpvalue_ct (n : String) : ∀ fid, CT HP (resolveUpvalue n fid)
  | 0 => by unfold resolveUpvalue; ct
  | fid+1 => by
    have ih := resolveUpvalue_ct n fid
    unfold resolveUpvalue; ct
macro_rules | `(tactic| ct_prim) => `(tactic| with_reducible exact resolveUpvalue_ct _ _)

theorem resolveVar_ct (n : String) : CT HP (resolveVar n) := by unfold resolveVar; ct
macro_rules | `(tactic| ct_prim) => `(tactic| with_reducible exact resolveVar_ct _)

theorem readLocalVar_ct (i : Nat) : CT HP (readLocalVar i) := by unfold readLocalVar; ct
macro_rules | `(tactic| ct_prim) => `(tactic| with_reducible exact readLocalVar_ct _)

theorem writeLocalVar_ct (i : Nat) : CT HP (writeLocalVar i) := by unfold writeLocalVar; ct
macro_rules | `(tactic| ct_prim) => `(tactic| with_reducible exact writeLocalVar_ct _)

theorem readUpvalue_ct (i : Nat) : CT HP (readUpvalue i) := by unfold readUpvalue; ct
macro_rules | `(tactic| ct_prim) => `(tactic| with_reducible exact readUpvalue_ct _)

theorem writeUpvalue_ct (i : Nat) : CT HP (writeUpvalue i) := by unfold writeUpvalue; ct
macro_rules | `(tactic| ct_prim) => `(tactic| with_reducible exact writeUpvalue_ct _)

theorem pushStr_ct (x : String) : CT HP (pushStr x) := by unfold pushStr; ct
macro_rules | `(tactic| ct_prim) => `(tactic| with_reducible exact pushStr_ct _)

theorem globalId_ct (x : String) : CT HP (globalId x) := by unfold globalId; ct
macro_rules | `(tactic| ct_prim) => `(tactic| with_reducible exact globalId_ct _)

theorem readProps_ct : ∀ ps, CT HP (readProps ps)
  | [] => by unfold readProps; ct
  | p :: ps => by
    have ih := readProps_ct ps
    unfold readProps; ct
macro_rules | `(tactic| ct_prim) => `(tactic| with_reducible exact readProps_ct _)

theorem readVarCard_ct (x : String) : CT HP (readVarCard x) := by unfold readVarCard; ct
macro_rules | `(tactic| ct_prim) => `(tactic| with_reducible exact readVarCard_ct _)

theorem resolveFunction_ct (x : String) : CT HP (resolveFunction x) := by unfold resolveFunction; ct
macro_rules | `(tactic| ct_prim) => `(tactic| with_reducible exact resolveFunction_ct _)

theorem encodeJump_ct (x : String) : CT HP (encodeJump x) := by unfold encodeJump; ct
macro_rules | `(tactic| ct_prim) => `(tactic| with_reducible exact encodeJump_ct _)

theorem cardLabel_ct : CT HP (cardLabel) := by unfold cardLabel; ct
macro_rules | `(tactic| ct_prim) => `(tactic| with_reducible exact cardLabel_ct)

theorem withSub_ct {i : Nat} {m : CM Unit} (hm : CT HP m) : CT HP (withSub i m) := by unfold withSub; ct
macro_rules | `(tactic| ct_prim) => `(tactic| with_reducible apply withSub_ct)

theorem encodeIfThen_ct {skip : UInt8} {m : CM Unit} (hm : CT HP m) : CT HP (encodeIfThen skip m) := by unfold encodeIfThen; ct
macro_rules | `(tactic| ct_prim) => `(tactic| with_reducible apply encodeIfThen_ct)

theorem encodeIfThenRet_ct {skip : UInt8} {m : CM Nat} (hm : CT HP m) : CT HP (encodeIfThenRet skip m) := by unfold encodeIfThenRet; ct
macro_rules | `(tactic| ct_prim) => `(tactic| with_reducible apply encodeIfThenRet_ct)

theorem addLocals_ct : ∀ ps, CT HP (addLocals ps)
  | [] => by unfold addLocals; ct
  | p :: ps => by
    have ih := addLocals_ct ps
    unfold addLocals; ct
macro_rules | `(tactic| ct_prim) => `(tactic| with_reducible exact addLocals_ct _)

theorem emitUpvalues_ct : ∀ ups, CT HP (emitUpvalues ups)
  | [] => by unfold emitUpvalues; ct
  | (l, i) :: rest => by
    have ih := emitUpvalues_ct rest
    unfold emitUpvalues; ct
macro_rules | `(tactic| ct_prim) => `(tactic| with_reducible exact emitUpvalues_ct _)

theorem scalarIntCode_ct (i : Int64) : CT HP (scalarIntCode i) := by unfold scalarIntCode; ct
macro_rules | `(tactic| ct_prim) => `(tactic| with_reducible exact scalarIntCode_ct _)

theorem processScalarInt_ct (i : Int64) : CT HP (processScalarInt i) := by unfold processScalarInt; ct
macro_rules | `(tactic| ct_prim) => `(tactic| with_reducible exact processScalarInt_ct _)

theorem bindLoopVar_ct (n : Option String) (src : Nat) : CT HP (bindLoopVar n src) := by unfold bindLoopVar; ct
macro_rules | `(tactic| ct_prim) => `(tactic| with_reducible exact bindLoopVar_ct _ _)

theorem forEachCode_ct {i kk v : Option String} {it body : CM Unit} (h1 : CT HP it) (h2 : CT HP body) : CT HP (forEachCode i kk v it body) := by unfold forEachCode; ct
macro_rules | `(tactic| ct_prim) => `(tactic| with_reducible apply forEachCode_ct)

theorem whileCode_ct {c b : CM Unit} (h1 : CT HP c) (h2 : CT HP b) : CT HP (whileCode c b) := by unfold whileCode; ct

theorem repeatCode_ct {i : Option String} {n b : CM Unit} (h1 : CT HP n) (h2 : CT HP b) : CT HP (repeatCode i n b) := by unfold repeatCode; ct
macro_rules | `(tactic| ct_prim) => `(tactic| with_reducible apply repeatCode_ct)

theorem setVarTarget_ct (n : String) : CT HP (setVarTarget n) := by unfold setVarTarget; ct
macro_rules | `(tactic| ct_prim) => `(tactic| with_reducible exact setVarTarget_ct _)

theorem setVarCode_ct {n : String} {v : CM Unit} (h : CT HP v) : CT HP (setVarCode n v) := by unfold setVarCode; ct
macro_rules | `(tactic| ct_prim) => `(tactic| with_reducible apply setVarCode_ct)

theorem setGlobalVarCode_ct {n : String} {v : CM Unit} (h : CT HP v) : CT HP (setGlobalVarCode n v) := by unfold setGlobalVarCode; ct
macro_rules | `(tactic| ct_prim) => `(tactic| with_reducible apply setGlobalVarCode_ct)

theorem ifElseCode_ct {c t e : CM Unit} (h1 : CT HP c) (h2 : CT HP t) (h3 : CT HP e) : CT HP (ifElseCode c t e) := by unfold ifElseCode; ct

theorem ifCode_ct {skip : UInt8} {c b : CM Unit} (h1 : CT HP c) (h2 : CT HP b) : CT HP (ifCode skip c b) := by unfold ifCode; ct

theorem callCode_ct {n : String} {a : CM Unit} (h : CT HP a) : CT HP (callCode n a) := by unfold callCode; ct
macro_rules | `(tactic| ct_prim) => `(tactic| with_reducible apply callCode_ct)

theorem callNativeCode_ct {n : String} {a : CM Unit} (h : CT HP a) : CT HP (callNativeCode n a) := by unfold callNativeCode; ct
macro_rules | `(tactic| ct_prim) => `(tactic| with_reducible apply callNativeCode_ct)

theorem compileBegin_ct : CT HP (compileBegin) := by unfold compileBegin; ct
macro_rules | `(tactic| ct_prim) => `(tactic| with_reducible exact compileBegin_ct)

theorem compileEnd_ct : CT HP (compileEnd) := by unfold compileEnd; ct
macro_rules | `(tactic| ct_prim) => `(tactic| with_reducible exact compileEnd_ct)

theorem closureCode_ct {args : List String} {b : CM Unit} (h : CT HP b) : CT HP (closureCode args b) := by unfold closureCode; ct
macro_rules | `(tactic| ct_prim) => `(tactic| with_reducible apply closureCode_ct)

theorem arrayCode_ct {items : Nat → CM Unit} (h : ∀ tv, CT HP (items tv)) : CT HP (arrayCode items) := by
  unfold arrayCode; ct
  exact h _
macro_rules | `(tactic| ct_prim) => `(tactic| with_reducible apply arrayCode_ct)

theorem unCode_ct {u : UnKind} {c : CM Unit} (h : CT HP c) : CT HP (unCode u c) := by unfold unCode; ct
macro_rules | `(tactic| ct_prim) => `(tactic| with_reducible apply unCode_ct)

theorem binCode_ct {bk : BinKind} {a b : CM Unit} (h1 : CT HP a) (h2 : CT HP b) : CT HP (binCode bk a b) := by
  unfold binCode
  split
  · exact whileCode_ct h1 h2
  · exact ifCode_ct h1 h2
  · exact ifCode_ct h1 h2
  · ct
macro_rules | `(tactic| ct_prim) => `(tactic| with_reducible apply binCode_ct)

theorem triCode_ct {tk : TriKind} {a b c : CM Unit} (h1 : CT HP a) (h2 : CT HP b) (h3 : CT HP c) : CT HP (triCode tk a b c) := by
  unfold triCode
  split
  · exact ifElseCode_ct h1 h2 h3
  · ct
macro_rules | `(tactic| ct_prim) => `(tactic| with_reducible apply triCode_ct)

theorem dynamicCallCode_ct {a f : CM Unit} (h1 : CT HP a) (h2 : CT HP f) : CT HP (dynamicCallCode a f) := by unfold dynamicCallCode; ct
macro_rules | `(tactic| ct_prim) => `(tactic| with_reducible apply dynamicCallCode_ct)

theorem processCard_ct_all :
    (∀ c, CT HP (processCard c)) ∧
    (∀ tv i cs, CT HP (processArrayItems tv i cs)) ∧
    (∀ i cs, CT HP (compileSubexprFrom i cs)) := by
  apply processCard.mutual_induct
    (motive_1 := fun c => CT HP (processCard c))
    (motive_2 := fun tv i cs => CT HP (processArrayItems tv i cs))
    (motive_3 := fun i cs => CT HP (compileSubexprFrom i cs))
  all_goals
    intros
    simp only [processCard, processArrayItems, compileSubexprFrom]
    ct

theorem processCard_ct (c : Card) : CT HP (processCard c) := processCard_ct_all.1 c
macro_rules | `(tactic| ct_prim) => `(tactic| with_reducible exact processCard_ct _)

theorem processFunctionCards_ct : ∀ ic cs, CT HP (processFunctionCards ic cs)
  | _, [] => by unfold processFunctionCards; ct
  | ic, c :: cs => by
    have ih := processFunctionCards_ct (ic + 1) cs
    unfold processFunctionCards; ct
macro_rules | `(tactic| ct_prim) => `(tactic| with_reducible exact processFunctionCards_ct _ _)

theorem processFunction_ct (f : FunctionIr) : CT HP (processFunction f) := by unfold processFunction; ct
macro_rules | `(tactic| ct_prim) => `(tactic| with_reducible exact processFunction_ct _)

theorem addFunction_ct (f : FunctionIr) : CT HP (addFunction f) := by unfold addFunction; ct
macro_rules | `(tactic| ct_prim) => `(tactic| with_reducible exact addFunction_ct _)

theorem addFunctions_ct : ∀ fs, CT HP (addFunctions fs)
  | [] => by unfold addFunctions; ct
  | f :: fs => by
    have ih := addFunctions_ct fs
    unfold addFunctions; ct
macro_rules | `(tactic| ct_prim) => `(tactic| with_reducible exact addFunctions_ct _)

theorem compileFunction_ct (f : FunctionIr) : CT HP (compileFunction f) := by unfold compileFunction; ct
macro_rules | `(tactic| ct_prim) => `(tactic| with_reducible exact compileFunction_ct _)

theorem compileFunctions_ct : ∀ fs, CT HP (compileFunctions fs)
  | [] => by unfold compileFunctions; ct
  | f :: fs => by
    have ih := compileFunctions_ct fs
    unfold compileFunctions; ct
macro_rules | `(tactic| ct_prim) => `(tactic| with_reducible exact compileFunctions_ct _)

theorem compileUnit_ct (unit : Array FunctionIr) : CT HP (compileUnit unit) := by unfold compileUnit; ct

/-- **`compile` ends with a program, a compilation error, or one of the two zero-handle panics** -/
theorem compile_handlePanic (m std : Module) (limit : Nat) (e : CErr)
    (h : compile m std limit = .error e) : HandlePanic e := by
  unfold compile at h
  split at h
  · simp only [Except.error.injEq] at h
    subst h
    intro w hw; cases hw
  · next unit _ =>
    split at h
    · next e' he' =>
      simp only [Except.error.injEq] at h
      subst h
      exact (compileUnit_ct unit).err _ _ he'
    · cases h

theorem insertLabel_zero (pos : Nat) (s : CState) :
    insertLabel 0 pos s = .error (.panic "HandleTable::insert with handle 0") := rfl

theorem insertLabel_ne {h : UInt32} (h0 : h ≠ 0) (pos : Nat) (s : CState) :
    insertLabel h pos s = .ok ((), { s with labels := s.labels ++ [(h, pos)] }) := by
  unfold insertLabel
  have : (h == 0) = false := by simpa using h0
  simp only [this, Bool.false_eq_true, if_false]
  rfl

/-- the label table asserts a non-zero handle — and nothing else -/
theorem insertLabel_panic_iff (h : UInt32) (pos : Nat) (s : CState) (w : String) :
    insertLabel h pos s = .error (.panic w) ↔ h = 0 ∧ w = "HandleTable::insert with handle 0" := by
  by_cases h0 : h = 0
  · subst h0
    rw [insertLabel_zero]
    simp only [Except.error.injEq, CErr.panic.injEq, true_and]
    exact eq_comm
  · rw [insertLabel_ne h0]
    simp [h0]

/-- the variable table asserts a non-zero handle of the name -/
theorem globalId_zero (name : String) (s : CState) (h : Hash.handleFromBytes name.toUTF8.toList = 0) :
    globalId name s = .error (.panic "HandleTable::entry with handle 0") := by
  unfold globalId
  simp only [h, beq_self_eq_true, if_true]
  rfl

theorem globalId_ne_ct (name : String) (h0 : Hash.handleFromBytes name.toUTF8.toList ≠ 0) :
    CT (fun e => ∀ w, e ≠ .panic w) (globalId name) := by
  have hb : (Hash.handleFromBytes name.toUTF8.toList == 0) = false := by simpa using h0
  unfold globalId
  simp only [hb, Bool.false_eq_true, if_false]
  ct

theorem globalId_panic_iff (name : String) (s : CState) (w : String) :
    globalId name s = .error (.panic w) ↔
      Hash.handleFromBytes name.toUTF8.toList = 0 ∧ w = "HandleTable::entry with handle 0" := by
  by_cases h0 : Hash.handleFromBytes name.toUTF8.toList = 0
  · rw [globalId_zero name s h0]
    simp only [Except.error.injEq, CErr.panic.injEq, h0, true_and]
    exact eq_comm
  · constructor
    · intro h; exact absurd rfl ((globalId_ne_ct name h0).err s _ h w)
    · rintro ⟨h, _⟩; exact absurd h h0

end Cao.Compiler
