import CaoProofs.Lemmas.RunInv
/-!
# Schedule independence: the relation between two runs and the allocation layer

`SchedEq s t`: the two machines are observationally equal (`C02.ObsEq`: same roots, same
reachable sub-heap, same next address), have the same limit, budget counters, host log and call
stack capacity, and both satisfy the accounting invariant `C05.Inv`. They may differ in garbage,
in `mem.allocated` / `mem.nextGc`, in the forced-collection schedule and in the ghost counters.

* `liveCharge_congr`: observationally equal states with unique addresses have the same live size;
* `allocPure_fst`: the *outcome* of an allocation (with `p` bytes pending) is decided by the live
  size alone, so it is the same in both runs (`allocPure_sim`);
* `initTable_sim`, `initString_sim`, `initSimple_sim`: the object constructors return the same
  address or fail with the same error in both runs, and end in `SchedEq` states.
-/
namespace Cao.SchedSim
open Cao Cao.Vm Cao.Gc Cao.C02 Cao.C05 Cao.RunInv
set_option linter.unusedVariables false

/-! ## unique addresses: membership is lookup -/

theorem get_of_mem_aux (l : List (Nat × Obj)) (hu : (l.map (fun p => p.1)).Nodup) (p : Nat × Obj)
    (hp : p ∈ l) : (l.find? (fun q => q.1 == p.1)).map (fun q => q.2) = some p.2 := by
  induction l with
  | nil => cases hp
  | cons q l ih =>
    simp only [List.map_cons, List.nodup_cons] at hu
    by_cases hq : (q.1 == p.1) = true
    · simp only [List.find?_cons, hq, Option.map_some, Option.some.injEq]
      rcases List.mem_cons.mp hp with rfl | hp'
      · rfl
      · exfalso
        have : q.1 = p.1 := by simpa using hq
        exact hu.1 (this ▸ List.mem_map_of_mem hp')
    · have hq' : (q.1 == p.1) = false := by simpa using hq
      simp only [List.find?_cons, hq']
      rcases List.mem_cons.mp hp with rfl | hp'
      · simp at hq
      · exact ih hu.2 hp'

theorem get_of_mem {h : Heap} (hu : UniqueAddrs h) {p : Nat × Obj} (hp : p ∈ h.objs) :
    h.get p.1 = some p.2 := get_of_mem_aux h.objs hu p hp

theorem mem_of_get {h : Heap} {a : Nat} {o : Obj} (hg : h.get a = some o) : (a, o) ∈ h.objs := by
  unfold Heap.get at hg
  cases hf : h.objs.find? (fun q => q.1 == a) with
  | none => rw [hf] at hg; cases hg
  | some q =>
    rw [hf] at hg
    simp only [Option.map_some, Option.some.injEq] at hg
    have h1 := List.mem_of_find?_eq_some hf
    have h2 : q.1 = a := by simpa using List.find?_some hf
    have : q = (a, o) := by rw [← h2, ← hg]
    rw [← this]; exact h1

theorem nodup_of_map {α β : Type} (f : α → β) (l : List α) (h : (l.map f).Nodup) : l.Nodup := by
  induction l with
  | nil => exact List.nodup_nil
  | cons a l ih =>
    simp only [List.map_cons, List.nodup_cons] at h ⊢
    exact ⟨fun ha => h.1 (List.mem_map_of_mem ha), ih h.2⟩

/-- **observationally equal states have the same live size** -/
theorem liveCharge_congr {s t : VmState} (h : ObsEq s t) (hu : UniqueAddrs s.heap)
    (hu' : UniqueAddrs t.heap) : liveCharge t = liveCharge s := by
  obtain ⟨e1, m1⟩ := liveCharge_eq s
  obtain ⟨e2, m2⟩ := liveCharge_eq t
  rw [e1, e2]
  apply List.Perm.sum_nat
  apply List.Perm.map
  rw [List.perm_ext_iff_of_nodup
    (List.Nodup.sublist List.filter_sublist (nodup_of_map _ _ hu'))
    (List.Nodup.sublist List.filter_sublist (nodup_of_map _ _ hu))]
  intro p
  rw [m2, m1]
  constructor
  · rintro ⟨hp, hr⟩
    have hr' := (h.reach_iff p.1).mp hr
    have := get_of_mem hu' hp
    rw [h.fwd p.1 hr'] at this
    exact ⟨mem_of_get this, hr'⟩
  · rintro ⟨hp, hr⟩
    have hr' := (h.reach_iff p.1).mpr hr
    have := get_of_mem hu hp
    rw [← h.fwd p.1 hr] at this
    exact ⟨mem_of_get this, hr'⟩

/-! ## the outcome of an allocation with `p` bytes pending -/

theorem allocCollected_trigP (c : Nat) (s : VmState) (p : Nat) (ht : allocTrig c s = true)
    (h : LedgerP s p) : (allocCollected c s).mem.allocated = liveCharge s + p + c := by
  have h1 : LedgerP (allocCollected c s) (p + c) := allocCollected_ledgerP c s p h
  unfold LedgerP at h1
  have h2 : (allocCollected c s).heap = (gc s).heap := by
    unfold allocCollected; rw [if_pos ht]; rfl
  rw [h2] at h1
  unfold liveCharge; omega

/-- **the outcome of an allocation is decided by the live size** (plus what is pending, plus the
    request) — not by the schedule, the amount of garbage or the threshold -/
theorem allocPure_fst (c : Nat) (s : VmState) (p : Nat) (h : LedgerP s p) :
    (allocPure c s).1 =
      if liveCharge s + p + c ≤ s.mem.limit then .ok () else .error .outOfMemory := by
  unfold allocPure
  dsimp only
  have hlim := (allocCollected_mem c s).2
  cases ht : allocTrig c s with
  | true =>
    have ha := allocCollected_trigP c s p ht h
    by_cases hfit : liveCharge s + p + c ≤ s.mem.limit
    · rw [if_neg (by omega), if_pos hfit]
    · rw [if_pos (by omega), if_neg hfit]
  | false =>
    obtain ⟨h1, h2, _⟩ := allocCollected_notrig c s ht
    have hl := liveCharge_le s
    have ha : (allocCollected c s).mem.allocated = s.mem.allocated + c := by rw [h1]; rfl
    unfold LedgerP at h
    rw [if_neg (by omega), if_pos (by omega)]

/-! ## the relation -/

/-- what two runs under different schedules have in common, except for the ledger -/
structure SchedCore (s t : VmState) : Prop where
  obs : ObsEq s t
  limit : t.mem.limit = s.mem.limit
  remaining : t.remaining = s.remaining
  dispatches : t.dispatches = s.dispatches
  hostLog : t.hostLog = s.hostLog
  frameCap : t.frameCap = s.frameCap
  uniqL : UniqueAddrs s.heap
  uniqR : UniqueAddrs t.heap
  freshL : FreshNext s.heap
  freshR : FreshNext t.heap

/-- the simulation relation between two runs of the same program under different schedules -/
structure SchedEq (s t : VmState) : Prop where
  core : SchedCore s t
  invL : Inv s
  invR : Inv t

theorem SchedCore.symm {s t : VmState} (h : SchedCore s t) : SchedCore t s :=
  ⟨h.obs.symm, h.limit.symm, h.remaining.symm, h.dispatches.symm, h.hostLog.symm, h.frameCap.symm,
   h.uniqR, h.uniqL, h.freshR, h.freshL⟩

theorem SchedCore.trans {s t u : VmState} (h1 : SchedCore s t) (h2 : SchedCore t u) : SchedCore s u :=
  ⟨h1.obs.trans h2.obs, h2.limit.trans h1.limit, h2.remaining.trans h1.remaining,
   h2.dispatches.trans h1.dispatches, h2.hostLog.trans h1.hostLog, h2.frameCap.trans h1.frameCap,
   h1.uniqL, h2.uniqR, h1.freshL, h2.freshR⟩

theorem SchedEq.refl {s : VmState} (h : Inv s) : SchedEq s s :=
  ⟨⟨ObsEq.refl s, rfl, rfl, rfl, rfl, rfl, h.unique, h.unique, h.fresh, h.fresh⟩, h, h⟩

theorem SchedEq.symm {s t : VmState} (h : SchedEq s t) : SchedEq t s := ⟨h.core.symm, h.invR, h.invL⟩

theorem SchedEq.trans {s t u : VmState} (h1 : SchedEq s t) (h2 : SchedEq t u) : SchedEq s u :=
  ⟨h1.core.trans h2.core, h1.invL, h2.invR⟩

/-- the relation implies the observable equality of `Props/C02.lean` -/
theorem SchedEq.obsEq {s t : VmState} (h : SchedEq s t) : ObsEq s t := h.core.obs

/-- installing schedules is unobservable -/
theorem schedEq_sched (s : VmState) (h : Inv s) (sch₁ sch₂ : Sched) (i₁ i₂ : Nat) :
    SchedEq { s with sched := sch₁, allocIndex := i₁ } { s with sched := sch₂, allocIndex := i₂ } :=
  ⟨⟨obsEq_of_same rfl rfl rfl rfl rfl rfl, rfl, rfl, rfl, rfl, rfl, h.unique, h.unique, h.fresh, h.fresh⟩,
   inv_of_same (s := s) rfl rfl h, inv_of_same (s := s) rfl rfl h⟩

/-! ## one allocation -/

theorem allocPure_hostLog (c : Nat) (s : VmState) : (allocPure c s).2.hostLog = s.hostLog := by
  unfold allocPure allocCollected
  dsimp only
  split <;> split <;> rfl

theorem allocPure_keep (c : Nat) (s : VmState) : Keep s (allocPure c s).2 := by
  have := (pres_allocBytes (R := Keep) c).rel s
  rwa [show (allocBytes c).go s = allocPure c s from allocBytes_run c s] at this

theorem allocPure_limit (c : Nat) (s : VmState) : (allocPure c s).2.mem.limit = s.mem.limit := by
  have := (lpres_allocBytes c).rel s
  rwa [show (allocBytes c).go s = allocPure c s from allocBytes_run c s] at this

theorem allocPure_unique (c : Nat) (s : VmState) (hu : UniqueAddrs s.heap) (hf : FreshNext s.heap) :
    UniqueAddrs (allocPure c s).2.heap ∧ FreshNext (allocPure c s).2.heap := by
  have := allocBytes_unique c s hu hf
  rwa [allocBytes_run] at this

/-- **one allocation, two schedules**: same outcome, related states, same amount pending -/
theorem allocPure_sim (c : Nat) {s t : VmState} (p : Nat) (h : SchedCore s t) (l₁ : LedgerP s p)
    (l₂ : LedgerP t p) :
    (allocPure c t).1 = (allocPure c s).1 ∧ SchedCore (allocPure c s).2 (allocPure c t).2 := by
  constructor
  · rw [allocPure_fst c s p l₁, allocPure_fst c t p l₂, liveCharge_congr h.obs h.uniqL h.uniqR, h.limit]
  · have ho := allocBytes_schedule_independent c c s t h.obs
    rw [allocBytes_run, allocBytes_run] at ho
    have k1 := allocPure_keep c s
    have k2 := allocPure_keep c t
    exact ⟨ho, by rw [allocPure_limit, allocPure_limit, h.limit],
      by rw [k2.1, k1.1, h.remaining], by rw [k2.2.1, k1.2.1, h.dispatches],
      by rw [allocPure_hostLog, allocPure_hostLog, h.hostLog], by rw [k2.2.2, k1.2.2, h.frameCap],
      (allocPure_unique c s h.uniqL h.freshL).1, (allocPure_unique c t h.uniqR h.freshR).1,
      (allocPure_unique c s h.uniqL h.freshL).2, (allocPure_unique c t h.uniqR h.freshR).2⟩

theorem refund_core (c : Nat) {s t : VmState} (h : SchedCore s t) : SchedCore (refund c s) (refund c t) :=
  ⟨(ObsEq.symm (obsEq_of_same rfl rfl rfl rfl rfl rfl : ObsEq s (refund c s))).trans
      (h.obs.trans (obsEq_of_same rfl rfl rfl rfl rfl rfl)),
   h.limit, h.remaining, h.dispatches, h.hostLog, h.frameCap, h.uniqL, h.uniqR, h.freshL, h.freshR⟩

/-! ## a new object at the same fresh address -/

theorem get_fresh_none {h : Heap} (hf : FreshNext h) : h.get h.next = none := by
  cases hg : h.get h.next with
  | none => rfl
  | some o => exact absurd (hf _ (mem_of_get hg)) (Nat.lt_irrefl _)

theorem withObject_get_ne (o : Obj) (s : VmState) (a : Nat) (ha : a ≠ s.heap.next) :
    (withObject o s).heap.get a = s.heap.get a := by
  unfold withObject Heap.get
  simp only [List.find?_append]
  cases hf : s.heap.objs.find? (fun x => x.1 == a) with
  | some q => rfl
  | none =>
    have : (s.heap.next == a) = false := by simpa using fun h => ha h.symm
    simp [this]

theorem withObject_get_next (o : Obj) (s : VmState) (hf : FreshNext s.heap) :
    (withObject o s).heap.get s.heap.next = some o := by
  have hn := get_fresh_none hf
  unfold Heap.get at hn
  unfold withObject Heap.get
  simp only [List.find?_append]
  cases hfd : s.heap.objs.find? (fun x => x.1 == s.heap.next) with
  | some q => rw [hfd] at hn; cases hn
  | none => simp

theorem rootAddrs_withObject (o : Obj) (s : VmState) (a : Nat) :
    a ∈ rootAddrs (withObject o s) ↔ a = s.heap.next ∨ a ∈ rootAddrs s := by
  unfold rootAddrs
  rw [mem_addrs, mem_addrs]
  have e1 : roots (withObject o s) = (s.stack.contents ++ s.globals ++
      (s.frames.filterMap (·.closure)).map Val.obj ++ s.openUpvalues.map Val.obj) ++
      Val.obj s.heap.next :: s.guards.map Val.obj := rfl
  have e2 : roots s = (s.stack.contents ++ s.globals ++
      (s.frames.filterMap (·.closure)).map Val.obj ++ s.openUpvalues.map Val.obj) ++
      s.guards.map Val.obj := rfl
  rw [e1, e2]
  generalize s.stack.contents ++ s.globals ++
      (s.frames.filterMap (·.closure)).map Val.obj ++ s.openUpvalues.map Val.obj = L
  rw [List.mem_append, List.mem_append, List.mem_cons, Val.obj.injEq]
  constructor
  · rintro (h | h | h)
    · exact Or.inr (Or.inl h)
    · exact Or.inl h
    · exact Or.inr (Or.inr h)
  · rintro (h | h | h)
    · exact Or.inr (Or.inl h)
    · exact Or.inl h
    · exact Or.inr (Or.inr h)

/-- in the heap with the new (childless) object, reachable means: the new address, or reachable
    before -/
theorem reach_withObject (o : Obj) (hk : Heap.children o = []) (s : VmState) (hf : FreshNext s.heap)
    (a : Nat) (h : Reach (withObject o s).heap (rootAddrs (withObject o s)) a) :
    a = s.heap.next ∨ Reach s.heap (rootAddrs s) a := by
  induction h with
  | root hr =>
    rcases (rootAddrs_withObject o s _).mp hr with h | h
    · exact Or.inl h
    · exact Or.inr (Reach.root h)
  | @step a b o' _ hg hc ih =>
    rcases ih with rfl | ih
    · rw [withObject_get_next o s hf] at hg
      cases hg
      rw [hk] at hc; cases hc
    · by_cases ha : a = s.heap.next
      · subst ha
        rw [withObject_get_next o s hf] at hg
        cases hg
        rw [hk] at hc; cases hc
      · rw [withObject_get_ne o s a ha] at hg
        exact Or.inr (Reach.step ih hg hc)

theorem withObject_obsEq (o : Obj) (hk : Heap.children o = []) {s t : VmState} (h : ObsEq s t)
    (hf : FreshNext s.heap) (hf' : FreshNext t.heap) : ObsEq (withObject o s) (withObject o t) := by
  have key : ∀ {s t : VmState}, ObsEq s t → FreshNext s.heap → FreshNext t.heap →
      ∀ a, Reach (withObject o s).heap (rootAddrs (withObject o s)) a →
        (withObject o t).heap.get a = (withObject o s).heap.get a := by
    intro s t h hf hf' a ha
    rcases reach_withObject o hk s hf a ha with rfl | hr
    · rw [withObject_get_next o s hf, ← h.next, withObject_get_next o t hf']
    · by_cases hn : a = s.heap.next
      · subst hn
        rw [withObject_get_next o s hf, ← h.next, withObject_get_next o t hf']
      · rw [withObject_get_ne o s a hn, withObject_get_ne o t a (by rw [h.next]; exact hn)]
        exact h.fwd a hr
  refine ⟨h.stack, h.globals, h.frames, h.openUpvalues, ?_, ?_, key h hf hf', key h.symm hf' hf⟩
  · show t.heap.next :: t.guards = s.heap.next :: s.guards
    rw [h.next, h.guards]
  · show t.heap.next + 1 = s.heap.next + 1
    rw [h.next]

theorem withObject_core (o : Obj) (hk : Heap.children o = []) {s t : VmState} (h : SchedCore s t) :
    SchedCore (withObject o s) (withObject o t) :=
  ⟨withObject_obsEq o hk h.obs h.freshL h.freshR, h.limit, h.remaining, h.dispatches, h.hostLog,
   h.frameCap, (withObject_unique o s h.uniqL h.freshL).1, (withObject_unique o t h.uniqR h.freshR).1,
   (withObject_unique o s h.uniqL h.freshL).2, (withObject_unique o t h.uniqR h.freshR).2⟩

/-! ## the constructors -/

/-- result and final states of two runs of the same computation agree -/
def ResEq {α : Type} (r₁ r₂ : Except ErrKind α × VmState) : Prop :=
  r₂.1 = r₁.1 ∧ SchedEq r₁.2 r₂.2

theorem allocPure_ok_ledgerP (c : Nat) (s : VmState) (p : Nat) (h : LedgerP s p) (u : Unit)
    (hr : (allocPure c s).1 = .ok u) : LedgerP (allocPure c s).2 (p + c) :=
  allocBytes_ok_ledgerP c s _ p u (by rw [allocBytes_run]; exact Prod.ext hr rfl) h

theorem alloc2Pure_core (c1 c2 : Nat) (o : Obj) (hk : Heap.children o = []) {s t : VmState}
    (h : SchedEq s t) :
    (alloc2Pure c1 c2 o t).1 = (alloc2Pure c1 c2 o s).1 ∧
    SchedCore (alloc2Pure c1 c2 o s).2 (alloc2Pure c1 c2 o t).2 := by
  unfold alloc2Pure
  obtain ⟨e1, k1⟩ := allocPure_sim c1 0 h.core h.invL.ledger h.invR.ledger
  have ls := allocPure_ok_ledgerP c1 s 0 h.invL.ledger
  have lt := allocPure_ok_ledgerP c1 t 0 h.invR.ledger
  rcases h1 : allocPure c1 s with ⟨r1, s1⟩
  rcases h1' : allocPure c1 t with ⟨r1', t1⟩
  simp only [h1, h1'] at e1 k1 ls lt
  subst e1
  cases r1' with
  | error e => exact ⟨rfl, k1⟩
  | ok u =>
    have l1 := ls u rfl
    have l1' := lt u rfl
    dsimp only
    obtain ⟨e2, k2⟩ := allocPure_sim c2 (0 + c1) k1 l1 l1'
    rcases h2 : allocPure c2 s1 with ⟨r2, s2⟩
    rcases h2' : allocPure c2 t1 with ⟨r2', t2⟩
    simp only [h2, h2'] at e2 k2
    subst e2
    cases r2' with
    | error e => exact ⟨rfl, refund_core c1 k2⟩
    | ok u =>
      refine ⟨?_, withObject_core o hk k2⟩
      show Except.ok t2.heap.next = Except.ok s2.heap.next
      rw [k2.obs.next]

theorem alloc2Pure_sim (c1 c2 : Nat) (o : Obj) (hk : Heap.children o = []) {s t : VmState}
    (h : SchedEq s t) (hinv : ∀ s, C05.Inv s → C05.Inv (alloc2Pure c1 c2 o s).2) :
    ResEq (alloc2Pure c1 c2 o s) (alloc2Pure c1 c2 o t) :=
  ⟨(alloc2Pure_core c1 c2 o hk h).1, (alloc2Pure_core c1 c2 o hk h).2, hinv s h.invL, hinv t h.invR⟩

theorem alloc1Pure_core (c1 : Nat) (o : Obj) (hk : Heap.children o = []) {s t : VmState}
    (h : SchedEq s t) :
    (alloc1Pure c1 o t).1 = (alloc1Pure c1 o s).1 ∧
    SchedCore (alloc1Pure c1 o s).2 (alloc1Pure c1 o t).2 := by
  unfold alloc1Pure
  obtain ⟨e1, k1⟩ := allocPure_sim c1 0 h.core h.invL.ledger h.invR.ledger
  rcases h1 : allocPure c1 s with ⟨r1, s1⟩
  rcases h1' : allocPure c1 t with ⟨r1', t1⟩
  simp only [h1, h1'] at e1 k1
  subst e1
  cases r1' with
  | error e => exact ⟨rfl, k1⟩
  | ok u =>
    refine ⟨?_, withObject_core o hk k1⟩
    show Except.ok t1.heap.next = Except.ok s1.heap.next
    rw [k1.obs.next]

theorem alloc1Pure_sim (c1 : Nat) (o : Obj) (hk : Heap.children o = []) {s t : VmState}
    (h : SchedEq s t) (hinv : ∀ s, C05.Inv s → C05.Inv (alloc1Pure c1 o s).2) :
    ResEq (alloc1Pure c1 o s) (alloc1Pure c1 o t) :=
  ⟨(alloc1Pure_core c1 o hk h).1, (alloc1Pure_core c1 o hk h).2, hinv s h.invL, hinv t h.invR⟩

/-- **`initTable` under two schedules**: the same address or the same error, related states -/
theorem initTable_sim {s t : VmState} (h : SchedEq s t) : ResEq (initTable.go s) (initTable.go t) := by
  rw [show initTable.go s = _ from initTable_run s, show initTable.go t = _ from initTable_run t]
  exact alloc2Pure_sim _ _ _ rfl h (fun s hs => by have := initTable_inv s hs; rwa [initTable_run] at this)

theorem initString_sim (b : List UInt8) {s t : VmState} (h : SchedEq s t) :
    ResEq ((initString b).go s) ((initString b).go t) := by
  rw [show (initString b).go s = _ from initString_run b s,
    show (initString b).go t = _ from initString_run b t]
  exact alloc2Pure_sim _ _ _ rfl h
    (fun s hs => by have := initString_inv b s hs; rwa [initString_run] at this)

theorem initSimple_sim (o : Obj) (hk : Heap.children o = []) (ho : Heap.chargeOf o = Heap.objCharge)
    {s t : VmState} (h : SchedEq s t) : ResEq ((initSimple o).go s) ((initSimple o).go t) := by
  rw [show (initSimple o).go s = _ from initSimple_run o s,
    show (initSimple o).go t = _ from initSimple_run o t]
  exact alloc1Pure_sim _ _ hk h
    (fun s hs => by have := initSimple_inv o s ho hs; rwa [initSimple_run] at this)

end Cao.SchedSim
