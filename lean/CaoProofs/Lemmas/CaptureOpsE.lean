import CaoProofs.Lemmas.CaptureStep
/-!
# One instruction keeps the capture invariant: `CallFunction` and `Return`
-/
namespace Cao.Vm
open Cao.Gc Cao.C02
set_option linter.unusedSectionVars false
set_option linter.unusedVariables false

variable {p : Prog} {G : Nat → Prop} {lvl cnt : Nat → Nat} {E : ErrKind → Prop} [ErrClass E]
  {re : Reenter} {W0 : List (Option Nat × Nat)} {fs0 : List Frame} {l : Frame} {src : Nat}

/-- other obligations, another call stack (for a state given by its components) -/
theorem InvX.reframe' {x : Option Nat} {W W' : List (Option Nat × Nat)} {fs fs' : List Frame} {s s' : VmState}
    (h : InvX p lvl x W fs s) (hh : s'.heap = s.heap) (hst : s'.stack = s.stack) (hf : s'.frames = fs')
    (hW : ∀ w ∈ W', w ∈ W) (hr : RootedIn W' fs') : InvX p lvl x W' fs' s' :=
  ⟨by rw [hh]; exact h.heap, fun w hw => by rw [hh]; exact h.obl w (hW w hw), hr, hf, by rw [hst]; exact h.top⟩

/-- `push_call_frame` + jump to the label -/
theorem st_callScript {ip : Nat} (hlv : lvl ip = lvl src) (label : UInt32) (ar : Nat) (clo : Option Nat) :
    St (fun s => InvX p lvl none (W0 ++ [(l.closure, lvl src)]) (fs0 ++ [l]) s ∧
          ∀ e, p.labels.find? (fun l => l.1 == label) = some e → FrameOk s.heap (lvl e.2) clo)
      (step.callScript p src ip label ar clo) (StepQ p lvl W0 fs0 l src) E := by
  unfold step.callScript
  refine st_get_bind (fun s0 hs0 => ?_)
  have hfr : s0.frames = fs0 ++ [l] := hs0.1.frames
  dsimp only
  refine st_ite (fun hc => by rw [hfr] at hc; simp at hc) (fun _ => ?_)
  refine st_ite (fun _ => st_throwE_bind (ErrClass.calm (calm_of_plain rfl))) (fun _ => ?_)
  refine st_ite (fun _ => st_throwE_bind (ErrClass.calm (calm_of_plain rfl))) (fun _ => ?_)
  refine st_set_bind ?_
  split
  · next e pos hfind =>
    refine st_pure (fun s hs => ?_)
    subst hs
    have hdl : s0.frames.dropLast = fs0 := by rw [hfr]; simp
    have hll : s0.frames.getLast?.getD ⟨0, 0, 0, none⟩ = l := by rw [hfr]; simp
    refine StepQ.call { l with dst := ip } { src := src, dst := ip, stackOffset := s0.stack.count - ar, closure := clo }
      rfl rfl hlv ?_ ?_
    · refine hs0.1.reframe' rfl rfl ?_ (fun w hw => hw) ?_
      · show s0.frames.dropLast ++ [{ s0.frames.getLast?.getD ⟨0, 0, 0, none⟩ with dst := ip }] ++ _ = _
        rw [hdl, hll]
      · intro w hw c hc
        have := hs0.1.rooted w hw c hc
        rw [mem_fcs_append] at this
        rw [mem_fcs_append, mem_fcs_append]
        rcases this with h1 | h1
        · exact .inl (.inl h1)
        · rw [mem_fcs_singleton] at h1
          exact .inl (.inr (mem_fcs_singleton.2 h1))
    · exact hs0.2 _ hfind
  · exact st_throwE (ErrClass.calm (calm_of_plain rfl))

theorem st_op_callFunction (hs : CapStatic p G lvl cnt) (hsrc : G src)
    (hre : ReSpecS re (InvX p lvl none (W0 ++ [(l.closure, lvl src)]) (fs0 ++ [l])) E)
    (hop : p.bytecode.getD src 0 = Compiler.op.callFunction) :
    St (InvX p lvl none (W0 ++ [(l.closure, lvl src)]) (fs0 ++ [l])) (step p re src)
      (StepQ p lvl W0 fs0 l src) E := by
  have hlv : lvl (src + 1) = lvl src :=
    hs.seq src 1 hsrc (by rw [hop]; decide) (by rw [hop]; decide) (by rw [hop]; decide) (by rw [hop]; decide)
  unfold step; simp only [hop]; st_peel
  refine st_keeps_bind (by st_prim) (fun f => ?_)
  split
  · next a =>
    refine st_get_bind (fun s0 hs0 => ?_)
    split
    · -- a host function
      refine st_conseq (P' := InvX p lvl none (W0 ++ [(l.closure, lvl src)]) (fs0 ++ [l])) ?_
        (fun s h => h ▸ hs0) (fun _ _ h => h) (fun _ h => h)
      st_auto
      q_seq hs, hsrc, hop, 1
    · next h ar heq =>
      refine st_conseq (st_callScript hlv h ar.toNat none) (fun s hs' => ?_) (fun _ _ h => h) (fun _ h => h)
      subst hs'
      exact ⟨hs0, fun e he => .inl (hs0.heap.fn a h ar heq e he)⟩
    · next h ar ups heq =>
      refine st_conseq (st_callScript hlv h ar.toNat (some a)) (fun s hs' => ?_) (fun _ _ h => h) (fun _ h => h)
      subst hs'
      exact ⟨hs0, fun e he => .inr ⟨a, rfl, h, ar, ups, heq, hs0.heap.clo a h ar ups heq (by simp) e he⟩⟩
    · exact st_throwE (ErrClass.calm (calm_of_plain rfl))
  · exact st_throwE (ErrClass.calm (calm_of_plain rfl))

theorem st_op_ret (hroot : RootedIn W0 fs0)
    (hop : p.bytecode.getD src 0 = Compiler.op.ret) :
    St (InvX p lvl none (W0 ++ [(l.closure, lvl src)]) (fs0 ++ [l])) (step p re src)
      (StepQ p lvl W0 fs0 l src) E := by
  unfold step; simp only [hop]; st_peel
  refine st_get_bind (fun s0 hs0 => ?_)
  have hl : s0.frames.getLast? = some l := by rw [hs0.frames]; simp
  have hdl : s0.frames.dropLast = fs0 := by rw [hs0.frames]; simp
  rw [hl]
  dsimp only
  refine st_set_bind (st_of_eq (P' := InvX p lvl none W0 fs0) ?_ ?_)
  · exact hs0.reframe' rfl rfl hdl (fun w hw => List.mem_append_left _ hw) hroot
  · st_auto
    rename_i hK5 _ caller heq _ s1 hK1
    exact StepQ.ret rfl hK1 ⟨caller, by rw [← hK5.frames]; exact heq, rfl⟩

end Cao.Vm
