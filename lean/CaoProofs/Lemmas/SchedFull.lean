import CaoProofs.Lemmas.SchedLift
import CaoProofs.Lemmas.SchedNat
/-!
# Schedule independence for all instructions and host functions — overview

The development is split into

* `SchedRel.lean` — the relation (`Cfg`, `StackEq`, `Agree c K s t`, `Rel`, `VRes`), deep values
  (`Core.ownD_eq`: the fuel of `ownD` counts garbage, `Serde.own_adequate` shows it does not matter),
  the two-run weakest precondition `W2` and its rules;
* `SchedPrim.lean` — the allocation layer (`allocPure_core`: the outcome of an allocation is
  decided by the live size; `w2_initTable`, `w2_initString`, `w2_initSimple`, `w2_tableInsert`) and
  the stack / frame / table / guard primitives;
* `SchedOpsA.lean` … `SchedOpsD.lean` — one simulation lemma per instruction;
* `SchedStepAll.lean` — `StepOk`, `step_sim`: all 47 opcodes of `step`;
* `SchedNatDefs.lean`, `SchedNat.lean` — `IterOk`, `body_sim`, `natSim`: all 13 host functions;
* `SchedCheck.lean` — the checks as Boolean functions (`stepOkB`, `iterOkB`), their invariance
  under the relation, the checked instruction `stepC` and host call `natC`;
* `SchedLift.lean` — `execG` (the dispatch loop with the instruction as a parameter),
  `exec_eq_execG`, `execG_sim`, `runG_sim`, the checked interpreter `execC` / `runC`.

The statements of the properties are in `Props/C02b.lean` (schedule independence) and
`Props/C17b.lean` (a cleared VM behaves like a fresh one; it also uses `AddrShift*.lean`: the
interpreter is equivariant under a uniform shift of all heap addresses).
-/
namespace Cao.SchedFull
open Cao Cao.Vm

/-- **every host function respects the relation** (all 13 of them; the iterating ones
    `__min`/`__max`/`__sort` for callbacks that satisfy `IterOk`) -/
theorem natSimHyp (c : Cfg) : NatSimHyp c :=
  fun re₁ re₂ hre hd hiter => natSim re₁ re₂ hre hd hiter

/-- **every instruction, with every host function plugged in**: related callbacks (which satisfy
    `IterOk` if the instruction calls an iterating host function), related states, `StepOk` -/
theorem step_sim_all {c : Cfg} (p : Prog) (re₁ re₂ : Reenter) (hre : ReSim c re₁ re₂)
    (hpost : IterPost re₁ ∧ IterPost re₂) (src : Nat) {K : Nat → Prop} {s t : VmState}
    (h : Agree c K s t) (hok : StepOk p src s) :
    W2 c (step p re₁ src) (step p re₂ src) (QStep c) s t :=
  step_sim p re₁ re₂ src (fun hd _ => natSim re₁ re₂ hre hd (fun _ => hpost)) h hok

/-- the same for instructions that do not call an iterating host function: no condition on the
    callbacks beyond `ReSim` -/
theorem step_sim_plain {c : Cfg} (p : Prog) (re₁ re₂ : Reenter) (hre : ReSim c re₁ re₂) (src : Nat)
    {K : Nat → Prop} {s t : VmState} (hsite : iterSite p src s = false)
    (h : Agree c K s t) (hok : StepOk p src s) :
    W2 c (step p re₁ src) (step p re₂ src) (QStep c) s t :=
  step_sim p re₁ re₂ src (fun hd hcall => natSim re₁ re₂ hre hd (fun hc => by
    have := calledAt_iter hcall hc
    rw [hsite] at this; cases this)) h hok

/-- **the checked interpreter respects the relation** (any configuration) -/
theorem execC_sim_all {c : Cfg} (p : Prog) (gas : Nat) (task : Task) {K : Nat → Prop} {s t : VmState}
    (h : Agree c K s t) (hok : TaskOk K task) : ExecEq c (execC p gas task s) (execC p gas task t) :=
  execC_sim (natSimHyp c) p gas task h hok

end Cao.SchedFull
