import CaoProofs.Lemmas.CaptureRun
/-!
# One instruction keeps the capture invariant (C04c, stage A) — infrastructure and the plain opcodes

`st_op`: unfold `step` at a known opcode, discard the branches of the other opcodes, run `st_auto`.
-/
namespace Cao.Vm
set_option linter.unusedSectionVars false
set_option linter.unusedVariables false

/-! ## the current frame -/

section cur
variable {p : Prog} {lvl : Nat → Nat} {E : ErrKind → Prop} {x : Option Nat}
  {W : List (Option Nat × Nat)} {fs0 : List Frame} {l : Frame}

theorem st_curFrame_eq {P : VmState → Prop} (hP : ∀ s, P s → s.frames = fs0 ++ [l]) :
    St P curFrame (fun fr s => fr = l ∧ P s) E := by
  constructor
  · intro s a s' hs hg
    have hl : s.frames.getLast? = some l := by rw [hP s hs]; simp
    unfold curFrame at hg
    rw [go_bind] at hg
    simp only [go_get] at hg
    rw [hl] at hg
    simp only [go_pure, Prod.mk.injEq, Except.ok.injEq] at hg
    obtain ⟨rfl, rfl⟩ := hg
    exact ⟨rfl, hs⟩
  · intro s e s' hs hg
    have hl : s.frames.getLast? = some l := by rw [hP s hs]; simp
    unfold curFrame at hg
    rw [go_bind] at hg
    simp only [go_get] at hg
    rw [hl] at hg
    simp at hg

theorem st_curFrame_inv :
    St (InvX p lvl x W (fs0 ++ [l])) curFrame (fun _ => InvX p lvl x W (fs0 ++ [l])) E :=
  st_conseq (st_curFrame_eq (fun s h => h.frames)) (fun _ h => h) (fun _ _ h => h.2) (fun _ h => h)

end cur

macro_rules | `(tactic| st_spec) => `(tactic| with_reducible exact st_curFrame_inv)

/-! ## discarding the branches of the other opcodes -/

macro "st_skip" : tactic => `(tactic| (refine st_ite (fun h => absurd h (by decide)) (fun _ => ?_)))
macro "st_take" : tactic => `(tactic| (refine st_ite (fun _ => ?_) (fun h => absurd (by decide) h)))
macro "st_peel" : tactic => `(tactic| ((repeat st_skip); st_take))

section ops
variable {p : Prog} {G : Nat → Prop} {lvl cnt : Nat → Nat} {E : ErrKind → Prop} [ErrClass E]
  {re : Reenter} {W0 : List (Option Nat × Nat)} {fs0 : List Frame} {l : Frame} {src : Nat}

/-- the outcome of a plain instruction of span `n` -/
theorem stepq_seq (hs : CapStatic p G lvl cnt) (hsrc : G src) {o : UInt8}
    (hop : p.bytecode.getD src 0 = o) (n : Nat) (hsp : Gen.spanOf o = some n)
    (hx : o ≠ Compiler.op.exit) (hg : o ≠ Compiler.op.goto) (hr : o ≠ Compiler.op.ret)
    {ip : Nat} (hip : ip = src + n) {s' : VmState}
    (hK : InvX p lvl none (W0 ++ [(l.closure, lvl src)]) (fs0 ++ [l]) s') :
    StepQ p lvl W0 fs0 l src { ip := ip } s' := by
  subst hop
  refine StepQ.ord rfl hK ?_
  show lvl ip = lvl src
  rw [hip]
  exact hs.seq src n hsrc hsp hx hg hr

end ops

/-- closes the `StepQ` leaf of a plain instruction -/
macro "q_seq" hs:term "," hsrc:term "," hop:term "," n:term : tactic => `(tactic|
  (refine stepq_seq $hs $hsrc $hop $n (by decide) (by decide) (by decide) (by decide) (by omega) ?_
   first | assumption | (apply InvX.congr' <;> first | assumption | rfl)))

macro "st_op" hop:term : tactic => `(tactic|
  (unfold step; simp only [$hop:term]; st_peel; st_auto))

/-! ## moving the invariant -/

section invmove
variable {p : Prog} {lvl : Nat → Nat} {x : Option Nat} {W : List (Option Nat × Nat)} {fs : List Frame}
  {s : VmState}

theorem Complete.mono {h : UInt32} {n m : Nat} (hc : Complete p lvl h n) (hnm : n ≤ m) : Complete p lvl h m :=
  fun e he => Nat.le_trans (hc e he) hnm

/-- a closure object is overwritten by a closure object with at least as many upvalues -/
theorem InvX.set_clo (h : InvX p lvl x W fs s) (c : Nat) (hd ar : UInt32) (ups' : List Nat)
    (hC : x = some c ∨ Complete p lvl hd ups'.length)
    (hold : ∀ h' a' u', s.heap.get c = some (.closure h' a' u') → u'.length ≤ ups'.length) :
    InvX p lvl x W fs { s with heap := s.heap.set c (.closure hd ar ups') } := by
  refine ⟨⟨fun a h1 ar1 hg => ?_, fun a h1 ar1 ups1 hg hx => ?_⟩, fun w hw => ?_, h.rooted, h.frames, h.top⟩
  · simp only at hg
    rw [heap_get_set] at hg
    split at hg
    · cases hgc : s.heap.get c with
      | none => rw [hgc] at hg; cases hg
      | some o => rw [hgc] at hg; simp at hg
    · exact h.heap.fn a h1 ar1 hg
  · simp only at hg
    rw [heap_get_set] at hg
    split at hg
    · next hac =>
      subst hac
      cases hgc : s.heap.get a with
      | none => rw [hgc] at hg; cases hg
      | some o =>
        rw [hgc] at hg
        simp only [Option.map_some, Option.some.injEq, Obj.closure.injEq] at hg
        obtain ⟨rfl, rfl, rfl⟩ := hg
        rcases hC with hC | hC
        · exact absurd hC hx
        · exact hC
    · exact h.heap.clo a h1 ar1 ups1 hg hx
  · rcases h.obl w hw with h0 | ⟨c', hc', hd1, ar1, ups1, hg, hn⟩
    · exact .inl h0
    · refine .inr ⟨c', hc', ?_⟩
      by_cases hcc : c' = c
      · subst hcc
        refine ⟨hd, ar, ups', ?_, Nat.le_trans hn (hold _ _ _ hg)⟩
        simp only
        rw [heap_get_set, if_pos rfl, hg]; rfl
      · refine ⟨hd1, ar1, ups1, ?_, hn⟩
        simp only
        rw [heap_get_set, if_neg hcc]; exact hg

/-- the closure under construction is complete -/
theorem InvX.finish {a : Nat} {hd ar : UInt32} {ups : List Nat} (h : InvX p lvl (some a) W fs s)
    (hg : s.heap.get a = some (.closure hd ar ups)) (hc : Complete p lvl hd ups.length) :
    InvX p lvl none W fs s := by
  refine ⟨⟨h.heap.fn, fun b h1 ar1 ups1 hb _ => ?_⟩, h.obl, h.rooted, h.frames, fun _ hx => by cases hx⟩
  by_cases hba : b = a
  · subst hba
    rw [hg] at hb
    simp only [Option.some.injEq, Obj.closure.injEq] at hb
    obtain ⟨rfl, rfl, rfl⟩ := hb
    exact hc
  · exact h.heap.clo b h1 ar1 ups1 hb (by intro hx; cases hx; exact hba rfl)

/-- other obligations, another call stack -/
theorem InvX.reframe {W' : List (Option Nat × Nat)} {fs' : List Frame} (h : InvX p lvl x W fs s)
    (hW : ∀ w ∈ W', w ∈ W) (hr : RootedIn W' fs') :
    InvX p lvl x W' fs' { s with frames := fs' } :=
  ⟨h.heap, fun w hw => h.obl w (hW w hw), hr, rfl, h.top⟩

theorem InvX.add_obl {n : Nat} {clo : Option Nat} (h : InvX p lvl x W fs s) (hf : FrameOk s.heap n clo)
    (hr : ∀ c, clo = some c → c ∈ fcs fs) : InvX p lvl x (W ++ [(clo, n)]) fs s := by
  refine ⟨h.heap, fun w hw => ?_, fun w hw c hc => ?_, h.frames, h.top⟩
  · rcases List.mem_append.1 hw with hw | hw
    · exact h.obl w hw
    · simp only [List.mem_singleton] at hw; subst hw; exact hf
  · rcases List.mem_append.1 hw with hw | hw
    · exact h.rooted w hw c hc
    · simp only [List.mem_singleton] at hw; subst hw; exact hr c hc

theorem InvX.rootedIn (h : InvX p lvl x W fs s) : RootedIn W fs := h.rooted

theorem mem_fcs_append {fs fs' : List Frame} {c : Nat} : c ∈ fcs (fs ++ fs') ↔ c ∈ fcs fs ∨ c ∈ fcs fs' := by
  unfold fcs; simp [List.filterMap_append]

theorem mem_fcs_singleton {f : Frame} {c : Nat} : c ∈ fcs [f] ↔ f.closure = some c := by
  unfold fcs; simp [List.filterMap_cons]; cases f.closure <;> simp [eq_comm]

end invmove

end Cao.Vm
