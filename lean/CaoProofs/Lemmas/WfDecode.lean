import CaoModel.Bytecode
import CaoProofs.Lemmas.CompilerLemmas
/-!
# Decoder facts for C10 (independent of the compiler)

`Tiled bc a b`: the byte range `[a, b)` of `bc` is a concatenation of whole instructions of the
generated instruction table.  `Start bc t := Tiled bc 0 t`.
-/
namespace Cao.Bytecode
open Cao Cao.Compiler

/-! ## spans -/

theorem span_pos {o : UInt8} {n : Nat} (h : Gen.spanOf o = some n) : 1 ≤ n := by
  unfold Gen.spanOf at h
  cases hf : Gen.instrTable.find? (fun e => e.2.1 == o.toNat) with
  | none => rw [hf] at h; cases h
  | some e =>
    rw [hf] at h
    simp only [Option.map_some, Option.some.injEq] at h
    have hm := List.mem_of_find?_eq_some hf
    have hall : ∀ e ∈ Gen.instrTable, 1 ≤ e.2.2 := by decide
    rw [← h]; exact hall e hm

/-! ## tilings -/

inductive Tiled (bc : Array UInt8) : Nat → Nat → Prop
  | nil (a : Nat) : Tiled bc a a
  | cons {a n b : Nat} : Gen.spanOf (bc.getD a 0) = some n → Tiled bc (a + n) b → Tiled bc a b

abbrev Start (bc : Array UInt8) (t : Nat) : Prop := Tiled bc 0 t

theorem Tiled.le {bc : Array UInt8} {a b : Nat} (h : Tiled bc a b) : a ≤ b := by
  induction h with
  | nil => exact Nat.le_refl _
  | cons _ _ ih => omega

theorem Tiled.trans {bc : Array UInt8} {a b c : Nat} (h1 : Tiled bc a b) (h2 : Tiled bc b c) :
    Tiled bc a c := by
  induction h1 with
  | nil => exact h2
  | cons hs _ ih => exact .cons hs (ih h2)

theorem Tiled.single {bc : Array UInt8} {a n : Nat} (h : Gen.spanOf (bc.getD a 0) = some n) :
    Tiled bc a (a + n) := .cons h (.nil _)

theorem Tiled.congr {bc bc' : Array UInt8} {a b : Nat} (h : Tiled bc a b)
    (he : ∀ i, a ≤ i → i < b → bc'.getD i 0 = bc.getD i 0) : Tiled bc' a b := by
  induction h with
  | nil => exact .nil _
  | @cons a n b hs ht ih =>
    have hn := span_pos hs
    have hle := ht.le
    refine .cons (by rw [he a (Nat.le_refl _) (by omega)]; exact hs) (ih fun i h1 h2 => he i (by omega) h2)

/-- determinism: two tilings from the same origin are comparable -/
theorem Tiled.split {bc : Array UInt8} {a b c : Nat} (h1 : Tiled bc a b) (h2 : Tiled bc a c)
    (hbc : b ≤ c) : Tiled bc b c := by
  induction h1 with
  | nil => exact h2
  | @cons a n b hs ht ih =>
    cases h2 with
    | nil =>
      have := span_pos hs; have := ht.le; omega
    | @cons _ n' _ hs' ht' =>
      rw [hs] at hs'
      cases hs'
      exact ih ht' hbc

/-- distinct instruction starts do not overlap -/
theorem Tiled.no_overlap {bc : Array UInt8} {a p q n : Nat} (hp : Tiled bc a p) (hq : Tiled bc a q)
    (hpq : p < q) (hs : Gen.spanOf (bc.getD p 0) = some n) : p + n ≤ q := by
  have h := hp.split hq (Nat.le_of_lt hpq)
  cases h with
  | nil => omega
  | @cons _ n' _ hs' ht' =>
    rw [hs] at hs'; cases hs'
    exact ht'.le

/-- a start inside a tiled range splits the tiling -/
theorem Tiled.start_lt {bc : Array UInt8} {a p e : Nat} (hp : Tiled bc a p) (he : Tiled bc a e)
    (hpe : p < e) : ∃ n, Gen.spanOf (bc.getD p 0) = some n ∧ p + n ≤ e ∧ Tiled bc a (p + n) := by
  have h := hp.split he (Nat.le_of_lt hpe)
  cases h with
  | nil => omega
  | @cons _ n _ hs ht => exact ⟨n, hs, ht.le, hp.trans (.single hs)⟩

/-! ## `decodeAll` -/

/-- the instruction list of a tiled range -/
theorem decodeAll_of_tiled {bc : Array UInt8} {pos : Nat} (ht : Tiled bc pos bc.size) :
    ∀ (fuel : Nat) (acc : List (Nat × UInt8)), bc.size - pos < fuel →
    ∃ l, decodeAll bc fuel pos acc = .ok (acc.reverse ++ l) ∧
      (∀ x, x ∈ l ↔ (Tiled bc pos x.1 ∧ x.1 < bc.size ∧ x.2 = bc.getD x.1 0)) ∧
      (∀ x, l.getLast? = some x → ∃ n, Gen.spanOf x.2 = some n ∧ x.1 + n = bc.size) := by
  generalize hb : bc.size = b at ht
  induction ht with
  | nil a =>
    intro fuel acc hf
    cases fuel with
    | zero => omega
    | succ fuel =>
      refine ⟨[], ?_, ?_, ?_⟩
      · simp [decodeAll, hb]
      · intro x; simp only [List.not_mem_nil, false_iff]; rintro ⟨h1, h2, _⟩; have := h1.le; omega
      · intro x h; simp at h
  | @cons a n b' hs ht ih =>
    intro fuel acc hf
    have hn := span_pos hs
    have hle := ht.le
    cases fuel with
    | zero => omega
    | succ fuel =>
      obtain ⟨l, hl, hmem, hlast⟩ := ih hb fuel ((a, bc.getD a 0) :: acc) (by omega)
      refine ⟨(a, bc.getD a 0) :: l, ?_, ?_, ?_⟩
      · rw [decodeAll]
        have h1 : (a == bc.size) = false := by simp; omega
        have h2 : ¬ a > bc.size := by omega
        have h3 : ¬ a + n > bc.size := by omega
        simp only [h1, h2, hs, h3, if_false, Bool.false_eq_true]
        rw [hl]; simp
      · intro x
        simp only [List.mem_cons]
        constructor
        · rintro (rfl | hx)
          · exact ⟨.nil _, by simp only; omega, rfl⟩
          · obtain ⟨h1, h2, h3⟩ := (hmem x).1 hx
            exact ⟨.cons hs h1, h2, h3⟩
        · rintro ⟨h1, h2, h3⟩
          cases h1 with
          | nil => left; cases x; simp only at h3 ⊢; rw [h3]
          | @cons _ n' _ hs' ht' =>
            rw [hs] at hs'; cases hs'
            right; exact (hmem x).2 ⟨ht', h2, h3⟩
      · intro x hx
        cases l with
        | nil =>
          simp only [List.getLast?_singleton, Option.some.injEq] at hx
          subst hx
          refine ⟨n, hs, ?_⟩
          cases ht with
          | nil => rfl
          | cons hs2 ht2 =>
            exfalso
            have := (hmem (a + n, bc.getD (a + n) 0)).2 ⟨.nil _, by
              have := span_pos hs2; have := ht2.le; simp only; omega, rfl⟩
            simp at this
        | cons y l' =>
          rw [List.getLast?_cons_cons] at hx
          exact hlast x hx

/-- (standalone) a successful decoding tiles the whole bytecode: the result lists exactly the
instruction starts reachable from 0, in particular `Tiled bc 0 bc.size` -/
theorem decodeAll_tiles_aux {bc : Array UInt8} : ∀ (fuel pos : Nat) (acc l : List (Nat × UInt8)),
    decodeAll bc fuel pos acc = .ok l → Tiled bc pos bc.size
  | 0, _, _, _, h => by simp [decodeAll] at h
  | fuel+1, pos, acc, l, h => by
    rw [decodeAll] at h
    split at h
    · rename_i h1; simp at h1; rw [h1]; exact .nil _
    · split at h
      · cases h
      · dsimp only at h
        split at h
        · cases h
        · rename_i span hs
          split at h
          · cases h
          · exact .cons hs (decodeAll_tiles_aux fuel _ _ _ h)

/-- more fuel does not change a successful decoding -/
theorem decodeAll_fuel_mono {bc : Array UInt8} : ∀ (f1 f2 pos : Nat) (acc l : List (Nat × UInt8)),
    decodeAll bc f1 pos acc = .ok l → f1 ≤ f2 → decodeAll bc f2 pos acc = .ok l
  | 0, _, _, _, _, h, _ => by simp [decodeAll] at h
  | f1+1, 0, _, _, _, _, hle => by omega
  | f1+1, f2+1, pos, acc, l, h, hle => by
    rw [decodeAll] at h ⊢
    split
    · rename_i h1; rw [if_pos h1] at h; exact h
    · rename_i h1; rw [if_neg h1] at h
      split
      · rename_i h2; rw [if_pos h2] at h; exact h
      · rename_i h2; rw [if_neg h2] at h
        dsimp only at h ⊢
        split
        · rename_i hs; rw [hs] at h; exact h
        · rename_i span hs
          rw [hs] at h
          dsimp only at h
          split
          · rename_i h3; rw [if_pos h3] at h; exact h
          · rename_i h3; rw [if_neg h3] at h
            exact decodeAll_fuel_mono f1 f2 _ _ _ h (by omega)

/-- `decodeAll_tiles`: if decoding succeeds then the positions in the result start at 0, each next
position is the previous one plus its span, and the last instruction ends at `bc.size`; stated as:
the result is exactly the list of `(p, bc[p])` for the starts `p < bc.size` of the unique tiling. -/
theorem decodeAll_tiles {bc : Array UInt8} {fuel : Nat} {l : List (Nat × UInt8)}
    (h : decodeAll bc fuel 0 [] = .ok l) :
    Tiled bc 0 bc.size ∧
    (∀ x, x ∈ l ↔ (Start bc x.1 ∧ x.1 < bc.size ∧ x.2 = bc.getD x.1 0)) ∧
    (∀ x, l.getLast? = some x → ∃ n, Gen.spanOf x.2 = some n ∧ x.1 + n = bc.size) := by
  have ht := decodeAll_tiles_aux fuel 0 [] l h
  obtain ⟨l', hl', hmem, hlast⟩ := decodeAll_of_tiled ht (fuel + bc.size + 1) [] (by omega)
  rw [decodeAll_fuel_mono _ _ _ _ _ h (by omega)] at hl'
  simp only [List.reverse_nil, List.nil_append, Except.ok.injEq] at hl'
  subst hl'
  exact ⟨ht, hmem, hlast⟩

/-- `decodeAll_fuel`: the fuel `bc.size + 1` always suffices (every span is ≥ 1): if decoding
succeeds with some fuel, it succeeds with `bc.size + 1` and gives the same result. -/
theorem decodeAll_fuel {bc : Array UInt8} {fuel : Nat} {l : List (Nat × UInt8)}
    (h : decodeAll bc fuel 0 [] = .ok l) : decodeAll bc (bc.size + 1) 0 [] = .ok l := by
  have ht := decodeAll_tiles_aux fuel 0 [] l h
  obtain ⟨l1, hl1, _, _⟩ := decodeAll_of_tiled ht (bc.size + 1) [] (by omega)
  have h1 := decodeAll_fuel_mono _ (fuel + bc.size + 1) _ _ _ hl1 (by omega)
  have h2 := decodeAll_fuel_mono _ (fuel + bc.size + 1) _ _ _ h (by omega)
  rw [h1] at h2
  rw [hl1, h2]

/-! ## little-endian words -/

theorem le32_length (x : UInt32) : (le32 x).length = 4 := by
  simp [le32, Hash.le32]

theorem le32_eq (x : UInt32) :
    le32 x = [x.toUInt8, (x >>> 8).toUInt8, (x >>> 16).toUInt8, (x >>> 24).toUInt8] := by
  have hr : List.range 4 = [0, 1, 2, 3] := by decide
  simp [le32, Hash.le32, hr]

/-- value of the 4 bytes at offset `off` of a byte list -/
def u32L (bs : List UInt8) (off : Nat) : Nat :=
  (bs.getD off 0).toNat + 256 * (bs.getD (off + 1) 0).toNat + 65536 * (bs.getD (off + 2) 0).toNat
    + 16777216 * (bs.getD (off + 3) 0).toNat

theorem u32L_le32 (x : UInt32) : u32L (le32 x) 0 = x.toNat := by
  rw [le32_eq]
  simp only [u32L, List.getD_cons_zero, List.getD_cons_succ, UInt32.toNat_toUInt8,
    UInt32.toNat_shiftRight, Nat.shiftRight_eq_div_pow]
  have := x.toNat_lt
  simp only [UInt32.toNat_ofNat, Nat.reducePow, Nat.reduceMod] at *
  omega

theorem range4 : List.range 4 = [0, 1, 2, 3] := rfl
theorem foldl4 (g : Nat → Nat) :
    (List.range 4).foldl (fun acc i => acc + g i) 0 = g 0 + g 1 + g 2 + g 3 := by
  rw [range4]; simp only [List.foldl_cons, List.foldl_nil, Nat.zero_add]
theorem pow256_2 : (256:Nat)^2 = 65536 := rfl
theorem pow256_3 : (256:Nat)^3 = 16777216 := rfl

theorem rdU32_eq (b : Array UInt8) (p : Nat) :
    rdU32 b p = (b.getD p 0).toNat + 256 * (b.getD (p + 1) 0).toNat + 65536 * (b.getD (p + 2) 0).toNat
      + 16777216 * (b.getD (p + 3) 0).toNat := by
  have h := foldl4 (fun i => (b.getD (p + i) 0).toNat * 256 ^ i)
  unfold rdU32
  rw [h]
  simp only [Nat.add_zero, Nat.pow_zero, Nat.mul_one, Nat.pow_one]
  rw [pow256_2, pow256_3]
  omega

/-! ## `resolveLog` keeps every key -/

theorem resolveLog_mem_key {α β : Type} [BEq α] [LawfulBEq α] (log : List (α × β)) (k : α)
    (h : ∃ p ∈ log, p.1 = k) : ∃ p ∈ resolveLog log, p.1 = k := by
  unfold resolveLog
  suffices hs : ∀ (log acc : List (α × β)), ((∃ p ∈ acc, p.1 = k) ∨ ∃ p ∈ log, p.1 = k) →
      ∃ p ∈ log.foldl (fun acc p => acc.filter (fun q => !(q.1 == p.1)) ++ [p]) acc, p.1 = k from
    hs log [] (.inr h)
  intro log
  induction log with
  | nil =>
    intro acc h
    rcases h with h | ⟨p, hp, _⟩
    · exact h
    · cases hp
  | cons x xs ih =>
    intro acc h
    simp only [List.foldl_cons]
    apply ih
    by_cases hx : x.1 = k
    · exact .inl ⟨x, by simp, hx⟩
    · rcases h with ⟨p, hp, hk⟩ | ⟨p, hp, hk⟩
      · refine .inl ⟨p, ?_, hk⟩
        simp only [List.mem_append, List.mem_filter, List.mem_singleton]
        refine .inl ⟨hp, ?_⟩
        simp only [Bool.not_eq_true', beq_eq_false_iff_ne, ne_eq]
        rw [hk]; exact fun h => hx h.symm
      · rcases List.mem_cons.1 hp with rfl | hp
        · exact absurd hk hx
        · exact .inr ⟨p, hp, hk⟩

end Cao.Bytecode
