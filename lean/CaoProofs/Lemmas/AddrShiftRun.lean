import CaoProofs.Lemmas.AddrShiftStep
import CaoProofs.Lemmas.AddrShiftNat
/-!
# Equivariance under address shifts: lifting from one instruction to `exec` and `run`

`exec_shiftA_of`, `run_shiftA_of`: the dispatch loop, `run_function` and `Vm::run` commute with the
renaming `shiftS δ` as soon as one instruction (`StepSimA`) and a native call (`CallNativeSimA`) do.
Both hold unconditionally (`stepSimA`, `callNativeSimA`), which gives the main theorems
`exec_shiftA`, `run_shiftA`, `run_shiftA_kind` (and `ownD_shiftA` in `AddrShift.lean`).
-/
namespace Cao.Vm
open Cao
set_option linter.unusedSectionVars false
set_option linter.unusedVariables false

/-! ## the lifting -/

theorem failAt_shiftA (δ : Nat) (s : VmState) (e : ErrKind) :
    failAt (shiftS δ s) e = (shiftS δ (failAt s e).1, mapRes δ (failAt s e).2) := rfl

theorem tick_shiftA (δ : Nat) (s : VmState) : (shiftS δ s).tick = shiftS δ s.tick := rfl

theorem enterScript_shiftA (p : Prog) (δ gas : Nat)
    (ih : ∀ (t : Task) (s : VmState),
      exec p gas (shiftTask δ t) (shiftS δ s) = (shiftS δ (exec p gas t s).1, mapRes δ (exec p gas t s).2))
    (s : VmState) (l : UInt32) (ar : Nat) (c : Option Nat) :
    enterScript p gas (shiftS δ s) l ar (c.map (· + δ)) =
      (shiftS δ (enterScript p gas s l ar c).1, mapRes δ (enterScript p gas s l ar c).2) := by
  unfold enterScript
  simp only [shiftS_stack, shiftStack_count, shiftS_frames, List.length_map, shiftS_frameCap]
  generalize List.find? _ p.labels = fo
  rcases fo with _ | ⟨_, pos⟩
  · rfl
  dsimp only
  by_cases h1 : s.stack.count < ar
  · simp only [h1, if_true]; rfl
  by_cases h2 : s.frames.length + 1 > s.frameCap
  · simp only [h1, h2, if_true, if_false]; rfl
  by_cases h3 : s.frames.length + 2 > s.frameCap
  · simp only [h1, h2, h3, if_true, if_false]
    simp only [mapRes, shiftErr, List.map_append, List.map_cons, List.map_nil, shiftFrame_mk]
  simp only [h1, h2, h3, if_false]
  have key := ih (.loop pos) { s with frames := s.frames ++ [⟨pos, p.bytecode.size - 1, s.stack.count - ar, c⟩, ⟨pos, p.bytecode.size - 1, s.stack.count - ar, c⟩] }
  simp only [shiftTask] at key
  rcases hex : exec p gas (.loop pos) { s with frames := s.frames ++ [⟨pos, p.bytecode.size - 1, s.stack.count - ar, c⟩, ⟨pos, p.bytecode.size - 1, s.stack.count - ar, c⟩] } with ⟨s', r⟩
  rw [hex] at key
  generalize hE : exec p gas (Task.loop pos) _ = r'
  have hr' : r' = (shiftS δ s', mapRes δ r) := by
    rw [← hE, ← key]
    congr 1
    simp only [shiftS, List.map_append, List.map_cons, List.map_nil, shiftFrame_mk]
  subst hr'
  cases r with
  | error e =>
    simp only [mapRes, shiftS_frames, ← List.map_take]
    rfl
  | ok v =>
    simp only [mapRes, shiftS_stack, pop_shiftStack, shiftS_frames, ← List.map_take, Option.map_some]
    rfl

/-- **theorem 1, relative to `StepSimA` and `CallNativeSimA`** -/
theorem exec_shiftA_of (p : Prog) (δ : Nat) (hstep : StepSimA p δ) (hcn : CallNativeSimA δ) :
    ∀ (gas : Nat) (task : Task) (s : VmState),
      exec p gas (shiftTask δ task) (shiftS δ s) =
        (shiftS δ (exec p gas task s).1, mapRes δ (exec p gas task s).2) := by
  intro gas
  induction gas with
  | zero => intro t s; rw [exec_zero, exec_zero]; rfl
  | succ gas ih =>
    intro t s
    have hre : ReSimA δ (reenterOf p gas) (reenterOf p gas) :=
      fun f => sima_liftRun (fun s => ih (.call f) s)
    cases t with
    | loop ip =>
      show exec p (gas+1) (.loop ip) (shiftS δ s) = _
      rw [exec_loop, exec_loop]
      simp only [shiftS_remaining, tick_shiftA]
      by_cases hip : ip ≥ p.bytecode.size
      · simp only [hip, if_true]; rfl
      simp only [hip, if_false]
      by_cases h0 : s.remaining - 1 = 0
      · simp only [h0, if_true]; rfl
      simp only [h0, if_false]
      have hs := (hstep _ _ hre ip).sim s.tick
      rw [hs]
      rcases (step p (reenterOf p gas) ip).go s.tick with ⟨r, s'⟩
      cases r with
      | error e => rfl
      | ok ctl =>
        simp only [Except.map, id]
        by_cases hx : ctl.exit = true
        · simp only [hx, if_true]; rfl
        · simp only [hx]
          exact ih (.loop ctl.ip) s'
    | call f =>
      show exec p (gas+1) (.call (shiftV δ f)) (shiftS δ s) = _
      rw [exec_call, exec_call]
      cases f with
      | obj a =>
        simp only [shiftV_obj, shiftS_heap, get_shiftHeap]
        rcases s.heap.get a with _ | o
        · rfl
        · cases o with
          | native h =>
            simp only [Option.map_some, shiftObj_native]
            have hs := (hcn _ _ hre h).sim s
            rw [hs]
            rcases (callNative (reenterOf p gas) h).go s with ⟨r, s'⟩
            cases r with
            | error e => rfl
            | ok u =>
              simp only [Except.map, id, shiftS_stack, pop_shiftStack]
              rfl
          | fn h ar =>
            exact enterScript_shiftA p δ gas ih s h ar.toNat none
          | closure h ar ups =>
            exact enterScript_shiftA p δ gas ih s h ar.toNat (some a)
          | table _ _ => rfl
          | str _ => rfl
          | upvalue _ => rfl
      | nil => rfl
      | int _ => rfl
      | real _ => rfl

/-! ## `run` -/

theorem started_shiftA (δ n : Nat) (s : VmState) : started n (shiftS δ s) = shiftS δ (started n s) := by
  simp only [started, shiftS, List.map_append, List.map_cons, List.map_nil, shiftFrame_mk, Option.map_none]

theorem gasFor_shiftA (δ n : Nat) (s : VmState) : gasFor (shiftS δ s) n = gasFor s n := by
  simp only [gasFor, shiftS_frameCap, shiftS_stack, shiftStack_data, List.length_map]

/-- **theorem 2, relative to `StepSimA` and `CallNativeSimA`** -/
theorem run_shiftA_of (p : Prog) (n δ : Nat) (hstep : StepSimA p δ) (hcn : CallNativeSimA δ) (s : VmState) :
    run p n (shiftS δ s) = (shiftS δ (run p n s).1, (run p n s).2.map (shiftErr δ)) := by
  by_cases h : s.frames.length < s.frameCap
  · have h' : (shiftS δ s).frames.length < (shiftS δ s).frameCap := by
      simpa only [shiftS_frames, List.length_map, shiftS_frameCap] using h
    rw [run_room p n s h, run_room p n _ h']
    simp only [started_shiftA, gasFor_shiftA]
    have key := exec_shiftA_of p δ hstep hcn (gasFor (started n s) n) (.loop 0) (started n s)
    simp only [shiftTask] at key
    rw [key]
    rcases exec p (gasFor (started n s) n) (.loop 0) (started n s) with ⟨s', r⟩
    simp only [shiftS_frames, List.length_map, shiftS_guards]
    cases r with
    | error e => simp only [mapRes, Option.map_some, shiftS, List.map_take]
    | ok v => simp only [mapRes, Option.map_none, shiftS, List.map_take]
  · have h1 : s.frames.length ≥ s.frameCap := Nat.le_of_not_lt h
    have h' : (shiftS δ s).frames.length ≥ (shiftS δ s).frameCap := by
      simpa only [shiftS_frames, List.length_map, shiftS_frameCap] using h1
    rw [run_no_room p n s h1, run_no_room p n _ h']
    rfl

/-! ## the main theorems -/

/-- one instruction commutes with the renaming -/
theorem stepSimA (p : Prog) (δ : Nat) : StepSimA p δ := sima_step_of p (callNativeSimA δ)

/-- **theorem 1**: the dispatch loop and `run_function` are equivariant under a uniform shift of all
    heap addresses — for every state, every fuel, every task -/
theorem exec_shiftA (p : Prog) (δ : Nat) : ∀ (gas : Nat) (task : Task) (s : VmState),
    exec p gas (shiftTask δ task) (shiftS δ s) =
      (shiftS δ (exec p gas task s).1, mapRes δ (exec p gas task s).2) :=
  exec_shiftA_of p δ (stepSimA p δ) (callNativeSimA δ)

/-- **theorem 2**: `Vm::run` is equivariant -/
theorem run_shiftA (p : Prog) (n δ : Nat) (s : VmState) :
    run p n (shiftS δ s) = (shiftS δ (run p n s).1, (run p n s).2.map (shiftErr δ)) :=
  run_shiftA_of p n δ (stepSimA p δ) (callNativeSimA δ) s

/-- the kind and the position of the error of a run do not depend on the addresses -/
theorem run_shiftA_kind (p : Prog) (n δ : Nat) (s : VmState) :
    (run p n (shiftS δ s)).2.map (fun e => (e.kind.name, e.at_)) =
      (run p n s).2.map (fun e => (e.kind.name, e.at_)) := by
  rw [run_shiftA, Option.map_map]
  rfl

/-- what the host can observe of a global after a run: its deep value -/
theorem run_shiftA_global (p : Prog) (n δ : Nat) (s : VmState) (i : Nat) :
    ((run p n (shiftS δ s)).1.globals[i]?).map (ownD (run p n (shiftS δ s)).1.heap) =
      ((run p n s).1.globals[i]?).map (ownD (run p n s).1.heap) := by
  rw [run_shiftA]
  simp only [shiftS_globals, shiftS_heap, List.getElem?_map, Option.map_map]
  congr 1
  funext v
  exact ownD_shiftA δ _ v

/-! ## small facts -/

section small
variable (δ : Nat) (s : VmState)

example : (shiftS δ s).hostLog = s.hostLog := rfl
example : (shiftS δ s).mem = s.mem := rfl
example : (shiftS δ s).remaining = s.remaining := rfl
example : (shiftS δ s).sched = s.sched := rfl
example : (shiftS δ s).dispatches = s.dispatches := rfl
example : (shiftS δ s).gcRuns = s.gcRuns := rfl
example : (shiftS δ s).allocIndex = s.allocIndex := rfl
example : (shiftS δ s).forcedGcs = s.forcedGcs := rfl
example : (shiftS δ s).frameCap = s.frameCap := rfl
example : (shiftS δ s).stack.count = s.stack.count := rfl

theorem shiftS_stack_contents : (shiftS δ s).stack.contents = s.stack.contents.map (shiftV δ) :=
  contents_shiftStack δ s.stack

theorem shiftS_fresh (c : Config) :
    shiftS δ (VmState.fresh c) = { VmState.fresh c with heap := { objs := [], next := 1 + δ } } := by
  simp only [shiftS, VmState.fresh, shiftStack, VStack.new, shiftHeap, List.map_replicate, List.map_nil,
    shiftV_default]

/-- the host log (everything the natives print) of a run is invariant -/
theorem run_shiftA_hostLog (p : Prog) (n : Nat) :
    (run p n (shiftS δ s)).1.hostLog = (run p n s).1.hostLog := by
  rw [run_shiftA]; rfl

/-- so is the memory accounting -/
theorem run_shiftA_mem (p : Prog) (n : Nat) : (run p n (shiftS δ s)).1.mem = (run p n s).1.mem := by
  rw [run_shiftA]; rfl

end small

/-! ## non-vacuity: a concrete program -/

section demo

/-- `InitTable; SetGlobalVar 0; InitTable; Pop; Exit` -/
def demoProg : Prog :=
  { bytecode := #[31, 17, 0, 0, 0, 0, 31, 16, 10], data := #[], labels := [], varNames := [], trace := [] }

def demoState : VmState :=
  VmState.fresh { memLimit := 1000, stackSize := 4, callStackSize := 4, maxInstr := 10 }

example : (run demoProg 10 demoState).2.isNone = true := by decide +kernel
example : (run demoProg 10 demoState).1.globals = [.obj 1] := by decide +kernel
example : (run demoProg 10 demoState).1.heap.next = 3 := by decide +kernel
example : (run demoProg 10 (shiftS 5 demoState)).2.isNone = true := by decide +kernel
example : (run demoProg 10 (shiftS 5 demoState)).1.globals = [.obj 6] := by decide +kernel
example : (run demoProg 10 (shiftS 5 demoState)).1.heap.next = 8 := by decide +kernel
example : (run demoProg 10 (shiftS 5 demoState)).1.heap.objs.map (·.1) = [6, 7] := by decide +kernel
example : (shiftS 5 demoState).heap.next = 6 := by decide +kernel
/-- a run that fails: the budget is too small (`Timeout` at the same address on both machines) -/
example : (run demoProg 3 (shiftS 5 demoState)).2.map (fun e => (e.kind.name, e.at_)) =
    some ("Timeout", 6) := by decide +kernel
example : (run demoProg 3 demoState).2.map (fun e => (e.kind.name, e.at_)) = some ("Timeout", 6) := by
  decide +kernel

end demo

end Cao.Vm
