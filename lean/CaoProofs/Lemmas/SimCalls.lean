import CaoProofs.Lemmas.SimRepeat
/-!
# Static calls (compile side): the code of the functions after `main`

`compileFunction f` labels the current position with the handle of `f`, opens a scope, declares the
parameters (last one first) as locals, compiles the cards, closes the scope (one `Pop` per local)
and emits the `ScalarNil; Return` epilogue.
-/
namespace Cao.Compiler
open Cao Cao.Sim

theorem addLocals_okS : ∀ (ps : List String) {s s' : CState} {L : LCtx}, LInv s L →
    addLocals ps s = .ok ((), s') →
    s'.bytecode = s.bytecode ∧ QV s s' ∧ s'.scopeDepth = s.scopeDepth ∧ s'.jumpTable = s.jumpTable ∧
      LInv s' (L ++ ps.map (fun p => (p, curDepth s)))
  | [], s, s', L, hl, h => by
    simp only [addLocals, pure_run, Except.ok.injEq, Prod.mk.injEq, true_and] at h
    subst h
    exact ⟨rfl, ⟨rfl, rfl, rfl⟩, rfl, rfl, by simpa using hl⟩
  | p :: ps, s, s', L, hl, h => by
    simp only [addLocals] at h
    obtain ⟨i, s1, h1, h2⟩ := bind_ok.1 h
    obtain ⟨_, b1, v1, d1, hl1⟩ := addLocal_ok hl h1
    have j1 := (kp_run (addLocal_kp p) h1).jt
    obtain ⟨b2, v2, d2, j2, hl2⟩ := addLocals_okS ps hl1 h2
    have hcd : curDepth s1 = curDepth s := by unfold curDepth; rw [d1]
    rw [hcd] at hl2
    exact ⟨b2.trans b1, v1.trans v2, d2.trans d1, j2.trans j1, by simpa using hl2⟩

theorem insertLabel_okS {h : UInt32} {pos : Nat} {s s' : CState} {a : Unit} (hr : insertLabel h pos s = .ok (a, s')) :
    s'.bytecode = s.bytecode ∧ QL s s' ∧ QV s s' := by
  unfold insertLabel at hr
  split at hr
  · cases hr
  · simp only [modify_run, Except.ok.injEq, Prod.mk.injEq, true_and] at hr
    subst hr
    exact ⟨rfl, ⟨rfl, rfl, rfl, rfl⟩, ⟨rfl, rfl, rfl⟩⟩

theorem epilogue_bytes (a : Array UInt8) (n : Nat) (o1 o2 o3 : UInt8) :
    (((a ++ (List.replicate n o1).toArray).push o2).push o3).size = a.size + n + 2 ∧
    (∀ j, j < n → (((a ++ (List.replicate n o1).toArray).push o2).push o3).getD (a.size + j) 0 = o1) ∧
    (((a ++ (List.replicate n o1).toArray).push o2).push o3).getD (a.size + n) 0 = o2 ∧
    (((a ++ (List.replicate n o1).toArray).push o2).push o3).getD (a.size + n + 1) 0 = o3 := by
  have e : ((a ++ (List.replicate n o1).toArray).push o2).push o3 =
      (a.toList ++ (List.replicate n o1 ++ [o2, o3])).toArray := by
    apply Array.ext'
    simp
  have hg : ∀ k, (((a ++ (List.replicate n o1).toArray).push o2).push o3).getD (a.size + k) 0 =
      (List.replicate n o1 ++ [o2, o3]).getD k 0 := by
    intro k
    rw [e, Array.getD_eq_getD_getElem?, List.getElem?_toArray, List.getElem?_append_right (by simp),
      List.getD_eq_getElem?_getD]
    simp
  refine ⟨by rw [e]; simp; omega, fun j hj => ?_, ?_, ?_⟩
  · rw [hg, List.getD_eq_getElem?_getD, List.getElem?_append_left (by simpa using hj)]
    simp [hj]
  · rw [hg, List.getD_eq_getElem?_getD, List.getElem?_append_right (by simp)]
    simp
  · rw [Nat.add_assoc, hg, List.getD_eq_getElem?_getD, List.getElem?_append_right (by simp)]
    simp

/-- the locals of a function when its body starts: the parameters, the last one first -/
def irCtx (f : FunctionIr) : LCtx := f.arguments.reverse.map (fun p => (p, (1 : Int)))

/-- all locals of a block at depth 1 have depth 1 -/
theorem blockCtx_depth1 : ∀ (cs : List Card) (L : LCtx), (∀ p ∈ L, p.2 = (1 : Int)) → ∀ p ∈ blockCtx 1 L cs, p.2 = (1 : Int)
  | [], L, hL => hL
  | c :: cs, L, hL => by
    simp only [blockCtx]
    rcases declOf L c with _ | ⟨n, e⟩
    · exact blockCtx_depth1 cs L hL
    · refine blockCtx_depth1 cs _ fun p hp => ?_
      rcases List.mem_append.1 hp with hp | hp
      · exact hL p hp
      · simp only [List.mem_singleton] at hp; rw [hp]

section
variable (B : Array UInt8) (F : List (UInt32 × Nat)) (J : JumpTable) (hB : B.size < 4294967296)
  (hF : ∀ p ∈ F, p.2 < 4294967296) (ft : Feat) (hrepX : RepX B F J ft)
  (hJ : ∀ g fd, ft.lookup g = some fd → ∃ r, look J g = some r)
include hB hF hrepX hJ

/-- the code of a function after `main` -/
theorem compileFunction_specS {f : FunctionIr} {s s' : CState} (h : compileFunction f s = .ok ((), s'))
    (hl : LInv s []) (hsd : s.scopeDepth = [0]) (hj : s.jumpTable = J)
    (hfrag : isBlock ft 1 (irCtx f) f.cards = true)
    (hag : AgreeFrom B s' s.bytecode.size) (hv : ∃ t, F = s'.varIds ++ t) :
    LInv s' [] ∧ s'.scopeDepth = [0] ∧
    ∃ m', BCodes B F J 1 (irCtx f) f.cards s.bytecode.size m' ∧
      (∀ j, j < (blockCtx 1 (irCtx f) f.cards).length →
        B.getD (m' + j) 0 = op.pop) ∧
      B.getD (m' + (blockCtx 1 (irCtx f) f.cards).length) 0 = op.scalarNil ∧
      B.getD (m' + (blockCtx 1 (irCtx f) f.cards).length + 1) 0 = op.ret ∧
      s'.bytecode.size = m' + (blockCtx 1 (irCtx f) f.cards).length + 2 := by
  unfold compileFunction at h
  obtain ⟨_, s1, h1, h⟩ := bind_ok.1 h
  simp only [modify_run, Except.ok.injEq, Prod.mk.injEq, true_and] at h1
  obtain ⟨s1', s1'', hg, h⟩ := bind_ok.1 h
  simp only [get_run, Except.ok.injEq, Prod.mk.injEq] at hg
  obtain ⟨rfl, rfl⟩ := hg
  obtain ⟨_, s2, h2, h⟩ := bind_ok.1 h
  obtain ⟨b2, l2, v2⟩ := insertLabel_okS h2
  obtain ⟨_, s3, h3, h⟩ := bind_ok.1 h
  obtain ⟨b3, lc3, f3, v3, d3⟩ := scopeBegin_ok' h3
  obtain ⟨_, s5, h5, h⟩ := bind_ok.1 h
  obtain ⟨_, s6, h6, h⟩ := bind_ok.1 h
  obtain ⟨_, s7, h7, h8⟩ := bind_ok.1 h
  obtain ⟨b7, l7, v7⟩ := pushInstr_ok h7
  obtain ⟨b8, l8, v8⟩ := pushInstr_ok h8
  unfold processFunction at h5
  obtain ⟨_, s4, h4, h5⟩ := bind_ok.1 h5
  simp only [modify_run, Except.ok.injEq, Prod.mk.injEq, true_and] at h4
  obtain ⟨_, s4b, h4b, h5⟩ := bind_ok.1 h5
  -- the state before the parameters are declared
  have e1b : s1.bytecode = s.bytecode := by rw [← h1]
  have hl1 : LInv s1 [] := by
    refine ⟨?_, ?_, fun p hp => (by cases hp), by simp⟩
    · rw [← h1]; exact hl.fid
    · rw [← h1]; exact hl.locals
  have hsd1 : s1.scopeDepth = [0] := by rw [← h1]; exact hsd
  have hj1 : s1.jumpTable = J := by rw [← h1]; exact hj
  have hsd3 : s3.scopeDepth = [1] := by rw [d3, l2.depth, hsd1]; rfl
  have hl4 : LInv s4 [] := by
    refine ⟨?_, ?_, fun p hp => (by cases hp), by simp⟩
    · rw [← h4]; show s3.functionId = 0; rw [f3, l2.fid]; exact hl1.fid
    · rw [← h4]; show s3.locals = _; rw [lc3, l2.locals]; exact hl1.locals
  have hsd4 : s4.scopeDepth = [1] := by rw [← h4]; exact hsd3
  have hj4 : s4.jumpTable = J := by rw [← h4]; show s3.jumpTable = J; rw [(kp_run scopeBegin_kp h3).jt, l2.jt]; exact hj1
  have e4b : s4.bytecode = s.bytecode := by rw [← h4]; show s3.bytecode = _; rw [b3, b2, e1b]
  have hcd4 : curDepth s4 = 1 := by unfold curDepth; rw [hsd4]; rfl
  obtain ⟨b4b, v4b, d4b, j4b, hl4b⟩ := addLocals_okS f.arguments.reverse hl4 h4b
  rw [hcd4, List.nil_append] at hl4b
  -- what follows the cards only appends
  have x6 := ((scopeEnd_mono (k := s5.bytecode.size)).run _ _ _ h6 (Nat.le_refl _)).1
  have x7 := ((pushInstr_mono (k := s5.bytecode.size) op.scalarNil).run _ _ _ h7 x6.size_le).1
  have x8 := ((pushInstr_mono (k := s5.bytecode.size) op.ret).run _ _ _ h8 (Nat.le_trans x6.size_le x7.size_le)).1
  have x5f : Ext s5.bytecode.size s5 s' := (x6.trans x7).trans x8
  have hsz5 := ((processFunctionCards_mono (k := s4b.bytecode.size) 0 f.cards).run _ _ _ h5 (Nat.le_refl _)).1.size_le
  have v5f : VExt s5 s' := ((scopeEnd_vr.run _ _ _ h6).trans ((pushInstr_vr _).run _ _ _ h7)).trans ((pushInstr_vr _).run _ _ _ h8)
  have e4bb : s4b.bytecode.size = s.bytecode.size := by rw [b4b, e4b]
  obtain ⟨hl5, hd5, hcs⟩ := bcodes_of_processFunctionCards B F J hB hF ft hrepX hJ 1 f.cards _ hfrag 0 s4b s5 h5 hl4b
    (by unfold curDepth; rw [d4b, hsd4]; rfl) (by rw [d4b, hsd4]; exact List.cons_ne_nil _ _) (by rw [j4b]; exact hj4)
    (by rw [e4bb]; exact hag.sub (Nat.le_refl _) x5f.size_le fun i _ hi => x5f.pref i hi)
    (vpre_back hv v5f)
  rw [e4bb] at hcs
  have hsd5 : s5.scopeDepth = [1] := by rw [hd5, d4b, hsd4]
  have hdd5 : depthDown s5.scopeDepth = [0] := by rw [hsd5]; rfl
  obtain ⟨b6, v6, loc6, fid6, dep6⟩ := scopeEnd_split (L := [])
    (L' := blockCtx 1 (irCtx f) f.cards) hl5.fid (by simpa using hl5.locals)
    (fun p hp => by cases hp)
    (fun p hp => by
      rw [hdd5, blockCtx_depth1 _ _ (fun q hq => by
        simp only [irCtx, List.mem_map] at hq; obtain ⟨_, _, rfl⟩ := hq; rfl) p hp]
      decide) h6
  generalize hlen : (blockCtx 1 (irCtx f) f.cards).length = len at b6 ⊢
  have hb' : s'.bytecode = ((s5.bytecode ++ (List.replicate len op.pop).toArray).push op.scalarNil).push op.ret := by
    rw [b8, b7, b6]
  obtain ⟨q1, q2, q3, q4⟩ := epilogue_bytes s5.bytecode len op.pop op.scalarNil op.ret
  rw [← hb'] at q1 q2 q3 q4
  refine ⟨⟨by rw [l8.fid, l7.fid]; exact fid6, by rw [l8.locals, l7.locals]; exact loc6, fun p hp => (by cases hp), by simp⟩,
    by rw [l8.depth, l7.depth, dep6, hdd5], s5.bytecode.size, hcs, fun j hj => ?_, ?_, ?_, q1⟩
  · rw [hag.getD (by omega) (by omega)]; exact q2 j hj
  · rw [hag.getD (by omega) (by omega)]; exact q3
  · rw [hag.getD (by omega) (by omega)]; exact q4

end

/-- where the code of a function is in the final program -/
def FnCodeAt (B : Array UInt8) (F : List (UInt32 × Nat)) (J : JumpTable) (f : FunctionIr) (pos : Nat) : Prop :=
  ∃ m', BCodes B F J 1 (irCtx f) f.cards pos m' ∧
    (∀ j, j < (blockCtx 1 (irCtx f) f.cards).length → B.getD (m' + j) 0 = op.pop) ∧
    B.getD (m' + (blockCtx 1 (irCtx f) f.cards).length) 0 = op.scalarNil ∧
    B.getD (m' + (blockCtx 1 (irCtx f) f.cards).length + 1) 0 = op.ret ∧
    m' + (blockCtx 1 (irCtx f) f.cards).length + 1 < B.size

section
variable (B : Array UInt8) (F : List (UInt32 × Nat)) (J : JumpTable) (hB : B.size < 4294967296)
  (hF : ∀ p ∈ F, p.2 < 4294967296) (ft : Feat) (hrepX : RepX B F J ft)
  (hJ : ∀ g fd, ft.lookup g = some fd → ∃ r, look J g = some r)
include hB hF hrepX hJ

/-- the functions after `main`, as long as they are in the fragment -/
theorem compileFunctions_prefixS : ∀ (pre post : List FunctionIr) (s s' : CState),
    compileFunctions (pre ++ post) s = .ok ((), s') → LInv s [] → s.scopeDepth = [0] → s.jumpTable = J →
    (∀ f ∈ pre, isBlock ft 1 (irCtx f) f.cards = true) →
    AgreeFrom B s' s.bytecode.size → (∃ t, F = s'.varIds ++ t) →
    ∀ f ∈ pre, ∃ pos, (f.handle, pos) ∈ s'.labels ∧ FnCodeAt B F J f pos
  | [], post, s, s', _, _, _, _, _, _, _ => fun f hf => by cases hf
  | f :: pre, post, s, s', h, hl, hsd, hj, hfr, hag, hv => by
    simp only [List.cons_append, compileFunctions] at h
    obtain ⟨_, s1, h1, h2⟩ := bind_ok.1 h
    have x2 := ((compileFunctions_mono (k := s1.bytecode.size) (pre ++ post)).run _ _ _ h2 (Nat.le_refl _)).1
    have v2 := (compileFunctions_vr (pre ++ post)).run _ _ _ h2
    have hsz1 := ((compileFunction_mono (k := s.bytecode.size) f).run _ _ _ h1 (Nat.le_refl _)).1.size_le
    obtain ⟨_, hlab, _, hk1, _⟩ := compileFunction_spec h1
    obtain ⟨hk2, _, _⟩ := compileFunctions_spec (pre ++ post) s1 s' h2
    obtain ⟨hl1, hsd1, m', c1, c2, c3, c4, c5⟩ := compileFunction_specS B F J hB hF ft hrepX hJ h1 hl hsd hj
      (hfr f (List.mem_cons_self ..))
      (hag.sub (Nat.le_refl _) x2.size_le fun i _ hi => x2.pref i hi) (vpre_back hv v2)
    have ih := compileFunctions_prefixS pre post s1 s' h2 hl1 hsd1 (by rw [hk1.jt]; exact hj)
      (fun g hg => hfr g (List.mem_cons_of_mem _ hg)) (hag.weaken hsz1) hv
    intro g hg
    rcases List.mem_cons.1 hg with rfl | hg
    · refine ⟨s.bytecode.size, hk2.mem hlab, m', c1, c2, c3, c4, ?_⟩
      have := hag.size_le
      have := x2.size_le
      omega
    · exact ih g hg

end

/-- the layout of a compiled program: `main`, then the functions of the fragment (the first `pre`
    functions after `main`) -/
theorem compileUnit_allS {ft : Feat} (hrepX : RepXAll ft) {unit : Array FunctionIr} {sf : CState}
    (h : compileUnit unit {} = .ok ((), sf))
    (hJ : ∀ g fd, ft.lookup g = some fd → ∃ r, look (jumpTableOf unit.toList) g = some r)
    (hargs : unit[0]!.arguments = []) (hst : isBlock ft 1 [] unit[0]!.cards = true)
    (pre post : List FunctionIr) (hpp : unit.toList.drop 1 = pre ++ post)
    (hpre : ∀ f ∈ pre, isBlock ft 1 (irCtx f) f.cards = true)
    (hB : sf.bytecode.size < 4294967296) (hV : sf.varIds.length < 4294967296) :
    (∃ mainEnd, BCodes sf.bytecode sf.varIds (jumpTableOf unit.toList) 1 [] unit[0]!.cards 0 mainEnd ∧
      (∀ j, j < (blockCtx 1 [] unit[0]!.cards).length → sf.bytecode.getD (mainEnd + j) 0 = op.pop) ∧
      sf.bytecode.getD (mainEnd + (blockCtx 1 [] unit[0]!.cards).length) 0 = op.exit ∧
      mainEnd + (blockCtx 1 [] unit[0]!.cards).length < sf.bytecode.size) ∧ VInv sf ∧
    ∀ f ∈ pre, ∃ pos, (f.handle, pos) ∈ sf.labels ∧
      FnCodeAt sf.bytecode sf.varIds (jumpTableOf unit.toList) f pos := by
  have hinv : VInv sf := ((compileUnit_vr unit).run _ _ _ h).inv ⟨rfl, fun p hp => (by cases hp), List.Pairwise.nil⟩
  have hF : ∀ p ∈ sf.varIds, p.2 < 4294967296 := fun p hp => by
    have := hinv.lt p hp; rw [hinv.len] at this; omega
  unfold compileUnit at h
  split at h
  · obtain ⟨_, _, h1, _⟩ := bind_ok.1 h
    simp at h1
  · obtain ⟨_, s1, h1, h⟩ := bind_ok.1 h
    have e1 := addFunctions_okS _ h1
    have ej1 : s1.jumpTable = jumpTableOf unit.toList := by
      have := ((addFunctions_ok _ _ _).1 h1).2.2
      rw [this]; simp
    obtain ⟨_, s2, h2, h⟩ := bind_ok.1 h
    simp only [modify_run, Except.ok.injEq, Prod.mk.injEq, true_and] at h2
    obtain ⟨_, s3, h3, h⟩ := bind_ok.1 h
    unfold scopeBegin at h3
    simp only [modify_run, Except.ok.injEq, Prod.mk.injEq, true_and] at h3
    obtain ⟨_, s5, h5, h⟩ := bind_ok.1 h
    unfold processFunction at h5
    obtain ⟨_, s4, h4, h5⟩ := bind_ok.1 h5
    simp only [modify_run, Except.ok.injEq, Prod.mk.injEq, true_and] at h4
    rw [hargs] at h5
    simp only [List.reverse_nil, addLocals, pure_bind] at h5
    obtain ⟨_, s6, h6, h⟩ := bind_ok.1 h
    simp only [modify_run, Except.ok.injEq, Prod.mk.injEq, true_and] at h6
    obtain ⟨_, s7, h7, h⟩ := bind_ok.1 h
    obtain ⟨_, s8, h8, h⟩ := bind_ok.1 h
    obtain ⟨_, s9, h9, h⟩ := bind_ok.1 h
    obtain ⟨_, s10, h10, h11⟩ := bind_ok.1 h
    simp only [modify_run, Except.ok.injEq, Prod.mk.injEq, true_and] at h10
    -- the state in which the cards of `main` are compiled
    have hb4 : s4.bytecode = #[] := by rw [← h4, ← h3, ← h2, e1]
    have hsd4 : s4.scopeDepth = [1] := by rw [← h4, ← h3, ← h2, e1]; rfl
    have hl4 : LInv s4 [] := by
      refine ⟨?_, ?_, fun p hp => (by cases hp), by simp⟩
      · rw [← h4, ← h3, ← h2, e1]
      · rw [← h4, ← h3, ← h2, e1]; rfl
    -- what follows only appends
    have x6 : Ext s5.bytecode.size s5 s6 := Ext.of_eq (by rw [← h6]) (by rw [← h6])
    have x7 := ((scopeEnd_mono (k := s5.bytecode.size)).run _ _ _ h7 x6.size_le).1
    have x8 := ((processCard_mono (k := s7.bytecode.size) .abort).run _ _ _ h8 (Nat.le_refl _)).1
    have x9 := ((compileFunctions_mono (k := s8.bytecode.size) _).run _ _ _ h9 (Nat.le_refl _)).1
    have x10 : Ext s8.bytecode.size s9 s10 := Ext.of_eq (by rw [← h10]) (by rw [← h10])
    have x11 := ((pushInstr_mono (k := s8.bytecode.size) op.exit).run _ _ _ h11
      (Nat.le_trans x9.size_le x10.size_le)).1
    have x8f : Ext s8.bytecode.size s8 sf := (x9.trans x10).trans x11
    have x7f : Ext s7.bytecode.size s7 sf := x8.trans (x8f.weaken x8.size_le)
    have x5f : Ext s5.bytecode.size s5 sf := (x6.trans x7).trans (x7f.weaken (Nat.le_trans x6.size_le x7.size_le))
    have v6 : VExt s5 s6 := VExt.of_eq (by rw [← h6]) (by rw [← h6]) (by rw [← h6])
    have v10 : VExt s9 s10 := VExt.of_eq (by rw [← h10]) (by rw [← h10]) (by rw [← h10])
    have v5f : VExt s5 sf :=
      ((((v6.trans (scopeEnd_vr.run _ _ _ h7)).trans ((processCard_vr .abort).run _ _ _ h8)).trans
        ((compileFunctions_vr _).run _ _ _ h9)).trans v10).trans ((pushInstr_vr _).run _ _ _ h11)
    obtain ⟨t, ht⟩ := v5f.ids
    have hj4 : s4.jumpTable = jumpTableOf unit.toList := by rw [← h4, ← h3, ← h2]; exact ej1
    obtain ⟨hl5, hd5, hcs⟩ := bcodes_of_processFunctionCards sf.bytecode sf.varIds (jumpTableOf unit.toList) hB hF ft
      (hrepX _ _ _ hB hF) hJ 1 _ [] hst 0 s4 s5 h5 hl4
      (by unfold curDepth; rw [hsd4]; rfl) (by rw [hsd4]; exact List.cons_ne_nil _ _) hj4
      ⟨x5f.size_le, fun i _ hi => x5f.pref i hi⟩ ⟨t, ht⟩
    rw [hb4] at hcs
    -- the `Pop`s of the locals and the `Exit` after the cards of `main`
    have hsd6 : s6.scopeDepth = [1] := by rw [← h6, hd5, hsd4]
    have hdepths : ∀ L cs, (∀ p ∈ L, p.2 = (1 : Int)) → ∀ p ∈ blockCtx 1 L cs, p.2 = (1 : Int) := by
      intro L cs
      induction cs generalizing L with
      | nil => intro hL; exact hL
      | cons c cs ih =>
        intro hL
        simp only [blockCtx]
        rcases declOf L c with _ | ⟨n, e⟩
        · exact ih L hL
        · refine ih _ fun p hp => ?_
          rcases List.mem_append.1 hp with hp | hp
          · exact hL p hp
          · simp only [List.mem_singleton] at hp; rw [hp]
    obtain ⟨b7, _, loc7, fid7, dep7⟩ := scopeEnd_split (L := []) (L' := blockCtx 1 [] unit[0]!.cards) (s := s6)
      (by rw [← h6]; exact hl5.fid) (by rw [← h6]; simpa using hl5.locals)
      (fun p hp => by cases hp)
      (fun p hp => by
        rw [hsd6, hdepths [] _ (fun p hp => by cases hp) p hp]
        decide) h7
    simp only [processCard] at h8
    obtain ⟨_, s7', h8a, h8b⟩ := bind_ok.1 h8
    obtain ⟨b8a, l8a, _⟩ := cardLabel_ok' h8a
    obtain ⟨b8b, l8b, _⟩ := pushInstr_ok h8b
    have e7 : s7.bytecode = s5.bytecode ++ (List.replicate (blockCtx 1 [] unit[0]!.cards).length op.pop).toArray := by
      rw [b7, ← h6]
    have hsz7 : s7.bytecode.size = s5.bytecode.size + (blockCtx 1 [] unit[0]!.cards).length := by
      rw [e7]; simp
    have e8 : s8.bytecode = s7.bytecode.push op.exit := by rw [b8b, b8a]
    have hsz8 : s8.bytecode.size = s7.bytecode.size + 1 := by rw [e8]; simp
    -- the functions after `main`
    have hl8 : LInv s8 [] :=
      ⟨by rw [l8b.fid, l8a.fid]; exact fid7, by rw [l8b.locals, l8a.locals]; exact loc7, fun p hp => (by cases hp), by simp⟩
    have hsd8 : s8.scopeDepth = [0] := by rw [l8b.depth, l8a.depth, dep7, hsd6]; rfl
    have hj8 : s8.jumpTable = jumpTableOf unit.toList := by
      rw [l8b.jt, l8a.jt, (kp_run scopeEnd_kp h7).jt, ← h6]
      show s5.jumpTable = _
      rw [(kp_run (processFunctionCards_kp 0 _) h5).jt]; exact hj4
    have x10' : Ext s9.bytecode.size s9 s10 := Ext.of_eq (by rw [← h10]) (by rw [← h10])
    have x11' := ((pushInstr_mono (k := s9.bytecode.size) op.exit).run _ _ _ h11 x10'.size_le).1
    have x10f : Ext s9.bytecode.size s9 sf := x10'.trans x11'
    have v10f : VExt s9 sf := v10.trans ((pushInstr_vr _).run _ _ _ h11)
    rw [hpp] at h9
    have hfns := compileFunctions_prefixS sf.bytecode sf.varIds (jumpTableOf unit.toList) hB hF ft
      (hrepX _ _ _ hB hF) hJ pre post s8 s9 h9 hl8 hsd8 hj8 hpre
      ⟨x10f.size_le, fun i _ hi => x10f.pref i hi⟩ (by obtain ⟨t', ht'⟩ := v10f.ids; exact ⟨t', ht'⟩)
    have k10 : KeepsJ s9 sf := by
      have k9 : KeepsJ s9 s10 := by rw [← h10]; exact ⟨rfl, [], (List.append_nil _).symm⟩
      exact k9.trans (kp_run (pushInstr_kp _) h11).toJ
    refine ⟨⟨s5.bytecode.size, by simpa using hcs, fun j hj => ?_, ?_, by have := x8f.size_le; omega⟩, hinv,
      fun f hf => ?_⟩
    · rw [getD_congr (x7f.pref (s5.bytecode.size + j) (by omega)), e7]
      simp [Array.getD_eq_getD_getElem?, hj]
    · rw [← hsz7, getD_congr (x8f.pref s7.bytecode.size (by omega)), e8]
      simp [Array.getD_eq_getD_getElem?]
    · obtain ⟨pos, hl, hc⟩ := hfns f hf
      exact ⟨pos, k10.mem hl, hc⟩



/-! ## the functions of the root module in the stream of the compiler -/

/-- the stream starts with the functions of the root module, `main` swapped to the front -/
theorem intoIrStream_fns {m std : Module} {limit : Nat} {unit : Array FunctionIr}
    (h : intoIrStream m std limit = .ok unit) {mi : Nat}
    (hi : m.functions.findIdx? (fun p => p.1 == "main") = some mi) :
    m.functions.length ≤ unit.size ∧ mi < m.functions.length ∧
    ∀ k, k < m.functions.length → ∃ nf, m.functions[if k = 0 then mi else if k = mi then 0 else k]? = some nf ∧
      unit[k]!.name = nf.1 ∧ unit[k]!.ns = [] ∧ unit[k]!.arguments = nf.2.arguments ∧ unit[k]!.cards = nf.2.cards := by
  unfold intoIrStream at h
  obtain ⟨_, _, h⟩ := except_bind_ok h
  have hfn : (Module.mk (m.submodules ++ [("std", std)]) m.functions m.imports).functions = m.functions := rfl
  rw [hfn, hi] at h
  obtain ⟨i', hi', h⟩ := except_bind_ok h
  simp only [pure, Except.pure, Except.ok.injEq] at hi'
  subst hi'
  obtain ⟨out, hout, h⟩ := except_bind_ok h
  simp only [pure, Except.pure, Except.ok.injEq] at h
  simp only [flatten] at hout
  split at hout
  · cases hout
  · obtain ⟨imports, _, hout⟩ := except_bind_ok hout
    obtain ⟨out1, h1, h2⟩ := except_bind_ok hout
    obtain ⟨a1, a2, a3⟩ := flattenFns_spec [] imports m.functions 0 #[] out1 h1
    obtain ⟨b1, b2⟩ := flattenSubs_ext _ limit [] out1 out h2
    have hsz1 : out1.size = m.functions.length := by simpa using a1
    have hmi : mi < m.functions.length := by
      have := List.findIdx?_eq_some_iff_getElem.1 hi
      exact this.1
    have hout_k : ∀ j, j < m.functions.length → ∃ ir nf, out[j]? = some ir ∧ m.functions[j]? = some nf ∧
        ir.arguments = nf.2.arguments ∧ ir.cards = nf.2.cards ∧ ir.name = nf.1 ∧ ir.ns = [] := by
      intro j hj
      obtain ⟨ir, nf, e1, e2, e3, e4, e5, e6⟩ := a3 j hj
      exact ⟨ir, nf, by rw [b2 j (by omega)]; simpa using e1, e2, e3, e4, e5, e6⟩
    have hszo : m.functions.length ≤ out.size := by omega
    have husz : unit.size = out.size := by rw [← h]; simp
    refine ⟨by omega, hmi, fun k hk => ?_⟩
    -- `unit[k]` is `out[σ k]`
    have hunit : unit[k]? = out[if k = 0 then mi else if k = mi then 0 else k]? := by
      rw [← h]
      simp only [Array.set!_eq_setIfInBounds, getElem!_def]
      by_cases hk0 : k = 0
      · subst hk0
        simp only [if_true]
        by_cases hm0 : mi = 0
        · subst hm0
          rw [Array.getElem?_setIfInBounds_self_of_lt (by simp; omega)]
          rcases ho : out[0]? with _ | x
          · have : 0 < out.size := by omega
            rw [Array.getElem?_eq_none_iff] at ho; omega
          · rfl
        · rw [Array.getElem?_setIfInBounds_ne (by omega), Array.getElem?_setIfInBounds_self_of_lt (by omega)]
          rcases ho : out[mi]? with _ | x
          · rw [Array.getElem?_eq_none_iff] at ho; omega
          · rfl
      · simp only [hk0, if_false]
        by_cases hkm : k = mi
        · subst hkm
          simp only [if_true]
          rw [Array.getElem?_setIfInBounds_self_of_lt (by simp; omega)]
          rcases ho : out[0]? with _ | x
          · rw [Array.getElem?_eq_none_iff] at ho; omega
          · rfl
        · simp only [hkm, if_false]
          rw [Array.getElem?_setIfInBounds_ne (by omega), Array.getElem?_setIfInBounds_ne (by omega)]
    have hσ : (if k = 0 then mi else if k = mi then 0 else k) < m.functions.length := by
      split
      · exact hmi
      · split <;> omega
    obtain ⟨ir, nf, e1, e2, e3, e4, e5, e6⟩ := hout_k _ hσ
    have hget : unit[k]! = ir := by
      rw [getElem!_def, hunit, e1]
    rw [hget]
    exact ⟨nf, e2, e5, e6, e3, e4⟩

/-! ## the compiled program -/

/-- the label log of the compilation (before it is resolved into the label table of the program) -/
def rawLabels (m std : Module) (limit : Nat) : List (UInt32 × Nat) :=
  match intoIrStream m std limit with
  | .ok unit =>
    match (compileUnit unit).run {} with
    | .ok ((), s) => s.labels
    | .error _ => []
  | .error _ => []

/-- the handles (hashes of the qualified names) of the functions of the compilation unit -/
def fnHandles (m std : Module) (limit : Nat) : List UInt32 :=
  match intoIrStream m std limit with
  | .ok unit => unit.toList.map (·.handle)
  | .error _ => []

/-- no handle of `H` was inserted as a label with two different positions (the label handles of the functions
    and of the cards are hashes; the labels of cards may repeat, which is harmless) -/
def LabelsFunctional (H : List UInt32) (l : List (UInt32 × Nat)) : Prop :=
  ∀ q ∈ l, ∀ q' ∈ l, q'.1 ∈ H → q.1 = q'.1 → q.2 = q'.2

theorem look_of_unique {fs : List FunctionIr} (hpw : (fs.map FunctionIr.fullName).Pairwise (· ≠ ·)) {f : FunctionIr}
    (hf : f ∈ fs) : look (jumpTableOf fs) f.fullName = some (tgt f) := by
  unfold look jumpTableOf
  induction fs with
  | nil => cases hf
  | cons g gs ih =>
    simp only [List.map_cons, List.pairwise_cons] at hpw
    rw [List.map_cons, List.find?_cons]
    rcases List.mem_cons.1 hf with rfl | hf
    · simp
    · have hne : g.fullName ≠ f.fullName := hpw.1 _ (List.mem_map.2 ⟨f, hf, rfl⟩)
      have : (g.fullName == f.fullName) = false := by simpa using hne
      simp only [this]
      exact ih hpw.2 hf

theorem fullName_root {f : FunctionIr} (h : f.ns = []) : f.fullName = f.name := by
  unfold FunctionIr.fullName; rw [h]; rfl

theorem swap_surj {mi j n : Nat} (hmi : mi < n) (hj : j < n) :
    ∃ k, k < n ∧ (if k = 0 then mi else if k = mi then 0 else k) = j := by
  by_cases hj0 : j = 0
  · refine ⟨mi, hmi, ?_⟩
    subst hj0
    by_cases h0 : mi = 0
    · rw [if_pos h0]; exact h0
    · rw [if_neg h0, if_pos rfl]
  · by_cases hjm : j = mi
    · exact ⟨0, by omega, by rw [if_pos rfl]; exact hjm.symm⟩
    · exact ⟨j, hj, by rw [if_neg hj0, if_neg hjm]⟩

/-- the layout of a compiled program of the fragment with static calls: `main` from address 0, and
    for every function that may be called its handle and arity in the jump table, the label of the
    handle, and its code at the label -/
theorem compile_allS {ft : Feat} (hrepX : RepXAll ft) {m std : Module} {limit : Nat} {p : Program}
    (h : compile m std limit = .ok p)
    {mi : Nat} {nf : String × Func}
    (hi : m.functions.findIdx? (fun p => p.1 == "main") = some mi) (hf : m.functions[mi]? = some nf)
    (hargs : nf.2.arguments = []) (hst : isBlock ft 1 [] nf.2.cards = true)
    (hfns : ft.fns = m.functions.filter (fun p => p.1 != "main"))
    (hfrag : ∀ q ∈ ft.fns, isBlock ft 1 (q.2.arguments.reverse.map (fun a => (a, (1 : Int)))) q.2.cards = true)
    (hlab : LabelsFunctional (fnHandles m std limit) (rawLabels m std limit))
    (hB : p.bytecode.size < 4294967296) (hV : p.varIds.length < 4294967296) :
    ∃ J, (∃ mainEnd, BCodes p.bytecode p.varIds J 1 [] nf.2.cards 0 mainEnd ∧
        (∀ j, j < (blockCtx 1 [] nf.2.cards).length → p.bytecode.getD (mainEnd + j) 0 = op.pop) ∧
        p.bytecode.getD (mainEnd + (blockCtx 1 [] nf.2.cards).length) 0 = op.exit ∧
        mainEnd + (blockCtx 1 [] nf.2.cards).length < p.bytecode.size) ∧
      (∀ a b, a ∈ p.varIds → b ∈ p.varIds → a.2 = b.2 → a = b) ∧
      (m.functions.map (·.1)).Pairwise (· ≠ ·) ∧
      ∀ g fd, ft.lookup g = some fd →
        ∃ (hd : UInt32) (pos : Nat) (f : FunctionIr), f.arguments = fd.arguments ∧ f.cards = fd.cards ∧
          look J g = some (hd, UInt32.ofNat fd.arguments.length) ∧
          p.labels.find? (fun l => l.1 == hd) = some (hd, pos) ∧ FnCodeAt p.bytecode p.varIds J f pos := by
  have hraw := hlab
  unfold rawLabels fnHandles at hraw
  unfold compile at h
  split at h
  · cases h
  · rename_i unit hunit
    rw [hunit] at hraw
    simp only at hraw
    split at h
    · cases h
    · rename_i s hs
      rw [hs] at hraw
      simp only at hraw
      simp only [Except.ok.injEq] at h
      subst h
      obtain ⟨hn, hmi, hk⟩ := intoIrStream_fns hunit hi
      obtain ⟨_, hpw, _, _, _⟩ := compileUnit_spec hs
      -- `main`
      obtain ⟨nf0, e0, _, _, ea0, ec0⟩ := hk 0 (by omega)
      simp only [if_true] at e0
      rw [hf] at e0
      cases e0
      -- the functions of the root module other than `main` are in the fragment
      have hname_mi : nf.1 = "main" := by
        have := (List.findIdx?_eq_some_iff_getElem.1 hi).2.1
        have e : m.functions[mi] = nf := by
          have := hf; rw [List.getElem?_eq_getElem hmi] at this; exact Option.some.inj this
        rw [e] at this
        simpa using this
      have hunitk : ∀ k (hk1 : k < m.functions.length), unit.toList[k]? = some unit[k]! := by
        intro k hk1
        rw [Array.getElem?_toList, getElem!_def]
        rcases hu : unit[k]? with _ | x
        · rw [Array.getElem?_eq_none_iff] at hu; omega
        · rfl
      have hroot : ∀ k, k < m.functions.length → unit[k]!.fullName = unit[k]!.name := fun k hk1 => by
        obtain ⟨_, _, _, e3, _, _⟩ := hk k hk1
        exact fullName_root e3
      -- distinct positions of the stream have distinct names
      have hdist : ∀ k1 k2, k1 < m.functions.length → k2 < m.functions.length → k1 ≠ k2 →
          unit[k1]!.name ≠ unit[k2]!.name := by
        intro k1 k2 h1 h2 hne
        rw [← hroot k1 h1, ← hroot k2 h2]
        have hp := List.pairwise_iff_getElem.1 hpw
        rcases Nat.lt_or_ge k1 k2 with hlt | hge
        · have := hp k1 k2 (by simp; omega) (by simp; omega) hlt
          simp only [List.getElem_map, Array.getElem_toList] at this
          rw [getElem!_pos unit k1 (by omega), getElem!_pos unit k2 (by omega)]
          exact this
        · have hlt : k2 < k1 := by omega
          have := hp k2 k1 (by simp; omega) (by simp; omega) hlt
          simp only [List.getElem_map, Array.getElem_toList] at this
          rw [getElem!_pos unit k1 (by omega), getElem!_pos unit k2 (by omega)]
          exact fun e => this e.symm
      have hfrag_k : ∀ k, 0 < k → k < m.functions.length → ∃ q, q ∈ ft.fns ∧ unit[k]!.name = q.1 ∧
          unit[k]!.arguments = q.2.arguments ∧ unit[k]!.cards = q.2.cards := by
        intro k hk0 hk1
        obtain ⟨q, e1, e2, e3, e4, e5⟩ := hk k hk1
        refine ⟨q, ?_, e2, e4, e5⟩
        rw [hfns, List.mem_filter]
        refine ⟨List.mem_of_getElem? e1, ?_⟩
        have hne := hdist k 0 hk1 (by omega) (by omega)
        obtain ⟨q0, e01, e02, _⟩ := hk 0 (by omega)
        simp only [if_true] at e01
        rw [hf] at e01; cases e01
        rw [e2, e02, hname_mi] at hne
        simpa using hne
      -- the prefix of the stream after `main`
      have hpp : unit.toList.drop 1 = (unit.toList.drop 1).take (m.functions.length - 1) ++
          (unit.toList.drop 1).drop (m.functions.length - 1) := (List.take_append_drop _ _).symm
      have hpre_mem : ∀ f ∈ (unit.toList.drop 1).take (m.functions.length - 1),
          ∃ k, 0 < k ∧ k < m.functions.length ∧ f = unit[k]! := by
        intro f hfm
        obtain ⟨j, hj, rfl⟩ := List.getElem_of_mem hfm
        simp only [List.length_take, List.length_drop, Array.length_toList] at hj
        refine ⟨j + 1, by omega, by omega, ?_⟩
        rw [List.getElem_take, List.getElem_drop]
        have := hunitk (1 + j) (by omega)
        rw [List.getElem?_eq_getElem (by simp; omega)] at this
        rw [show j + 1 = 1 + j by omega]
        exact Option.some.inj this
      have hJ : ∀ g fd, ft.lookup g = some fd → ∃ r, look (jumpTableOf unit.toList) g = some r := by
        intro g fd hl
        unfold Feat.lookup at hl
        rcases hfind : ft.fns.find? (fun p => p.1 == g) with _ | q
        · rw [hfind] at hl; cases hl
        · have hq := List.mem_of_find?_eq_some hfind
          have hqg : q.1 = g := by simpa using List.find?_some hfind
          rw [hfns, List.mem_filter] at hq
          obtain ⟨j, hj, hjq⟩ := List.getElem_of_mem hq.1
          -- the position of `q` in the stream
          obtain ⟨k, hk1, hkj⟩ := swap_surj hmi hj
          obtain ⟨q', e1, e2, e3, _, _⟩ := hk k hk1
          rw [hkj, List.getElem?_eq_getElem hj, hjq] at e1
          cases e1
          have hmem : unit[k]! ∈ unit.toList := List.mem_of_getElem? (hunitk k hk1)
          have := look_of_unique hpw hmem
          rw [fullName_root e3, e2, hqg] at this
          exact ⟨_, this⟩
      obtain ⟨hmain, hinv, hcodes⟩ := compileUnit_allS hrepX (unit := unit) (sf := s) hs hJ (by rw [ea0, hargs])
        (by rw [ec0, hst]) _ _ hpp
        (fun f hfm => by
          obtain ⟨k, hk0, hk1, rfl⟩ := hpre_mem f hfm
          obtain ⟨q, hq, _, e4, e5⟩ := hfrag_k k hk0 hk1
          have := hfrag q hq
          unfold irCtx
          rw [e4, e5]; exact this) hB hV
      rw [ec0] at hmain
      refine ⟨jumpTableOf unit.toList, hmain, pairwise_inj (f := fun (p : UInt32 × Nat) => p.2) hinv.inj, ?_, ?_⟩
      · -- the names of the root module are distinct
        apply List.pairwise_iff_getElem.2
        intro j1 j2 hj1 hj2 hlt
        simp only [List.length_map] at hj1 hj2
        simp only [List.getElem_map]
        -- positions in the stream
        obtain ⟨k1, hk1, e1⟩ := swap_surj hmi hj1
        obtain ⟨k2, hk2, e2⟩ := swap_surj hmi hj2
        obtain ⟨q1, a1, a2, _⟩ := hk k1 hk1
        obtain ⟨q2, b1, b2, _⟩ := hk k2 hk2
        rw [e1, List.getElem?_eq_getElem hj1] at a1
        rw [e2, List.getElem?_eq_getElem hj2] at b1
        cases a1; cases b1
        have hne : k1 ≠ k2 := by
          intro e; subst e; omega
        have := hdist k1 k2 hk1 hk2 hne
        rw [a2, b2] at this
        exact this
      · intro g fd hl
        have hl0 := hl
        unfold Feat.lookup at hl
        rcases hfind : ft.fns.find? (fun p => p.1 == g) with _ | q
        · rw [hfind] at hl; cases hl
        · rw [hfind] at hl
          simp only [Option.map_some, Option.some.injEq] at hl
          have hq := List.mem_of_find?_eq_some hfind
          have hqg : q.1 = g := by simpa using List.find?_some hfind
          have hq0 := hq
          rw [hfns, List.mem_filter] at hq
          obtain ⟨j, hj, hjq⟩ := List.getElem_of_mem hq.1
          have hjm : j ≠ mi := by
            intro e
            subst e
            have e : m.functions[j] = nf := by
              have := hf; rw [List.getElem?_eq_getElem hj] at this; exact Option.some.inj this
            rw [e] at hjq
            rw [← hjq, hname_mi] at hq
            simp at hq
          obtain ⟨k, hk1, hkj⟩ := swap_surj hmi hj
          have hk0 : 0 < k := by
            rcases Nat.eq_zero_or_pos k with h0 | h0
            · subst h0; rw [if_pos rfl] at hkj; exact absurd hkj.symm hjm
            · exact h0
          obtain ⟨q', e1, e2, e3, e4, e5⟩ := hk k hk1
          rw [hkj, List.getElem?_eq_getElem hj, hjq] at e1
          cases e1
          have hmem : unit[k]! ∈ unit.toList := List.mem_of_getElem? (hunitk k hk1)
          have hlook := look_of_unique hpw hmem
          rw [fullName_root e3, e2, hqg] at hlook
          have hpre : unit[k]! ∈ (unit.toList.drop 1).take (m.functions.length - 1) := by
            apply List.mem_iff_getElem?.2
            refine ⟨k - 1, ?_⟩
            rw [List.getElem?_take, if_pos (by omega), List.getElem?_drop]
            have := hunitk k hk1
            rw [show 1 + (k - 1) = k by omega]
            exact this
          obtain ⟨pos, hlb, hcode⟩ := hcodes _ hpre
          refine ⟨unit[k]!.handle, pos, unit[k]!, by rw [e4, ← hl], by rw [e5, ← hl], ?_, ?_, hcode⟩
          · rw [hlook]; unfold tgt; rw [e4, ← hl]
          · exact resolveLog_find_of_unique hlb (fun x hx hx1 => hraw x hx _ hlb (List.mem_map.2 ⟨_, hmem, rfl⟩) hx1)

end Cao.Compiler
