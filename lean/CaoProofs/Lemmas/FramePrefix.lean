import CaoProofs.Lemmas.CrossLemmas
/-!
# The call stack below the running frame survives every run — failing runs included (C18)

`NoPanicExec.exec_cfi` describes the call stack of runs of the dispatch loop that *return*: started above a
protected base `B` (`AtBase`), the loop returns with a call stack that extends `B`.  Here the same is shown
for **every** outcome (`exec_frames`): whatever the loop ends with — `Exit`, an error raised by an
instruction, the budget, the fuel — the call stack of the final state has `B` as a prefix.  Since
`run_function` cuts the call stack back to its entry depth (`take s.frames.length`), it follows that
`run_function` leaves the call stack *exactly* as it found it, also when it fails
(`CallEq`, used by `Props/C18b.lean`).

The step lemma `step_keeps_below`: one instruction, whatever its outcome, keeps the frames below the running
one (`s.frames.dropLast <+: s'.frames`).  All instructions but `CallFunction` and `Return` are handled by the
`Pres` logic for relations that only look at the call stack (`Cross.SameFrames`; the relation is
`KeepBelow G`: "if the return addresses were good they still are, and the frames below the running one are
still there, below the running one"); `CallFunction` by `go_callScript`, `Return` by `go_ret` (it pops ONE
frame, and that is the only way the call stack shrinks).
-/
namespace Cao.FramePrefix
open Cao Cao.Vm Cao.Cross
set_option linter.unusedSectionVars false
set_option linter.unusedVariables false

/-! ## two relations on states that only look at the call stack -/

/-- good return addresses stay good, and the frames below the running one stay below the running one -/
def KeepBelow (G : Nat → Prop) (s s' : VmState) : Prop :=
  Good G s.frames → Good G s'.frames ∧ s.frames.dropLast <+: s'.frames.dropLast

instance (G : Nat → Prop) : SameFrames (KeepBelow G) where
  refl _ h := ⟨h, List.prefix_refl _⟩
  trans h1 h2 h := ⟨(h2 (h1 h).1).1, List.IsPrefix.trans (h1 h).2 (h2 (h1 h).1).2⟩
  of_frames he h := by rw [he]; exact ⟨h, List.prefix_refl _⟩

/-- from a call stack with good return addresses: the call stack is the same afterwards -/
def FrEq (G : Nat → Prop) (s s' : VmState) : Prop := Good G s.frames → s'.frames = s.frames

instance (G : Nat → Prop) : SameFrames (FrEq G) where
  refl _ _ := rfl
  trans h1 h2 h := by
    have e1 := h1 h
    have e2 := h2 (by rw [e1]; exact h)
    rw [e2, e1]
  of_frames he _ := he

/-! ## one instruction -/

section step
variable {R : VmState → VmState → Prop} [SameFrames R]

set_option maxHeartbeats 400000 in
/-- an instruction other than `CallFunction` and `Return` leaves the call stack alone, or to the re-entry
    callback (`Cross.fpres_step_other`, for relations that need not admit a pop) -/
theorem spres_step_other (p : Prog) (reenter : Reenter) (hre : ∀ f, Pres R (reenter f)) (src : Nat)
    (h1 : p.bytecode.getD src 0 ≠ Compiler.op.callFunction) (h2 : p.bytecode.getD src 0 ≠ Compiler.op.ret) :
    Pres R (step p reenter src) := by
  have hf : (p.bytecode.getD src 0 == Compiler.op.callFunction) = false := by simpa using h1
  have hr : (p.bytecode.getD src 0 == Compiler.op.ret) = false := by simpa using h2
  unfold step
  dsimp only
  rw [hf, hr]
  simp only [Bool.false_eq_true, if_false]
  pres_auto

/-- `CallFunction`, given what `push_call_frame` does (`Cross.fpres_callFunction` for `SameFrames`) -/
theorem spres_callFunction (p : Prog) (reenter : Reenter) (hre : ∀ f, Pres R (reenter f)) (src : Nat)
    (hcs : ∀ (h : UInt32) (ar : Nat) (c : Option Nat), Pres R (step.callScript p src (src + 1) h ar c)) :
    Pres R (Instr.callFunction p reenter src) := by
  unfold Instr.callFunction
  pres_auto

end step

variable {G : Nat → Prop}

/-- `push_call_frame` rewrites the running frame and pushes one on top of it -/
theorem callScript_keepBelow (p : Prog) (src ip : Nat) (l : UInt32) (ar : Nat) (c : Option Nat) (hip : G ip) :
    Pres (KeepBelow G) (step.callScript p src ip l ar c) := by
  refine Pres.intro fun s hg => ?_
  rw [go_callScript]
  split
  · exact ⟨hg, List.prefix_refl _⟩
  split
  · exact ⟨hg, List.prefix_refl _⟩
  split
  · exact ⟨hg, List.prefix_refl _⟩
  have key : ∀ x y : Frame, G x.dst → G y.dst →
      Good G (s.frames.dropLast ++ [x] ++ [y]) ∧
        s.frames.dropLast <+: (s.frames.dropLast ++ [x] ++ [y]).dropLast := by
    intro x y hx hy
    refine ⟨?_, ?_⟩
    · intro f hf
      simp only [List.mem_append, List.mem_singleton] at hf
      rcases hf with (hf | rfl) | rfl
      · exact hg f (List.dropLast_subset _ hf)
      · exact hx
      · exact hy
    · rw [List.dropLast_concat]
      exact List.prefix_append _ _
  split <;> exact key _ _ hip hip

/-- `Return` pops one frame (or none, when it fails on an empty call stack) -/
theorem ret_keeps_below (s : VmState) : s.frames.dropLast <+: (Upv.Instr.ret.go s).2.frames := by
  rw [go_ret]
  cases hl : s.frames.getLast? with
  | none => exact List.dropLast_prefix _
  | some fr =>
    dsimp only
    cases hc : s.frames.dropLast.getLast? with
    | none => exact List.prefix_refl _
    | some caller =>
      dsimp only
      split <;> exact List.prefix_refl _

/-- **one instruction, whatever its outcome, keeps the frames below the running one** — at a good address,
    from a call stack with good return addresses, with a re-entry callback that does -/
theorem step_keeps_below (p : Prog) (hc : Cfi p G) (re : Reenter) (hre : ∀ f, Pres (KeepBelow G) (re f))
    (src : Nat) (hsrc : G src) (s : VmState) (hg : Good G s.frames) :
    s.frames.dropLast <+: ((step p re src).go s).2.frames := by
  by_cases h1 : p.bytecode.getD src 0 = Compiler.op.callFunction
  · rw [step_callFunction p re src h1]
    have hip : G (src + 1) := hc.seq src 1 hsrc (by rw [h1]; rfl) (by rw [h1]; decide)
    exact List.IsPrefix.trans ((spres_callFunction p re hre src
      (fun h' ar c => callScript_keepBelow p src (src + 1) h' ar c hip)).rel s hg).2 (List.dropLast_prefix _)
  · by_cases h2 : p.bytecode.getD src 0 = Compiler.op.ret
    · rw [Upv.step_ret (p := p) (re := re) (src := src) h2]
      exact ret_keeps_below s
    · exact List.IsPrefix.trans ((spres_step_other p re hre src h1 h2).rel s hg).2 (List.dropLast_prefix _)

/-! ## the dispatch loop and `run_function` -/

theorem atBase_prefix {p : Prog} {B fs : List Frame} {ip : Nat} (h : AtBase p B fs ip) : B <+: fs := by
  rcases h with ⟨rest, _, he⟩ | ⟨he, _, _⟩
  · rw [he]; exact List.prefix_append _ _
  · rw [he]; exact List.prefix_refl _

/-- what the loop guarantees for EVERY outcome: the protected base is still there -/
def LoopPre (G : Nat → Prop) (p : Prog) (gas : Nat) : Prop :=
  ∀ (B : List Frame) (ip : Nat) (s : VmState), BaseExit p B → Good G s.frames → G ip →
    AtBase p B s.frames ip → B <+: (exec p gas (.loop ip) s).1.frames

/-- what `run_function` guarantees for EVERY outcome: the call stack is the one it was called on -/
def CallEq (G : Nat → Prop) (p : Prog) (gas : Nat) : Prop :=
  ∀ (f : Val) (s : VmState), Good G s.frames → (exec p gas (.call f) s).1.frames = s.frames

section exec
variable (p : Prog) (hc : Cfi p G)

include hc in
theorem enterScript_frames (gas : Nat) (ih : LoopPre G p gas) (s : VmState) (l : UInt32) (ar : Nat)
    (c : Option Nat) (hg : Good G s.frames) : (enterScript p gas s l ar c).1.frames = s.frames := by
  unfold enterScript
  split
  · rfl
  next pos hfind =>
  dsimp only
  split
  · rfl
  split
  · rfl
  split
  · rfl
  generalize hfr : ({ src := pos, dst := p.bytecode.size - 1, stackOffset := s.stack.count - ar, closure := c } : Frame) = fr
  have hdst : fr.dst = p.bytecode.size - 1 := by rw [← hfr]
  have hB : BaseExit p (s.frames ++ [fr]) := by
    intro c' hc'
    rw [List.getLast?_append, List.getLast?_singleton] at hc'
    simp only [Option.some_or, Option.some.injEq] at hc'
    rw [← hc', hdst]; exact hc.lastExit
  have hgood : Good G (s.frames ++ [fr, fr]) := by
    intro f hf
    simp only [List.mem_append, List.mem_cons, List.not_mem_nil, or_false, or_self] at hf
    rcases hf with hf | rfl
    · exact hg f hf
    · rw [hdst]; exact hc.last
  have hpos : G pos := hc.label _ (List.mem_of_find?_eq_some hfind)
  have key := ih (s.frames ++ [fr]) pos { s with frames := s.frames ++ [fr, fr] } hB hgood hpos
    (.inl ⟨[fr], by simp, by simp⟩)
  rcases hex : exec p gas (.loop pos) { s with frames := s.frames ++ [fr, fr] } with ⟨s', r⟩
  rw [hex] at key
  obtain ⟨u, hu⟩ := key
  dsimp only at hu
  cases r with
  | error e =>
    show s'.frames.take s.frames.length = s.frames
    rw [← hu, List.append_assoc, List.take_left' rfl]
  | ok v =>
    show s'.frames.take s.frames.length = s.frames
    rw [← hu, List.append_assoc, List.take_left' rfl]

include hc in
/-- **the call stack under the dispatch loop and around `run_function`, for every outcome**, by induction on
    the fuel -/
theorem exec_frames : ∀ gas, LoopPre G p gas ∧ CallEq G p gas := by
  intro gas
  induction gas with
  | zero =>
    constructor
    · intro B ip s _ _ _ hat
      rw [exec_zero]; exact atBase_prefix hat
    · intro f s _
      rw [exec_zero]
  | succ gas ih =>
    have hre : ReBase (reenterOf p gas) G (fun _ => True) := fun f fs hg =>
      fr_liftRun (fun s hs => by
        subst hs; exact (exec_cfi (E := fun _ => True) p hc gas).2.prefix f s hg)
    have hreK : ∀ f, Pres (KeepBelow G) (reenterOf p gas f) := fun f =>
      pres_liftRun (fun s hg => by
        have e := ih.2 f s hg
        rw [e]; exact ⟨hg, List.prefix_refl _⟩)
    have hreE : ∀ f, Pres (FrEq G) (reenterOf p gas f) := fun f =>
      pres_liftRun (fun s hg => ih.2 f s hg)
    constructor
    · intro B ip s hB hg hip hat
      rw [exec_loop]
      split
      · exact atBase_prefix hat
      split
      · exact atBase_prefix hat
      have hne : s.frames ≠ [] := by
        rcases hat with ⟨rest, hr, he⟩ | ⟨he, hb, _⟩
        · rw [he]; simp [hr]
        · rw [he]; exact hb
      have hstep := fr_step_cfi (E := fun _ => True) p hc (reenterOf p gas) hre ip s.frames hne hg hip
      rcases hat with ⟨rest, hr, he⟩ | ⟨he, hb, hx⟩
      · split
        · next e s' heq =>
          have hk := step_keeps_below p hc (reenterOf p gas) hreK ip hip s.tick hg
          rw [heq] at hk
          refine List.IsPrefix.trans ?_ hk
          show B <+: s.frames.dropLast
          rw [he, List.dropLast_append_of_ne_nil hr]
          exact List.prefix_append _ _
        · next ctl s' heq =>
          have post := hstep.ok s.tick ctl s' rfl heq
          have hs := shape_above (ctl := ctl) hB hr (he ▸ post.shape)
          split
          · next hexit => exact (hs.1 hexit).1
          · next hexit =>
            have hexit' : ctl.exit = false := by cases h : ctl.exit <;> simp_all
            exact ih.1 B ctl.ip s' hB post.good (post.next hexit') (hs.2 hexit')
      · rw [step_exit p _ ip hx]
        simp only [go_pure, if_true]
        show B <+: s.frames
        rw [he]; exact List.prefix_refl _
    · intro f s hg
      rw [exec_call]
      split
      · split
        · next h _ =>
          have h2 := (fpres_callNative (R := FrEq G) _ hreE h).rel s hg
          split
          · next s' heq => rw [heq] at h2; exact h2
          · next e s' heq => rw [heq] at h2; exact h2
        · exact enterScript_frames p hc gas ih.1 s _ _ _ hg
        · exact enterScript_frames p hc gas ih.1 s _ _ _ hg
        · rfl
      · rfl

end exec

/-! ## non-vacuity -/

/-- `KeepBelow` relates a state to the one `push_call_frame` produces, not to one with a frame popped -/
example : KeepBelow (fun _ => True) { VmState.fresh {} with frames := [⟨0, 0, 0, none⟩] }
    { VmState.fresh {} with frames := [⟨0, 5, 0, none⟩, ⟨1, 5, 0, none⟩] } :=
  fun _ => ⟨fun _ _ => trivial, ⟨[⟨0, 5, 0, none⟩], rfl⟩⟩

end Cao.FramePrefix
