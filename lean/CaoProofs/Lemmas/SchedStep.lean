import CaoProofs.Lemmas.SchedRun
/-!
# Schedule independence: one instruction

`Agree K s t`: the relation `SchedEq` with an explicit set `K` of addresses on which the two heaps
agree: `K` contains the roots and is closed under children. Between two allocations nothing is
freed, so `K` stays fixed while an instruction pops values, reads the objects they denote and
pushes results; at an allocation `K` is reset to what is reachable then.

`W2 m₁ m₂ Q s t`: the two-run weakest precondition — both computations return and `Q` relates
results and final states, or both fail with the same error in `SchedEq` states.
-/
namespace Cao.SchedSim
open Cao Cao.Vm Cao.Gc Cao.C02 Cao.C05 Cao.RunInv
set_option linter.unusedVariables false
set_option linter.unusedSectionVars false

/-! ## the relation with an explicit agreement set -/

/-- a value that is not an object, or an object in `K` -/
def VK (K : Nat → Prop) (v : Val) : Prop := ∀ a, v = .obj a → K a

theorem VK.nil {K : Nat → Prop} : VK K .nil := fun _ h => by cases h
theorem VK.int {K : Nat → Prop} {i : Int64} : VK K (.int i) := fun _ h => by cases h
theorem VK.real {K : Nat → Prop} {b : UInt64} : VK K (.real b) := fun _ h => by cases h
theorem VK.obj {K : Nat → Prop} {a : Nat} (h : K a) : VK K (.obj a) := fun _ e => by cases e; exact h
theorem VK.boolVal {K : Nat → Prop} {b : Bool} : VK K (boolVal b) := fun _ h => by
  unfold Vm.boolVal at h; cases h

structure Agree (K : Nat → Prop) (s t : VmState) : Prop where
  stack : t.stack = s.stack
  globals : t.globals = s.globals
  frames : t.frames = s.frames
  openUpvalues : t.openUpvalues = s.openUpvalues
  guards : t.guards = s.guards
  next : t.heap.next = s.heap.next
  limit : t.mem.limit = s.mem.limit
  remaining : t.remaining = s.remaining
  dispatches : t.dispatches = s.dispatches
  hostLog : t.hostLog = s.hostLog
  frameCap : t.frameCap = s.frameCap
  invL : Inv s
  invR : Inv t
  rootsK : ∀ a ∈ rootAddrs s, K a
  closed : ∀ a o b, K a → s.heap.get a = some o → Val.obj b ∈ Heap.children o → K b
  agree : ∀ a, K a → t.heap.get a = s.heap.get a

theorem Agree.rootAddrs_eq {K : Nat → Prop} {s t : VmState} (h : Agree K s t) :
    rootAddrs t = rootAddrs s := by
  unfold rootAddrs roots
  rw [h.stack, h.globals, h.frames, h.openUpvalues, h.guards]

theorem Agree.reachK {K : Nat → Prop} {s t : VmState} (h : Agree K s t) {a : Nat}
    (ha : Reach s.heap (rootAddrs s) a) : K a := by
  induction ha with
  | root hr => exact h.rootsK _ hr
  | step _ ho hc ih => exact h.closed _ _ _ ih ho hc

theorem Agree.reachK' {K : Nat → Prop} {s t : VmState} (h : Agree K s t) {a : Nat}
    (ha : Reach t.heap (rootAddrs t) a) : K a := by
  induction ha with
  | root hr => exact h.rootsK _ (h.rootAddrs_eq ▸ hr)
  | step _ ho hc ih => exact h.closed _ _ _ ih (by rw [← h.agree _ ih]; exact ho) hc

theorem Agree.toSchedEq {K : Nat → Prop} {s t : VmState} (h : Agree K s t) : SchedEq s t :=
  ⟨⟨⟨h.stack, h.globals, h.frames, h.openUpvalues, h.guards, h.next,
      fun a ha => h.agree a (h.reachK ha), fun a ha => (h.agree a (h.reachK' ha)).symm⟩,
    h.limit, h.remaining, h.dispatches, h.hostLog, h.frameCap,
    h.invL.unique, h.invR.unique, h.invL.fresh, h.invR.fresh⟩, h.invL, h.invR⟩

theorem SchedEq.toAgree {s t : VmState} (h : SchedEq s t) :
    Agree (fun a => Reach s.heap (rootAddrs s) a) s t :=
  { stack := h.core.obs.stack, globals := h.core.obs.globals, frames := h.core.obs.frames,
    openUpvalues := h.core.obs.openUpvalues, guards := h.core.obs.guards, next := h.core.obs.next,
    limit := h.core.limit, remaining := h.core.remaining, dispatches := h.core.dispatches,
    hostLog := h.core.hostLog, frameCap := h.core.frameCap, invL := h.invL, invR := h.invR,
    rootsK := fun a ha => Reach.root ha,
    closed := fun a o b ha ho hc => Reach.step ha ho hc,
    agree := fun a ha => h.core.obs.fwd a ha }

/-- values on the stack / in the globals are in `K` -/
theorem Agree.vk_stack {K : Nat → Prop} {s t : VmState} (h : Agree K s t) {v : Val}
    (hv : v ∈ s.stack.contents) : VK K v := by
  intro a e; subst e
  exact h.rootsK a ((mem_rootAddrs_iff s a).mpr (Or.inl hv))

theorem Agree.vk_global {K : Nat → Prop} {s t : VmState} (h : Agree K s t) {v : Val}
    (hv : v ∈ s.globals) : VK K v := by
  intro a e; subst e
  exact h.rootsK a ((mem_rootAddrs_iff s a).mpr (Or.inr (Or.inl hv)))

/-- the children of a `K`-object are `K`-values -/
theorem Agree.vk_child {K : Nat → Prop} {s t : VmState} (h : Agree K s t) {a : Nat} {o : Obj}
    (ha : K a) (ho : s.heap.get a = some o) {v : Val} (hv : v ∈ Heap.children o) : VK K v := by
  intro b e; subst e
  exact h.closed a o b ha ho hv

/-- changing only the roots, to values in `K` -/
theorem Agree.reroot {K : Nat → Prop} {s t s' t' : VmState} (h : Agree K s t)
    (hs : s'.heap = s.heap) (hsm : s'.mem = s.mem) (ht : t'.heap = t.heap) (htm : t'.mem = t.mem)
    (e1 : t'.stack = s'.stack) (e2 : t'.globals = s'.globals) (e3 : t'.frames = s'.frames)
    (e4 : t'.openUpvalues = s'.openUpvalues) (e5 : t'.guards = s'.guards)
    (c1 : t'.remaining = s'.remaining) (c2 : t'.dispatches = s'.dispatches)
    (c3 : t'.hostLog = s'.hostLog) (c4 : t'.frameCap = s'.frameCap)
    (hr : ∀ a ∈ rootAddrs s', K a) : Agree K s' t' :=
  { stack := e1, globals := e2, frames := e3, openUpvalues := e4, guards := e5,
    next := by rw [hs, ht, h.next], limit := by rw [hsm, htm, h.limit],
    remaining := c1, dispatches := c2, hostLog := c3, frameCap := c4,
    invL := inv_of_same hs hsm h.invL, invR := inv_of_same ht htm h.invR,
    rootsK := hr,
    closed := fun a o b ha ho hc => h.closed a o b ha (by rw [← hs]; exact ho) hc,
    agree := fun a ha => by rw [hs, ht]; exact h.agree a ha }

/-! ## overwriting an object -/

theorem get_set (h : Heap) (a : Nat) (o' : Obj) (x : Nat) :
    (h.set a o').get x = if x = a then (h.get a).map (fun _ => o') else h.get x := by
  unfold Heap.set Heap.get
  dsimp only
  generalize h.objs = l
  induction l with
  | nil => split <;> rfl
  | cons p l ih =>
    simp only [List.map_cons, List.find?_cons]
    by_cases hpa : (p.1 == a) = true
    · have hpa' : p.1 = a := by simpa using hpa
      simp only [hpa, if_true]
      by_cases hx : x = a
      · subst hx
        simp
      · have : (a == x) = false := by simpa using fun h => hx h.symm
        have h2 : (p.1 == x) = false := by rw [hpa']; exact this
        simp only [this, h2, if_neg hx]
        rw [if_neg hx] at ih
        exact ih
    · have hpa' : (p.1 == a) = false := by simpa using hpa
      simp only [hpa', Bool.false_eq_true, if_false]
      cases hpx : p.1 == x with
      | true =>
        have : p.1 = x := by simpa using hpx
        have hx : ¬ x = a := by rw [← this]; simpa using hpa
        simp [hx]
      | false => exact ih

/-- overwriting a `K`-object by an object whose children are in `K` (same charge) -/
theorem Agree.set {K : Nat → Prop} {s t : VmState} (h : Agree K s t) (a : Nat) (o' : Obj)
    (ha : K a) (hkids : ∀ b, Val.obj b ∈ Heap.children o' → K b)
    (hc : ∀ o, s.heap.get a = some o → Heap.chargeOf o' = Heap.chargeOf o) :
    Agree K { s with heap := s.heap.set a o' } { t with heap := t.heap.set a o' } :=
  { stack := h.stack, globals := h.globals, frames := h.frames, openUpvalues := h.openUpvalues,
    guards := h.guards, next := h.next, limit := h.limit, remaining := h.remaining,
    dispatches := h.dispatches, hostLog := h.hostLog, frameCap := h.frameCap,
    invL := set_inv s a o' h.invL hc,
    invR := set_inv t a o' h.invR (fun o ho => hc o (by rw [← h.agree a ha]; exact ho)),
    rootsK := h.rootsK,
    closed := by
      intro x o b hx ho hcb
      rw [show ({ s with heap := s.heap.set a o' } : VmState).heap = s.heap.set a o' from rfl,
        get_set] at ho
      split at ho
      · cases hg : s.heap.get a with
        | none => rw [hg] at ho; cases ho
        | some o0 =>
          rw [hg] at ho
          simp only [Option.map_some, Option.some.injEq] at ho
          subst ho
          exact hkids b hcb
      · exact h.closed x o b hx ho hcb
    agree := by
      intro x hx
      show (t.heap.set a o').get x = (s.heap.set a o').get x
      rw [get_set, get_set, h.agree x hx, h.agree a ha] }


/-! ## the two-run weakest precondition -/

def W2 {α : Type} (m₁ m₂ : M α) (Q : α → α → VmState → VmState → Prop) (s t : VmState) : Prop :=
  match m₁.go s, m₂.go t with
  | (.ok a, s'), (.ok b, t') => Q a b s' t'
  | (.error e, s'), (.error e', t') => e' = e ∧ SchedEq s' t'
  | _, _ => False

section w2
variable {α β : Type} {Q : α → α → VmState → VmState → Prop} {s t : VmState}

theorem w2_of_go {m₁ m₂ : M α} {a b : α} {s' t' : VmState} (h1 : m₁.go s = (.ok a, s'))
    (h2 : m₂.go t = (.ok b, t')) (hq : Q a b s' t') : W2 m₁ m₂ Q s t := by
  unfold W2; rw [h1, h2]; exact hq

theorem w2_of_go_err {m₁ m₂ : M α} {e : ErrKind} {s' t' : VmState} (h1 : m₁.go s = (.error e, s'))
    (h2 : m₂.go t = (.error e, t')) (hq : SchedEq s' t') : W2 m₁ m₂ Q s t := by
  unfold W2; rw [h1, h2]; exact ⟨rfl, hq⟩

theorem w2_pure {a b : α} (h : Q a b s t) : W2 (pure a) (pure b) Q s t := w2_of_go rfl rfl h
theorem w2_get {Q : VmState → VmState → VmState → VmState → Prop} (h : Q s t s t) :
    W2 get get Q s t := w2_of_go rfl rfl h
theorem w2_modify {Q : PUnit → PUnit → VmState → VmState → Prop} {f g : VmState → VmState}
    (h : Q ⟨⟩ ⟨⟩ (f s) (g t)) : W2 (modify f) (modify g) Q s t := w2_of_go rfl rfl h
theorem w2_set {Q : PUnit → PUnit → VmState → VmState → Prop} {x y : VmState}
    (h : Q ⟨⟩ ⟨⟩ x y) : W2 (set x) (set y) Q s t := w2_of_go rfl rfl h
theorem w2_throwE {e : ErrKind} (h : SchedEq s t) : W2 (throwE e : M α) (throwE e) Q s t :=
  w2_of_go_err rfl rfl h

theorem w2_bind {m₁ m₂ : M α} {f₁ f₂ : α → M β} {Q : β → β → VmState → VmState → Prop}
    (h : W2 m₁ m₂ (fun a b s' t' => W2 (f₁ a) (f₂ b) Q s' t') s t) :
    W2 (m₁ >>= f₁) (m₂ >>= f₂) Q s t := by
  unfold W2 at h ⊢
  rw [go_bind, go_bind]
  rcases h1 : m₁.go s with ⟨r1, s'⟩
  rcases h2 : m₂.go t with ⟨r2, t'⟩
  rw [h1, h2] at h
  cases r1 <;> cases r2 <;> first | exact h | exact h.elim

theorem w2_mono {m₁ m₂ : M α} {Q' : α → α → VmState → VmState → Prop} (h : W2 m₁ m₂ Q s t)
    (hq : ∀ a b s' t', Q a b s' t' → Q' a b s' t') : W2 m₁ m₂ Q' s t := by
  unfold W2 at h ⊢
  rcases h1 : m₁.go s with ⟨r1, s'⟩
  rcases h2 : m₂.go t with ⟨r2, t'⟩
  rw [h1, h2] at h
  cases r1 <;> cases r2 <;> first | exact hq _ _ _ _ h | exact h | exact h.elim

/-- the final form: same result, related states -/
theorem resEq_of_w2 {m₁ m₂ : M α} (h : W2 m₁ m₂ (fun a b s' t' => b = a ∧ SchedEq s' t') s t) :
    ResEq (m₁.go s) (m₂.go t) := by
  unfold W2 at h
  unfold ResEq
  rcases h1 : m₁.go s with ⟨r1, s'⟩
  rcases h2 : m₂.go t with ⟨r2, t'⟩
  rw [h1, h2] at h
  cases r1 <;> cases r2
  · exact ⟨by rw [h.1], h.2⟩
  · exact h.elim
  · exact h.elim
  · exact ⟨by rw [h.1], h.2⟩

theorem w2_of_resEq {m₁ m₂ : M α} (h : ResEq (m₁.go s) (m₂.go t))
    (hq : ∀ a s' t', SchedEq s' t' → Q a a s' t') : W2 m₁ m₂ Q s t := by
  unfold W2
  unfold ResEq at h
  rcases h1 : m₁.go s with ⟨r1, s'⟩
  rcases h2 : m₂.go t with ⟨r2, t'⟩
  rw [h1, h2] at h
  obtain ⟨e, hs⟩ := h
  dsimp only at e hs
  subst e
  cases r2 with
  | error e => exact ⟨rfl, hs⟩
  | ok a => exact hq a s' t' hs

end w2

open Lean Elab Tactic Meta in
/-- `w2_head`: weak head normal form of both computations of a `W2` goal -/
elab "w2_head" : tactic => withMainContext do
  let g ← getMainGoal
  let t ← whnfR (← instantiateMVars (← g.getType))
  let fn := t.getAppFn
  let args := t.getAppArgs
  unless fn.isConstOf ``W2 && args.size == 6 do
    throwError "w2_head: not a W2 goal"
  let m₁ ← whnfCore args[1]!
  let m₂ ← whnfCore args[2]!
  replaceMainGoal [← g.change (mkAppN fn ((args.set! 1 m₁).set! 2 m₂))]

/-! ## the stack primitives -/

theorem peekLast_vk {K : Nat → Prop} {s t : VmState} (h : Agree K s t) (n : Nat) :
    VK K (s.stack.peekLast n) := by
  intro a e
  exact h.vk_stack (peekLast_mem e) a rfl

theorem last_vk {K : Nat → Prop} {s t : VmState} (h : Agree K s t) : VK K s.stack.last := by
  have : s.stack.last = s.stack.peekLast 0 := by
    unfold VStack.last VStack.peekLast; simp
  rw [this]; exact peekLast_vk h 0

theorem pop_vk {K : Nat → Prop} {s t : VmState} (h : Agree K s t) : VK K s.stack.pop.2 := by
  have : s.stack.pop.2 = s.stack.last := by
    unfold VStack.pop VStack.last
    split
    · next hc => simp [hc]
    · next hc => simp [Nat.pos_of_ne_zero hc]
  rw [this]; exact last_vk h

section prims
variable {K : Nat → Prop} {s t : VmState}

theorem w2_peek {Q : Val → Val → VmState → VmState → Prop} (n : Nat) (h : Agree K s t)
    (hq : ∀ v, v = s.stack.peekLast n → VK K v → Q v v s t) : W2 (peek n) (peek n) Q s t := by
  refine w2_of_go (a := s.stack.peekLast n) (b := t.stack.peekLast n) rfl rfl ?_
  rw [h.stack]
  exact hq _ rfl (peekLast_vk h n)

/-- the state after a change of the value stack that only keeps `K`-values -/
theorem Agree.stack_change (h : Agree K s t) (st : VStack Val)
    (hst : ∀ v ∈ st.contents, VK K v) :
    Agree K { s with stack := st } { t with stack := st } :=
  h.reroot rfl rfl rfl rfl rfl h.globals h.frames h.openUpvalues h.guards h.remaining
    h.dispatches h.hostLog h.frameCap
    (by
      intro a ha
      rcases (mem_rootAddrs_iff _ a).mp ha with h1 | h1 | ⟨f, hf, hfa⟩ | h1 | h1
      · exact hst _ h1 a rfl
      · exact h.rootsK a ((mem_rootAddrs_iff s a).mpr (Or.inr (Or.inl h1)))
      · exact h.rootsK a ((mem_rootAddrs_iff s a).mpr (Or.inr (Or.inr (Or.inl ⟨f, hf, hfa⟩))))
      · exact h.rootsK a ((mem_rootAddrs_iff s a).mpr (Or.inr (Or.inr (Or.inr (Or.inl h1)))))
      · exact h.rootsK a ((mem_rootAddrs_iff s a).mpr (Or.inr (Or.inr (Or.inr (Or.inr h1))))))

theorem w2_pop {Q : Val → Val → VmState → VmState → Prop} (h : Agree K s t)
    (hq : ∀ v, VK K v → Agree K { s with stack := s.stack.pop.1 } { t with stack := s.stack.pop.1 } →
      Q v v { s with stack := s.stack.pop.1 } { t with stack := s.stack.pop.1 }) :
    W2 pop pop Q s t := by
  have e := go_pop t
  rw [h.stack] at e
  refine w2_of_go (go_pop s) e ?_
  exact hq _ (pop_vk h) (h.stack_change _ (fun v hv => h.vk_stack (mem_pop_contents hv)))

theorem mem_push_contents {st : VStack Val} {v w : Val} (h : w ∈ (st.push v).1.contents) :
    w = v ∨ w ∈ st.contents := by
  unfold VStack.push at h
  split at h
  · next hc =>
    unfold VStack.contents at h ⊢
    dsimp only at h
    rcases List.mem_take_iff_getElem.mp h with ⟨i, hi, rfl⟩
    rw [List.getElem_set]
    rw [List.length_set] at hi
    split
    · exact Or.inl rfl
    · exact Or.inr (List.mem_take_iff_getElem.mpr ⟨i, by omega, rfl⟩)
  · exact Or.inr h


theorem go_push (v : Val) (s : VmState) :
    (push v).go s =
      if s.stack.count + 1 < s.stack.data.length then
        (.ok (), { s with stack := (s.stack.push v).1 })
      else (.error .stackoverflow, s) := by
  unfold push
  rw [go_bind]
  simp only [go_get]
  by_cases hc : s.stack.count + 1 < s.stack.data.length
  · rw [if_pos hc]
    have : s.stack.push v = ({ count := s.stack.count + 1, data := s.stack.data.set s.stack.count v }, .ok ()) := by
      unfold VStack.push; rw [if_pos hc]
    rw [this]; rfl
  · rw [if_neg hc]
    have : s.stack.push v = (s.stack, .error .full) := by
      unfold VStack.push; rw [if_neg hc]
    rw [this]; rfl

theorem w2_push {Q : Unit → Unit → VmState → VmState → Prop} (v : Val) (h : Agree K s t) (hv : VK K v)
    (hq : Agree K { s with stack := (s.stack.push v).1 } { t with stack := (s.stack.push v).1 } →
      Q () () { s with stack := (s.stack.push v).1 } { t with stack := (s.stack.push v).1 }) :
    W2 (push v) (push v) Q s t := by
  have e1 := go_push v s
  have e2 := go_push v t
  rw [h.stack] at e2
  split at e1
  · next hc =>
    rw [if_pos hc] at e2
    refine w2_of_go e1 e2 (hq (h.stack_change _ (fun w hw => ?_)))
    rcases mem_push_contents hw with rfl | hw
    · exact hv
    · exact h.vk_stack hw
  · next hc =>
    rw [if_neg hc] at e2
    exact w2_of_go_err e1 e2 h.toSchedEq

theorem w2_dropGuard {Q : Unit → Unit → VmState → VmState → Prop} (a : Nat) (h : Agree K s t)
    (hq : Agree K { s with guards := s.guards.erase a } { t with guards := s.guards.erase a } →
      Q () () { s with guards := s.guards.erase a } { t with guards := s.guards.erase a }) :
    W2 (dropGuard a) (dropGuard a) Q s t := by
  have e2 : (dropGuard a).go t = (.ok (), { t with guards := s.guards.erase a }) := by
    rw [← h.guards]; rfl
  refine w2_of_go (a := ()) (s' := { s with guards := s.guards.erase a }) rfl e2 (hq ?_)
  refine h.reroot rfl rfl rfl rfl h.stack h.globals h.frames h.openUpvalues rfl h.remaining
    h.dispatches h.hostLog h.frameCap ?_
  intro x hx
  rcases (mem_rootAddrs_iff _ x).mp hx with h1 | h1 | ⟨f, hf, hfa⟩ | h1 | h1
  · exact h.rootsK x ((mem_rootAddrs_iff s x).mpr (Or.inl h1))
  · exact h.rootsK x ((mem_rootAddrs_iff s x).mpr (Or.inr (Or.inl h1)))
  · exact h.rootsK x ((mem_rootAddrs_iff s x).mpr (Or.inr (Or.inr (Or.inl ⟨f, hf, hfa⟩))))
  · exact h.rootsK x ((mem_rootAddrs_iff s x).mpr (Or.inr (Or.inr (Or.inr (Or.inl h1)))))
  · exact h.rootsK x ((mem_rootAddrs_iff s x).mpr (Or.inr (Or.inr (Or.inr (Or.inr (List.mem_of_mem_erase h1))))))

/-- `getTable` on a `K`-value: the same table (its entries are `K`-values) or the same error -/
theorem w2_getTable {Q : (Nat × Nat × List (Val × Val)) → (Nat × Nat × List (Val × Val)) →
      VmState → VmState → Prop} (v : Val) (h : Agree K s t) (hv : VK K v)
    (hq : ∀ a cap es, v = .obj a → K a → s.heap.get a = some (.table cap es) →
      t.heap.get a = some (.table cap es) → (∀ e ∈ es, VK K e.1 ∧ VK K e.2) →
      Q (a, cap, es) (a, cap, es) s t) :
    W2 (getTable v) (getTable v) Q s t := by
  cases v with
  | obj a =>
    have ha : K a := hv a rfl
    have e1 : (getTable (.obj a)).go s = _ := getTable_run a s
    have e2 : (getTable (.obj a)).go t = _ := getTable_run a t
    rw [h.agree a ha] at e2
    cases hg : s.heap.get a with
    | none =>
      rw [hg] at e1 e2
      exact w2_of_go_err e1 e2 h.toSchedEq
    | some o =>
      rw [hg] at e1 e2
      cases o with
      | table cap es =>
        refine w2_of_go e1 e2 (hq a cap es rfl ha hg (by rw [h.agree a ha]; exact hg) ?_)
        intro e he
        constructor
        · exact h.vk_child ha hg (by
            show e.1 ∈ es.flatMap (fun e => [e.1, e.2])
            exact List.mem_flatMap.mpr ⟨e, he, by simp⟩)
        · exact h.vk_child ha hg (by
            show e.2 ∈ es.flatMap (fun e => [e.1, e.2])
            exact List.mem_flatMap.mpr ⟨e, he, by simp⟩)
      | str _ => exact w2_of_go_err e1 e2 h.toSchedEq
      | fn _ _ => exact w2_of_go_err e1 e2 h.toSchedEq
      | native _ => exact w2_of_go_err e1 e2 h.toSchedEq
      | closure _ _ _ => exact w2_of_go_err e1 e2 h.toSchedEq
      | upvalue _ => exact w2_of_go_err e1 e2 h.toSchedEq
  | nil => exact w2_of_go_err rfl rfl h.toSchedEq
  | int _ => exact w2_of_go_err rfl rfl h.toSchedEq
  | real _ => exact w2_of_go_err rfl rfl h.toSchedEq

theorem alloc2Pure_ok_guard {c1 c2 : Nat} {o : Obj} {s s' : VmState} {a : Nat}
    (h : alloc2Pure c1 c2 o s = (.ok a, s')) : a ∈ s'.guards := by
  unfold alloc2Pure at h
  rcases h1 : allocPure c1 s with ⟨r1, s1⟩
  rw [h1] at h
  cases r1 with
  | error e => cases h
  | ok u =>
    dsimp only at h
    rcases h2 : allocPure c2 s1 with ⟨r2, s2⟩
    rw [h2] at h
    cases r2 with
    | error e => cases h
    | ok u =>
      simp only [Prod.mk.injEq, Except.ok.injEq] at h
      obtain ⟨rfl, rfl⟩ := h
      exact List.mem_cons_self

theorem alloc1Pure_ok_guard {c1 : Nat} {o : Obj} {s s' : VmState} {a : Nat}
    (h : alloc1Pure c1 o s = (.ok a, s')) : a ∈ s'.guards := by
  unfold alloc1Pure at h
  rcases h1 : allocPure c1 s with ⟨r1, s1⟩
  rw [h1] at h
  cases r1 with
  | error e => cases h
  | ok u =>
    simp only [Prod.mk.injEq, Except.ok.injEq] at h
    obtain ⟨rfl, rfl⟩ := h
    exact List.mem_cons_self

theorem initTable_ok_guard {s s' : VmState} {a : Nat} (h : initTable.go s = (.ok a, s')) :
    a ∈ s'.guards := alloc2Pure_ok_guard ((initTable_run s).symm.trans h)
theorem initString_ok_guard {b : List UInt8} {s s' : VmState} {a : Nat}
    (h : (initString b).go s = (.ok a, s')) : a ∈ s'.guards :=
  alloc2Pure_ok_guard ((initString_run b s).symm.trans h)
theorem initSimple_ok_guard {o : Obj} {s s' : VmState} {a : Nat}
    (h : (initSimple o).go s = (.ok a, s')) : a ∈ s'.guards :=
  alloc1Pure_ok_guard ((initSimple_run o s).symm.trans h)

/-- an allocating constructor: afterwards the two heaps agree on what is reachable then, and the
    new object is guarded -/
theorem w2_alloc {Q : Nat → Nat → VmState → VmState → Prop} (m : M Nat) (h : Agree K s t)
    (hsim : ∀ {s t : VmState}, SchedEq s t → ResEq (m.go s) (m.go t))
    (hg : ∀ {s s' : VmState} {a : Nat}, m.go s = (.ok a, s') → a ∈ s'.guards)
    (hq : ∀ a s' t', SchedEq s' t' → a ∈ s'.guards → Q a a s' t') : W2 m m Q s t := by
  have hr := hsim h.toSchedEq
  unfold W2
  unfold ResEq at hr
  rcases h1 : m.go s with ⟨r1, s'⟩
  rcases h2 : m.go t with ⟨r2, t'⟩
  rw [h1, h2] at hr
  obtain ⟨e, hs⟩ := hr
  dsimp only at e hs
  subst e
  cases r2 with
  | error e => exact ⟨rfl, hs⟩
  | ok a => exact hq a s' t' hs (hg h1)

end prims

end Cao.SchedSim
