import CaoProofs.Lemmas.WfUpvalues
/-!
# Static facts about the `CopyLast; RegisterUpvalue` tails of closure expressions (C04c, stage 1)

Everything here is a consequence of the level structure `UpT` of compiled bytecode
(`compileUnit_level`): every `CopyLast` / `RegisterUpvalue` instruction of level code sits in the tail of
a closure expression — `Closure` at `c`, then pairs at `c + 9 + 4 k` — so a `RegisterUpvalue` is
always preceded (fall-through) by its `CopyLast`, which follows the `Closure` instruction or the
previous pair; and a non-local `RegisterUpvalue j` only occurs at a level `n` with `j < n`.
-/
namespace Cao.Compiler
open Cao Cao.Bytecode

/-- where an instruction start inside a run of pairs lies -/
theorem Pairs.starts_idx {bc : Array UInt8} {n : Nat} : ∀ {m at_ pos : Nat}, Pairs bc n m at_ →
    Tiled bc at_ pos → pos < at_ + 4 * m →
    ∃ k, k < m ∧ ((pos = at_ + 4 * k ∧ bc.getD pos 0 = op.copyLast) ∨
      (pos = at_ + 4 * k + 1 ∧ bc.getD pos 0 = op.registerUpvalue ∧ bc.getD (pos - 1) 0 = op.copyLast ∧
        (bc.getD (pos + 2) 0 = 0 → (bc.getD (pos + 1) 0).toNat < n)))
  | 0, _, _, _, ht, hlt => by have := ht.le; omega
  | m+1, at_, pos, h, ht, hlt => by
    obtain ⟨h1, h2, h3, h4⟩ := h
    cases ht with
    | nil => exact ⟨0, by omega, .inl ⟨by omega, h1⟩⟩
    | @cons _ k _ hs ht' =>
      rw [h1] at hs
      have : k = 1 := by
        have : Gen.spanOf op.copyLast = some 1 := by decide
        rw [this] at hs; cases hs; rfl
      subst this
      cases ht' with
      | nil => exact ⟨0, by omega, .inr ⟨by omega, h2, by rw [Nat.add_sub_cancel]; exact h1, h3⟩⟩
      | @cons _ k' _ hs' ht'' =>
        rw [h2] at hs'
        have : k' = 3 := by
          have : Gen.spanOf op.registerUpvalue = some 3 := by decide
          rw [this] at hs'; cases hs'; rfl
        subst this
        obtain ⟨k, hk, hor⟩ := Pairs.starts_idx h4 (by rwa [show at_ + 1 + 3 = at_ + 4 by omega] at ht'') (by omega)
        refine ⟨k + 1, by omega, ?_⟩
        rcases hor with ⟨e, ho⟩ | ⟨e, ho⟩
        · exact .inl ⟨by omega, ho⟩
        · exact .inr ⟨by omega, ho⟩

/-- **stage 1 (a), (b)**: a `CopyLast` / `RegisterUpvalue` instruction of level code belongs to the tail of
a closure expression of that code: `Closure` at an instruction start `c`, and the instruction is the
`CopyLast` of pair `k` (at `c + 9 + 4 k`) or its `RegisterUpvalue` (at `c + 9 + 4 k + 1`, directly after
that `CopyLast`); a non-local `RegisterUpvalue j` then has `j <` the number of upvalues of some level -/
theorem UpT.tail_instr {bc : Array UInt8} {L : List (UInt32 × Nat)} {n a b : Nat} (h : UpT bc L n a b) :
    ∀ x, Tiled bc a x → x < b →
      (bc.getD x 0 = op.copyLast ∨ bc.getD x 0 = op.registerUpvalue) →
      ∃ c k, a ≤ c ∧ Tiled bc a c ∧ bc.getD c 0 = op.closure ∧ c + 9 + 4 * k < b ∧
        ((x = c + 9 + 4 * k ∧ bc.getD x 0 = op.copyLast) ∨
         (x = c + 9 + 4 * k + 1 ∧ bc.getD x 0 = op.registerUpvalue ∧ bc.getD (x - 1) 0 = op.copyLast ∧
           (bc.getD (x + 2) 0 = 0 → ∃ n', (bc.getD (x + 1) 0).toNat < n'))) := by
  induction h with
  | nil => intro x ht hlt; have := ht.le; omega
  | @plain n a k b hs hc hu ht ih =>
    intro x htx hlt hop
    cases htx with
    | nil =>
      rcases hop with h | h <;> (rw [h] at hc; exact absurd hc (by decide))
    | @cons _ k' _ hs' ht' =>
      rw [hs] at hs'; cases hs'
      obtain ⟨c, j, h1, h2, h3, h4, h5⟩ := ih x ht' hlt hop
      exact ⟨c, j, by have := span_pos hs; omega, .cons hs h2, h3, h4, h5⟩
  | @clos n m a c0 b hg hb hcl0 hl hm hp ht ihb iht =>
    intro x htx hlt hop
    have hbt := hb.tiled
    have hble := hb.le
    have htle := ht.le
    have sg : Gen.spanOf (bc.getD a 0) = some 5 := by rw [hg]; decide
    have sc : Gen.spanOf (bc.getD c0 0) = some 9 := by rw [hcl0]; decide
    cases htx with
    | nil => rcases hop with h | h <;> (rw [hg] at h; exact absurd h (by decide))
    | @cons _ k' _ hs' ht' =>
      rw [sg] at hs'; cases hs'
      rcases Nat.lt_or_ge x c0 with hlt0 | hge0
      · obtain ⟨c, j, h1, h2, h3, h4, h5⟩ := ihb x ht' hlt0 hop
        exact ⟨c, j, by omega, .cons sg h2, h3, by omega, h5⟩
      · have ht2 := hbt.split ht' hge0
        cases ht2 with
        | nil => rcases hop with h | h <;> (rw [hcl0] at h; exact absurd h (by decide))
        | @cons _ k'' _ hs'' ht'' =>
          rw [sc] at hs''; cases hs''
          rcases Nat.lt_or_ge x (c0 + 9 + 4 * m) with hlt1 | hge1
          · obtain ⟨j, hj, hor⟩ := hp.starts_idx ht'' hlt1
            refine ⟨c0, j, by omega, .cons sg hbt, hcl0, by omega, ?_⟩
            rcases hor with ⟨e, ho⟩ | ⟨e, ho1, ho2, ho3⟩
            · exact .inl ⟨e, ho⟩
            · exact .inr ⟨e, ho1, ho2, fun hz => ⟨n, ho3 hz⟩⟩
          · have ht3 := hp.tiled.split ht'' hge1
            obtain ⟨c, j, h1, h2, h3, h4, h5⟩ := iht x ht3 hlt hop
            exact ⟨c, j, by omega, ((Tiled.cons sg hbt).trans (.cons sc hp.tiled)).trans h2, h3, h4, h5⟩

end Cao.Compiler
