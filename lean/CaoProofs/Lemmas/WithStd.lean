import CaoModel.Compiler
/-!
# `withStd` — the module tree the compiler works on

Shared by `Lemmas/ResolveLemmas.lean` (C08) and `Lemmas/TraceLemmas.lean` (C15), which used to define
it twice under the same name (so that their Props files could not be imported together).
-/
namespace Cao.Compiler
open Cao

/-- the tree `intoIrStream` works on: the source module with the standard library injected as an
extra submodule `std` -/
def withStd (m std : Module) : Module := Module.mk (m.submodules ++ [("std", std)]) m.functions m.imports

end Cao.Compiler
