import CaoModel.Vm
import CaoModel.Bytecode
/-!
# The executable checker `capStaticB` for the static facts `CapStatic` (C04c, stage C) — definitions only

This file imports only the models (no proofs), so the checker can be linked into the differential driver and
decided on the bytes of the real compiler.  Soundness: `Lemmas/CaptureCheck.lean` (`capStaticB_sound`).

`capStaticB p` computes the closure regions of the bytecode the way `Bytecode.wfReason` does (the body of
the closure whose `Closure` instruction is at `c` is `[label of its handle, c)`; its level is the number of
`CopyLast; RegisterUpvalue` pairs behind the instruction), takes as the level of a position the level of
the innermost region around it, and then simply evaluates every field of `CapStatic` at every
instruction start.
-/
namespace Cao.C04c
open Cao Cao.Compiler Cao.Bytecode Cao.Vm

/-- the decoded instructions of a program (`[]` if it does not decode); equal to `C04.instrs` -/
def capInstrs (p : Program) : List (Nat × UInt8) :=
  match decodeAll p.bytecode (p.bytecode.size + 1) 0 [] with
  | .ok l => l
  | .error _ => []

/-- number of `CopyLast; RegisterUpvalue` pairs from `at_` on -/
def countPairs (bc : Array UInt8) : Nat → Nat → Nat
  | 0, _ => 0
  | f+1, at_ =>
    if bc.getD at_ 0 == op.copyLast && bc.getD (at_ + 1) 0 == op.registerUpvalue
    then countPairs bc f (at_ + 4) + 1 else 0

/-- the pairs behind the `Closure` instruction at `c` -/
def cntOf (bc : Array UInt8) (c : Nat) : Nat := countPairs bc 256 (c + 9)

/-- closure regions `(start, end, level)` -/
def regionsOf (p : Program) : List (Nat × Nat × Nat) :=
  (capInstrs p).filterMap (fun x =>
    if p.bytecode.getD x.1 0 == op.closure then
      match p.labels.find? (fun l => l.1 == UInt32.ofNat (Vm.rdU32 p.bytecode (x.1 + 1))) with
      | some e => some (e.2, x.1, cntOf p.bytecode x.1)
      | none => none
    else none)

/-- the level of the innermost region around `pos` (0 outside of every region) -/
def lvlOf (rs : List (Nat × Nat × Nat)) (pos : Nat) : Nat :=
  match (rs.filter (fun r => r.1 ≤ pos && pos < r.2.1)).foldl (fun (best : Option (Nat × Nat × Nat)) r =>
      match best with
      | none => some r
      | some b => if r.2.1 - r.1 < b.2.1 - b.1 then some r else some b) none with
  | none => 0
  | some r => r.2.2

/-- the fields of `CapStatic` at the instruction start `src` -/
def chkInstr (p : Program) (lv ct : Nat → Nat) (src : Nat) : Bool :=
  let bc := p.bytecode
  let o := bc.getD src 0
  (o == op.exit || o == op.goto || o == op.ret ||
    (match Gen.spanOf o with
     | some sp => lv (src + sp) == lv src
     | none => true)) &&
  (!(o == op.goto || o == op.gotoIfTrue || o == op.gotoIfFalse) || lv (Vm.rdU32 bc (src + 1)) == lv src) &&
  (!(o == op.registerUpvalue && bc.getD (src + 2) 0 == 0) || decide ((bc.getD (src + 1) 0).toNat < lv src)) &&
  (!(o == op.closure) ||
    ((match p.labels.find? (fun l => l.1 == UInt32.ofNat (Vm.rdU32 bc (src + 1))) with
      | none => true
      | some e => decide (lv e.2 ≤ ct src)) &&
     (List.range (ct src)).all (fun k =>
       bc.getD (src + 9 + 4 * k) 0 == op.copyLast && bc.getD (src + 9 + 4 * k + 1) 0 == op.registerUpvalue))) &&
  (!(o == op.functionPointer) ||
    (match p.labels.find? (fun l => l.1 == UInt32.ofNat (Vm.rdU32 bc (src + 1))) with
     | none => true
     | some e => lv e.2 == 0))

/-- **the checker** -/
def capStaticB (p : Program) : Bool :=
  let lv := lvlOf (regionsOf p)
  let ct := cntOf p.bytecode
  (capInstrs p).all (fun x => chkInstr p lv ct x.1) && lv (p.bytecode.size - 1) == 0 && lv 0 == 0

end Cao.C04c
