import CaoProofs.Lemmas.SchedOpsA
/-!
# Schedule independence, all instructions: object creation and table instructions
-/
namespace Cao.SchedFull
open Cao Cao.Vm Cao.Gc Cao.C02 Cao.C05 Cao.RunInv Cao.Native
set_option linter.unusedVariables false
set_option linter.unusedSectionVars false

/-! ## the code -/

/-- `InitTable`, `FunctionPointer`, `NativeFunctionPointer`, `Closure`, `StringLiteral` -/
def cAlloc (m : M Nat) (ip : Nat) : M Ctl := do
  let a ← m
  push (.obj a)
  dropGuard a
  return { ip }
def cGetProperty (ip : Nat) : M Ctl := do
  let key ← pop
  let inst ← pop
  let (_, _, es) ← getTable inst
  push (← tableGet es key)
  return { ip }
def cSetProperty (ip : Nat) : M Ctl := do
  let key ← peek 0
  let inst ← peek 1
  let value ← peek 2
  let (a, _, _) ← getTable inst
  tableInsert a key value
  popN 3
  return { ip }
def cBeginForEach (loopVar loopItem iH kH vH ip : Nat) : M Ctl := do
  let item := (← get).stack.last
  let _ ← getTable item
  let off := (← curFrame).stackOffset
  writeLocal off loopVar (.int 0)
  writeLocal off loopItem item
  writeLocal off vH .nil
  writeLocal off kH .nil
  writeLocal off iH .nil
  return { ip }
def cForEach (loopVar loopItem iH kH vH ip : Nat) : M Ctl := do
  let off := (← curFrame).stackOffset
  let iv ← readLocal off loopVar
  let objv ← readLocal off loopItem
  let i := toI64 (← get).heap iv
  let es ← (do let (_, _, es) ← getTable objv; pure es) <|> throwE .assertionError
  let cont := decide (0 ≤ i.toInt ∧ i.toInt < es.length)
  if cont then
    let (k, v) := es.getD i.toInt.toNat (.nil, .nil)
    writeLocal off vH v
    writeLocal off kH k
    writeLocal off iH (.int i)
    writeLocal off loopVar (.int (i + 1))
  push (boolVal cont)
  return { ip }
def cNthRow (ip : Nat) : M Ctl := do
  let iv ← peek 0
  let inst ← peek 1
  let (_, _, es) ← getTable inst
  match iv with
  | .int i =>
    if i.toInt < 0 then throwE .invalidArgument
    let (k, v) := es.getD i.toInt.toNat (.nil, .nil)
    let v := if i.toInt.toNat < es.length then v else .nil
    let row ← initTable
    let ks ← initString "key".toUTF8.toList
    let vs ← initString "value".toUTF8.toList
    tableInsert row (.obj ks) k
    tableInsert row (.obj vs) v
    popN 2
    push (.obj row)
    dropGuard vs; dropGuard ks; dropGuard row
    return { ip }
  | _ => throwE .invalidArgument
def cAppendTable (ip : Nat) : M Ctl := do
  let inst ← peek 0
  let value ← peek 1
  let (a, _, es) ← getTable inst
  let h := (← get).heap
  tableInsert a (.int (tableAppendKey h es)) value
  popN 2
  return { ip }
def cPopTable (ip : Nat) : M Ctl := do
  let inst ← pop
  let (a, cap, es) ← getTable inst
  match es.getLast? with
  | none => push .nil
  | some (_, v) =>
    modify fun s => { s with heap := s.heap.set a (.table cap es.dropLast) }
    push v
  return { ip }

/-! ## their simulation -/
section ops
variable {c : Cfg} {K : Nat → Prop} {s t : VmState}

/-- an allocating constructor: same address or same error, the new object is guarded -/
def AllocSim (c : Cfg) (m : M Nat) : Prop :=
  ∀ (K : Nat → Prop) (s t : VmState), Agree c K s t →
    W2 c m m (fun a b s' t' => b = a ∧ Agree c (R s') s' t' ∧ a ∈ s'.guards) s t

theorem allocSim_initTable : AllocSim c initTable := fun K s t h =>
  w2_initTable h (fun a s' t' hgo hA => ⟨rfl, hA, SchedSim.initTable_ok_guard hgo⟩)
theorem allocSim_initString (b : List UInt8) : AllocSim c (initString b) := fun K s t h =>
  w2_initString b h (fun a s' t' hgo hA => ⟨rfl, hA, SchedSim.initString_ok_guard hgo⟩)
theorem allocSim_initSimple (o : Obj) (hk : Heap.children o = []) (ho : Heap.chargeOf o = Heap.objCharge) :
    AllocSim c (initSimple o) := fun K s t h =>
  w2_initSimple o hk ho h (fun a s' t' hgo hA => ⟨rfl, hA, SchedSim.initSimple_ok_guard hgo⟩)

theorem sim_alloc (m : M Nat) (hm : AllocSim c m) (ip : Nat) (h : Agree c K s t) :
    W2 c (cAlloc m ip) (cAlloc m ip) (QStep c) s t := by
  unfold cAlloc
  refine w2_bind (w2_mono (hm K s t h) fun a b s1 t1 hq => ?_)
  obtain ⟨rfl, hA, hg⟩ := hq
  refine w2_bind (w2_push' _ hA (VK.obj (SchedSim.reach_guard' hg)) fun s2 t2 _ hA2 => ?_)
  refine w2_bind (w2_dropGuard' _ hA2 fun s3 t3 _ hA3 => ?_)
  exact w2_done hA3 _

theorem sim_getProperty (ip : Nat) (h : Agree c K s t) :
    W2 c (cGetProperty ip) (cGetProperty ip) (QStep c) s t := by
  unfold cGetProperty
  refine w2_bind (w2_pop' h fun key s1 t1 _ _ hkey hA1 => ?_)
  refine w2_bind (w2_pop' hA1 fun inst s2 t2 _ _ hinst hA2 => ?_)
  refine w2_bind (w2_getTable inst hA2 hinst fun a cap es _ ha hg hes => ?_)
  w2h
  refine w2_bind (w2_tableGet es key hA2 hes hkey fun v hv => ?_)
  refine w2_bind (w2_push' _ hA2 hv fun s3 t3 _ hA3 => ?_)
  exact w2_done hA3 _

theorem sim_setProperty (ip : Nat) (h : Agree c K s t) :
    W2 c (cSetProperty ip) (cSetProperty ip) (QStep c) s t := by
  unfold cSetProperty
  have hR := h.toR
  refine w2_bind (w2_peek 0 hR fun key _ hkey => ?_)
  refine w2_bind (w2_peek 1 hR fun inst _ hinst => ?_)
  refine w2_bind (w2_peek 2 hR fun value _ hvalue => ?_)
  refine w2_bind (w2_getTable inst hR hinst fun a cap es _ ha hg hes => ?_)
  w2h
  refine w2_bind (w2_tableInsert a key value hR ha hkey hvalue fun s1 t1 _ hA1 => ?_)
  refine w2_bind (w2_popN' 3 hA1 fun s2 t2 _ hA2 => ?_)
  exact w2_done hA2 _

theorem sim_beginForEach (loopVar loopItem iH kH vH ip : Nat) (h : Agree c K s t) :
    W2 c (cBeginForEach loopVar loopItem iH kH vH ip) (cBeginForEach loopVar loopItem iH kH vH ip)
      (QStep c) s t := by
  unfold cBeginForEach
  refine w2_get' ?_
  w2h
  rw [h.stack.1.last]
  have hitem := h.vk_last
  refine w2_bind (w2_getTable _ h hitem fun a cap es _ ha hg hes => ?_)
  refine w2_bind (w2_curFrame h fun f hf _ => ?_)
  w2h
  refine w2_bind (w2_writeLocal' _ _ _ h VK.int fun s1 t1 _ hA1 => ?_)
  refine w2_bind (w2_writeLocal' _ _ _ hA1 hitem fun s2 t2 _ hA2 => ?_)
  refine w2_bind (w2_writeLocal' _ _ _ hA2 VK.nil fun s3 t3 _ hA3 => ?_)
  refine w2_bind (w2_writeLocal' _ _ _ hA3 VK.nil fun s4 t4 _ hA4 => ?_)
  refine w2_bind (w2_writeLocal' _ _ _ hA4 VK.nil fun s5 t5 _ hA5 => ?_)
  exact w2_done hA5 _

theorem go_getTableOr (v : Val) (e : ErrKind) (s : VmState) :
    ((do let (_, _, es) ← getTable v; pure es) <|> throwE e : M (List (Val × Val))).go s =
      match isTable s.heap v with
      | some es => (.ok es, s)
      | none => (.error e, s) := by
  refine (go_orElse _ (fun _ => throwE e) s).trans ?_
  rw [go_bind]
  cases v with
  | obj a =>
    rw [show (getTable (.obj a)).go s = _ from getTable_run a s]
    unfold isTable
    cases hg : s.heap.get a with
    | none => simp [hg]
    | some o => cases o <;> simp [hg]
  | nil => rfl
  | int _ => rfl
  | real _ => rfl

theorem w2_getTableOr {Q : List (Val × Val) → List (Val × Val) → VmState → VmState → Prop} (v : Val)
    (e : ErrKind) (h : Agree c K s t) (hv : VK K v)
    (hq : ∀ es, (∀ x ∈ es, VK K x.1 ∧ VK K x.2) → Q es es s t) :
    W2 c ((do let (_, _, es) ← getTable v; pure es) <|> throwE e)
      ((do let (_, _, es) ← getTable v; pure es) <|> throwE e) Q s t := by
  have e1 := go_getTableOr v e s
  have e2 := go_getTableOr v e t
  have hi : isTable t.heap v = isTable s.heap v := by
    unfold isTable
    cases v with
    | obj a => dsimp only; rw [h.agree a (hv a rfl)]
    | nil => rfl
    | int _ => rfl
    | real _ => rfl
  rw [hi] at e2
  cases hs : isTable s.heap v with
  | none => rw [hs] at e1 e2; exact w2_of_go_err e1 e2 h.rel
  | some es =>
    rw [hs] at e1 e2
    refine w2_of_go e1 e2 (hq es ?_)
    obtain ⟨a, cap, rfl, hg⟩ := isTable_some hs
    exact fun x hx => h.vk_entry (hv a rfl) hg hx

theorem sim_forEach (loopVar loopItem iH kH vH ip : Nat) (h : Agree c K s t) :
    W2 c (cForEach loopVar loopItem iH kH vH ip) (cForEach loopVar loopItem iH kH vH ip) (QStep c) s t := by
  unfold cForEach
  refine w2_bind (w2_curFrame h fun f hf _ => ?_)
  w2h
  refine w2_bind (w2_readLocal _ _ h fun iv hiv => ?_)
  refine w2_bind (w2_readLocal _ _ h fun objv hobjv => ?_)
  refine w2_get' ?_
  w2h
  rw [h.toI64_eq hiv]
  refine w2_bind (w2_getTableOr objv _ h hobjv fun es hes => ?_)
  w2h
  generalize toI64 s.heap iv = i
  by_cases hc : (0 ≤ i.toInt ∧ i.toInt < es.length)
  · have hd : decide (0 ≤ i.toInt ∧ i.toInt < (es.length : Int)) = true := by simpa using hc
    rw [hd]
    have hmem : es.getD i.toInt.toNat (.nil, .nil) ∈ es := by
      have hlt : i.toInt.toNat < es.length := by omega
      rw [List.getD_eq_getElem?_getD, List.getElem?_eq_getElem hlt]
      exact List.getElem_mem hlt
    have hkv := hes _ hmem
    rcases hg : es.getD i.toInt.toNat (.nil, .nil) with ⟨k, v⟩
    rw [hg] at hkv
    simp only [if_true]
    refine w2_bind (w2_writeLocal' _ _ _ h hkv.2 fun s1 t1 _ hA1 => ?_)
    refine w2_bind (w2_writeLocal' _ _ _ hA1 hkv.1 fun s2 t2 _ hA2 => ?_)
    refine w2_bind (w2_writeLocal' _ _ _ hA2 VK.int fun s3 t3 _ hA3 => ?_)
    refine w2_bind (w2_writeLocal' _ _ _ hA3 VK.int fun s4 t4 _ hA4 => ?_)
    refine w2_bind (w2_push' _ hA4 VK.boolVal fun s5 t5 _ hA5 => ?_)
    exact w2_done hA5 _
  · have hd : decide (0 ≤ i.toInt ∧ i.toInt < (es.length : Int)) = false := by simpa using hc
    rw [hd]
    simp only [Bool.false_eq_true, if_false]
    refine w2_bind (w2_push' _ h VK.boolVal fun s5 t5 _ hA5 => ?_)
    exact w2_done hA5 _

/-! ### private objects -/

theorem grown_initTable {s0 s s' : VmState} {a : Nat} (g : Grown s0 s) (hgo : initTable.go s = (.ok a, s')) :
    Grown s0 s' ∧ s'.heap.get a = some (.table Gen.tableInitCap []) ∧ s'.guards = a :: s.guards ∧
    s0.heap.next ≤ a ∧ (∀ b ob, R s b → s.heap.get b = some ob → s'.heap.get b = some ob) := by
  obtain ⟨h1, h2, h3, h4, _, h6, _⟩ := g.alloc2 (initTable_ok hgo)
  exact ⟨h1, h2, h3, h4, h6⟩

theorem grown_initString {s0 s s' : VmState} {a : Nat} {b : List UInt8} (g : Grown s0 s)
    (hgo : (initString b).go s = (.ok a, s')) :
    Grown s0 s' ∧ s'.heap.get a = some (.str b) ∧ s'.guards = a :: s.guards ∧
    s0.heap.next ≤ a ∧ (∀ b ob, R s b → s.heap.get b = some ob → s'.heap.get b = some ob) := by
  obtain ⟨h1, h2, h3, h4, _, h6, _⟩ := g.alloc2 (initString_ok hgo)
  exact ⟨h1, h2, h3, h4, h6⟩

theorem tableInsert_guards {a : Nat} {k v : Val} {s s' : VmState} {u : Unit}
    (hgo : (tableInsert a k v).go s = (.ok u, s')) : s'.guards = s.guards := by
  have := tableInsertPure_guards a k v s
  rw [← show (tableInsert a k v).go s = _ from tableInsert_run a k v s, hgo] at this
  exact this

theorem vk_grown {s0 s : VmState} (g : Grown s0 s) {v : Val} (hv : VK (R s0) v) : VK (R s) v :=
  fun a e => g.reach (hv a e)

theorem sim_nthRow (ip : Nat) (h : Agree c K s t) :
    W2 c (cNthRow ip) (cNthRow ip) (QStep c) s t := by
  unfold cNthRow
  have hR := h.toR
  refine w2_bind (w2_peek 0 hR fun iv _ hiv => ?_)
  refine w2_bind (w2_peek 1 hR fun inst _ hinst => ?_)
  refine w2_bind (w2_getTable inst hR hinst fun a0 cap0 es _ ha0 hg0 hes => ?_)
  w2h
  cases iv with
  | int i =>
    dsimp only
    by_cases hneg : i.toInt < 0
    · rw [if_pos hneg]
      exact w2_throwE_bind hR.rel
    rw [if_neg hneg]
    have hkv : VK (R s) (es.getD i.toInt.toNat (.nil, .nil)).1 ∧
        VK (R s) (es.getD i.toInt.toNat (.nil, .nil)).2 := by
      by_cases hlt : i.toInt.toNat < es.length
      · have hmem : es.getD i.toInt.toNat (.nil, .nil) ∈ es := by
          rw [List.getD_eq_getElem?_getD, List.getElem?_eq_getElem hlt]
          exact List.getElem_mem hlt
        exact hes _ hmem
      · rw [List.getD_eq_getElem?_getD, List.getElem?_eq_none (by omega)]
        exact ⟨VK.nil, VK.nil⟩
    rcases hgd : es.getD i.toInt.toNat (.nil, .nil) with ⟨k, v0⟩
    rw [hgd] at hkv
    dsimp only at hkv ⊢
    have hv : VK (R s) (if i.toInt.toNat < es.length then v0 else .nil) := by
      split
      · exact hkv.2
      · exact VK.nil
    generalize (if i.toInt.toNat < es.length then v0 else Val.nil) = v at hv ⊢
    have g0 : Grown s s := Grown.refl s h.invL.fresh
    refine w2_bind (w2_initTable hR fun row s1 t1 go1 hA1 => ?_)
    obtain ⟨g1, hrow1, hgd1, hpriv, keep1⟩ := grown_initTable g0 go1
    refine w2_bind (w2_initString _ hA1 fun ks s2 t2 go2 hA2 => ?_)
    obtain ⟨g2, _, hgd2, _, keep2⟩ := grown_initString g1 go2
    refine w2_bind (w2_initString _ hA2 fun vs s3 t3 go3 hA3 => ?_)
    obtain ⟨g3, _, hgd3, _, keep3⟩ := grown_initString g2 go3
    have hrow2 := keep2 row _ (SchedSim.reach_guard' (by rw [hgd1]; simp)) hrow1
    have hrow3 := keep3 row _ (SchedSim.reach_guard' (by rw [hgd2, hgd1]; simp)) hrow2
    have hr3 : R s3 row := SchedSim.reach_guard' (by rw [hgd3, hgd2, hgd1]; simp)
    refine w2_bind (w2_tableInsert row (.obj ks) k hA3 hr3
      (VK.obj (SchedSim.reach_guard' (by rw [hgd3, hgd2]; simp))) (vk_grown g3 hkv.1)
      fun s4 t4 go4 hA4 => ?_)
    obtain ⟨g4, _, hgd4, _, _⟩ := g3.tableInsert hpriv hrow3 hr3 go4
    have hr4 : R s4 row := SchedSim.reach_guard' (by rw [hgd4, hgd3, hgd2, hgd1]; simp)
    refine w2_bind (w2_tableInsert row (.obj vs) v hA4 hr4
      (VK.obj (SchedSim.reach_guard' (by rw [hgd4, hgd3]; simp))) (vk_grown g4 hv)
      fun s5 t5 go5 hA5 => ?_)
    have hgd5 := tableInsert_guards go5
    refine w2_bind (w2_popN' 2 hA5 fun s6 t6 e6 hA6 => ?_)
    refine w2_bind (w2_push' _ hA6 (VK.obj (SchedSim.reach_guard' (by rw [hgd5, hgd4, hgd3, hgd2, hgd1]; simp)))
      fun s7 t7 _ hA7 => ?_)
    refine w2_bind (w2_dropGuard' _ hA7 fun s8 t8 _ hA8 => ?_)
    refine w2_bind (w2_dropGuard' _ hA8 fun s9 t9 _ hA9 => ?_)
    refine w2_bind (w2_dropGuard' _ hA9 fun s10 t10 _ hA10 => ?_)
    exact w2_done hA10 _
  | nil => exact w2_throwE hR.rel
  | real _ => exact w2_throwE hR.rel
  | obj _ => exact w2_throwE hR.rel

theorem tableAppendKey_go_eq (h : Core c K s t) {es : List (Val × Val)} (hes : ∀ e ∈ es, VK K e.1) :
    ∀ (fuel : Nat) (i : Int64), tableAppendKey.go t.heap es fuel i = tableAppendKey.go s.heap es fuel i := by
  intro fuel
  induction fuel with
  | zero => intro i; rfl
  | succ f ih =>
    intro i
    unfold tableAppendKey.go
    rw [h.findEntry_eq hes, ih]

theorem sim_appendTable (ip : Nat) (h : Agree c K s t) :
    W2 c (cAppendTable ip) (cAppendTable ip) (QStep c) s t := by
  unfold cAppendTable
  have hR := h.toR
  refine w2_bind (w2_peek 0 hR fun inst _ hinst => ?_)
  refine w2_bind (w2_peek 1 hR fun value _ hvalue => ?_)
  refine w2_bind (w2_getTable inst hR hinst fun a cap es _ ha hg hes => ?_)
  w2h
  refine w2_get' ?_
  w2h
  have e : tableAppendKey t.heap es = tableAppendKey s.heap es := by
    unfold tableAppendKey
    exact tableAppendKey_go_eq hR.toCore (fun e he => (hes e he).1) _ _
  rw [e]
  refine w2_bind (w2_tableInsert a _ value hR ha VK.int hvalue fun s1 t1 _ hA1 => ?_)
  refine w2_bind (w2_popN' 2 hA1 fun s2 t2 _ hA2 => ?_)
  exact w2_done hA2 _

theorem sim_popTable (ip : Nat) (h : Agree c K s t) :
    W2 c (cPopTable ip) (cPopTable ip) (QStep c) s t := by
  unfold cPopTable
  refine w2_bind (w2_pop' h fun inst s1 t1 _ _ hinst hA => ?_)
  refine w2_bind (w2_getTable inst hA hinst fun a cap es _ ha hg hes => ?_)
  w2h
  cases hl : es.getLast? with
  | none =>
    w2h
    refine w2_bind (w2_push' _ hA VK.nil fun s2 t2 _ hA2 => ?_)
    exact w2_done hA2 _
  | some kv =>
    obtain ⟨k, v⟩ := kv
    w2h
    have hmem : (k, v) ∈ es := List.mem_of_getLast? hl
    refine w2_bind (w2_modify ?_)
    have hA1 := hA.set a (.table cap es.dropLast) ha
      (fun b hb => by
        obtain ⟨e, he, hbe⟩ := List.mem_flatMap.mp hb
        have := hes e (List.dropLast_subset _ he)
        simp only [List.mem_cons, List.not_mem_nil, or_false] at hbe
        rcases hbe with hbe | hbe
        · exact this.1 b hbe.symm
        · exact this.2 b hbe.symm)
      (fun o ho => by rw [hg] at ho; cases ho; rfl)
    refine w2_bind (w2_push' _ hA1 (hes _ hmem).2 fun s2 t2 _ hA2 => ?_)
    exact w2_done hA2 _

end ops

end Cao.SchedFull
