import CaoProofs.Lemmas.WfUpvalues
/-!
# Jumps of compiled code respect the closure blocks (C04c, stage D, part (a))

`JSeg bc L T n0 n1 Bs`: the byte range `[n0, n1)` of `bc` is a concatenation of whole instructions;
`Bs` lists the closure blocks `(a, c)` emitted in it — skip-`Goto` at `a` (its operand is `c`), body
`[a + 5, c)` ending in a `Return` at `c - 1`, `Closure` instruction at `c` whose handle has the label
`a + 5` in the log `L` — every `Closure` instruction of the range is the `c` of a listed block, and every
jump instruction of the range has a target `t` (operand = `t mod 2^32`) in the set `T` that lies in the body
of a listed block iff the jump itself does.

`J k K m`: the Hoare triple that threads `JSeg` through the compiler (`K` = positions in the frozen prefix
`[0, k]` a block may jump back to, as in `Wf.Tr`); back-patched jumps are handled in `encodeIfThen_j`,
`ifElseCode_j`, `closureCode_j`.
-/
namespace Cao.Compiler
open Cao Cao.Bytecode Cao.Compiler.Wf

/-! ## byte level -/

/-- `x` lies in the body `[a + 5, c)` of the closure block `B = (a, c)` -/
def InBody (B : Nat × Nat) (x : Nat) : Prop := B.1 + 5 ≤ x ∧ x < B.2

/-- the static shape of a closure block `(a, c)` inside `[n0, n1)` -/
structure BlkOK (bc : Array UInt8) (L : List (UInt32 × Nat)) (n0 n1 : Nat) (B : Nat × Nat) : Prop where
  ta : Tiled bc n0 B.1
  goto : bc.getD B.1 0 = op.goto
  tgt : rdU32 bc (B.1 + 1) = B.2 % 2 ^ 32
  len : B.1 + 6 ≤ B.2
  tr : Tiled bc n0 (B.2 - 1)
  ret : bc.getD (B.2 - 1) 0 = op.ret
  clo : bc.getD B.2 0 = op.closure
  lab : (UInt32.ofNat (rdU32 bc (B.2 + 1)), B.1 + 5) ∈ L
  hi : B.2 + 9 ≤ n1

structure JSeg (bc : Array UInt8) (L : List (UInt32 × Nat)) (T : Nat → Prop) (n0 n1 : Nat)
    (Bs : List (Nat × Nat)) : Prop where
  tiled : Tiled bc n0 n1
  jmp : ∀ x, Tiled bc n0 x → x < n1 → isJump (bc.getD x 0) = true →
    ∃ t, rdU32 bc (x + 1) = t % 2 ^ 32 ∧ T t ∧ ∀ B ∈ Bs, (InBody B x ↔ InBody B t)
  blk : ∀ B ∈ Bs, BlkOK bc L n0 n1 B
  clos : ∀ x, Tiled bc n0 x → x < n1 → bc.getD x 0 = op.closure → ∃ B ∈ Bs, B.2 = x

theorem BlkOK.lo {bc : Array UInt8} {L : List (UInt32 × Nat)} {n0 n1 : Nat} {B : Nat × Nat}
    (h : BlkOK bc L n0 n1 B) : n0 ≤ B.1 := h.ta.le

theorem BlkOK.mono {bc bc' : Array UInt8} {L L' : List (UInt32 × Nat)} {n0 n1 : Nat} {B : Nat × Nat}
    (h : BlkOK bc L n0 n1 B) (he : ∀ i, n0 ≤ i → i < n1 → bc'.getD i 0 = bc.getD i 0)
    (hL : ∀ l ∈ L, l ∈ L') : BlkOK bc' L' n0 n1 B := by
  have h0 := h.lo
  have h1 := h.len
  have h2 := h.hi
  refine ⟨h.ta.congr fun i a b => he i a (by omega), by rw [he _ (by omega) (by omega)]; exact h.goto, ?_, h.len,
    h.tr.congr fun i a b => he i a (by omega), by rw [he _ (by omega) (by omega)]; exact h.ret,
    by rw [he _ (by omega) (by omega)]; exact h.clo, ?_, h.hi⟩
  · rw [rdU32_congr (bc := bc) fun i a b => he i (by omega) (by omega)]; exact h.tgt
  · rw [rdU32_congr (bc := bc) fun i a b => he i (by omega) (by omega)]; exact hL _ h.lab

theorem BlkOK.widen {bc : Array UInt8} {L : List (UInt32 × Nat)} {n0 n0' n1 n1' : Nat} {B : Nat × Nat}
    (h : BlkOK bc L n0 n1 B) (ht : Tiled bc n0' n0) (h1 : n1 ≤ n1') : BlkOK bc L n0' n1' B :=
  ⟨ht.trans h.ta, h.goto, h.tgt, h.len, ht.trans h.tr, h.ret, h.clo, h.lab, Nat.le_trans h.hi h1⟩

theorem JSeg.nil (bc : Array UInt8) (L : List (UInt32 × Nat)) (T : Nat → Prop) (n : Nat) : JSeg bc L T n n [] :=
  ⟨.nil _, fun x hx hlt => by have := hx.le; omega, fun B hB => (List.not_mem_nil hB).elim,
    fun x hx hlt => by have := hx.le; omega⟩

/-- the predicate only depends on the bytes of its range; it is monotone in the label log and in `T` -/
theorem JSeg.mono {bc bc' : Array UInt8} {L L' : List (UInt32 × Nat)} {T T' : Nat → Prop} {n0 n1 : Nat}
    {Bs : List (Nat × Nat)} (h : JSeg bc L T n0 n1 Bs)
    (he : ∀ i, n0 ≤ i → i < n1 → bc'.getD i 0 = bc.getD i 0) (hL : ∀ l ∈ L, l ∈ L')
    (hT : ∀ t, T t → T' t) : JSeg bc' L' T' n0 n1 Bs := by
  have back : ∀ x, Tiled bc' n0 x → x ≤ n1 → Tiled bc n0 x := fun x hx hle =>
    hx.congr fun i h1 h2 => (he i h1 (by omega)).symm
  refine ⟨h.tiled.congr he, ?_, fun B hB => (h.blk B hB).mono he hL, ?_⟩
  · intro x hx hlt hj
    have hx0 := back x hx (by omega)
    have hxle := hx0.le
    rw [he x hxle hlt] at hj
    obtain ⟨n, hn, hle, _⟩ := hx0.start_lt h.tiled hlt
    have h5 := isJump_span hj
    rw [hn] at h5; cases h5
    obtain ⟨t, h1, h2, h3⟩ := h.jmp x hx0 hlt hj
    refine ⟨t, ?_, hT t h2, h3⟩
    rw [rdU32_congr (bc := bc) fun i a b => he i (by omega) (by omega)]; exact h1
  · intro x hx hlt hc
    have hx0 := back x hx (by omega)
    rw [he x hx0.le hlt] at hc
    exact h.clos x hx0 hlt hc

theorem JSeg.weaken {bc : Array UInt8} {L : List (UInt32 × Nat)} {T T' : Nat → Prop} {n0 n1 : Nat}
    {Bs : List (Nat × Nat)} (h : JSeg bc L T n0 n1 Bs) (hT : ∀ t, T t → T' t) : JSeg bc L T' n0 n1 Bs :=
  h.mono (fun _ _ _ => rfl) (fun _ h => h) hT

/-- sequencing: the targets of the first part avoid the inside of the second part and vice versa -/
theorem JSeg.append {bc : Array UInt8} {L : List (UInt32 × Nat)} {T1 T2 T : Nat → Prop} {n0 n1 n2 : Nat}
    {Bs1 Bs2 : List (Nat × Nat)} (h1 : JSeg bc L T1 n0 n1 Bs1) (h2 : JSeg bc L T2 n1 n2 Bs2)
    (c1 : ∀ t, T1 t → t ≤ n1 ∨ n2 ≤ t) (c2 : ∀ t, T2 t → t ≤ n0 ∨ n1 ≤ t)
    (w1 : ∀ t, T1 t → T t) (w2 : ∀ t, T2 t → T t) : JSeg bc L T n0 n2 (Bs1 ++ Bs2) := by
  have l1 := h1.tiled.le
  have l2 := h2.tiled.le
  refine ⟨h1.tiled.trans h2.tiled, ?_, ?_, ?_⟩
  · intro x hx hlt hj
    rcases Nat.lt_or_ge x n1 with hx1 | hx1
    · obtain ⟨t, e, ht, hr⟩ := h1.jmp x hx hx1 hj
      refine ⟨t, e, w1 t ht, fun B hB => ?_⟩
      rcases List.mem_append.1 hB with hB | hB
      · exact hr B hB
      · have b1 := (h2.blk B hB).lo
        have b2 := (h2.blk B hB).hi
        have := c1 t ht
        unfold InBody
        constructor <;> intro ⟨_, _⟩ <;> omega
    · have hx' := h1.tiled.split hx hx1
      obtain ⟨t, e, ht, hr⟩ := h2.jmp x hx' hlt hj
      refine ⟨t, e, w2 t ht, fun B hB => ?_⟩
      rcases List.mem_append.1 hB with hB | hB
      · have b1 := (h1.blk B hB).lo
        have b2 := (h1.blk B hB).hi
        have := c2 t ht
        unfold InBody
        constructor <;> intro ⟨_, _⟩ <;> omega
      · exact hr B hB
  · intro B hB
    rcases List.mem_append.1 hB with hB | hB
    · exact (h1.blk B hB).widen (.nil _) l2
    · exact (h2.blk B hB).widen h1.tiled (Nat.le_refl _)
  · intro x hx hlt hc
    rcases Nat.lt_or_ge x n1 with hx1 | hx1
    · obtain ⟨B, hB, e⟩ := h1.clos x hx hx1 hc
      exact ⟨B, List.mem_append_left _ hB, e⟩
    · obtain ⟨B, hB, e⟩ := h2.clos x (h1.tiled.split hx hx1) hlt hc
      exact ⟨B, List.mem_append_right _ hB, e⟩

/-- the only instruction start of a one-instruction range -/
theorem start_single {bc : Array UInt8} {n0 k x : Nat} (hs : Gen.spanOf (bc.getD n0 0) = some k)
    (hx : Tiled bc n0 x) (hlt : x < n0 + k) : x = n0 := by
  cases hx with
  | nil => rfl
  | cons hs' ht' =>
    rw [hs] at hs'; cases hs'
    have := ht'.le; omega

/-- one instruction that is neither a jump nor a `Closure` -/
theorem JSeg.plain {bc : Array UInt8} {L : List (UInt32 × Nat)} {T : Nat → Prop} {n0 k : Nat}
    (hs : Gen.spanOf (bc.getD n0 0) = some k) (hj : isJump (bc.getD n0 0) = false)
    (hc : bc.getD n0 0 ≠ op.closure) : JSeg bc L T n0 (n0 + k) [] := by
  refine ⟨.single hs, ?_, fun B hB => (List.not_mem_nil hB).elim, ?_⟩
  · intro x hx hlt hjx
    rw [start_single hs hx hlt, hj] at hjx; cases hjx
  · intro x hx hlt hcx
    rw [start_single hs hx hlt] at hcx; exact absurd hcx hc

/-- one jump instruction -/
theorem JSeg.jump {bc : Array UInt8} {L : List (UInt32 × Nat)} {T : Nat → Prop} {n0 t : Nat}
    (hj : isJump (bc.getD n0 0) = true) (ht : rdU32 bc (n0 + 1) = t % 2 ^ 32) (hT : T t) :
    JSeg bc L T n0 (n0 + 5) [] := by
  have hs := isJump_span hj
  refine ⟨.single hs, ?_, fun B hB => (List.not_mem_nil hB).elim, ?_⟩
  · intro x hx hlt _
    rw [start_single hs hx hlt]
    exact ⟨t, ht, hT, fun B hB => by cases hB⟩
  · intro x hx hlt hcx
    rw [start_single hs hx hlt] at hcx
    rw [hcx] at hj; exact absurd hj (by decide)

/-- a jump instruction in front of a range -/
theorem JSeg.jump_cons {bc : Array UInt8} {L : List (UInt32 × Nat)} {T T2 : Nat → Prop} {n0 n1 t : Nat}
    {Bs : List (Nat × Nat)} (hj : isJump (bc.getD n0 0) = true) (ht : rdU32 bc (n0 + 1) = t % 2 ^ 32)
    (h2 : JSeg bc L T2 (n0 + 5) n1 Bs) (hout : t ≤ n0 + 5 ∨ n1 ≤ t) (c2 : ∀ t, T2 t → t ≤ n0 ∨ n0 + 5 ≤ t)
    (hT : T t) (w2 : ∀ t, T2 t → T t) : JSeg bc L T n0 n1 Bs := by
  have := (JSeg.jump (L := L) (T := fun u => u = t) hj ht rfl).append h2
    (fun u hu => by subst hu; exact hout) c2 (fun u hu => by subst hu; exact hT) w2
  simpa using this

/-- **the closure rule**, byte level: skip-`Goto`, body, `ScalarNil; Return`, `Closure`, registrations -/
theorem JSeg.closure {bc : Array UInt8} {L : List (UInt32 × Nat)} {Tb T : Nat → Prop} {a c' e : Nat}
    {Bs : List (Nat × Nat)} (hg : bc.getD a 0 = op.goto) (htgt : rdU32 bc (a + 1) = (c' + 2) % 2 ^ 32)
    (hb : JSeg bc L Tb (a + 5) c' Bs) (hTb : ∀ t, Tb t → a + 5 ≤ t ∧ t ≤ c')
    (hnil : bc.getD c' 0 = op.scalarNil) (hret : bc.getD (c' + 1) 0 = op.ret)
    (hclo : bc.getD (c' + 2) 0 = op.closure)
    (hlab : (UInt32.ofNat (rdU32 bc (c' + 2 + 1)), a + 5) ∈ L)
    (htail : Tiled bc (c' + 2 + 9) e)
    (hpl : ∀ x, Tiled bc (c' + 2 + 9) x → x < e → isJump (bc.getD x 0) = false ∧ bc.getD x 0 ≠ op.closure)
    (hT : T (c' + 2)) (hw : ∀ t, Tb t → T t) : JSeg bc L T a e ((a, c' + 2) :: Bs) := by
  have sg : Gen.spanOf (bc.getD a 0) = some 5 := by rw [hg]; decide
  have sn : Gen.spanOf (bc.getD c' 0) = some 1 := by rw [hnil]; decide
  have sr : Gen.spanOf (bc.getD (c' + 1) 0) = some 1 := by rw [hret]; decide
  have sc : Gen.spanOf (bc.getD (c' + 2) 0) = some 9 := by rw [hclo]; decide
  have lb := hb.tiled.le
  have lt := htail.le
  have t5 : Tiled bc a (a + 5) := .single sg
  have tc' : Tiled bc a c' := t5.trans hb.tiled
  have tc1 : Tiled bc a (c' + 1) := tc'.trans (.single sn)
  have tc : Tiled bc a (c' + 2) := tc1.trans (.single sr)
  have te : Tiled bc a e := (tc.trans (.single sc)).trans htail
  have bok : BlkOK bc L a e (a, c' + 2) :=
    ⟨.nil _, hg, htgt, by show a + 6 ≤ c' + 2; omega, by show Tiled bc a (c' + 2 - 1); exact tc1,
      by show bc.getD (c' + 2 - 1) 0 = _; exact hret, hclo, hlab, by show c' + 2 + 9 ≤ e; omega⟩
  -- where an instruction start of the range lies
  have locate : ∀ x, Tiled bc a x → x < e →
      x = a ∨ (Tiled bc (a + 5) x ∧ x < c') ∨ x = c' ∨ x = c' + 1 ∨ x = c' + 2 ∨ Tiled bc (c' + 2 + 9) x := by
    intro x hx hxe
    rcases hx with _ | ⟨hs', hx1⟩
    · exact .inl rfl
    · rw [sg] at hs'; cases hs'
      rcases Nat.lt_or_ge x c' with h | h
      · exact .inr (.inl ⟨hx1, h⟩)
      · have hx2 := hb.tiled.split hx1 h
        rcases hx2 with _ | ⟨hs'', hx3⟩
        · exact .inr (.inr (.inl rfl))
        · rw [sn] at hs''; cases hs''
          rcases hx3 with _ | ⟨hs3, hx4⟩
          · exact .inr (.inr (.inr (.inl rfl)))
          · rw [sr] at hs3; cases hs3
            rcases hx4 with _ | ⟨hs4, hx5⟩
            · exact .inr (.inr (.inr (.inr (.inl rfl))))
            · rw [sc] at hs4; cases hs4
              exact .inr (.inr (.inr (.inr (.inr hx5))))
  refine ⟨te, ?_, ?_, ?_⟩
  · intro x hx hlt hj
    rcases locate x hx hlt with rfl | ⟨h1, h2⟩ | rfl | rfl | rfl | h
    · refine ⟨c' + 2, htgt, hT, fun B hB => ?_⟩
      rcases List.mem_cons.1 hB with rfl | hB
      · unfold InBody; constructor <;> intro ⟨_, _⟩ <;> simp only at * <;> omega
      · have b1 := (hb.blk B hB).lo
        have b2 := (hb.blk B hB).hi
        unfold InBody; constructor <;> intro ⟨_, _⟩ <;> omega
    · obtain ⟨t, e1, ht, hr⟩ := hb.jmp x h1 h2 hj
      have hx5 := h1.le
      have := hTb t ht
      refine ⟨t, e1, hw t ht, fun B hB => ?_⟩
      rcases List.mem_cons.1 hB with rfl | hB
      · unfold InBody; constructor <;> intro _ <;> simp only <;> omega
      · exact hr B hB
    · rw [hnil] at hj; exact absurd hj (by decide)
    · rw [hret] at hj; exact absurd hj (by decide)
    · rw [hclo] at hj; exact absurd hj (by decide)
    · rw [(hpl x h hlt).1] at hj; cases hj
  · intro B hB
    rcases List.mem_cons.1 hB with rfl | hB
    · exact bok
    · exact (hb.blk B hB).widen t5 (by omega)
  · intro x hx hlt hc
    rcases locate x hx hlt with rfl | ⟨h1, h2⟩ | rfl | rfl | rfl | h
    · rw [hg] at hc; exact absurd hc (by decide)
    · obtain ⟨B, hB, e1⟩ := hb.clos x h1 h2 hc
      exact ⟨B, List.mem_cons_of_mem _ hB, e1⟩
    · rw [hnil] at hc; exact absurd hc (by decide)
    · rw [hret] at hc; exact absurd hc (by decide)
    · exact ⟨_, List.mem_cons_self .., rfl⟩
    · exact absurd hc (hpl x h hlt).2

/-- positions outside of a range are outside of the bodies of its blocks -/
theorem JSeg.outside {bc : Array UInt8} {L : List (UInt32 × Nat)} {T : Nat → Prop} {n0 n1 : Nat}
    {Bs : List (Nat × Nat)} (h : JSeg bc L T n0 n1 Bs) {q : Nat} (hq : q ≤ n0 ∨ n1 ≤ q + 9) :
    ∀ B ∈ Bs, ¬ InBody B q := by
  intro B hB ⟨h1, h2⟩
  have b1 := (h.blk B hB).lo
  have b2 := (h.blk B hB).hi
  have b3 := (h.blk B hB).len
  omega

/-! ## compiler level: the relation between the states before and after a block -/

/-- allowed targets of a block `[a, b)`: known positions of the frozen prefix, or inside the block -/
def Win (K : Nat → Prop) (a b : Nat) : Nat → Prop := fun t => K t ∨ (a ≤ t ∧ t ≤ b)

structure JR (K : Nat → Prop) (s s' : CState) : Prop where
  size_le : s.bytecode.size ≤ s'.bytecode.size
  pref : ∀ i, i < s.bytecode.size → s'.bytecode.getD i 0 = s.bytecode.getD i 0
  labels : ∃ l, s'.labels = s.labels ++ l
  seg : ∃ Bs, JSeg s'.bytecode s'.labels (Win K s.bytecode.size s'.bytecode.size)
    s.bytecode.size s'.bytecode.size Bs

theorem JR.of_eq {K : Nat → Prop} {s s' : CState} (hb : s'.bytecode = s.bytecode)
    (hl : ∃ l, s'.labels = s.labels ++ l) : JR K s s' :=
  ⟨by rw [hb]; exact Nat.le_refl _, fun i _ => by rw [hb], hl, [], by rw [hb]; exact JSeg.nil _ _ _ _⟩

theorem JR.refl (K : Nat → Prop) (s : CState) : JR K s s := JR.of_eq rfl ⟨[], by simp⟩

theorem JR.labels_sub {K : Nat → Prop} {s s' : CState} (h : JR K s s') : ∀ l ∈ s.labels, l ∈ s'.labels := by
  obtain ⟨x, e⟩ := h.labels
  intro l hl; rw [e]; exact List.mem_append_left _ hl

/-- the segments of two consecutive blocks -/
theorem jseg_trans {K : Nat → Prop} {s s1 s2 : CState} (hK : ∀ t, K t → t ≤ s.bytecode.size)
    (z1 : s.bytecode.size ≤ s1.bytecode.size) (h2 : JR K s1 s2) {Bs1 Bs2 : List (Nat × Nat)}
    (g1 : JSeg s1.bytecode s1.labels (Win K s.bytecode.size s1.bytecode.size) s.bytecode.size s1.bytecode.size Bs1)
    (g2 : JSeg s2.bytecode s2.labels (Win K s1.bytecode.size s2.bytecode.size) s1.bytecode.size s2.bytecode.size Bs2) :
    JSeg s2.bytecode s2.labels (Win K s.bytecode.size s2.bytecode.size) s.bytecode.size s2.bytecode.size
      (Bs1 ++ Bs2) := by
  have z2 := h2.size_le
  refine (g1.mono (fun i _ hi => h2.pref i hi) h2.labels_sub (fun _ h => h)).append g2 ?_ ?_ ?_ ?_
  · rintro t (h | h)
    · have := hK t h; omega
    · omega
  · rintro t (h | h)
    · have := hK t h; omega
    · omega
  · rintro t (h | h)
    · exact .inl h
    · exact .inr (by omega)
  · rintro t (h | h)
    · exact .inl h
    · exact .inr (by omega)

theorem JR.trans {K : Nat → Prop} {s s1 s2 : CState} (hK : ∀ t, K t → t ≤ s.bytecode.size)
    (h1 : JR K s s1) (h2 : JR K s1 s2) : JR K s s2 := by
  obtain ⟨l1, e1⟩ := h1.labels
  obtain ⟨l2, e2⟩ := h2.labels
  obtain ⟨Bs1, g1⟩ := h1.seg
  obtain ⟨Bs2, g2⟩ := h2.seg
  have z1 := h1.size_le
  have z2 := h2.size_le
  exact ⟨by omega, fun i hi => by rw [h2.pref i (by omega), h1.pref i hi],
    ⟨l1 ++ l2, by rw [e2, e1, List.append_assoc]⟩, Bs1 ++ Bs2, jseg_trans hK z1 h2 g1 g2⟩

theorem JR.weakenK {K K' : Nat → Prop} {s s' : CState} (h : JR K' s s')
    (hK : ∀ t, K' t → K t ∨ (s.bytecode.size ≤ t ∧ t ≤ s'.bytecode.size)) : JR K s s' := by
  obtain ⟨Bs, g⟩ := h.seg
  refine ⟨h.size_le, h.pref, h.labels, Bs, g.weaken ?_⟩
  rintro t (h | h)
  · exact hK t h
  · exact .inr h

/-! ## the Hoare triple -/

structure J {α : Type} (k : Nat) (K : Nat → Prop) (m : CM α) : Prop where
  run : ∀ s a s', m s = .ok (a, s') → k ≤ s.bytecode.size → (∀ t, K t → t ≤ k) → JR K s s'

/-- sub-blocks: code of child cards, from any frozen prefix with any known positions -/
abbrev JB {α : Type} (m : CM α) : Prop := ∀ k K, J k K m

theorem j_of_keep {α : Type} {k : Nat} {K : Nat → Prop} {m : CM α} (h : Keep m) : J k K m := by
  constructor
  intro s a s' hr _ _
  have hc := h.run s a s' hr
  simp only [ucore, Prod.mk.injEq] at hc
  exact JR.of_eq hc.1 ⟨[], by rw [hc.2.1]; simp⟩

theorem j_pure {α : Type} {k : Nat} {K : Nat → Prop} {a : α} : J k K (pure a : CM α) := j_of_keep keep_pure
theorem j_get {k : Nat} {K : Nat → Prop} : J k K (get : CM CState) := j_of_keep keep_get
theorem j_throw {α : Type} {k : Nat} {K : Nat → Prop} {e : CErr} : J k K (throw e : CM α) := j_of_keep keep_throw
theorem j_fail {α : Type} {k : Nat} {K : Nat → Prop} {e : CErrKind} : J k K (fail e : CM α) := j_of_keep keep_fail
theorem j_throw_bind {α β : Type} {k : Nat} {K : Nat → Prop} {e : CErr} {f : α → CM β} :
    J k K ((throw e : CM α) >>= f) := j_of_keep keep_throw_bind
theorem j_fail_bind {α β : Type} {k : Nat} {K : Nat → Prop} {e : CErrKind} {f : α → CM β} :
    J k K ((fail e : CM α) >>= f) := j_of_keep keep_fail_bind

theorem j_bind {α β : Type} {k : Nat} {K : Nat → Prop} {m : CM α} {f : α → CM β} (hm : J k K m)
    (hf : ∀ a, J k K (f a)) : J k K (m >>= f) := by
  constructor
  intro s b s'' hr hk hK
  obtain ⟨a, s', h1, h2⟩ := bind_ok.1 hr
  have r1 := hm.run s a s' h1 hk hK
  have r2 := (hf a).run s' b s'' h2 (Nat.le_trans hk r1.size_le) hK
  exact r1.trans (fun t ht => Nat.le_trans (hK t ht) hk) r2

/-- reading the state: the continuation may jump back to the current end of the bytecode -/
theorem j_get_bind {β : Type} {k : Nat} {K : Nat → Prop} {f : CState → CM β}
    (h : ∀ st, k ≤ st.bytecode.size → J st.bytecode.size (fun t => K t ∨ t = st.bytecode.size) (f st)) :
    J k K (get >>= f) := by
  constructor
  intro s b s' hr hk hK
  rw [get_bind_run] at hr
  have r := (h s hk).run s b s' hr (Nat.le_refl _) (by
    rintro t (ht | rfl)
    · exact Nat.le_trans (hK t ht) hk
    · exact Nat.le_refl _)
  refine r.weakenK ?_
  rintro t (ht | rfl)
  · exact .inl ht
  · exact .inr ⟨Nat.le_refl _, r.size_le⟩

theorem j_ite {α : Type} {k : Nat} {K : Nat → Prop} {c : Prop} [Decidable c] {x y : CM α} (hx : J k K x)
    (hy : J k K y) : J k K (if c then x else y) := by
  split <;> assumption

theorem j_assoc {α β γ : Type} {k : Nat} {K : Nat → Prop} {m : CM α} {f : α → CM β} {g : β → CM γ}
    (h : J k K ((m >>= f) >>= g)) : J k K (m >>= fun a => f a >>= g) := by
  constructor
  intro s c s' hr
  refine h.run s c s' ?_
  obtain ⟨a, s1, h1, h2⟩ := bind_ok.1 hr
  obtain ⟨b, s2, h3, h4⟩ := bind_ok.1 h2
  exact bind_ok.2 ⟨b, s2, bind_ok.2 ⟨a, s1, h1, h3⟩, h4⟩

theorem j_unit_bind {β : Type} {k : Nat} {K : Nat → Prop} {m : CM Unit} {f : Unit → CM Unit} {g : Unit → CM β}
    (hu : J k K (m >>= f)) (hg : J k K (g ())) : J k K (m >>= fun a => f a >>= g) :=
  j_assoc (j_bind hu fun _ => hg)

theorem J.step {α β : Type} {k : Nat} {K : Nat → Prop} {m : CM α} {f : α → CM β} {s s'' : CState} {b : β}
    (hm : J k K m) (hk : k ≤ s.bytecode.size) (hK : ∀ t, K t → t ≤ k)
    (hr : (m >>= f) s = .ok (b, s'')) : ∃ a s', JR K s s' ∧ f a s' = .ok (b, s'') := by
  obtain ⟨a, s', h1, h2⟩ := bind_ok.1 hr
  exact ⟨a, s', hm.run s a s' h1 hk hK, h2⟩

syntax "j_prim" : tactic
macro_rules | `(tactic| j_prim) => `(tactic| assumption)
macro_rules | `(tactic| j_prim) => `(tactic| with_reducible exact (by assumption : ∀ k K, J k K _) _ _)
macro_rules | `(tactic| j_prim) => `(tactic| with_reducible exact (by assumption : ∀ _ k K, J k K _) _ _ _)
macro_rules | `(tactic| j_prim) => `(tactic| with_reducible exact (by assumption : ∀ _ _ k K, J k K _) _ _ _ _)

macro "j_step" : tactic => `(tactic| first
  | j_prim
  | dsimp only
  | with_reducible exact j_throw_bind
  | with_reducible exact j_fail_bind
  | with_reducible exact j_pure
  | with_reducible exact j_throw
  | with_reducible exact j_fail
  | with_reducible apply j_get_bind
  | with_reducible apply j_bind
  | with_reducible apply j_ite
  | intro _
  | split)
macro "jj" : tactic => `(tactic| repeat' j_step)

macro_rules | `(tactic| j_prim) => `(tactic| with_reducible exact j_of_keep (keep_modify (fun _ => rfl)))
macro_rules | `(tactic| j_prim) => `(tactic| with_reducible exact j_of_keep (pushSub_keep _))
macro_rules | `(tactic| j_prim) => `(tactic| with_reducible exact j_of_keep popSub_keep)
macro_rules | `(tactic| j_prim) => `(tactic| with_reducible exact j_of_keep scopeBegin_keep)
macro_rules | `(tactic| j_prim) => `(tactic| with_reducible exact j_of_keep (validateVarName_keep _))
macro_rules | `(tactic| j_prim) => `(tactic| with_reducible exact j_of_keep (addLocalUnchecked_keep _))
macro_rules | `(tactic| j_prim) => `(tactic| with_reducible exact j_of_keep (addLocal_keep _))
macro_rules | `(tactic| j_prim) => `(tactic| with_reducible exact j_of_keep (addLocals_keep _))
macro_rules | `(tactic| j_prim) => `(tactic| with_reducible exact j_of_keep (globalId_keep _))
macro_rules | `(tactic| j_prim) => `(tactic| with_reducible exact j_of_keep (addFunctions_keep _))

theorem withSub_j {k : Nat} {K : Nat → Prop} {i : Nat} {m : CM Unit} (hm : J k K m) : J k K (withSub i m) := by
  unfold withSub; jj
macro_rules | `(tactic| j_prim) => `(tactic| with_reducible apply withSub_j)

/-- actions that keep the bytecode and the label log (but may change the upvalue tables) -/
structure KB {α : Type} (m : CM α) : Prop where
  run : ∀ s a s', m s = .ok (a, s') → s'.bytecode = s.bytecode ∧ s'.labels = s.labels

theorem kb_of_keep {α : Type} {m : CM α} (h : Keep m) : KB m := by
  constructor
  intro s a s' hr
  have hc := h.run s a s' hr
  simp only [ucore, Prod.mk.injEq] at hc
  exact ⟨hc.1, hc.2.1⟩

theorem kb_bind {α β : Type} {m : CM α} {f : α → CM β} (hm : KB m) (hf : ∀ a, KB (f a)) : KB (m >>= f) := by
  constructor
  intro s b s'' hr
  obtain ⟨a, s', h1, h2⟩ := bind_ok.1 hr
  obtain ⟨e1, e2⟩ := hm.run _ _ _ h1
  obtain ⟨e3, e4⟩ := (hf a).run _ _ _ h2
  exact ⟨by rw [e3, e1], by rw [e4, e2]⟩

theorem kb_modify {f : CState → CState} (h : ∀ s, (f s).bytecode = s.bytecode ∧ (f s).labels = s.labels) :
    KB (modify f : CM Unit) := by
  constructor
  intro s a s' hr
  simp only [modify_run, Except.ok.injEq, Prod.mk.injEq] at hr
  rw [← hr.2]; exact h s

theorem j_of_kb {α : Type} {k : Nat} {K : Nat → Prop} {m : CM α} (h : KB m) : J k K m := by
  constructor
  intro s a s' hr _ _
  obtain ⟨e1, e2⟩ := h.run s a s' hr
  exact JR.of_eq e1 ⟨[], by rw [e2]; simp⟩

theorem addUpvalue_kb (i : UInt8) (l : Bool) (fid : Nat) : KB (addUpvalue i l fid) := by
  unfold addUpvalue
  refine kb_bind (kb_of_keep keep_get) fun s => ?_
  dsimp only
  split
  · exact kb_of_keep keep_pure
  · split
    · exact kb_of_keep keep_fail_bind
    · exact kb_bind (kb_modify fun _ => ⟨rfl, rfl⟩) fun _ => kb_of_keep keep_pure

theorem resolveUpvalue_kb (n : String) : ∀ fid, KB (resolveUpvalue n fid)
  | 0 => by unfold resolveUpvalue; exact kb_of_keep keep_pure
  | fid+1 => by
    have ih := resolveUpvalue_kb n fid
    unfold resolveUpvalue
    refine kb_bind (kb_of_keep keep_get) fun s => ?_
    dsimp only
    split
    · exact kb_bind (kb_modify fun _ => ⟨rfl, rfl⟩) fun _ => kb_bind (addUpvalue_kb _ _ _) fun _ => kb_of_keep keep_pure
    · refine kb_bind ih fun v => ?_
      split
      · exact kb_bind (addUpvalue_kb _ _ _) fun _ => kb_of_keep keep_pure
      · exact kb_of_keep keep_pure

theorem resolveVar_kb (n : String) : KB (resolveVar n) := by
  unfold resolveVar
  refine kb_bind (kb_of_keep (validateVarName_keep _)) fun _ => kb_bind (kb_of_keep keep_get) fun s => ?_
  dsimp only
  split
  · exact kb_of_keep keep_pure
  · exact resolveUpvalue_kb _ _
macro_rules | `(tactic| j_prim) => `(tactic| with_reducible exact j_of_kb (resolveVar_kb _))

theorem insertLabel_j {k : Nat} {K : Nat → Prop} (h : UInt32) (pos : Nat) : J k K (insertLabel h pos) := by
  constructor
  intro s a s' hr _ _
  rw [insertLabel_ok hr]
  exact JR.of_eq rfl ⟨_, rfl⟩
theorem cardLabel_j {k : Nat} {K : Nat → Prop} : J k K cardLabel := by
  unfold cardLabel
  exact j_bind j_get fun _ => insertLabel_j _ _
macro_rules | `(tactic| j_prim) => `(tactic| with_reducible exact cardLabel_j)

/-! ## instruction units -/

/-- one whole instruction that is neither a jump nor a `Closure` is appended -/
theorem instr_jr {K : Nat → Prop} {s s' : CState} {o : UInt8} {bs : List UInt8}
    (hb : s'.bytecode = s.bytecode ++ (o :: bs).toArray) (hl : ∃ l, s'.labels = s.labels ++ l)
    (hsp : Gen.spanOf o = some (bs.length + 1)) (hj : isJump o = false) (hc : o ≠ op.closure) : JR K s s' := by
  have hsz : s'.bytecode.size = s.bytecode.size + (bs.length + 1) := by rw [hb]; simp
  have ho : s'.bytecode.getD s.bytecode.size 0 = o := by rw [hb]; exact getD_append_op _ _ _
  refine ⟨by omega, fun i hi => by rw [hb]; exact getD_append_left hi, hl, [], ?_⟩
  rw [hsz]
  exact JSeg.plain (by rw [ho]; exact hsp) (by rw [ho]; exact hj) (by rw [ho]; exact hc)

/-- the operand of an appended 5-byte instruction -/
theorem rdU32_appended (bc : Array UInt8) (o : UInt8) (x : Nat) :
    rdU32 (bc ++ (o :: le32 (UInt32.ofNat x)).toArray) (bc.size + 1) = x % 2 ^ 32 := by
  have h := rdU32_opBytes (bc ++ (o :: le32 (UInt32.ofNat x)).toArray) bc.size (le32 (UInt32.ofNat x)).length 0
    (by rw [le32_length]; omega)
  rw [Nat.add_zero] at h
  rw [h, opBytes_append, u32L_ofNat]

/-- a jump instruction with a final operand is appended -/
theorem jump_jr {K : Nat → Prop} {s s' : CState} {o : UInt8} {t : Nat}
    (hb : s'.bytecode = s.bytecode ++ (o :: le32 (UInt32.ofNat t)).toArray)
    (hl : ∃ l, s'.labels = s.labels ++ l) (ho : isJump o = true)
    (hT : K t ∨ (s.bytecode.size ≤ t ∧ t ≤ s.bytecode.size + 5)) : JR K s s' := by
  have hsz : s'.bytecode.size = s.bytecode.size + 5 := by rw [hb]; simp [le32_length]
  have hop : s'.bytecode.getD s.bytecode.size 0 = o := by rw [hb]; exact getD_append_op _ _ _
  refine ⟨by omega, fun i hi => by rw [hb]; exact getD_append_left hi, hl, [], ?_⟩
  rw [hsz]
  refine JSeg.jump (t := t) (by rw [hop]; exact ho) (by rw [hb]; exact rdU32_appended _ _ _) ?_
  rcases hT with h | h
  · exact .inl h
  · exact .inr h

theorem instr_j {k : Nat} {K : Nat → Prop} {o : UInt8} {bs : List UInt8}
    (hsp : Gen.spanOf o = some (bs.length + 1)) (hj : isJump o = false) (hc : o ≠ op.closure) :
    J k K (pushInstr o >>= fun _ => emitBytes bs) := by
  constructor
  intro s a s' hr _ _
  rw [pushInstr_emit_run] at hr
  simp only [Except.ok.injEq, Prod.mk.injEq] at hr
  obtain ⟨_, rfl⟩ := hr
  exact instr_jr rfl ⟨[], by simp [afterInstr]⟩ hsp hj hc

theorem instr0_j {k : Nat} {K : Nat → Prop} {o : UInt8} (hsp : Gen.spanOf o = some 1) (hj : isJump o = false)
    (hc : o ≠ op.closure) : J k K (pushInstr o) := by
  constructor
  intro s a s' hr _ _
  rw [pushInstr_run] at hr
  simp only [Except.ok.injEq, Prod.mk.injEq] at hr
  obtain ⟨_, rfl⟩ := hr
  exact instr_jr (bs := []) rfl ⟨[], by simp [afterInstr]⟩ hsp hj hc

theorem instrU32_j {k : Nat} {K : Nat → Prop} {o : UInt8} {x : Nat} (hsp : Gen.spanOf o = some 5)
    (hj : isJump o = false) (hc : o ≠ op.closure) : J k K (pushInstr o >>= fun _ => emitU32 x) :=
  instr_j (bs := le32 (UInt32.ofNat x)) (by rw [le32_length]; exact hsp) hj hc

/-- a jump back to a known position -/
theorem instrJump_j {k : Nat} {K : Nat → Prop} {o : UInt8} {t : Nat} (hs : isJump o = true) (ht : K t) :
    J k K (pushInstr o >>= fun _ => emitU32 t) := by
  constructor
  intro s a s' hr _ _
  change (pushInstr o >>= fun _ => emitBytes (le32 (UInt32.ofNat t))) s = _ at hr
  rw [pushInstr_emit_run] at hr
  simp only [Except.ok.injEq, Prod.mk.injEq] at hr
  obtain ⟨_, rfl⟩ := hr
  exact jump_jr rfl ⟨[], by simp [afterInstr]⟩ hs (.inl ht)

theorem readLocalVar_j {k : Nat} {K : Nat → Prop} (i : Nat) : J k K (readLocalVar i) :=
  instrU32_j (by decide) (by decide) (by decide)
theorem writeLocalVar_j {k : Nat} {K : Nat → Prop} (i : Nat) : J k K (writeLocalVar i) :=
  instrU32_j (by decide) (by decide) (by decide)
theorem readUpvalue_j {k : Nat} {K : Nat → Prop} (i : Nat) : J k K (readUpvalue i) :=
  instrU32_j (by decide) (by decide) (by decide)
theorem writeUpvalue_j {k : Nat} {K : Nat → Prop} (i : Nat) : J k K (writeUpvalue i) :=
  instrU32_j (by decide) (by decide) (by decide)
macro_rules | `(tactic| j_prim) => `(tactic| with_reducible exact readLocalVar_j _)
macro_rules | `(tactic| j_prim) => `(tactic| with_reducible exact writeLocalVar_j _)
macro_rules | `(tactic| j_prim) => `(tactic| with_reducible exact readUpvalue_j _)
macro_rules | `(tactic| j_prim) => `(tactic| with_reducible exact writeUpvalue_j _)

theorem jplain_unOp (u : UnKind) :
    Gen.spanOf (unOp u) = some 1 ∧ isJump (unOp u) = false ∧ unOp u ≠ op.closure := by
  cases u <;> decide
theorem jplain_binOp (b : BinKind) :
    Gen.spanOf (binOp b) = some 1 ∧ isJump (binOp b) = false ∧ binOp b ≠ op.closure := by
  cases b <;> decide

macro_rules | `(tactic| j_prim) => `(tactic| with_reducible exact instr0_j (by decide) (by decide) (by decide))
macro_rules | `(tactic| j_prim) => `(tactic| with_reducible exact instr0_j (jplain_unOp _).1 (jplain_unOp _).2.1 (jplain_unOp _).2.2)
macro_rules | `(tactic| j_prim) => `(tactic| with_reducible exact instr0_j (jplain_binOp _).1 (jplain_binOp _).2.1 (jplain_binOp _).2.2)
macro_rules | `(tactic| j_prim) => `(tactic| with_reducible exact instrU32_j (by decide) (by decide) (by decide))
macro_rules | `(tactic| j_prim) => `(tactic| with_reducible exact instrJump_j (by decide) (by kfact))
macro_rules | `(tactic| j_prim) => `(tactic| with_reducible exact instr_j (by first | (rw [le64_length]; decide) | (rw [le32_length]; decide)) (by decide) (by decide))

/-- raw one-byte instructions (`scope_end`) -/
theorem raw_jr {K : Nat → Prop} : ∀ (bytes : List UInt8) (s : CState), (∀ t, K t → t ≤ s.bytecode.size) →
    (∀ b ∈ bytes, b = op.pop ∨ b = op.closeUpvalue) →
    JR K s { s with bytecode := s.bytecode ++ bytes.toArray }
  | [], s, _, _ => JR.of_eq (by simp) ⟨[], by simp⟩
  | b :: rest, s, hK, hb => by
    have hb1 : Gen.spanOf b = some 1 ∧ isJump b = false ∧ b ≠ op.closure := by
      rcases hb b (List.mem_cons_self ..) with h | h <;> subst h <;> decide
    have h1 : JR K s { s with bytecode := s.bytecode ++ [b].toArray } :=
      instr_jr (o := b) (bs := []) rfl ⟨[], by simp⟩ hb1.1 hb1.2.1 hb1.2.2
    have h2 := raw_jr (K := K) rest { s with bytecode := s.bytecode ++ [b].toArray }
      (fun t ht => Nat.le_trans (hK t ht) h1.size_le) (fun b' hb' => hb b' (List.mem_cons_of_mem _ hb'))
    have e : s.bytecode ++ [b].toArray ++ rest.toArray = s.bytecode ++ (b :: rest).toArray := by simp
    simp only [e] at h2
    exact h1.trans hK h2

theorem raw_j {k : Nat} {K : Nat → Prop} {bytes : List UInt8} (h : ∀ b ∈ bytes, b = op.pop ∨ b = op.closeUpvalue) :
    J k K (emitBytes bytes) := by
  constructor
  intro s a s' hr hk hK
  rw [emitBytes_run] at hr
  simp only [Except.ok.injEq, Prod.mk.injEq] at hr
  obtain ⟨_, rfl⟩ := hr
  exact raw_jr bytes s (fun t ht => Nat.le_trans (hK t ht) hk) h

theorem scopeEnd_j {k : Nat} {K : Nat → Prop} : J k K scopeEnd := by
  unfold scopeEnd
  refine j_bind (j_of_keep (keep_modify fun _ => rfl)) fun _ => j_bind j_get fun st => ?_
  dsimp only
  refine j_bind (j_of_keep (keep_modify fun _ => rfl)) fun _ => raw_j ?_
  intro b hb
  obtain ⟨l, _, rfl⟩ := List.mem_map.1 hb
  split
  · exact .inr rfl
  · exact .inl rfl
macro_rules | `(tactic| j_prim) => `(tactic| with_reducible exact scopeEnd_j)

/-- `pushInstr o; pushStr str` -/
theorem strInstr_j {k : Nat} {K : Nat → Prop} {o : UInt8} (hsp : Gen.spanOf o = some 5) (hj : isJump o = false)
    (hc : o ≠ op.closure) (str : String) : J k K (pushInstr o >>= fun _ => pushStr str) := by
  constructor
  intro s a s' hr _ _
  unfold pushStr at hr
  rw [pushInstr_bind_run, get_bind_run, emitU32_bind_run, modify_run] at hr
  simp only [Except.ok.injEq, Prod.mk.injEq] at hr
  obtain ⟨_, rfl⟩ := hr
  exact instr_jr (o := o) (bs := le32 (UInt32.ofNat s.data.size)) (by simp [afterInstr])
    ⟨[], by simp [afterInstr]⟩ (by rw [le32_length]; exact hsp) hj hc

/-- `pushInstr functionPointer; encodeJump name` -/
theorem fnpInstr_j {k : Nat} {K : Nat → Prop} (name : String) :
    J k K (pushInstr op.functionPointer >>= fun _ => encodeJump name) := by
  constructor
  intro s a s' hr _ _
  unfold encodeJump at hr
  rw [pushInstr_bind_run] at hr
  obtain ⟨r, s1, h1, h2⟩ := bind_ok.1 hr
  obtain ⟨rfl, _⟩ := (resolveFunction_ro name _).run r s1 h1
  obtain ⟨h, arity⟩ := r
  simp only at h2
  rw [emitBytes_bind_run, emitBytes_run] at h2
  simp only [Except.ok.injEq, Prod.mk.injEq] at h2
  obtain ⟨_, rfl⟩ := h2
  exact instr_jr (o := op.functionPointer) (bs := le32 h ++ le32 arity) (by simp [afterInstr])
    ⟨[], by simp [afterInstr]⟩ (by rw [List.length_append, le32_length, le32_length]; decide)
    (by decide) (by decide)

theorem setGlobalTail_j {k : Nat} {K : Nat → Prop} (name : String) : J k K (setGlobalTail name) := by
  constructor
  intro s a s' hr _ _
  unfold setGlobalTail at hr
  rw [pushInstr_bind_run] at hr
  split at hr
  · rw [fail_bind_run] at hr; cases hr
  · obtain ⟨id, s1, h1, h2⟩ := bind_ok.1 hr
    rw [emitU32_run] at h2
    simp only [Except.ok.injEq, Prod.mk.injEq] at h2
    obtain ⟨_, rfl⟩ := h2
    have hc := (globalId_keep name).run _ _ _ h1
    simp only [ucore, Prod.mk.injEq] at hc
    obtain ⟨c1, c2, c3, c4⟩ := hc
    exact instr_jr (o := op.setGlobalVar) (bs := le32 (UInt32.ofNat id)) (by simp [afterInstr, c1])
      ⟨[], by simp [afterInstr, c2]⟩ (by rw [le32_length]; decide) (by decide) (by decide)

macro_rules | `(tactic| j_prim) => `(tactic| with_reducible exact setGlobalTail_j _)
macro_rules | `(tactic| j_prim) => `(tactic| with_reducible exact strInstr_j (by decide) (by decide) (by decide) _)
macro_rules | `(tactic| j_prim) => `(tactic| with_reducible exact fnpInstr_j _)
macro_rules | `(tactic| j_prim) => `(tactic| with_reducible apply j_unit_bind (strInstr_j (by decide) (by decide) (by decide) _))
macro_rules | `(tactic| j_prim) => `(tactic| with_reducible apply j_unit_bind (fnpInstr_j _))
macro_rules | `(tactic| j_prim) => `(tactic| with_reducible apply j_unit_bind (instrJump_j (by decide) (by kfact)))
macro_rules | `(tactic| j_prim) => `(tactic| with_reducible apply j_unit_bind (instrU32_j (by decide) (by decide) (by decide)))

theorem scalarIntCode_j {k : Nat} {K : Nat → Prop} (i : Int64) : J k K (scalarIntCode i) := by
  unfold scalarIntCode; jj
macro_rules | `(tactic| j_prim) => `(tactic| with_reducible exact scalarIntCode_j _)
theorem processScalarInt_j {k : Nat} {K : Nat → Prop} (i : Int64) : J k K (processScalarInt i) := by
  unfold processScalarInt; jj
macro_rules | `(tactic| j_prim) => `(tactic| with_reducible exact processScalarInt_j _)
theorem readProps_j {k : Nat} {K : Nat → Prop} : ∀ ps, J k K (readProps ps)
  | [] => by unfold readProps; jj
  | p :: ps => by
    have ih := readProps_j (k := k) (K := K) ps
    unfold readProps; jj
macro_rules | `(tactic| j_prim) => `(tactic| with_reducible exact readProps_j _)
theorem bindLoopVar_j {k : Nat} {K : Nat → Prop} (n : Option String) (src : Nat) : J k K (bindLoopVar n src) := by
  unfold bindLoopVar; jj
macro_rules | `(tactic| j_prim) => `(tactic| with_reducible exact bindLoopVar_j _ _)

theorem readVarCard_j {k : Nat} {K : Nat → Prop} (x : String) : J k K (readVarCard x) := by
  unfold readVarCard; jj
macro_rules | `(tactic| j_prim) => `(tactic| with_reducible exact readVarCard_j _)

theorem setVarTarget_j {k : Nat} {K : Nat → Prop} (n : String) : J k K (setVarTarget n) := by
  unfold setVarTarget; jj
macro_rules | `(tactic| j_prim) => `(tactic| with_reducible exact setVarTarget_j _)

/-! ## back-patching -/

theorem patchI32_rd {at_ v : Nat} {s s' : CState} {u : Unit} (h : patchI32 at_ v s = .ok (u, s'))
    (hle : at_ + 4 ≤ s.bytecode.size) : rdU32 s'.bytecode at_ = v % 2 ^ 32 := by
  unfold patchI32 at h
  simp only [modify_run, Except.ok.injEq, Prod.mk.injEq] at h
  have hb : s'.bytecode = (List.range 4).foldl (fun a i => a.set! (at_ + i)
      ((le32 (UInt32.ofNat v)).getD i 0)) s.bytecode := by rw [← h.2]
  have g : ∀ j, j < 4 → s'.bytecode.getD (at_ + j) 0 = (le32 (UInt32.ofNat v)).getD j 0 := by
    intro j hj
    rw [hb, patch_getD at_ _ _ hle (at_ + j), if_pos (by omega), Nat.add_sub_cancel_left]
  have g0 := g 0 (by omega)
  rw [Nat.add_zero] at g0
  have e := u32L_ofNat v
  simp only [u32L, Nat.zero_add] at e
  rw [rdU32_eq, g0, g 1 (by omega), g 2 (by omega), g 3 (by omega)]
  exact e

theorem afterJump_size (s : CState) (o : UInt8) (x : Nat) :
    (afterJump s o x).bytecode.size = s.bytecode.size + 5 := by
  rw [afterJump_bytecode]; simp [le32_length]

theorem afterJump_labels (s : CState) (o : UInt8) (x : Nat) : (afterJump s o x).labels = s.labels := rfl

theorem afterJump_pref (s : CState) (o : UInt8) (x : Nat) (i : Nat) (hi : i < s.bytecode.size) :
    (afterJump s o x).bytecode.getD i 0 = s.bytecode.getD i 0 := by
  rw [afterJump_bytecode]; exact getD_append_left hi

theorem afterJump_op (s : CState) (o : UInt8) (x : Nat) :
    (afterJump s o x).bytecode.getD s.bytecode.size 0 = o := by
  rw [afterJump_bytecode]; exact getD_append_op _ _ _

/-- a jump with a placeholder operand, a block, and the back-patch of the operand with the end of the block -/
theorem hole_block_patch {K : Nat → Prop} {s s3 s4 : CState} {o : UInt8} {x : Nat} {u : Unit}
    (hK : ∀ t, K t → t ≤ s.bytecode.size) (ho : isJump o = true) (r3 : JR K (afterJump s o x) s3)
    (hp : patchI32 (s.bytecode.size + 1) s3.bytecode.size s3 = .ok (u, s4)) : JR K s s4 := by
  have z1 := afterJump_size s o x
  have z3 := r3.size_le
  obtain ⟨p1, p2, p3, _, _⟩ := patchI32_spec hp (by omega)
  have prd := patchI32_rd hp (by omega)
  obtain ⟨Bs, g⟩ := r3.seg
  obtain ⟨l, hl⟩ := r3.labels
  rw [z1] at g
  refine ⟨by omega, fun i hi => ?_, ⟨l, by rw [p3, hl, afterJump_labels]⟩, Bs, ?_⟩
  · rw [p2 i (by omega), r3.pref i (by omega), afterJump_pref _ _ _ _ hi]
  · rw [p1]
    refine JSeg.jump_cons (t := s3.bytecode.size) ?_ prd
      (g.mono (fun i h1 h2 => p2 i (by omega)) (fun l hl => by rw [p3]; exact hl) (fun _ h => h))
      (.inr (Nat.le_refl _)) ?_ (.inr ⟨by omega, Nat.le_refl _⟩) ?_
    · rw [p2 _ (by omega), r3.pref _ (by omega), afterJump_op]; exact ho
    · rintro t (h | h)
      · exact .inl (hK t h)
      · exact .inr h.1
    · rintro t (h | h)
      · exact .inl h
      · exact .inr ⟨by omega, h.2⟩

theorem encodeIfThen_j {k : Nat} {K : Nat → Prop} {skip : UInt8} (hs : isJump skip = true) {m : CM Unit}
    (hm : J k K m) : J k K (encodeIfThen skip m) := by
  constructor
  intro s a s' hr hk hK
  unfold encodeIfThen at hr
  rw [pushInstr_bind_run, get_bind_run, emitU32_bind_run] at hr
  obtain ⟨_, s3, h1, h2⟩ := bind_ok.1 hr
  rw [get_bind_run] at h2
  change m (afterJump s skip 0) = _ at h1
  have r3 := hm.run _ _ _ h1 (by rw [afterJump_size]; omega) hK
  have e1 : (afterInstr s skip []).bytecode.size = s.bytecode.size + 1 := by simp [afterInstr]
  rw [e1] at h2
  exact hole_block_patch (fun t ht => Nat.le_trans (hK t ht) hk) hs r3 h2

macro_rules | `(tactic| j_prim) => `(tactic| with_reducible apply encodeIfThen_j (by decide))

/-! ## the combinators of `processCard` -/

theorem eachInstr_bind_j {β : Type} {k : Nat} {K : Nat → Prop} {o : UInt8} {a b c d e : Nat}
    (hsp : Gen.spanOf o = some 21) (hj : isJump o = false) (hc : o ≠ op.closure) {g : Unit → CM β}
    (hg : J k K (g ())) :
    J k K (pushInstr o >>= fun _ => emitU32 a >>= fun _ => emitU32 b >>= fun _ => emitU32 c >>= fun _ =>
      emitU32 d >>= fun _ => emitU32 e >>= g) := by
  have e1 : (pushInstr o >>= fun _ => emitU32 a >>= fun _ => emitU32 b >>= fun _ => emitU32 c >>= fun _ =>
      emitU32 d >>= fun _ => emitU32 e >>= g) =
      (pushInstr o >>= fun _ => emitBytes (le32 (UInt32.ofNat a) ++ (le32 (UInt32.ofNat b) ++
        (le32 (UInt32.ofNat c) ++ (le32 (UInt32.ofNat d) ++ le32 (UInt32.ofNat e))))) >>= g) := by
    simp only [emitU32, emitBytes_append_bind]
  rw [e1]
  exact j_unit_bind (instr_j (by simp only [List.length_append, le32_length]; exact hsp) hj hc) hg

theorem forEachCode_j {k : Nat} {K : Nat → Prop} {i kk v : Option String} {it body : CM Unit} (h1 : JB it)
    (h2 : JB body) : J k K (forEachCode i kk v it body) := by
  unfold forEachCode
  refine j_bind (withSub_j (h1 _ _)) fun _ => ?_
  refine j_bind (j_of_keep scopeBegin_keep) fun _ => ?_
  refine j_bind (j_of_keep (addLocalUnchecked_keep _)) fun loopVar => ?_
  refine j_bind (j_of_keep (addLocalUnchecked_keep _)) fun loopItem => ?_
  refine j_bind (j_of_keep (addLocalUnchecked_keep _)) fun vIndex => ?_
  refine j_bind (j_of_keep (addLocalUnchecked_keep _)) fun kIndex => ?_
  refine j_bind (j_of_keep (addLocalUnchecked_keep _)) fun iIndex => ?_
  refine eachInstr_bind_j (by decide) (by decide) (by decide) ?_
  apply j_get_bind; intro st _; dsimp only
  refine eachInstr_bind_j (by decide) (by decide) (by decide) ?_
  jj

theorem whileCode_j {k : Nat} {K : Nat → Prop} {c b : CM Unit} (h1 : JB c) (h2 : JB b) :
    J k K (whileCode c b) := by
  unfold whileCode; jj

theorem repeatCode_j {k : Nat} {K : Nat → Prop} {i : Option String} {n b : CM Unit} (h1 : JB n) (h2 : JB b) :
    J k K (repeatCode i n b) := by
  unfold repeatCode; jj

theorem setVarCode_j {k : Nat} {K : Nat → Prop} {n : String} {v : CM Unit} (h : JB v) : J k K (setVarCode n v) := by
  unfold setVarCode; jj

theorem setGlobalVarCode_j {k : Nat} {K : Nat → Prop} {n : String} {v : CM Unit} (h : JB v) :
    J k K (setGlobalVarCode n v) := by
  rw [setGlobalVarCode_eq]; jj

theorem ifCode_j {k : Nat} {K : Nat → Prop} {skip : UInt8} (hs : isJump skip = true) {c b : CM Unit} (h1 : JB c)
    (h2 : JB b) : J k K (ifCode skip c b) := by
  unfold ifCode
  exact j_bind (withSub_j (h1 _ _)) fun _ => j_bind (j_of_keep (pushSub_keep _)) fun _ =>
    j_bind (encodeIfThen_j hs (h2 _ _)) fun _ => j_of_keep popSub_keep

theorem callCode_j {k : Nat} {K : Nat → Prop} {n : String} {a : CM Unit} (h : JB a) : J k K (callCode n a) := by
  unfold callCode; jj

theorem callNativeCode_j {k : Nat} {K : Nat → Prop} {n : String} {a : CM Unit} (h : JB a) :
    J k K (callNativeCode n a) := by
  unfold callNativeCode; jj

theorem arrayCode_j {k : Nat} {K : Nat → Prop} {items : Nat → CM Unit} (h : ∀ tv, JB (items tv)) :
    J k K (arrayCode items) := by
  unfold arrayCode
  exact j_bind (instr0_j (by decide) (by decide) (by decide)) fun _ =>
    j_bind (j_of_keep (addLocalUnchecked_keep _)) fun tv =>
    j_bind (writeLocalVar_j tv) fun _ => j_bind (h tv _ _) fun _ => readLocalVar_j tv

theorem unCode_j {k : Nat} {K : Nat → Prop} {u : UnKind} {c : CM Unit} (h : JB c) : J k K (unCode u c) := by
  unfold unCode; jj

theorem dynamicCallCode_j {k : Nat} {K : Nat → Prop} {a f : CM Unit} (h1 : JB a) (h2 : JB f) :
    J k K (dynamicCallCode a f) := by
  unfold dynamicCallCode; jj

/-! ## `IfElse`: two back-patched jumps -/

theorem ifElseCode_j {k : Nat} {K : Nat → Prop} {c t e : CM Unit} (hc : JB c) (ht : JB t) (he : JB e) :
    J k K (ifElseCode c t e) := by
  constructor
  intro s a s' hr hk hK
  have hKs : ∀ u, K u → u ≤ s.bytecode.size := fun u h => Nat.le_trans (hK u h) hk
  unfold ifElseCode encodeIfThenRet at hr
  obtain ⟨_, s1, r1, h2⟩ := (withSub_j (hc k K)).step hk hK hr
  have k1 : k ≤ s1.bytecode.size := Nat.le_trans hk r1.size_le
  obtain ⟨_, s1', r1', h2⟩ := (j_of_keep (pushSub_keep 1) : J k K _).step k1 hK h2
  have k1' : k ≤ s1'.bytecode.size := Nat.le_trans k1 r1'.size_le
  have hK1 : ∀ u, K u → u ≤ s1'.bytecode.size := fun u h => Nat.le_trans (hK u h) k1'
  obtain ⟨idx, s5, h3, h4⟩ := bind_ok.1 h2
  rw [pushInstr_bind_run, get_bind_run, emitU32_bind_run] at h3
  obtain ⟨r, s4, h5, h6⟩ := bind_ok.1 h3
  obtain ⟨_, s3, h7, h8⟩ := bind_ok.1 h5
  rw [pushInstr_bind_run, get_bind_run, emitU32_bind_run, pure_run] at h8
  rw [get_bind_run] at h6
  obtain ⟨_, s5a, h9, h10⟩ := bind_ok.1 h6
  obtain ⟨_, s5', h11, h12⟩ := bind_ok.1 h4
  obtain ⟨_, s6, h13, h14⟩ := bind_ok.1 h12
  rw [get_bind_run] at h14
  -- the conditional jump and the `then` branch
  change t (afterJump s1' op.gotoIfFalse 0) = _ at h7
  have z2 := afterJump_size s1' op.gotoIfFalse 0
  have r3 := (ht k K).run _ _ _ h7 (by omega) hK
  have z3 := r3.size_le
  -- the jump over the `else` branch
  simp only [Except.ok.injEq, Prod.mk.injEq] at h8
  obtain ⟨hr_, hs4⟩ := h8
  subst hr_
  have hs4' : afterJump s3 op.goto 0xEEF = s4 := hs4
  have z4 : s4.bytecode.size = s3.bytecode.size + 5 := by rw [← hs4']; exact afterJump_size _ _ _
  have o4 : s4.bytecode.getD s3.bytecode.size 0 = op.goto := by rw [← hs4']; exact afterJump_op _ _ _
  have pr4 : ∀ i, i < s3.bytecode.size → s4.bytecode.getD i 0 = s3.bytecode.getD i 0 := by
    intro i hi; rw [← hs4']; exact afterJump_pref _ _ _ _ hi
  have l4 : s4.labels = s3.labels := by rw [← hs4']; rfl
  clear hs4 hs4'
  -- first patch
  rw [afterInstr_size] at h9
  obtain ⟨p1, p2, p3, _, _⟩ := patchI32_spec h9 (by omega)
  have prd1 := patchI32_rd h9 (by omega)
  simp only [pure_run, Except.ok.injEq, Prod.mk.injEq] at h10
  obtain ⟨rfl, rfl⟩ := h10
  -- `else` branch
  have k5 := (popSub_keep).run _ _ _ h11
  simp only [ucore, Prod.mk.injEq] at k5
  obtain ⟨k51, k52, _, _⟩ := k5
  have hs5 : s5'.bytecode.size = s3.bytecode.size + 5 := by rw [k51, p1, z4]
  have r6 := (withSub_j (he k K)).run _ _ _ h13 (by omega) hK
  have z6 := r6.size_le
  -- second patch
  rw [afterInstr_size] at h14
  obtain ⟨q1, q2, q3, _, _⟩ := patchI32_spec h14 (by omega)
  have prd2 := patchI32_rd h14 (by omega)
  -- bytes of the final state
  have mid : ∀ i, i < s3.bytecode.size + 5 → ¬ (s3.bytecode.size + 1 ≤ i ∧ i < s3.bytecode.size + 1 + 4) →
      s'.bytecode.getD i 0 = s5a.bytecode.getD i 0 := by
    intro i hi hn
    rw [q2 i hn, r6.pref i (by omega), k51]
  have low : ∀ i, i < s3.bytecode.size → ¬ (s1'.bytecode.size + 1 ≤ i ∧ i < s1'.bytecode.size + 1 + 4) →
      s'.bytecode.getD i 0 = s3.bytecode.getD i 0 := by
    intro i hi hn
    rw [mid i (by omega) (by omega), p2 i hn, pr4 i hi]
  have hop1 : s'.bytecode.getD s1'.bytecode.size 0 = op.gotoIfFalse := by
    rw [low _ (by omega) (by omega), r3.pref _ (by omega), afterJump_op]
  have hrd1 : rdU32 s'.bytecode (s1'.bytecode.size + 1) = (s3.bytecode.size + 5) % 2 ^ 32 := by
    rw [rdU32_congr (bc := s5a.bytecode) fun i h1 h2 => mid i (by omega) (by omega), prd1, z4]
  have hop2 : s'.bytecode.getD s3.bytecode.size 0 = op.goto := by
    rw [mid _ (by omega) (by omega), p2 _ (by omega), o4]
  obtain ⟨l3, e3⟩ := r3.labels
  obtain ⟨l6, e6⟩ := r6.labels
  rw [afterJump_labels] at e3
  have e5 : s5'.labels = s3.labels := by rw [k52, p3, l4]
  have e' : s'.labels = s1'.labels ++ (l3 ++ l6) := by rw [q3, e6, e5, e3, List.append_assoc]
  have sub3 : ∀ l ∈ s3.labels, l ∈ s'.labels := by
    intro l hl; rw [q3, e6, e5]; exact List.mem_append_left _ hl
  obtain ⟨Bt, gt⟩ := r3.seg
  obtain ⟨Be, ge⟩ := r6.seg
  rw [z2] at gt
  rw [hs5] at ge
  have gt' := gt.mono (bc' := s'.bytecode) (L' := s'.labels) (fun i h1 h2 => low i h2 (by omega)) sub3 (fun _ h => h)
  have ge' := ge.mono (bc' := s'.bytecode) (L' := s'.labels) (fun i h1 h2 => q2 i (by omega)) (fun l hl => by rw [q3]; exact hl)
    (fun _ h => h)
  -- assemble
  have A : JSeg s'.bytecode s'.labels (fun u => u = s3.bytecode.size + 5 ∨
      Win K (s1'.bytecode.size + 5) s3.bytecode.size u) s1'.bytecode.size s3.bytecode.size Bt := by
    refine JSeg.jump_cons (t := s3.bytecode.size + 5) (by rw [hop1]; decide) hrd1 gt' (.inr (by omega)) ?_
      (.inl rfl) (fun u h => .inr h)
    rintro u (h | h)
    · exact .inl (hK1 u h)
    · exact .inr h.1
  have Bj : JSeg s'.bytecode s'.labels (fun u => u = s6.bytecode.size) s3.bytecode.size (s3.bytecode.size + 5) [] :=
    JSeg.jump (t := s6.bytecode.size) (by rw [hop2]; decide) prd2 rfl
  have B := A.append (T := fun u => (u = s3.bytecode.size + 5 ∨
      Win K (s1'.bytecode.size + 5) s3.bytecode.size u) ∨ u = s6.bytecode.size) Bj (by
        rintro u (h | h | h)
        · omega
        · have := hK1 u h; omega
        · omega) (by intro u h; omega) (fun u h => .inl h) (fun u h => .inr h)
  have C := B.append (T := Win K s1'.bytecode.size s6.bytecode.size) ge' (by
      rintro u ((h | h | h) | h)
      · omega
      · have := hK1 u h; omega
      · omega
      · omega) (by
      rintro u (h | h)
      · exact .inl (hK1 u h)
      · exact .inr h.1) (by
      rintro u ((h | h | h) | h)
      · exact .inr (by omega)
      · exact .inl h
      · exact .inr (by omega)
      · exact .inr (by omega)) (by
      rintro u (h | h)
      · exact .inl h
      · exact .inr (by omega))
  have rB : JR K s1' s' := by
    refine ⟨by omega, fun i hi => ?_, ⟨_, e'⟩, _, by rw [q1]; exact C⟩
    rw [low i (by omega) (by omega), r3.pref i (by omega), afterJump_pref _ _ _ _ hi]
  exact r1.trans hKs (r1'.trans (fun u h => Nat.le_trans (hK u h) k1) rB)

theorem binCode_j {k : Nat} {K : Nat → Prop} {bk : BinKind} {a b : CM Unit} (h1 : JB a) (h2 : JB b) :
    J k K (binCode bk a b) := by
  unfold binCode
  split
  · exact whileCode_j h1 h2
  · exact ifCode_j (by decide) h1 h2
  · exact ifCode_j (by decide) h1 h2
  · jj

theorem triCode_j {k : Nat} {K : Nat → Prop} {tk : TriKind} {a b c : CM Unit} (h1 : JB a) (h2 : JB b) (h3 : JB c) :
    J k K (triCode tk a b c) := by
  unfold triCode
  split
  · exact ifElseCode_j h1 h2 h3
  · jj

/-! ## closures -/

theorem closureCode_j {k : Nat} {K : Nat → Prop} {args : List String} {body : CM Unit} (hb : JB body) :
    J k K (closureCode args body) := by
  constructor
  intro s u s' hr hk hK
  unfold closureCode at hr
  rw [pushInstr_bind_run, get_bind_run, emitU32_bind_run] at hr
  -- the jump over the body
  have z1 := afterJump_size s op.goto 0xEEF
  have o1 := afterJump_op s op.goto 0xEEF
  have pr1 := afterJump_pref s op.goto 0xEEF
  have l1 := afterJump_labels s op.goto 0xEEF
  generalize hs1 : afterJump s op.goto 0xEEF = s1 at z1 o1 pr1 l1
  change (compileBegin >>= _) (afterJump s op.goto 0xEEF) = _ at hr
  rw [hs1] at hr
  -- a new context
  obtain ⟨_, s2, h2, hr⟩ := bind_ok.1 hr
  unfold compileBegin at h2
  simp only [modify_run, Except.ok.injEq, Prod.mk.injEq, true_and] at h2
  have e2b : s2.bytecode = s1.bytecode := by rw [← h2]
  have e2l : s2.labels = s1.labels := by rw [← h2]
  rw [get_bind_run] at hr
  dsimp only at hr
  obtain ⟨_, s3, h3, hr⟩ := bind_ok.1 hr
  have e3 := insertLabel_ok h3
  generalize hfh : s2.fnHandle ^^^ Hash.handleFromBytes (s2.curIndices.flatMap fun i => le32 (UInt32.ofNat i)) ^^^
    Hash.handleFromU64 closureMask = fh at hr e3 h3
  have e3b : s3.bytecode = s2.bytecode := by rw [e3]
  have e3l : s3.labels = s2.labels ++ [(fh, s2.bytecode.size)] := by rw [e3]
  have z3 : s3.bytecode.size = s.bytecode.size + 5 := by rw [e3b, e2b, z1]
  -- the body: no jump out of it
  have hF : ∀ t, (fun _ : Nat => False) t → t ≤ 0 := fun _ h => h.elim
  have hF' : ∀ (n : Nat) t, (fun _ : Nat => False) t → t ≤ n := fun _ _ h => h.elim
  obtain ⟨_, s4, r4, hr⟩ := (j_of_keep scopeBegin_keep : J 0 (fun _ => False) _).step (Nat.zero_le _) hF hr
  obtain ⟨_, s5, r5, hr⟩ := (j_of_keep (addLocals_keep _) : J 0 (fun _ => False) _).step (Nat.zero_le _) hF hr
  obtain ⟨_, s6, r6, hr⟩ := (hb 0 (fun _ => False)).step (Nat.zero_le _) hF hr
  obtain ⟨_, s7, r7, hr⟩ := (scopeEnd_j : J 0 (fun _ => False) _).step (Nat.zero_le _) hF hr
  have r37 : JR (fun _ => False) s3 s7 :=
    ((r4.trans (hF' _) r5).trans (hF' _) r6).trans (hF' _) r7
  clear r4 r5 r6 r7
  have z37 := r37.size_le
  -- `ScalarNil; Return`
  rw [pushInstr_bind_run, pushInstr_bind_run] at hr
  have e8b : (afterInstr s7 op.scalarNil []).bytecode = s7.bytecode ++ (op.scalarNil :: []).toArray := rfl
  have z8 : (afterInstr s7 op.scalarNil []).bytecode.size = s7.bytecode.size + 1 := afterInstr_size _ _
  have e9b : (afterInstr (afterInstr s7 op.scalarNil []) op.ret []).bytecode =
      (afterInstr s7 op.scalarNil []).bytecode ++ (op.ret :: []).toArray := rfl
  have e9l : (afterInstr (afterInstr s7 op.scalarNil []) op.ret []).labels = s7.labels := rfl
  have z9 : (afterInstr (afterInstr s7 op.scalarNil []) op.ret []).bytecode.size = s7.bytecode.size + 2 := by
    rw [afterInstr_size, afterInstr_size]
  have n9 : (afterInstr (afterInstr s7 op.scalarNil []) op.ret []).bytecode.getD s7.bytecode.size 0 = op.scalarNil := by
    rw [e9b, getD_append_left (by omega), e8b]; exact getD_append_op _ _ _
  have t9 : (afterInstr (afterInstr s7 op.scalarNil []) op.ret []).bytecode.getD (s7.bytecode.size + 1) 0 = op.ret := by
    rw [e9b, ← z8]; exact getD_append_op _ _ _
  have pr9 : ∀ i, i < s7.bytecode.size →
      (afterInstr (afterInstr s7 op.scalarNil []) op.ret []).bytecode.getD i 0 = s7.bytecode.getD i 0 := by
    intro i hi
    rw [e9b, getD_append_left (by omega), e8b, getD_append_left hi]
  generalize hs9 : afterInstr (afterInstr s7 op.scalarNil []) op.ret [] = s9 at hr e9l z9 n9 t9 pr9
  clear e8b e9b z8
  -- patch the jump
  rw [get_bind_run] at hr
  obtain ⟨_, s10, h10, hr⟩ := bind_ok.1 hr
  rw [afterInstr_size] at h10
  obtain ⟨p1, p2, p3, _, _⟩ := patchI32_spec h10 (by omega)
  have prd := patchI32_rd h10 (by omega)
  -- the `Closure` instruction and the registrations
  rw [closInstr_bind_run, get_bind_run] at hr
  generalize hs11 : afterInstr s10 op.closure (le32 fh ++ le32 (UInt32.ofNat args.length)) = s11 at hr
  have e11b : s11.bytecode = s10.bytecode ++ (op.closure :: (le32 fh ++ le32 (UInt32.ofNat args.length))).toArray := by
    rw [← hs11]; rfl
  have e11l : s11.labels = s10.labels := by rw [← hs11]; rfl
  obtain ⟨_, s12, h12, hr⟩ := bind_ok.1 hr
  obtain ⟨e12b, e12l, _, _⟩ := emitUpvalues_spec _ _ _ h12
  unfold compileEnd at hr
  simp only [modify_run, Except.ok.injEq, Prod.mk.injEq, true_and] at hr
  have eb : s'.bytecode = s12.bytecode := by rw [← hr]
  have el : s'.labels = s12.labels := by rw [← hr]
  clear hr h12 hs11 h10 h3 e3 h2
  generalize hups : s11.upvalues.getD s11.functionId [] = ups at e12b
  have hl7 : s'.labels = s7.labels := by rw [el, e12l, e11l, p3, e9l]
  -- bytes of the final state
  have hc : s10.bytecode.size = s7.bytecode.size + 2 := by rw [p1, z9]
  have hsz11 : s11.bytecode.size = s7.bytecode.size + 2 + 9 := by
    rw [e11b]; simp [le32_length, hc]
  have hsz : s'.bytecode.size = s7.bytecode.size + 2 + 9 + 4 * ups.length := by
    rw [eb, e12b]; simp [upvalueBytes_length, hsz11]
  have b11 : ∀ i, i < s7.bytecode.size + 2 + 9 → s'.bytecode.getD i 0 = s11.bytecode.getD i 0 := by
    intro i hi; rw [eb, e12b]; exact getD_append_left (by omega)
  have b10 : ∀ i, i < s7.bytecode.size + 2 → s'.bytecode.getD i 0 = s10.bytecode.getD i 0 := by
    intro i hi; rw [b11 i (by omega), e11b]; exact getD_append_left (by omega)
  have b9 : ∀ i, i < s7.bytecode.size + 2 → ¬ (s.bytecode.size + 1 ≤ i ∧ i < s.bytecode.size + 1 + 4) →
      s'.bytecode.getD i 0 = s9.bytecode.getD i 0 := by
    intro i hi hn; rw [b10 i hi, p2 i hn]
  have b7 : ∀ i, i < s7.bytecode.size → ¬ (s.bytecode.size + 1 ≤ i ∧ i < s.bytecode.size + 1 + 4) →
      s'.bytecode.getD i 0 = s7.bytecode.getD i 0 := by
    intro i hi hn; rw [b9 i (by omega) hn, pr9 i hi]
  have b1 : ∀ i, i < s3.bytecode.size → ¬ (s.bytecode.size + 1 ≤ i ∧ i < s.bytecode.size + 1 + 4) →
      s'.bytecode.getD i 0 = s1.bytecode.getD i 0 := by
    intro i hi hn; rw [b7 i (by omega) hn, r37.pref i hi, e3b, e2b]
  have hgoto : s'.bytecode.getD s.bytecode.size 0 = op.goto := by
    rw [b1 _ (by omega) (by omega), o1]
  have htgt : rdU32 s'.bytecode (s.bytecode.size + 1) = (s7.bytecode.size + 2) % 2 ^ 32 := by
    rw [rdU32_congr (bc := s10.bytecode) fun i h1 h2 => b10 i (by omega), prd, z9]
  have hnil : s'.bytecode.getD s7.bytecode.size 0 = op.scalarNil := by
    rw [b9 _ (by omega) (by omega), n9]
  have hret : s'.bytecode.getD (s7.bytecode.size + 1) 0 = op.ret := by
    rw [b9 _ (by omega) (by omega), t9]
  have hclos : s'.bytecode.getD (s7.bytecode.size + 2) 0 = op.closure := by
    rw [b11 _ (by omega), e11b, ← hc]; exact getD_append_op _ _ _
  have hrd : UInt32.ofNat (rdU32 s'.bytecode (s7.bytecode.size + 2 + 1)) = fh := by
    rw [rdU32_congr (bc := s11.bytecode) fun i _ _ => b11 i (by omega)]
    have := rdU32_opBytes s11.bytecode s10.bytecode.size
      (le32 fh ++ le32 (UInt32.ofNat args.length)).length 0 (by simp [le32_length])
    rw [Nat.add_zero, hc] at this
    rw [this, ← hc, e11b, opBytes_append, u32L_append_left _ _ _ (by rw [le32_length]; omega), u32L_le32,
      UInt32.ofNat_toNat]
  have hlab : (fh, s.bytecode.size + 5) ∈ s'.labels := by
    rw [hl7]
    apply r37.labels_sub
    rw [e3l, e2b, z1]; simp
  have hpairs : Pairs s'.bytecode 256 ups.length (s7.bytecode.size + 2 + 9) := by
    refine pairs_of_ups _ _ ups _ (fun i hi => ?_) (fun j _ => ?_)
    · rw [eb, e12b, getD_append_right (by omega), getD_toArray]
      congr 1; omega
    · have := j.toNat_lt; omega
  obtain ⟨Bs, g⟩ := r37.seg
  rw [z3] at g
  have g' := g.mono (bc' := s'.bytecode) (L' := s'.labels) (fun i h1 h2 => b7 i h2 (by omega))
    (fun l hl => by rw [hl7]; exact hl) (fun _ h => h)
  have G := JSeg.closure (T := Win K s.bytecode.size s'.bytecode.size) hgoto htgt g' (by
      rintro t (h | h)
      · exact h.elim
      · exact h) hnil hret hclos (by rw [hrd]; exact hlab) hpairs.tiled (fun x hx hlt => by
      rcases hpairs.starts hx hlt with h | ⟨h, _⟩
      · rw [h]; exact ⟨by decide, by decide⟩
      · rw [h]; exact ⟨by decide, by decide⟩) (.inr ⟨by omega, by omega⟩) (by
      rintro t (h | h)
      · exact h.elim
      · exact .inr ⟨by omega, by omega⟩)
  obtain ⟨l37, e37⟩ := r37.labels
  refine ⟨by omega, fun i hi => ?_, ⟨(fh, s2.bytecode.size) :: l37, ?_⟩, _, by rw [hsz] at G ⊢; exact G⟩
  · rw [b1 i (by omega) (by omega), pr1 i hi]
  · rw [hl7, e37, e3l, e2l, l1]; simp

/-! ## the mutual induction -/

macro_rules | `(tactic| j_prim) => `(tactic| with_reducible apply forEachCode_j)
macro_rules | `(tactic| j_prim) => `(tactic| with_reducible apply repeatCode_j)
macro_rules | `(tactic| j_prim) => `(tactic| with_reducible apply setVarCode_j)
macro_rules | `(tactic| j_prim) => `(tactic| with_reducible apply setGlobalVarCode_j)
macro_rules | `(tactic| j_prim) => `(tactic| with_reducible apply callCode_j)
macro_rules | `(tactic| j_prim) => `(tactic| with_reducible apply callNativeCode_j)
macro_rules | `(tactic| j_prim) => `(tactic| with_reducible apply closureCode_j)
macro_rules | `(tactic| j_prim) => `(tactic| with_reducible apply unCode_j)
macro_rules | `(tactic| j_prim) => `(tactic| with_reducible apply binCode_j)
macro_rules | `(tactic| j_prim) => `(tactic| with_reducible apply triCode_j)
macro_rules | `(tactic| j_prim) => `(tactic| with_reducible apply dynamicCallCode_j)
macro_rules | `(tactic| j_prim) => `(tactic| with_reducible apply arrayCode_j)

theorem processCard_j_all :
    (∀ c, JB (processCard c)) ∧
    (∀ tv i cs, JB (processArrayItems tv i cs)) ∧
    (∀ i cs, JB (compileSubexprFrom i cs)) := by
  apply processCard.mutual_induct
    (motive_1 := fun c => JB (processCard c))
    (motive_2 := fun tv i cs => JB (processArrayItems tv i cs))
    (motive_3 := fun i cs => JB (compileSubexprFrom i cs))
  all_goals
    intros
    intro k K
    simp only [processCard, processArrayItems, compileSubexprFrom]
    jj

theorem processCard_j (c : Card) : JB (processCard c) := processCard_j_all.1 c
theorem compileSubexprFrom_j (i : Nat) (cs : List Card) : JB (compileSubexprFrom i cs) :=
  processCard_j_all.2.2 i cs

theorem processFunctionCards_j : ∀ i cs, JB (processFunctionCards i cs)
  | _, [] => by intro k K; unfold processFunctionCards; jj
  | i, c :: cs => by
    intro k K
    have ih := processFunctionCards_j (i + 1) cs
    have hc := processCard_j c
    unfold processFunctionCards; jj

theorem processFunction_j (f : FunctionIr) : JB (processFunction f) := by
  intro k K
  have h := processFunctionCards_j 0 f.cards
  unfold processFunction; jj

/-! ## whole compilation units -/

macro_rules | `(tactic| j_prim) => `(tactic| with_reducible exact insertLabel_j _ _)

/-- no known positions: the top level -/
abbrev NoK : Nat → Prop := fun _ => False

theorem noK_le (n : Nat) : ∀ t, NoK t → t ≤ n := fun _ h => h.elim

/-- a block together with function labels that lie outside of the bodies of its closure blocks -/
def JRL (s s' : CState) (hs : List UInt32) : Prop :=
  JR NoK s s' ∧ ∃ Bs, JSeg s'.bytecode s'.labels (Win NoK s.bytecode.size s'.bytecode.size)
    s.bytecode.size s'.bytecode.size Bs ∧
    ∀ h ∈ hs, ∃ q, (h, q) ∈ s'.labels ∧ s.bytecode.size ≤ q ∧ q ≤ s'.bytecode.size ∧ ∀ B ∈ Bs, ¬ InBody B q

theorem JR.toL {s s' : CState} (h : JR NoK s s') : JRL s s' [] := by
  obtain ⟨Bs, g⟩ := h.seg
  exact ⟨h, Bs, g, fun _ hh => (List.not_mem_nil hh).elim⟩

theorem JRL.trans {s s1 s2 : CState} {hs1 hs2 : List UInt32} (h1 : JRL s s1 hs1) (h2 : JRL s1 s2 hs2) :
    JRL s s2 (hs1 ++ hs2) := by
  obtain ⟨r1, Bs1, g1, f1⟩ := h1
  obtain ⟨r2, Bs2, g2, f2⟩ := h2
  have z1 := r1.size_le
  have z2 := r2.size_le
  have G := jseg_trans (noK_le _) z1 r2 g1 g2
  refine ⟨r1.trans (noK_le _) r2, Bs1 ++ Bs2, G, fun h hh => ?_⟩
  rcases List.mem_append.1 hh with hh | hh
  · obtain ⟨q, q1, q2, q3, q4⟩ := f1 h hh
    refine ⟨q, r2.labels_sub _ q1, q2, by omega, fun B hB => ?_⟩
    rcases List.mem_append.1 hB with hB | hB
    · exact q4 B hB
    · intro ⟨a1, a2⟩
      have := (g2.blk B hB).lo
      omega
  · obtain ⟨q, q1, q2, q3, q4⟩ := f2 h hh
    refine ⟨q, q1, by omega, q3, fun B hB => ?_⟩
    rcases List.mem_append.1 hB with hB | hB
    · intro ⟨a1, a2⟩
      have := (g1.blk B hB).hi
      omega
    · exact q4 B hB

theorem compileFunctionBody_j (f : FunctionIr) : JB (do
    scopeBegin
    processFunction f
    scopeEnd
    pushInstr op.scalarNil
    pushInstr op.ret) := by
  intro k K
  have h := processFunction_j f
  jj

/-- one non-main function: its label is the start of its code -/
theorem compileFunction_jspec {f : FunctionIr} {s s' : CState} (hr : compileFunction f s = .ok ((), s')) :
    JRL s s' [f.handle] := by
  unfold compileFunction at hr
  rw [modify_bind_run, get_bind_run] at hr
  obtain ⟨_, s2, h2, hr⟩ := bind_ok.1 hr
  have e2 := insertLabel_ok h2
  have r2 : JR NoK s s2 := JR.of_eq (by rw [e2]) ⟨[_], by rw [e2]⟩
  have r3 := (compileFunctionBody_j f 0 NoK).run _ _ _ hr (Nat.zero_le _) (noK_le _)
  have r := r2.trans (noK_le _) r3
  obtain ⟨Bs, g⟩ := r.seg
  refine ⟨r, Bs, g, fun h hh => ?_⟩
  rw [List.mem_singleton] at hh
  subst hh
  refine ⟨s.bytecode.size, r3.labels_sub _ (by rw [e2]; simp), Nat.le_refl _, r.size_le, g.outside (.inl (Nat.le_refl _))⟩

theorem compileFunctions_jspec : ∀ (fs : List FunctionIr) {s s' : CState},
    compileFunctions fs s = .ok ((), s') → JRL s s' (fs.map (·.handle))
  | [], s, s', hr => by
    unfold compileFunctions at hr
    simp only [pure_run, Except.ok.injEq, Prod.mk.injEq] at hr
    obtain ⟨_, rfl⟩ := hr
    exact (JR.refl _ _).toL
  | f :: fs, s, s', hr => by
    unfold compileFunctions at hr
    obtain ⟨_, s1, h1, h2⟩ := bind_ok.1 hr
    exact (compileFunction_jspec h1).trans (compileFunctions_jspec fs h2)

/-- **the whole bytecode of a compiled unit**: it is a segment from 0, its jumps respect the closure blocks,
and every function label lies outside of the bodies of all closure blocks -/
theorem compileUnit_jspec {unit : Array FunctionIr} {s' : CState}
    (hr : (compileUnit unit).run {} = .ok ((), s')) :
    ∃ Bs, JSeg s'.bytecode s'.labels (fun t => t ≤ s'.bytecode.size) 0 s'.bytecode.size Bs ∧
      ∀ f ∈ unit.toList.drop 1, ∃ q, (f.handle, q) ∈ s'.labels ∧ ∀ B ∈ Bs, ¬ InBody B q := by
  change compileUnit unit {} = _ at hr
  unfold compileUnit at hr
  split at hr
  · rw [fail_bind_run] at hr; cases hr
  · have hmain := processFunction_j unit[0]!
    have habort := processCard_j .abort
    have st : ∀ {α β : Type} {m : CM α} {f : α → CM β} {s s'' : CState} {b : β}, J 0 NoK m →
        (m >>= f) s = .ok (b, s'') → ∃ a s', JR NoK s s' ∧ f a s' = .ok (b, s'') :=
      fun hm hr => hm.step (Nat.zero_le _) (noK_le _) hr
    have stm : ∀ {β : Type} {g : CState → CState} {f : Unit → CM β} {s s'' : CState} {b : β},
        ((modify g : CM Unit) >>= f) s = .ok (b, s'') → (∀ x, ucore (g x) = ucore x) →
        ∃ a s', JR NoK s s' ∧ f a s' = .ok (b, s'') :=
      fun hr hg => st (j_of_keep (keep_modify hg)) hr
    obtain ⟨_, s1, r1, hr⟩ := st (j_of_keep (addFunctions_keep _)) hr
    dsimp only at hr
    obtain ⟨_, s2, r2, hr⟩ := stm hr (fun _ => rfl)
    obtain ⟨_, s3, r3, hr⟩ := st (j_of_keep scopeBegin_keep) hr
    obtain ⟨_, s4, r4, hr⟩ := st (hmain _ _) hr
    obtain ⟨_, s5, r5, hr⟩ := stm hr (fun _ => rfl)
    obtain ⟨_, s6, r6, hr⟩ := st scopeEnd_j hr
    obtain ⟨_, s7, r7, hr⟩ := st (habort _ _) hr
    obtain ⟨_, s8, h8, hr⟩ := bind_ok.1 hr
    have r8 := compileFunctions_jspec _ h8
    obtain ⟨_, s9, r9, hr⟩ := stm hr (fun _ => rfl)
    have r10 := (instr0_j (k := 0) (K := NoK) (o := op.exit) (by decide) (by decide) (by decide)).run _ _ _ hr
      (Nat.zero_le _) (noK_le _)
    have t := noK_le
    have rA : JR NoK ({} : CState) s7 :=
      (((((r1.trans (t _) r2).trans (t _) r3).trans (t _) r4).trans (t _) r5).trans (t _) r6).trans (t _) r7
    have rB : JR NoK s8 s' := r9.trans (t _) r10
    have R := (rA.toL.trans r8).trans rB.toL
    obtain ⟨_, Bs, g, fl⟩ := R
    have z0 : ({} : CState).bytecode.size = 0 := rfl
    rw [z0] at g
    refine ⟨Bs, g.weaken ?_, fun f hf => ?_⟩
    · rintro u (h | h)
      · exact h.elim
      · exact h.2
    · obtain ⟨q, q1, _, _, q4⟩ := fl f.handle (by
        simp only [List.nil_append, List.append_nil]
        exact List.mem_map.2 ⟨f, hf, rfl⟩)
      exact ⟨q, q1, q4⟩

end Cao.Compiler
