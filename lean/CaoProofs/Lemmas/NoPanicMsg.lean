import CaoProofs.Lemmas.NoPanicStep
/-!
# Which panics an instruction can raise, and when (C04, item 2)

`step_panics_only` (with the `Throws` logic of `Lemmas/VmFrame.lean`): the only panic messages an
instruction raises by itself; whatever the re-entry callback raises reaches `step` wrapped in
`TaskFailure`. `step_panic_conditions` (with the `Fr` logic): the condition under which each of
them is raised.
-/
namespace Cao.Vm
set_option linter.unusedSectionVars false
set_option linter.unusedVariables false

/-- the panic messages an instruction can raise by itself -/
def stepPanics : List String :=
  ["call stack is empty", "Call stack was empty", "closure not found for capture",
   "upvalue index out of bounds", "invalid opcode"]

/-- not a panic, or one of `stepPanics` -/
def StepPanic (e : ErrKind) : Prop := ∀ w, e = .panic w → w ∈ stepPanics

theorem stepPanic_of_calm {e : ErrKind} (h : Calm e) : StepPanic e := by
  intro w hw; subst hw; exact absurd rfl (h w)

theorem throws_of_quiet {α : Type} {m : M α} (h : Quiet m) : Throws StepPanic m :=
  ⟨fun s e he => stepPanic_of_calm ((h s.frames).err s e _ rfl (by rw [← he]))⟩

macro_rules | `(tactic| throws_prim) => `(tactic| exact throws_of_quiet (by fr_quiet_prim))
macro_rules | `(tactic| throws_side) => `(tactic| focus (intro w hw; first | (cases hw; done) | (cases hw; decide)))

theorem throws_curFrame' : Throws StepPanic curFrame := by unfold curFrame; throws_auto
theorem throws_callScript' (p : Prog) (src ip : Nat) (l : UInt32) (ar : Nat) (c : Option Nat) :
    Throws StepPanic (step.callScript p src ip l ar c) := by unfold step.callScript; throws_auto
theorem throws_callNative' (re : Reenter) (h : UInt32) : Throws StepPanic (callNative re h) := by
  unfold callNative; throws_auto
macro_rules | `(tactic| throws_prim) => `(tactic| with_reducible first
  | exact throws_curFrame' | exact throws_callScript' _ _ _ _ _ _ | exact throws_callNative' _ _)

set_option maxHeartbeats 1000000 in
theorem step_panics_only (p : Prog) (re : Reenter) (src : Nat) : Throws StepPanic (step p re src) := by
  unfold step; throws_auto

/-! ## the conditions -/

/-- what a panic of the instruction at `src`, executed on the call stack `fs`, tells -/
def PanicCond (p : Prog) (src : Nat) (fs : List Frame) (e : ErrKind) : Prop :=
  (e = .panic "call stack is empty" ∨ e = .panic "Call stack was empty" → fs = []) ∧
  (e = .panic "invalid opcode" → Gen.spanOf (p.bytecode.getD src 0) = none) ∧
  (e = .panic "closure not found for capture" ∨ e = .panic "upvalue index out of bounds" →
    p.bytecode.getD src 0 = Compiler.op.registerUpvalue ∧ p.bytecode.getD (src + 2) 0 = 0) ∧
  (∀ w, e = .panic w → w ∈ stepPanics)

theorem panicCond_of_not_panic {p : Prog} {src : Nat} {fs : List Frame} {e : ErrKind}
    (h : ∀ w, e ≠ .panic w) : PanicCond p src fs e :=
  ⟨fun h' => by rcases h' with h' | h' <;> exact absurd h' (h _), fun h' => absurd h' (h _),
   fun h' => by rcases h' with h' | h' <;> exact absurd h' (h _), fun w h' => absurd h' (h w)⟩

instance (p : Prog) (src : Nat) (fs : List Frame) : ErrClass (PanicCond p src fs) where
  calm {e} h := panicCond_of_not_panic (fun w hw => by subst hw; exact h w rfl)
  wrap _ := panicCond_of_not_panic (fun w hw => by cases hw)

theorem pc_empty1 {p : Prog} {src : Nat} {fs : List Frame} (h : fs = []) :
    PanicCond p src fs (.panic "call stack is empty") := by
  simp [PanicCond, stepPanics, h]
theorem pc_empty2 {p : Prog} {src : Nat} {fs : List Frame} (h : fs = []) :
    PanicCond p src fs (.panic "Call stack was empty") := by
  simp [PanicCond, stepPanics, h]
theorem pc_invalid {p : Prog} {src : Nat} {fs : List Frame} (h : Gen.spanOf (p.bytecode.getD src 0) = none) :
    PanicCond p src fs (.panic "invalid opcode") := by
  refine ⟨by simp, fun _ => h, by simp, by simp [stepPanics]⟩
theorem pc_capture {p : Prog} {src : Nat} {fs : List Frame}
    (h1 : p.bytecode.getD src 0 = Compiler.op.registerUpvalue) (h2 : p.bytecode.getD (src + 2) 0 = 0) :
    PanicCond p src fs (.panic "closure not found for capture") ∧
    PanicCond p src fs (.panic "upvalue index out of bounds") := by
  simp [PanicCond, stepPanics, h1, h2]

theorem fr_of_throws {α : Type} {m : M α} {P E : ErrKind → Prop} {fs : List Frame} (h : Throws P m)
    (hE : ∀ e, P e → E e) : Fr m fs (fun _ _ => True) E :=
  ⟨fun _ _ _ _ _ => trivial, fun s e s' _ hg => hE e (h.err s e (by rw [hg]))⟩

/-- `callNative` wraps whatever goes wrong -/
theorem throws_callNative_wrapped (re : Reenter) (h : UInt32) :
    Throws (fun e => ∀ w, e ≠ .panic w) (callNative re h) := by
  unfold callNative
  split
  · exact throws_throwE (fun w hw => by cases hw)
  · refine throws_bind (throws_tryCatch_any (fun e => throws_throwE (fun w hw => by cases hw))) (fun _ => ?_)
    refine throws_bind (throws_tryCatch_any (fun e => throws_bind ?_ (fun _ => throws_throwE (fun w hw => by cases hw)))) (fun _ => ?_)
    · exact ⟨fun s e he => fun w hw => by
        subst hw
        exact ((quiet_popN _ s.frames).err s _ _ rfl (by rw [← he])) w rfl⟩
    · refine throws_bind ⟨fun s e he => fun w hw => by
        subst hw
        exact ((quiet_popN _ s.frames).err s _ _ rfl (by rw [← he])) w rfl⟩ (fun _ => ?_)
      exact ⟨fun s e he => fun w hw => by
        subst hw
        exact ((quiet_push _ s.frames).err s _ _ rfl (by rw [← he])) w rfl⟩

theorem fr_curFrame_bind' {β : Type} {fs : List Frame} {E : ErrKind → Prop} {f : Frame → M β}
    {Q : β → List Frame → Prop} (he : fs = [] → E (.panic "call stack is empty"))
    (hf : ∀ fr, fs.getLast? = some fr → Fr (f fr) fs Q E) : Fr (curFrame >>= f) fs Q E := by
  by_cases hne : fs = []
  · unfold curFrame
    constructor
    · intro s b s' hs hg
      rw [go_bind, go_bind] at hg
      simp only [go_get] at hg
      have : s.frames.getLast? = none := by rw [hs, hne]; rfl
      rw [this] at hg
      simp at hg
    · intro s e s' hs hg
      rw [go_bind, go_bind] at hg
      simp only [go_get] at hg
      have : s.frames.getLast? = none := by rw [hs, hne]; rfl
      rw [this] at hg
      simp only [go_throwE, Prod.mk.injEq, Except.error.injEq] at hg
      exact hg.1 ▸ he hne
  · exact fr_curFrame_bind hne hf

theorem fr_callScript' {E : ErrKind → Prop} [ErrClass E] (p : Prog) (src ip : Nat) (l : UInt32) (ar : Nat)
    (c : Option Nat) (fs : List Frame) (he : fs = [] → E (.panic "Call stack was empty")) :
    Fr (step.callScript p src ip l ar c) fs (fun _ _ => True) E := by
  unfold step.callScript
  refine fr_get_bind (fun s hs => ?_)
  by_cases hemp : s.frames.isEmpty = true
  · rw [if_pos hemp]
    refine fr_throwE_bind (he ?_)
    rw [← hs]; exact List.isEmpty_iff.1 hemp
  · rw [if_neg hemp]
    fr_auto


macro_rules | `(tactic| fr_step) => `(tactic| (with_reducible refine fr_curFrame_bind' (by assumption) (fun _ _ => ?_)))
macro_rules | `(tactic| fr_spec) => `(tactic| with_reducible exact fr_of_throws (throws_callNative_wrapped _ _) (fun _ => panicCond_of_not_panic))
macro_rules | `(tactic| fr_spec) => `(tactic| with_reducible exact fr_callScript' _ _ _ _ _ _ _ (by assumption))

set_option maxHeartbeats 1000000 in
/-- **when an instruction panics** (any callback, any call stack): the two "call stack empty"
    messages only on an empty call stack, `"invalid opcode"` only if the byte at `src` is not an
    opcode of the instruction table, the two capture messages only at a `RegisterUpvalue` whose
    flag byte is 0 (non-local), and no other message at all -/
theorem step_panic_conditions (p : Prog) (re : Reenter) (src : Nat) (fs : List Frame) :
    Fr (step p re src) fs (fun _ _ => True) (PanicCond p src fs) := by
  have he1 : fs = [] → PanicCond p src fs (.panic "call stack is empty") := pc_empty1
  have he2 : fs = [] → PanicCond p src fs (.panic "Call stack was empty") := pc_empty2
  unfold step
  fr_auto
  all_goals first
    | exact fr_throwE (pc_capture (eq_of_beq ‹(p.bytecode.getD src 0 == Compiler.op.registerUpvalue) = true›)
        (by simpa using ‹¬(p.bytecode.getD (src + 1 + 1) 0 != 0) = true›)).1
    | exact fr_throwE (pc_capture (eq_of_beq ‹(p.bytecode.getD src 0 == Compiler.op.registerUpvalue) = true›)
        (by simpa using ‹¬(p.bytecode.getD (src + 1 + 1) 0 != 0) = true›)).2
    | exact fr_throwE (pc_invalid (by apply spanOf_none_of_no_branch <;> assumption))

end Cao.Vm
