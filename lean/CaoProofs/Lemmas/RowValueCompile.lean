import CaoProofs.Lemmas.ResolveLemmas
import CaoModel.Generated.Stdlib
/-!
# The compile context between two functions is clean

`compileFunction` is entered in a state whose bookkeeping is `functionId = 0`, `locals = [[]]`,
`scopeDepth = [0]` (`Clean`), and leaves it in such a state again — for ARBITRARY cards: every
local is declared inside the scope `compileFunction` opens (depth `≥ 1`), so the `scope_end` at
the end of the function removes all of them. The proof is a fourth syntax-directed logic over the
compiler monad (next to `Mono`, `Hs`, `Kp` of `CompilerLemmas` / `ResolveLemmas`):

* `Good s` — every local of every compile context has depth `≥ 1`;
* `Gd k m` — from a state with current depth `≥ k`, a successful run of `m` keeps `Good`;
  rules `gd_bind` (first action balanced in the sense of `Hs`), `gd_scopeBegin_bind` (`k+1`),
  `gd_scopeEnd_bind` (`k-1`), `gd_compileBegin_bind` (`0`), tactic `gd`;
* `processCard_gd_all` — every card, compiled at depth `≥ 1`, keeps `Good`;
* `Clean`, `compileFunction_clean`, `compileFunctions_clean` — the context between two functions.

On top of it, for programs compiled with the GENERATED standard library (`Gen.stdlib`):

* `stream_last` — the stream of `intoIrStream` ends with `std.row_to_value`;
* `compileUnit_last` — the last function is compiled from a clean context, the program ends with
  its code and the final `Exit`;
* `compileFunction_rtv` — the ten bytes `compileFunction` emits for `row_to_value`;
* `compile_rowToValue_layout` — the three together, plus: the label table maps the handle of
  `std.row_to_value` to the position of its code (no hash-collision hypothesis needed, because the
  function is compiled last).
-/
namespace Cao.Compiler
open Cao
set_option linter.unusedVariables false
set_option linter.unusedSectionVars false
set_option linter.unusedSimpArgs false

/-! ## every local is declared inside a scope -/

/-- every local of every compile context was declared at a scope depth `≥ 1` -/
def Good (s : CState) : Prop := ∀ ctx ∈ s.locals, ∀ l ∈ ctx, (1 : Int) ≤ l.depth

structure Pre (k : Int) (s : CState) : Prop where
  locals_ne : s.locals ≠ []
  depth_ne : s.scopeDepth ≠ []
  depth : k ≤ curDepth s
  good : Good s

/-- from a state with at least one context, a current depth `≥ k` and only locals of depth `≥ 1`,
    a successful run of `m` ends in a state with only locals of depth `≥ 1` -/
structure Gd {α : Type} (k : Int) (m : CM α) : Prop where
  run : ∀ s a s', m s = .ok (a, s') → Pre k s → Good s'

theorem gd_weaken {α : Type} {k k' : Int} {m : CM α} (h : Gd k m) (hk : k ≤ k') : Gd k' m :=
  ⟨fun s a s' hr hp => h.run s a s' hr ⟨hp.locals_ne, hp.depth_ne, Int.le_trans hk hp.depth, hp.good⟩⟩

/-- `m` keeps the shape of the bookkeeping (`Hs` of `CompilerLemmas`), whatever it is -/
structure BalM {α : Type} (m : CM α) : Prop where
  bal : ∀ p, Hs p p m

theorem gd_bind {α β : Type} {k : Int} {m : CM α} {f : α → CM β}
    (hm : Gd k m) (hb' : BalM m) (hf : ∀ a, Gd k (f a)) : Gd k (m >>= f) := by
  have hb := hb'.bal
  constructor
  intro s b s'' h hp
  obtain ⟨a, s', h1, h2⟩ := bind_ok.1 h
  have bal := Hs.balanced hb h1 hp.locals_ne
  refine (hf a).run s' b s'' h2 ⟨?_, ?_, ?_, hm.run s a s' h1 hp⟩
  · intro h0; have := bal.locals; rw [h0] at this
    exact hp.locals_ne (List.eq_nil_of_length_eq_zero this.symm)
  · rw [bal.scopeDepth]; exact hp.depth_ne
  · unfold curDepth; rw [bal.scopeDepth]; exact hp.depth

theorem gd_pure {α : Type} {k : Int} {a : α} : Gd k (pure a : CM α) := by
  constructor
  intro s b s' hr hp
  simp only [pure_run, Except.ok.injEq, Prod.mk.injEq] at hr
  obtain ⟨_, rfl⟩ := hr
  exact hp.good

theorem gd_get {k : Int} : Gd k (get : CM CState) := by
  constructor
  intro s b s' hr hp
  simp only [get_run, Except.ok.injEq, Prod.mk.injEq] at hr
  obtain ⟨_, rfl⟩ := hr
  exact hp.good

theorem gd_modify {k : Int} {f : CState → CState} (h : ∀ s, Pre k s → Good (f s)) :
    Gd k (modify f : CM Unit) := by
  constructor
  intro s b s' hr hp
  simp only [modify_run, Except.ok.injEq, Prod.mk.injEq] at hr
  obtain ⟨_, rfl⟩ := hr
  exact h s hp

theorem gd_modify_same {k : Int} {f : CState → CState} (h : ∀ s, (f s).locals = s.locals) :
    Gd k (modify f : CM Unit) :=
  gd_modify fun s hp => by unfold Good; rw [h s]; exact hp.good

theorem gd_throw {α : Type} {k : Int} {e : CErr} : Gd k (throw e : CM α) := by
  constructor; intro s b s' hr _; simp at hr
theorem gd_fail {α : Type} {k : Int} {e : CErrKind} : Gd k (fail e : CM α) := by
  constructor; intro s b s' hr _; simp at hr
theorem gd_throw_bind {α β : Type} {k : Int} {e : CErr} {f : α → CM β} :
    Gd k ((throw e : CM α) >>= f) := by
  constructor; intro s b s' hr _
  obtain ⟨a, s1, h1, _⟩ := bind_ok.1 hr
  simp at h1
theorem gd_fail_bind {α β : Type} {k : Int} {e : CErrKind} {f : α → CM β} :
    Gd k ((fail e : CM α) >>= f) := by
  constructor; intro s b s' hr _
  obtain ⟨a, s1, h1, _⟩ := bind_ok.1 hr
  simp at h1
theorem gd_ite {α : Type} {k : Int} {c : Prop} [Decidable c] {x y : CM α}
    (hx : Gd k x) (hy : Gd k y) : Gd k (if c then x else y) := by
  split <;> assumption

/-! ### the bracketing primitives -/

theorem curDepth_depthUp {l : List Int} (h : l ≠ []) :
    (depthUp l).getLast?.getD 0 = l.getLast?.getD 0 + 1 := by
  unfold depthUp
  cases hr : l.reverse with
  | nil => simp at hr; exact absurd hr h
  | cons d r =>
    have : l = r.reverse ++ [d] := by
      have := congrArg List.reverse hr; simpa using this
    subst this
    simp

theorem depthUp_ne {l : List Int} (h : l ≠ []) : depthUp l ≠ [] := by
  unfold depthUp
  cases hr : l.reverse with
  | nil => simp at hr; exact absurd hr h
  | cons d r => simp

theorem curDepth_depthDown {l : List Int} (h : l ≠ []) :
    (depthDown l).getLast?.getD 0 = l.getLast?.getD 0 - 1 := by
  unfold depthDown
  cases hr : l.reverse with
  | nil => simp at hr; exact absurd hr h
  | cons d r =>
    have : l = r.reverse ++ [d] := by
      have := congrArg List.reverse hr; simpa using this
    subst this
    simp

theorem depthDown_ne {l : List Int} (h : l ≠ []) : depthDown l ≠ [] := by
  unfold depthDown
  cases hr : l.reverse with
  | nil => simp at hr; exact absurd hr h
  | cons d r => simp

theorem gd_scopeBegin_bind {β : Type} {k : Int} {f : Unit → CM β} (hf : ∀ a, Gd (k + 1) (f a)) :
    Gd k (scopeBegin >>= f) := by
  constructor
  intro s b s'' h hp
  obtain ⟨a, s', h1, h2⟩ := bind_ok.1 h
  unfold scopeBegin at h1
  simp only [modify_run, Except.ok.injEq, Prod.mk.injEq, true_and] at h1
  subst h1
  refine (hf a).run _ b s'' h2 ⟨hp.locals_ne, depthUp_ne hp.depth_ne, ?_, hp.good⟩
  show k + 1 ≤ (depthUp s.scopeDepth).getLast?.getD 0
  rw [curDepth_depthUp hp.depth_ne]
  have := hp.depth; unfold curDepth at this; omega

theorem gd_scopeBegin {k : Int} : Gd k scopeBegin := by
  unfold scopeBegin; exact gd_modify_same fun _ => rfl

theorem bind_run {α β : Type} (m : CM α) (f : α → CM β) (s : CState) :
    (m >>= f) s = (match m s with
      | .ok (a, s') => f a s'
      | .error e => .error e) := by
  show (StateT.bind m f s) = _
  unfold StateT.bind
  show (Except.bind (m s) _) = _
  cases h : m s with
  | error e => rfl
  | ok p => cases p; rfl

theorem map_run {α β : Type} (g : α → β) (m : CM α) (s : CState) :
    (g <$> m) s = (match m s with
      | .ok (a, s') => .ok (g a, s')
      | .error e => .error e) := by
  show (StateT.map g m s) = _
  unfold StateT.map
  show (Except.bind (m s) _) = _
  cases h : m s with
  | error e => rfl
  | ok p => cases p; rfl

/-- the locals `scope_end` keeps in the current context -/
def keptLocals (s : CState) : List Local :=
  ((s.locals.getD s.functionId []).reverse.dropWhile
    (fun l => decide (l.depth > (depthDown s.scopeDepth).getLast?.getD 0))).reverse

theorem scopeEnd_run {s s' : CState} {a : Unit} (h : scopeEnd s = .ok (a, s')) :
    s'.scopeDepth = depthDown s.scopeDepth ∧ s'.locals = s.locals.set s.functionId (keptLocals s) ∧
    s'.functionId = s.functionId := by
  simp only [scopeEnd, bind_run, modify_run, get_run, emitBytes, Except.ok.injEq, Prod.mk.injEq,
    true_and] at h
  subst h
  exact ⟨rfl, rfl, rfl⟩

theorem mem_keptLocals {s : CState} {l : Local} (h : l ∈ keptLocals s) :
    l ∈ s.locals.getD s.functionId [] := by
  unfold keptLocals at h
  rw [List.mem_reverse] at h
  have := (List.dropWhile_sublist _).subset h
  exact List.mem_reverse.1 this

theorem good_scopeEnd {s s' : CState} {a : Unit} (h : scopeEnd s = .ok (a, s')) (hg : Good s) :
    Good s' := by
  obtain ⟨_, hl, _⟩ := scopeEnd_run h
  intro ctx hctx l hlm
  rw [hl] at hctx
  rcases List.mem_or_eq_of_mem_set hctx with hc | hc
  · exact hg ctx hc l hlm
  · subst hc
    have hm := mem_keptLocals hlm
    rw [List.getD_eq_getElem?_getD] at hm
    cases hx : s.locals[s.functionId]? with
    | none => rw [hx] at hm; cases hm
    | some c =>
      rw [hx] at hm
      exact hg c (List.mem_of_getElem? hx) l hm

theorem gd_scopeEnd {k : Int} : Gd k scopeEnd :=
  ⟨fun s a s' hr hp => good_scopeEnd hr hp.good⟩

theorem length_set' {α : Type} (l : List α) (i : Nat) (a : α) : (l.set i a).length = l.length := by simp

theorem gd_scopeEnd_bind {β : Type} {k : Int} {f : Unit → CM β} (hf : ∀ a, Gd (k - 1) (f a)) :
    Gd k (scopeEnd >>= f) := by
  constructor
  intro s b s'' h hp
  obtain ⟨a, s', h1, h2⟩ := bind_ok.1 h
  obtain ⟨hd, hl, _⟩ := scopeEnd_run h1
  refine (hf a).run _ b s'' h2 ⟨?_, ?_, ?_, good_scopeEnd h1 hp.good⟩
  · intro h0
    have := congrArg List.length hl
    rw [h0, List.length_set] at this
    exact hp.locals_ne (List.eq_nil_of_length_eq_zero this.symm)
  · rw [hd]; exact depthDown_ne hp.depth_ne
  · unfold curDepth
    rw [hd, curDepth_depthDown hp.depth_ne]
    have := hp.depth; unfold curDepth at this; omega

theorem gd_compileBegin_bind {β : Type} {k : Int} {f : Unit → CM β} (hf : ∀ a, Gd 0 (f a)) :
    Gd k (compileBegin >>= f) := by
  constructor
  intro s b s'' h hp
  obtain ⟨a, s', h1, h2⟩ := bind_ok.1 h
  unfold compileBegin at h1
  simp only [modify_run, Except.ok.injEq, Prod.mk.injEq, true_and] at h1
  subst h1
  refine (hf a).run _ b s'' h2 ⟨by simp, by simp, by simp [curDepth], ?_⟩
  intro ctx hctx l hl
  simp only [List.mem_append, List.mem_singleton] at hctx
  rcases hctx with hc | hc
  · exact hp.good ctx hc l hl
  · subst hc; cases hl

theorem gd_compileEnd {k : Int} : Gd k compileEnd := by
  unfold compileEnd
  refine gd_modify fun s hp ctx hctx l hl => ?_
  exact hp.good ctx (List.dropLast_subset _ hctx) l hl

/-- `m` touches neither the locals nor the scope depths (`pushSub`, `popSub`: not balanced in the
    sense of `Hs`, they change the card index) -/
structure KeepLD {α : Type} (m : CM α) : Prop where
  run : ∀ s a s', m s = .ok (a, s') → s'.locals = s.locals ∧ s'.scopeDepth = s.scopeDepth

theorem gd_bind_keep {α β : Type} {k : Int} {m : CM α} {f : α → CM β}
    (hm : KeepLD m) (hf : ∀ a, Gd k (f a)) : Gd k (m >>= f) := by
  constructor
  intro s b s'' h hp
  obtain ⟨a, s', h1, h2⟩ := bind_ok.1 h
  obtain ⟨e1, e2⟩ := hm.run s a s' h1
  refine (hf a).run s' b s'' h2 ⟨by rw [e1]; exact hp.locals_ne, by rw [e2]; exact hp.depth_ne, ?_, ?_⟩
  · unfold curDepth; rw [e2]; exact hp.depth
  · unfold Good; rw [e1]; exact hp.good

theorem pushSub_keep (i : Nat) : KeepLD (pushSub i) := by
  constructor
  intro s a s' h
  unfold pushSub at h
  simp only [modify_run, Except.ok.injEq, Prod.mk.injEq, true_and] at h
  subst h; exact ⟨rfl, rfl⟩

theorem popSub_keep : KeepLD popSub := by
  constructor
  intro s a s' h
  unfold popSub at h
  simp only [modify_run, Except.ok.injEq, Prod.mk.injEq, true_and] at h
  subst h; exact ⟨rfl, rfl⟩

/-! ### automation -/

/-- extensible: closes a goal `Gd k m` for a known action `m` -/
syntax "gd_prim" : tactic
macro_rules | `(tactic| gd_prim) => `(tactic| with_reducible exact (by assumption : ∀ k, Gd k _) _)
macro_rules
  | `(tactic| gd_prim) => `(tactic| with_reducible exact (by assumption : ∀ k : Int, 1 ≤ k → Gd k _) _ (by omega))

macro "gd_step" : tactic => `(tactic| first
  | assumption
  | gd_prim
  | dsimp only
  | with_reducible exact gd_throw_bind
  | with_reducible exact gd_fail_bind
  | with_reducible exact gd_pure
  | with_reducible exact gd_get
  | with_reducible exact gd_throw
  | with_reducible exact gd_fail
  | with_reducible exact gd_modify_same (fun _ => rfl)
  | with_reducible exact gd_scopeEnd
  | with_reducible exact gd_compileEnd
  | with_reducible apply gd_scopeBegin_bind
  | with_reducible apply gd_bind_keep (pushSub_keep _)
  | with_reducible apply gd_bind_keep popSub_keep
  | with_reducible apply gd_scopeEnd_bind
  | with_reducible apply gd_compileBegin_bind
  | (show ∀ p : Shape, Hs p p _; intro _; hs; done)
  | intro _
  | (with_reducible apply BalM.mk; intro _; hs; done)
  | (with_reducible apply BalM.mk; intro _; exact hs_modify_same fun s _ => by simp [shape])
  | with_reducible apply gd_bind
  | with_reducible apply gd_ite
  | split)
macro "gd" : tactic => `(tactic| repeat' gd_step)

theorem curTrace_gd {k : Int} : Gd k curTrace := by unfold curTrace; gd
macro_rules | `(tactic| gd_prim) => `(tactic| with_reducible exact curTrace_gd)

theorem emitBytes_gd {k : Int} (bs : List UInt8) : Gd k (emitBytes bs) := by unfold emitBytes; gd
macro_rules | `(tactic| gd_prim) => `(tactic| with_reducible exact emitBytes_gd _)
theorem emitU32_gd {k : Int} (x : Nat) : Gd k (emitU32 x) := emitBytes_gd _
macro_rules | `(tactic| gd_prim) => `(tactic| with_reducible exact emitU32_gd _)

theorem pushInstr_gd {k : Int} (o : UInt8) : Gd k (pushInstr o) := by unfold pushInstr; gd
macro_rules | `(tactic| gd_prim) => `(tactic| with_reducible exact pushInstr_gd _)

theorem insertLabel_gd {k : Int} (h : UInt32) (pos : Nat) : Gd k (insertLabel h pos) := by
  unfold insertLabel; gd
macro_rules | `(tactic| gd_prim) => `(tactic| with_reducible exact insertLabel_gd _ _)

theorem patchI32_gd {k : Int} (a v : Nat) : Gd k (patchI32 a v) := by unfold patchI32; gd
macro_rules | `(tactic| gd_prim) => `(tactic| with_reducible exact patchI32_gd _ _)

theorem pushSub_gd {k : Int} (i : Nat) : Gd k (pushSub i) := by unfold pushSub; gd
theorem popSub_gd {k : Int} : Gd k popSub := by unfold popSub; gd
macro_rules | `(tactic| gd_prim) => `(tactic| with_reducible exact pushSub_gd _)
macro_rules | `(tactic| gd_prim) => `(tactic| with_reducible exact popSub_gd)

/-! ### the primitives that touch the locals -/

theorem addLocalUnchecked_gd {k : Int} (n : String) (hk : 1 ≤ k) : Gd k (addLocalUnchecked n) := by
  constructor
  intro s a s' hr hp
  unfold addLocalUnchecked at hr
  simp only [bind_run, get_run] at hr
  split at hr
  · obtain ⟨_, _, h9, _⟩ := bind_ok.1 hr
    simp at h9
  · simp only [pure_run, modify_run, bind_run, Except.ok.injEq, Prod.mk.injEq] at hr
    obtain ⟨_, rfl⟩ := hr
    intro ctx hctx l hl
    simp only [List.mem_append, List.mem_singleton] at hctx
    rcases hctx with hc | hc
    · exact hp.good ctx (List.dropLast_subset _ hc) l hl
    · subst hc
      rcases List.mem_append.1 hl with hl | hl
      · cases hx : s.locals.getLast? with
        | none => rw [hx] at hl; cases hl
        | some c =>
          rw [hx] at hl
          exact hp.good c (List.mem_of_getLast? hx) l hl
      · simp only [List.mem_singleton] at hl
        subst hl
        exact Int.le_trans hk hp.depth
macro_rules | `(tactic| gd_prim) => `(tactic| with_reducible exact addLocalUnchecked_gd _ (by omega))

theorem validateVarName_gd {k : Int} (n : String) : Gd k (validateVarName n) := by
  unfold validateVarName; gd
macro_rules | `(tactic| gd_prim) => `(tactic| with_reducible exact validateVarName_gd _)

theorem addLocal_gd {k : Int} (n : String) (hk : 1 ≤ k) : Gd k (addLocal n) := by unfold addLocal; gd
macro_rules | `(tactic| gd_prim) => `(tactic| with_reducible exact addLocal_gd _ (by omega))

theorem addUpvalue_gd {k : Int} (i : UInt8) (l : Bool) (f : Nat) : Gd k (addUpvalue i l f) := by
  unfold addUpvalue; gd
macro_rules | `(tactic| gd_prim) => `(tactic| with_reducible exact addUpvalue_gd _ _ _)

theorem addUpvalue_good {i : UInt8} {l : Bool} {f : Nat} {s s' : CState} {a : Nat}
    (h : addUpvalue i l f s = .ok (a, s')) (hg : Good s) : Good s' := by
  unfold addUpvalue at h
  simp only [bind_run, get_run] at h
  cases hfi : List.findIdx? (fun u => u.2 == i && u.1 == l) (s.upvalues.getD f []) with
  | some j =>
    simp only [hfi, pure_run, Except.ok.injEq, Prod.mk.injEq] at h
    rw [← h.2]; exact hg
  | none =>
    simp only [hfi] at h
    split at h
    · obtain ⟨_, _, h9, _⟩ := bind_ok.1 h
      simp at h9
    · simp only [pure_run, modify_run, bind_run, Except.ok.injEq, Prod.mk.injEq] at h
      rw [← h.2]; exact hg

theorem good_capture {s : CState} (hg : Good s) (fid i : Nat) (hi : i < (s.locals.getD fid []).length) :
    Good { s with locals := s.locals.set fid ((s.locals.getD fid []).set i
      { (s.locals.getD fid []).getD i ⟨"", 0, false⟩ with captured := true }) } := by
  intro ctx hctx l hl
  rcases List.mem_or_eq_of_mem_set hctx with hc | hc
  · exact hg ctx hc l hl
  · subst hc
    have hsub : ∀ x ∈ s.locals.getD fid [], (1 : Int) ≤ x.depth := by
      intro x hx
      rw [List.getD_eq_getElem?_getD] at hx
      cases hq : s.locals[fid]? with
      | none => rw [hq] at hx; cases hx
      | some c => rw [hq] at hx; exact hg c (List.mem_of_getElem? hq) x hx
    rcases List.mem_or_eq_of_mem_set hl with hm | hm
    · exact hsub l hm
    · subst hm
      show (1 : Int) ≤ ((s.locals.getD fid []).getD i ⟨"", 0, false⟩).depth
      rw [List.getD_eq_getElem?_getD, List.getElem?_eq_getElem hi]
      exact hsub _ (List.getElem_mem hi)

theorem resolveUpvalue_good (n : String) : ∀ (fid : Nat) (s : CState) (v : Variable) (s' : CState),
    resolveUpvalue n fid s = .ok (v, s') → Good s → Good s'
  | 0, s, v, s', h, hg => by
    unfold resolveUpvalue at h
    simp only [pure_run, Except.ok.injEq, Prod.mk.injEq] at h
    rw [← h.2]; exact hg
  | fid+1, s, v, s', h, hg => by
    unfold resolveUpvalue at h
    simp only [bind_run, get_run] at h
    cases hfi : List.findIdx? (fun l => l.name == n) (s.locals.getD fid []) with
    | some i =>
      simp only [hfi, modify_run] at h
      have hi : i < (s.locals.getD fid []).length := by
        have := List.findIdx?_eq_some_iff_getElem.1 hfi
        exact this.1
      have hg1 := good_capture hg fid i hi
      obtain ⟨_, s1, h1, h⟩ := bind_ok.1 h
      simp only [modify_run, Except.ok.injEq, Prod.mk.injEq, true_and] at h1
      subst h1
      obtain ⟨u, s2, h2, h3⟩ := bind_ok.1 h
      simp only [pure_run, Except.ok.injEq, Prod.mk.injEq] at h3
      rw [← h3.2]
      exact addUpvalue_good h2 hg1
    | none =>
      simp only [hfi] at h
      obtain ⟨w, s1, hrec, h⟩ := bind_ok.1 h
      have hg1 := resolveUpvalue_good n fid s w s1 hrec hg
      split at h
      · obtain ⟨u, s2, h2, h3⟩ := bind_ok.1 h
        simp only [pure_run, Except.ok.injEq, Prod.mk.injEq] at h3
        rw [← h3.2]
        exact addUpvalue_good h2 hg1
      · simp only [pure_run, Except.ok.injEq, Prod.mk.injEq] at h
        rw [← h.2]; exact hg1

theorem resolveUpvalue_gd {k : Int} (n : String) (fid : Nat) : Gd k (resolveUpvalue n fid) :=
  ⟨fun s a s' hr hp => resolveUpvalue_good n fid s a s' hr hp.good⟩
macro_rules | `(tactic| gd_prim) => `(tactic| with_reducible exact resolveUpvalue_gd _ _)

theorem resolveVar_gd {k : Int} (n : String) : Gd k (resolveVar n) := by unfold resolveVar; gd
macro_rules | `(tactic| gd_prim) => `(tactic| with_reducible exact resolveVar_gd _)

theorem readLocalVar_gd {k : Int} (i : Nat) : Gd k (readLocalVar i) := by unfold readLocalVar; gd
theorem writeLocalVar_gd {k : Int} (i : Nat) : Gd k (writeLocalVar i) := by unfold writeLocalVar; gd
theorem readUpvalue_gd {k : Int} (i : Nat) : Gd k (readUpvalue i) := by unfold readUpvalue; gd
theorem writeUpvalue_gd {k : Int} (i : Nat) : Gd k (writeUpvalue i) := by unfold writeUpvalue; gd
macro_rules | `(tactic| gd_prim) => `(tactic| with_reducible exact readLocalVar_gd _)
macro_rules | `(tactic| gd_prim) => `(tactic| with_reducible exact writeLocalVar_gd _)
macro_rules | `(tactic| gd_prim) => `(tactic| with_reducible exact readUpvalue_gd _)
macro_rules | `(tactic| gd_prim) => `(tactic| with_reducible exact writeUpvalue_gd _)

theorem pushStr_gd {k : Int} (x : String) : Gd k (pushStr x) := by unfold pushStr; gd
macro_rules | `(tactic| gd_prim) => `(tactic| with_reducible exact pushStr_gd _)

theorem globalId_gd {k : Int} (x : String) : Gd k (globalId x) := by unfold globalId; gd
macro_rules | `(tactic| gd_prim) => `(tactic| with_reducible exact globalId_gd _)

theorem readProps_gd {k : Int} : ∀ (ps : List String), Gd k (readProps ps)
  | [] => by unfold readProps; gd
  | x :: ps => by
    have ih := readProps_gd (k := k) ps
    unfold readProps; gd
macro_rules | `(tactic| gd_prim) => `(tactic| with_reducible exact readProps_gd _)

theorem readVarCard_gd {k : Int} (x : String) : Gd k (readVarCard x) := by unfold readVarCard; gd
macro_rules | `(tactic| gd_prim) => `(tactic| with_reducible exact readVarCard_gd _)

theorem resolveFunction_gd {k : Int} (x : String) : Gd k (resolveFunction x) := by
  unfold resolveFunction; gd
macro_rules | `(tactic| gd_prim) => `(tactic| with_reducible exact resolveFunction_gd _)

theorem encodeJump_gd {k : Int} (x : String) : Gd k (encodeJump x) := by unfold encodeJump; gd
macro_rules | `(tactic| gd_prim) => `(tactic| with_reducible exact encodeJump_gd _)

/-! ### the combinators -/

theorem cardLabel_gd {k : Int} : Gd k cardLabel := by unfold cardLabel; gd
macro_rules | `(tactic| gd_prim) => `(tactic| with_reducible exact cardLabel_gd)

theorem withSub_gd {k : Int} {i : Nat} {m : CM Unit} (hb : ∀ p, Hs p p m) (hm : Gd k m) :
    Gd k (withSub i m) := by
  unfold withSub; gd
macro_rules | `(tactic| gd_prim) => `(tactic| with_reducible apply withSub_gd)

theorem encodeIfThen_gd {k : Int} {skip : UInt8} {m : CM Unit} (hb : ∀ p, Hs p p m) (hm : Gd k m) :
    Gd k (encodeIfThen skip m) := by
  unfold encodeIfThen; gd
macro_rules | `(tactic| gd_prim) => `(tactic| with_reducible apply encodeIfThen_gd)

theorem encodeIfThenRet_gd {k : Int} {skip : UInt8} {m : CM Nat} (hb : ∀ p, Hs p p m) (hm : Gd k m) :
    Gd k (encodeIfThenRet skip m) := by
  unfold encodeIfThenRet; gd
macro_rules | `(tactic| gd_prim) => `(tactic| with_reducible apply encodeIfThenRet_gd)

theorem addLocals_gd {k : Int} (hk : 1 ≤ k) : ∀ (ps : List String), Gd k (addLocals ps)
  | [] => by unfold addLocals; gd
  | x :: ps => by
    have ih := addLocals_gd hk ps
    unfold addLocals; gd
macro_rules | `(tactic| gd_prim) => `(tactic| with_reducible exact addLocals_gd (by omega) _)

theorem emitUpvalues_gd {k : Int} : ∀ (ups : List (Bool × UInt8)), Gd k (emitUpvalues ups)
  | [] => by unfold emitUpvalues; gd
  | (l, i) :: rest => by
    have ih := emitUpvalues_gd (k := k) rest
    unfold emitUpvalues; gd
macro_rules | `(tactic| gd_prim) => `(tactic| with_reducible exact emitUpvalues_gd _)

theorem scalarIntCode_gd {k : Int} (i : Int64) : Gd k (scalarIntCode i) := by unfold scalarIntCode; gd
macro_rules | `(tactic| gd_prim) => `(tactic| with_reducible exact scalarIntCode_gd _)

theorem processScalarInt_gd {k : Int} (i : Int64) : Gd k (processScalarInt i) := by
  unfold processScalarInt; gd
macro_rules | `(tactic| gd_prim) => `(tactic| with_reducible exact processScalarInt_gd _)

theorem bindLoopVar_gd {k : Int} (hk : 1 ≤ k) (n : Option String) (src : Nat) : Gd k (bindLoopVar n src) := by
  unfold bindLoopVar; gd
macro_rules | `(tactic| gd_prim) => `(tactic| with_reducible exact bindLoopVar_gd (by omega) _ _)

section combinators
variable {k : Int} (hk : 1 ≤ k)
include hk

theorem forEachCode_gd {i kk v : Option String} {it body : CM Unit}
    (h1 : ∀ p, Hs p p it) (h2 : ∀ p, Hs p p body)
    (g1 : ∀ k : Int, 1 ≤ k → Gd k it) (g2 : ∀ k : Int, 1 ≤ k → Gd k body) :
    Gd k (forEachCode i kk v it body) := by
  unfold forEachCode; gd

theorem whileCode_gd {c b : CM Unit} (h1 : ∀ p, Hs p p c) (h2 : ∀ p, Hs p p b)
    (g1 : ∀ k : Int, 1 ≤ k → Gd k c) (g2 : ∀ k : Int, 1 ≤ k → Gd k b) : Gd k (whileCode c b) := by
  unfold whileCode; gd

theorem repeatCode_gd {i : Option String} {n b : CM Unit} (h1 : ∀ p, Hs p p n) (h2 : ∀ p, Hs p p b)
    (g1 : ∀ k : Int, 1 ≤ k → Gd k n) (g2 : ∀ k : Int, 1 ≤ k → Gd k b) : Gd k (repeatCode i n b) := by
  unfold repeatCode; gd

theorem setVarTarget_gd (n : String) : Gd k (setVarTarget n) := by unfold setVarTarget; gd

theorem setVarCode_gd {n : String} {v : CM Unit} (h : ∀ p, Hs p p v) (g : ∀ k : Int, 1 ≤ k → Gd k v) :
    Gd k (setVarCode n v) := by
  have := setVarTarget_gd hk n
  unfold setVarCode; gd

theorem setGlobalVarCode_gd {n : String} {v : CM Unit} (h : ∀ p, Hs p p v)
    (g : ∀ k : Int, 1 ≤ k → Gd k v) : Gd k (setGlobalVarCode n v) := by
  unfold setGlobalVarCode; gd

theorem ifElseCode_gd {c t e : CM Unit} (h1 : ∀ p, Hs p p c) (h2 : ∀ p, Hs p p t) (h3 : ∀ p, Hs p p e)
    (g1 : ∀ k : Int, 1 ≤ k → Gd k c) (g2 : ∀ k : Int, 1 ≤ k → Gd k t) (g3 : ∀ k : Int, 1 ≤ k → Gd k e) :
    Gd k (ifElseCode c t e) := by
  unfold ifElseCode; gd

theorem ifCode_gd {skip : UInt8} {c b : CM Unit} (h1 : ∀ p, Hs p p c) (h2 : ∀ p, Hs p p b)
    (g1 : ∀ k : Int, 1 ≤ k → Gd k c) (g2 : ∀ k : Int, 1 ≤ k → Gd k b) : Gd k (ifCode skip c b) := by
  unfold ifCode; gd

theorem callCode_gd {n : String} {a : CM Unit} (h : ∀ p, Hs p p a) (g : ∀ k : Int, 1 ≤ k → Gd k a) :
    Gd k (callCode n a) := by
  unfold callCode; gd

theorem callNativeCode_gd {n : String} {a : CM Unit} (h : ∀ p, Hs p p a)
    (g : ∀ k : Int, 1 ≤ k → Gd k a) : Gd k (callNativeCode n a) := by
  unfold callNativeCode; gd

theorem closureCode_gd {args : List String} {b : CM Unit} (h : ∀ p, Hs p p b)
    (g : ∀ k : Int, 1 ≤ k → Gd k b) : Gd k (closureCode args b) := by
  unfold closureCode; gd

theorem arrayCode_gd {items : Nat → CM Unit} (h : ∀ tv p, Hs p p (items tv))
    (g : ∀ tv, ∀ k : Int, 1 ≤ k → Gd k (items tv)) : Gd k (arrayCode items) := by
  unfold arrayCode; gd
  · exact g _ _ hk
  · exact ⟨h _⟩

theorem unCode_gd {u : UnKind} {c : CM Unit} (h : ∀ p, Hs p p c) (g : ∀ k : Int, 1 ≤ k → Gd k c) :
    Gd k (unCode u c) := by
  unfold unCode; gd

theorem binCode_gd {bk : BinKind} {a b : CM Unit} (h1 : ∀ p, Hs p p a) (h2 : ∀ p, Hs p p b)
    (g1 : ∀ k : Int, 1 ≤ k → Gd k a) (g2 : ∀ k : Int, 1 ≤ k → Gd k b) : Gd k (binCode bk a b) := by
  unfold binCode
  split
  · exact whileCode_gd hk h1 h2 g1 g2
  · exact ifCode_gd hk h1 h2 g1 g2
  · exact ifCode_gd hk h1 h2 g1 g2
  · gd

theorem triCode_gd {tk : TriKind} {a b c : CM Unit}
    (h1 : ∀ p, Hs p p a) (h2 : ∀ p, Hs p p b) (h3 : ∀ p, Hs p p c)
    (g1 : ∀ k : Int, 1 ≤ k → Gd k a) (g2 : ∀ k : Int, 1 ≤ k → Gd k b) (g3 : ∀ k : Int, 1 ≤ k → Gd k c) :
    Gd k (triCode tk a b c) := by
  unfold triCode
  split
  · exact ifElseCode_gd hk h1 h2 h3 g1 g2 g3
  · gd

theorem dynamicCallCode_gd {a f : CM Unit} (h1 : ∀ p, Hs p p a) (h2 : ∀ p, Hs p p f)
    (g1 : ∀ k : Int, 1 ≤ k → Gd k a) (g2 : ∀ k : Int, 1 ≤ k → Gd k f) : Gd k (dynamicCallCode a f) := by
  unfold dynamicCallCode; gd

end combinators

macro_rules | `(tactic| hs_prim) => `(tactic| with_reducible exact processCard_hs _)
macro_rules | `(tactic| hs_prim) => `(tactic| with_reducible exact processArrayItems_hs _ _ _)
macro_rules | `(tactic| hs_prim) => `(tactic| with_reducible exact compileSubexprFrom_hs _ _)

macro_rules | `(tactic| gd_prim) => `(tactic| with_reducible apply forEachCode_gd (by omega))
macro_rules | `(tactic| gd_prim) => `(tactic| with_reducible apply repeatCode_gd (by omega))
macro_rules | `(tactic| gd_prim) => `(tactic| with_reducible apply setVarCode_gd (by omega))
macro_rules | `(tactic| gd_prim) => `(tactic| with_reducible apply setGlobalVarCode_gd (by omega))
macro_rules | `(tactic| gd_prim) => `(tactic| with_reducible apply callCode_gd (by omega))
macro_rules | `(tactic| gd_prim) => `(tactic| with_reducible apply callNativeCode_gd (by omega))
macro_rules | `(tactic| gd_prim) => `(tactic| with_reducible apply closureCode_gd (by omega))
macro_rules | `(tactic| gd_prim) => `(tactic| with_reducible apply arrayCode_gd (by omega))
macro_rules | `(tactic| gd_prim) => `(tactic| with_reducible apply unCode_gd (by omega))
macro_rules | `(tactic| gd_prim) => `(tactic| with_reducible apply binCode_gd (by omega))
macro_rules | `(tactic| gd_prim) => `(tactic| with_reducible apply triCode_gd (by omega))
macro_rules | `(tactic| gd_prim) => `(tactic| with_reducible apply dynamicCallCode_gd (by omega))

/-- **every card keeps the invariant**: compiled at a scope depth `≥ 1`, a card only declares
    locals of depth `≥ 1` -/
theorem processCard_gd_all :
    (∀ c, ∀ k : Int, 1 ≤ k → Gd k (processCard c)) ∧
    (∀ tv i cs, ∀ k : Int, 1 ≤ k → Gd k (processArrayItems tv i cs)) ∧
    (∀ i cs, ∀ k : Int, 1 ≤ k → Gd k (compileSubexprFrom i cs)) := by
  apply processCard.mutual_induct
    (motive_1 := fun c => ∀ k : Int, 1 ≤ k → Gd k (processCard c))
    (motive_2 := fun tv i cs => ∀ k : Int, 1 ≤ k → Gd k (processArrayItems tv i cs))
    (motive_3 := fun i cs => ∀ k : Int, 1 ≤ k → Gd k (compileSubexprFrom i cs))
  all_goals
    intros
    simp only [processCard, processArrayItems, compileSubexprFrom]
    gd

theorem processCard_gd {k : Int} (hk : 1 ≤ k) (c : Card) : Gd k (processCard c) :=
  processCard_gd_all.1 c k hk

/-! ## the compile context between two functions -/

/-- the bookkeeping between two functions: no enclosing function, one empty context, depth 0 -/
structure Clean (s : CState) : Prop where
  fid : s.functionId = 0
  locals : s.locals = [[]]
  depth : s.scopeDepth = [0]

/-- `s'` has the bookkeeping of `s` -/
structure Same3 (s s' : CState) : Prop where
  fid : s'.functionId = s.functionId
  locals : s'.locals = s.locals
  depth : s'.scopeDepth = s.scopeDepth

theorem Same3.refl (s : CState) : Same3 s s := ⟨rfl, rfl, rfl⟩
theorem Same3.trans {a b c : CState} (h1 : Same3 a b) (h2 : Same3 b c) : Same3 a c :=
  ⟨h2.fid.trans h1.fid, h2.locals.trans h1.locals, h2.depth.trans h1.depth⟩
theorem Clean.same3 {s s' : CState} (h : Clean s) (q : Same3 s s') : Clean s' :=
  ⟨q.fid.trans h.fid, q.locals.trans h.locals, q.depth.trans h.depth⟩

theorem insertLabel_same3 {h : UInt32} {pos : Nat} {s s' : CState} {a : Unit}
    (hr : insertLabel h pos s = .ok (a, s')) : Same3 s s' := by
  unfold insertLabel at hr
  split at hr
  · cases hr
  · simp only [modify_run, Except.ok.injEq, Prod.mk.injEq, true_and] at hr
    subst hr; exact ⟨rfl, rfl, rfl⟩

theorem pushInstr_same3 {o : UInt8} {s s' : CState} {a : Unit}
    (hr : pushInstr o s = .ok (a, s')) : Same3 s s' := by
  simp only [pushInstr, curTrace, bind_run, get_run, pure_run, modify_run, Except.ok.injEq,
    Prod.mk.injEq, true_and] at hr
  subst hr; exact ⟨rfl, rfl, rfl⟩

theorem cardLabel_same3 {s s' : CState} {a : Unit} (hr : cardLabel s = .ok (a, s')) : Same3 s s' := by
  unfold cardLabel at hr
  simp only [bind_run, get_run] at hr
  exact insertLabel_same3 hr

/-- the part of the balance that does not mention the card index -/
structure Bal3 (s s' : CState) : Prop where
  fid : s'.functionId = s.functionId
  depth : s'.scopeDepth = s.scopeDepth
  len : s'.locals.length = s.locals.length

theorem Bal3.trans {a b c : CState} (h1 : Bal3 a b) (h2 : Bal3 b c) : Bal3 a c :=
  ⟨h2.fid.trans h1.fid, h2.depth.trans h1.depth, h2.len.trans h1.len⟩

theorem Pre.of_bal3 {k : Int} {s s' : CState} (hp : Pre k s) (hb : Bal3 s s') (hg : Good s') : Pre k s' := by
  refine ⟨?_, by rw [hb.depth]; exact hp.depth_ne, by unfold curDepth; rw [hb.depth]; exact hp.depth, hg⟩
  intro h0
  have := hb.len; rw [h0] at this
  exact hp.locals_ne (List.eq_nil_of_length_eq_zero this.symm)

theorem processFunctionCards_inv : ∀ (cs : List Card) (ic : Nat) (s s' : CState),
    processFunctionCards ic cs s = .ok ((), s') → Pre 1 s → Bal3 s s' ∧ Good s'
  | [], ic, s, s', h, hp => by
    simp only [processFunctionCards, pure_run, Except.ok.injEq, Prod.mk.injEq, true_and] at h
    subst h; exact ⟨⟨rfl, rfl, rfl⟩, hp.good⟩
  | c :: cs, ic, s, s', h, hp => by
    unfold processFunctionCards at h
    obtain ⟨_, s1, h1, h⟩ := bind_ok.1 h
    obtain ⟨_, s2, h2, h⟩ := bind_ok.1 h
    obtain ⟨_, s3, h3, h4⟩ := bind_ok.1 h
    obtain ⟨l1, d1⟩ := popSub_keep.run _ _ _ h1
    obtain ⟨l2, d2⟩ := (pushSub_keep ic).run _ _ _ h2
    have f1 : s1.functionId = s.functionId := by
      unfold popSub at h1
      simp only [modify_run, Except.ok.injEq, Prod.mk.injEq, true_and] at h1; subst h1; rfl
    have f2 : s2.functionId = s1.functionId := by
      unfold pushSub at h2
      simp only [modify_run, Except.ok.injEq, Prod.mk.injEq, true_and] at h2; subst h2; rfl
    have b02 : Bal3 s s2 := ⟨f2.trans f1, d2.trans d1, by rw [l2, l1]⟩
    have hp2 : Pre 1 s2 := hp.of_bal3 b02 (by unfold Good; rw [l2, l1]; exact hp.good)
    have bal := Hs.balanced (fun p => processCard_hs (p := p) c) h3 hp2.locals_ne
    have g3 := (processCard_gd (Int.le_refl 1) c).run _ _ _ h3 hp2
    have b23 : Bal3 s2 s3 := ⟨bal.functionId, bal.scopeDepth, bal.locals⟩
    obtain ⟨b34, g4⟩ := processFunctionCards_inv cs (ic + 1) s3 s' h4 (hp2.of_bal3 b23 g3)
    exact ⟨(b02.trans b23).trans b34, g4⟩

theorem dropWhile_all {α : Type} (p : α → Bool) : ∀ l : List α, (∀ x ∈ l, p x = true) → l.dropWhile p = []
  | [], _ => rfl
  | x :: l, h => by
    rw [List.dropWhile_cons, if_pos (h x (List.mem_cons_self ..))]
    exact dropWhile_all p l (fun y hy => h y (List.mem_cons_of_mem _ hy))

/-- all locals of the single context go when the scope of the function is left -/
theorem keptLocals_nil {s : CState} (hf : s.functionId = 0) (hd : s.scopeDepth = [1])
    {ctx : List Local} (hl : s.locals = [ctx]) (hg : Good s) : keptLocals s = [] := by
  unfold keptLocals
  rw [hf, hl, hd]
  have hall : ∀ l ∈ ctx, (1 : Int) ≤ l.depth := hg ctx (by rw [hl]; simp)
  have : List.dropWhile (fun l : Local => decide (l.depth > (depthDown [1]).getLast?.getD 0))
      ([ctx].getD 0 []).reverse = [] := by
    apply dropWhile_all
    intro l hl'
    have hm : l ∈ ctx := by simpa using hl'
    have := hall l hm
    have e : (depthDown [1]).getLast?.getD 0 = 0 := by decide
    rw [e]
    simp only [gt_iff_lt, decide_eq_true_eq]
    omega
  rw [this]; rfl

theorem compileFunction_clean {f : FunctionIr} {s s' : CState}
    (h : compileFunction f s = .ok ((), s')) (hc : Clean s) : Clean s' := by
  unfold compileFunction at h
  obtain ⟨_, s1, h1, h⟩ := bind_ok.1 h
  obtain ⟨st, s1', hg, h⟩ := bind_ok.1 h
  obtain ⟨_, s2, h2, h⟩ := bind_ok.1 h
  obtain ⟨_, s3, h3, h⟩ := bind_ok.1 h
  obtain ⟨_, s5, h5, h⟩ := bind_ok.1 h
  obtain ⟨_, s6, h6, h⟩ := bind_ok.1 h
  obtain ⟨_, s7, h7, h8⟩ := bind_ok.1 h
  simp only [modify_run, Except.ok.injEq, Prod.mk.injEq, true_and] at h1
  simp only [get_run, Except.ok.injEq, Prod.mk.injEq] at hg
  obtain ⟨rfl, rfl⟩ := hg
  have c1 : Clean s1 := by subst h1; exact ⟨hc.fid, hc.locals, hc.depth⟩
  have c2 : Clean s2 := c1.same3 (insertLabel_same3 h2)
  unfold scopeBegin at h3
  simp only [modify_run, Except.ok.injEq, Prod.mk.injEq, true_and] at h3
  have f3 : s3.functionId = 0 := by subst h3; exact c2.fid
  have l3 : s3.locals = [[]] := by subst h3; exact c2.locals
  have d3 : s3.scopeDepth = [1] := by subst h3; show depthUp s2.scopeDepth = [1]; rw [c2.depth]; rfl
  -- the body
  unfold processFunction at h5
  obtain ⟨_, s4, h4, h5⟩ := bind_ok.1 h5
  obtain ⟨_, s4b, h4b, h5⟩ := bind_ok.1 h5
  simp only [modify_run, Except.ok.injEq, Prod.mk.injEq, true_and] at h4
  have f4 : s4.functionId = 0 := by subst h4; exact f3
  have l4 : s4.locals = [[]] := by subst h4; exact l3
  have d4 : s4.scopeDepth = [1] := by subst h4; exact d3
  have hp4 : Pre 1 s4 := ⟨by rw [l4]; simp, by rw [d4]; simp, by unfold curDepth; rw [d4]; decide,
    by intro ctx hctx l hl; rw [l4] at hctx; simp at hctx; subst hctx; cases hl⟩
  have bal4 := Hs.balanced (fun p => addLocals_hs f.arguments.reverse p) h4b hp4.locals_ne
  have g4b := (addLocals_gd (Int.le_refl 1) f.arguments.reverse).run _ _ _ h4b hp4
  have b4 : Bal3 s4 s4b := ⟨bal4.functionId, bal4.scopeDepth, bal4.locals⟩
  obtain ⟨b5, g5⟩ := processFunctionCards_inv f.cards 0 s4b s5 h5 (hp4.of_bal3 b4 g4b)
  have b45 := b4.trans b5
  -- the scope is left
  obtain ⟨d6, l6, f6⟩ := scopeEnd_run h6
  have f5 : s5.functionId = 0 := b45.fid.trans f4
  have d5 : s5.scopeDepth = [1] := b45.depth.trans d4
  obtain ⟨ctx, hctx⟩ : ∃ ctx, s5.locals = [ctx] := by
    have := b45.len; rw [l4] at this
    match hl : s5.locals, this with
    | [c], _ => exact ⟨c, rfl⟩
  have c6 : Clean s6 := by
    refine ⟨f6.trans f5, ?_, by rw [d6, d5]; rfl⟩
    rw [l6, keptLocals_nil f5 d5 hctx g5, f5, hctx]; rfl
  exact (c6.same3 (pushInstr_same3 h7)).same3 (pushInstr_same3 h8)

theorem compileFunctions_clean : ∀ (fs : List FunctionIr) (s s' : CState),
    compileFunctions fs s = .ok ((), s') → Clean s → Clean s'
  | [], s, s', h, hc => by
    simp only [compileFunctions, pure_run, Except.ok.injEq, Prod.mk.injEq, true_and] at h
    subst h; exact hc
  | f :: fs, s, s', h, hc => by
    unfold compileFunctions at h
    obtain ⟨_, s1, h1, h2⟩ := bind_ok.1 h
    exact compileFunctions_clean fs s1 s' h2 (compileFunction_clean h1 hc)

theorem compileFunctions_append : ∀ (a b : List FunctionIr) (s s' : CState),
    compileFunctions (a ++ b) s = .ok ((), s') →
      ∃ s1, compileFunctions a s = .ok ((), s1) ∧ compileFunctions b s1 = .ok ((), s')
  | [], b, s, s', h => ⟨s, rfl, h⟩
  | f :: a, b, s, s', h => by
    simp only [List.cons_append, compileFunctions] at h
    obtain ⟨_, s1, h1, h2⟩ := bind_ok.1 h
    obtain ⟨s2, h3, h4⟩ := compileFunctions_append a b s1 s' h2
    refine ⟨s2, ?_, h4⟩
    simp only [compileFunctions]
    exact bind_ok.2 ⟨(), s1, h1, h3⟩

/-! ## `row_to_value` is the last function of the stream -/

/-- the cards of `row_to_value(_key, val)` -/
def rtvCards : List Card := [.un .ret (.readVar "val")]

theorem entriesSubs_append : ∀ (a b : List (String × Module)) (ns : List String),
    entriesSubs (a ++ b) ns = entriesSubs a ns ++ entriesSubs b ns
  | [], b, ns => by simp [entriesSubs]
  | (n, s) :: a, b, ns => by
    simp only [List.cons_append, entriesSubs, entriesSubs_append a b ns, List.append_assoc]

/-- the entry of `row_to_value` in the walk (no handle yet) -/
def rtvEntry : FunctionIr :=
  { functionIndex := 10, name := "row_to_value", arguments := ["_key", "val"], cards := rtvCards,
    ns := ["std"], imports := [], handle := 0 }

theorem entries_stdlib : ∃ init, entries Gen.stdlib ["std"] = init ++ [rtvEntry] := by
  exact ⟨(entries Gen.stdlib ["std"]).dropLast, by rfl⟩

theorem fnEntries_length (ns : List String) (imports : List (String × String)) :
    ∀ (l : List (String × Func)) (i : Nat), (fnEntries ns imports l i).length = l.length
  | [], _ => rfl
  | (n, f) :: l, i => by simp [fnEntries, fnEntries_length ns imports l (i + 1)]

/-- the walk of a tree with the generated standard library ends with `row_to_value` -/
theorem entries_withStd (m : Module) :
    ∃ P, entries (withStd m Gen.stdlib) [] = P ++ [rtvEntry] ∧ m.functions.length ≤ P.length := by
  obtain ⟨init, hinit⟩ := entries_stdlib
  cases m with
  | mk subs fns imps =>
    refine ⟨fnEntries [] (importsOf imps) fns 0 ++ entriesSubs subs [] ++ init, ?_, ?_⟩
    · simp only [withStd, entries, Module.submodules, Module.functions, Module.imports]
      rw [entriesSubs_append]
      simp only [entriesSubs, List.nil_append, List.append_nil, hinit, List.append_assoc]
    · simp only [Module.functions, List.length_append, fnEntries_length]
      omega

/-- **the stream of a program compiled with the generated standard library ends with
    `std.row_to_value`** (it is not `main`, which is swapped to the front) -/
theorem stream_last {m : Module} {limit : Nat} {unit : Array FunctionIr}
    (h : intoIrStream m Gen.stdlib limit = .ok unit) :
    ∃ (pre : List FunctionIr) (f : FunctionIr), unit.toList = pre ++ [f] ∧ pre ≠ [] ∧
      f.name = "row_to_value" ∧ f.ns = ["std"] ∧ f.arguments = ["_key", "val"] ∧ f.cards = rtvCards := by
  obtain ⟨_, _, mi, hmi, rfl⟩ := (intoIrStream_ok_iff m Gen.stdlib limit unit).1 h
  obtain ⟨P, hP, hlen⟩ := entries_withStd m
  have hmi' : mi < m.functions.length := (List.findIdx?_eq_some_iff_getElem.1 hmi).1
  unfold irStream
  rw [hP, withHandles_append]
  simp only [withHandles, Array.set!_eq_setIfInBounds, Array.toList_setIfInBounds]
  have hQ : (withHandles 0 P).length = P.length := withHandles_length 0 P
  rw [List.set_append, if_pos (by rw [hQ]; omega), List.set_append, if_pos (by rw [List.length_set, hQ]; omega)]
  refine ⟨_, _, rfl, ?_, rfl, rfl, rfl, rfl⟩
  intro h0
  have := congrArg List.length h0
  simp only [List.length_set, hQ, List.length_nil] at this
  omega

/-! ## the layout of the compiled program: the last function, then `Exit` -/

theorem processFunction_inv {f : FunctionIr} {s s' : CState} (h : processFunction f s = .ok ((), s'))
    (hf : s.functionId = 0) (hl : s.locals = [[]]) (hd : s.scopeDepth = [1]) :
    s'.functionId = 0 ∧ s'.scopeDepth = [1] ∧ (∃ ctx, s'.locals = [ctx]) ∧ Good s' := by
  unfold processFunction at h
  obtain ⟨_, s4, h4, h5⟩ := bind_ok.1 h
  obtain ⟨_, s4b, h4b, h5⟩ := bind_ok.1 h5
  simp only [modify_run, Except.ok.injEq, Prod.mk.injEq, true_and] at h4
  have f4 : s4.functionId = 0 := by subst h4; exact hf
  have l4 : s4.locals = [[]] := by subst h4; exact hl
  have d4 : s4.scopeDepth = [1] := by subst h4; exact hd
  have hp4 : Pre 1 s4 := ⟨by rw [l4]; simp, by rw [d4]; simp, by unfold curDepth; rw [d4]; decide,
    by intro ctx hctx l hl; rw [l4] at hctx; simp at hctx; subst hctx; cases hl⟩
  have bal4 := Hs.balanced (fun p => addLocals_hs f.arguments.reverse p) h4b hp4.locals_ne
  have g4b := (addLocals_gd (Int.le_refl 1) f.arguments.reverse).run _ _ _ h4b hp4
  have b4 : Bal3 s4 s4b := ⟨bal4.functionId, bal4.scopeDepth, bal4.locals⟩
  obtain ⟨b5, g5⟩ := processFunctionCards_inv f.cards 0 s4b s' h5 (hp4.of_bal3 b4 g4b)
  have b45 := b4.trans b5
  refine ⟨b45.fid.trans f4, b45.depth.trans d4, ?_, g5⟩
  have := b45.len; rw [l4] at this
  match hl : s'.locals, this with
  | [c], _ => exact ⟨c, rfl⟩

theorem scopeEnd_clean {s s' : CState} {a : Unit} (h : scopeEnd s = .ok (a, s'))
    (hf : s.functionId = 0) (hd : s.scopeDepth = [1]) {ctx : List Local} (hl : s.locals = [ctx])
    (hg : Good s) : Clean s' := by
  obtain ⟨d6, l6, f6⟩ := scopeEnd_run h
  refine ⟨f6.trans hf, ?_, by rw [d6, hd]; rfl⟩
  rw [l6, keptLocals_nil hf hd hl hg, hf, hl]; rfl

theorem addFunctions_same3 {fs : List FunctionIr} {s s' : CState}
    (h : addFunctions fs s = .ok ((), s')) : Same3 s s' := by
  obtain ⟨_, _, rfl⟩ := (addFunctions_ok fs s s').1 h
  exact ⟨rfl, rfl, rfl⟩

/-- **the end of a compiled unit**: when the stream is `pre ++ [f]` (`pre` not empty), the last
    function `f` is compiled from a clean context, and the program is its code followed by the
    final `Exit`; the label log is the one after `f` -/
theorem compileUnit_last {unit : Array FunctionIr} {sf : CState} {pre : List FunctionIr}
    {f : FunctionIr} (h : compileUnit unit {} = .ok ((), sf)) (hu : unit.toList = pre ++ [f])
    (hpre : pre ≠ []) :
    ∃ sb sa, Clean sb ∧ compileFunction f sb = .ok ((), sa) ∧
      sf.bytecode = sa.bytecode.push op.exit ∧ sf.labels = sa.labels := by
  unfold compileUnit at h
  have hne : unit.isEmpty = false := by
    have : unit.toList ≠ [] := by rw [hu]; simp
    simpa using this
  simp only [hne, Bool.false_eq_true, if_false] at h
  obtain ⟨_, s1, h1, h⟩ := bind_ok.1 h
  obtain ⟨_, s2, h2, h⟩ := bind_ok.1 h
  obtain ⟨_, s3, h3, h⟩ := bind_ok.1 h
  obtain ⟨_, s5, h5, h⟩ := bind_ok.1 h
  obtain ⟨_, s6, h6, h⟩ := bind_ok.1 h
  obtain ⟨_, s7, h7, h⟩ := bind_ok.1 h
  obtain ⟨_, s8, h8, h⟩ := bind_ok.1 h
  obtain ⟨_, s9, h9, h⟩ := bind_ok.1 h
  obtain ⟨_, s10, h10, h11⟩ := bind_ok.1 h
  have c0 : Clean ({} : CState) := ⟨rfl, rfl, rfl⟩
  have c1 : Clean s1 := c0.same3 (addFunctions_same3 h1)
  simp only [modify_run, Except.ok.injEq, Prod.mk.injEq, true_and] at h2 h6 h10
  have c2 : Clean s2 := by subst h2; exact ⟨c1.fid, c1.locals, c1.depth⟩
  unfold scopeBegin at h3
  simp only [modify_run, Except.ok.injEq, Prod.mk.injEq, true_and] at h3
  have f3 : s3.functionId = 0 := by subst h3; exact c2.fid
  have l3 : s3.locals = [[]] := by subst h3; exact c2.locals
  have d3 : s3.scopeDepth = [1] := by subst h3; show depthUp s2.scopeDepth = [1]; rw [c2.depth]; rfl
  obtain ⟨f5, d5, ⟨ctx, l5⟩, g5⟩ := processFunction_inv h5 f3 l3 d3
  have c7 : Clean s7 := by
    refine scopeEnd_clean h7 ?_ ?_ (ctx := ctx) ?_ ?_
    · subst h6; exact f5
    · subst h6; exact d5
    · subst h6; exact l5
    · subst h6; exact g5
  have c8 : Clean s8 := by
    simp only [processCard] at h8
    obtain ⟨_, s7', h8a, h8b⟩ := bind_ok.1 h8
    exact (c7.same3 (cardLabel_same3 h8a)).same3 (pushInstr_same3 h8b)
  have hdrop : unit.toList.drop 1 = pre.drop 1 ++ [f] := by
    rw [hu]
    cases pre with
    | nil => exact absurd rfl hpre
    | cons x xs => rfl
  rw [hdrop] at h9
  obtain ⟨sb, ha, hb⟩ := compileFunctions_append _ _ _ _ h9
  have cb : Clean sb := compileFunctions_clean _ _ _ ha c8
  simp only [compileFunctions] at hb
  obtain ⟨_, sa, hb1, hb2⟩ := bind_ok.1 hb
  simp only [pure_run, Except.ok.injEq, Prod.mk.injEq, true_and] at hb2
  subst hb2
  refine ⟨sb, sa, cb, hb1, ?_, ?_⟩
  · simp only [pushInstr, curTrace, bind_run, get_run, pure_run, modify_run, Except.ok.injEq,
      Prod.mk.injEq, true_and] at h11
    subst h11; subst h10; rfl
  · simp only [pushInstr, curTrace, bind_run, get_run, pure_run, modify_run, Except.ok.injEq,
      Prod.mk.injEq, true_and] at h11
    subst h11; subst h10; rfl

/-! ## the code of `row_to_value` -/

theorem splitOn_val : "val".splitOn "." = ["val"] := by
  unfold String.splitOn; rw [if_neg (by decide)]
  repeat (rw [String.splitOnAux.eq_1]; simp (decide := true) only [↓reduceIte])

/-- **`compileFunction` on `row_to_value(_key, val) { return val }`, from a clean context**:
    ten bytes `ReadLocalVar 0; Return; Pop; Pop; ScalarNil; Return` are appended, the handle of
    the function is labelled with the position where they start (then the two card labels), and
    the context is clean again -/
theorem compileFunction_rtv {f : FunctionIr} (hargs : f.arguments = ["_key", "val"])
    (hcards : f.cards = rtvCards) {s s' : CState} (hs : Clean s)
    (h : compileFunction f s = .ok ((), s')) :
    s'.bytecode = s.bytecode ++ #[20, 0, 0, 0, 0, 22, 16, 16, 7, 22] ∧
    s'.labels = s.labels ++ [(f.handle, s.bytecode.size), (indexHandle f.functionIndex [0], s.bytecode.size),
      (indexHandle f.functionIndex [0, 0], s.bytecode.size)] := by
  obtain ⟨fid, loc, dep⟩ := hs
  have hfind : List.find? (fun i => (([⟨"val", 1, false⟩, ⟨"_key", 1, false⟩] : List Local)[i]?.getD
      ⟨"", 0, false⟩).name == "val") (List.range 2).reverse = some 0 := by decide
  by_cases h0 : f.handle = 0
  · simp [compileFunction, bind_run, insertLabel, h0] at h
  by_cases h1 : indexHandle f.functionIndex [0] = 0
  · simp [compileFunction, bind_run, hfind, map_run, insertLabel, h0, scopeBegin, processFunction, hargs, hcards,
      rtvCards, addLocals, addLocal, validateVarName, addLocalUnchecked, processFunctionCards, popSub, pushSub,
      processCard, cardLabel, h1, fid, loc, dep, unCode, withSub, readVarCard, splitOn_val, resolveVar, curDepth,
      readLocalVar, pushInstr, curTrace, emitU32, emitBytes, readProps, unOp, scopeEnd] at h
  by_cases h2 : indexHandle f.functionIndex [0, 0] = 0
  · simp [compileFunction, bind_run, hfind, map_run, insertLabel, h0, scopeBegin, processFunction, hargs, hcards,
      rtvCards, addLocals, addLocal, validateVarName, addLocalUnchecked, processFunctionCards, popSub, pushSub,
      processCard, cardLabel, h1, h2, fid, loc, dep, unCode, withSub, readVarCard, splitOn_val, resolveVar, curDepth,
      readLocalVar, pushInstr, curTrace, emitU32, emitBytes, readProps, unOp, scopeEnd] at h
  simp [compileFunction, bind_run, hfind, map_run, insertLabel, h0, scopeBegin, processFunction, hargs, hcards,
    rtvCards, addLocals, addLocal, validateVarName, addLocalUnchecked, processFunctionCards, popSub, pushSub,
    processCard, cardLabel, h1, h2, fid, loc, dep, unCode, withSub, readVarCard, splitOn_val, resolveVar, curDepth,
    readLocalVar, pushInstr, curTrace, emitU32, emitBytes, readProps, unOp, scopeEnd] at h
  subst h
  refine ⟨?_, rfl⟩
  show s.bytecode ++ _ = _
  congr 1

theorem find_three (c1 c2 h : UInt32) (n : Nat) (L : List (UInt32 × Nat)) :
    List.find? (fun q => q.1 == h) ((c2, n) :: (c1, n) :: (h, n) :: L) = some (h, n) := by
  have e : ∀ x : UInt32, (x == h) = true → x = h := fun x hx => by simpa using hx
  rw [List.find?_cons]
  by_cases h2 : (c2 == h) = true
  · rw [h2, e c2 h2]
  · rw [Bool.not_eq_true] at h2
    rw [h2, List.find?_cons]
    by_cases h1 : (c1 == h) = true
    · rw [h1, e c1 h1]
    · rw [Bool.not_eq_true] at h1
      rw [h1, List.find?_cons, beq_self_eq_true]

/-- the code of `row_to_value` as a byte list -/
def rtvBytes : List UInt8 := [20, 0, 0, 0, 0, 22, 16, 16, 7, 22]

/-- **(the layout of every program compiled with the generated standard library)** the stream ends
    with `std.row_to_value`; the bytecode ends with its ten bytes and the final `Exit`; and the
    label table maps its handle to the position of those bytes — unconditionally: the function is
    compiled last, so the only labels inserted after its own are those of its two cards, at the
    same position (later insertions win in the label table). -/
theorem compile_rowToValue_layout {m : Module} {limit : Nat} {p : Program}
    (h : compile m Gen.stdlib limit = .ok p) :
    ∃ (unit : Array FunctionIr) (pre : List FunctionIr) (f : FunctionIr) (B : Array UInt8),
      intoIrStream m Gen.stdlib limit = .ok unit ∧ unit.toList = pre ++ [f] ∧ pre ≠ [] ∧
      f.name = "row_to_value" ∧ f.ns = ["std"] ∧ f.arguments = ["_key", "val"] ∧ f.cards = rtvCards ∧
      p.bytecode = (B ++ rtvBytes.toArray).push op.exit ∧
      p.labels.find? (fun q => q.1 == f.handle) = some (f.handle, B.size) := by
  unfold compile at h
  split at h
  · cases h
  rename_i unit hunit
  split at h
  · cases h
  rename_i sf hsf
  simp only [Except.ok.injEq] at h
  subst h
  obtain ⟨pre, f, hu, hpre, hn, hns, hargs, hcards⟩ := stream_last hunit
  obtain ⟨sb, sa, cb, hcf, hbc, hlab⟩ := compileUnit_last hsf hu hpre
  obtain ⟨hb, hl⟩ := compileFunction_rtv hargs hcards cb hcf
  refine ⟨unit, pre, f, sb.bytecode, hunit, hu, hpre, hn, hns, hargs, hcards, ?_, ?_⟩
  · show sf.bytecode = _
    rw [hbc, hb]
    show (sb.bytecode ++ [20, 0, 0, 0, 0, 22, 16, 16, 7, 22].toArray).push op.exit = _
    unfold rtvBytes
    exact rfl
  · show (resolveLog sf.labels).find? _ = _
    rw [resolveLog_find, hlab, hl]
    generalize indexHandle f.functionIndex [0] = c1
    generalize indexHandle f.functionIndex [0, 0] = c2
    rw [List.reverse_append]
    simp only [List.reverse_cons, List.reverse_nil, List.nil_append, List.cons_append]
    exact find_three _ _ _ _ _

end Cao.Compiler
