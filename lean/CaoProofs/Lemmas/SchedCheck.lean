import CaoProofs.Lemmas.SchedStepAll
import CaoProofs.Lemmas.SchedNatDefs
/-!
# Schedule independence: the checked interpreter's instruction

`stepC p re src`: the instruction `step p re src`, preceded by the check `stepOkB` (the decidable
form of `StepOk`: no stale stack slot is read or exposed), and with the callback checked by
`wrapIter` when the instruction calls one of the iterating host functions. `stepC_sim`: the
checked instruction respects the relation unconditionally (the checks have the same outcome in
related states).
-/
namespace Cao.SchedFull
open Cao Cao.Vm Cao.Gc Cao.C02 Cao.C05 Cao.RunInv Cao.Native
set_option linter.unusedVariables false
set_option linter.unusedSectionVars false

/-! ## the stack-safety check -/

def frameOkB (s : VmState) : Bool :=
  match s.frames.getLast? with
  | some f => decide (f.stackOffset ≤ s.stack.count)
  | none => true

def upvOkB (s : VmState) : Bool :=
  s.openUpvalues.all (fun a => match s.heap.get a with
    | some (.upvalue (.stack i)) => decide (i < s.stack.count)
    | _ => true)

def readUpvOkB (index : Nat) (s : VmState) : Bool :=
  match s.frames.getLast? with
  | some fr =>
    match fr.closure with
    | some c =>
      match s.heap.get c with
      | some (.closure _ _ ups) =>
        match ups[index]? with
        | some u =>
          match s.heap.get u with
          | some (.upvalue (.stack i)) => decide (i < s.stack.count)
          | _ => true
        | none => true
      | _ => true
    | none => true
  | none => true

def stepOkB (p : Prog) (src : Nat) (s : VmState) : Bool :=
  (!(p.bytecode.getD src 0 == Compiler.op.clearStack || p.bytecode.getD src 0 == Compiler.op.ret) || frameOkB s) &&
  ((!(p.bytecode.getD src 0 == Compiler.op.ret || p.bytecode.getD src 0 == Compiler.op.closeUpvalue) || upvOkB s) &&
   (!(p.bytecode.getD src 0 == Compiler.op.readUpvalue) || readUpvOkB (rdU32 p.bytecode (src + 1)) s))

theorem frameOkB_iff (s : VmState) : frameOkB s = true ↔ FrameOk s := by
  unfold frameOkB FrameOk
  cases s.frames.getLast? with
  | none => exact ⟨fun _ f hf => (by cases hf), fun _ => rfl⟩
  | some f =>
    simp only [decide_eq_true_eq, Option.some.injEq]
    exact ⟨fun h f' hf' => hf' ▸ h, fun h => h f rfl⟩

theorem upvOkB_iff (s : VmState) : upvOkB s = true ↔ UpvOk s := by
  unfold upvOkB UpvOk
  rw [List.all_eq_true]
  constructor
  · intro h a ha i hg
    have := h a ha
    rw [hg] at this
    simpa using this
  · intro h a ha
    cases hg : s.heap.get a with
    | none => rfl
    | some o =>
      cases o with
      | upvalue loc =>
        cases loc with
        | stack i => simpa using h a ha i hg
        | closed _ => rfl
      | table _ _ => rfl
      | str _ => rfl
      | fn _ _ => rfl
      | native _ => rfl
      | closure _ _ _ => rfl

theorem readUpvOkB_iff (index : Nat) (s : VmState) : readUpvOkB index s = true ↔ ReadUpvOk index s := by
  unfold readUpvOkB ReadUpvOk
  constructor
  · intro h fr c hd ar ups u i h1 h2 h3 h4 h5
    rw [h1] at h
    dsimp only at h
    rw [h2] at h
    dsimp only at h
    rw [h3] at h
    dsimp only at h
    rw [h4] at h
    dsimp only at h
    rw [h5] at h
    simpa using h
  · intro h
    cases h1 : s.frames.getLast? with
    | none => rfl
    | some fr =>
      dsimp only
      cases h2 : fr.closure with
      | none => rfl
      | some c =>
        dsimp only
        cases h3 : s.heap.get c with
        | none => rfl
        | some o =>
          cases o with
          | closure hd ar ups =>
            dsimp only
            cases h4 : ups[index]? with
            | none => rfl
            | some u =>
              dsimp only
              cases h5 : s.heap.get u with
              | none => rfl
              | some o' =>
                cases o' with
                | upvalue loc =>
                  cases loc with
                  | stack i => simpa using h fr c hd ar ups u i h1 h2 h3 h4 h5
                  | closed _ => rfl
                | table _ _ => rfl
                | str _ => rfl
                | fn _ _ => rfl
                | native _ => rfl
                | closure _ _ _ => rfl
          | table _ _ => rfl
          | str _ => rfl
          | fn _ _ => rfl
          | native _ => rfl
          | upvalue _ => rfl

theorem imp_iff_bool {a : Bool} {b : Bool} {P Q : Prop} (ha : a = true ↔ P) (hb : b = true ↔ Q) :
    ((!a || b) = true) ↔ (P → Q) := by
  cases a <;> cases b <;> simp_all

theorem stepOkB_iff (p : Prog) (src : Nat) (s : VmState) : stepOkB p src s = true ↔ StepOk p src s := by
  unfold stepOkB StepOk
  rw [Bool.and_eq_true, Bool.and_eq_true]
  refine and_congr (imp_iff_bool (by simp [Bool.or_eq_true]) (frameOkB_iff s))
    (and_congr (imp_iff_bool (by simp [Bool.or_eq_true]) (upvOkB_iff s))
      (imp_iff_bool (by simp) (readUpvOkB_iff _ s)))

section inv
variable {c : Cfg} {K : Nat → Prop} {s t : VmState}

theorem frameOk_congr (h : Agree c K s t) : FrameOk t ↔ FrameOk s := by
  unfold FrameOk; rw [h.frames, h.stack.count]

theorem upvOk_congr (h : Agree c K s t) : UpvOk t ↔ UpvOk s := by
  unfold UpvOk
  rw [h.openUpvalues, h.stack.count]
  constructor
  · intro ht a ha i hg
    exact ht a ha i (by rw [h.agree a (h.k_upv ha)]; exact hg)
  · intro hs a ha i hg
    exact hs a ha i (by rw [← h.agree a (h.k_upv ha)]; exact hg)

theorem readUpvOk_congr (index : Nat) (h : Agree c K s t) : ReadUpvOk index t ↔ ReadUpvOk index s := by
  unfold ReadUpvOk
  rw [h.frames, h.stack.count]
  constructor
  · intro ht fr cl hd ar ups u i h1 h2 h3 h4 h5
    have hk : K cl := h.k_frame (List.mem_of_getLast? h1) h2
    have hku : K u := h.closed cl _ u hk h3 (by
      simp only [Heap.children, List.mem_map]; exact ⟨u, List.mem_of_getElem? h4, rfl⟩)
    exact ht fr cl hd ar ups u i h1 h2 (by rw [h.agree cl hk]; exact h3) h4 (by rw [h.agree u hku]; exact h5)
  · intro hs fr cl hd ar ups u i h1 h2 h3 h4 h5
    have hk : K cl := h.k_frame (List.mem_of_getLast? h1) h2
    have h3' : s.heap.get cl = some (.closure hd ar ups) := by rw [← h.agree cl hk]; exact h3
    have hku : K u := h.closed cl _ u hk h3' (by
      simp only [Heap.children, List.mem_map]; exact ⟨u, List.mem_of_getElem? h4, rfl⟩)
    exact hs fr cl hd ar ups u i h1 h2 h3' h4 (by rw [← h.agree u hku]; exact h5)

theorem stepOk_congr (p : Prog) (src : Nat) (h : Agree c K s t) : StepOk p src t ↔ StepOk p src s := by
  unfold StepOk; rw [frameOk_congr h, upvOk_congr h, readUpvOk_congr _ h]

theorem stepOkB_congr (p : Prog) (src : Nat) (h : Agree c K s t) : stepOkB p src t = stepOkB p src s := by
  have := stepOk_congr p src h
  rw [← stepOkB_iff, ← stepOkB_iff] at this
  cases h1 : stepOkB p src t <;> cases h2 : stepOkB p src s <;> simp_all

end inv

/-! ## which callbacks are checked -/

/-- the instruction at `src`, started in `s`, calls one of the iterating host functions -/
def iterSite (p : Prog) (src : Nat) (s : VmState) : Bool :=
  (p.bytecode.getD src 0 == Compiler.op.callNative && isIter (UInt32.ofNat (rdU32 p.bytecode (src + 1)))) ||
  (p.bytecode.getD src 0 == Compiler.op.callFunction &&
    match s.stack.pop.2 with
    | .obj a => match s.heap.get a with
      | some (.native hd) => isIter hd
      | _ => false
    | _ => false)

theorem calledAt_iter {p : Prog} {src : Nat} {s : VmState} {hd : UInt32} (h : CalledAt p src s hd) :
    isIter hd = true → iterSite p src s = true := by
  intro hi
  unfold iterSite
  rcases h with ⟨h1, rfl⟩ | ⟨h1, a, h2, h3⟩
  · simp [h1, hi]
  · have hne : ¬ (Compiler.op.callFunction = Compiler.op.callNative) := by decide
    simp [h1, h2, h3, hi]

theorem iterSite_congr {c : Cfg} {K : Nat → Prop} {s t : VmState} (p : Prog) (src : Nat) (h : Agree c K s t) :
    iterSite p src t = iterSite p src s := by
  unfold iterSite
  rw [h.stack.1.pop.2]
  cases hv : s.stack.pop.2 with
  | obj a => dsimp only; rw [h.agree a (h.vk_pop a hv)]
  | nil => rfl
  | int _ => rfl
  | real _ => rfl

/-! ## the checked callback -/
section wrap
variable {c : Cfg}

theorem wrapIter_post (re : Reenter) : IterPost (wrapIter re) := by
  intro f x r x' hgo
  unfold wrapIter at hgo
  rw [go_bind] at hgo
  simp only [go_get] at hgo
  rw [go_bind] at hgo
  rcases h1 : (re f).go x with ⟨r1, x1⟩
  rw [h1] at hgo
  cases r1 with
  | error e => cases hgo
  | ok r0 =>
    dsimp only at hgo
    rw [go_bind] at hgo
    simp only [go_get] at hgo
    by_cases hc : (iterOkB x x1 && decide (x.stack.count ≤ x.stack.data.length)) = true
    · rw [if_pos hc] at hgo
      simp only [go_pure, Prod.mk.injEq, Except.ok.injEq] at hgo
      obtain ⟨_, rfl⟩ := hgo
      simp only [Bool.and_eq_true] at hc
      exact (iterOkB_iff x x1).mp hc.1
    · rw [if_neg hc] at hgo
      cases hgo

/-- an object value at position 3 from the top is still on the stack when the two topmost values
    are gone -/
theorem peek3_mem_dropLast2 {st : VStack Val} {a : Nat} (hc : st.count ≤ st.data.length)
    (h : st.peekLast 3 = .obj a) : Val.obj a ∈ st.contents.dropLast.dropLast := by
  unfold VStack.peekLast at h
  split at h
  · next h3 =>
    have hlen : st.contents.length = st.count := by
      unfold VStack.contents; rw [List.length_take]; omega
    have hget : st.contents[st.count - 3 - 1]? = some (.obj a) := by
      unfold VStack.contents
      rw [List.getElem?_take, if_pos (by omega)]
      rw [List.getD_eq_getElem?_getD] at h
      cases hd : st.data[st.count - 3 - 1]? with
      | none => rw [hd] at h; cases h
      | some v => rw [hd] at h; simp only [Option.getD_some] at h; rw [h]
    apply List.mem_iff_getElem?.mpr
    refine ⟨st.count - 3 - 1, ?_⟩
    rw [List.dropLast_eq_take, List.dropLast_eq_take, List.getElem?_take, List.getElem?_take]
    simp only [List.length_take, hlen]
    rw [if_pos (by omega), if_pos (by omega)]
    exact hget
  · cases h

theorem iterOk_congr {K K' : Nat → Prop} {x y x' y' : VmState} (h : Agree c K x y) (h' : Agree c K' x' y')
    (hc : x.stack.count ≤ x.stack.data.length) : IterOk y y' ↔ IterOk x x' := by
  unfold IterOk
  rw [h.guards, h'.guards, h.stack.contents, h'.stack.contents, h.stack.peekLast]
  refine and_congr_right (fun _ => and_congr_right (fun h2 => ?_))
  constructor
  · intro hy a cap es hp hg
    have hka : K a := h.vk_peek 3 a hp
    have hka' : K' a := h'.vk_stack (by rw [h2]; exact peek3_mem_dropLast2 hc hp) a rfl
    obtain ⟨cap', es', hg', hsub⟩ := hy a cap es hp (by rw [h.agree a hka]; exact hg)
    exact ⟨cap', es', by rw [← h'.agree a hka']; exact hg', hsub⟩
  · intro hx a cap es hp hg
    have hka : K a := h.vk_peek 3 a hp
    have hka' : K' a := h'.vk_stack (by rw [h2]; exact peek3_mem_dropLast2 hc hp) a rfl
    obtain ⟨cap', es', hg', hsub⟩ := hx a cap es hp (by rw [← h.agree a hka]; exact hg)
    exact ⟨cap', es', by rw [h'.agree a hka']; exact hg', hsub⟩

theorem wrapIter_sim {re₁ re₂ : Reenter} (hre : ReSim c re₁ re₂) : ReSim c (wrapIter re₁) (wrapIter re₂) := by
  intro f K s t h hf
  unfold wrapIter
  refine w2_get' ?_
  refine w2_bind (w2_mono (hre f K s t h hf) fun r r' s1 t1 hq => ?_)
  obtain ⟨rfl, K1, hA1, hr⟩ := hq
  refine w2_get' ?_
  have e : (iterOkB t t1 && decide (t.stack.count ≤ t.stack.data.length)) =
      (iterOkB s s1 && decide (s.stack.count ≤ s.stack.data.length)) := by
    rw [h.stack.count, h.stack.cap]
    by_cases hc : s.stack.count ≤ s.stack.data.length
    · have := iterOk_congr h hA1 hc
      rw [← iterOkB_iff, ← iterOkB_iff] at this
      cases h1 : iterOkB t t1 <;> cases h2 : iterOkB s s1 <;> simp_all
    · simp [hc]
  rw [e]
  by_cases hc : (iterOkB s s1 && decide (s.stack.count ≤ s.stack.data.length)) = true
  · rw [if_pos hc]; exact w2_pure ⟨rfl, K1, hA1, hr⟩
  · rw [if_neg hc]; exact w2_throwE hA1.rel

end wrap

/-! ## the checked instruction -/

def stepC (p : Prog) (re : Reenter) (src : Nat) : M Ctl := do
  let s ← get
  if stepOkB p src s then step p (if iterSite p src s then wrapIter re else re) src
  else throwE (.panic "stale stack slot")

/-- when the check passes and no iterating host function is called, the checked instruction *is*
    the instruction -/
theorem stepC_go_of_ok (p : Prog) (re : Reenter) (src : Nat) (s : VmState) (h1 : stepOkB p src s = true)
    (h2 : iterSite p src s = false) : (stepC p re src).go s = (step p re src).go s := by
  unfold stepC
  rw [go_bind]
  simp only [go_get, h1, h2, if_true, Bool.false_eq_true, if_false]

/-- when the check fails, the checked instruction fails -/
theorem stepC_go_of_not_ok (p : Prog) (re : Reenter) (src : Nat) (s : VmState) (h1 : stepOkB p src s = false) :
    (stepC p re src).go s = (.error (.panic "stale stack slot"), s) := by
  unfold stepC
  rw [go_bind]
  simp only [go_get, h1, Bool.false_eq_true, if_false]
  rfl

/-- the checked host function call of `run_function` -/
def natC (re : Reenter) (hd : UInt32) : M Unit :=
  callNative (if isIter hd then wrapIter re else re) hd

/-- what is assumed about host functions: related callbacks (satisfying `IterOk` when the host
    function is an iterating one) give related runs — proved in `Lemmas/SchedNat.lean` -/
def NatSimHyp (c : Cfg) : Prop :=
  ∀ (re₁ re₂ : Reenter), ReSim c re₁ re₂ → ∀ (hd : UInt32),
    (isIter hd = true → IterPost re₁ ∧ IterPost re₂) → NatSimAt c re₁ re₂ hd

theorem natC_sim {c : Cfg} (hnat : NatSimHyp c) {re₁ re₂ : Reenter} (hre : ReSim c re₁ re₂) (hd : UInt32)
    {K : Nat → Prop} {s t : VmState} (h : Agree c K s t) :
    W2 c (natC re₁ hd) (natC re₂ hd) (fun _ _ s' t' => Rel c s' t') s t := by
  unfold natC
  cases hi : isIter hd with
  | true =>
    simp only [if_true]
    exact hnat _ _ (wrapIter_sim hre) hd (fun _ => ⟨wrapIter_post re₁, wrapIter_post re₂⟩) K s t h
  | false =>
    simp only [Bool.false_eq_true, if_false]
    exact hnat _ _ hre hd (fun hc => by rw [hi] at hc; cases hc) K s t h

theorem stepC_sim {c : Cfg} (hnat : NatSimHyp c) (p : Prog) {re₁ re₂ : Reenter} (hre : ReSim c re₁ re₂)
    (src : Nat) {K : Nat → Prop} {s t : VmState} (h : Agree c K s t) :
    W2 c (stepC p re₁ src) (stepC p re₂ src) (QStep c) s t := by
  unfold stepC
  refine w2_get' ?_
  rw [stepOkB_congr p src h, iterSite_congr p src h]
  cases hok : stepOkB p src s with
  | false => simp only [Bool.false_eq_true, if_false]; exact w2_throwE h.rel
  | true =>
    simp only [if_true]
    have hok' := (stepOkB_iff p src s).mp hok
    cases hi : iterSite p src s with
    | true =>
      simp only [if_true]
      exact step_sim p _ _ src
        (fun hd _ => hnat _ _ (wrapIter_sim hre) hd (fun _ => ⟨wrapIter_post re₁, wrapIter_post re₂⟩)) h hok'
    | false =>
      simp only [Bool.false_eq_true, if_false]
      exact step_sim p _ _ src
        (fun hd hcall => hnat _ _ hre hd (fun hc => by
          have := calledAt_iter hcall hc
          rw [hi] at this; cases this)) h hok'

end Cao.SchedFull
