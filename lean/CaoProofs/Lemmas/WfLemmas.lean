import CaoProofs.Lemmas.WfInv
/-!
# Hoare-style rules for the structural invariant `Inv` (C10)

`Tr k K Q m`: started in a state with at least `k` bytes of bytecode that satisfies `Inv H` (for any
hole set `H`), in which every position in `K` is a known instruction start `≤ k`, a successful run
of `m` keeps the first `k` bytes, only appends labels, re-establishes `Inv H`, and its result
satisfies `Q`.
-/
namespace Cao.Compiler.Wf
open Cao Cao.Bytecode

structure Rel (k : Nat) (s s' : CState) : Prop where
  ext : Ext k s s'
  labels : ∃ l, s'.labels = s.labels ++ l
  jt : s'.jumpTable = s.jumpTable

theorem Rel.refl (k : Nat) (s : CState) : Rel k s s := ⟨Ext.refl _ _, ⟨[], by simp⟩, rfl⟩

theorem Rel.trans {k : Nat} {s s1 s2 : CState} (h1 : Rel k s s1) (h2 : Rel k s1 s2) : Rel k s s2 := by
  obtain ⟨l1, e1⟩ := h1.labels
  obtain ⟨l2, e2⟩ := h2.labels
  exact ⟨h1.ext.trans h2.ext, ⟨l1 ++ l2, by rw [e2, e1, List.append_assoc]⟩, by rw [h2.jt, h1.jt]⟩

theorem Rel.weaken {k k' : Nat} {s s' : CState} (h : Rel k s s') (hk : k' ≤ k) : Rel k' s s' :=
  ⟨h.ext.weaken hk, h.labels, h.jt⟩

/-- known instruction starts in the frozen prefix -/
def KF (K : Nat → Prop) (k : Nat) (s : CState) : Prop := ∀ t, K t → t ≤ k ∧ Start s.bytecode t

theorem KF.ext {K : Nat → Prop} {k : Nat} {s s' : CState} (h : KF K k s) (he : Ext k s s') : KF K k s' := by
  intro t ht
  obtain ⟨h1, h2⟩ := h t ht
  exact ⟨h1, h2.congr fun i _ hi => getD_of_getElem? (he.pref i (by omega))⟩

theorem KF.mono {K : Nat → Prop} {k k' : Nat} {s : CState} (h : KF K k s) (hk : k ≤ k') : KF K k' s :=
  fun t ht => ⟨Nat.le_trans (h t ht).1 hk, (h t ht).2⟩

/-- the list-length part of `Aux`, as a fact about a state value read by `get` -/
structure LocOK (s : CState) : Prop where
  locals : ∀ ls ∈ s.locals, ls.length ≤ 255
  upvalues : ∀ us ∈ s.upvalues, us.length ≤ 255

structure Tr {α : Type} (k : Nat) (K : Nat → Prop) (Q : α → Prop) (m : CM α) : Prop where
  run : ∀ (H : Nat → Prop) s a s', m s = .ok (a, s') → k ≤ s.bytecode.size → Inv H s → KF K k s →
    Rel k s s' ∧ Inv H s' ∧ Q a

theorem tr_pure {α : Type} {k : Nat} {K : Nat → Prop} {Q : α → Prop} {a : α} (h : Q a) :
    Tr k K Q (pure a : CM α) := by
  constructor
  intro H s b s' hr _ hI _
  simp only [pure_run, Except.ok.injEq, Prod.mk.injEq] at hr
  obtain ⟨rfl, rfl⟩ := hr
  exact ⟨Rel.refl _ _, hI, h⟩

theorem tr_bind {α β : Type} {k : Nat} {K : Nat → Prop} {Q : α → Prop} {Q' : β → Prop} {m : CM α}
    {f : α → CM β} (hm : Tr k K Q m) (hf : ∀ a, Q a → Tr k K Q' (f a)) : Tr k K Q' (m >>= f) := by
  constructor
  intro H s b s'' h hk hI hK
  obtain ⟨a, s', h1, h2⟩ := bind_ok.1 h
  obtain ⟨r1, i1, qa⟩ := hm.run H s a s' h1 hk hI hK
  obtain ⟨r2, i2, qb⟩ := (hf a qa).run H s' b s'' h2 (Nat.le_trans hk r1.ext.size_le) i1 (hK.ext r1.ext)
  exact ⟨r1.trans r2, i2, qb⟩

theorem tr_weaken {α : Type} {k : Nat} {K : Nat → Prop} {Q Q' : α → Prop} {m : CM α}
    (hm : Tr k K Q m) (h : ∀ a, Q a → Q' a) : Tr k K Q' m :=
  ⟨fun H s a s' hr hk hI hK =>
    have r := hm.run H s a s' hr hk hI hK
    ⟨r.1, r.2.1, h a r.2.2⟩⟩

/-- reading the state: the continuation may use the current end of the bytecode as a known
instruction start, with the frozen prefix extended up to it -/
theorem tr_get_bind {β : Type} {k : Nat} {K : Nat → Prop} {Q : β → Prop} {f : CState → CM β}
    (h : ∀ st, k ≤ st.bytecode.size → LocOK st →
      Tr st.bytecode.size (fun t => K t ∨ t = st.bytecode.size) Q (f st)) :
    Tr k K Q (get >>= f) := by
  constructor
  intro H s b s' hr hk hI hK
  obtain ⟨a, s1, h1, h2⟩ := bind_ok.1 hr
  simp only [get_run, Except.ok.injEq, Prod.mk.injEq] at h1
  obtain ⟨rfl, rfl⟩ := h1
  have hK' : KF (fun t => K t ∨ t = s.bytecode.size) s.bytecode.size s := by
    intro t ht
    rcases ht with ht | rfl
    · exact ⟨Nat.le_trans (hK t ht).1 hk, (hK t ht).2⟩
    · exact ⟨Nat.le_refl _, hI.tiled⟩
  obtain ⟨r, i, q⟩ := (h s hk ⟨hI.aux.locals, hI.aux.upvalues⟩).run H s b s' h2 (Nat.le_refl _) hI hK'
  exact ⟨r.weaken hk, i, q⟩

theorem tr_throw {α : Type} {k : Nat} {K : Nat → Prop} {Q : α → Prop} {e : CErr} :
    Tr k K Q (throw e : CM α) := by
  constructor; intro H s b s' hr; simp at hr

theorem tr_fail {α : Type} {k : Nat} {K : Nat → Prop} {Q : α → Prop} {e : CErrKind} :
    Tr k K Q (fail e : CM α) := by
  constructor; intro H s b s' hr; simp at hr

theorem tr_throw_bind {α β : Type} {k : Nat} {K : Nat → Prop} {Q : β → Prop} {e : CErr} {f : α → CM β} :
    Tr k K Q ((throw e : CM α) >>= f) := by
  constructor; intro H s b s' hr
  obtain ⟨a, s1, h1, _⟩ := bind_ok.1 hr
  simp at h1

theorem tr_fail_bind {α β : Type} {k : Nat} {K : Nat → Prop} {Q : β → Prop} {e : CErrKind} {f : α → CM β} :
    Tr k K Q ((fail e : CM α) >>= f) := by
  constructor; intro H s b s' hr
  obtain ⟨a, s1, h1, _⟩ := bind_ok.1 hr
  simp at h1

theorem tr_ite {α : Type} {k : Nat} {K : Nat → Prop} {Q : α → Prop} {c : Prop} [Decidable c] {x y : CM α}
    (hx : c → Tr k K Q x) (hy : ¬ c → Tr k K Q y) : Tr k K Q (if c then x else y) := by
  split
  · exact hx (by assumption)
  · exact hy (by assumption)

theorem tr_pure' {α : Type} {k : Nat} {K : Nat → Prop} {a : α} :
    Tr k K (fun _ => True) (pure a : CM α) := tr_pure trivial

/-- re-association of binds -/
theorem tr_assoc {α β γ : Type} {k : Nat} {K : Nat → Prop} {Q : γ → Prop} {m : CM α} {f : α → CM β}
    {g : β → CM γ} (h : Tr k K Q ((m >>= f) >>= g)) : Tr k K Q (m >>= fun a => f a >>= g) := by
  constructor
  intro H s c s' hr
  refine h.run H s c s' ?_
  obtain ⟨a, s1, h1, h2⟩ := bind_ok.1 hr
  obtain ⟨b, s2, h3, h4⟩ := bind_ok.1 h2
  exact bind_ok.2 ⟨b, s2, bind_ok.2 ⟨a, s1, h1, h3⟩, h4⟩

/-- an update of state components the invariant does not look at -/
theorem tr_modify_other {k : Nat} {K : Nat → Prop} {f : CState → CState} (h : ∀ s, core (f s) = core s) :
    Tr k K (fun _ => True) (modify f : CM Unit) := by
  constructor
  intro H s a s' hr hk hI _
  simp only [modify_run, Except.ok.injEq, Prod.mk.injEq] at hr
  obtain ⟨_, rfl⟩ := hr
  have hc := h s
  simp only [core, Prod.mk.injEq] at hc
  exact ⟨⟨Ext.of_eq hc.1 hc.2.2.2.1, ⟨[], by simp [hc.2.2.1]⟩, hc.2.2.2.2.2.2.2.1⟩, Inv.of_core (h s) hI, trivial⟩

/-- extensible: closes a goal `Tr k K ?Q m` for a known action `m` -/
syntax "tr_prim" : tactic
macro_rules | `(tactic| tr_prim) => `(tactic| assumption)
macro_rules | `(tactic| tr_prim) => `(tactic| with_reducible exact (by assumption : ∀ k K, Tr k K _ _) _ _)

/-- side conditions `K t` -/
macro "kfact" : tactic => `(tactic| first
  | assumption
  | exact Or.inr rfl
  | exact Or.inl (Or.inr rfl)
  | exact Or.inl (Or.inl (Or.inr rfl))
  | (simp only [or_true, true_or]; done))

macro "tr_step" : tactic => `(tactic| first
  | tr_prim
  | dsimp only
  | with_reducible exact tr_throw_bind
  | with_reducible exact tr_fail_bind
  | with_reducible exact tr_pure'
  | with_reducible exact tr_pure (by first | assumption | omega)
  | with_reducible exact tr_throw
  | with_reducible exact tr_fail
  | with_reducible apply tr_get_bind
  | with_reducible apply tr_bind
  | with_reducible apply tr_ite
  | intro _
  | split)
macro "tr" : tactic => `(tactic| repeat' tr_step)

macro_rules | `(tactic| tr_prim) => `(tactic| with_reducible exact tr_modify_other (fun _ => rfl))

theorem pushSub_tr {k : Nat} {K : Nat → Prop} (i : Nat) : Tr k K (fun _ => True) (pushSub i) := by
  unfold pushSub; tr
theorem popSub_tr {k : Nat} {K : Nat → Prop} : Tr k K (fun _ => True) popSub := by unfold popSub; tr
theorem scopeBegin_tr {k : Nat} {K : Nat → Prop} : Tr k K (fun _ => True) scopeBegin := by
  unfold scopeBegin; tr
macro_rules | `(tactic| tr_prim) => `(tactic| with_reducible exact pushSub_tr _)
macro_rules | `(tactic| tr_prim) => `(tactic| with_reducible exact popSub_tr)
macro_rules | `(tactic| tr_prim) => `(tactic| with_reducible exact scopeBegin_tr)

theorem withSub_tr {k : Nat} {K : Nat → Prop} {i : Nat} {m : CM Unit} (hm : Tr k K (fun _ => True) m) :
    Tr k K (fun _ => True) (withSub i m) := by
  unfold withSub; tr
macro_rules | `(tactic| tr_prim) => `(tactic| with_reducible apply withSub_tr)

theorem validateVarName_tr {k : Nat} {K : Nat → Prop} (n : String) :
    Tr k K (fun _ => True) (validateVarName n) := by
  unfold validateVarName; tr
macro_rules | `(tactic| tr_prim) => `(tactic| with_reducible exact validateVarName_tr _)


/-! ## instruction units -/

macro "nocls" : tactic => `(tactic| (intro h; exact absurd h (by decide)))

theorem _root_.Cao.Compiler.OperOK.plain {H : Nat → Prop} {s : CState} {p : Nat} {o : UInt8} {bs : List UInt8}
    (hc : constrained o = false) (ht : ∃ t ∈ s.trace, t.1 = p) : OperOK H s p o bs :=
  OperOK.of_unconstrained hc fun _ => ht

theorem _root_.Cao.Compiler.OperOK.mk_slot {H : Nat → Prop} {s : CState} {p : Nat} {o : UInt8} {x : Nat}
    (hs : isSlot o = true) (ht : ∃ t ∈ s.trace, t.1 = p) (hx : x < 255) :
    OperOK H s p o (le32 (UInt32.ofNat x)) := by
  simp only [isSlot, Bool.or_eq_true, beq_iff_eq] at hs
  rcases hs with ((hs | hs) | hs) | hs <;> subst hs <;>
  exact ⟨fun _ => ht, by nocls, by nocls, by nocls, by nocls, fun _ => ⟨x, hx, rfl⟩, by nocls, by nocls, by nocls⟩

theorem _root_.Cao.Compiler.OperOK.mk_jump {H : Nat → Prop} {s : CState} {p : Nat} {o : UInt8} {bs : List UInt8}
    (hs : isJump o = true) (ht : ∃ t ∈ s.trace, t.1 = p)
    (hj : H p ∨ ∃ t, bs = le32 (UInt32.ofNat t) ∧ Start s.bytecode t ∧ t ≤ s.bytecode.size) :
    OperOK H s p o bs := by
  simp only [isJump, Bool.or_eq_true, beq_iff_eq] at hs
  rcases hs with (hs | hs) | hs <;> subst hs <;>
  exact ⟨fun _ => ht, fun _ => hj, by nocls, by nocls, by nocls, by nocls, by nocls, by nocls, by nocls⟩

theorem _root_.Cao.Compiler.OperOK.mk_str {H : Nat → Prop} {s : CState} {p : Nat} {o : UInt8} {off : Nat}
    (hs : isStr o = true) (ht : ∃ t ∈ s.trace, t.1 = p) (h : StrAt s.data off) :
    OperOK H s p o (le32 (UInt32.ofNat off)) := by
  simp only [isStr, Bool.or_eq_true, beq_iff_eq] at hs
  rcases hs with hs | hs <;> subst hs <;>
  exact ⟨fun _ => ht, by nocls, fun _ => ⟨off, rfl, h⟩, by nocls, by nocls, by nocls, by nocls, by nocls, by nocls⟩

theorem _root_.Cao.Compiler.OperOK.mk_fnp {H : Nat → Prop} {s : CState} {p : Nat} {bs : List UInt8}
    (ht : ∃ t ∈ s.trace, t.1 = p) (h : ∃ e ∈ s.jumpTable, bs.take 4 = le32 e.2.1) :
    OperOK H s p op.functionPointer bs :=
  ⟨fun _ => ht, by nocls, by nocls, fun _ => h, by nocls, by nocls, by nocls, by nocls, by nocls⟩

theorem _root_.Cao.Compiler.OperOK.mk_clos {H : Nat → Prop} {s : CState} {p : Nat} {bs : List UInt8}
    (ht : ∃ t ∈ s.trace, t.1 = p) (h : ∃ l ∈ s.labels, bs.take 4 = le32 l.1) :
    OperOK H s p op.closure bs :=
  ⟨fun _ => ht, by nocls, by nocls, by nocls, fun _ => h, by nocls, by nocls, by nocls, by nocls⟩

theorem _root_.Cao.Compiler.OperOK.mk_glob {H : Nat → Prop} {s : CState} {p : Nat} {o : UInt8} {x : Nat}
    (hs : isGlob o = true) (ht : ∃ t ∈ s.trace, t.1 = p) (hx : x < s.varIds.length) :
    OperOK H s p o (le32 (UInt32.ofNat x)) := by
  simp only [isGlob, Bool.or_eq_true, beq_iff_eq] at hs
  rcases hs with hs | hs <;> subst hs <;>
  exact ⟨fun _ => ht, by nocls, by nocls, by nocls, by nocls, by nocls, fun _ => ⟨x, hx, rfl⟩, by nocls, by nocls⟩

theorem _root_.Cao.Compiler.OperOK.mk_each {H : Nat → Prop} {s : CState} {p : Nat} {o : UInt8} {a b c d e : Nat}
    (hs : isEach o = true) (ht : ∃ t ∈ s.trace, t.1 = p)
    (ha : a < 255) (hb : b < 255) (hc : c < 255) (hd : d < 255) (he : e < 255) :
    OperOK H s p o (le32 (UInt32.ofNat a) ++ (le32 (UInt32.ofNat b) ++ (le32 (UInt32.ofNat c) ++
      (le32 (UInt32.ofNat d) ++ le32 (UInt32.ofNat e))))) := by
  simp only [isEach, Bool.or_eq_true, beq_iff_eq] at hs
  rcases hs with hs | hs <;> subst hs <;>
  exact ⟨fun _ => ht, by nocls, by nocls, by nocls, by nocls, by nocls, by nocls,
    fun _ => ⟨a, b, c, d, e, ha, hb, hc, hd, he, rfl⟩, by nocls⟩

theorem _root_.Cao.Compiler.OperOK.mk_reg {H : Nat → Prop} {s : CState} {p : Nat} {i f : UInt8}
    (ht : ∃ t ∈ s.trace, t.1 = p) (hf : f.toNat ≤ 1) :
    OperOK H s p op.registerUpvalue [i, f] :=
  ⟨fun _ => ht, by nocls, by nocls, by nocls, by nocls, by nocls, by nocls, by nocls, fun _ => ⟨i, f, hf, rfl⟩⟩

theorem foldl_push_cons (bs : List UInt8) (a : Array UInt8) (o : UInt8) :
    bs.foldl (fun a b => a.push b) (a.push o) = a ++ (o :: bs).toArray := by
  rw [foldl_push_eq]; simp

/-- the state after `pushInstr o; emitBytes bs` -/
def afterInstr (s : CState) (o : UInt8) (bs : List UInt8) : CState :=
  { s with trace := s.trace ++ [(s.bytecode.size, { ns := s.ns, function := s.curFunction, indices := s.curIndices })],
           bytecode := s.bytecode ++ (o :: bs).toArray }

theorem pushInstr_emit_run (o : UInt8) (bs : List UInt8) (s : CState) :
    (pushInstr o >>= fun _ => emitBytes bs) s = .ok ((), afterInstr s o bs) := by
  show Except.ok _ = _
  simp only [afterInstr, foldl_push_cons]

theorem pushInstr_run (o : UInt8) (s : CState) : pushInstr o s = .ok ((), afterInstr s o []) := by
  show Except.ok _ = _
  simp [afterInstr]

theorem afterInstr_trace (s : CState) (o : UInt8) (bs : List UInt8) :
    ∃ t ∈ (afterInstr s o bs).trace, t.1 = s.bytecode.size :=
  ⟨(s.bytecode.size, { ns := s.ns, function := s.curFunction, indices := s.curIndices }),
   by simp [afterInstr], rfl⟩

theorem afterInstr_rel {k : Nat} {s : CState} (hk : k ≤ s.bytecode.size) (o : UInt8) (bs : List UInt8) :
    Rel k s (afterInstr s o bs) := by
  refine ⟨⟨by simp [afterInstr], fun i hi => ?_, [_], rfl, by simp [afterInstr]⟩, ⟨[], by simp [afterInstr]⟩, rfl⟩
  show (s.bytecode ++ _)[i]? = _
  rw [Array.getElem?_append_left (by omega)]

theorem _root_.Cao.Compiler.Inv.afterInstr {H : Nat → Prop} {s : CState} {o : UInt8} {bs : List UInt8} (hI : Inv H s)
    (hsp : Gen.spanOf o = some (bs.length + 1))
    (hok : OperOK H (afterInstr s o bs) s.bytecode.size o bs) : Inv H (afterInstr s o bs) := by
  refine hI.push (o := o) (bs := bs) rfl hsp ⟨#[], by simp [Wf.afterInstr]⟩ rfl ?_ ?_ (Nat.le_refl _) rfl hok
    (hI.aux.of_eq rfl rfl rfl rfl rfl (by simp [Wf.afterInstr]))
  · intro t ht
    simp only [Wf.afterInstr, List.mem_append, List.mem_singleton] at ht
    rcases ht with ht | rfl
    · exact .inl ht
    · exact .inr rfl
  · intro t ht; simp [Wf.afterInstr, ht]

/-- generic instruction unit -/
theorem instr_tr {k : Nat} {K : Nat → Prop} {o : UInt8} {bs : List UInt8}
    (hsp : Gen.spanOf o = some (bs.length + 1))
    (hok : ∀ (H : Nat → Prop) s, k ≤ s.bytecode.size → Inv H s → KF K k s →
      OperOK H (afterInstr s o bs) s.bytecode.size o bs) :
    Tr k K (fun _ => True) (pushInstr o >>= fun _ => emitBytes bs) := by
  constructor
  intro H s a s' hr hk hI hK
  rw [pushInstr_emit_run] at hr
  simp only [Except.ok.injEq, Prod.mk.injEq] at hr
  obtain ⟨_, rfl⟩ := hr
  exact ⟨afterInstr_rel hk o bs, hI.afterInstr hsp (hok H s hk hI hK), trivial⟩

/-- one-byte instruction -/
theorem instr0_tr {k : Nat} {K : Nat → Prop} {o : UInt8} (hsp : Gen.spanOf o = some 1)
    (hc : constrained o = false) : Tr k K (fun _ => True) (pushInstr o) := by
  constructor
  intro H s a s' hr hk hI hK
  rw [pushInstr_run] at hr
  simp only [Except.ok.injEq, Prod.mk.injEq] at hr
  obtain ⟨_, rfl⟩ := hr
  exact ⟨afterInstr_rel hk o [], hI.afterInstr hsp (.plain hc (afterInstr_trace ..)), trivial⟩

/-- instruction without constrained operands -/
theorem instrP_tr {k : Nat} {K : Nat → Prop} {o : UInt8} {bs : List UInt8}
    (hsp : Gen.spanOf o = some (bs.length + 1)) (hc : constrained o = false) :
    Tr k K (fun _ => True) (pushInstr o >>= fun _ => emitBytes bs) :=
  instr_tr hsp fun _ _ _ _ _ => .plain hc (afterInstr_trace ..)

theorem instrSlot_tr {k : Nat} {K : Nat → Prop} {o : UInt8} {x : Nat} (hs : isSlot o = true) (hx : x < 255) :
    Tr k K (fun _ => True) (pushInstr o >>= fun _ => emitU32 x) := by
  have hsp : Gen.spanOf o = some ((le32 (UInt32.ofNat x)).length + 1) := by
    rw [le32_length]
    simp only [isSlot, Bool.or_eq_true, beq_iff_eq] at hs
    rcases hs with ((hs | hs) | hs) | hs <;> subst hs <;> decide
  exact instr_tr hsp fun _ _ _ _ _ => .mk_slot hs (afterInstr_trace ..) hx

theorem instrJump_tr {k : Nat} {K : Nat → Prop} {o : UInt8} {t : Nat} (hs : isJump o = true) (ht : K t) :
    Tr k K (fun _ => True) (pushInstr o >>= fun _ => emitU32 t) := by
  have hsp : Gen.spanOf o = some ((le32 (UInt32.ofNat t)).length + 1) := by
    rw [le32_length]; exact isJump_span hs
  refine instr_tr hsp fun H s hk hI hK => .mk_jump hs (afterInstr_trace ..) (.inr ⟨t, rfl, ?_, ?_⟩)
  · have h := (hK t ht).2
    refine h.congr fun i _ hi => ?_
    have := (hK t ht).1
    exact getD_append_left (by omega)
  · have := (hK t ht).1
    simp only [afterInstr, Array.size_append]; omega

theorem readLocalVar_tr {k : Nat} {K : Nat → Prop} {i : Nat} (h : i < 255) :
    Tr k K (fun _ => True) (readLocalVar i) := instrSlot_tr (by decide) h
theorem writeLocalVar_tr {k : Nat} {K : Nat → Prop} {i : Nat} (h : i < 255) :
    Tr k K (fun _ => True) (writeLocalVar i) := instrSlot_tr (by decide) h
theorem readUpvalue_tr {k : Nat} {K : Nat → Prop} {i : Nat} (h : i < 255) :
    Tr k K (fun _ => True) (readUpvalue i) := instrSlot_tr (by decide) h
theorem writeUpvalue_tr {k : Nat} {K : Nat → Prop} {i : Nat} (h : i < 255) :
    Tr k K (fun _ => True) (writeUpvalue i) := instrSlot_tr (by decide) h
macro_rules | `(tactic| tr_prim) => `(tactic| with_reducible exact readLocalVar_tr (by assumption))
macro_rules | `(tactic| tr_prim) => `(tactic| with_reducible exact writeLocalVar_tr (by assumption))
macro_rules | `(tactic| tr_prim) => `(tactic| with_reducible exact readUpvalue_tr (by assumption))
macro_rules | `(tactic| tr_prim) => `(tactic| with_reducible exact writeUpvalue_tr (by assumption))


/-! ## symbolic execution of `CM` actions -/

theorem throw_bind_run {α β : Type} (e : CErr) (f : α → CM β) (s : CState) :
    ((throw e : CM α) >>= f) s = .error e := rfl
theorem fail_bind_run {α β : Type} (e : CErrKind) (f : α → CM β) (s : CState) :
    ((fail e : CM α) >>= f) s =
      .error (.err e (some { ns := s.ns, function := s.curFunction, indices := s.curIndices })) := rfl
theorem get_bind_run {β : Type} (f : CState → CM β) (s : CState) : (get >>= f) s = f s s := rfl
theorem pure_bind_run {α β : Type} (a : α) (f : α → CM β) (s : CState) :
    ((pure a : CM α) >>= f) s = f a s := rfl
theorem modify_bind_run {β : Type} (g : CState → CState) (f : Unit → CM β) (s : CState) :
    ((modify g : CM Unit) >>= f) s = f () (g s) := rfl
theorem pushInstr_bind_run {β : Type} (o : UInt8) (f : Unit → CM β) (s : CState) :
    (pushInstr o >>= f) s = f () (afterInstr s o []) := by
  show f () _ = _
  congr 1
theorem emitBytes_run (bs : List UInt8) (s : CState) :
    emitBytes bs s = .ok ((), { s with bytecode := s.bytecode ++ bs.toArray }) := by
  show Except.ok _ = _
  simp only [foldl_push_eq]
theorem emitBytes_bind_run {β : Type} (bs : List UInt8) (f : Unit → CM β) (s : CState) :
    (emitBytes bs >>= f) s = f () { s with bytecode := s.bytecode ++ bs.toArray } := by
  show f () _ = _
  simp only [foldl_push_eq]
theorem emitU32_run (x : Nat) (s : CState) :
    emitU32 x s = .ok ((), { s with bytecode := s.bytecode ++ (le32 (UInt32.ofNat x)).toArray }) :=
  emitBytes_run _ s
theorem emitU32_bind_run {β : Type} (x : Nat) (f : Unit → CM β) (s : CState) :
    (emitU32 x >>= f) s = f () { s with bytecode := s.bytecode ++ (le32 (UInt32.ofNat x)).toArray } :=
  emitBytes_bind_run _ f s

/-! ## global variables -/

/-- the global-variable part of `Aux` -/
structure GAux (s : CState) : Prop where
  ids : s.varIds.map (·.2) = List.range s.nextVar
  nodup : (s.varIds.map (·.1)).Pairwise (· ≠ ·)
  names : ∀ i, i < s.nextVar → ∃ n ∈ s.varNames, n.1 = idHash i
  namesEq : HInj s.nextVar → s.varNames.map (·.1) = (List.range s.nextVar).map idHash

theorem _root_.Cao.Compiler.Aux.gaux {s : CState} (h : Aux s) : GAux s := ⟨h.ids, h.nodup, h.names, h.namesEq⟩

theorem GAux.len {s : CState} (h : GAux s) : s.varIds.length = s.nextVar := by
  have := congrArg List.length h.ids
  simpa using this

theorem _root_.Cao.Compiler.HInj.mono {n m : Nat} (h : HInj m) (hnm : n ≤ m) : HInj n :=
  fun i j hi hj e => h i j (by omega) (by omega) e

/-- the state components `globalId` does not touch -/
def core2 (s : CState) :=
  (s.bytecode, s.data, s.labels, s.trace, s.jumpTable, s.locals, s.upvalues, s.ns, s.curFunction, s.curIndices)

theorem globalId_spec {name : String} {s s' : CState} {id : Nat} (hr : globalId name s = .ok (id, s'))
    (hg : GAux s) :
    GAux s' ∧ id < s'.varIds.length ∧ s.varIds.length ≤ s'.varIds.length ∧ s'.nextVar ≤ s.nextVar + 1 ∧
    core2 s' = core2 s := by
  have hlen := hg.len
  unfold globalId at hr
  split at hr
  · simp only [throw_bind_run] at hr; cases hr
  · simp only [get_bind_run] at hr
    cases hf : List.find? (fun p => p.fst == Hash.handleFromBytes name.toUTF8.toList) s.varIds with
    | some x =>
      obtain ⟨hh, i⟩ := x
      simp only [hf, pure_bind_run, get_bind_run] at hr
      have hi : i < s.nextVar := by
        have hm := List.mem_of_find?_eq_some hf
        have : i ∈ s.varIds.map (·.2) := List.mem_map.2 ⟨_, hm, rfl⟩
        rw [hg.ids] at this
        exact List.mem_range.1 this
      split at hr
      · rename_i hany
        simp only [modify_bind_run, pure_run, Except.ok.injEq, Prod.mk.injEq] at hr
        obtain ⟨rfl, rfl⟩ := hr
        refine ⟨⟨hg.ids, hg.nodup, ?_, ?_⟩, by simpa [hlen] using hi, Nat.le_refl _, Nat.le_succ _, rfl⟩
        · intro j hj
          obtain ⟨n, hn, e⟩ := hg.names j hj
          exact ⟨n, by simp [hn], e⟩
        · intro hinj
          exfalso
          have hk := hg.namesEq hinj
          have : idHash i ∈ s.varNames.map (·.1) := by
            rw [hk]; exact List.mem_map.2 ⟨i, List.mem_range.2 hi, rfl⟩
          obtain ⟨n, hn, e⟩ := List.mem_map.1 this
          simp only [Bool.not_eq_true', List.any_eq_false, beq_iff_eq] at hany
          exact hany n hn e
      · simp only [pure_run, Except.ok.injEq, Prod.mk.injEq] at hr
        obtain ⟨rfl, rfl⟩ := hr
        exact ⟨hg, by simpa [hlen] using hi, Nat.le_refl _, Nat.le_succ _, rfl⟩
    | none =>
      simp only [hf, modify_bind_run, pure_bind_run, get_bind_run] at hr
      have hnew : ∀ p ∈ s.varIds, p.1 ≠ Hash.handleFromBytes name.toUTF8.toList := by
        intro p hp
        have := List.find?_eq_none.1 hf p hp
        simpa using this
      have hids : (s.varIds ++ [(Hash.handleFromBytes name.toUTF8.toList, s.nextVar)]).map (·.2) =
          List.range (s.nextVar + 1) := by
        rw [List.map_append, hg.ids, List.range_succ]; rfl
      have hnd : ((s.varIds ++ [(Hash.handleFromBytes name.toUTF8.toList, s.nextVar)]).map (·.1)).Pairwise (· ≠ ·) := by
        rw [List.map_append, List.pairwise_append]
        refine ⟨hg.nodup, by simp, ?_⟩
        intro a ha b hb
        simp only [List.map_cons, List.map_nil, List.mem_singleton] at hb
        obtain ⟨p, hp, rfl⟩ := List.mem_map.1 ha
        rw [hb]; exact hnew p hp
      split at hr
      · rename_i hany
        simp only [modify_bind_run, pure_run, Except.ok.injEq, Prod.mk.injEq] at hr
        obtain ⟨rfl, rfl⟩ := hr
        refine ⟨⟨hids, hnd, ?_, ?_⟩, by simp [hlen], by simp, Nat.le_refl _, rfl⟩
        · intro j hj
          simp only at hj
          rcases Nat.lt_succ_iff_lt_or_eq.1 hj with hj | rfl
          · obtain ⟨n, hn, e⟩ := hg.names j hj
            exact ⟨n, by simp [hn], e⟩
          · exact ⟨(Hash.handleFromU32 (UInt32.ofNat s.nextVar), name), by simp, rfl⟩
        · intro hinj
          simp only at hinj ⊢
          rw [List.map_append, hg.namesEq (hinj.mono (Nat.le_succ _)), List.range_succ, List.map_append]
          rfl
      · rename_i hany
        simp only [pure_run, Except.ok.injEq, Prod.mk.injEq] at hr
        obtain ⟨rfl, rfl⟩ := hr
        have hany' : (s.varNames.any fun p => p.fst == Hash.handleFromU32 (UInt32.ofNat s.nextVar)) = true := by
          cases h : (s.varNames.any fun p => p.fst == Hash.handleFromU32 (UInt32.ofNat s.nextVar)) with
          | true => rfl
          | false => rw [h] at hany; exact absurd rfl hany
        simp only [List.any_eq_true, beq_iff_eq] at hany'
        obtain ⟨n, hn, e⟩ := hany'
        refine ⟨⟨hids, hnd, ?_, ?_⟩, by simp [hlen], by simp, Nat.le_refl _, rfl⟩
        · intro j hj
          simp only at hj
          rcases Nat.lt_succ_iff_lt_or_eq.1 hj with hj | rfl
          · exact hg.names j hj
          · exact ⟨n, hn, e⟩
        · intro hinj
          exfalso
          simp only at hinj
          have hk := hg.namesEq (hinj.mono (Nat.le_succ _))
          have : n.1 ∈ s.varNames.map (·.1) := List.mem_map.2 ⟨n, hn, rfl⟩
          rw [hk] at this
          obtain ⟨j, hj, ej⟩ := List.mem_map.1 this
          have hj' := List.mem_range.1 hj
          have := hinj j s.nextVar (by omega) (by omega) (by rw [ej]; exact e)
          omega


/-! ## read-only actions: `resolveFunction` -/

/-- read-only actions from a fixed state -/
structure RO {α : Type} (s0 : CState) (P : α → Prop) (m : CM α) : Prop where
  run : ∀ a s', m s0 = .ok (a, s') → s' = s0 ∧ P a

theorem ro_pure {α : Type} {s0 : CState} {P : α → Prop} {a : α} (h : P a) : RO s0 P (pure a : CM α) := by
  constructor; intro b s' hr
  simp only [pure_run, Except.ok.injEq, Prod.mk.injEq] at hr
  obtain ⟨rfl, rfl⟩ := hr
  exact ⟨rfl, h⟩
theorem ro_bind {α β : Type} {s0 : CState} {Q : α → Prop} {P : β → Prop} {m : CM α} {f : α → CM β}
    (hm : RO s0 Q m) (hf : ∀ a, Q a → RO s0 P (f a)) : RO s0 P (m >>= f) := by
  constructor; intro b s' hr
  obtain ⟨a, s1, h1, h2⟩ := bind_ok.1 hr
  obtain ⟨rfl, qa⟩ := hm.run a s1 h1
  exact (hf a qa).run b s' h2
theorem ro_get_bind {β : Type} {s0 : CState} {P : β → Prop} {f : CState → CM β}
    (h : RO s0 P (f s0)) : RO s0 P (get >>= f) := by
  constructor; intro b s' hr
  rw [get_bind_run] at hr
  exact h.run b s' hr
theorem ro_fail {α : Type} {s0 : CState} {P : α → Prop} {e : CErrKind} : RO s0 P (fail e : CM α) := by
  constructor; intro b s' hr; simp at hr
theorem ro_fail_bind {α β : Type} {s0 : CState} {P : β → Prop} {e : CErrKind} {f : α → CM β} :
    RO s0 P ((fail e : CM α) >>= f) := by
  constructor; intro b s' hr; rw [fail_bind_run] at hr; cases hr

theorem lookupJump_mem {s : CState} {name : String} {r : UInt32 × UInt32} (h : lookupJump s name = some r) :
    ∃ e ∈ s.jumpTable, e.2 = r := by
  unfold lookupJump at h
  cases hf : s.jumpTable.find? (fun p => p.1 == name) with
  | none => rw [hf] at h; cases h
  | some e =>
    rw [hf] at h
    simp only [Option.map_some, Option.some.injEq] at h
    exact ⟨e, List.mem_of_find?_eq_some hf, h⟩

theorem resolveFunction_ro (f : String) (s0 : CState) :
    RO s0 (fun r => ∃ e ∈ s0.jumpTable, e.2 = r) (resolveFunction f) := by
  unfold resolveFunction
  repeat' first
    | with_reducible exact ro_fail_bind
    | with_reducible exact ro_fail
    | with_reducible exact ro_pure (lookupJump_mem (by assumption))
    | with_reducible apply ro_get_bind
    | with_reducible apply ro_bind
    | dsimp only
    | intro _
    | split

/-! ## units that involve tables -/

theorem Rel.of_append {k : Nat} {s s' : CState} {b : Array UInt8} (hk : k ≤ s.bytecode.size)
    (hb : s'.bytecode = s.bytecode ++ b)
    (ht : ∃ t, s'.trace = s.trace ++ t ∧ ∀ p ∈ t, s.bytecode.size ≤ p.1 ∧ p.1 < s'.bytecode.size)
    (hl : s'.labels = s.labels) (hj : s'.jumpTable = s.jumpTable) : Rel k s s' := by
  refine ⟨⟨by rw [hb]; simp, fun i hi => ?_, ht⟩, ⟨[], by simp [hl]⟩, hj⟩
  rw [hb, Array.getElem?_append_left (by omega)]

/-- `x ← globalId v; pushInstr o; emitU32 x` for a global-variable instruction `o` -/
theorem readGlobal_tr {k : Nat} {K : Nat → Prop} (v : String) :
    Tr k K (fun _ => True) (do let id ← globalId v; pushInstr op.readGlobalVar; emitU32 id) := by
  constructor
  intro H s a s' hr hk hI hK
  obtain ⟨id, s1, h1, h2⟩ := bind_ok.1 hr
  obtain ⟨hg1, hid, hvl, hnv, hc⟩ := globalId_spec h1 hI.aux.gaux
  rw [pushInstr_bind_run, emitU32_run] at h2
  simp only [Except.ok.injEq, Prod.mk.injEq] at h2
  obtain ⟨_, rfl⟩ := h2
  simp only [core2, Prod.mk.injEq] at hc
  obtain ⟨c1, c2, c3, c4, c5, c6, c7, c8, c9, c10⟩ := hc
  have hb : (afterInstr s1 op.readGlobalVar []).bytecode ++ (le32 (UInt32.ofNat id)).toArray =
      s.bytecode ++ (op.readGlobalVar :: le32 (UInt32.ofNat id)).toArray := by
    simp [afterInstr, c1]
  refine ⟨Rel.of_append hk hb ⟨[_], by simp only [afterInstr, c4]; rfl, ?_⟩ c3 c5, ?_, trivial⟩
  · intro p hp
    simp only [List.mem_singleton] at hp
    subst hp
    simp only [hb, c1, Array.size_append, List.size_toArray, List.length_cons, le32_length]
    omega
  · refine hI.push (o := op.readGlobalVar) (bs := le32 (UInt32.ofNat id)) hb (by rw [le32_length]; decide)
      ⟨#[], by simp [afterInstr, c2]⟩ c3 ?_ ?_ hvl c5 ?_ ?_
    · intro t ht
      simp only [afterInstr, c4, List.mem_append, List.mem_singleton] at ht
      rcases ht with ht | rfl
      · exact .inl ht
      · exact .inr (by rw [c1])
    · intro t ht; simp [afterInstr, c4, ht]
    · exact .mk_glob (by decide) ⟨_, by simp only [afterInstr]; exact List.mem_append_right _ (List.mem_singleton.2 rfl), by rw [c1]⟩ hid
    · refine ⟨by show ∀ ls ∈ s1.locals, _; rw [c6]; exact hI.aux.locals,
        by show ∀ us ∈ s1.upvalues, _; rw [c7]; exact hI.aux.upvalues,
        hg1.ids, hg1.nodup, hg1.names, hg1.namesEq, ?_⟩
      have := hI.aux.nv
      show s1.nextVar ≤ _
      simp only [hb, Array.size_append, List.size_toArray, List.length_cons, le32_length]
      omega


/-- summary of an instruction unit: one traced instruction appended, tables possibly grown -/
theorem unit_step {H : Nat → Prop} {k : Nat} {s s' : CState} {o : UInt8} {bs : List UInt8} {t : Trace}
    (hI : Inv H s) (hk : k ≤ s.bytecode.size)
    (hb : s'.bytecode = s.bytecode ++ (o :: bs).toArray)
    (htr : s'.trace = s.trace ++ [(s.bytecode.size, t)])
    (hl : s'.labels = s.labels) (hj : s'.jumpTable = s.jumpTable)
    (hd : ∃ d, s'.data = s.data ++ d) (hv : s.varIds.length ≤ s'.varIds.length)
    (hsp : Gen.spanOf o = some (bs.length + 1))
    (hok : (∃ t ∈ s'.trace, t.1 = s.bytecode.size) → OperOK H s' s.bytecode.size o bs)
    (ha : Aux s') : Rel k s s' ∧ Inv H s' := by
  refine ⟨Rel.of_append hk hb ⟨[_], htr, ?_⟩ hl hj, ?_⟩
  · intro p hp
    simp only [List.mem_singleton] at hp
    subst hp
    simp only [hb, Array.size_append, List.size_toArray, List.length_cons]
    omega
  · refine hI.push hb hsp hd hl ?_ ?_ hv hj (hok ⟨_, by rw [htr]; exact List.mem_append_right _ (List.mem_singleton.2 rfl), rfl⟩) ha
    · intro x hx
      rw [htr] at hx
      simp only [List.mem_append, List.mem_singleton] at hx
      rcases hx with hx | rfl
      · exact .inl hx
      · exact .inr rfl
    · intro x hx; rw [htr]; exact List.mem_append_left _ hx

/-- the tail of `setGlobalVarCode` -/
def setGlobalTail (name : String) : CM Unit := do
  pushInstr op.setGlobalVar
  if name.isEmpty then fail .emptyVariable
  let id ← globalId name
  emitU32 id

theorem setGlobalVarCode_eq (name : String) (value : CM Unit) :
    setGlobalVarCode name value = (withSub 0 value >>= fun _ => setGlobalTail name) := rfl

theorem setGlobalTail_tr {k : Nat} {K : Nat → Prop} (name : String) :
    Tr k K (fun _ => True) (setGlobalTail name) := by
  constructor
  intro H s a s' hr hk hI hK
  unfold setGlobalTail at hr
  rw [pushInstr_bind_run] at hr
  split at hr
  · rw [fail_bind_run] at hr; cases hr
  · obtain ⟨id, s1, h1, h2⟩ := bind_ok.1 hr
    rw [emitU32_run] at h2
    simp only [Except.ok.injEq, Prod.mk.injEq] at h2
    obtain ⟨_, rfl⟩ := h2
    have hg0 : GAux (afterInstr s op.setGlobalVar []) :=
      ⟨hI.aux.ids, hI.aux.nodup, hI.aux.names, hI.aux.namesEq⟩
    obtain ⟨hg1, hid, hvl, hnv, hc⟩ := globalId_spec h1 hg0
    simp only [core2, Prod.mk.injEq] at hc
    obtain ⟨c1, c2, c3, c4, c5, c6, c7, c8, c9, c10⟩ := hc
    have hb : s1.bytecode ++ (le32 (UInt32.ofNat id)).toArray =
        s.bytecode ++ (op.setGlobalVar :: le32 (UInt32.ofNat id)).toArray := by
      simp [afterInstr, c1]
    have := unit_step (s' := { s1 with bytecode := s1.bytecode ++ (le32 (UInt32.ofNat id)).toArray })
      (o := op.setGlobalVar) (bs := le32 (UInt32.ofNat id)) hI hk hb c4 c3 c5 ⟨#[], by simp [c2, afterInstr]⟩ hvl
      (by rw [le32_length]; decide) (fun ht => .mk_glob (by decide) ht hid)
      ⟨by show ∀ ls ∈ s1.locals, _; rw [c6]; exact hI.aux.locals,
       by show ∀ us ∈ s1.upvalues, _; rw [c7]; exact hI.aux.upvalues,
       hg1.ids, hg1.nodup, hg1.names, hg1.namesEq, by
        have := hI.aux.nv
        show s1.nextVar ≤ _
        simp only [hb, Array.size_append, List.size_toArray, List.length_cons, le32_length]
        have : (afterInstr s op.setGlobalVar []).nextVar = s.nextVar := rfl
        omega⟩
    exact ⟨this.1, this.2, trivial⟩
macro_rules | `(tactic| tr_prim) => `(tactic| with_reducible exact setGlobalTail_tr _)
macro_rules | `(tactic| tr_prim) => `(tactic| with_reducible exact readGlobal_tr _)

/-- `pushInstr o; pushStr str` for a string instruction `o` -/
theorem strInstr_tr {k : Nat} {K : Nat → Prop} {o : UInt8} (ho : isStr o = true) (str : String) :
    Tr k K (fun _ => True) (pushInstr o >>= fun _ => pushStr str) := by
  constructor
  intro H s a s' hr hk hI hK
  unfold pushStr at hr
  rw [pushInstr_bind_run, get_bind_run, emitU32_bind_run, modify_run] at hr
  simp only [Except.ok.injEq, Prod.mk.injEq] at hr
  obtain ⟨_, rfl⟩ := hr
  have hsp : Gen.spanOf o = some ((le32 (UInt32.ofNat s.data.size)).length + 1) := by
    rw [le32_length]
    simp only [isStr, Bool.or_eq_true, beq_iff_eq] at ho
    rcases ho with ho | ho <;> subst ho <;> decide
  have := unit_step (k := k) (H := H) (s := s) (o := o) (bs := le32 (UInt32.ofNat s.data.size))
    (s' := { afterInstr s o [] with
      bytecode := (afterInstr s o []).bytecode ++ (le32 (UInt32.ofNat (afterInstr s o []).data.size)).toArray,
      data := (le32 (UInt32.ofNat str.toUTF8.toList.length) ++ str.toUTF8.toList).foldl (fun a b => a.push b)
        (afterInstr s o []).data })
    hI hk (by simp [afterInstr]) rfl rfl rfl ⟨_, foldl_push_eq _ _⟩ (Nat.le_refl _) hsp
    (fun ht => .mk_str ho ht ⟨str, s.data.toList, [], by
      show (List.foldl _ s.data _).toList = _
      rw [foldl_push_eq]; simp, by simp⟩)
    (hI.aux.of_eq rfl rfl rfl rfl rfl (by simp [afterInstr]))
  exact ⟨this.1, this.2, trivial⟩

/-- `pushInstr functionPointer; encodeJump name` -/
theorem fnpInstr_tr {k : Nat} {K : Nat → Prop} (name : String) :
    Tr k K (fun _ => True) (pushInstr op.functionPointer >>= fun _ => encodeJump name) := by
  constructor
  intro H s a s' hr hk hI hK
  unfold encodeJump at hr
  rw [pushInstr_bind_run] at hr
  obtain ⟨r, s1, h1, h2⟩ := bind_ok.1 hr
  obtain ⟨rfl, e, he, hre⟩ := (resolveFunction_ro name _).run r s1 h1
  obtain ⟨h, arity⟩ := r
  simp only at h2
  rw [emitBytes_bind_run, emitBytes_run] at h2
  simp only [Except.ok.injEq, Prod.mk.injEq] at h2
  obtain ⟨_, rfl⟩ := h2
  have := unit_step (k := k) (H := H) (s := s) (o := op.functionPointer) (bs := le32 h ++ le32 arity)
    (s' := { afterInstr s op.functionPointer [] with
      bytecode := (afterInstr s op.functionPointer []).bytecode ++ (le32 h).toArray ++ (le32 arity).toArray })
    hI hk (by simp [afterInstr]) rfl rfl rfl ⟨#[], by simp [afterInstr]⟩ (Nat.le_refl _)
    (by rw [List.length_append, le32_length, le32_length]; decide)
    (fun ht => .mk_fnp ht ⟨e, he, by rw [List.take_left' (le32_length h), hre]⟩)
    (hI.aux.of_eq rfl rfl rfl rfl rfl (by simp [afterInstr]))
  exact ⟨this.1, this.2, trivial⟩


/-! ## locals and upvalues -/

/-- the invariant-relevant state without `locals` / `upvalues` -/
def core3 (s : CState) :=
  (s.bytecode, s.data, s.labels, s.trace, s.varIds, s.varNames, s.nextVar, s.jumpTable)

theorem _root_.Cao.Compiler.Inv.set_loc {H : Nat → Prop} {s s' : CState} (hI : Inv H s) (hc : core3 s' = core3 s)
    (hl : LocOK s') : Inv H s' := by
  simp only [core3, Prod.mk.injEq] at hc
  obtain ⟨h1, h2, h3, h4, h5, h6, h7, h8⟩ := hc
  refine hI.tables h1 (Grow.of_eq h1 h2 h3 h4 h5 h8) (fun l hl => .inl (by rw [← h3]; exact hl))
    (fun t ht => by rw [← h4]; exact ht) ⟨hl.locals, hl.upvalues, ?_, ?_, ?_, ?_, ?_⟩
  · rw [h5, h7]; exact hI.aux.ids
  · rw [h5]; exact hI.aux.nodup
  · rw [h6, h7]; exact hI.aux.names
  · rw [h6, h7]; exact hI.aux.namesEq
  · rw [h7, h1]; exact hI.aux.nv

theorem tr_modify_loc {k : Nat} {K : Nat → Prop} {f : CState → CState} (hc : ∀ s, core3 (f s) = core3 s)
    (hl : ∀ s, LocOK s → LocOK (f s)) : Tr k K (fun _ => True) (modify f : CM Unit) := by
  constructor
  intro H s a s' hr hk hI _
  simp only [modify_run, Except.ok.injEq, Prod.mk.injEq] at hr
  obtain ⟨_, rfl⟩ := hr
  have hc' := hc s
  simp only [core3, Prod.mk.injEq] at hc'
  exact ⟨⟨Ext.of_eq hc'.1 hc'.2.2.2.1, ⟨[], by simp [hc'.2.2.1]⟩, hc'.2.2.2.2.2.2.2⟩,
    hI.set_loc (hc s) (hl s ⟨hI.aux.locals, hI.aux.upvalues⟩), trivial⟩

theorem mem_getD_or {α : Type} (l : List α) (i : Nat) (d : α) : l.getD i d ∈ l ∨ l.getD i d = d := by
  rw [List.getD_eq_getElem?_getD]
  cases h : l[i]? with
  | none => exact .inr rfl
  | some x => exact .inl (List.mem_of_getElem? h)

theorem LocOK.getD_locals {s : CState} (h : LocOK s) (i : Nat) : (s.locals.getD i []).length ≤ 255 := by
  rcases mem_getD_or s.locals i [] with h1 | h1
  · exact h.locals _ h1
  · rw [h1]; exact Nat.zero_le _

theorem LocOK.getD_upvalues {s : CState} (h : LocOK s) (i : Nat) : (s.upvalues.getD i []).length ≤ 255 := by
  rcases mem_getD_or s.upvalues i [] with h1 | h1
  · exact h.upvalues _ h1
  · rw [h1]; exact Nat.zero_le _

theorem addLocalUnchecked_tr {k : Nat} {K : Nat → Prop} (n : String) :
    Tr k K (fun i => i < 255) (addLocalUnchecked n) := by
  unfold addLocalUnchecked
  apply tr_get_bind; intro st hk hloc; dsimp only
  apply tr_ite
  · intro _; exact tr_fail_bind
  · intro hlt
    refine tr_bind (tr_modify_loc (fun _ => rfl) ?_) fun _ _ => tr_pure (by omega)
    intro s hs
    refine ⟨?_, hs.upvalues⟩
    intro ls hls
    simp only [List.mem_append, List.mem_singleton] at hls
    rcases hls with hls | rfl
    · exact hs.locals ls (List.dropLast_subset _ hls)
    · simp only [List.length_append, List.length_cons, List.length_nil]; omega
macro_rules | `(tactic| tr_prim) => `(tactic| with_reducible exact addLocalUnchecked_tr _)

theorem addLocal_tr {k : Nat} {K : Nat → Prop} (n : String) : Tr k K (fun i => i < 255) (addLocal n) := by
  unfold addLocal; tr
macro_rules | `(tactic| tr_prim) => `(tactic| with_reducible exact addLocal_tr _)

theorem addLocals_tr {k : Nat} {K : Nat → Prop} : ∀ ps, Tr k K (fun _ => True) (addLocals ps)
  | [] => by unfold addLocals; tr
  | p :: ps => by
    have ih := addLocals_tr (k := k) (K := K) ps
    unfold addLocals; tr
macro_rules | `(tactic| tr_prim) => `(tactic| with_reducible exact addLocals_tr _)

theorem addUpvalue_tr {k : Nat} {K : Nat → Prop} (index : UInt8) (isLocal : Bool) (fid : Nat) :
    Tr k K (fun i => i < 255) (addUpvalue index isLocal fid) := by
  unfold addUpvalue
  apply tr_get_bind; intro st hk hloc; dsimp only
  split
  · rename_i i hi
    have := (List.findIdx?_eq_some_iff_findIdx_eq.1 hi).1
    have := hloc.getD_upvalues fid
    exact tr_pure (by omega)
  · apply tr_ite
    · intro _; exact tr_fail_bind
    · intro hlt
      refine tr_bind (tr_modify_loc (fun _ => rfl) ?_) fun _ _ => tr_pure (by omega)
      intro s hs
      refine ⟨hs.locals, ?_⟩
      intro us hus
      rcases List.mem_or_eq_of_mem_set hus with h | rfl
      · exact hs.upvalues us h
      · simp only [List.length_append, List.length_cons, List.length_nil]; omega
macro_rules | `(tactic| tr_prim) => `(tactic| with_reducible exact addUpvalue_tr _ _ _)

/-- results of variable resolution are in range -/
def VarOK : Variable → Prop
  | .global => True
  | .local_ i => i < 255
  | .upvalue i => i < 255

theorem resolveUpvalue_tr {k : Nat} {K : Nat → Prop} (n : String) :
    ∀ fid, Tr k K VarOK (resolveUpvalue n fid)
  | 0 => by unfold resolveUpvalue; exact tr_pure trivial
  | fid+1 => by
    have ih := resolveUpvalue_tr (k := k) (K := K) n fid
    unfold resolveUpvalue
    apply tr_get_bind; intro st hk hloc; dsimp only
    split
    · rename_i i hi
      refine tr_bind (tr_modify_loc (fun _ => rfl) ?_) fun _ _ =>
        tr_bind (addUpvalue_tr _ _ _) fun u hu => tr_pure hu
      intro s hs
      refine ⟨?_, hs.upvalues⟩
      intro ls hls
      rcases List.mem_or_eq_of_mem_set hls with h | rfl
      · exact hs.locals ls h
      · rw [List.length_set]; exact hloc.getD_locals fid
    · refine tr_bind (resolveUpvalue_tr n fid) fun v hv => ?_
      split
      · exact tr_bind (addUpvalue_tr _ _ _) fun u hu => tr_pure hu
      · exact tr_pure hv
macro_rules | `(tactic| tr_prim) => `(tactic| with_reducible exact resolveUpvalue_tr _ _)

theorem resolveVar_tr {k : Nat} {K : Nat → Prop} (n : String) : Tr k K VarOK (resolveVar n) := by
  unfold resolveVar
  refine tr_bind (validateVarName_tr n) fun _ _ => ?_
  apply tr_get_bind; intro st hk hloc; dsimp only
  split
  · rename_i i hi
    have h1 := List.mem_of_find?_eq_some hi
    simp only [List.mem_reverse, List.mem_range] at h1
    have := hloc.getD_locals st.functionId
    exact tr_pure (show i < 255 by omega)
  · exact resolveUpvalue_tr _ _
macro_rules | `(tactic| tr_prim) => `(tactic| with_reducible exact resolveVar_tr _)


/-! ## labels, raw bytes -/

theorem insertLabel_tr {k : Nat} {K : Nat → Prop} (h : UInt32) {pos : Nat} (hK : K pos) :
    Tr k K (fun _ => True) (insertLabel h pos) := by
  constructor
  intro H s a s' hr hk hI hKF
  unfold insertLabel at hr
  split at hr
  · rw [throw_bind_run] at hr; cases hr
  · simp only [modify_run, Except.ok.injEq, Prod.mk.injEq] at hr
    obtain ⟨_, rfl⟩ := hr
    have := hKF pos hK
    exact ⟨⟨Ext.of_eq rfl rfl, ⟨[(h, pos)], rfl⟩, rfl⟩, hI.label h this.2 (Nat.le_trans this.1 hk), trivial⟩

theorem cardLabel_tr {k : Nat} {K : Nat → Prop} : Tr k K (fun _ => True) cardLabel := by
  unfold cardLabel
  apply tr_get_bind; intro st _ _
  exact insertLabel_tr _ (Or.inr rfl)
macro_rules | `(tactic| tr_prim) => `(tactic| with_reducible exact cardLabel_tr)

theorem raw_tr {k : Nat} {K : Nat → Prop} {bytes : List UInt8}
    (h : ∀ b ∈ bytes, b = op.pop ∨ b = op.closeUpvalue) : Tr k K (fun _ => True) (emitBytes bytes) := by
  constructor
  intro H s a s' hr hk hI _
  rw [emitBytes_run] at hr
  simp only [Except.ok.injEq, Prod.mk.injEq] at hr
  obtain ⟨_, rfl⟩ := hr
  exact ⟨Rel.of_append hk rfl ⟨[], by simp, by simp⟩ rfl rfl, Inv.raw bytes s hI h, trivial⟩

theorem scopeEnd_tr {k : Nat} {K : Nat → Prop} : Tr k K (fun _ => True) scopeEnd := by
  unfold scopeEnd
  refine tr_bind (tr_modify_other fun _ => rfl) fun _ _ => ?_
  apply tr_get_bind; intro st hk hloc; dsimp only
  refine tr_bind (tr_modify_loc (fun _ => rfl) ?_) fun _ _ => raw_tr ?_
  · intro s hs
    refine ⟨?_, hs.upvalues⟩
    intro ls hls
    rcases List.mem_or_eq_of_mem_set hls with h | rfl
    · exact hs.locals ls h
    · rw [List.length_reverse]
      have h1 := (List.dropWhile_sublist (l := (st.locals.getD st.functionId []).reverse)
        (fun l => decide (l.depth > curDepth st))).length_le
      rw [List.length_reverse] at h1
      exact Nat.le_trans h1 (hloc.getD_locals _)
  · intro b hb
    obtain ⟨l, _, rfl⟩ := List.mem_map.1 hb
    split
    · exact .inr rfl
    · exact .inl rfl
macro_rules | `(tactic| tr_prim) => `(tactic| with_reducible exact scopeEnd_tr)

/-! ## compound rules: an instruction unit followed by more code -/

theorem tr_unit_bind {β : Type} {k : Nat} {K : Nat → Prop} {Q : β → Prop} {m : CM Unit} {f : Unit → CM Unit}
    {g : Unit → CM β} (hu : Tr k K (fun _ => True) (m >>= f)) (hg : Tr k K Q (g ())) :
    Tr k K Q (m >>= fun a => f a >>= g) :=
  tr_assoc (tr_bind hu fun _ _ => hg)

theorem simple_unOp (u : UnKind) : Gen.spanOf (unOp u) = some 1 ∧ constrained (unOp u) = false := by
  cases u <;> decide

theorem simple_binOp (b : BinKind) : Gen.spanOf (binOp b) = some 1 ∧ constrained (binOp b) = false := by
  cases b <;> decide

theorem le64_length (x : UInt64) : (le64 x).length = 8 := by simp [le64, Hash.le64]

macro_rules | `(tactic| tr_prim) => `(tactic| with_reducible exact instr0_tr (by decide) (by decide))
macro_rules | `(tactic| tr_prim) => `(tactic| with_reducible exact instr0_tr (simple_unOp _).1 (simple_unOp _).2)
macro_rules | `(tactic| tr_prim) => `(tactic| with_reducible exact instr0_tr (simple_binOp _).1 (simple_binOp _).2)
macro_rules | `(tactic| tr_prim) => `(tactic| with_reducible exact instrJump_tr (by decide) (by kfact))
macro_rules | `(tactic| tr_prim) => `(tactic| with_reducible exact strInstr_tr (by decide) _)
macro_rules | `(tactic| tr_prim) => `(tactic| with_reducible exact fnpInstr_tr _)
macro_rules | `(tactic| tr_prim) => `(tactic| with_reducible exact instrP_tr (by first | (rw [le64_length]; decide) | (rw [le32_length]; decide)) (by decide))
macro_rules | `(tactic| tr_prim) => `(tactic| with_reducible apply tr_unit_bind (strInstr_tr (by decide) _))
macro_rules | `(tactic| tr_prim) => `(tactic| with_reducible apply tr_unit_bind (fnpInstr_tr _))

theorem scalarIntCode_tr {k : Nat} {K : Nat → Prop} (i : Int64) : Tr k K (fun _ => True) (scalarIntCode i) := by
  unfold scalarIntCode; tr
macro_rules | `(tactic| tr_prim) => `(tactic| with_reducible exact scalarIntCode_tr _)

theorem processScalarInt_tr {k : Nat} {K : Nat → Prop} (i : Int64) :
    Tr k K (fun _ => True) (processScalarInt i) := by
  unfold processScalarInt; tr
macro_rules | `(tactic| tr_prim) => `(tactic| with_reducible exact processScalarInt_tr _)

theorem readProps_tr {k : Nat} {K : Nat → Prop} : ∀ ps, Tr k K (fun _ => True) (readProps ps)
  | [] => by unfold readProps; tr
  | p :: ps => by
    have ih := readProps_tr (k := k) (K := K) ps
    unfold readProps; tr
macro_rules | `(tactic| tr_prim) => `(tactic| with_reducible exact readProps_tr _)

theorem bindLoopVar_tr {k : Nat} {K : Nat → Prop} (n : Option String) {src : Nat} (h : src < 255) :
    Tr k K (fun _ => True) (bindLoopVar n src) := by
  unfold bindLoopVar; tr
macro_rules | `(tactic| tr_prim) => `(tactic| with_reducible exact bindLoopVar_tr _ (by assumption))


/-! ## holes and back-patching -/

theorem _root_.Cao.Compiler.Ext.keep {k : Nat} {s s' : CState} (h : Ext k s s') {p : Nat} (hp : p < k) :
    s'.bytecode.getD p 0 = s.bytecode.getD p 0 := getD_of_getElem? (h.pref p hp)

theorem _root_.Cao.Compiler.Ext.keepStart {k : Nat} {s s' : CState} (h : Ext k s s') {t : Nat} (ht : t ≤ k)
    (hs : Start s.bytecode t) : Start s'.bytecode t :=
  hs.congr fun i _ hi => h.keep (by omega)

/-- a complete 5-byte jump instruction `o` sits at the instruction start `p` -/
structure JumpAt (s : CState) (p : Nat) (o : UInt8) : Prop where
  start : Start s.bytecode p
  le : p + 5 ≤ s.bytecode.size
  op : s.bytecode.getD p 0 = o

theorem JumpAt.ext {k : Nat} {s s' : CState} {p : Nat} {o : UInt8} (h : JumpAt s p o) (he : Ext k s s')
    (hp : p < k) : JumpAt s' p o :=
  ⟨he.keepStart (by omega) h.start, Nat.le_trans h.le he.size_le, by rw [he.keep hp]; exact h.op⟩

/-- the state after `pushInstr o; emitU32 x` -/
def afterJump (s : CState) (o : UInt8) (x : Nat) : CState :=
  { afterInstr s o [] with
    bytecode := (afterInstr s o []).bytecode ++ (le32 (UInt32.ofNat x)).toArray }

/-- emitting a jump with a placeholder operand opens a hole at its position -/
theorem hole_step {H : Nat → Prop} {k : Nat} {s : CState} {o : UInt8} (x : Nat) (hI : Inv H s)
    (hk : k ≤ s.bytecode.size) (ho : isJump o = true) :
    Rel k s (afterJump s o x) ∧ Inv (fun q => H q ∨ q = s.bytecode.size) (afterJump s o x) ∧
    (afterJump s o x).bytecode.size = s.bytecode.size + 5 ∧
    JumpAt (afterJump s o x) s.bytecode.size o := by
  have hb : (afterJump s o x).bytecode = s.bytecode ++ (o :: le32 (UInt32.ofNat x)).toArray := by
    simp [afterJump, afterInstr]
  have hsp : Gen.spanOf o = some ((le32 (UInt32.ofNat x)).length + 1) := by
    rw [le32_length]; exact isJump_span ho
  have h := unit_step (k := k) (s' := afterJump s o x) (o := o) (bs := le32 (UInt32.ofNat x))
    (hI.weaken (H' := fun q => H q ∨ q = s.bytecode.size) fun q hq => .inl hq) hk hb rfl rfl rfl
    ⟨#[], by simp [afterJump, afterInstr]⟩ (Nat.le_refl _) hsp
    (fun ht => .mk_jump ho ht (.inl (.inr rfl)))
    (hI.aux.of_eq rfl rfl rfl rfl rfl (by rw [hb]; simp))
  have hsz : (afterJump s o x).bytecode.size = s.bytecode.size + 5 := by rw [hb]; simp [le32_length]
  refine ⟨h.1, h.2, hsz, ?_, by omega, ?_⟩
  · exact hI.tiled.congr fun i _ hi => by rw [hb]; exact getD_append_left hi
  · rw [hb, getD_append_right (Nat.le_refl _), Nat.sub_self, getD_toArray]; rfl

/-- back-patching the jump at `p` with the valid target `v` closes the hole at `p`; other jumps stay -/
theorem patch_step {H H' : Nat → Prop} {k p v : Nat} {s s' : CState} {u : Unit} {o : UInt8} (hI : Inv H' s)
    (hr : patchI32 (p + 1) v s = .ok (u, s')) (hk : k ≤ p + 1)
    (hp : JumpAt s p o) (hj : isJump o = true) (hv : Start s.bytecode v) (hvle : v ≤ s.bytecode.size)
    (hH : ∀ q, H' q → H q ∨ q = p) :
    Rel k s s' ∧ Inv H s' ∧ s'.bytecode.size = s.bytecode.size ∧
    ∀ q o', q ≠ p → JumpAt s q o' → JumpAt s' q o' := by
  have hm := (patchI32_mono (k := k) v hk).run s u s' hr (by have := hp.le; omega)
  unfold patchI32 at hr
  simp only [modify_run, Except.ok.injEq, Prod.mk.injEq] at hr
  obtain ⟨_, rfl⟩ := hr
  obtain ⟨h1, _⟩ := patch_bytes (p + 1) (le32 (UInt32.ofNat v)) s.bytecode
  have hg := fun i => patch_getD (p + 1) (le32 (UInt32.ofNat v)) s.bytecode (by have := hp.le; omega) i
  refine ⟨⟨hm.1, ⟨[], by simp⟩, rfl⟩, hI.patch hp.start hp.le (by rw [hp.op]; exact hj) h1 hg hv hvle hH, h1, ?_⟩
  intro q o' hq hjq
  have hsp := isJump_span (by rw [hp.op]; exact hj : isJump (s.bytecode.getD p 0) = true)
  refine ⟨?_, by show q + 5 ≤ Array.size _; rw [h1]; exact hjq.le, ?_⟩
  · refine hjq.start.congr_starts fun t ht hlt => ?_
    show Array.getD _ t 0 = _
    rw [hg, if_neg]
    intro hc
    have := hp.start.no_overlap ht (by omega) hsp
    omega
  · show Array.getD _ q 0 = _
    rw [hg, if_neg]
    · exact hjq.op
    · intro hc
      have := hp.start.no_overlap hjq.start (by omega) hsp
      omega

theorem encodeIfThen_tr {k : Nat} {K : Nat → Prop} {skip : UInt8} (hs : isJump skip = true) {m : CM Unit}
    (hm : ∀ k', k ≤ k' → Tr k' K (fun _ => True) m) : Tr k K (fun _ => True) (encodeIfThen skip m) := by
  constructor
  intro H s a s' hr hk hI hK
  unfold encodeIfThen at hr
  rw [pushInstr_bind_run, get_bind_run, emitU32_bind_run] at hr
  obtain ⟨_, s3, h1, h2⟩ := bind_ok.1 hr
  rw [get_bind_run] at h2
  obtain ⟨r2, i2, z2, j2⟩ := hole_step 0 hI hk hs
  change m (afterJump s skip 0) = _ at h1
  obtain ⟨r3, i3, _⟩ := (hm (afterJump s skip 0).bytecode.size (by omega)).run _ _ _ _ h1 (Nat.le_refl _) i2
    ((hK.ext r2.ext).mono (by omega))
  have e1 : (afterInstr s skip []).bytecode.size = s.bytecode.size + 1 := by simp [afterInstr]
  rw [e1] at h2
  obtain ⟨r4, i4, _⟩ := patch_step (H := H) (k := k) i3 h2 (by omega) (j2.ext r3.ext (by omega)) hs
    i3.tiled (Nat.le_refl _) (fun q hq => hq)
  exact ⟨(r2.trans (r3.weaken (by omega))).trans r4, i4, trivial⟩

/-! ## the combinators of `processCard` -/

macro_rules | `(tactic| tr_prim) => `(tactic| with_reducible apply encodeIfThen_tr (by decide))

theorem emitBytes_append_bind {β : Type} (a b : List UInt8) (g : Unit → CM β) :
    (emitBytes a >>= fun _ => emitBytes b >>= g) = (emitBytes (a ++ b) >>= g) := by
  funext s
  rw [emitBytes_bind_run, emitBytes_bind_run, emitBytes_bind_run]
  congr 1
  simp

theorem eachInstr_bind_tr {β : Type} {k : Nat} {K : Nat → Prop} {Q : β → Prop} {o : UInt8} {a b c d e : Nat}
    (ho : isEach o = true) (ha : a < 255) (hb : b < 255) (hc : c < 255) (hd : d < 255) (he : e < 255)
    {g : Unit → CM β} (hg : Tr k K Q (g ())) :
    Tr k K Q (pushInstr o >>= fun _ => emitU32 a >>= fun _ => emitU32 b >>= fun _ => emitU32 c >>= fun _ =>
      emitU32 d >>= fun _ => emitU32 e >>= g) := by
  have hsp : Gen.spanOf o = some ((le32 (UInt32.ofNat a) ++ (le32 (UInt32.ofNat b) ++ (le32 (UInt32.ofNat c) ++
      (le32 (UInt32.ofNat d) ++ le32 (UInt32.ofNat e))))).length + 1) := by
    simp only [List.length_append, le32_length]
    simp only [isEach, Bool.or_eq_true, beq_iff_eq] at ho
    rcases ho with ho | ho <;> subst ho <;> decide
  have e1 : (pushInstr o >>= fun _ => emitU32 a >>= fun _ => emitU32 b >>= fun _ => emitU32 c >>= fun _ =>
      emitU32 d >>= fun _ => emitU32 e >>= g) =
      (pushInstr o >>= fun _ => emitBytes (le32 (UInt32.ofNat a) ++ (le32 (UInt32.ofNat b) ++
        (le32 (UInt32.ofNat c) ++ (le32 (UInt32.ofNat d) ++ le32 (UInt32.ofNat e))))) >>= g) := by
    simp only [emitU32, emitBytes_append_bind, List.append_assoc]
  rw [e1]
  exact tr_unit_bind (instr_tr hsp fun _ _ _ _ _ => .mk_each ho (afterInstr_trace ..) ha hb hc hd he) hg

theorem regInstr_tr {k : Nat} {K : Nat → Prop} (i : UInt8) {f : UInt8} (hf : f.toNat ≤ 1) :
    Tr k K (fun _ => True) (pushInstr op.registerUpvalue >>= fun _ => emitBytes [i, f]) :=
  instr_tr (by show Gen.spanOf op.registerUpvalue = some 3; decide) fun _ _ _ _ _ =>
    .mk_reg (afterInstr_trace ..) hf

theorem emitUpvalues_tr {k : Nat} {K : Nat → Prop} : ∀ ups, Tr k K (fun _ => True) (emitUpvalues ups)
  | [] => by unfold emitUpvalues; tr
  | (l, i) :: rest => by
    have ih := emitUpvalues_tr (k := k) (K := K) rest
    unfold emitUpvalues
    refine tr_bind (instr0_tr (by decide) (by decide)) fun _ _ => ?_
    refine tr_unit_bind (regInstr_tr i ?_) ih
    split <;> decide
macro_rules | `(tactic| tr_prim) => `(tactic| with_reducible exact emitUpvalues_tr _)

theorem compileBegin_tr {k : Nat} {K : Nat → Prop} : Tr k K (fun _ => True) compileBegin := by
  unfold compileBegin
  refine tr_modify_loc (fun _ => rfl) fun s hs => ⟨?_, ?_⟩
  · intro ls hls
    simp only [List.mem_append, List.mem_singleton] at hls
    rcases hls with h | rfl
    · exact hs.locals ls h
    · exact Nat.zero_le _
  · intro us hus
    simp only [List.mem_append, List.mem_singleton] at hus
    rcases hus with h | rfl
    · exact hs.upvalues us h
    · exact Nat.zero_le _

theorem compileEnd_tr {k : Nat} {K : Nat → Prop} : Tr k K (fun _ => True) compileEnd := by
  unfold compileEnd
  exact tr_modify_loc (fun _ => rfl) fun s hs =>
    ⟨fun ls hls => hs.locals ls (List.dropLast_subset _ hls), fun us hus => hs.upvalues us (List.dropLast_subset _ hus)⟩
macro_rules | `(tactic| tr_prim) => `(tactic| with_reducible exact compileBegin_tr)
macro_rules | `(tactic| tr_prim) => `(tactic| with_reducible exact compileEnd_tr)

theorem tr_assoc3 {α β γ δ : Type} {k : Nat} {K : Nat → Prop} {Q1 : γ → Prop} {Q : δ → Prop} {m : CM α}
    {f : α → CM β} {h : α → β → CM γ} {g : γ → CM δ}
    (hu : Tr k K Q1 (m >>= fun a => f a >>= fun b => h a b)) (hg : ∀ c, Q1 c → Tr k K Q (g c)) :
    Tr k K Q (m >>= fun a => f a >>= fun b => h a b >>= g) := by
  constructor
  intro H s d s' hr
  refine (tr_bind hu hg).run H s d s' ?_
  obtain ⟨a, s1, h1, h2⟩ := bind_ok.1 hr
  obtain ⟨b, s2, h3, h4⟩ := bind_ok.1 h2
  obtain ⟨c, s3, h5, h6⟩ := bind_ok.1 h4
  exact bind_ok.2 ⟨c, s3, bind_ok.2 ⟨a, s1, h1, bind_ok.2 ⟨b, s2, h3, h5⟩⟩, h6⟩

theorem readVarCard_tr {k : Nat} {K : Nat → Prop} (x : String) : Tr k K (fun _ => True) (readVarCard x) := by
  unfold readVarCard
  split
  all_goals
    refine tr_bind (resolveVar_tr _) fun v hv => ?_
    dsimp only
    split
    · exact tr_bind (readLocalVar_tr hv) fun _ _ => readProps_tr _
    · exact tr_bind (readUpvalue_tr hv) fun _ _ => readProps_tr _
    · exact tr_assoc3 (readGlobal_tr _) fun _ _ => readProps_tr _
macro_rules | `(tactic| tr_prim) => `(tactic| with_reducible exact readVarCard_tr _)

/-- sub-blocks: code of child cards, correct from any frozen prefix with any known starts -/
abbrev Blk (m : CM Unit) : Prop := ∀ k K, Tr k K (fun _ => True) m

theorem forEachCode_tr {k : Nat} {K : Nat → Prop} {i kk v : Option String} {it body : CM Unit}
    (h1 : Blk it) (h2 : Blk body) : Tr k K (fun _ => True) (forEachCode i kk v it body) := by
  unfold forEachCode
  refine tr_bind (withSub_tr (h1 _ _)) fun _ _ => ?_
  refine tr_bind scopeBegin_tr fun _ _ => ?_
  refine tr_bind (addLocalUnchecked_tr _) fun loopVar hv => ?_
  refine tr_bind (addLocalUnchecked_tr _) fun loopItem hi => ?_
  refine tr_bind (addLocalUnchecked_tr _) fun vIndex hvi => ?_
  refine tr_bind (addLocalUnchecked_tr _) fun kIndex hki => ?_
  refine tr_bind (addLocalUnchecked_tr _) fun iIndex hii => ?_
  refine eachInstr_bind_tr (by decide) hv hi hii hki hvi ?_
  apply tr_get_bind; intro st _ _; dsimp only
  refine eachInstr_bind_tr (by decide) hv hi hii hki hvi ?_
  tr

theorem whileCode_tr {k : Nat} {K : Nat → Prop} {c b : CM Unit} (h1 : Blk c) (h2 : Blk b) :
    Tr k K (fun _ => True) (whileCode c b) := by
  unfold whileCode; tr

theorem repeatCode_tr {k : Nat} {K : Nat → Prop} {i : Option String} {n b : CM Unit} (h1 : Blk n) (h2 : Blk b) :
    Tr k K (fun _ => True) (repeatCode i n b) := by
  unfold repeatCode; tr

theorem setVarTarget_tr {k : Nat} {K : Nat → Prop} (n : String) : Tr k K (fun _ => True) (setVarTarget n) := by
  unfold setVarTarget
  split
  · refine tr_bind (resolveVar_tr _) fun v hv => ?_
    split
    · exact writeLocalVar_tr hv
    · tr
    · exact writeUpvalue_tr hv
  · refine tr_bind (resolveVar_tr _) fun v hv => ?_
    split
    · exact writeLocalVar_tr hv
    · tr
    · exact writeUpvalue_tr hv
  · tr
macro_rules | `(tactic| tr_prim) => `(tactic| with_reducible exact setVarTarget_tr _)

theorem setVarCode_tr {k : Nat} {K : Nat → Prop} {n : String} {v : CM Unit} (h : Blk v) :
    Tr k K (fun _ => True) (setVarCode n v) := by
  unfold setVarCode; tr

theorem setGlobalVarCode_tr {k : Nat} {K : Nat → Prop} {n : String} {v : CM Unit} (h : Blk v) :
    Tr k K (fun _ => True) (setGlobalVarCode n v) := by
  rw [setGlobalVarCode_eq]; tr

theorem ifCode_tr {k : Nat} {K : Nat → Prop} {skip : UInt8} (hs : isJump skip = true) {c b : CM Unit}
    (h1 : Blk c) (h2 : Blk b) : Tr k K (fun _ => True) (ifCode skip c b) := by
  unfold ifCode
  refine tr_bind (withSub_tr (h1 _ _)) fun _ _ => tr_bind (pushSub_tr _) fun _ _ =>
    tr_bind (encodeIfThen_tr hs fun k' _ => h2 _ _) fun _ _ => popSub_tr

theorem callCode_tr {k : Nat} {K : Nat → Prop} {n : String} {a : CM Unit} (h : Blk a) :
    Tr k K (fun _ => True) (callCode n a) := by
  unfold callCode; tr

theorem callNativeCode_tr {k : Nat} {K : Nat → Prop} {n : String} {a : CM Unit} (h : Blk a) :
    Tr k K (fun _ => True) (callNativeCode n a) := by
  unfold callNativeCode; tr

theorem arrayCode_tr {k : Nat} {K : Nat → Prop} {items : Nat → CM Unit} (h : ∀ tv, tv < 255 → Blk (items tv)) :
    Tr k K (fun _ => True) (arrayCode items) := by
  unfold arrayCode
  exact tr_bind (instr0_tr (by decide) (by decide)) fun _ _ => tr_bind (addLocalUnchecked_tr _) fun tv htv =>
    tr_bind (writeLocalVar_tr htv) fun _ _ => tr_bind (h tv htv _ _) fun _ _ => readLocalVar_tr htv

theorem unCode_tr {k : Nat} {K : Nat → Prop} {u : UnKind} {c : CM Unit} (h : Blk c) :
    Tr k K (fun _ => True) (unCode u c) := by
  unfold unCode; tr

theorem binCode_tr {k : Nat} {K : Nat → Prop} {bk : BinKind} {a b : CM Unit} (h1 : Blk a) (h2 : Blk b) :
    Tr k K (fun _ => True) (binCode bk a b) := by
  unfold binCode
  split
  · exact whileCode_tr h1 h2
  · exact ifCode_tr (by decide) h1 h2
  · exact ifCode_tr (by decide) h1 h2
  · tr

theorem dynamicCallCode_tr {k : Nat} {K : Nat → Prop} {a f : CM Unit} (h1 : Blk a) (h2 : Blk f) :
    Tr k K (fun _ => True) (dynamicCallCode a f) := by
  unfold dynamicCallCode; tr


theorem afterInstr_size (s : CState) (o : UInt8) : (afterInstr s o []).bytecode.size = s.bytecode.size + 1 := by
  simp [afterInstr]

theorem ifElseCode_tr {k : Nat} {K : Nat → Prop} {c t e : CM Unit} (hc : Blk c) (ht : Blk t) (he : Blk e) :
    Tr k K (fun _ => True) (ifElseCode c t e) := by
  constructor
  intro H s a s' hr hk hI hK
  unfold ifElseCode encodeIfThenRet at hr
  obtain ⟨_, s1, h1, h2⟩ := bind_ok.1 hr
  obtain ⟨_, s1', h1', h2⟩ := bind_ok.1 h2
  obtain ⟨idx, s5, h3, h4⟩ := bind_ok.1 h2
  rw [pushInstr_bind_run, get_bind_run, emitU32_bind_run] at h3
  obtain ⟨r, s4, h5, h6⟩ := bind_ok.1 h3
  obtain ⟨_, s3, h7, h8⟩ := bind_ok.1 h5
  rw [pushInstr_bind_run, get_bind_run, emitU32_bind_run, pure_run] at h8
  rw [get_bind_run] at h6
  obtain ⟨_, s5a, h9, h10⟩ := bind_ok.1 h6
  obtain ⟨_, s5', h11, h12⟩ := bind_ok.1 h4
  obtain ⟨_, s6, h13, h14⟩ := bind_ok.1 h12
  rw [get_bind_run] at h14
  -- condition
  obtain ⟨r1, i1, _⟩ := (withSub_tr (hc k K)).run H _ _ _ h1 hk hI hK
  have k1 := Nat.le_trans hk r1.ext.size_le
  obtain ⟨r1', i1', _⟩ := (pushSub_tr (k := k) (K := K) 1).run H _ _ _ h1' k1 i1 (hK.ext r1.ext)
  have k1' := Nat.le_trans k1 r1'.ext.size_le
  have K1' := (hK.ext r1.ext).ext r1'.ext
  -- conditional jump with a hole
  obtain ⟨r2, i2, z2, j2⟩ := hole_step 0 i1' k1' (by decide : isJump op.gotoIfFalse = true)
  change t (afterJump s1' op.gotoIfFalse 0) = _ at h7
  obtain ⟨r3, i3, _⟩ := (ht (afterJump s1' op.gotoIfFalse 0).bytecode.size K).run _ _ _ _ h7 (Nat.le_refl _) i2
    ((K1'.ext r2.ext).mono (by omega))
  have z3 := r3.ext.size_le
  -- the jump over the else branch, with a hole
  simp only [Except.ok.injEq, Prod.mk.injEq] at h8
  obtain ⟨rfl, rfl⟩ := h8
  obtain ⟨r4, i4, z4, j4⟩ := hole_step (k := s3.bytecode.size) 0xEEF i3 (Nat.le_refl _)
    (by decide : isJump op.goto = true)
  change Inv _ (afterJump s3 op.goto 0xEEF) at i4
  -- patch the conditional jump
  rw [afterInstr_size] at h9
  have j2' : JumpAt (afterJump s3 op.goto 0xEEF) s1'.bytecode.size op.gotoIfFalse :=
    (j2.ext r3.ext (by omega)).ext r4.ext (by omega)
  obtain ⟨r5, i5, z5, keep5⟩ := patch_step (H := fun q => H q ∨ q = s3.bytecode.size) (k := k) i4 h9 (by omega)
    j2' (by decide) i4.tiled (Nat.le_refl _) (by
      intro q hq
      rcases hq with (hq | hq) | hq
      · exact .inl (.inl hq)
      · exact .inr hq
      · exact .inl (.inr hq))
  simp only [pure_run, Except.ok.injEq, Prod.mk.injEq] at h10
  obtain ⟨rfl, rfl⟩ := h10
  have j5 : JumpAt s5a s3.bytecode.size op.goto := keep5 _ _ (by omega) j4
  -- else branch
  have rel5 : Rel k s s5a :=
    (((r1.trans r1').trans r2).trans (r3.weaken (by omega))).trans ((r4.weaken (by omega)).trans r5)
  have k5 := Nat.le_trans hk rel5.ext.size_le
  obtain ⟨r5', i5', _⟩ := (popSub_tr (k := s5a.bytecode.size) (K := K)).run _ _ _ _ h11 (Nat.le_refl _) i5
    ((hK.ext rel5.ext).mono k5)
  have e5' : s5'.bytecode.size = s5a.bytecode.size := by
    unfold popSub at h11
    simp only [modify_run, Except.ok.injEq, Prod.mk.injEq] at h11
    obtain ⟨_, rfl⟩ := h11
    rfl
  obtain ⟨r6, i6, _⟩ := (withSub_tr (he s5a.bytecode.size K)).run _ _ _ _ h13 (by omega) i5'
    (((hK.ext rel5.ext).mono k5).ext r5'.ext)
  -- patch the jump over the else branch
  rw [afterInstr_size] at h14
  have j6 : JumpAt s6 s3.bytecode.size op.goto := (j5.ext r5'.ext (by have := j5.le; omega)).ext r6.ext
    (by have := j5.le; omega)
  obtain ⟨r7, i7, _⟩ := patch_step (H := H) (k := k) i6 h14 (by omega) j6 (by decide) i6.tiled (Nat.le_refl _)
    (fun q hq => hq)
  exact ⟨(rel5.trans ((r5'.trans r6).weaken k5)).trans r7, i7, trivial⟩

theorem triCode_tr {k : Nat} {K : Nat → Prop} {tk : TriKind} {a b c : CM Unit} (h1 : Blk a) (h2 : Blk b)
    (h3 : Blk c) : Tr k K (fun _ => True) (triCode tk a b c) := by
  unfold triCode
  split
  · exact ifElseCode_tr h1 h2 h3
  · tr


/-! ## stepping through a `do` block by hand -/

structure Pre (k : Nat) (K : Nat → Prop) (H : Nat → Prop) (s : CState) : Prop where
  hk : k ≤ s.bytecode.size
  inv : Inv H s
  kf : KF K k s

theorem Pre.rel {k : Nat} {K H : Nat → Prop} {s s' : CState} (hp : Pre k K H s) (hr : Rel k s s')
    (hi : Inv H s') : Pre k K H s' :=
  ⟨Nat.le_trans hp.hk hr.ext.size_le, hi, hp.kf.ext hr.ext⟩

theorem Tr.step {α β : Type} {k : Nat} {K H : Nat → Prop} {Q : α → Prop} {m : CM α} {f : α → CM β}
    {s s'' : CState} {b : β} (hm : Tr k K Q m) (hp : Pre k K H s) (hr : (m >>= f) s = .ok (b, s'')) :
    ∃ a s', Rel k s s' ∧ Pre k K H s' ∧ Q a ∧ f a s' = .ok (b, s'') := by
  obtain ⟨a, s', h1, h2⟩ := bind_ok.1 hr
  obtain ⟨r, i, q⟩ := hm.run H s a s' h1 hp.hk hp.inv hp.kf
  exact ⟨a, s', r, hp.rel r i, q, h2⟩

theorem Tr.last {α : Type} {k : Nat} {K H : Nat → Prop} {Q : α → Prop} {m : CM α}
    {s s' : CState} {a : α} (hm : Tr k K Q m) (hp : Pre k K H s) (hr : m s = .ok (a, s')) :
    Rel k s s' ∧ Pre k K H s' ∧ Q a := by
  obtain ⟨r, i, q⟩ := hm.run H s a s' hr hp.hk hp.inv hp.kf
  exact ⟨r, hp.rel r i, q⟩

theorem insertLabel_ok {h : UInt32} {pos : Nat} {s s' : CState} {u : Unit}
    (hr : insertLabel h pos s = .ok (u, s')) : s' = { s with labels := s.labels ++ [(h, pos)] } := by
  unfold insertLabel at hr
  split at hr
  · rw [throw_bind_run] at hr; cases hr
  · simp only [modify_run, Except.ok.injEq, Prod.mk.injEq] at hr
    exact hr.2.symm

theorem closInstr_bind_run {β : Type} (h : UInt32) (n : Nat) (g : Unit → CM β) (s : CState) :
    (pushInstr op.closure >>= fun _ => emitBytes (le32 h) >>= fun _ => emitU32 n >>= g) s =
      g () (afterInstr s op.closure (le32 h ++ le32 (UInt32.ofNat n))) := by
  rw [pushInstr_bind_run, emitBytes_bind_run, emitU32_bind_run]
  congr 1

theorem closureCode_tr {k : Nat} {K : Nat → Prop} {args : List String} {b : CM Unit} (hb : Blk b) :
    Tr k K (fun _ => True) (closureCode args b) := by
  constructor
  intro H s a s' hr hk hI hK
  unfold closureCode at hr
  rw [pushInstr_bind_run, get_bind_run, emitU32_bind_run] at hr
  -- the jump over the body, with a hole
  obtain ⟨r1, i1, z1, j1⟩ := hole_step (k := k) 0xEEF hI hk (by decide : isJump op.goto = true)
  have p1 : Pre (afterJump s op.goto 0xEEF).bytecode.size K (fun q => H q ∨ q = s.bytecode.size)
      (afterJump s op.goto 0xEEF) := ⟨Nat.le_refl _, i1, (hK.ext r1.ext).mono (by omega)⟩
  obtain ⟨_, s2, r2, p2, _, hr⟩ := compileBegin_tr.step p1 hr
  rw [get_bind_run] at hr
  dsimp only at hr
  -- the label of the closure body
  obtain ⟨_, s3, h3, hr⟩ := bind_ok.1 hr
  have e3 := insertLabel_ok h3
  have i3 : Inv (fun q => H q ∨ q = s.bytecode.size) s3 := by
    rw [e3]; exact p2.inv.label _ p2.inv.tiled (Nat.le_refl _)
  have r3 : Rel (afterJump s op.goto 0xEEF).bytecode.size s2 s3 := by
    rw [e3]; exact ⟨Ext.of_eq rfl rfl, ⟨[_], rfl⟩, rfl⟩
  have p3 := p2.rel r3 i3
  -- the body
  obtain ⟨_, s4, r4, p4, _, hr⟩ := scopeBegin_tr.step p3 hr
  obtain ⟨_, s5, r5, p5, _, hr⟩ := (addLocals_tr _).step p4 hr
  obtain ⟨_, s6, r6, p6, _, hr⟩ := (hb _ _).step p5 hr
  obtain ⟨_, s7, r7, p7, _, hr⟩ := scopeEnd_tr.step p6 hr
  obtain ⟨_, s8, r8, p8, _, hr⟩ := (instr0_tr (by decide) (by decide)).step p7 hr
  obtain ⟨_, s9, r9, p9, _, hr⟩ := (instr0_tr (by decide) (by decide)).step p8 hr
  have r39 : Rel (afterJump s op.goto 0xEEF).bytecode.size s3 s9 :=
    ((((r4.trans r5).trans r6).trans r7).trans r8).trans r9
  have r29 := r3.trans r39
  -- patch the jump
  rw [get_bind_run] at hr
  obtain ⟨_, s10, h10, hr⟩ := bind_ok.1 hr
  rw [afterInstr_size] at h10
  have j9 : JumpAt s9 s.bytecode.size op.goto := (j1.ext r2.ext (by omega)).ext r29.ext (by omega)
  obtain ⟨r10, i10, z10, _⟩ := patch_step (H := H) (k := k) p9.inv h10 (by omega) j9 (by decide) p9.inv.tiled
    (Nat.le_refl _) (fun q hq => hq)
  have rel10 : Rel k s s10 := (r1.trans ((r2.trans r29).weaken (by omega))).trans r10
  have k10 := Nat.le_trans hk rel10.ext.size_le
  -- the `Closure` instruction: its handle has a label
  rw [closInstr_bind_run] at hr
  obtain ⟨l39, e39⟩ := r39.labels
  obtain ⟨l10, e10⟩ := r10.labels
  have hlab : ∃ l ∈ s10.labels, l.1 = s2.fnHandle ^^^
      Hash.handleFromBytes (s2.curIndices.flatMap fun i => le32 (UInt32.ofNat i)) ^^^
      Hash.handleFromU64 closureMask := by
    refine ⟨(_, s2.bytecode.size), ?_, rfl⟩
    rw [e10, e39, e3]
    simp
  have i11 := i10.afterInstr (o := op.closure)
    (bs := le32 (s2.fnHandle ^^^ Hash.handleFromBytes (s2.curIndices.flatMap fun i => le32 (UInt32.ofNat i)) ^^^
      Hash.handleFromU64 closureMask) ++ le32 (UInt32.ofNat args.length))
    (by rw [List.length_append, le32_length, le32_length]; decide)
    (.mk_clos (afterInstr_trace ..) (by
      obtain ⟨l, hl, e⟩ := hlab
      exact ⟨l, hl, by rw [List.take_left' (le32_length _), e]⟩))
  have r11 := afterInstr_rel k10 op.closure
    (le32 (s2.fnHandle ^^^ Hash.handleFromBytes (s2.curIndices.flatMap fun i => le32 (UInt32.ofNat i)) ^^^
      Hash.handleFromU64 closureMask) ++ le32 (UInt32.ofNat args.length))
  have p11 : Pre k K H _ := (⟨k10, i10, hK.ext rel10.ext⟩ : Pre k K H s10).rel r11 i11
  -- the upvalue registrations
  rw [get_bind_run] at hr
  obtain ⟨_, s12, r12, p12, _, hr⟩ := (emitUpvalues_tr _).step p11 hr
  obtain ⟨r13, p13, _⟩ := compileEnd_tr.last p12 hr
  exact ⟨((rel10.trans r11).trans r12).trans r13, p13.inv, trivial⟩


/-! ## the mutual induction -/

macro_rules | `(tactic| tr_prim) => `(tactic| with_reducible exact (by assumption : Blk _) _ _)
macro_rules | `(tactic| tr_prim) => `(tactic| with_reducible apply forEachCode_tr)
macro_rules | `(tactic| tr_prim) => `(tactic| with_reducible apply repeatCode_tr)
macro_rules | `(tactic| tr_prim) => `(tactic| with_reducible apply setVarCode_tr)
macro_rules | `(tactic| tr_prim) => `(tactic| with_reducible apply setGlobalVarCode_tr)
macro_rules | `(tactic| tr_prim) => `(tactic| with_reducible apply callCode_tr)
macro_rules | `(tactic| tr_prim) => `(tactic| with_reducible apply callNativeCode_tr)
macro_rules | `(tactic| tr_prim) => `(tactic| with_reducible apply closureCode_tr)
macro_rules | `(tactic| tr_prim) => `(tactic| with_reducible apply unCode_tr)
macro_rules | `(tactic| tr_prim) => `(tactic| with_reducible apply binCode_tr)
macro_rules | `(tactic| tr_prim) => `(tactic| with_reducible apply triCode_tr)
macro_rules | `(tactic| tr_prim) => `(tactic| with_reducible apply dynamicCallCode_tr)

macro_rules | `(tactic| tr_prim) => `(tactic| with_reducible exact arrayCode_tr (by assumption))
macro_rules | `(tactic| tr_prim) => `(tactic| with_reducible exact (by assumption : _ < 255 → Blk _) (by assumption) _ _)

theorem processCard_tr_all :
    (∀ c, Blk (processCard c)) ∧
    (∀ tv i cs, tv < 255 → Blk (processArrayItems tv i cs)) ∧
    (∀ i cs, Blk (compileSubexprFrom i cs)) := by
  apply processCard.mutual_induct
    (motive_1 := fun c => Blk (processCard c))
    (motive_2 := fun tv i cs => tv < 255 → Blk (processArrayItems tv i cs))
    (motive_3 := fun i cs => Blk (compileSubexprFrom i cs))
  all_goals
    intros
    simp only [processCard, processArrayItems, compileSubexprFrom]
    try intro _
    tr

theorem processCard_tr (c : Card) : Blk (processCard c) := processCard_tr_all.1 c
theorem compileSubexprFrom_tr (i : Nat) (cs : List Card) : Blk (compileSubexprFrom i cs) :=
  processCard_tr_all.2.2 i cs

end Cao.Compiler.Wf
