import CaoProofs.Lemmas.SchedOpsB
/-!
# Schedule independence, all instructions: calls, returns and upvalues

The instructions that can read a value-stack slot through an open upvalue, or move the stack
pointer (`ClearStack` is in `SchedOpsA`): they need the side conditions `FrameOk` / `UpvOk`.
-/
namespace Cao.SchedFull
open Cao Cao.Vm Cao.Gc Cao.C02 Cao.C05 Cao.RunInv Cao.Native
set_option linter.unusedVariables false
set_option linter.unusedSectionVars false

/-! ## the side conditions -/

/-- the running frame does not start above the stack height -/
def FrameOk (s : VmState) : Prop := ∀ f, s.frames.getLast? = some f → f.stackOffset ≤ s.stack.count

/-- no open upvalue of the list points at or above the stack height (`Upv.UpBound` of
    `Lemmas/UpvalueLemmas.lean`) -/
def UpvOk (s : VmState) : Prop :=
  ∀ a ∈ s.openUpvalues, ∀ i, s.heap.get a = some (.upvalue (.stack i)) → i < s.stack.count

/-- the upvalue that `ReadUpvalue index` reads, if it is open, points below the stack height -/
def ReadUpvOk (index : Nat) (s : VmState) : Prop :=
  ∀ fr c hd ar ups u i, s.frames.getLast? = some fr → fr.closure = some c →
    s.heap.get c = some (.closure hd ar ups) → ups[index]? = some u →
    s.heap.get u = some (.upvalue (.stack i)) → i < s.stack.count

/-! ## callbacks and host functions -/

/-- related callbacks: called on a function value that denotes the same thing in both machines,
    they return the same value (denoting the same thing) or fail with the same error -/
def ReSim (c : Cfg) (re₁ re₂ : Reenter) : Prop :=
  ∀ (f : Val) (K : Nat → Prop) (s t : VmState), Agree c K s t → VK K f →
    W2 c (re₁ f) (re₂ f) (fun a b s' t' => b = a ∧ VRes c a s' t') s t

/-- the two-run behaviour of a host function call -/
def NatSimAt (c : Cfg) (re₁ re₂ : Reenter) (hd : UInt32) : Prop :=
  ∀ (K : Nat → Prop) (s t : VmState), Agree c K s t →
    W2 c (callNative re₁ hd) (callNative re₂ hd) (fun _ _ s' t' => Rel c s' t') s t

/-! ## the upvalue primitives -/
section upv
variable {c : Cfg} {K : Nat → Prop} {s t : VmState}

/-- overwriting an object (reachable or not) by one with the same charge whose children are in
    `K` whenever the object is -/
theorem Agree.set' (h : Agree c K s t) (a : Nat) (o' : Obj)
    (hkids : K a → (∃ o, s.heap.get a = some o) → ∀ b, Val.obj b ∈ Heap.children o' → K b)
    (hcL : ∀ o, s.heap.get a = some o → Heap.chargeOf o' = Heap.chargeOf o)
    (hcR : ∀ o, t.heap.get a = some o → Heap.chargeOf o' = Heap.chargeOf o) :
    Agree c K { s with heap := s.heap.set a o' } { t with heap := t.heap.set a o' } :=
  { stack := h.stack, globals := h.globals, frames := h.frames, openUpvalues := h.openUpvalues,
    guards := h.guards, next := h.next, limit := h.limit, remaining := h.remaining,
    dispatches := h.dispatches, hostLog := h.hostLog, frameCap := h.frameCap,
    uniqL := (set_inv s a o' h.invL hcL).unique, uniqR := (set_inv t a o' h.invR hcR).unique,
    freshL := (set_inv s a o' h.invL hcL).fresh, freshR := (set_inv t a o' h.invR hcR).fresh,
    rootsK := h.rootsK,
    closed := by
      intro x o b hx ho hcb
      rw [show ({ s with heap := s.heap.set a o' } : VmState).heap = s.heap.set a o' from rfl,
        SchedSim.get_set] at ho
      split at ho
      · next hxa =>
        subst hxa
        cases hg : s.heap.get x with
        | none => rw [hg] at ho; cases ho
        | some o0 =>
          rw [hg] at ho
          simp only [Option.map_some, Option.some.injEq] at ho
          subst ho
          exact hkids hx ⟨o0, hg⟩ b hcb
      · exact h.closed x o b hx ho hcb
    agree := by
      intro x hx
      show (t.heap.set a o').get x = (s.heap.set a o').get x
      rw [SchedSim.get_set, SchedSim.get_set, h.agree x hx]
      split
      · next hxa => subst hxa; rw [h.agree x hx]
      · rfl
    invL := set_inv s a o' h.invL hcL, invR := set_inv t a o' h.invR hcR }

theorem upvalueSlot_eq (h : Core c K s t) {a : Nat} (ha : K a) : upvalueSlot t.heap a = upvalueSlot s.heap a := by
  unfold upvalueSlot; rw [h.agree a ha]

theorem find?_congr' {α : Type} {p q : α → Bool} : ∀ {l : List α}, (∀ x ∈ l, p x = q x) → l.find? p = l.find? q
  | [], _ => rfl
  | x :: l, h => by
    rw [List.find?_cons, List.find?_cons, h x List.mem_cons_self,
      find?_congr' (fun y hy => h y (List.mem_cons_of_mem _ hy))]

theorem closeGo_sub (top : Nat) (s0 : VmState) : ∀ (l : List Nat) (h : Heap),
    ∀ x ∈ (closeUpvalues.go top s0 l h).1, x ∈ l := by
  intro l
  induction l with
  | nil => intro h x hx; unfold closeUpvalues.go at hx; exact hx
  | cons a rest ih =>
    intro h x hx
    unfold closeUpvalues.go at hx
    split at hx
    · split at hx
      · exact hx
      · exact List.mem_cons_of_mem _ (ih _ x hx)
    · cases hx

/-- the closing loop in two machines: the open upvalues it closes point below the height -/
theorem closeGo_agree (top : Nat) (s0 t0 : VmState) (hst : StackSame s0.stack t0.stack) :
    ∀ (l : List Nat) (s t : VmState), Agree c K s t → (∀ a ∈ l, K a) →
      (∀ a ∈ l, ∀ i, s.heap.get a = some (.upvalue (.stack i)) →
        i < s0.stack.count ∧ VK K (s0.stack.data.getD i .nil)) →
      (closeUpvalues.go top t0 l t.heap).1 = (closeUpvalues.go top s0 l s.heap).1 ∧
      Agree c K { s with heap := (closeUpvalues.go top s0 l s.heap).2 }
                { t with heap := (closeUpvalues.go top t0 l t.heap).2 } := by
  intro l
  induction l with
  | nil =>
    intro s t h _ _
    unfold closeUpvalues.go
    exact ⟨rfl, h⟩
  | cons a rest ih =>
    intro s t h hK hok
    have ha : K a := hK a List.mem_cons_self
    unfold closeUpvalues.go
    rw [upvalueSlot_eq h.toCore ha]
    cases hu : upvalueSlot s.heap a with
    | none => exact ⟨rfl, h⟩
    | some i =>
      dsimp only
      by_cases hi : i < top
      · rw [if_pos hi, if_pos hi]; exact ⟨rfl, h⟩
      · rw [if_neg hi, if_neg hi]
        have hg := upvalueSlot_some hu
        obtain ⟨hlt, hvk⟩ := hok a List.mem_cons_self i hg
        rw [StackSame.getD hst hlt]
        have hA := h.set a (.upvalue (.closed (s0.stack.data.getD i .nil))) ha
          (fun b hb => by
            simp only [Heap.children, List.mem_singleton] at hb
            exact hvk b hb.symm)
          (fun o ho => by rw [hg] at ho; cases ho; rfl)
        refine ih _ _ hA (fun x hx => hK x (List.mem_cons_of_mem _ hx)) ?_
        intro x hx j hj
        rw [show ({ s with heap := s.heap.set a (.upvalue (.closed (s0.stack.data.getD i .nil))) } : VmState).heap
          = s.heap.set a (.upvalue (.closed (s0.stack.data.getD i .nil))) from rfl, SchedSim.get_set] at hj
        split at hj
        · rw [hg] at hj; cases hj
        · exact hok x (List.mem_cons_of_mem _ hx) j hj

theorem go_closeUpvalues (top : Nat) (s : VmState) :
    (closeUpvalues top).go s = (.ok ⟨⟩, { s with
      openUpvalues := (closeUpvalues.go top s s.openUpvalues s.heap).1,
      heap := (closeUpvalues.go top s s.openUpvalues s.heap).2 }) := by
  unfold closeUpvalues
  rw [go_bind]
  simp only [go_get]
  rcases closeUpvalues.go top s s.openUpvalues s.heap with ⟨l, h⟩
  rfl

theorem w2_closeUpvalues {Q : PUnit → PUnit → VmState → VmState → Prop} (top : Nat) (h : Agree c K s t)
    (hok : ∀ a ∈ s.openUpvalues, ∀ i, s.heap.get a = some (.upvalue (.stack i)) → i < s.stack.count)
    (hq : ∀ s' t', s'.stack = s.stack → s'.frames = s.frames → Agree c K s' t' → Q ⟨⟩ ⟨⟩ s' t') :
    W2 c (closeUpvalues top) (closeUpvalues top) Q s t := by
  obtain ⟨e, hA⟩ := closeGo_agree top s t h.stack.1 s.openUpvalues s t h (fun a ha => h.k_upv ha)
    (fun a ha i hg => ⟨hok a ha i hg, h.vk_slot (hok a ha i hg)⟩)
  have e2 := go_closeUpvalues top t
  rw [h.openUpvalues, e] at e2
  refine w2_of_go (go_closeUpvalues top s) e2 (hq _ _ rfl rfl ?_)
  refine hA.reroot rfl rfl rfl rfl hA.stack hA.globals hA.frames rfl hA.guards hA.remaining hA.dispatches
    hA.hostLog hA.frameCap ?_
  exact rootsK_of (fun v hv => hA.vk_stack hv) (fun v hv => hA.vk_global hv)
    (fun f hf a ha => hA.k_frame hf ha)
    (fun a ha => h.k_upv (closeGo_sub top s s.openUpvalues s.heap a ha)) (fun a ha => hA.k_guard ha)

theorem w2_readUpvalueLoc {Q : Val → Val → VmState → VmState → Prop} (a : Nat) (h : Agree c K s t)
    (ha : K a) (hok : ∀ i, s.heap.get a = some (.upvalue (.stack i)) → i < s.stack.count)
    (hq : ∀ v, VK K v → Q v v s t) : W2 c (readUpvalueLoc a) (readUpvalueLoc a) Q s t := by
  unfold readUpvalueLoc
  refine w2_get' ?_
  rw [h.agree a ha]
  cases hg : s.heap.get a with
  | none => exact w2_throwE h.rel
  | some o =>
    cases o with
    | upvalue loc =>
      cases loc with
      | stack i =>
        dsimp only
        rw [StackSame.getD h.stack.1 (hok i hg)]
        exact w2_pure (hq _ (h.vk_slot (hok i hg)))
      | closed v =>
        exact w2_pure (hq _ (h.vk_child ha hg (by simp [Heap.children])))
    | table _ _ => exact w2_throwE h.rel
    | str _ => exact w2_throwE h.rel
    | fn _ _ => exact w2_throwE h.rel
    | native _ => exact w2_throwE h.rel
    | closure _ _ _ => exact w2_throwE h.rel

theorem w2_writeUpvalueLoc {Q : PUnit → PUnit → VmState → VmState → Prop} (a : Nat) (v : Val)
    (h : Agree c K s t) (ha : K a) (hv : VK K v)
    (hq : ∀ s' t', Agree c K s' t' → Q ⟨⟩ ⟨⟩ s' t') :
    W2 c (writeUpvalueLoc a v) (writeUpvalueLoc a v) Q s t := by
  unfold writeUpvalueLoc
  refine w2_get' ?_
  rw [h.agree a ha]
  cases hg : s.heap.get a with
  | none => exact w2_throwE h.rel
  | some o =>
    cases o with
    | upvalue loc =>
      cases loc with
      | stack i =>
        refine w2_set (hq _ _ ?_)
        refine h.stack_change (h.stack.map (fun x => { x with data := x.data.set i v }) (h.stack.1.dataSet i v))
          (fun w hw => ?_)
        rcases mem_dataSet_contents hw with rfl | hw
        · exact hv
        · exact h.vk_stack hw
      | closed w =>
        refine w2_set (hq _ _ ?_)
        exact h.set a _ ha (fun b hb => by
            simp only [Heap.children, List.mem_singleton] at hb
            exact hv b hb.symm)
          (fun o ho => by rw [hg] at ho; cases ho; rfl)
    | table _ _ => exact w2_throwE h.rel
    | str _ => exact w2_throwE h.rel
    | fn _ _ => exact w2_throwE h.rel
    | native _ => exact w2_throwE h.rel
    | closure _ _ _ => exact w2_throwE h.rel

end upv

/-! ## the code -/

def cSetUpvalue (index ip : Nat) : M Ctl := do
  let v ← pop
  match (← curFrame).closure with
  | none => throwE .notClosure
  | some c =>
    match (← get).heap.get c with
    | some (.closure _ _ ups) =>
      match ups[index]? with
      | some u => writeUpvalueLoc u v
      | none => throwE .invalidUpvalue
    | _ => throwE .notClosure
  return { ip }
def cReadUpvalue (index ip : Nat) : M Ctl := do
  match (← curFrame).closure with
  | none => throwE .notClosure
  | some c =>
    match (← get).heap.get c with
    | some (.closure _ _ ups) =>
      match ups[index]? with
      | some u => push (← readUpvalueLoc u)
      | none => throwE .invalidUpvalue
    | _ => throwE .notClosure
  return { ip }
def cCloseUpvalue (ip : Nat) : M Ctl := do
  let s ← get
  if s.stack.count == 0 then throwE .invalidArgument
  closeUpvalues (s.stack.count - 1)
  let _ ← pop
  return { ip }
def cRet : M Ctl := do
  let s ← get
  match s.frames.getLast? with
  | none => throwE .badReturn
  | some fr =>
    set { s with frames := s.frames.dropLast }
    closeUpvalues fr.stackOffset
    let s ← get
    let (st, v) := s.stack.clearUntil fr.stackOffset
    set { s with stack := st }
    match (← get).frames.getLast? with
    | none => throwE .badReturn
    | some caller =>
      push v
      return { ip := caller.dst }
def cCallFunction (p : Prog) (reenter : Reenter) (src ip : Nat) : M Ctl := do
  let f ← pop
  match f with
  | .obj a =>
    match (← get).heap.get a with
    | some (.native h) => callNative reenter h; return { ip }
    | some (.fn h ar) => step.callScript p src ip h ar.toNat none
    | some (.closure h ar _) => step.callScript p src ip h ar.toNat (some a)
    | _ => throwE .invalidArgument
  | _ => throwE .invalidArgument
def cCallNative (reenter : Reenter) (hd : UInt32) (ip : Nat) : M Ctl := do
  callNative reenter hd
  return { ip }

/-! ## their simulation -/
section ops
variable {c : Cfg} {K : Nat → Prop} {s t : VmState}

theorem sim_setUpvalue (index ip : Nat) (h : Agree c K s t) :
    W2 c (cSetUpvalue index ip) (cSetUpvalue index ip) (QStep c) s t := by
  unfold cSetUpvalue
  refine w2_bind (w2_pop' h fun v s1 t1 _ _ hv hA => ?_)
  refine w2_bind (w2_curFrame hA fun f hf hfm => ?_)
  cases hc : f.closure with
  | none => exact w2_throwE_bind hA.rel
  | some cl =>
    dsimp only
    have hcl : K cl := hA.k_frame hfm hc
    refine w2_get' ?_
    rw [hA.agree cl hcl]
    cases hg : s1.heap.get cl with
    | none => exact w2_throwE_bind hA.rel
    | some o =>
      cases o with
      | closure hd ar ups =>
        dsimp only
        cases hu : ups[index]? with
        | none => exact w2_throwE_bind hA.rel
        | some u =>
          dsimp only
          have hku : K u := hA.closed cl _ u hcl hg (by
            simp only [Heap.children, List.mem_map]
            exact ⟨u, List.mem_of_getElem? hu, rfl⟩)
          refine w2_bind (w2_writeUpvalueLoc u v hA hku hv fun s2 t2 hA2 => ?_)
          exact w2_done hA2 _
      | table _ _ => exact w2_throwE_bind hA.rel
      | str _ => exact w2_throwE_bind hA.rel
      | fn _ _ => exact w2_throwE_bind hA.rel
      | native _ => exact w2_throwE_bind hA.rel
      | upvalue _ => exact w2_throwE_bind hA.rel

theorem sim_readUpvalue (index ip : Nat) (h : Agree c K s t) (hok : ReadUpvOk index s) :
    W2 c (cReadUpvalue index ip) (cReadUpvalue index ip) (QStep c) s t := by
  unfold cReadUpvalue
  refine w2_bind (w2_curFrame h fun f hf hfm => ?_)
  cases hc : f.closure with
  | none => exact w2_throwE_bind h.rel
  | some cl =>
    dsimp only
    have hcl : K cl := h.k_frame hfm hc
    have hrcl : R s cl := SchedSim.reach_frame hfm hc
    refine w2_get' ?_
    rw [h.agree cl hcl]
    cases hg : s.heap.get cl with
    | none => exact w2_throwE_bind h.rel
    | some o =>
      cases o with
      | closure hd ar ups =>
        dsimp only
        cases hu : ups[index]? with
        | none => exact w2_throwE_bind h.rel
        | some u =>
          dsimp only
          have hmem : Val.obj u ∈ Heap.children (.closure hd ar ups) := by
            simp only [Heap.children, List.mem_map]
            exact ⟨u, List.mem_of_getElem? hu, rfl⟩
          have hku : K u := h.closed cl _ u hcl hg hmem
          have hru : R s u := Reach.step hrcl hg hmem
          refine w2_bind (w2_readUpvalueLoc u h hku (fun i hi => hok f cl hd ar ups u i hf hc hg hu hi) fun v hv => ?_)
          refine w2_bind (w2_push' _ h hv fun s2 t2 _ hA2 => ?_)
          exact w2_done hA2 _
      | table _ _ => exact w2_throwE_bind h.rel
      | str _ => exact w2_throwE_bind h.rel
      | fn _ _ => exact w2_throwE_bind h.rel
      | native _ => exact w2_throwE_bind h.rel
      | upvalue _ => exact w2_throwE_bind h.rel

theorem sim_closeUpvalue (ip : Nat) (h : Agree c K s t) (hok : UpvOk s) :
    W2 c (cCloseUpvalue ip) (cCloseUpvalue ip) (QStep c) s t := by
  unfold cCloseUpvalue
  refine w2_get' ?_
  rw [h.stack.count]
  by_cases h0 : (s.stack.count == 0) = true
  · rw [if_pos h0]
    exact w2_throwE_bind h.rel
  · rw [if_neg h0]
    refine w2_bind (w2_closeUpvalues _ h hok fun s1 t1 _ _ hA => ?_)
    refine w2_bind (w2_pop' hA fun v s2 t2 _ _ _ hA2 => ?_)
    exact w2_done hA2 _

theorem sim_ret (h : Agree c K s t) (hf : FrameOk s) (hok : UpvOk s) :
    W2 c cRet cRet (QStep c) s t := by
  unfold cRet
  refine w2_get' ?_
  rw [h.frames]
  cases hl : s.frames.getLast? with
  | none => exact w2_throwE h.rel
  | some fr =>
    dsimp only
    have hle := hf fr hl
    refine w2_bind (w2_set ?_)
    have hA1 : Agree c K { s with frames := s.frames.dropLast } { t with frames := s.frames.dropLast } :=
      h.reroot rfl rfl rfl rfl h.stack h.globals rfl h.openUpvalues h.guards h.remaining h.dispatches
        h.hostLog h.frameCap
        (rootsK_of (fun v hv => h.vk_stack hv) (fun v hv => h.vk_global hv)
          (fun f hf a ha => h.k_frame (List.dropLast_subset _ hf) ha)
          (fun a ha => h.k_upv ha) (fun a ha => h.k_guard ha))
    refine w2_bind (w2_closeUpvalues _ hA1 hok fun s2 t2 est efr hA2 => ?_)
    refine w2_get' ?_
    have hle2 : fr.stackOffset ≤ s2.stack.count := by rw [est]; exact hle
    have e := (hA2.stack.1.clearUntil hle2).2
    have hv : VK K (s2.stack.clearUntil fr.stackOffset).2 := hA2.vk_last
    have hA3 := hA2.stack_change (hA2.stack.map (fun x => (x.clearUntil fr.stackOffset).1)
      (hA2.stack.1.clearUntil hle2).1) (fun v hv => hA2.vk_stack (mem_clearUntil_contents hle2 hv))
    rcases hs : s2.stack.clearUntil fr.stackOffset with ⟨st, v⟩
    rcases ht : t2.stack.clearUntil fr.stackOffset with ⟨st', v'⟩
    rw [hs, ht] at e hA3
    rw [hs] at hv
    dsimp only at e hv hA3 ⊢
    subst e
    refine w2_bind (w2_set ?_)
    generalize ({ s2 with stack := st } : VmState) = s3 at hA3 ⊢
    generalize ({ t2 with stack := st' } : VmState) = t3 at hA3 ⊢
    refine w2_get' ?_
    rw [hA3.frames]
    cases hl2 : s3.frames.getLast? with
    | none => exact w2_throwE hA3.rel
    | some caller =>
      dsimp only
      refine w2_bind (w2_push' _ hA3 hv fun s4 t4 _ hA4 => ?_)
      exact w2_done hA4 _

theorem go_callScript (p : Prog) (src ip : Nat) (label : UInt32) (arity : Nat) (closure : Option Nat)
    (s : VmState) :
    (step.callScript p src ip label arity closure).go s =
      if s.frames.isEmpty = true then (.error (.panic "Call stack was empty"), s) else
      if s.stack.count < arity then (.error .missingArgument, s) else
      if s.frames.length ≥ s.frameCap then (.error .callStackOverflow, s) else
      match p.labels.find? (fun l => l.1 == label) with
      | some (_, pos) => (.ok { ip := pos }, { s with frames := (s.frames.dropLast ++
          [{ (s.frames.getLast?.getD ⟨0, 0, 0, none⟩ : Frame) with dst := ip }]) ++
          [{ src := src, dst := ip, stackOffset := s.stack.count - arity, closure := closure }] })
      | none => (.error .procedureNotFound, { s with frames := (s.frames.dropLast ++
          [{ (s.frames.getLast?.getD ⟨0, 0, 0, none⟩ : Frame) with dst := ip }]) ++
          [{ src := src, dst := ip, stackOffset := s.stack.count - arity, closure := closure }] }) := by
  unfold step.callScript
  rw [go_bind]; simp only [go_get]
  by_cases h1 : s.frames.isEmpty = true
  · rw [if_pos h1, if_pos h1, go_bind]; rfl
  rw [if_neg h1, if_neg h1]
  by_cases h2 : s.stack.count < arity
  · rw [if_pos h2, if_pos h2, go_bind]; rfl
  rw [if_neg h2, if_neg h2]
  by_cases h3 : s.frames.length ≥ s.frameCap
  · rw [if_pos h3, if_pos h3, go_bind]; rfl
  rw [if_neg h3, if_neg h3, go_bind]
  simp only [go_set]
  cases p.labels.find? (fun l => l.1 == label) with
  | none => rfl
  | some lp => rfl

theorem sim_callScript (p : Prog) (src ip : Nat) (label : UInt32) (arity : Nat) (closure : Option Nat)
    (h : Agree c K s t) (hc : ∀ a, closure = some a → K a) :
    W2 c (step.callScript p src ip label arity closure) (step.callScript p src ip label arity closure)
      (QStep c) s t := by
  have g1 := go_callScript p src ip label arity closure s
  have g2 := go_callScript p src ip label arity closure t
  have e1 : t.frames.isEmpty = s.frames.isEmpty := by rw [h.frames]
  have e2 : (t.stack.count < arity) = (s.stack.count < arity) := by rw [h.stack.count]
  have e3 : (t.frames.length ≥ t.frameCap) = (s.frames.length ≥ s.frameCap) := by rw [h.frames, h.frameCap]
  by_cases h1 : s.frames.isEmpty = true
  · rw [if_pos h1] at g1; rw [if_pos (e1.trans h1)] at g2; exact w2_of_go_err g1 g2 h.rel
  rw [if_neg h1] at g1; rw [if_neg (by rw [e1]; exact h1)] at g2
  by_cases h2 : s.stack.count < arity
  · rw [if_pos h2] at g1; rw [if_pos (e2 ▸ h2)] at g2; exact w2_of_go_err g1 g2 h.rel
  rw [if_neg h2] at g1; rw [if_neg (e2 ▸ h2)] at g2
  by_cases h3 : s.frames.length ≥ s.frameCap
  · rw [if_pos h3] at g1; rw [if_pos (e3 ▸ h3)] at g2; exact w2_of_go_err g1 g2 h.rel
  rw [if_neg h3] at g1; rw [if_neg (e3 ▸ h3)] at g2
  have hroots : ∀ f ∈ (s.frames.dropLast ++
          [{ (s.frames.getLast?.getD ⟨0, 0, 0, none⟩ : Frame) with dst := ip }]) ++
          [({ src := src, dst := ip, stackOffset := s.stack.count - arity, closure := closure } : Frame)],
      ∀ a, f.closure = some a → K a := by
    intro f hf a ha
    simp only [List.mem_append, List.mem_singleton] at hf
    rcases hf with (hf | hf) | hf
    · exact h.k_frame (List.dropLast_subset _ hf) ha
    · subst hf
      cases hl : s.frames.getLast? with
      | none => rw [hl] at ha; cases ha
      | some lf =>
        rw [hl] at ha
        exact h.k_frame (List.mem_of_getLast? hl) ha
    · subst hf; exact hc a ha
  have hA : Agree c K { s with frames := (s.frames.dropLast ++
          [{ (s.frames.getLast?.getD ⟨0, 0, 0, none⟩ : Frame) with dst := ip }]) ++
          [{ src := src, dst := ip, stackOffset := s.stack.count - arity, closure := closure }] }
      { t with frames := (t.frames.dropLast ++
          [{ (t.frames.getLast?.getD ⟨0, 0, 0, none⟩ : Frame) with dst := ip }]) ++
          [{ src := src, dst := ip, stackOffset := t.stack.count - arity, closure := closure }] } := by
    refine h.reroot rfl rfl rfl rfl h.stack h.globals (by dsimp only; rw [h.frames, h.stack.count])
      h.openUpvalues h.guards h.remaining h.dispatches h.hostLog h.frameCap ?_
    exact rootsK_of (fun v hv => h.vk_stack hv) (fun v hv => h.vk_global hv) hroots
      (fun a ha => h.k_upv ha) (fun a ha => h.k_guard ha)
  cases hl : p.labels.find? (fun l => l.1 == label) with
  | none => rw [hl] at g1 g2; exact w2_of_go_err g1 g2 hA.rel
  | some lp =>
    obtain ⟨_, pos⟩ := lp
    rw [hl] at g1 g2
    exact w2_of_go g1 g2 ⟨rfl, hA.rel⟩

theorem sim_callNative (re₁ re₂ : Reenter) (hd : UInt32) (hn : NatSimAt c re₁ re₂ hd) (ip : Nat)
    (h : Agree c K s t) : W2 c (cCallNative re₁ hd ip) (cCallNative re₂ hd ip) (QStep c) s t := by
  unfold cCallNative
  refine w2_bind (w2_mono (hn K s t h) fun _ _ s1 t1 hr => ?_)
  exact w2_pure ⟨rfl, hr⟩

theorem sim_callFunction (p : Prog) (re₁ re₂ : Reenter)
    (hn : ∀ a hd, s.stack.pop.2 = .obj a → s.heap.get a = some (.native hd) → NatSimAt c re₁ re₂ hd)
    (src ip : Nat) (h : Agree c K s t) :
    W2 c (cCallFunction p re₁ src ip) (cCallFunction p re₂ src ip) (QStep c) s t := by
  unfold cCallFunction
  refine w2_bind (w2_pop' h fun f s1 t1 es1 ef hf hA => ?_)
  cases f with
  | obj a =>
    dsimp only
    have ha : K a := hf a rfl
    refine w2_get' ?_
    rw [hA.agree a ha]
    cases hg : s1.heap.get a with
    | none => exact w2_throwE hA.rel
    | some o =>
      cases o with
      | native hd =>
        dsimp only
        have hn' := hn a hd ef.symm (by rw [es1] at hg; exact hg)
        refine w2_bind (w2_mono (hn' K s1 t1 hA) fun _ _ s2 t2 hr => ?_)
        exact w2_pure ⟨rfl, hr⟩
      | fn hd ar => exact sim_callScript p src ip hd ar.toNat none hA (fun _ e => by cases e)
      | closure hd ar ups =>
        exact sim_callScript p src ip hd ar.toNat (some a) hA (fun _ e => by cases e; exact ha)
      | table _ _ => exact w2_throwE hA.rel
      | str _ => exact w2_throwE hA.rel
      | upvalue _ => exact w2_throwE hA.rel
  | nil => exact w2_throwE hA.rel
  | int _ => exact w2_throwE hA.rel
  | real _ => exact w2_throwE hA.rel

end ops

end Cao.SchedFull
