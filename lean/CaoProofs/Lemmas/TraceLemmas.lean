import CaoProofs.Lemmas.CompilerLemmas
import CaoProofs.Lemmas.WithStd
import CaoModel.CardOps
/-!
# Trace entries of the compiler: where they point and which opcode they label (C15)

A Hoare-style triple `Tr` for `CM` actions, in the style of `Mono`/`Hs` of `CompilerLemmas`:

* the position bookkeeping (`curIndices`) before/after the action,
* every *new* trace entry carries the current `ns`/`curFunction`, an index list allowed by the
  specification `S`, and labels a byte of the **final** bytecode of the action that is allowed by
  `S` for that index list (later writes are appends or patches of jump operands, which are never
  trace keys: the pending operand "holes" are tracked in the triple),
* every located error carries the current `ns`/`curFunction` and an index list allowed by `S`.
-/
namespace Cao.Compiler
open Cao

/-! ## running `CM` actions: errors -/

theorem bind_err {α β : Type} {m : CM α} {f : α → CM β} {s : CState} {e : CErr} :
    (m >>= f) s = .error e ↔ m s = .error e ∨ ∃ a s', m s = .ok (a, s') ∧ f a s' = .error e := by
  show (StateT.bind m f s) = _ ↔ _
  unfold StateT.bind
  show (Except.bind (m s) _) = _ ↔ _
  cases h : m s with
  | error e' => simp [Except.bind]
  | ok p =>
    cases p with
    | mk a s' =>
      simp only [Except.bind, Except.ok.injEq, Prod.mk.injEq, reduceCtorEq, false_or]
      constructor
      · intro h; exact ⟨a, s', ⟨rfl, rfl⟩, h⟩
      · rintro ⟨a1, s1, ⟨rfl, rfl⟩, h⟩; exact h

/-! ## the specification of an action and the relation between its initial and final state -/

/-- what an action may put into the trace table / into an error location:
`op l o` — a trace entry with index list `l` may label opcode `o`;
`loc k l` — an error of kind `k` may be located at `l` -/
structure Spec where
  op : List Nat → UInt8 → Prop
  loc : CErrKind → List Nat → Prop

/-- `S'` allows everything `S` allows -/
structure SubSpec (S S' : Spec) : Prop where
  op : ∀ l o, S.op l o → S'.op l o
  loc : ∀ k l, S.loc k l → S'.loc k l

theorem SubSpec.refl (S : Spec) : SubSpec S S := ⟨fun _ _ h => h, fun _ _ h => h⟩

theorem SubSpec.trans {S S' S'' : Spec} (h1 : SubSpec S S') (h2 : SubSpec S' S'') : SubSpec S S'' :=
  ⟨fun l o h => h2.op l o (h1.op l o h), fun k l h => h2.loc k l (h1.loc k l h)⟩

/-- `s'` is reached from `s` by appending bytes, patching bytes that are not keys of the trace
entries after the first `n0`, and appending trace entries that label allowed opcodes in `s'` -/
structure RelG (n0 : Nat) (G : Trace → UInt8 → Prop) (s s' : CState) : Prop where
  size_le : s.bytecode.size ≤ s'.bytecode.size
  keep : ∀ e ∈ s.trace.drop n0, s'.bytecode[e.1]? = s.bytecode[e.1]?
  trace : ∃ t, s'.trace = s.trace ++ t ∧ ∀ e ∈ t, s.bytecode.size ≤ e.1 ∧ e.1 < s'.bytecode.size ∧
    ∃ o, s'.bytecode[e.1]? = some o ∧ G e.2 o

theorem RelG.refl (n0 : Nat) (G : Trace → UInt8 → Prop) (s : CState) : RelG n0 G s s :=
  ⟨Nat.le_refl _, fun _ _ => rfl, [], by simp, by simp⟩

theorem RelG.of_eq {n0 : Nat} {G : Trace → UInt8 → Prop} {s s' : CState}
    (hb : s'.bytecode = s.bytecode) (ht : s'.trace = s.trace) : RelG n0 G s s' :=
  ⟨by rw [hb]; exact Nat.le_refl _, fun _ _ => by rw [hb], [], by simp [ht], by simp⟩

theorem RelG.mono {n0 : Nat} {G G' : Trace → UInt8 → Prop} {s s' : CState} (h : RelG n0 G s s')
    (hg : ∀ t o, G t o → G' t o) : RelG n0 G' s s' := by
  obtain ⟨a, b, t, c, d⟩ := h
  refine ⟨a, b, t, c, fun e he => ?_⟩
  obtain ⟨h1, h2, o, h3, h4⟩ := d e he
  exact ⟨h1, h2, o, h3, hg _ _ h4⟩

theorem drop_trace_append {n0 : Nat} {a t : List (Nat × Trace)} (h : n0 ≤ a.length) :
    (a ++ t).drop n0 = a.drop n0 ++ t := List.drop_append_of_le_length h

theorem RelG.trans {n0 : Nat} {G : Trace → UInt8 → Prop} {s s1 s2 : CState} (hl : n0 ≤ s.trace.length)
    (h1 : RelG n0 G s s1) (h2 : RelG n0 G s1 s2) : RelG n0 G s s2 := by
  obtain ⟨a1, b1, t1, c1, d1⟩ := h1
  obtain ⟨a2, b2, t2, c2, d2⟩ := h2
  have hd : s1.trace.drop n0 = s.trace.drop n0 ++ t1 := by rw [c1]; exact drop_trace_append hl
  refine ⟨Nat.le_trans a1 a2, fun e he => ?_, t1 ++ t2, by rw [c2, c1, List.append_assoc], ?_⟩
  · rw [b2 e (by rw [hd]; exact List.mem_append_left _ he), b1 e he]
  · intro e he
    rcases List.mem_append.1 he with he | he
    · obtain ⟨x1, x2, o, x3, x4⟩ := d1 e he
      refine ⟨x1, by omega, o, ?_, x4⟩
      rw [b2 e (by rw [hd]; exact List.mem_append_right _ he), x3]
    · obtain ⟨x1, x2, o, x3, x4⟩ := d2 e he
      exact ⟨by omega, x2, o, x3, x4⟩

/-- the trace entries after the first `n0` have keys inside the bytecode, and none of them lies in
one of the pending 4-byte operand holes `hs` -/
structure Safe (n0 : Nat) (hs : List Nat) (s : CState) : Prop where
  len : n0 ≤ s.trace.length
  keys : ∀ e ∈ s.trace.drop n0, e.1 < s.bytecode.size
  holes : ∀ h ∈ hs, h + 4 ≤ s.bytecode.size ∧ ∀ e ∈ s.trace.drop n0, e.1 < h ∨ h + 4 ≤ e.1

theorem Safe.step {n0 : Nat} {hs : List Nat} {G : Trace → UInt8 → Prop} {s s' : CState}
    (h : Safe n0 hs s) (r : RelG n0 G s s') : Safe n0 hs s' := by
  obtain ⟨a, b, t, c, d⟩ := r
  have hd : s'.trace.drop n0 = s.trace.drop n0 ++ t := by rw [c]; exact drop_trace_append h.len
  refine ⟨by rw [c, List.length_append]; have := h.len; omega, fun e he => ?_, fun x hx => ?_⟩
  · rw [hd] at he
    rcases List.mem_append.1 he with he | he
    · have := h.keys e he; omega
    · exact (d e he).2.1
  · obtain ⟨x1, x2⟩ := h.holes x hx
    refine ⟨by omega, fun e he => ?_⟩
    rw [hd] at he
    rcases List.mem_append.1 he with he | he
    · exact x2 e he
    · have := (d e he).1; omega

theorem Safe.weaken {n0 : Nat} {hs hs' : List Nat} {s : CState} (h : Safe n0 hs s)
    (hsub : ∀ x ∈ hs', x ∈ hs) : Safe n0 hs' s :=
  ⟨h.len, h.keys, fun x hx => h.holes x (hsub x hx)⟩

/-- the relation for an action that does not change `ns`/`curFunction` -/
structure Rel (n0 : Nat) (S : Spec) (s s' : CState) : Prop where
  ns : s'.ns = s.ns
  fn : s'.curFunction = s.curFunction
  rel : RelG n0 (fun t o => t.ns = s.ns ∧ t.function = s.curFunction ∧ S.op t.indices o) s s'

theorem Rel.refl (n0 : Nat) (S : Spec) (s : CState) : Rel n0 S s s := ⟨rfl, rfl, RelG.refl _ _ _⟩

theorem Rel.trans {n0 : Nat} {S : Spec} {s s1 s2 : CState} (hl : n0 ≤ s.trace.length)
    (h1 : Rel n0 S s s1) (h2 : Rel n0 S s1 s2) : Rel n0 S s s2 := by
  refine ⟨h2.ns.trans h1.ns, h2.fn.trans h1.fn, RelG.trans hl h1.rel ?_⟩
  have := h2.rel
  rw [h1.ns, h1.fn] at this
  exact this

theorem Rel.mono {n0 : Nat} {S S' : Spec} {s s' : CState} (h : Rel n0 S s s') (hs : SubSpec S S') :
    Rel n0 S' s s' :=
  ⟨h.ns, h.fn, h.rel.mono fun _ o ⟨a, b, c⟩ => ⟨a, b, hs.op _ o c⟩⟩

/-- precondition: position `p`, optionally known bytecode size `z`, pending holes `hs` -/
structure Pre (n0 : Nat) (z : Option Nat) (hs : List Nat) (p : List Nat) (s : CState) : Prop where
  idx : s.curIndices = p
  size : ∀ n, z = some n → s.bytecode.size = n
  safe : Safe n0 hs s

/-- the triple -/
structure Tr {α : Type} (n0 : Nat) (S : Spec) (z : Option Nat) (hs : List Nat) (p q : List Nat)
    (m : CM α) : Prop where
  ok : ∀ s a s', m s = .ok (a, s') → Pre n0 z hs p s → Rel n0 S s s' ∧ s'.curIndices = q
  err : ∀ s k o, m s = .error (.err k o) → Pre n0 z hs p s →
    ∃ t, o = some t ∧ t.ns = s.ns ∧ t.function = s.curFunction ∧ S.loc k t.indices

theorem Tr.mono_spec {α : Type} {n0 : Nat} {S S' : Spec} {z : Option Nat} {hs p q} {m : CM α}
    (h : Tr n0 S z hs p q m) (hS : SubSpec S S') : Tr n0 S' z hs p q m :=
  ⟨fun s a s' hr hp => ⟨((h.ok s a s' hr hp).1).mono hS, (h.ok s a s' hr hp).2⟩,
   fun s k t hr hp => by
    obtain ⟨t', e, a, b, c⟩ := h.err s k t hr hp
    exact ⟨t', e, a, b, hS.loc _ _ c⟩⟩

/-- forget the known size / some holes -/
theorem Tr.weaken {α : Type} {n0 : Nat} {S : Spec} {z : Option Nat} {hs hs' p q} {m : CM α}
    (h : Tr n0 S none hs' p q m) (hsub : ∀ x ∈ hs', x ∈ hs) : Tr n0 S z hs p q m :=
  ⟨fun s a s' hr hp => h.ok s a s' hr ⟨hp.idx, (fun _ hn => nomatch hn), hp.safe.weaken hsub⟩,
   fun s k t hr hp => h.err s k t hr ⟨hp.idx, (fun _ hn => nomatch hn), hp.safe.weaken hsub⟩⟩

theorem tr_bind {α β : Type} {n0 : Nat} {S : Spec} {z : Option Nat} {hs p q r} {m : CM α} {f : α → CM β}
    (hm : Tr n0 S z hs p q m) (hf : ∀ a, Tr n0 S none hs q r (f a)) : Tr n0 S z hs p r (m >>= f) := by
  constructor
  · intro s b s'' h hp
    obtain ⟨a, s', h1, h2⟩ := bind_ok.1 h
    obtain ⟨r1, q1⟩ := hm.ok s a s' h1 hp
    obtain ⟨r2, q2⟩ := (hf a).ok s' b s'' h2 ⟨q1, (fun _ hn => nomatch hn), hp.safe.step r1.rel⟩
    exact ⟨Rel.trans hp.safe.len r1 r2, q2⟩
  · intro s k t h hp
    rcases bind_err.1 h with h | ⟨a, s', h1, h2⟩
    · exact hm.err s k t h hp
    · obtain ⟨r1, q1⟩ := hm.ok s a s' h1 hp
      obtain ⟨t', e, x1, x2, x3⟩ := (hf a).err s' k t h2 ⟨q1, (fun _ hn => nomatch hn), hp.safe.step r1.rel⟩
      exact ⟨t', e, x1.trans r1.ns, x2.trans r1.fn, x3⟩

theorem tr_pure {α : Type} {n0 : Nat} {S : Spec} {z : Option Nat} {hs p} {a : α} :
    Tr n0 S z hs p p (pure a : CM α) := by
  constructor
  · intro s b s' hr hp
    simp only [pure_run, Except.ok.injEq, Prod.mk.injEq] at hr
    obtain ⟨_, rfl⟩ := hr
    exact ⟨Rel.refl _ _ _, hp.idx⟩
  · intro s k t hr; simp at hr

theorem tr_get {n0 : Nat} {S : Spec} {z : Option Nat} {hs p} : Tr n0 S z hs p p (get : CM CState) := by
  constructor
  · intro s b s' hr hp
    simp only [get_run, Except.ok.injEq, Prod.mk.injEq] at hr
    obtain ⟨_, rfl⟩ := hr
    exact ⟨Rel.refl _ _ _, hp.idx⟩
  · intro s k t hr; simp at hr

/-- after `get` the size of the bytecode is known -/
theorem tr_get_bind {β : Type} {n0 : Nat} {S : Spec} {z : Option Nat} {hs p q} {f : CState → CM β}
    (hf : ∀ st, Tr n0 S (some st.bytecode.size) hs p q (f st)) : Tr n0 S z hs p q (get >>= f) := by
  constructor
  · intro s b s'' h hp
    obtain ⟨a, s', h1, h2⟩ := bind_ok.1 h
    simp only [get_run, Except.ok.injEq, Prod.mk.injEq] at h1
    obtain ⟨rfl, rfl⟩ := h1
    exact (hf s).ok s b s'' h2 ⟨hp.idx, fun _ hn => by cases hn; rfl, hp.safe⟩
  · intro s k t h hp
    rcases bind_err.1 h with h | ⟨a, s', h1, h2⟩
    · simp at h
    · simp only [get_run, Except.ok.injEq, Prod.mk.injEq] at h1
      obtain ⟨rfl, rfl⟩ := h1
      exact (hf s).err s k t h2 ⟨hp.idx, fun _ hn => by cases hn; rfl, hp.safe⟩

theorem tr_modify {n0 : Nat} {S : Spec} {z : Option Nat} {hs p q} {f : CState → CState}
    (h : ∀ s, Pre n0 z hs p s → Rel n0 S s (f s) ∧ (f s).curIndices = q) :
    Tr n0 S z hs p q (modify f : CM Unit) := by
  constructor
  · intro s b s' hr hp
    simp only [modify_run, Except.ok.injEq, Prod.mk.injEq] at hr
    obtain ⟨_, rfl⟩ := hr
    exact h s hp
  · intro s k t hr; simp at hr

/-- a state update that touches none of bytecode, trace, `ns`, `curFunction`, `curIndices` -/
theorem tr_modify_other {n0 : Nat} {S : Spec} {z : Option Nat} {hs p} {f : CState → CState}
    (hb : ∀ s, (f s).bytecode = s.bytecode) (ht : ∀ s, (f s).trace = s.trace)
    (hn : ∀ s, (f s).ns = s.ns) (hf : ∀ s, (f s).curFunction = s.curFunction)
    (hi : ∀ s, (f s).curIndices = s.curIndices) : Tr n0 S z hs p p (modify f : CM Unit) :=
  tr_modify fun s hp => ⟨⟨hn s, hf s, RelG.of_eq (hb s) (ht s)⟩, (hi s).trans hp.idx⟩

theorem tr_panic {α : Type} {n0 : Nat} {S : Spec} {z : Option Nat} {hs p q} {w : String} :
    Tr n0 S z hs p q (throw (.panic w) : CM α) := by
  constructor
  · intro s b s' hr; simp at hr
  · intro s k t hr; simp at hr

theorem tr_fail {α : Type} {n0 : Nat} {S : Spec} {z : Option Nat} {hs p q} {e : CErrKind}
    (h : S.loc e p) : Tr n0 S z hs p q (fail e : CM α) := by
  constructor
  · intro s b s' hr; simp at hr
  · intro s k t hr hp
    simp only [fail_run, Except.error.injEq, CErr.err.injEq] at hr
    obtain ⟨rfl, rfl⟩ := hr
    exact ⟨_, rfl, rfl, rfl, by rw [hp.idx]; exact h⟩

theorem tr_panic_bind {α β : Type} {n0 : Nat} {S : Spec} {z : Option Nat} {hs p q} {w : String}
    {f : α → CM β} : Tr n0 S z hs p q ((throw (.panic w) : CM α) >>= f) := by
  constructor
  · intro s b s' hr
    obtain ⟨a, s1, h1, _⟩ := bind_ok.1 hr
    simp at h1
  · intro s k t hr
    rcases bind_err.1 hr with h | ⟨a, s', h1, _⟩
    · simp at h
    · simp at h1

theorem tr_fail_bind {α β : Type} {n0 : Nat} {S : Spec} {z : Option Nat} {hs p q} {e : CErrKind}
    {f : α → CM β} (h : S.loc e p) : Tr n0 S z hs p q ((fail e : CM α) >>= f) := by
  constructor
  · intro s b s' hr
    obtain ⟨a, s1, h1, _⟩ := bind_ok.1 hr
    simp at h1
  · intro s k t hr hp
    rcases bind_err.1 hr with h1 | ⟨a, s', h1, _⟩
    · exact (tr_fail (q := q) (α := α) h).err s k t h1 hp
    · simp at h1

theorem tr_ite {α : Type} {n0 : Nat} {S : Spec} {z : Option Nat} {hs p q} {c : Prop} [Decidable c]
    {x y : CM α} (hy : Tr n0 S z hs p q y) (hx : Tr n0 S z hs p q x) :
    Tr n0 S z hs p q (if c then x else y) := by
  split <;> assumption


/-! ## side conditions -/

/-- the opcodes `L` may be labelled by index list `p` -/
structure Ops (S : Spec) (p : List Nat) (L : List UInt8) : Prop where
  h : ∀ o ∈ L, S.op p o

/-- errors of the kinds `K` may be located at `p` -/
structure Locs (S : Spec) (p : List Nat) (K : List CErrKind) : Prop where
  h : ∀ k ∈ K, S.loc k p

theorem Ops.sub {S : Spec} {p : List Nat} {L L' : List UInt8} (h : Ops S p L) (hs : ∀ o ∈ L', o ∈ L) :
    Ops S p L' := ⟨fun o ho => h.h o (hs o ho)⟩

theorem Locs.sub {S : Spec} {p : List Nat} {K K' : List CErrKind} (h : Locs S p K) (hs : ∀ o ∈ K', o ∈ K) :
    Locs S p K' := ⟨fun o ho => h.h o (hs o ho)⟩

/-- closes the side conditions `Ops …` / `Locs …` of the primitive lemmas from hypotheses of the
same form (for larger lists) -/
macro "tr_side" : tactic => `(tactic| first
  | assumption
  | exact Ops.sub (by assumption) (by (first | decide | simp))
  | exact Locs.sub (by assumption) (by (first | decide | simp)))

/-! ## the tactic -/

theorem tr_fail' {α : Type} {n0 : Nat} {S : Spec} {z : Option Nat} {hs p q} {e : CErrKind}
    (h : Locs S p [e]) : Tr n0 S z hs p q (fail e : CM α) := tr_fail (h.h e (by simp))

theorem tr_fail_bind' {α β : Type} {n0 : Nat} {S : Spec} {z : Option Nat} {hs p q} {e : CErrKind}
    {f : α → CM β} (h : Locs S p [e]) : Tr n0 S z hs p q ((fail e : CM α) >>= f) :=
  tr_fail_bind (h.h e (by simp))

/-- extensible: closes a goal `Tr n0 S z hs p ?q m` for a known action `m` -/
syntax "tr_prim" : tactic
macro_rules | `(tactic| tr_prim) => `(tactic| assumption)
macro_rules | `(tactic| tr_prim) =>
              `(tactic| with_reducible exact (by assumption : ∀ z hs, Tr _ _ z hs _ _ _) _ _)
macro_rules | `(tactic| tr_prim) =>
              `(tactic| with_reducible exact (by assumption : ∀ z, Tr _ _ z _ _ _ _) _)

theorem RelG.append {n0 : Nat} {G : Trace → UInt8 → Prop} {s s' : CState} {bs : Array UInt8}
    (hk : ∀ e ∈ s.trace.drop n0, e.1 < s.bytecode.size)
    (hb : s'.bytecode = s.bytecode ++ bs) (ht : s'.trace = s.trace) : RelG n0 G s s' := by
  refine ⟨by rw [hb]; simp, fun e he => ?_, [], by simp [ht], by simp⟩
  rw [hb, Array.getElem?_append_left (hk e he)]

theorem le32_length (x : UInt32) : (le32 x).length = 4 := by simp [le32, Hash.le32]

theorem emitBytes_tr {n0 : Nat} {S : Spec} {z : Option Nat} {hs p} (bs : List UInt8) :
    Tr n0 S z hs p p (emitBytes bs) := by
  unfold emitBytes
  exact tr_modify fun s hp =>
    ⟨⟨rfl, rfl, RelG.append hp.safe.keys (foldl_push_eq bs s.bytecode) rfl⟩, hp.idx⟩
macro_rules | `(tactic| tr_prim) => `(tactic| with_reducible exact emitBytes_tr _)

theorem emitU32_tr {n0 : Nat} {S : Spec} {z : Option Nat} {hs p} (x : Nat) :
    Tr n0 S z hs p p (emitU32 x) := emitBytes_tr _
macro_rules | `(tactic| tr_prim) => `(tactic| with_reducible exact emitU32_tr _)

/-- reserving a 4-byte operand at a known position `n`: the continuation may patch it -/
theorem tr_hole_bind {β : Type} {n0 : Nat} {S : Spec} {n : Nat} {hs p q} {x : Nat} {f : Unit → CM β}
    (hf : ∀ u, Tr n0 S none (n :: hs) p q (f u)) : Tr n0 S (some n) hs p q (emitU32 x >>= f) := by
  have key : ∀ s u s', emitU32 x s = .ok (u, s') → Pre n0 (some n) hs p s →
      Pre n0 none (n :: hs) p s' := by
    intro s u s' h1 hp
    obtain ⟨r1, q1⟩ := (emitU32_tr (S := S) x).ok s u s' h1 hp
    refine ⟨q1, (fun _ hn => nomatch hn), ?_⟩
    have hsafe := hp.safe.step r1.rel
    refine ⟨hsafe.len, hsafe.keys, fun h hh => ?_⟩
    rcases List.mem_cons.1 hh with rfl | hh
    · have hsz := hp.size _ rfl
      simp only [emitU32, emitBytes, modify_run, Except.ok.injEq, Prod.mk.injEq] at h1
      obtain ⟨_, rfl⟩ := h1
      dsimp only
      refine ⟨?_, fun e he => .inl ?_⟩
      · rw [foldl_push_eq]; simp [le32_length, hsz]
      · rw [← hsz]; exact hp.safe.keys e he
    · exact hsafe.holes h hh
  constructor
  · intro s b s'' h hp
    obtain ⟨a, s', h1, h2⟩ := bind_ok.1 h
    obtain ⟨r1, _⟩ := (emitU32_tr (S := S) x).ok s a s' h1 hp
    obtain ⟨r2, q2⟩ := (hf a).ok s' b s'' h2 (key s a s' h1 hp)
    exact ⟨Rel.trans hp.safe.len r1 r2, q2⟩
  · intro s k t h hp
    rcases bind_err.1 h with h | ⟨a, s', h1, h2⟩
    · exact (emitU32_tr (S := S) x).err s k t h hp
    · obtain ⟨r1, _⟩ := (emitU32_tr (S := S) x).ok s a s' h1 hp
      obtain ⟨t', e, x1, x2, x3⟩ := (hf a).err s' k t h2 (key s a s' h1 hp)
      exact ⟨t', e, x1.trans r1.ns, x2.trans r1.fn, x3⟩

/-- one step of the syntax-directed proof of a `Tr` goal -/
macro "tr_step" : tactic => `(tactic| first
  | tr_prim
  | dsimp only
  | with_reducible exact tr_panic_bind
  | with_reducible apply tr_fail_bind'
  | with_reducible exact tr_pure
  | with_reducible exact tr_panic
  | with_reducible apply tr_fail'
  | with_reducible apply tr_get_bind
  | with_reducible apply tr_hole_bind
  | with_reducible apply tr_bind
  | with_reducible apply tr_ite
  | intro _
  | split)
macro "tr" : tactic => `(tactic| repeat' tr_step)

/-! ### primitives -/

theorem curTrace_tr {n0 : Nat} {S : Spec} {z : Option Nat} {hs p} : Tr n0 S z hs p p curTrace := by
  unfold curTrace; tr
macro_rules | `(tactic| tr_prim) => `(tactic| with_reducible exact curTrace_tr)

theorem pushInstr_run (o : UInt8) (s : CState) : pushInstr o s = .ok ((), { s with
    trace := s.trace ++ [(s.bytecode.size, { ns := s.ns, function := s.curFunction, indices := s.curIndices })],
    bytecode := s.bytecode.push o }) := rfl

theorem pushInstr_tr {n0 : Nat} {S : Spec} {z : Option Nat} {hs p} {o : UInt8} (h : Ops S p [o]) :
    Tr n0 S z hs p p (pushInstr o) := by
  constructor
  · intro s a s' hr hp
    rw [pushInstr_run] at hr
    simp only [Except.ok.injEq, Prod.mk.injEq] at hr
    obtain ⟨_, rfl⟩ := hr
    refine ⟨⟨rfl, rfl, by simp, fun e he => ?_, [_], rfl, ?_⟩, hp.idx⟩
    · dsimp only
      rw [Array.push_eq_append, Array.getElem?_append_left (hp.safe.keys e he)]
    · intro e he
      simp only [List.mem_singleton] at he
      subst he
      refine ⟨Nat.le_refl _, by simp, o, by simp, rfl, rfl, ?_⟩
      dsimp only
      rw [hp.idx]; exact h.h o (by simp)
  · intro s k t hr; rw [pushInstr_run] at hr; cases hr
macro_rules | `(tactic| tr_prim) => `(tactic| with_reducible apply pushInstr_tr)

macro_rules | `(tactic| tr_prim) =>
              `(tactic| with_reducible exact tr_modify_other (fun _ => rfl) (fun _ => rfl) (fun _ => rfl) (fun _ => rfl) (fun _ => rfl))

theorem pushSub_tr {n0 : Nat} {S : Spec} {z : Option Nat} {hs p} (i : Nat) :
    Tr n0 S z hs p (p ++ [i]) (pushSub i) := by
  unfold pushSub
  exact tr_modify fun s hp => ⟨⟨rfl, rfl, RelG.of_eq rfl rfl⟩, by dsimp only; rw [hp.idx]⟩
macro_rules | `(tactic| tr_prim) => `(tactic| with_reducible exact pushSub_tr _)

theorem popSub_tr' {n0 : Nat} {S : Spec} {z : Option Nat} {hs p} :
    Tr n0 S z hs p p.dropLast popSub := by
  unfold popSub
  exact tr_modify fun s hp => ⟨⟨rfl, rfl, RelG.of_eq rfl rfl⟩, by dsimp only; rw [hp.idx]⟩

theorem popSub_tr {n0 : Nat} {S : Spec} {z : Option Nat} {hs p} {i : Nat} :
    Tr n0 S z hs (p ++ [i]) p popSub := by
  have := popSub_tr' (n0 := n0) (S := S) (z := z) (hs := hs) (p := p ++ [i])
  simpa using this
macro_rules | `(tactic| tr_prim) => `(tactic| with_reducible exact popSub_tr)

theorem insertLabel_tr {n0 : Nat} {S : Spec} {z : Option Nat} {hs p} (h : UInt32) (pos : Nat) :
    Tr n0 S z hs p p (insertLabel h pos) := by
  unfold insertLabel; tr
macro_rules | `(tactic| tr_prim) => `(tactic| with_reducible exact insertLabel_tr _ _)

theorem patch_bytes_hi (at_ : Nat) (bs : List UInt8) (a : Array UInt8) :
    ∀ i, at_ + 4 ≤ i → ((List.range 4).foldl (fun a i => a.set! (at_ + i) (bs.getD i 0)) a)[i]? = a[i]? := by
  have hr : List.range 4 = [0, 1, 2, 3] := by decide
  simp only [hr, List.foldl_cons, List.foldl_nil, Array.set!_eq_setIfInBounds]
  intro i hi
  repeat rw [Array.getElem?_setIfInBounds_ne (by omega)]

/-- back-patching a pending hole -/
theorem patchI32_tr {n0 : Nat} {S : Spec} {z : Option Nat} {hs p} {at_ : Nat} (v : Nat) (h : at_ ∈ hs) :
    Tr n0 S z hs p p (patchI32 at_ v) := by
  unfold patchI32
  refine tr_modify fun s hp => ⟨⟨rfl, rfl, ?_⟩, hp.idx⟩
  obtain ⟨h1, h2⟩ := patch_bytes at_ (le32 (UInt32.ofNat v)) s.bytecode
  have h3 := patch_bytes_hi at_ (le32 (UInt32.ofNat v)) s.bytecode
  dsimp only
  refine ⟨by rw [h1]; exact Nat.le_refl _, fun e he => ?_, [], (List.append_nil _).symm, fun _ hp => nomatch hp⟩
  rcases (hp.safe.holes at_ h).2 e he with hlt | hge
  · exact h2 _ hlt
  · exact h3 _ hge
macro_rules | `(tactic| tr_prim) => `(tactic| with_reducible exact patchI32_tr _ (by simp))

theorem scopeBegin_tr {n0 : Nat} {S : Spec} {z : Option Nat} {hs p} : Tr n0 S z hs p p scopeBegin := by
  unfold scopeBegin; tr
macro_rules | `(tactic| tr_prim) => `(tactic| with_reducible exact scopeBegin_tr)

theorem scopeEnd_tr {n0 : Nat} {S : Spec} {z : Option Nat} {hs p} : Tr n0 S z hs p p scopeEnd := by
  unfold scopeEnd; tr
macro_rules | `(tactic| tr_prim) => `(tactic| with_reducible exact scopeEnd_tr)

theorem addLocalUnchecked_tr {n0 : Nat} {S : Spec} {z : Option Nat} {hs p} (n : String)
    (hL : Locs S p [.tooManyLocals]) : Tr n0 S z hs p p (addLocalUnchecked n) := by
  unfold addLocalUnchecked; tr
macro_rules | `(tactic| tr_prim) => `(tactic| with_reducible apply addLocalUnchecked_tr)

theorem validateVarName_tr {n0 : Nat} {S : Spec} {z : Option Nat} {hs p} (n : String)
    (hL : Locs S p [.emptyVariable]) : Tr n0 S z hs p p (validateVarName n) := by
  unfold validateVarName; tr
macro_rules | `(tactic| tr_prim) => `(tactic| with_reducible apply validateVarName_tr)

theorem addLocal_tr {n0 : Nat} {S : Spec} {z : Option Nat} {hs p} (n : String)
    (hL : Locs S p [.emptyVariable, .tooManyLocals]) : Tr n0 S z hs p p (addLocal n) := by
  unfold addLocal; tr
  all_goals tr_side
macro_rules | `(tactic| tr_prim) => `(tactic| with_reducible apply addLocal_tr)

theorem addUpvalue_tr {n0 : Nat} {S : Spec} {z : Option Nat} {hs p} (i : UInt8) (l : Bool) (f : Nat)
    (hL : Locs S p [.tooManyUpvalues]) : Tr n0 S z hs p p (addUpvalue i l f) := by
  unfold addUpvalue; tr
macro_rules | `(tactic| tr_prim) => `(tactic| with_reducible apply addUpvalue_tr)

theorem resolveUpvalue_tr {n0 : Nat} {S : Spec} {hs p} (n : String)
    (hL : Locs S p [.tooManyUpvalues]) : ∀ fid z, Tr n0 S z hs p p (resolveUpvalue n fid)
  | 0, z => by unfold resolveUpvalue; tr
  | fid+1, z => by
    have ih := fun z => resolveUpvalue_tr (n0 := n0) (hs := hs) n hL fid z
    unfold resolveUpvalue; tr
macro_rules | `(tactic| tr_prim) => `(tactic| with_reducible apply resolveUpvalue_tr)

theorem resolveVar_tr {n0 : Nat} {S : Spec} {z : Option Nat} {hs p} (n : String)
    (hL : Locs S p [.emptyVariable, .tooManyUpvalues]) : Tr n0 S z hs p p (resolveVar n) := by
  unfold resolveVar; tr
  all_goals tr_side
macro_rules | `(tactic| tr_prim) => `(tactic| with_reducible apply resolveVar_tr)

theorem readLocalVar_tr {n0 : Nat} {S : Spec} {z : Option Nat} {hs p} (i : Nat)
    (hO : Ops S p [op.readLocalVar]) : Tr n0 S z hs p p (readLocalVar i) := by unfold readLocalVar; tr
theorem writeLocalVar_tr {n0 : Nat} {S : Spec} {z : Option Nat} {hs p} (i : Nat)
    (hO : Ops S p [op.setLocalVar]) : Tr n0 S z hs p p (writeLocalVar i) := by unfold writeLocalVar; tr
theorem readUpvalue_tr {n0 : Nat} {S : Spec} {z : Option Nat} {hs p} (i : Nat)
    (hO : Ops S p [op.readUpvalue]) : Tr n0 S z hs p p (readUpvalue i) := by unfold readUpvalue; tr
theorem writeUpvalue_tr {n0 : Nat} {S : Spec} {z : Option Nat} {hs p} (i : Nat)
    (hO : Ops S p [op.setUpvalue]) : Tr n0 S z hs p p (writeUpvalue i) := by unfold writeUpvalue; tr
macro_rules | `(tactic| tr_prim) => `(tactic| with_reducible apply readLocalVar_tr)
macro_rules | `(tactic| tr_prim) => `(tactic| with_reducible apply writeLocalVar_tr)
macro_rules | `(tactic| tr_prim) => `(tactic| with_reducible apply readUpvalue_tr)
macro_rules | `(tactic| tr_prim) => `(tactic| with_reducible apply writeUpvalue_tr)

theorem pushStr_tr {n0 : Nat} {S : Spec} {z : Option Nat} {hs p} (x : String) :
    Tr n0 S z hs p p (pushStr x) := by unfold pushStr; tr
macro_rules | `(tactic| tr_prim) => `(tactic| with_reducible exact pushStr_tr _)

theorem globalId_tr {n0 : Nat} {S : Spec} {z : Option Nat} {hs p} (x : String) :
    Tr n0 S z hs p p (globalId x) := by unfold globalId; tr
macro_rules | `(tactic| tr_prim) => `(tactic| with_reducible exact globalId_tr _)

theorem readProps_tr {n0 : Nat} {S : Spec} {hs p} (hO : Ops S p [op.stringLiteral, op.getProperty]) :
    ∀ ps z, Tr n0 S z hs p p (readProps ps)
  | [], z => by unfold readProps; tr
  | x :: ps, z => by
    have ih := fun z => readProps_tr (n0 := n0) (hs := hs) hO ps z
    unfold readProps; tr
    all_goals tr_side
macro_rules | `(tactic| tr_prim) => `(tactic| with_reducible apply readProps_tr)

/-- the opcodes of a `ReadVar` card -/
def readVarOps : List UInt8 :=
  [op.readLocalVar, op.readUpvalue, op.readGlobalVar, op.stringLiteral, op.getProperty]

theorem readVarCard_tr {n0 : Nat} {S : Spec} {z : Option Nat} {hs p} (x : String)
    (hO : Ops S p readVarOps) (hL : Locs S p [.emptyVariable, .tooManyUpvalues]) :
    Tr n0 S z hs p p (readVarCard x) := by
  unfold readVarCard; tr
  all_goals tr_side
macro_rules | `(tactic| tr_prim) => `(tactic| with_reducible apply readVarCard_tr)

theorem resolveFunction_tr {n0 : Nat} {S : Spec} {z : Option Nat} {hs p} (x : String)
    (hL : Locs S p [.superLimitReached, .invalidJump]) : Tr n0 S z hs p p (resolveFunction x) := by
  unfold resolveFunction; tr
  all_goals tr_side
macro_rules | `(tactic| tr_prim) => `(tactic| with_reducible apply resolveFunction_tr)

theorem encodeJump_tr {n0 : Nat} {S : Spec} {z : Option Nat} {hs p} (x : String)
    (hL : Locs S p [.superLimitReached, .invalidJump]) : Tr n0 S z hs p p (encodeJump x) := by
  unfold encodeJump; tr
macro_rules | `(tactic| tr_prim) => `(tactic| with_reducible apply encodeJump_tr)

/-! ### the combinators of `processCard` -/

theorem cardLabel_tr {n0 : Nat} {S : Spec} {z : Option Nat} {hs p} : Tr n0 S z hs p p cardLabel := by
  unfold cardLabel; tr
macro_rules | `(tactic| tr_prim) => `(tactic| with_reducible exact cardLabel_tr)

theorem withSub_tr {n0 : Nat} {S : Spec} {z : Option Nat} {hs p} {i : Nat} {m : CM Unit}
    (hm : ∀ z hs, Tr n0 S z hs (p ++ [i]) (p ++ [i]) m) : Tr n0 S z hs p p (withSub i m) := by
  unfold withSub; tr
macro_rules | `(tactic| tr_prim) => `(tactic| with_reducible apply withSub_tr)

theorem encodeIfThen_tr {n0 : Nat} {S : Spec} {z : Option Nat} {hs p} {skip : UInt8} {m : CM Unit}
    (hm : ∀ z hs, Tr n0 S z hs p p m) (hO : Ops S p [skip]) : Tr n0 S z hs p p (encodeIfThen skip m) := by
  unfold encodeIfThen; tr
macro_rules | `(tactic| tr_prim) => `(tactic| with_reducible apply encodeIfThen_tr)

theorem addLocals_tr {n0 : Nat} {S : Spec} {hs p} (hL : Locs S p [.emptyVariable, .tooManyLocals]) :
    ∀ ps z, Tr n0 S z hs p p (addLocals ps)
  | [], z => by unfold addLocals; tr
  | x :: ps, z => by
    have ih := fun z => addLocals_tr (n0 := n0) (hs := hs) hL ps z
    unfold addLocals; tr
macro_rules | `(tactic| tr_prim) => `(tactic| with_reducible apply addLocals_tr)

theorem emitUpvalues_tr {n0 : Nat} {S : Spec} {hs p} (hO : Ops S p [op.copyLast, op.registerUpvalue]) :
    ∀ ups z, Tr n0 S z hs p p (emitUpvalues ups)
  | [], z => by unfold emitUpvalues; tr
  | (l, i) :: rest, z => by
    have ih := fun z => emitUpvalues_tr (n0 := n0) (hs := hs) hO rest z
    unfold emitUpvalues; tr
    all_goals tr_side
macro_rules | `(tactic| tr_prim) => `(tactic| with_reducible apply emitUpvalues_tr)

theorem scalarIntCode_tr {n0 : Nat} {S : Spec} {z : Option Nat} {hs p} (i : Int64)
    (hO : Ops S p [op.scalarInt]) : Tr n0 S z hs p p (scalarIntCode i) := by
  unfold scalarIntCode; tr
macro_rules | `(tactic| tr_prim) => `(tactic| with_reducible apply scalarIntCode_tr)

theorem processScalarInt_tr {n0 : Nat} {S : Spec} {z : Option Nat} {hs p} (i : Int64)
    (hO : Ops S p [op.scalarInt]) : Tr n0 S z hs p p (processScalarInt i) := by
  unfold processScalarInt; tr
macro_rules | `(tactic| tr_prim) => `(tactic| with_reducible apply processScalarInt_tr)

theorem bindLoopVar_tr {n0 : Nat} {S : Spec} {z : Option Nat} {hs p} (n : Option String) (src : Nat)
    (hO : Ops S p [op.readLocalVar, op.setLocalVar]) (hL : Locs S p [.emptyVariable, .tooManyLocals]) :
    Tr n0 S z hs p p (bindLoopVar n src) := by
  unfold bindLoopVar; tr
  all_goals tr_side
macro_rules | `(tactic| tr_prim) => `(tactic| with_reducible apply bindLoopVar_tr)

/-- opcodes labelled with the index of a `ForEach` card -/
def forEachOps : List UInt8 :=
  [op.beginForEach, op.forEach, op.gotoIfFalse, op.readLocalVar, op.setLocalVar, op.goto]

theorem forEachCode_tr {n0 : Nat} {S : Spec} {z : Option Nat} {hs p} {i kk v : Option String}
    {it body : CM Unit} (h1 : ∀ z hs, Tr n0 S z hs (p ++ [0]) (p ++ [0]) it)
    (h2 : ∀ z hs, Tr n0 S z hs (p ++ [1]) (p ++ [1]) body)
    (hO : Ops S p forEachOps) (hL : Locs S p [.emptyVariable, .tooManyLocals]) :
    Tr n0 S z hs p p (forEachCode i kk v it body) := by
  unfold forEachCode; tr
  all_goals tr_side

/-- opcodes a `While` card labels with the index of its child 1 -/
def whileChildOps : List UInt8 := [op.gotoIfFalse, op.goto]

theorem whileCode_tr {n0 : Nat} {S : Spec} {z : Option Nat} {hs p} {c b : CM Unit}
    (h1 : ∀ z hs, Tr n0 S z hs (p ++ [0]) (p ++ [0]) c)
    (h2 : ∀ z hs, Tr n0 S z hs (p ++ [1]) (p ++ [1]) b)
    (hO1 : Ops S (p ++ [1]) whileChildOps) : Tr n0 S z hs p p (whileCode c b) := by
  unfold whileCode; tr
  all_goals tr_side

/-- opcodes labelled with the index of a `Repeat` card -/
def repeatOps : List UInt8 :=
  [op.setLocalVar, op.scalarInt, op.readLocalVar, op.less, op.gotoIfFalse, op.add, op.goto]

theorem repeatCode_tr {n0 : Nat} {S : Spec} {z : Option Nat} {hs p} {i : Option String} {n b : CM Unit}
    (h1 : ∀ z hs, Tr n0 S z hs (p ++ [0]) (p ++ [0]) n)
    (h2 : ∀ z hs, Tr n0 S z hs (p ++ [1]) (p ++ [1]) b)
    (hO : Ops S p repeatOps) (hL : Locs S p [.emptyVariable, .tooManyLocals]) :
    Tr n0 S z hs p p (repeatCode i n b) := by
  unfold repeatCode; tr
  all_goals tr_side

/-- opcodes labelled with the index of a `SetVar` card -/
def setVarOps : List UInt8 :=
  [op.setLocalVar, op.setUpvalue, op.readLocalVar, op.readUpvalue, op.readGlobalVar, op.stringLiteral,
   op.getProperty, op.setProperty]

theorem setVarTarget_tr {n0 : Nat} {S : Spec} {z : Option Nat} {hs p} (n : String)
    (hO : Ops S p setVarOps) (hL : Locs S p [.emptyVariable, .tooManyLocals, .tooManyUpvalues]) :
    Tr n0 S z hs p p (setVarTarget n) := by
  unfold setVarTarget; tr
  all_goals tr_side
macro_rules | `(tactic| tr_prim) => `(tactic| with_reducible apply setVarTarget_tr)

theorem setVarCode_tr {n0 : Nat} {S : Spec} {z : Option Nat} {hs p} {n : String} {v : CM Unit}
    (h : ∀ z hs, Tr n0 S z hs (p ++ [0]) (p ++ [0]) v)
    (hO : Ops S p setVarOps) (hL : Locs S p [.emptyVariable, .tooManyLocals, .tooManyUpvalues]) :
    Tr n0 S z hs p p (setVarCode n v) := by
  unfold setVarCode; tr

theorem setGlobalVarCode_tr {n0 : Nat} {S : Spec} {z : Option Nat} {hs p} {n : String} {v : CM Unit}
    (h : ∀ z hs, Tr n0 S z hs (p ++ [0]) (p ++ [0]) v)
    (hO : Ops S p [op.setGlobalVar]) (hL : Locs S p [.emptyVariable]) :
    Tr n0 S z hs p p (setGlobalVarCode n v) := by
  unfold setGlobalVarCode; tr

theorem ifCode_tr {n0 : Nat} {S : Spec} {z : Option Nat} {hs p} {skip : UInt8} {c b : CM Unit}
    (h1 : ∀ z hs, Tr n0 S z hs (p ++ [0]) (p ++ [0]) c)
    (h2 : ∀ z hs, Tr n0 S z hs (p ++ [1]) (p ++ [1]) b)
    (hO1 : Ops S (p ++ [1]) [skip]) : Tr n0 S z hs p p (ifCode skip c b) := by
  unfold ifCode; tr

theorem callCode_tr {n0 : Nat} {S : Spec} {z : Option Nat} {hs p} {n : String} {a : CM Unit}
    (h : ∀ z hs, Tr n0 S z hs p p a) (hO : Ops S p [op.functionPointer, op.callFunction])
    (hL : Locs S p [.superLimitReached, .invalidJump]) : Tr n0 S z hs p p (callCode n a) := by
  unfold callCode; tr
  all_goals tr_side

theorem callNativeCode_tr {n0 : Nat} {S : Spec} {z : Option Nat} {hs p} {n : String} {a : CM Unit}
    (h : ∀ z hs, Tr n0 S z hs p p a) (hO : Ops S p [op.callNative]) :
    Tr n0 S z hs p p (callNativeCode n a) := by
  unfold callNativeCode; tr

theorem compileBegin_tr {n0 : Nat} {S : Spec} {z : Option Nat} {hs p} : Tr n0 S z hs p p compileBegin := by
  unfold compileBegin; tr
theorem compileEnd_tr {n0 : Nat} {S : Spec} {z : Option Nat} {hs p} : Tr n0 S z hs p p compileEnd := by
  unfold compileEnd; tr
macro_rules | `(tactic| tr_prim) => `(tactic| with_reducible exact compileBegin_tr)
macro_rules | `(tactic| tr_prim) => `(tactic| with_reducible exact compileEnd_tr)

/-- opcodes labelled with the index of a `Closure` card -/
def closureOps : List UInt8 :=
  [op.goto, op.scalarNil, op.ret, op.closure, op.copyLast, op.registerUpvalue]

theorem closureCode_tr {n0 : Nat} {S : Spec} {z : Option Nat} {hs p} {args : List String} {b : CM Unit}
    (h : ∀ z hs, Tr n0 S z hs p p b) (hO : Ops S p closureOps)
    (hL : Locs S p [.emptyVariable, .tooManyLocals]) : Tr n0 S z hs p p (closureCode args b) := by
  unfold closureCode; tr
  all_goals tr_side

/-- opcodes labelled with the index of an `Array` card -/
def arrayOps : List UInt8 :=
  [op.initTable, op.setLocalVar, op.readLocalVar, op.scalarNil, op.appendTable]

theorem arrayCode_tr {n0 : Nat} {S : Spec} {z : Option Nat} {hs p} {items : Nat → CM Unit}
    (h : ∀ tv z hs, Tr n0 S z hs p p (items tv)) (hO : Ops S p arrayOps)
    (hL : Locs S p [.tooManyLocals]) : Tr n0 S z hs p p (arrayCode items) := by
  unfold arrayCode; tr
  all_goals first | exact h _ _ _ | tr_side

theorem unCode_tr {n0 : Nat} {S : Spec} {z : Option Nat} {hs p} {u : UnKind} {c : CM Unit}
    (h : ∀ z hs, Tr n0 S z hs (p ++ [0]) (p ++ [0]) c) (hO : Ops S p [unOp u]) :
    Tr n0 S z hs p p (unCode u c) := by
  unfold unCode; tr

theorem dynamicCallCode_tr {n0 : Nat} {S : Spec} {z : Option Nat} {hs p} {a f : CM Unit}
    (h1 : ∀ z hs, Tr n0 S z hs p p a) (h2 : ∀ z hs, Tr n0 S z hs (p ++ [0]) (p ++ [0]) f)
    (hO : Ops S p [op.callFunction]) : Tr n0 S z hs p p (dynamicCallCode a f) := by
  unfold dynamicCallCode; tr

/-! ### `IfElse`: the position of the `Goto` operand is returned through `encodeIfThenRet` -/

/-- a `Nat`-valued action whose result is a reserved operand hole -/
structure TrH (n0 : Nat) (S : Spec) (z : Option Nat) (hs : List Nat) (p q : List Nat) (m : CM Nat) : Prop where
  tr : Tr n0 S z hs p q m
  hole : ∀ s a s', m s = .ok (a, s') → Pre n0 z hs p s → Safe n0 (a :: hs) s'

theorem Safe.cons {n0 : Nat} {hs : List Nat} {s : CState} {a : Nat} (h : Safe n0 hs s)
    (h1 : a + 4 ≤ s.bytecode.size) (h2 : ∀ e ∈ s.trace.drop n0, e.1 < a ∨ a + 4 ≤ e.1) :
    Safe n0 (a :: hs) s :=
  ⟨h.len, h.keys, fun x hx => by
    rcases List.mem_cons.1 hx with rfl | hx
    · exact ⟨h1, h2⟩
    · exact h.holes x hx⟩

theorem trh_bind {α : Type} {n0 : Nat} {S : Spec} {z : Option Nat} {hs p q r} {m : CM α} {f : α → CM Nat}
    (hm : Tr n0 S z hs p q m) (hf : ∀ a, TrH n0 S none hs q r (f a)) : TrH n0 S z hs p r (m >>= f) := by
  refine ⟨tr_bind hm fun a => (hf a).tr, ?_⟩
  intro s b s'' h hp
  obtain ⟨a, s', h1, h2⟩ := bind_ok.1 h
  obtain ⟨r1, q1⟩ := hm.ok s a s' h1 hp
  exact (hf a).hole s' b s'' h2 ⟨q1, (fun _ hn => nomatch hn), hp.safe.step r1.rel⟩

theorem trh_get_bind {n0 : Nat} {S : Spec} {z : Option Nat} {hs p q} {f : CState → CM Nat}
    (hf : ∀ st, TrH n0 S (some st.bytecode.size) hs p q (f st)) : TrH n0 S z hs p q (get >>= f) := by
  refine ⟨tr_get_bind fun st => (hf st).tr, ?_⟩
  intro s b s'' h hp
  obtain ⟨a, s', h1, h2⟩ := bind_ok.1 h
  simp only [get_run, Except.ok.injEq, Prod.mk.injEq] at h1
  obtain ⟨rfl, rfl⟩ := h1
  exact (hf s).hole s b s'' h2 ⟨hp.idx, fun _ hn => by cases hn; rfl, hp.safe⟩

/-- reserve an operand and return its position -/
theorem trh_hole_pure {n0 : Nat} {S : Spec} {n : Nat} {hs p} {x : Nat} :
    TrH n0 S (some n) hs p p (emitU32 x >>= fun _ => pure n) := by
  have h0 : Tr n0 S (some n) hs p p (emitU32 x >>= fun _ => (pure n : CM Nat)) := by tr
  refine ⟨h0, ?_⟩
  intro s b s'' h hp
  obtain ⟨r1, _⟩ := h0.ok s b s'' h hp
  obtain ⟨a, s', h1, h2⟩ := bind_ok.1 h
  simp only [pure_run, Except.ok.injEq, Prod.mk.injEq] at h2
  obtain ⟨rfl, rfl⟩ := h2
  have hsz := hp.size _ rfl
  simp only [emitU32, emitBytes, modify_run, Except.ok.injEq, Prod.mk.injEq] at h1
  obtain ⟨_, rfl⟩ := h1
  refine (hp.safe.step r1.rel).cons ?_ fun e he => .inl ?_
  · dsimp only; rw [foldl_push_eq]; simp [le32_length, hsz]
  · rw [← hsz]; exact hp.safe.keys e he

theorem trh_hole_bind {n0 : Nat} {S : Spec} {n : Nat} {hs p q} {x : Nat} {f : Unit → CM Nat}
    (hf : ∀ u, TrH n0 S none (n :: hs) p q (f u)) : TrH n0 S (some n) hs p q (emitU32 x >>= f) := by
  have h0 := tr_hole_bind (x := x) fun u => (hf u).tr
  refine ⟨h0, ?_⟩
  intro s b s'' h hp
  obtain ⟨a, s', h1, h2⟩ := bind_ok.1 h
  -- the state after `emitU32` satisfies the precondition with the new hole
  have h1' : (emitU32 x >>= fun u => (pure u : CM Unit)) s = .ok (a, s') := by
    apply bind_ok.2; exact ⟨a, s', h1, rfl⟩
  have hpre : Pre n0 none (n :: hs) p s' := by
    have hh := (trh_hole_pure (n0 := n0) (S := S) (n := n) (hs := hs) (p := p) (x := x)).hole s n s'
      (by apply bind_ok.2; exact ⟨a, s', h1, rfl⟩) hp
    obtain ⟨r1, q1⟩ := (emitU32_tr (S := S) x).ok s a s' h1 hp
    exact ⟨q1, (fun _ hn => nomatch hn), hh⟩
  have := (hf a).hole s' b s'' h2 hpre
  exact this.weaken fun y hy => by
    rcases List.mem_cons.1 hy with rfl | hy
    · exact List.mem_cons_self ..
    · exact List.mem_cons_of_mem _ (List.mem_cons_of_mem _ hy)

/-- use the returned hole in the continuation -/
theorem tr_of_trh_bind {β : Type} {n0 : Nat} {S : Spec} {z : Option Nat} {hs p q r} {m : CM Nat}
    {f : Nat → CM β} (hm : TrH n0 S z hs p q m) (hf : ∀ a, Tr n0 S none (a :: hs) q r (f a)) :
    Tr n0 S z hs p r (m >>= f) := by
  have key : ∀ s a s', m s = .ok (a, s') → Pre n0 z hs p s → Pre n0 none (a :: hs) q s' := by
    intro s a s' h1 hp
    exact ⟨(hm.tr.ok s a s' h1 hp).2, (fun _ hn => nomatch hn), hm.hole s a s' h1 hp⟩
  constructor
  · intro s b s'' h hp
    obtain ⟨a, s', h1, h2⟩ := bind_ok.1 h
    obtain ⟨r1, _⟩ := hm.tr.ok s a s' h1 hp
    obtain ⟨r2, q2⟩ := (hf a).ok s' b s'' h2 (key s a s' h1 hp)
    exact ⟨Rel.trans hp.safe.len r1 r2, q2⟩
  · intro s k t h hp
    rcases bind_err.1 h with h | ⟨a, s', h1, h2⟩
    · exact hm.tr.err s k t h hp
    · obtain ⟨r1, _⟩ := hm.tr.ok s a s' h1 hp
      obtain ⟨t', e, x1, x2, x3⟩ := (hf a).err s' k t h2 (key s a s' h1 hp)
      exact ⟨t', e, x1.trans r1.ns, x2.trans r1.fn, x3⟩

/-- run more code after the hole-returning action, then return the hole -/
theorem trh_ret {n0 : Nat} {S : Spec} {z : Option Nat} {hs p q r} {m : CM Nat} {g : Nat → CM Nat}
    (hm : TrH n0 S z hs p q m) (hg : ∀ a, Tr n0 S none (a :: hs) q r (g a))
    (hv : ∀ a s b s', g a s = .ok (b, s') → b = a) : TrH n0 S z hs p r (m >>= g) := by
  refine ⟨tr_of_trh_bind hm hg, ?_⟩
  intro s b s'' h hp
  obtain ⟨a, s', h1, h2⟩ := bind_ok.1 h
  have hb := hv a s' b s'' h2
  subst hb
  have hpre : Pre n0 none (b :: hs) q s' :=
    ⟨(hm.tr.ok s b s' h1 hp).2, (fun _ hn => nomatch hn), hm.hole s b s' h1 hp⟩
  obtain ⟨r2, _⟩ := (hg b).ok s' b s'' h2 hpre
  exact (hm.hole s b s' h1 hp).step r2.rel

theorem encodeIfThenRet_trh {n0 : Nat} {S : Spec} {z : Option Nat} {hs p} {skip : UInt8} {m : CM Nat}
    (hm : ∀ z hs, TrH n0 S z hs p p m) (hO : Ops S p [skip]) :
    TrH n0 S z hs p p (encodeIfThenRet skip m) := by
  unfold encodeIfThenRet
  refine trh_bind (pushInstr_tr hO) fun _ => trh_get_bind fun st => trh_hole_bind fun _ => ?_
  refine trh_ret (hm _ _) (fun a => by tr) ?_
  intro a s b s' h
  obtain ⟨st', s1, h1, h2⟩ := bind_ok.1 h
  obtain ⟨u, s2, _, h4⟩ := bind_ok.1 h2
  simp only [pure_run, Except.ok.injEq, Prod.mk.injEq] at h4
  exact h4.1.symm

/-- opcodes an `IfElse` card labels with the index of its child 1 -/
def ifElseChildOps : List UInt8 := [op.gotoIfFalse, op.goto]

theorem ifElseCode_tr {n0 : Nat} {S : Spec} {z : Option Nat} {hs p} {c t e : CM Unit}
    (h1 : ∀ z hs, Tr n0 S z hs (p ++ [0]) (p ++ [0]) c)
    (h2 : ∀ z hs, Tr n0 S z hs (p ++ [1]) (p ++ [1]) t)
    (h3 : ∀ z hs, Tr n0 S z hs (p ++ [2]) (p ++ [2]) e)
    (hO1 : Ops S (p ++ [1]) ifElseChildOps) : Tr n0 S z hs p p (ifElseCode c t e) := by
  unfold ifElseCode
  refine tr_bind (withSub_tr h1) fun _ => tr_bind (pushSub_tr 1) fun _ => ?_
  refine tr_of_trh_bind (q := p ++ [1]) ?_ fun idx => by tr
  apply encodeIfThenRet_trh
  · intro z hs
    refine trh_bind (h2 _ _) fun _ => trh_bind (pushInstr_tr (by tr_side)) fun _ => ?_
    exact trh_get_bind fun st => trh_hole_pure
  · tr_side

/-- opcodes a two-children card labels with its own index … -/
def binOwnOps : BinKind → List UInt8
  | .while | .ifTrue | .ifFalse => []
  | k => [binOp k]

/-- … and with the index of its child 1 -/
def binChildOps : BinKind → List UInt8
  | .while => whileChildOps
  | .ifTrue => [op.gotoIfFalse]
  | .ifFalse => [op.gotoIfTrue]
  | _ => []

theorem binCode_tr {n0 : Nat} {S : Spec} {z : Option Nat} {hs p} {bk : BinKind} {a b : CM Unit}
    (h1 : ∀ z hs, Tr n0 S z hs (p ++ [0]) (p ++ [0]) a)
    (h2 : ∀ z hs, Tr n0 S z hs (p ++ [1]) (p ++ [1]) b)
    (hO : Ops S p (binOwnOps bk)) (hO1 : Ops S (p ++ [1]) (binChildOps bk)) :
    Tr n0 S z hs p p (binCode bk a b) := by
  unfold binCode
  split
  · exact whileCode_tr h1 h2 hO1
  · exact ifCode_tr h1 h2 hO1
  · exact ifCode_tr h1 h2 hO1
  · rename_i k hw hf ht
    have hk : binOwnOps bk = [binOp bk] := by cases bk <;> simp_all [binOwnOps]
    rw [hk] at hO
    tr

def triOwnOps : TriKind → List UInt8
  | .ifElse => []
  | .setProperty => [op.setProperty]

def triChildOps : TriKind → List UInt8
  | .ifElse => ifElseChildOps
  | .setProperty => []

theorem triCode_tr {n0 : Nat} {S : Spec} {z : Option Nat} {hs p} {tk : TriKind} {a b c : CM Unit}
    (h1 : ∀ z hs, Tr n0 S z hs (p ++ [0]) (p ++ [0]) a)
    (h2 : ∀ z hs, Tr n0 S z hs (p ++ [1]) (p ++ [1]) b)
    (h3 : ∀ z hs, Tr n0 S z hs (p ++ [2]) (p ++ [2]) c)
    (hO : Ops S p (triOwnOps tk)) (hO1 : Ops S (p ++ [1]) (triChildOps tk)) :
    Tr n0 S z hs p p (triCode tk a b c) := by
  unfold triCode
  split
  · exact ifElseCode_tr h1 h2 h3 hO1
  · tr
    all_goals tr_side

/-! ## which opcodes a card labels -/

/-- the opcodes that the arm of `processCard` for `d` emits (through `pushInstr`) while the position
is the index of `d` itself -/
def ownOps : Card → List UInt8
  | .bin k _ _ => binOwnOps k
  | .un k _ => [unOp k]
  | .tri k _ _ _ => triOwnOps k
  | .scalarNil => [op.scalarNil]
  | .createTable => [op.initTable]
  | .abort => [op.exit]
  | .scalarInt _ => [op.scalarInt]
  | .scalarFloat _ => [op.scalarFloat]
  | .stringLiteral _ => [op.stringLiteral]
  | .comment _ => []
  | .function _ => [op.functionPointer]
  | .nativeFunction _ => [op.nativeFunctionPointer]
  | .readVar _ => readVarOps
  | .setVar _ _ => setVarOps
  | .setGlobalVar _ _ => [op.setGlobalVar]
  | .callNative _ _ => [op.callNative]
  | .call _ _ => [op.functionPointer, op.callFunction]
  | .repeat _ _ _ => repeatOps
  | .forEach _ _ _ _ _ => forEachOps
  | .composite _ _ => []
  | .dynamicCall _ _ => [op.callFunction]
  | .array _ => arrayOps
  | .closure _ _ => closureOps

/-- the opcodes that the arm for `d` emits while the position is the index of `d`'s child `i`
(the conditional / backward jumps of `While`, `IfTrue`, `IfFalse`, `IfElse` are emitted after
`push_sub(1)`, i.e. they are labelled with the index of the *body* child) -/
def childOps : Card → Nat → List UInt8
  | .bin k _ _, 1 => binChildOps k
  | .tri k _ _ _, 1 => triChildOps k
  | _, _ => []

/-- opcode `o` may be labelled with the sub-card of `c` at path `suf`: it is one of the sub-card's
own opcodes, or one of those its parent emits under the child's index -/
def Attr (c : Card) (suf : List Nat) (o : UInt8) : Prop :=
  (∃ d, c.getPath suf = some d ∧ o ∈ ownOps d) ∨
  (∃ pre i par, suf = pre ++ [i] ∧ c.getPath pre = some par ∧ o ∈ childOps par i)

/-- the specification of `processCard c` run at position `idx` -/
def cardSpec (idx : List Nat) (c : Card) : Spec where
  op l o := ∃ suf d, l = idx ++ suf ∧ c.getPath suf = some d ∧ Attr c suf o
  loc _ l := ∃ suf d, l = idx ++ suf ∧ c.getPath suf = some d

theorem cardSpec_ops (idx : List Nat) (c : Card) : Ops (cardSpec idx c) idx (ownOps c) :=
  ⟨fun o ho => ⟨[], c, by simp, rfl, .inl ⟨c, rfl, ho⟩⟩⟩

theorem cardSpec_locs (idx : List Nat) (c : Card) (K : List CErrKind) : Locs (cardSpec idx c) idx K :=
  ⟨fun _ _ => ⟨[], c, by simp, rfl⟩⟩

theorem getPath_cons_of_getChild {c a : Card} {i : Nat} (h : c.getChild i = some a) (suf : List Nat) :
    c.getPath (i :: suf) = a.getPath suf := by
  simp [Card.getPath, h]

theorem cardSpec_childOps {idx : List Nat} {c a : Card} {i : Nat} (h : c.getChild i = some a) :
    Ops (cardSpec idx c) (idx ++ [i]) (childOps c i) :=
  ⟨fun o ho => ⟨[i], a, rfl, by rw [getPath_cons_of_getChild h]; rfl,
    .inr ⟨[], i, c, rfl, rfl, ho⟩⟩⟩

theorem cardSpec_child {idx : List Nat} {c a : Card} {i : Nat} (h : c.getChild i = some a) :
    SubSpec (cardSpec (idx ++ [i]) a) (cardSpec idx c) := by
  constructor
  · rintro l o ⟨suf, d, rfl, hd, hat⟩
    refine ⟨i :: suf, d, by simp, by rw [getPath_cons_of_getChild h]; exact hd, ?_⟩
    rcases hat with ⟨d', h1, h2⟩ | ⟨pre, j, par, h1, h2, h3⟩
    · exact .inl ⟨d', by rw [getPath_cons_of_getChild h]; exact h1, h2⟩
    · exact .inr ⟨i :: pre, j, par, by simp [h1], by rw [getPath_cons_of_getChild h]; exact h2, h3⟩
  · rintro k l ⟨suf, d, rfl, hd⟩
    exact ⟨i :: suf, d, by simp, by rw [getPath_cons_of_getChild h]; exact hd⟩

theorem ih_child {c a : Card} {i : Nat} (hc : c.getChild i = some a)
    (ih : ∀ n0 idx z hs, Tr n0 (cardSpec idx a) z hs idx idx (processCard a)) {n0 : Nat} {idx : List Nat} :
    ∀ z hs, Tr n0 (cardSpec idx c) z hs (idx ++ [i]) (idx ++ [i]) (processCard a) :=
  fun z hs => (ih n0 (idx ++ [i]) z hs).mono_spec (cardSpec_child hc)

/-- the specification of the three mutually recursive functions -/
theorem processCard_tr_all :
    (∀ c n0 idx z hs, Tr n0 (cardSpec idx c) z hs idx idx (processCard c)) ∧
    (∀ tv i cs n0 S idx z hs, (∀ j a, cs[j]? = some a → SubSpec (cardSpec (idx ++ [i + j]) a) S) →
      Ops S idx [op.scalarNil, op.readLocalVar, op.appendTable] →
      Tr n0 S z hs idx idx (processArrayItems tv i cs)) ∧
    (∀ i cs n0 S idx z hs, (∀ j a, cs[j]? = some a → SubSpec (cardSpec (idx ++ [i + j]) a) S) →
      Tr n0 S z hs idx idx (compileSubexprFrom i cs)) := by
  apply processCard.mutual_induct
    (motive_1 := fun c => ∀ n0 idx z hs, Tr n0 (cardSpec idx c) z hs idx idx (processCard c))
    (motive_2 := fun tv i cs => ∀ n0 S idx z hs,
      (∀ j a, cs[j]? = some a → SubSpec (cardSpec (idx ++ [i + j]) a) S) →
      Ops S idx [op.scalarNil, op.readLocalVar, op.appendTable] →
      Tr n0 S z hs idx idx (processArrayItems tv i cs))
    (motive_3 := fun i cs => ∀ n0 S idx z hs,
      (∀ j a, cs[j]? = some a → SubSpec (cardSpec (idx ++ [i + j]) a) S) →
      Tr n0 S z hs idx idx (compileSubexprFrom i cs))
  case case1 =>
    intro ty cards ih3 n0 idx z hs
    simp only [processCard]
    exact tr_bind cardLabel_tr fun _ => ih3 n0 _ idx _ hs fun j a hj =>
      cardSpec_child (by simpa [Card.getChild] using hj)
  case case2 =>
    intro i k v it body ih1 ih2 n0 idx z hs
    simp only [processCard]
    exact tr_bind cardLabel_tr fun _ => forEachCode_tr (ih_child rfl ih1) (ih_child rfl ih2)
      (cardSpec_ops _ _) (cardSpec_locs _ _ _)
  case case3 =>
    intro i n body ih1 ih2 n0 idx z hs
    simp only [processCard]
    exact tr_bind cardLabel_tr fun _ => repeatCode_tr (ih_child rfl ih1) (ih_child rfl ih2)
      (cardSpec_ops _ _) (cardSpec_locs _ _ _)
  case case4 =>
    intro v n0 idx z hs
    simp only [processCard]
    exact tr_bind cardLabel_tr fun _ => readVarCard_tr _ (cardSpec_ops _ _) (cardSpec_locs _ _ _)
  case case5 =>
    intro name value ih1 n0 idx z hs
    simp only [processCard]
    exact tr_bind cardLabel_tr fun _ => setVarCode_tr (ih_child rfl ih1)
      (cardSpec_ops _ _) (cardSpec_locs _ _ _)
  case case6 =>
    intro name value ih1 n0 idx z hs
    simp only [processCard]
    exact tr_bind cardLabel_tr fun _ => setGlobalVarCode_tr (ih_child rfl ih1)
      (cardSpec_ops _ _) (cardSpec_locs _ _ _)
  case case7 =>
    intro name args ih3 n0 idx z hs
    simp only [processCard]
    exact tr_bind cardLabel_tr fun _ => callCode_tr
      (fun z hs => ih3 n0 _ idx z hs fun j a hj => cardSpec_child (by simpa [Card.getChild] using hj))
      (cardSpec_ops _ _) (cardSpec_locs _ _ _)
  case case8 =>
    intro s n0 idx z hs
    simp only [processCard]
    have hO := cardSpec_ops idx (.stringLiteral s)
    tr
  case case9 =>
    intro name args ih3 n0 idx z hs
    simp only [processCard]
    exact tr_bind cardLabel_tr fun _ => callNativeCode_tr
      (fun z hs => ih3 n0 _ idx z hs fun j a hj => cardSpec_child (by simpa [Card.getChild] using hj))
      (cardSpec_ops _ _)
  case case10 =>
    intro i n0 idx z hs
    simp only [processCard]
    exact tr_bind cardLabel_tr fun _ => scalarIntCode_tr _ (cardSpec_ops _ _)
  case case11 =>
    intro b n0 idx z hs
    simp only [processCard]
    have hO := cardSpec_ops idx (.scalarFloat b)
    tr
  case case12 =>
    intro name n0 idx z hs
    simp only [processCard]
    have hO := cardSpec_ops idx (.function name)
    have hL := cardSpec_locs idx (.function name) [.superLimitReached, .invalidJump]
    tr
  case case13 =>
    intro arguments cards ih3 n0 idx z hs
    simp only [processCard]
    exact tr_bind cardLabel_tr fun _ => closureCode_tr
      (fun z hs => ih3 n0 _ idx z hs fun j a hj => cardSpec_child (by simpa [Card.getChild] using hj))
      (cardSpec_ops _ _) (cardSpec_locs _ _ _)
  case case14 =>
    intro name n0 idx z hs
    simp only [processCard]
    have hO := cardSpec_ops idx (.nativeFunction name)
    tr
  case case15 =>
    intro cards ih2 n0 idx z hs
    simp only [processCard]
    exact tr_bind cardLabel_tr fun _ => arrayCode_tr
      (fun tv z hs => ih2 tv n0 _ idx z hs
        (fun j a hj => cardSpec_child (by simpa [Card.getChild] using hj))
        ((cardSpec_ops idx (.array cards)).sub (by simp [ownOps, arrayOps])))
      (cardSpec_ops _ _) (cardSpec_locs _ _ _)
  case case16 =>
    intro k c ih1 n0 idx z hs
    simp only [processCard]
    exact tr_bind cardLabel_tr fun _ => unCode_tr (ih_child rfl ih1) (cardSpec_ops _ _)
  case case17 =>
    intro k a b ih1 ih2 n0 idx z hs
    simp only [processCard]
    exact tr_bind cardLabel_tr fun _ => binCode_tr (ih_child rfl ih1) (ih_child rfl ih2)
      (cardSpec_ops _ _) (cardSpec_childOps (a := b) rfl)
  case case18 =>
    intro k a b c ih1 ih2 ih3 n0 idx z hs
    simp only [processCard]
    exact tr_bind cardLabel_tr fun _ => triCode_tr (ih_child rfl ih1) (ih_child rfl ih2) (ih_child rfl ih3)
      (cardSpec_ops _ _) (cardSpec_childOps (a := b) rfl)
  case case19 =>
    intro args function ih3 ih1 n0 idx z hs
    simp only [processCard]
    exact tr_bind cardLabel_tr fun _ => dynamicCallCode_tr
      (fun z hs => ih3 n0 _ idx z hs fun j a hj =>
        cardSpec_child (by rw [Nat.add_comm]; simpa [Card.getChild] using hj))
      (ih_child rfl ih1) (cardSpec_ops _ _)
  case case20 =>
    intro n0 idx z hs
    simp only [processCard]
    have hO := cardSpec_ops idx .scalarNil
    tr
  case case21 =>
    intro n0 idx z hs
    simp only [processCard]
    have hO := cardSpec_ops idx .abort
    tr
  case case22 =>
    intro n0 idx z hs
    simp only [processCard]
    have hO := cardSpec_ops idx .createTable
    tr
  case case23 =>
    intro s n0 idx z hs
    simp only [processCard]
    tr
  case case24 =>
    intro tv x n0 S idx z hs _ _
    simp only [processArrayItems]
    tr
  case case25 =>
    intro tv i c cs ihc ihcs n0 S idx z hs hsub hO
    simp only [processArrayItems]
    have h1 : ∀ z hs, Tr n0 S z hs (idx ++ [i]) (idx ++ [i]) (processCard c) := fun z hs =>
      (ihc n0 (idx ++ [i]) z hs).mono_spec (by simpa using hsub 0 c (by simp))
    have h2 : ∀ z, Tr n0 S z hs idx idx (processArrayItems tv (i + 1) cs) := fun z =>
      ihcs n0 S idx z hs (fun j a hj => by
        have := hsub (j + 1) a (by simpa using hj)
        rwa [show i + (j + 1) = i + 1 + j by omega] at this) hO
    tr
    all_goals tr_side
  case case26 =>
    intro x n0 S idx z hs _
    simp only [compileSubexprFrom]
    tr
  case case27 =>
    intro i c cs ihc ihcs n0 S idx z hs hsub
    simp only [compileSubexprFrom]
    have h1 : ∀ z hs, Tr n0 S z hs (idx ++ [i]) (idx ++ [i]) (processCard c) := fun z hs =>
      (ihc n0 (idx ++ [i]) z hs).mono_spec (by simpa using hsub 0 c (by simp))
    have h2 : ∀ z, Tr n0 S z hs idx idx (compileSubexprFrom (i + 1) cs) := fun z =>
      ihcs n0 S idx z hs (fun j a hj => by
        have := hsub (j + 1) a (by simpa using hj)
        rwa [show i + (j + 1) = i + 1 + j by omega] at this)
    tr

theorem processCard_tr (c : Card) (n0 : Nat) (idx : List Nat) (z : Option Nat) (hs : List Nat) :
    Tr n0 (cardSpec idx c) z hs idx idx (processCard c) := processCard_tr_all.1 c n0 idx z hs

/-! ## a whole function, the whole unit -/

/-- the opcodes of the implicit function epilogues (`ScalarNil; Return` at the end of a function,
`Exit` after `main` and at the very end of the program) -/
def epilogueOps : List UInt8 := [op.scalarNil, op.ret, op.exit]

/-- the position after the loop over the top-level cards -/
def lastIdx (p : List Nat) : Nat → List Card → List Nat
  | _, [] => p
  | ic, _ :: cs => lastIdx [ic] (ic + 1) cs

theorem lastIdx_length {p : List Nat} (hp : p.length ≤ 1) : ∀ ic cs, (lastIdx p ic cs).length ≤ 1
  | _, [] => hp
  | ic, _ :: cs => lastIdx_length (p := [ic]) (by simp) (ic + 1) cs

/-- closed form: the index of the last card, or the initial position when there is no card -/
theorem lastIdx_eq (p : List Nat) : ∀ (ic : Nat) (cs : List Card),
    lastIdx p ic cs = if cs = [] then p else [ic + cs.length - 1]
  | _, [] => rfl
  | ic, c :: cs => by
    rw [lastIdx, lastIdx_eq [ic] (ic + 1) cs]
    cases cs with
    | nil => simp
    | cons d ds => simp only [reduceCtorEq, if_false, List.length_cons]; congr 1; omega

/-- the index lists of the implicit epilogue instructions of a function with top-level cards
`cards`: one past the last card (the `Exit` after `main`), or the position after the loop over the
cards (index of the last card, `[]` when there is none) -/
def EpiloguePos (cards : List Card) (l : List Nat) : Prop :=
  l = [cards.length] ∨ l = lastIdx [] 0 cards

theorem EpiloguePos.length_le {cards : List Card} {l : List Nat} (h : EpiloguePos cards l) :
    l.length ≤ 1 := by
  rcases h with rfl | rfl
  · simp
  · exact lastIdx_length (by simp) _ _

/-- the positions at which the arguments of a function are bound: `[0]` for `main`, `[]` otherwise -/
def HeaderPos (l : List Nat) : Prop := l = [0] ∨ l = []

theorem HeaderPos.length_le {l : List Nat} (h : HeaderPos l) : l.length ≤ 1 := by
  rcases h with rfl | rfl <;> simp

/-- the specification of the code of one function with top-level cards `cards`:
an index list `i :: suf` designates the sub-card at `suf` of the `i`-th card; the epilogue
instructions (`EpiloguePos`) and the errors raised while binding the function's arguments
(`HeaderPos`) are labelled with an index list of length `≤ 1` that need not designate a card -/
def fnSpec (cards : List Card) : Spec where
  op l o := (∃ i suf c d, l = i :: suf ∧ cards[i]? = some c ∧ c.getPath suf = some d ∧ Attr c suf o) ∨
    (EpiloguePos cards l ∧ o ∈ epilogueOps)
  loc k l := (∃ i suf c d, l = i :: suf ∧ cards[i]? = some c ∧ c.getPath suf = some d) ∨
    (HeaderPos l ∧ k ∈ [CErrKind.emptyVariable, CErrKind.tooManyLocals])

theorem fnSpec_card {cards : List Card} {i : Nat} {c : Card} (h : cards[i]? = some c) :
    SubSpec (cardSpec [i] c) (fnSpec cards) := by
  constructor
  · rintro l o ⟨suf, d, rfl, hd, hat⟩
    exact .inl ⟨i, suf, c, d, rfl, h, hd, hat⟩
  · rintro k l ⟨suf, d, rfl, hd⟩
    exact .inl ⟨i, suf, c, d, rfl, h, hd⟩

theorem fnSpec_epilogue (cards : List Card) {p : List Nat} (hp : EpiloguePos cards p) :
    Ops (fnSpec cards) p epilogueOps := ⟨fun _ ho => .inr ⟨hp, ho⟩⟩

theorem fnSpec_header (cards : List Card) {p : List Nat} (hp : HeaderPos p) :
    Locs (fnSpec cards) p [.emptyVariable, .tooManyLocals] := ⟨fun _ hk => .inr ⟨hp, hk⟩⟩

theorem processFunctionCards_tr {n0 : Nat} {cards : List Card} {hs : List Nat} :
    ∀ (cs : List Card) (ic : Nat) (p : List Nat) (z : Option Nat), p.length ≤ 1 →
      (∀ j a, cs[j]? = some a → cards[ic + j]? = some a) →
      Tr n0 (fnSpec cards) z hs p (lastIdx p ic cs) (processFunctionCards ic cs)
  | [], ic, p, z, _, _ => by unfold processFunctionCards; exact tr_pure
  | c :: cs, ic, p, z, hp, hc => by
    unfold processFunctionCards
    have hd : p.dropLast = [] := by
      match p, hp with
      | [], _ => rfl
      | [_], _ => rfl
    refine tr_bind popSub_tr' fun _ => ?_
    rw [hd]
    refine tr_bind (pushSub_tr ic) fun _ => ?_
    refine tr_bind ((processCard_tr c n0 [ic] none hs).mono_spec
      (fnSpec_card (by simpa using hc 0 c rfl))) fun _ => ?_
    exact processFunctionCards_tr cs (ic + 1) [ic] none (by simp) (fun j a hj => by
      have := hc (j + 1) a (by simpa using hj)
      rwa [show ic + (j + 1) = ic + 1 + j by omega] at this)

/-- `processFunction` after its `modify` -/
def fnBody (f : FunctionIr) : CM Unit := do
  addLocals f.arguments.reverse
  processFunctionCards 0 f.cards

theorem fnBody_tr {n0 : Nat} {f : FunctionIr} {z : Option Nat} {hs p : List Nat} (hp : HeaderPos p) :
    Tr n0 (fnSpec f.cards) z hs p (lastIdx p 0 f.cards) (fnBody f) := by
  unfold fnBody
  exact tr_bind (addLocals_tr (fnSpec_header _ hp) _ _) fun _ =>
    processFunctionCards_tr f.cards 0 p none hp.length_le (fun j a hj => by simpa using hj)

/-- a trace entry / an error location produced for the functions `fs` -/
def UnitOp (fs : List FunctionIr) (t : Trace) (o : UInt8) : Prop :=
  ∃ f ∈ fs, t.ns = f.ns ∧ t.function = f.functionIndex ∧ (fnSpec f.cards).op t.indices o

def UnitLoc (fs : List FunctionIr) (k : CErrKind) (t : Trace) : Prop :=
  ∃ f ∈ fs, t.ns = f.ns ∧ t.function = f.functionIndex ∧ (fnSpec f.cards).loc k t.indices

/-- unit-level triple: arbitrary state assertions, no holes, all trace entries count -/
structure Seg {α : Type} (G : Trace → UInt8 → Prop) (E : CErrKind → Trace → Prop)
    (P Q : CState → Prop) (m : CM α) : Prop where
  ok : ∀ s a s', m s = .ok (a, s') → Safe 0 [] s → P s → RelG 0 G s s' ∧ Q s'
  err : ∀ s k o, m s = .error (.err k o) → Safe 0 [] s → P s → ∃ t, o = some t ∧ E k t

theorem seg_bind {α β : Type} {G E} {P Q R : CState → Prop} {m : CM α} {f : α → CM β}
    (hm : Seg G E P Q m) (hf : ∀ a, Seg G E Q R (f a)) : Seg G E P R (m >>= f) := by
  constructor
  · intro s b s'' h hs hp
    obtain ⟨a, s', h1, h2⟩ := bind_ok.1 h
    obtain ⟨r1, q1⟩ := hm.ok s a s' h1 hs hp
    obtain ⟨r2, q2⟩ := (hf a).ok s' b s'' h2 (hs.step r1) q1
    exact ⟨RelG.trans (Nat.zero_le _) r1 r2, q2⟩
  · intro s k t h hs hp
    rcases bind_err.1 h with h | ⟨a, s', h1, h2⟩
    · exact hm.err s k t h hs hp
    · obtain ⟨r1, q1⟩ := hm.ok s a s' h1 hs hp
      exact (hf a).err s' k t h2 (hs.step r1) q1

theorem seg_pre {α : Type} {G E} {P P' Q : CState → Prop} {m : CM α} (hm : Seg G E P Q m)
    (h : ∀ s, P' s → P s) : Seg G E P' Q m :=
  ⟨fun s a s' hr hs hp => hm.ok s a s' hr hs (h s hp), fun s k t hr hs hp => hm.err s k t hr hs (h s hp)⟩

theorem seg_post {α : Type} {G E} {P Q Q' : CState → Prop} {m : CM α} (hm : Seg G E P Q m)
    (h : ∀ s, Q s → Q' s) : Seg G E P Q' m :=
  ⟨fun s a s' hr hs hp => ⟨(hm.ok s a s' hr hs hp).1, h _ (hm.ok s a s' hr hs hp).2⟩, hm.err⟩

theorem seg_exists {α ι : Type} {G E} {P : ι → CState → Prop} {Q : CState → Prop} {m : CM α}
    (hm : ∀ x, Seg G E (P x) Q m) : Seg G E (fun s => ∃ x, P x s) Q m :=
  ⟨fun s a s' hr hs ⟨x, hp⟩ => (hm x).ok s a s' hr hs hp,
   fun s k t hr hs ⟨x, hp⟩ => (hm x).err s k t hr hs hp⟩

theorem seg_pure {α : Type} {G E} {P : CState → Prop} {a : α} : Seg G E P P (pure a : CM α) := by
  constructor
  · intro s b s' hr _ hp
    simp only [pure_run, Except.ok.injEq, Prod.mk.injEq] at hr
    obtain ⟨_, rfl⟩ := hr
    exact ⟨RelG.refl _ _ _, hp⟩
  · intro s k t hr; simp at hr

theorem seg_modify {G E} {P Q : CState → Prop} {g : CState → CState}
    (hb : ∀ s, (g s).bytecode = s.bytecode) (ht : ∀ s, (g s).trace = s.trace)
    (h : ∀ s, P s → Q (g s)) : Seg G E P Q (modify g : CM Unit) := by
  constructor
  · intro s b s' hr _ hp
    simp only [modify_run, Except.ok.injEq, Prod.mk.injEq] at hr
    obtain ⟨_, rfl⟩ := hr
    exact ⟨RelG.of_eq (hb s) (ht s), h s hp⟩
  · intro s k t hr; simp at hr

theorem seg_get_bind {β : Type} {G E} {P Q : CState → Prop} {f : CState → CM β}
    (hf : ∀ st, Seg G E P Q (f st)) : Seg G E P Q (get >>= f) := by
  constructor
  · intro s b s'' h hs hp
    obtain ⟨a, s', h1, h2⟩ := bind_ok.1 h
    simp only [get_run, Except.ok.injEq, Prod.mk.injEq] at h1
    obtain ⟨rfl, rfl⟩ := h1
    exact (hf s).ok s b s'' h2 hs hp
  · intro s k t h hs hp
    rcases bind_err.1 h with h | ⟨a, s', h1, h2⟩
    · simp at h
    · simp only [get_run, Except.ok.injEq, Prod.mk.injEq] at h1
      obtain ⟨rfl, rfl⟩ := h1
      exact (hf s).err s k t h2 hs hp

/-- the state is positioned at `p` in function `fn` of namespace `ns` -/
def At (ns : List String) (fn : Nat) (p : List Nat) (s : CState) : Prop :=
  s.ns = ns ∧ s.curFunction = fn ∧ s.curIndices = p

/-- … the namespace being irrelevant -/
def AtF (fn : Nat) (p : List Nat) (s : CState) : Prop := s.curFunction = fn ∧ s.curIndices = p

theorem Tr.seg {α : Type} {S : Spec} {p q : List Nat} {m : CM α} (h : Tr 0 S none [] p q m)
    {G : Trace → UInt8 → Prop} {E : CErrKind → Trace → Prop} {ns : List String} {fn : Nat}
    (hG : ∀ t o, t.ns = ns → t.function = fn → S.op t.indices o → G t o)
    (hE : ∀ k t, t.ns = ns → t.function = fn → S.loc k t.indices → E k t) :
    Seg G E (At ns fn p) (At ns fn q) m := by
  constructor
  · intro s a s' hr hs ⟨h1, h2, h3⟩
    obtain ⟨r, hq⟩ := h.ok s a s' hr ⟨h3, (fun _ hn => nomatch hn), hs⟩
    refine ⟨r.rel.mono fun t o ⟨x1, x2, x3⟩ => hG t o (x1.trans h1) (x2.trans h2) x3, ?_, ?_, hq⟩
    · exact r.ns.trans h1
    · exact r.fn.trans h2
  · intro s k t hr hs ⟨h1, h2, h3⟩
    obtain ⟨t', e, x1, x2, x3⟩ := h.err s k t hr ⟨h3, (fun _ hn => nomatch hn), hs⟩
    exact ⟨t', e, hE k t' (x1.trans h1) (x2.trans h2) x3⟩

/-- the specification of an action that neither emits instructions nor raises located errors -/
def silentSpec : Spec := ⟨fun _ _ => False, fun _ _ => False⟩

theorem Tr.seg_silent {α : Type} {p q : List Nat} {m : CM α} (h : Tr 0 silentSpec none [] p q m)
    {G : Trace → UInt8 → Prop} {E : CErrKind → Trace → Prop} {fn : Nat} :
    Seg G E (AtF fn p) (AtF fn q) m := by
  constructor
  · intro s a s' hr hs ⟨h2, h3⟩
    obtain ⟨r, hq⟩ := h.ok s a s' hr ⟨h3, (fun _ hn => nomatch hn), hs⟩
    exact ⟨r.rel.mono fun t o ⟨_, _, x3⟩ => x3.elim, r.fn.trans h2, hq⟩
  · intro s k t hr hs ⟨h2, h3⟩
    obtain ⟨_, _, _, _, hf⟩ := h.err s k t hr ⟨h3, (fun _ hn => nomatch hn), hs⟩
    exact hf.elim

/-- where a located error of `compileUnit` may point: the dummy location of the initial state
(`EmptyProgram`, `DuplicateName` are raised before any function is entered), or into a function -/
def UnitErr (fs : List FunctionIr) (k : CErrKind) (t : Trace) : Prop :=
  (t = { ns := [], function := 0, indices := [] } ∧ (k = .emptyProgram ∨ k = .duplicateName)) ∨
  UnitLoc fs k t

/-- a `Tr` for the code of function `f` as a unit-level triple -/
theorem Tr.seg_fn {α : Type} {fs : List FunctionIr} {f : FunctionIr} (hf : f ∈ fs) {p q : List Nat}
    {m : CM α} (h : Tr 0 (fnSpec f.cards) none [] p q m) :
    Seg (UnitOp fs) (UnitErr fs) (At f.ns f.functionIndex p) (At f.ns f.functionIndex q) m :=
  h.seg (fun _ _ h1 h2 h3 => ⟨f, hf, h1, h2, h3⟩) (fun _ _ h1 h2 h3 => .inr ⟨f, hf, h1, h2, h3⟩)

/-- `processFunction` from a position of length `≤ 1` -/
theorem processFunction_seg {fs : List FunctionIr} {f : FunctionIr} (hf : f ∈ fs)
    {p : List Nat} (hp : HeaderPos p) :
    Seg (UnitOp fs) (UnitErr fs) (AtF f.functionIndex p)
      (At f.ns f.functionIndex (lastIdx p 0 f.cards)) (processFunction f) := by
  have : processFunction f = (do
      modify fun s => { s with ns := f.ns, imports := f.imports, fnHandle := f.handle }
      fnBody f) := rfl
  rw [this]
  refine seg_bind (Q := At f.ns f.functionIndex p)
    (seg_modify (fun _ => rfl) (fun _ => rfl) fun s ⟨h1, h2⟩ => ⟨rfl, h1, h2⟩) fun _ => ?_
  exact (fnBody_tr (n0 := 0) (z := none) (hs := []) hp).seg_fn hf

/-- some function of the unit is current, at a position of length `≤ 1` -/
def PosOK (fs : List FunctionIr) (s : CState) : Prop :=
  ∃ x : FunctionIr × List Nat, (x.1 ∈ fs ∧ EpiloguePos x.1.cards x.2) ∧ At x.1.ns x.1.functionIndex x.2 s

theorem At.posOK {fs : List FunctionIr} {f : FunctionIr} {p : List Nat} {s : CState} (hf : f ∈ fs)
    (hp : EpiloguePos f.cards p) (h : At f.ns f.functionIndex p s) : PosOK fs s := ⟨(f, p), ⟨hf, hp⟩, h⟩

theorem epilogue_seg {fs : List FunctionIr} {f : FunctionIr} (hf : f ∈ fs)
    {p : List Nat} (hp : EpiloguePos f.cards p) {o : UInt8} (ho : o ∈ epilogueOps) :
    Seg (UnitOp fs) (UnitErr fs) (At f.ns f.functionIndex p) (At f.ns f.functionIndex p) (pushInstr o) :=
  (pushInstr_tr (n0 := 0) (z := none) (hs := []) (S := fnSpec f.cards)
      ((fnSpec_epilogue f.cards hp).sub (by simpa using ho))).seg_fn hf

theorem scopeEnd_seg {fs : List FunctionIr} {f : FunctionIr} (hf : f ∈ fs) {p : List Nat} :
    Seg (UnitOp fs) (UnitErr fs) (At f.ns f.functionIndex p) (At f.ns f.functionIndex p) scopeEnd :=
  (scopeEnd_tr (n0 := 0) (z := none) (hs := []) (S := fnSpec f.cards)).seg_fn hf

/-- one non-main function -/
theorem compileFunction_seg {fs : List FunctionIr} {f : FunctionIr} (hf : f ∈ fs) {P : CState → Prop} :
    Seg (UnitOp fs) (UnitErr fs) P (PosOK fs) (compileFunction f) := by
  unfold compileFunction
  refine seg_bind (Q := AtF f.functionIndex [])
    (seg_modify (fun _ => rfl) (fun _ => rfl) fun s _ => ⟨rfl, rfl⟩) fun _ => ?_
  refine seg_get_bind fun st => ?_
  refine seg_bind (insertLabel_tr (n0 := 0) (z := none) (hs := []) _ _).seg_silent fun _ => ?_
  refine seg_bind (scopeBegin_tr (n0 := 0) (z := none) (hs := [])).seg_silent fun _ => ?_
  refine seg_bind (processFunction_seg hf (p := []) (.inr rfl)) fun _ => ?_
  have hl : EpiloguePos f.cards (lastIdx [] 0 f.cards) := .inr rfl
  refine seg_bind (scopeEnd_seg hf) fun _ => ?_
  refine seg_bind (epilogue_seg hf hl (by decide)) fun _ => ?_
  exact seg_post (epilogue_seg hf hl (by decide)) fun s h => h.posOK hf hl

theorem compileFunctions_seg {fs : List FunctionIr} :
    ∀ (l : List FunctionIr), (∀ f ∈ l, f ∈ fs) →
      Seg (UnitOp fs) (UnitErr fs) (PosOK fs) (PosOK fs) (compileFunctions l)
  | [], _ => by unfold compileFunctions; exact seg_pure
  | f :: l, h => by
    unfold compileFunctions
    exact seg_bind (compileFunction_seg (h f (List.mem_cons_self ..))) fun _ =>
      compileFunctions_seg l fun g hg => h g (List.mem_cons_of_mem _ hg)

/-- `addFunctions` only raises `DuplicateName`, at the dummy location of the initial state -/
def dupSpec : Spec := ⟨fun _ _ => False, fun k l => k = .duplicateName ∧ l = []⟩

theorem addFunction_tr {n0 : Nat} {z : Option Nat} {hs : List Nat} (f : FunctionIr) :
    Tr n0 dupSpec z hs [] [] (addFunction f) := by
  have hL : Locs dupSpec [] [.duplicateName] := ⟨fun k hk => ⟨by simpa using hk, rfl⟩⟩
  unfold addFunction; tr

theorem addFunctions_tr {n0 : Nat} {hs : List Nat} : ∀ (l : List FunctionIr) (z : Option Nat),
    Tr n0 dupSpec z hs [] [] (addFunctions l)
  | [], z => by unfold addFunctions; tr
  | f :: l, z => by
    have ih := fun z => addFunctions_tr (n0 := n0) (hs := hs) l z
    have h1 := fun z => addFunction_tr (n0 := n0) (hs := hs) (z := z) f
    unfold addFunctions; tr

theorem addFunctions_seg {fs : List FunctionIr} (l : List FunctionIr) :
    Seg (UnitOp fs) (UnitErr fs) (At [] 0 []) (At [] 0 []) (addFunctions l) :=
  (addFunctions_tr (n0 := 0) (hs := []) l none).seg (fun _ _ _ _ h => h.elim)
    (fun k t h1 h2 h3 => .inl ⟨by
      obtain ⟨ns, fn, ix⟩ := t
      obtain ⟨_, h4⟩ := h3
      simp only at h1 h2 h4
      subst h1 h2 h4
      rfl, .inr h3.1⟩)

theorem getElem!_mem_of_ne {unit : Array FunctionIr} (h : unit.isEmpty = false) : unit[0]! ∈ unit.toList := by
  have hs : 0 < unit.size := by
    cases unit with
    | mk l => cases l <;> simp_all
  rw [getElem!_pos unit 0 hs]
  exact Array.getElem_mem_toList ..

/-- the whole of `Compiler::compile` -/
theorem compileUnit_seg (unit : Array FunctionIr) :
    Seg (UnitOp unit.toList) (UnitErr unit.toList) (At [] 0 []) (fun _ => True) (compileUnit unit) := by
  unfold compileUnit
  by_cases hemp : unit.isEmpty = true
  · -- `EmptyProgram`
    simp only [hemp, if_true]
    constructor
    · intro s a s' hr
      obtain ⟨_, _, h1, _⟩ := bind_ok.1 hr
      simp at h1
    · intro s k t hr _ ⟨h1, h2, h3⟩
      rcases bind_err.1 hr with h | ⟨_, _, h, _⟩
      · simp only [fail_run, Except.error.injEq, CErr.err.injEq] at h
        obtain ⟨rfl, rfl⟩ := h
        exact ⟨_, rfl, .inl ⟨by rw [h1, h2, h3], .inl rfl⟩⟩
      · simp at h
  · have hne : unit.isEmpty = false := by simpa using hemp
    have hmain := getElem!_mem_of_ne hne
    simp only [hne, Bool.false_eq_true, if_false]
    refine seg_bind (addFunctions_seg _) fun _ => ?_
    refine seg_bind (Q := AtF unit[0]!.functionIndex [0])
      (seg_modify (fun _ => rfl) (fun _ => rfl) fun s _ => ⟨rfl, rfl⟩) fun _ => ?_
    refine seg_bind (scopeBegin_tr (n0 := 0) (z := none) (hs := [])).seg_silent fun _ => ?_
    refine seg_bind (processFunction_seg hmain (p := [0]) (.inl rfl)) fun _ => ?_
    refine seg_bind (Q := At unit[0]!.ns unit[0]!.functionIndex [unit[0]!.cards.length])
      (seg_modify (fun _ => rfl) (fun _ => rfl) fun s ⟨h1, _, _⟩ => ⟨h1, rfl, rfl⟩) fun _ => ?_
    refine seg_bind (scopeEnd_seg hmain) fun _ => ?_
    refine seg_bind (Q := PosOK unit.toList) ?_ fun _ => ?_
    · -- the implicit `Exit` after `main`, labelled with the index one past the last card
      have hO : Ops (fnSpec unit[0]!.cards) [unit[0]!.cards.length] [op.exit] :=
        (fnSpec_epilogue _ (.inl rfl)).sub (by decide)
      have : Tr 0 (fnSpec unit[0]!.cards) none [] [unit[0]!.cards.length] [unit[0]!.cards.length]
          (processCard .abort) := by
        simp only [processCard]; tr
      exact seg_post (this.seg_fn hmain) fun s h => h.posOK hmain (.inl rfl)
    refine seg_bind (compileFunctions_seg _ fun f hf => List.mem_of_mem_drop hf) fun _ => ?_
    refine seg_bind (Q := PosOK unit.toList)
      (seg_modify (fun _ => rfl) (fun _ => rfl) fun s ⟨x, hx, h1, h2, h3⟩ => ⟨x, hx, h1, h2, h3⟩) fun _ => ?_
    refine seg_exists (Q := fun _ => True) fun x => ?_
    by_cases hx : x.1 ∈ unit.toList ∧ EpiloguePos x.1.cards x.2
    · exact seg_post (seg_pre (epilogue_seg hx.1 hx.2 (o := op.exit) (by decide)) fun s h => h.2)
        fun _ _ => trivial
    · exact ⟨fun s a s' _ _ h => absurd h.1 hx, fun s k t _ _ h => absurd h.1 hx⟩

end Cao.Compiler

/-! ## the flattened function stream and the source module -/

namespace Cao

/-- follow the submodule names `ns` from `m` (the first submodule with that name, as
`ensureInvariants` guarantees that sibling names are unique) -/
def Module.descend : Module → List String → Option Module
  | m, [] => some m
  | m, n :: ns =>
    match m.submodules.find? (fun p => p.1 == n) with
    | none => none
    | some p => p.2.descend ns

end Cao

namespace Cao.Compiler
open Cao

theorem except_bind_ok {ε α β : Type} {x : Except ε α} {f : α → Except ε β} {b : β} :
    (x >>= f) = .ok b ↔ ∃ a, x = .ok a ∧ f a = .ok b := by
  cases x <;> simp [bind, Except.bind]

/-- `f` is the flattened form of a function of a module reachable from `m`; `pre` is the namespace
of `m` itself -/
def FnIn (m : Module) (pre : List String) (f : FunctionIr) : Prop :=
  ∃ path sub, f.ns = pre ++ path ∧ m.descend path = some sub ∧
    ∃ name fn, sub.functions[f.functionIndex]? = some (name, fn) ∧ fn.cards = f.cards

theorem flattenFns_spec {ns : List String} {imports : List (String × String)} :
    ∀ (fns : List (String × Func)) (i : Nat) (out out' : Array FunctionIr),
      flattenFns ns imports fns i out = .ok out' →
      ∃ new, out'.toList = out.toList ++ new ∧ new.length = fns.length ∧
        ∀ f ∈ new, f.ns = ns ∧ ∃ j name fn, fns[j]? = some (name, fn) ∧ f.functionIndex = i + j ∧
          fn.cards = f.cards
  | [], i, out, out', h => by
    simp only [flattenFns, pure, Except.pure, Except.ok.injEq] at h
    subst h
    exact ⟨[], by simp, rfl, by simp⟩
  | (name, fn) :: rest, i, out, out', h => by
    unfold flattenFns at h
    dsimp only at h
    split at h
    · cases h
    obtain ⟨new, h1, h2, h3⟩ := flattenFns_spec rest (i + 1) _ out' h
    refine ⟨{ functionIndex := i, name := name, arguments := fn.arguments, cards := fn.cards,
               ns := ns, imports := imports, handle := Hash.handleFromU64 (UInt64.ofNat out.size) } :: new,
      by rw [h1]; simp, by simp [h2], ?_⟩
    intro f hf
    rcases List.mem_cons.1 hf with rfl | hf
    · exact ⟨rfl, 0, name, fn, rfl, rfl, rfl⟩
    · obtain ⟨x1, j, n', fn', x2, x3, x4⟩ := h3 f hf
      exact ⟨x1, j + 1, n', fn', by simpa using x2, by omega, x4⟩

theorem dupNames_cons {x : String} {r : List String} :
    dupNames (x :: r) = false ↔ x ∉ r ∧ dupNames r = false := by
  simp [dupNames]

theorem find?_of_mem_nodup : ∀ (l : List (String × Module)) (n : String) (s : Module),
    dupNames (l.map (·.1)) = false → (n, s) ∈ l → l.find? (fun p => p.1 == n) = some (n, s)
  | [], _, _, _, h => nomatch h
  | x :: r, n, s, hd, h => by
    simp only [List.map_cons] at hd
    obtain ⟨h1, h2⟩ := dupNames_cons.1 hd
    rcases List.mem_cons.1 h with rfl | h
    · simp
    · have hne : (x.1 == n) = false := by
        apply beq_false_of_ne
        rintro rfl
        exact h1 (List.mem_map.2 ⟨_, h, rfl⟩)
      rw [List.find?_cons, hne]
      exact find?_of_mem_nodup r n s h2 h

theorem ensureInvariants_mk {subs fns imps} (h : ensureInvariants (.mk subs fns imps) = .ok ()) :
    dupNames (subs.map (·.1)) = false ∧ ensureInvariantsSubs subs = .ok () := by
  unfold ensureInvariants at h
  by_cases hd : dupNames (subs.map (·.1)) = true
  · rw [if_pos hd] at h
    obtain ⟨_, h1, _⟩ := except_bind_ok.1 h
    cases h1
  · rw [if_neg hd] at h
    exact ⟨by simpa using hd, h⟩

theorem ensureInvariantsSubs_cons {n s rest} (h : ensureInvariantsSubs ((n, s) :: rest) = .ok ()) :
    ensureInvariants s = .ok () ∧ ensureInvariantsSubs rest = .ok () := by
  unfold ensureInvariantsSubs at h
  obtain ⟨⟨⟩, h1, h2⟩ := except_bind_ok.1 h
  exact ⟨h1, h2⟩

/-- every function put into the stream by `flatten` is a function of the module tree -/
theorem flatten_spec_all :
    (∀ (m : Module) (limit : Nat) (ns : List String) (out out' : Array FunctionIr),
      ensureInvariants m = .ok () → flatten m limit ns out = .ok out' →
      ∃ new, out'.toList = out.toList ++ new ∧ m.functions.length ≤ new.length ∧ ∀ f ∈ new, FnIn m ns f) ∧
    (∀ (subs : List (String × Module)) (limit : Nat) (ns : List String) (out out' : Array FunctionIr),
      ensureInvariantsSubs subs = .ok () → flattenSubs subs limit ns out = .ok out' →
      ∃ new, out'.toList = out.toList ++ new ∧
        ∀ f ∈ new, ∃ name s, (name, s) ∈ subs ∧ FnIn s (ns ++ [name]) f) := by
  have key : ∀ (subs : List (String × Module)) (fns : List (String × Func)) (imps : List String),
      (∀ (limit : Nat) (ns : List String) (out out' : Array FunctionIr),
        ensureInvariantsSubs subs = .ok () → flattenSubs subs limit ns out = .ok out' →
        ∃ new, out'.toList = out.toList ++ new ∧
          ∀ f ∈ new, ∃ name s, (name, s) ∈ subs ∧ FnIn s (ns ++ [name]) f) →
      ∀ (limit : Nat) (ns : List String) (out out' : Array FunctionIr),
        ensureInvariants (.mk subs fns imps) = .ok () → flatten (.mk subs fns imps) limit ns out = .ok out' →
        ∃ new, out'.toList = out.toList ++ new ∧ (Module.mk subs fns imps).functions.length ≤ new.length ∧
          ∀ f ∈ new, FnIn (.mk subs fns imps) ns f := by
    intro subs fns imps ih limit ns out out' hinv h
    obtain ⟨hdup, hsubs⟩ := ensureInvariants_mk hinv
    unfold flatten at h
    dsimp only at h
    split at h
    · cases h
    obtain ⟨imports, _, h⟩ := except_bind_ok.1 h
    obtain ⟨out1, h1, h2⟩ := except_bind_ok.1 h
    obtain ⟨new1, a1, a2, a3⟩ := flattenFns_spec fns 0 out out1 h1
    obtain ⟨new2, b1, b2⟩ := ih limit ns out1 out' hsubs h2
    refine ⟨new1 ++ new2, by rw [b1, a1, List.append_assoc], by simp [Module.functions, a2], ?_⟩
    intro f hf
    rcases List.mem_append.1 hf with hf | hf
    · obtain ⟨x1, j, name, fn, x2, x3, x4⟩ := a3 f hf
      exact ⟨[], _, by simp [x1], rfl, name, fn, by simpa [Module.functions, x3] using x2, x4⟩
    · obtain ⟨name, s, hmem, path, sub, y1, y2, y3⟩ := b2 f hf
      refine ⟨name :: path, sub, by simp [y1], ?_, y3⟩
      simp only [Module.descend, Module.submodules, find?_of_mem_nodup subs name s hdup hmem]
      exact y2
  apply ensureInvariants.mutual_induct
    (motive_1 := fun m => ∀ (limit : Nat) (ns : List String) (out out' : Array FunctionIr),
      ensureInvariants m = .ok () → flatten m limit ns out = .ok out' →
      ∃ new, out'.toList = out.toList ++ new ∧ m.functions.length ≤ new.length ∧ ∀ f ∈ new, FnIn m ns f)
    (motive_2 := fun subs => ∀ (limit : Nat) (ns : List String) (out out' : Array FunctionIr),
      ensureInvariantsSubs subs = .ok () → flattenSubs subs limit ns out = .ok out' →
      ∃ new, out'.toList = out.toList ++ new ∧
        ∀ f ∈ new, ∃ name s, (name, s) ∈ subs ∧ FnIn s (ns ++ [name]) f)
  · intro subs fns imps _ ih; exact key subs fns imps ih
  · intro subs fns imps _ ih; exact key subs fns imps ih
  · intro limit ns out out' _ h
    simp only [flattenSubs, pure, Except.pure, Except.ok.injEq] at h
    subst h
    exact ⟨[], by simp, by simp⟩
  · intro name s rest ih1 ih2 limit ns out out' hinv h
    obtain ⟨hs, hrest⟩ := ensureInvariantsSubs_cons hinv
    unfold flattenSubs at h
    dsimp only at h
    split at h
    · cases h
    obtain ⟨out1, h1, h2⟩ := except_bind_ok.1 h
    obtain ⟨new1, a1, _, a3⟩ := ih1 limit (ns ++ [name]) out out1 hs h1
    obtain ⟨new2, b1, b2⟩ := ih2 limit ns out1 out' hrest h2
    refine ⟨new1 ++ new2, by rw [b1, a1, List.append_assoc], ?_⟩
    intro f hf
    rcases List.mem_append.1 hf with hf | hf
    · exact ⟨name, s, List.mem_cons_self .., a3 f hf⟩
    · obtain ⟨n', s', hm, hfn⟩ := b2 f hf
      exact ⟨n', s', List.mem_cons_of_mem _ hm, hfn⟩

/- (`withStd`: the module the compiler works on — the source module with the standard library as an
extra submodule `std` — is defined in `Lemmas/WithStd.lean`) -/
example (m std : Module) : withStd m std = Module.mk (m.submodules ++ [("std", std)]) m.functions m.imports := rfl

/-- `f` is the flattened form of function number `f.functionIndex` of the module at path `f.ns` -/
def FnAt (m : Module) (f : FunctionIr) : Prop :=
  ∃ sub, m.descend f.ns = some sub ∧
    ∃ name fn, sub.functions[f.functionIndex]? = some (name, fn) ∧ fn.cards = f.cards

theorem mem_set!_cases {α : Type} (a : Array α) (i : Nat) (v : α) :
    ∀ x ∈ (a.set! i v).toList, x ∈ a.toList ∨ x = v := by
  intro x hx
  rw [Array.set!_eq_setIfInBounds, Array.toList_setIfInBounds] at hx
  exact List.mem_or_eq_of_mem_set hx

theorem findIdx?_lt {α : Type} {p : α → Bool} : ∀ {l : List α} {i : Nat}, l.findIdx? p = some i → i < l.length := by
  intro l i h
  have := List.findIdx?_eq_some_iff_findIdx_eq.1 h
  exact this.1

/-- every function of the stream produced by `intoIrStream` is a function of the source module
(with `std`); moving `main` to the front permutes the entries but does not change them -/
theorem intoIrStream_spec {m std : Module} {limit : Nat} {unit : Array FunctionIr}
    (h : intoIrStream m std limit = .ok unit) : ∀ f ∈ unit.toList, FnAt (withStd m std) f := by
  unfold intoIrStream at h
  obtain ⟨_, hinv, h⟩ := except_bind_ok.1 h
  dsimp only at h
  split at h
  case h_2 => cases h
  rename_i mainIdx hmain
  obtain ⟨_, hp, h⟩ := except_bind_ok.1 h
  cases hp
  obtain ⟨out, hflat, h⟩ := except_bind_ok.1 h
  simp only [pure, Except.pure, Except.ok.injEq] at h
  have hlt : mainIdx < (withStd m std).functions.length := findIdx?_lt hmain
  obtain ⟨new, a1, a2, a3⟩ := flatten_spec_all.1 (withStd m std) limit [] #[] out hinv hflat
  simp only [List.nil_append] at a1
  have hall : ∀ f ∈ out.toList, FnAt (withStd m std) f := by
    intro f hf
    rw [a1] at hf
    obtain ⟨path, sub, x1, x2, x3⟩ := a3 f hf
    simp only [List.nil_append] at x1
    exact ⟨sub, by rw [x1]; exact x2, x3⟩
  have hsz : mainIdx < out.size := by
    have : out.size = new.length := by rw [← Array.length_toList, a1]
    omega
  have h0 : out[0]! ∈ out.toList := by
    rw [getElem!_pos out 0 (by omega)]; exact Array.getElem_mem_toList ..
  have h1 : out[mainIdx]! ∈ out.toList := by
    rw [getElem!_pos out mainIdx hsz]; exact Array.getElem_mem_toList ..
  subst h
  intro f hf
  rcases mem_set!_cases _ _ _ f hf with hf | rfl
  · rcases mem_set!_cases _ _ _ f hf with hf | rfl
    · exact hall f hf
    · exact hall _ h1
  · exact hall _ h0

end Cao.Compiler
