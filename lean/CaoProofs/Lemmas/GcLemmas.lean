import CaoModel.Vm
/-!
# Lemmas shared by C02 (collector soundness) and C05 (memory accounting)

* `run_*`: how the primitive monadic combinators of `M = ExceptT ErrKind (StateM VmState)` run;
* `allocBytes_run`: `allocBytes` as a pure function `allocPure` of the state;
* the same for `newObject`, `initTable`, `initString`, `initSimple`;
* list lemmas (`foldl`/`sum`, `partition`, `find?` under `filter`);
* `objAddr`, `addrs`, `kidsOf`, `rootAddrs` and the equations of `markLoop`.
-/
namespace Cao.Gc
open Cao Cao.Vm

/-! ## running `M` -/
section run
variable {α β : Type}

theorem run_bind (x : M α) (f : α → M β) (s : VmState) :
    (x >>= f).run.run s = match x.run.run s with
      | (.ok a, s') => (f a).run.run s'
      | (.error e, s') => (.error e, s') := by
  show (ExceptT.bind x f).run.run s = _
  simp only [ExceptT.bind, ExceptT.run, ExceptT.mk, StateT.run, bind, StateT.bind, ExceptT.bindCont]
  rcases h : x s with ⟨r, s'⟩
  cases r <;> rfl

theorem run_pure (a : α) (s : VmState) : (pure a : M α).run.run s = (.ok a, s) := rfl
theorem run_modify (f : VmState → VmState) (s : VmState) :
    (modify f : M Unit).run.run s = (.ok (), f s) := rfl
theorem run_get (s : VmState) : (get : M VmState).run.run s = (.ok s, s) := rfl
theorem run_set (s' s : VmState) : (set s' : M Unit).run.run s = (.ok (), s') := rfl
theorem run_throwE (e : ErrKind) (s : VmState) : (throwE e : M α).run.run s = (.error e, s) := rfl
theorem run_throw (e : ErrKind) (s : VmState) : (throw e : M α).run.run s = (.error e, s) := rfl
theorem run_ite (c : Prop) [Decidable c] (x y : M α) (s : VmState) :
    (if c then x else y).run.run s = if c then x.run.run s else y.run.run s := by split <;> rfl
theorem run_tryCatch (x : M α) (h : ErrKind → M α) (s : VmState) :
    (tryCatch x h).run.run s = match x.run.run s with
      | (.ok a, s') => (.ok a, s')
      | (.error e, s') => (h e).run.run s' := by
  show (ExceptT.tryCatch x h).run.run s = _
  simp only [ExceptT.tryCatch, ExceptT.run, ExceptT.mk, StateT.run, bind, StateT.bind]
  rcases h' : x s with ⟨r, s'⟩
  cases r <;> rfl

end run

/-! ## `allocBytes` as a pure function -/

/-- the state after the charge has been added and the schedule index advanced -/
def allocCharged (c : Nat) (s : VmState) : VmState :=
  { s with mem := { s.mem with allocated := s.mem.allocated + c },
           allocIndex := s.allocIndex + 1,
           forcedGcs := s.forcedGcs + (if s.sched.forced s.allocIndex then 1 else 0) }

/-- does this allocation run a collection? -/
def allocTrig (c : Nat) (s : VmState) : Bool :=
  s.sched.forced s.allocIndex || decide (s.mem.allocated + c > s.mem.nextGc) ||
    decide (s.mem.allocated + c > s.mem.limit)

/-- a collection followed by the recomputation of the threshold -/
def collect (s : VmState) : VmState :=
  let s' := gc s
  { s' with mem := { s'.mem with nextGc := max (s'.mem.allocated * 2) (Mem.initialGc s'.mem.limit) } }

def allocCollected (c : Nat) (s : VmState) : VmState :=
  if allocTrig c s then collect (allocCharged c s) else allocCharged c s

def refund (c : Nat) (s : VmState) : VmState :=
  { s with mem := { s.mem with allocated := s.mem.allocated - c } }

def allocPure (c : Nat) (s : VmState) : Except ErrKind Unit × VmState :=
  let s2 := allocCollected c s
  if s2.mem.allocated > s2.mem.limit then (.error .outOfMemory, refund c s2) else (.ok (), s2)

theorem allocBytes_run (c : Nat) (s : VmState) : (allocBytes c).run.run s = allocPure c s := by
  simp only [allocBytes, run_bind, run_modify, run_get, run_set, run_ite, run_pure, run_throwE]
  simp only [allocPure, allocCollected, allocTrig, allocCharged, collect, refund]
  by_cases h : (s.sched.forced s.allocIndex || decide (s.mem.allocated + c > s.mem.nextGc) ||
            decide (s.mem.allocated + c > s.mem.limit)) = true
  · simp only [h, if_true]
  · simp only [h, Bool.false_eq_true, if_false]

theorem deallocBytes_run (c : Nat) (s : VmState) :
    (deallocBytes c).run.run s = (.ok (), refund c s) := rfl

/-- `newObject` as a pure function -/
def withObject (o : Obj) (s : VmState) : VmState :=
  { s with heap := { objs := s.heap.objs ++ [(s.heap.next, o)], next := s.heap.next + 1 },
           guards := s.heap.next :: s.guards }

theorem newObject_run (o : Obj) (s : VmState) :
    (newObject o).run.run s = (.ok s.heap.next, withObject o s) := rfl

/-- two allocations, the first refunded when the second fails, then the object -/
def alloc2Pure (c1 c2 : Nat) (o : Obj) (s : VmState) : Except ErrKind Nat × VmState :=
  match allocPure c1 s with
  | (.error e, s1) => (.error e, s1)
  | (.ok (), s1) =>
    match allocPure c2 s1 with
    | (.error e, s2) => (.error e, refund c1 s2)
    | (.ok (), s2) => (.ok s2.heap.next, withObject o s2)

theorem initTable_run (s : VmState) :
    initTable.run.run s =
      alloc2Pure Heap.objCharge (Heap.tableCharge Gen.tableInitCap) (.table Gen.tableInitCap []) s := by
  simp only [initTable, run_bind, allocBytes_run, alloc2Pure]
  rcases allocPure Heap.objCharge s with ⟨r1, s1⟩
  cases r1 with
  | error e => rfl
  | ok u =>
    simp only [run_tryCatch, allocBytes_run]
    rcases allocPure (Heap.tableCharge Gen.tableInitCap) s1 with ⟨r2, s2⟩
    cases r2 with
    | error e => simp only [run_bind, deallocBytes_run, run_throw]
    | ok u => simp only [newObject_run]

theorem initString_run (bytes : List UInt8) (s : VmState) :
    (initString bytes).run.run s =
      alloc2Pure Heap.objCharge (Heap.strCharge bytes.length) (.str bytes) s := by
  simp only [initString, run_bind, allocBytes_run, alloc2Pure]
  rcases allocPure Heap.objCharge s with ⟨r1, s1⟩
  cases r1 with
  | error e => rfl
  | ok u =>
    simp only [run_tryCatch, allocBytes_run]
    rcases allocPure (Heap.strCharge bytes.length) s1 with ⟨r2, s2⟩
    cases r2 with
    | error e => simp only [run_bind, deallocBytes_run, run_throw]
    | ok u => simp only [newObject_run]

def alloc1Pure (c1 : Nat) (o : Obj) (s : VmState) : Except ErrKind Nat × VmState :=
  match allocPure c1 s with
  | (.error e, s1) => (.error e, s1)
  | (.ok (), s1) => (.ok s1.heap.next, withObject o s1)

theorem initSimple_run (o : Obj) (s : VmState) :
    (initSimple o).run.run s = alloc1Pure Heap.objCharge o s := by
  simp only [initSimple, run_bind, allocBytes_run, alloc1Pure]
  rcases allocPure Heap.objCharge s with ⟨r1, s1⟩
  cases r1 with
  | error e => rfl
  | ok u => simp only [newObject_run]

/-! ## `tableInsert` as a pure function -/

theorem getTable_run (a : Nat) (s : VmState) :
    (getTable (.obj a)).run.run s = match s.heap.get a with
      | some (.table cap es) => (.ok (a, cap, es), s)
      | _ => (.error .invalidArgument, s) := by
  simp only [getTable, run_bind, run_get]
  cases hg : s.heap.get a with
  | none => rfl
  | some o => cases o <;> rfl

def tableInsertPure (a : Nat) (k v : Val) (s : VmState) : Except ErrKind Unit × VmState :=
  match s.heap.get a with
  | some (.table cap es) =>
    let ck := ownD s.heap k
    if (findEntry s.heap es ck).isSome then
      (.ok (), { s with heap := s.heap.set a (.table cap
        (es.map (fun e => if decide (ownD s.heap e.1 = ck) then (e.1, v) else e))) })
    else if HMap.needsGrow (es.length + 1) cap then
      match allocPure (Heap.tableCharge (HMap.growCap cap)) s with
      | (.error e, s1) => (.error e, s1)
      | (.ok (), s1) =>
        let s2 := refund (Heap.tableCharge cap) s1
        (.ok (), { s2 with heap := s2.heap.set a (.table (HMap.growCap cap) (es ++ [(k, v)])) })
    else (.ok (), { s with heap := s.heap.set a (.table cap (es ++ [(k, v)])) })
  | _ => (.error .invalidArgument, s)

theorem tableInsert_run (a : Nat) (k v : Val) (s : VmState) :
    (tableInsert a k v).run.run s = tableInsertPure a k v s := by
  simp only [tableInsert, run_bind, getTable_run, tableInsertPure]
  cases hg : s.heap.get a with
  | none => rfl
  | some o =>
    cases o with
    | table cap es =>
      simp only [run_get, run_ite, run_modify, run_bind, allocBytes_run, deallocBytes_run]
      split
      · rfl
      · split
        · rcases allocPure (Heap.tableCharge (HMap.growCap cap)) s with ⟨r, s1⟩
          cases r <;> rfl
        · rfl
    | _ => rfl

/-! ## lists -/

theorem foldl_add_eq_sum {α : Type} (f : α → Nat) (l : List α) (n : Nat) :
    l.foldl (fun n p => n + f p) n = n + (l.map f).sum := by
  induction l generalizing n with
  | nil => simp
  | cons a l ih => simp [ih, Nat.add_assoc]

theorem sum_filter_add_sum_filter_not {α : Type} (f : α → Nat) (p : α → Bool) (l : List α) :
    ((l.filter p).map f).sum + ((l.filter (fun x => !p x)).map f).sum = (l.map f).sum := by
  induction l with
  | nil => simp
  | cons a l ih =>
    cases h : p a <;> simp [h] <;> omega

theorem find?_filter_of_imp {α : Type} (p q : α → Bool) (l : List α)
    (h : ∀ x ∈ l, q x = true → p x = true) : (l.filter p).find? q = l.find? q := by
  induction l with
  | nil => rfl
  | cons a l ih =>
    have ih' := ih (fun x hx => h x (List.mem_cons_of_mem _ hx))
    by_cases hp : p a = true
    · rw [List.filter_cons_of_pos hp]
      simp only [List.find?_cons, ih']
    · rw [List.filter_cons_of_neg hp, ih']
      have hq : q a = false := by
        cases hqa : q a with
        | false => rfl
        | true => exact absurd (h a List.mem_cons_self hqa) hp
      simp [hq]

/-! ## addresses, children, the equations of `markLoop` -/

def objAddr : Val → Option Nat
  | .obj x => some x
  | _ => none

/-- the object addresses among a list of values -/
def addrs (vs : List Val) : List Nat := vs.filterMap objAddr

theorem mem_addrs {vs : List Val} {a : Nat} : a ∈ addrs vs ↔ Val.obj a ∈ vs := by
  simp only [addrs, List.mem_filterMap]
  constructor
  · rintro ⟨v, hv, h⟩
    cases v <;> simp [objAddr] at h
    subst h; exact hv
  · intro h; exact ⟨_, h, rfl⟩

theorem length_addrs_le (vs : List Val) : (addrs vs).length ≤ vs.length :=
  List.length_filterMap_le _ _

/-- the addresses directly referenced by the object at `a` (none when `a` is not allocated) -/
def kidsOf (h : Heap) (a : Nat) : List Nat :=
  match h.get a with
  | some o => addrs (Heap.children o)
  | none => []

theorem mem_kidsOf {h : Heap} {a b : Nat} :
    b ∈ kidsOf h a ↔ ∃ o, h.get a = some o ∧ Val.obj b ∈ Heap.children o := by
  unfold kidsOf
  cases hg : h.get a with
  | none => simp
  | some o => simp [mem_addrs]

/-- the root addresses of the collector -/
def rootAddrs (s : VmState) : List Nat := addrs (roots s)

theorem markLoop_zero (h : Heap) (w m : List Nat) : markLoop h 0 w m = m := by
  simp [markLoop]

theorem markLoop_nil (h : Heap) (f : Nat) (m : List Nat) : markLoop h f [] m = m := by
  cases f <;> simp [markLoop]

theorem markLoop_cons (h : Heap) (f a : Nat) (w m : List Nat) :
    markLoop h (f+1) (a :: w) m =
      if m.contains a then markLoop h f w m else markLoop h f (kidsOf h a ++ w) (a :: m) := by
  rw [markLoop]
  split
  · rfl
  · unfold kidsOf
    cases h.get a <;> rfl

/-- number of child references of the whole heap, as `reachable` computes it -/
def edgeCount (h : Heap) : Nat := h.objs.foldl (fun n p => n + (Heap.children p.2).length) 0

theorem reachable_eq (s : VmState) :
    reachable s = markLoop s.heap ((rootAddrs s).length + edgeCount s.heap + s.heap.objs.length + 1)
      (rootAddrs s) [] := rfl

end Cao.Gc
