import CaoProofs.Lemmas.CaptureOpsD
/-!
# `CopyLast` / `RegisterUpvalue` (C04c, stage A): in the normal phase and while a closure is under
# construction (`InvX (some a)`)
-/
namespace Cao.Vm
open Cao.Gc Cao.C02
set_option linter.unusedSectionVars false
set_option linter.unusedVariables false

/-- the closure at `a` is in the two top slots of the value stack -/
def Top2Is (s : VmState) (a : Nat) : Prop :=
  1 < s.stack.count ∧ s.stack.count < s.stack.data.length ∧
    s.stack.data.getD (s.stack.count - 1) .nil = .obj a ∧ s.stack.data.getD (s.stack.count - 2) .nil = .obj a

section rules
variable {α β : Type} {P : VmState → Prop} {Q : α → VmState → Prop} {E : ErrKind → Prop}

/-- fix the state -/
theorem st_of_forall {m : M α} (h : ∀ s, P s → St (fun s' => s' = s) m Q E) : St P m Q E :=
  ⟨fun s a s' hs hg => (h s hs).ok s a s' rfl hg, fun s e s' hs hg => (h s hs).err s e s' rfl hg⟩

/-- a pure fact in the precondition -/
theorem st_pre_pure {φ : Prop} {m : M α} (h : φ → St P m Q E) : St (fun s => φ ∧ P s) m Q E :=
  ⟨fun s a s' hs hg => (h hs.1).ok s a s' hs.2 hg, fun s e s' hs hg => (h hs.1).err s e s' hs.2 hg⟩

theorem st_false {m : M α} (h : ∀ s, P s → False) : St P m Q E :=
  ⟨fun s _ _ hs _ => (h s hs).elim, fun s _ _ hs _ => (h s hs).elim⟩

end rules

/-! ## the stack -/

theorem getD_set_ne {α : Type} (d : List α) (n m : Nat) (v dflt : α) (h : n ≠ m) :
    (d.set n v).getD m dflt = d.getD m dflt := by
  simp [List.getD_eq_getElem?_getD, List.getElem?_set_ne h]

theorem mem_take_of_getD {d : List Val} {n i : Nat} {a : Nat} (hi : i < n) (hn : n ≤ d.length)
    (h : d.getD i .nil = .obj a) : Val.obj a ∈ d.take n := by
  rw [List.mem_take_iff_getElem]
  have hil : i < d.length := by omega
  refine ⟨i, by rw [Nat.min_eq_left hn]; exact hi, ?_⟩
  rw [List.getD_eq_getElem?_getD, List.getElem?_eq_getElem hil] at h
  exact h

theorem top_push {s : VmState} {a : Nat} (h : TopIs s a) (hfit : s.stack.count + 1 < s.stack.data.length) :
    Top2Is { s with stack := { count := s.stack.count + 1, data := s.stack.data.set s.stack.count (.obj a) } } a ∧
    Val.obj a ∈ (s.stack.data.set s.stack.count (.obj a)).take (s.stack.count + 1) := by
  obtain ⟨h1, h2, h3⟩ := h
  refine ⟨⟨by show 1 < s.stack.count + 1; omega, ?_, ?_, ?_⟩, ?_⟩
  · show s.stack.count + 1 < (s.stack.data.set s.stack.count (Val.obj a)).length
    rw [List.length_set]; exact hfit
  · show (s.stack.data.set s.stack.count (Val.obj a)).getD (s.stack.count + 1 - 1) Val.nil = _
    rw [Nat.add_sub_cancel]; exact getD_set_self _ _ _ _ h2
  · show (s.stack.data.set s.stack.count (Val.obj a)).getD (s.stack.count + 1 - 2) Val.nil = _
    rw [getD_set_ne _ _ _ _ _ (by omega)]
    rw [show s.stack.count + 1 - 2 = s.stack.count - 1 by omega]; exact h3
  · exact mem_take_set_self _ _ _ h2

theorem top_pop {s : VmState} {a : Nat} (h : Top2Is s a) :
    s.stack.pop.2 = .obj a ∧ TopIs { s with stack := s.stack.pop.1 } a ∧
      Val.obj a ∈ (s.stack.pop.1).contents := by
  obtain ⟨h1, h2, h3, h4⟩ := h
  have hne : ¬ s.stack.count = 0 := by omega
  unfold VStack.pop
  rw [if_neg hne]
  refine ⟨h3, ⟨by show 0 < s.stack.count - 1; omega, ?_, ?_⟩, ?_⟩
  · show s.stack.count - 1 < (s.stack.data.set (s.stack.count - 1) default).length
    rw [List.length_set]; omega
  · show (s.stack.data.set (s.stack.count - 1) default).getD (s.stack.count - 1 - 1) Val.nil = _
    rw [getD_set_ne _ _ _ _ _ (by omega), show s.stack.count - 1 - 1 = s.stack.count - 2 by omega]
    exact h4
  · show Val.obj a ∈ (s.stack.data.set (s.stack.count - 1) default).take (s.stack.count - 1)
    refine mem_take_of_getD (i := s.stack.count - 2) (by omega) (by rw [List.length_set]; omega) ?_
    rw [getD_set_ne _ _ _ _ _ (by omega)]
    exact h4

/-! ## `CopyLast` while a closure is under construction -/

section copy
variable {p : Prog} {lvl : Nat → Nat} {E : ErrKind → Prop} [ErrClass E]
  {re : Reenter} {W : List (Option Nat × Nat)} {fs : List Frame} {src : Nat}

theorem st_copyLast_tail (hop : p.bytecode.getD src 0 = Compiler.op.copyLast) (a : Nat) (o : Obj) :
    St (fun s => InvX p lvl (some a) W fs s ∧ s.heap.get a = some o ∧ TopIs s a) (step p re src)
      (fun ctl s' => ctl.exit = false ∧ ctl.ip = src + 1 ∧ InvX p lvl (some a) W fs s' ∧
        s'.heap.get a = some o ∧ Top2Is s' a) E := by
  unfold step; simp only [hop]; st_peel
  refine st_of_forall (fun s hs => ?_)
  obtain ⟨hI, hg, ht⟩ := hs
  have hlast : s.stack.last = .obj a := by
    unfold VStack.last
    rw [if_pos ht.1]; exact ht.2.2
  refine st_get_bind (fun s0 hs0 => ?_)
  subst hs0
  rw [hlast]
  constructor
  · intro s1 ctl s' hs1 hgo
    subst hs1
    rw [go_bind] at hgo
    rcases hp : (push (.obj a)).go s1 with ⟨r, s2⟩
    rw [hp] at hgo
    cases r with
    | error e => simp at hgo
    | ok u =>
      obtain ⟨hfit, rfl⟩ := push_go_ok hp
      simp only [go_pure, Prod.mk.injEq, Except.ok.injEq] at hgo
      obtain ⟨rfl, rfl⟩ := hgo
      obtain ⟨t2, tm⟩ := top_push ht hfit
      exact ⟨rfl, rfl, ⟨hI.heap, hI.obl, hI.rooted, hI.frames, fun a' ha' => by cases ha'; exact tm⟩, hg, t2⟩
  · intro s1 e s' hs1 hgo
    subst hs1
    rw [go_bind] at hgo
    rcases hp : (push (.obj a)).go s1 with ⟨r, s2⟩
    rw [hp] at hgo
    cases r with
    | error e' =>
      simp only [Prod.mk.injEq, Except.error.injEq] at hgo
      obtain ⟨rfl, _⟩ := hgo
      exact ErrClass.calm (push_go_err hp)
    | ok u => simp at hgo

end copy

/-! ## the allocator keeps the value stack and what is on it -/

theorem allocPure_stack (c : Nat) (s : VmState) : (allocPure c s).2.stack = s.stack := by
  unfold allocPure allocCollected
  dsimp only
  split <;> split <;> rfl

theorem allocCollected_get_of_stack (c : Nat) (s : VmState) (a : Nat) (h : Val.obj a ∈ s.stack.contents) :
    (allocCollected c s).heap.get a = s.heap.get a := by
  unfold allocCollected
  split
  · show (gc (allocCharged c s)).heap.get a = _
    rw [gc_preserves_reachable (allocCharged c s) a (mem_stack_root (s := allocCharged c s) h)]
    rfl
  · rfl

theorem allocPure_get_of_stack (c : Nat) (s : VmState) (a : Nat) (h : Val.obj a ∈ s.stack.contents) :
    (allocPure c s).2.heap.get a = s.heap.get a := by
  unfold allocPure
  dsimp only
  split
  · exact allocCollected_get_of_stack c s a h
  · exact allocCollected_get_of_stack c s a h

/-! ## `RegisterUpvalue` -/

section reg
variable {p : Prog} {lvl : Nat → Nat} {E : ErrKind → Prop} [ErrClass E]
  {re : Reenter} {W0 : List (Option Nat × Nat)} {fs0 : List Frame} {l : Frame} {src n : Nat}
  {x : Option Nat} {a : Nat} {hd0 : UInt32} {k : Nat}

/-- after the capture: the invariant, and the closure under construction has one more upvalue -/
def RegPost (p : Prog) (lvl : Nat → Nat) (x : Option Nat) (W : List (Option Nat × Nat)) (fs : List Frame)
    (a : Nat) (hd0 : UInt32) (k : Nat) (s : VmState) : Prop :=
  InvX p lvl x W fs s ∧
    (x = some a → TopIs s a ∧ ∃ ar ups, s.heap.get a = some (.closure hd0 ar ups) ∧ k + 1 ≤ ups.length)

theorem RegPost.congr {W : List (Option Nat × Nat)} {fs : List Frame} {s s' : VmState}
    (h : RegPost p lvl x W fs a hd0 k s) (hh : s'.heap = s.heap) (hf : s'.frames = s.frames)
    (hst : s'.stack = s.stack) : RegPost p lvl x W fs a hd0 k s' := by
  refine ⟨h.1.congr hh hf (.inr hst), fun hx => ?_⟩
  obtain ⟨t, hg⟩ := h.2 hx
  refine ⟨?_, by rw [hh]; exact hg⟩
  unfold TopIs at t ⊢
  rw [hst]; exact t

/-- the state while the captured closure `c` is known -/
structure RegMid (p : Prog) (lvl : Nat → Nat) (x : Option Nat) (W : List (Option Nat × Nat)) (fs : List Frame)
    (a : Nat) (hd0 : UInt32) (k : Nat) (c : Nat) (hd ar : UInt32) (ups : List Nat) (s : VmState) : Prop where
  inv : InvX p lvl x W fs s
  /-- whatever closure is at `c` now is the one that was read -/
  same : ∀ h' a' u', s.heap.get c = some (.closure h' a' u') → h' = hd ∧ a' = ar ∧ u' = ups
  /-- it was a complete closure, or it is the one under construction -/
  comp : x = some c ∨ Complete p lvl hd ups.length
  tr : x = some a → c = a ∧ TopIs s a ∧ hd = hd0 ∧ k ≤ ups.length ∧ s.heap.get a = some (.closure hd ar ups)

theorem RegMid.set {W : List (Option Nat × Nat)} {fs : List Frame} {c : Nat} {hd ar : UInt32} {ups : List Nat}
    {s : VmState} (h : RegMid p lvl x W fs a hd0 k c hd ar ups s) (u : Nat) (s' : VmState)
    (hh : s'.heap = s.heap.set c (.closure hd ar (ups ++ [u]))) (hf : s'.frames = s.frames)
    (hst : s'.stack = s.stack) : RegPost p lvl x W fs a hd0 k s' := by
  have h1 := h.inv.set_clo c hd ar (ups ++ [u])
    (by rcases h.comp with hc | hc
        · exact .inl hc
        · exact .inr (hc.mono (by simp)))
    (fun h' a' u' hg => by
      obtain ⟨_, _, rfl⟩ := h.same h' a' u' hg
      simp)
  refine ⟨⟨by rw [hh]; exact h1.heap, by rw [hh]; exact h1.obl, h1.rooted, hf.trans h.inv.frames,
    by rw [hst]; exact h.inv.top⟩, fun hx => ?_⟩
  obtain ⟨rfl, t, rfl, hk, hg⟩ := h.tr hx
  refine ⟨by unfold TopIs at t ⊢; rw [hst]; exact t, ar, ups ++ [u], ?_, by simp; omega⟩
  rw [hh, heap_get_set, if_pos rfl, hg]; rfl

/-- a new upvalue object is allocated: the closure under construction survives the collection -/
theorem st_initSimple_mid {W : List (Option Nat × Nat)} {fs : List Frame} {c : Nat} {hd ar : UInt32}
    {ups : List Nat} (loc : UpLoc) :
    St (RegMid p lvl x W fs a hd0 k c hd ar ups) (initSimple (.upvalue loc))
      (fun _ => RegMid p lvl x W fs a hd0 k c hd ar ups) E := by
  have key : ∀ s, RegMid p lvl x W fs a hd0 k c hd ar ups s →
      RegMid p lvl x W fs a hd0 k c hd ar ups (allocPure Heap.objCharge s).2 := by
    intro s h
    have hh := harmless_allocPure Heap.objCharge s
    have hst := allocPure_stack Heap.objCharge s
    refine ⟨h.inv.harmless hh (.inr hst), fun h' a' u' hg => h.same h' a' u' (hh.old c _ hg rfl), h.comp,
      fun hx => ?_⟩
    obtain ⟨hca, t, e1, hk, hg⟩ := h.tr hx
    refine ⟨hca, by unfold TopIs at t ⊢; rw [hst]; exact t, e1, hk, ?_⟩
    rw [allocPure_get_of_stack Heap.objCharge s a (h.inv.top a hx)]; exact hg
  have key2 : ∀ s, RegMid p lvl x W fs a hd0 k c hd ar ups s →
      RegMid p lvl x W fs a hd0 k c hd ar ups (withObject (.upvalue loc) s) := by
    intro s h
    have hh := harmless_withObject (.upvalue loc) s rfl
    refine ⟨h.inv.harmless hh (.inr rfl), fun h' a' u' hg => h.same h' a' u' (hh.old c _ hg rfl), h.comp,
      fun hx => ?_⟩
    obtain ⟨hca, t, e1, hk, hg⟩ := h.tr hx
    refine ⟨hca, t, e1, hk, ?_⟩
    rw [withObject_get, hg]
  unfold initSimple
  refine st_bind (J := fun _ => RegMid p lvl x W fs a hd0 k c hd ar ups) ?_ (fun _ => ?_)
  · constructor
    · intro s u s' hs hg
      rw [← run_run_eq_go, allocBytes_run] at hg
      have := key s hs
      rw [hg] at this; exact this
    · intro s e s' hs hg
      rw [← run_run_eq_go, allocBytes_run] at hg
      have := allocPure_err Heap.objCharge s e (by rw [hg])
      rw [this]; exact ErrClass.calm (calm_of_plain rfl)
  · constructor
    · intro s u s' hs hg
      have e : (newObject (.upvalue loc)).go s = (.ok s.heap.next, withObject (.upvalue loc) s) := rfl
      rw [e] at hg
      simp only [Prod.mk.injEq, Except.ok.injEq] at hg
      obtain ⟨_, rfl⟩ := hg
      exact key2 s hs
    · intro s e s' hs hg
      have e' : (newObject (.upvalue loc)).go s = (.ok s.heap.next, withObject (.upvalue loc) s) := rfl
      rw [e'] at hg
      simp at hg

/-- **`RegisterUpvalue`**, in the normal phase (`x = none`) and while the closure at `a` is under
construction (`x = some a`): no capture assertion fails, the invariant is kept, and the closure under
construction gets one more upvalue -/
theorem st_regUp (hop : p.bytecode.getD src 0 = Compiler.op.registerUpvalue)
    (hreg : p.bytecode.getD (src + 2) 0 = 0 → (p.bytecode.getD (src + 1) 0).toNat < n)
    (hx : x = none ∨ x = some a) :
    St (fun s => InvX p lvl x (W0 ++ [(l.closure, n)]) (fs0 ++ [l]) s ∧
          (x = some a → Top2Is s a ∧ ∃ ar ups, s.heap.get a = some (.closure hd0 ar ups) ∧ k ≤ ups.length))
      (step p re src)
      (fun ctl s' => ctl.exit = false ∧ ctl.ip = src + 3 ∧
        RegPost p lvl x (W0 ++ [(l.closure, n)]) (fs0 ++ [l]) a hd0 k s') E := by
  unfold step; simp only [hop]; st_peel
  have fin : St (RegPost p lvl x (W0 ++ [(l.closure, n)]) (fs0 ++ [l]) a hd0 k)
      (pure { ip := src + 1 + 2 } : M Ctl)
      (fun ctl s' => ctl.exit = false ∧ ctl.ip = src + 3 ∧
        RegPost p lvl x (W0 ++ [(l.closure, n)]) (fs0 ++ [l]) a hd0 k s') E :=
    st_pure (fun s hs => ⟨rfl, by show src + 1 + 2 = src + 3; omega, hs⟩)
  -- pop
  refine st_bind (J := fun cv s => InvX p lvl x (W0 ++ [(l.closure, n)]) (fs0 ++ [l]) s ∧
      (x = some a → cv = .obj a ∧ TopIs s a ∧ ∃ ar ups, s.heap.get a = some (.closure hd0 ar ups) ∧ k ≤ ups.length))
    ?_ (fun cv => ?_)
  · constructor
    · intro s v s' hs hg
      have e : pop.go s = (.ok s.stack.pop.2, { s with stack := s.stack.pop.1 }) := rfl
      rw [e] at hg
      simp only [Prod.mk.injEq, Except.ok.injEq] at hg
      obtain ⟨rfl, rfl⟩ := hg
      rcases hx with hx | hx
      · subst hx
        exact ⟨hs.1.congr' rfl rfl, fun h => by cases h⟩
      · subst hx
        obtain ⟨t2, hg2⟩ := hs.2 rfl
        obtain ⟨e1, t1, m1⟩ := top_pop t2
        exact ⟨⟨hs.1.heap, hs.1.obl, hs.1.rooted, hs.1.frames, fun a' ha' => by cases ha'; exact m1⟩,
          fun _ => ⟨e1, t1, hg2⟩⟩
    · intro s e s' hs hg
      have e' : pop.go s = (.ok s.stack.pop.2, { s with stack := s.stack.pop.1 }) := rfl
      rw [e'] at hg
      simp at hg
  split
  · next c =>
    refine st_of_forall (fun s0 hs0 => ?_)
    refine st_get_bind (fun s1 hs1 => ?_)
    subst hs1
    split
    · next hd ar ups heq =>
      have hmid : RegMid p lvl x (W0 ++ [(l.closure, n)]) (fs0 ++ [l]) a hd0 k c hd ar ups s1 := by
        refine ⟨hs0.1, fun h' a' u' hg => ?_, ?_, fun hxa => ?_⟩
        · rw [heq] at hg
          simp only [Option.some.injEq, Obj.closure.injEq] at hg
          exact ⟨hg.1.symm, hg.2.1.symm, hg.2.2.symm⟩
        · rcases hx with hx | hx
          · exact .inr (hs0.1.heap.clo c hd ar ups heq (by rw [hx]; simp))
          · obtain ⟨e1, _⟩ := hs0.2 hx
            cases e1
            exact .inl hx
        · obtain ⟨e1, t1, ar', ups', hg', hk'⟩ := hs0.2 hxa
          cases e1
          rw [heq] at hg'
          simp only [Option.some.injEq, Obj.closure.injEq] at hg'
          obtain ⟨rfl, rfl, rfl⟩ := hg'
          exact ⟨rfl, t1, rfl, hk', heq⟩
      refine st_conseq (P' := RegMid p lvl x (W0 ++ [(l.closure, n)]) (fs0 ++ [l]) a hd0 k c hd ar ups) ?_
        (fun s h => h ▸ hmid) (fun _ _ h => h) (fun _ h => h)
      refine st_ite (fun hloc => ?_) (fun hloc => ?_)
      · -- a local variable is captured
        refine st_bind (J := fun _ => RegMid p lvl x (W0 ++ [(l.closure, n)]) (fs0 ++ [l]) a hd0 k c hd ar ups)
          (st_conseq (st_curFrame_eq (fun s h => h.inv.frames)) (fun _ h => h) (fun _ _ h => h.2) (fun _ h => h))
          (fun fr => ?_)
        refine st_get_bind' (fun s2 _ => ?_)
        refine st_ite (fun _ => st_throwE_bind (ErrClass.calm (calm_of_plain rfl))) (fun _ => ?_)
        refine st_of_forall (fun s3 hs3 => ?_)
        refine st_get_bind (fun s4 hs4 => ?_)
        subst hs4
        split
        · next u _ =>
          refine st_bind (J := fun _ => RegPost p lvl x (W0 ++ [(l.closure, n)]) (fs0 ++ [l]) a hd0 k)
            (st_modify (fun s hs => ?_)) (fun _ => fin)
          subst hs
          exact hs3.set u _ rfl rfl rfl
        · refine st_conseq (P' := RegMid p lvl x (W0 ++ [(l.closure, n)]) (fs0 ++ [l]) a hd0 k c hd ar ups) ?_
            (fun s h => h ▸ hs3) (fun _ _ h => h) (fun _ h => h)
          refine st_bind (st_initSimple_mid _) (fun u => ?_)
          refine st_bind (J := fun _ => RegPost p lvl x (W0 ++ [(l.closure, n)]) (fs0 ++ [l]) a hd0 k)
            (st_modify (fun s hs => hs.set u _ rfl rfl rfl)) (fun _ => ?_)
          refine st_bind (J := fun _ => RegPost p lvl x (W0 ++ [(l.closure, n)]) (fs0 ++ [l]) a hd0 k) ?_ (fun _ => fin)
          unfold dropGuard
          exact st_modify (fun s hs => hs.congr rfl rfl rfl)
      · -- an upvalue of the running closure is captured
        refine st_of_forall (fun s2 hs2 => ?_)
        refine st_bind (st_curFrame_eq (P := fun s => s = s2) (fs0 := fs0) (l := l)
          (fun s h => by rw [h]; exact hs2.inv.frames)) (fun fr => ?_)
        refine st_pre_pure (fun hfr => ?_)
        subst hfr
        have hz : p.bytecode.getD (src + 2) 0 = 0 := by simpa using hloc
        have hidx := hreg hz
        have hob : FrameOk s2.heap n fr.closure := hs2.inv.obl (fr.closure, n) (by simp)
        rcases hob with h0 | ⟨oc, hoc, hd', ar', oups, hgo, hno⟩
        · exact (by omega : False).elim
        split
        · next hnone => rw [hoc] at hnone; cases hnone
        · next outer hsome =>
          rw [hoc] at hsome
          cases hsome
          refine st_get_bind (fun s3 hs3 => ?_)
          subst hs3
          split
          · next h'' a'' oups' hg' =>
            rw [hgo] at hg'
            simp only [Option.some.injEq, Obj.closure.injEq] at hg'
            obtain ⟨_, _, rfl⟩ := hg'
            split
            · next u hu =>
              refine st_bind (J := fun _ => RegPost p lvl x (W0 ++ [(fr.closure, n)]) (fs0 ++ [fr]) a hd0 k)
                (st_modify (fun s hs => ?_)) (fun _ => fin)
              subst hs
              exact hs2.set u _ rfl rfl rfl
            · next hnone =>
              have := List.getElem?_eq_none_iff.1 hnone
              exact (by omega : False).elim
          · next hne => exact (hne _ _ _ hgo).elim
    · exact st_throwE (ErrClass.calm (calm_of_plain rfl))
  · exact st_throwE (ErrClass.calm (calm_of_plain rfl))
end reg

end Cao.Vm
