import CaoModel.Sem
import CaoProofs.Lemmas.CompilerLemmas
import CaoProofs.Lemmas.WithStd
/-!
# Name resolution, module flattening and the jump table (helper lemmas for C08)
-/
set_option linter.unusedSimpArgs false
set_option linter.unusedVariables false

namespace Cao.Compiler
open Cao

/-! ## 1. a pure specification of `resolveFunction` -/

abbrev JumpTable := List (String × (UInt32 × UInt32))

/-- first entry of the jump table with that full name -/
def look (jt : JumpTable) (name : String) : Option (UInt32 × UInt32) :=
  (jt.find? (fun p => p.1 == name)).map (·.2)

/-- the full name an import alias designates from module `ns`: `super.` walks up, too many
`super.` is an error. `mk` builds the tail from the text after the last `super.` (if any) -/
def importTarget (ns : List String) (alias_ : String) (mk : Option String → String) :
    Except CErrKind String :=
  if (superDepth alias_).1 > ns.length then .error .superLimitReached
  else .ok (joinNs (ns.take (ns.length - (superDepth alias_).1)) (mk (superDepth alias_).2))

/-- step 3: `name` is the key of a function import (`lk` = lookup of a full name) -/
def fnImportStep {α : Type} (lk : String → Option α) (ns : List String) (imports : List (String × String))
    (name : String) : Except CErrKind (Option α) :=
  match imports.find? (fun p => p.1 == name) with
  | none => .ok none
  | some p => (importTarget ns p.2 (fun sfx => sfx.getD p.2)).map lk

/-- step 4: the first segment of `name` is the key of a module import -/
def modImportStep {α : Type} (lk : String → Option α) (ns : List String) (imports : List (String × String))
    (name : String) : Except CErrKind (Option α) :=
  match name.splitOn "." with
  | pre :: rest@(_ :: _) =>
    match imports.find? (fun p => p.1 == pre) with
    | none => .ok none
    | some p =>
      (importTarget ns p.2 (fun sfx => sfx.getD p.2 ++ "." ++ ".".intercalate rest)).map lk
  | _ => .ok none

/-- sequencing of the lookup steps: an error aborts, a hit wins, a miss continues with `rest` -/
def stepThen {α : Type} (st : Except CErrKind (Option α)) (rest : Except CErrKind α) : Except CErrKind α :=
  match st with
  | .error k => .error k
  | .ok (some r) => .ok r
  | .ok none => rest

/-- the documented lookup order: absolute dotted path, the caller's own module, function
imports, module-prefix imports; the first match wins. Generic in the lookup `lk` of a full name. -/
def resolveWith {α : Type} (lk : String → Option α) (ns : List String) (imports : List (String × String))
    (name : String) : Except CErrKind α :=
  stepThen (.ok (lk name)) <|
  stepThen (.ok (lk (joinNs ns name))) <|
  stepThen (fnImportStep lk ns imports name) <|
  stepThen (modImportStep lk ns imports name) <|
  .error .invalidJump

/-- the resolution over a jump table -/
def resolveSpec (jt : JumpTable) (ns : List String) (imports : List (String × String))
    (name : String) : Except CErrKind (UInt32 × UInt32) :=
  resolveWith (look jt) ns imports name

/-- the source location attached to an error raised in state `s` (what `curTrace` returns) -/
def traceOf (s : CState) : Trace := { ns := s.ns, function := s.curFunction, indices := s.curIndices }

/-- how a pure resolution result shows up as the result of a `CM` action run in state `s` -/
def toRun {α : Type} (s : CState) (r : Except CErrKind α) : Except CErr (α × CState) :=
  match r with
  | .ok r => .ok (r, s)
  | .error k => .error (.err k (some (traceOf s)))

theorem lookupJump_eq (s : CState) (n : String) : lookupJump s n = look s.jumpTable n := rfl

theorem fail_bind_run {α β : Type} (k : CErrKind) (f : α → CM β) (s : CState) :
    StateT.bind (fail k : CM α) f s = .error (.err k (some (traceOf s))) := rfl

theorem resolveFunction_run (name : String) (s : CState) :
    resolveFunction name s = toRun s (resolveSpec s.jumpTable s.ns s.imports name) := by
  unfold resolveFunction
  simp only [bind, StateT.bind, get, getThe, MonadStateOf.get, StateT.get, pure, Except.pure, Except.bind,
    lookupJump_eq]
  unfold resolveSpec resolveWith
  cases h1 : look s.jumpTable name with
  | some r => rfl
  | none =>
  cases h2 : look s.jumpTable (joinNs s.ns name) with
  | some r => rfl
  | none =>
  have fin : ∀ (alias_ : String) (mk : Option String → String) (k : CM (UInt32 × UInt32)) (res : Except CErrKind (UInt32 × UInt32)),
      (k s = toRun s res) →
      (if (superDepth alias_).fst > s.ns.length then
          StateT.bind (fail CErrKind.superLimitReached) fun (__r : PUnit) =>
            match look s.jumpTable (joinNs (List.take (s.ns.length - (superDepth alias_).fst) s.ns) (mk (superDepth alias_).snd)) with
            | some r => StateT.pure r
            | _ => k
        else
          match look s.jumpTable (joinNs (List.take (s.ns.length - (superDepth alias_).fst) s.ns) (mk (superDepth alias_).snd)) with
          | some r => StateT.pure r
          | _ => k) s =
      toRun s (stepThen (Except.map (look s.jumpTable) (importTarget s.ns alias_ mk)) res) := by
    intro alias_ mk k res hk
    unfold importTarget
    by_cases hsd : (superDepth alias_).fst > s.ns.length
    · simp only [hsd, if_true, Except.map]; rfl
    · simp only [hsd, if_false, Except.map]
      cases h5 : look s.jumpTable (joinNs (List.take (s.ns.length - (superDepth alias_).fst) s.ns) (mk (superDepth alias_).snd)) with
      | some r => rfl
      | none => exact hk
  have step4 : ∀ l, name.splitOn "." = l →
      ((match l with
        | pre :: rest@h:(head :: tail) =>
          match List.find? (fun p => p.fst == pre) s.imports with
          | some (fst, alias_) =>
            if (superDepth alias_).fst > s.ns.length then
              StateT.bind (fail CErrKind.superLimitReached) fun (__r : PUnit) =>
                match look s.jumpTable
                    (joinNs (List.take (s.ns.length - (superDepth alias_).fst) s.ns)
                      ((superDepth alias_).snd.getD alias_ ++ "." ++ ".".intercalate rest)) with
                | some r => StateT.pure r
                | x => fail CErrKind.invalidJump
            else
              match look s.jumpTable
                  (joinNs (List.take (s.ns.length - (superDepth alias_).fst) s.ns)
                    ((superDepth alias_).snd.getD alias_ ++ "." ++ ".".intercalate rest)) with
              | some r => StateT.pure r
              | x => fail CErrKind.invalidJump
          | x => fail CErrKind.invalidJump
        | x => fail CErrKind.invalidJump : CM (UInt32 × UInt32)) s) =
      toRun s (stepThen (modImportStep (look s.jumpTable) s.ns s.imports name) (.error .invalidJump)) := by
    intro l hl
    unfold modImportStep
    rw [hl]
    rcases l with _ | ⟨pre, _ | ⟨hd, tl⟩⟩
    · rfl
    · rfl
    · simp only []
      cases h6 : List.find? (fun p => p.fst == pre) s.imports with
      | none => rfl
      | some val =>
        rcases val with ⟨key, alias_⟩
        exact fin alias_ (fun sfx => sfx.getD alias_ ++ "." ++ ".".intercalate (hd :: tl)) _ _ rfl
  have s4 := step4 _ rfl
  simp only [fnImportStep]
  cases h3 : List.find? (fun p => p.fst == name) s.imports with
  | none => simp only []; exact s4
  | some val =>
    rcases val with ⟨key, alias_⟩
    simp only []
    exact fin alias_ (fun sfx => sfx.getD alias_) _ _ s4

/-! ## 2. the reference resolution `Sem.resolve` is built from the same steps -/

theorem sem_joinNs_eq : Sem.joinNs = joinNs := rfl

/-- a step of the reference semantics: errors are just misses -/
def optStep {α : Type} (st : Except CErrKind (Option α)) : Option α :=
  match st with
  | .ok o => o
  | .error _ => none

theorem sem_resolve_eq (fns : Array Sem.FnDef) (home : Nat) (h : Sem.FnDef) (hh : fns[home]? = some h)
    (name : String) :
    Sem.resolve fns home name =
      ((Sem.findFn fns name).orElse fun _ =>
       (Sem.findFn fns (joinNs h.ns name)).orElse fun _ =>
       (optStep (fnImportStep (Sem.findFn fns) h.ns h.imports name)).orElse fun _ =>
       optStep (modImportStep (Sem.findFn fns) h.ns h.imports name)) := by
  unfold Sem.resolve
  simp only [hh, sem_joinNs_eq]
  congr 1; funext _
  congr 1; funext _
  congr 1
  · unfold fnImportStep
    cases List.find? (fun p => p.fst == name) h.imports with
    | none => rfl
    | some p =>
      simp only [Option.bind_some, importTarget]
      split <;> rfl
  · funext _
    unfold modImportStep
    rcases name.splitOn "." with _ | ⟨pre, _ | ⟨hd, tl⟩⟩
    · rfl
    · rfl
    · simp only []
      cases List.find? (fun p => p.fst == pre) h.imports with
      | none => rfl
      | some p =>
        simp only [Option.bind_some, importTarget]
        split <;> rfl

/-- the reference lookup order, generic in the lookup of a full name (errors are misses) -/
def semWith {α : Type} (lk : String → Option α) (ns : List String) (imports : List (String × String))
    (name : String) : Option α :=
  (lk name).orElse fun _ =>
  (lk (joinNs ns name)).orElse fun _ =>
  (optStep (fnImportStep lk ns imports name)).orElse fun _ =>
  optStep (modImportStep lk ns imports name)

theorem sem_resolve_eq_semWith (fns : Array Sem.FnDef) (home : Nat) (h : Sem.FnDef) (hh : fns[home]? = some h)
    (name : String) :
    Sem.resolve fns home name = semWith (Sem.findFn fns) h.ns h.imports name :=
  sem_resolve_eq fns home h hh name

theorem importTarget_error {ns : List String} {a : String} {mk : Option String → String} {k : CErrKind}
    (h : importTarget ns a mk = .error k) : k = .superLimitReached := by
  unfold importTarget at h
  split at h
  · cases h; rfl
  · cases h

theorem fnImportStep_error {α : Type} {lk : String → Option α} {ns : List String}
    {imports : List (String × String)} {name : String} {k : CErrKind}
    (h : fnImportStep lk ns imports name = .error k) : k = .superLimitReached := by
  unfold fnImportStep at h
  split at h
  · cases h
  · cases h2 : importTarget ns _ _ with
    | error e => rw [h2] at h; cases h; exact importTarget_error h2
    | ok v => rw [h2] at h; cases h

theorem modImportStep_error {α : Type} {lk : String → Option α} {ns : List String}
    {imports : List (String × String)} {name : String} {k : CErrKind}
    (h : modImportStep lk ns imports name = .error k) : k = .superLimitReached := by
  unfold modImportStep at h
  split at h
  · split at h
    · cases h
    · cases h2 : importTarget ns _ _ with
      | error e => rw [h2] at h; cases h; exact importTarget_error h2
      | ok v => rw [h2] at h; cases h
  · cases h

section
variable {α : Type} {lk : String → Option α} {ns : List String} {imports : List (String × String)}
  {name : String}

/-- a successful resolution is the reference resolution -/
theorem resolveWith_ok_sem {r : α} (h : resolveWith lk ns imports name = .ok r) :
    semWith lk ns imports name = some r := by
  unfold resolveWith stepThen at h
  unfold semWith
  cases h1 : lk name with
  | some a => simp only [h1] at h; cases h; rfl
  | none =>
  cases h2 : lk (joinNs ns name) with
  | some a => simp only [h1, h2] at h; cases h; rfl
  | none =>
  simp only [h1, h2] at h
  rcases h3 : fnImportStep lk ns imports name with e | _ | a
  · simp only [h3] at h; cases h
  · simp only [h3] at h
    rcases h4 : modImportStep lk ns imports name with e | _ | a
    · simp only [h4] at h; cases h
    · simp only [h4] at h; cases h
    · simp only [h4] at h; cases h; rfl
  · simp only [h3] at h; cases h; rfl

/-- `InvalidJump` is reported only when the reference resolution finds nothing -/
theorem resolveWith_invalidJump_sem (h : resolveWith lk ns imports name = .error .invalidJump) :
    semWith lk ns imports name = none := by
  unfold resolveWith stepThen at h
  unfold semWith
  cases h1 : lk name with
  | some a => simp only [h1] at h; cases h
  | none =>
  cases h2 : lk (joinNs ns name) with
  | some a => simp only [h1, h2] at h; cases h
  | none =>
  simp only [h1, h2] at h
  rcases h3 : fnImportStep lk ns imports name with e | _ | a
  · simp only [h3] at h; cases h; cases fnImportStep_error h3
  · simp only [h3] at h
    rcases h4 : modImportStep lk ns imports name with e | _ | a
    · simp only [h4] at h; cases h; cases modImportStep_error h4
    · rfl
    · simp only [h4] at h; cases h
  · simp only [h3] at h; cases h

/-- the only errors of the resolution -/
theorem resolveWith_error_kind {k : CErrKind} (h : resolveWith lk ns imports name = .error k) :
    k = .invalidJump ∨ k = .superLimitReached := by
  unfold resolveWith stepThen at h
  cases h1 : lk name with
  | some a => simp only [h1] at h; cases h
  | none =>
  cases h2 : lk (joinNs ns name) with
  | some a => simp only [h1, h2] at h; cases h
  | none =>
  simp only [h1, h2] at h
  rcases h3 : fnImportStep lk ns imports name with e | _ | a
  · simp only [h3] at h; cases h; exact Or.inr (fnImportStep_error h3)
  · simp only [h3] at h
    rcases h4 : modImportStep lk ns imports name with e | _ | a
    · simp only [h4] at h; cases h; exact Or.inr (modImportStep_error h4)
    · simp only [h4] at h; cases h; exact Or.inl rfl
    · simp only [h4] at h; cases h
  · simp only [h3] at h; cases h

/-- whatever the reference resolution designates, the compiler designates the same function or
rejects the program with `SuperLimitReached` -/
theorem semWith_some {r : α} (h : semWith lk ns imports name = some r) :
    resolveWith lk ns imports name = .ok r ∨
    resolveWith lk ns imports name = .error .superLimitReached := by
  cases hr : resolveWith lk ns imports name with
  | ok r' =>
    have := resolveWith_ok_sem hr
    rw [h] at this; cases this; exact Or.inl rfl
  | error k =>
    rcases resolveWith_error_kind hr with rfl | rfl
    · have := resolveWith_invalidJump_sem hr
      rw [h] at this; cases this
    · exact Or.inr rfl

/-- import keys are single segments (what `executeImports` produces: the last `.`-segment of the
import path) -/
def SimpleKeys (imports : List (String × String)) : Prop :=
  ∀ p ∈ imports, ∀ pre x rest, p.1.splitOn "." ≠ pre :: x :: rest

theorem modImportStep_of_fnImportStep_error (hk : SimpleKeys imports) {k : CErrKind}
    (h : fnImportStep lk ns imports name = .error k) : modImportStep lk ns imports name = .ok none := by
  unfold fnImportStep at h
  split at h
  · cases h
  · rename_i p hp
    have hmem := List.mem_of_find?_eq_some hp
    have hname : p.1 = name := by simpa using List.find?_some hp
    have := hk p hmem
    rw [hname] at this
    unfold modImportStep
    split
    · rename_i heq
      exact absurd heq (this _ _ _)
    · rfl

/-- with single-segment import keys the two resolutions agree exactly (errors ↦ `none`) -/
theorem resolveWith_toOption (hk : SimpleKeys imports) :
    (resolveWith lk ns imports name).toOption = semWith lk ns imports name := by
  cases hr : resolveWith lk ns imports name with
  | ok r => rw [resolveWith_ok_sem hr]; rfl
  | error k =>
    rcases resolveWith_error_kind hr with rfl | rfl
    · rw [resolveWith_invalidJump_sem hr]; rfl
    · show none = _
      unfold resolveWith stepThen at hr
      unfold semWith
      cases h1 : lk name with
      | some a => simp only [h1] at hr; cases hr
      | none =>
      cases h2 : lk (joinNs ns name) with
      | some a => simp only [h1, h2] at hr; cases hr
      | none =>
      simp only [h1, h2] at hr
      rcases h3 : fnImportStep lk ns imports name with e | _ | a
      · rw [modImportStep_of_fnImportStep_error hk h3]; rfl
      · simp only [h3] at hr
        rcases h4 : modImportStep lk ns imports name with e | _ | a
        · rfl
        · simp only [h4] at hr; cases hr
        · simp only [h4] at hr; cases hr
      · simp only [h3] at hr; cases hr

/-- naturality in the lookup: relabelling the targets commutes with the resolution -/
theorem resolveWith_map {β : Type} (g : α → β) :
    resolveWith (fun n => (lk n).map g) ns imports name = (resolveWith lk ns imports name).map g := by
  have hstep : ∀ (st : Except CErrKind (Option α)) (rest : Except CErrKind α),
      stepThen (st.map (Option.map g)) (rest.map g) = (stepThen st rest).map g := by
    intro st rest
    rcases st with e | _ | a <;> rfl
  have h3 : fnImportStep (fun n => (lk n).map g) ns imports name =
      (fnImportStep lk ns imports name).map (Option.map g) := by
    unfold fnImportStep
    split
    · rfl
    · cases importTarget ns _ _ <;> rfl
  have h4 : modImportStep (fun n => (lk n).map g) ns imports name =
      (modImportStep lk ns imports name).map (Option.map g) := by
    unfold modImportStep
    split
    · split
      · rfl
      · cases importTarget ns _ _ <;> rfl
    · rfl
  unfold resolveWith
  rw [h3, h4]
  rw [← hstep, ← hstep, ← hstep, ← hstep]
  rfl
end

/-- a successful resolution returns a hit of the lookup -/
theorem resolveWith_ok_lk {α : Type} {lk : String → Option α} {ns : List String}
    {imports : List (String × String)} {name : String} {r : α}
    (h : resolveWith lk ns imports name = .ok r) : ∃ n, lk n = some r := by
  have e3 : ∀ {a}, fnImportStep lk ns imports name = .ok (some a) → ∃ n, lk n = some a := by
    intro a h
    unfold fnImportStep at h
    split at h
    · cases h
    · cases h2 : importTarget ns _ _ with
      | error e => rw [h2] at h; cases h
      | ok v => rw [h2] at h; simp only [Except.map, Except.ok.injEq] at h; exact ⟨v, h⟩
  have e4 : ∀ {a}, modImportStep lk ns imports name = .ok (some a) → ∃ n, lk n = some a := by
    intro a h
    unfold modImportStep at h
    split at h
    · split at h
      · cases h
      · cases h2 : importTarget ns _ _ with
        | error e => rw [h2] at h; cases h
        | ok v => rw [h2] at h; simp only [Except.map, Except.ok.injEq] at h; exact ⟨v, h⟩
    · cases h
  unfold resolveWith stepThen at h
  cases h1 : lk name with
  | some a => simp only [h1] at h; cases h; exact ⟨_, h1⟩
  | none =>
  cases h2 : lk (joinNs ns name) with
  | some a => simp only [h1, h2] at h; cases h; exact ⟨_, h2⟩
  | none =>
  simp only [h1, h2] at h
  rcases h3 : fnImportStep lk ns imports name with e | _ | a
  · simp only [h3] at h; cases h
  · simp only [h3] at h
    rcases h4 : modImportStep lk ns imports name with e | _ | a
    · simp only [h4] at h; cases h
    · simp only [h4] at h; cases h
    · simp only [h4] at h; cases h; exact e4 h4
  · simp only [h3] at h; cases h; exact e3 h3

/-! ## 3. the jump table of a flattened stream and the reference function table -/

theorem fullName_eq_joinNs (f : FunctionIr) : f.fullName = joinNs f.ns f.name := by
  unfold FunctionIr.fullName joinNs
  generalize f.ns = ns
  cases ns with
  | nil => simp
  | cons a l =>
    simp only [List.isEmpty_cons, Bool.false_eq_true, if_false]
    induction l generalizing a with
    | nil => simp
    | cons b l ih =>
      have := ih b
      rw [String.intercalate_cons_cons, List.map_cons, String.join_cons]
      simp only [String.append_assoc] at this ⊢
      rw [this]

/-- the reference function record of a flattened function -/
def toFnDef (f : FunctionIr) : Sem.FnDef :=
  { fullName := joinNs f.ns f.name, ns := f.ns, imports := f.imports, params := f.arguments, cards := f.cards }

/-- what a static call to `f` is compiled to: its handle and its arity -/
def tgt (f : FunctionIr) : UInt32 × UInt32 := (f.handle, UInt32.ofNat f.arguments.length)

/-- the jump table `addFunctions` builds -/
def jumpTableOf (fns : List FunctionIr) : JumpTable := fns.map fun f => (f.fullName, tgt f)

theorem look_jumpTableOf (fns : List FunctionIr) (n : String) :
    look (jumpTableOf fns) n =
      (Sem.findFn (fns.map toFnDef).toArray n).map (fun j => tgt (fns.getD j default)) := by
  unfold look jumpTableOf Sem.findFn
  rw [List.findIdx?_toArray, List.findIdx?_map, List.find?_map]
  induction fns with
  | nil => rfl
  | cons f fs ih =>
    rw [List.find?_cons, List.findIdx?_cons]
    simp only [Function.comp, toFnDef, fullName_eq_joinNs] at ih ⊢
    by_cases hb : (joinNs f.ns f.name == n) = true
    · simp [hb]
    · simp only [hb]
      rw [ih]
      simp only [Bool.false_eq_true, if_false, Option.map_map]
      rfl

theorem findFn_lt {fns : Array Sem.FnDef} {n : String} {j : Nat} (h : Sem.findFn fns n = some j) :
    j < fns.size := by
  unfold Sem.findFn at h
  have := Array.findIdx?_eq_some_iff_getElem.1 h
  exact this.1

/-! ## 4. flattening the module tree -/

theorem ebind_ok {ε α β : Type} {x : Except ε α} {f : α → Except ε β} {b : β} :
    (x >>= f) = .ok b ↔ ∃ a, x = .ok a ∧ f a = .ok b := by
  cases x with
  | error e => simp [bind, Except.bind]
  | ok a => simp [bind, Except.bind]

theorem ebind_error {ε α β : Type} {x : Except ε α} {f : α → Except ε β} {e : ε} :
    (x >>= f) = .error e ↔ x = .error e ∨ ∃ a, x = .ok a ∧ f a = .error e := by
  cases x with
  | error e => simp [bind, Except.bind]
  | ok a => simp [bind, Except.bind]

/-- induction over a module tree -/
theorem Module.tree_induct {P : Module → Prop} {Q : List (String × Module) → Prop}
    (mk : ∀ subs fns imps, Q subs → P (.mk subs fns imps)) (nil : Q [])
    (cons : ∀ n s rest, P s → Q rest → Q ((n, s) :: rest)) : (∀ m, P m) ∧ ∀ l, Q l :=
  ⟨fun m => Module.rec (motive_1 := P) (motive_2 := Q) (motive_3 := fun p => P p.2) mk nil
      (fun h t hp ht => cons h.1 h.2 t hp ht) (fun _ _ h => h) m,
   fun l => Module.rec_1 (motive_1 := P) (motive_2 := Q) (motive_3 := fun p => P p.2) mk nil
      (fun h t hp ht => cons h.1 h.2 t hp ht) (fun _ _ h => h) l⟩

mutual
  /-- some module of the tree (with its namespace) satisfies `P` -/
  def anyMod (P : List String → Module → Bool) : Module → List String → Bool
    | .mk subs fns imps, ns => P ns (.mk subs fns imps) || anyModSubs P subs ns
  def anyModSubs (P : List String → Module → Bool) : List (String × Module) → List String → Bool
    | [], _ => false
    | (n, s) :: rest, ns => anyMod P s (ns ++ [n]) || anyModSubs P rest ns
end

theorem anyMod_mono_all {P Q : List String → Module → Bool} (h : ∀ ns m, P ns m = true → Q ns m = true) :
    (∀ m ns, anyMod P m ns = true → anyMod Q m ns = true) ∧
    (∀ l ns, anyModSubs P l ns = true → anyModSubs Q l ns = true) := by
  apply Module.tree_induct
  · intro subs fns imps ih ns
    simp only [anyMod, Bool.or_eq_true]
    rintro (h1 | h1)
    · exact Or.inl (h _ _ h1)
    · exact Or.inr (ih ns h1)
  · intro ns; simp [anyModSubs]
  · intro n s rest ih1 ih2 ns
    simp only [anyModSubs, Bool.or_eq_true]
    rintro (h1 | h1)
    · exact Or.inl (ih1 _ h1)
    · exact Or.inr (ih2 _ h1)

theorem anyMod_mono {P Q : List String → Module → Bool} (h : ∀ ns m, P ns m = true → Q ns m = true)
    {m : Module} {ns : List String} : anyMod P m ns = true → anyMod Q m ns = true :=
  (anyMod_mono_all h).1 m ns

/-- a function name or a submodule name of this module is not a valid name -/
def badName (m : Module) : Bool :=
  m.functions.any (fun p => !isNameValid p.1) || m.submodules.any (fun p => !isNameValid p.1)

/-- the import list of this module is rejected with error `k` -/
def importErr (k : CErrKind) (m : Module) : Bool :=
  match executeImports m.imports with
  | .error k' => decide (k' = k)
  | .ok _ => false

/-- the import list of this module is rejected -/
def importBad (m : Module) : Bool :=
  match executeImports m.imports with
  | .error _ => true
  | .ok _ => false

/-- this module is nested too deep -/
def tooDeep (limit : Nat) (ns : List String) : Bool := decide (limit ≤ ns.length)

/-- anything `flatten` rejects in one module -/
def defect (limit : Nat) (ns : List String) (m : Module) : Bool :=
  tooDeep limit ns || importBad m || badName m

/-- the defect of one module that `flatten` reports as error `k` -/
def defectK (limit : Nat) (k : CErrKind) (ns : List String) (m : Module) : Bool :=
  match k with
  | .recursionLimitReached => tooDeep limit ns
  | .badFunctionName => badName m
  | k => importErr k m

/-- two submodules of this module have the same name -/
def dupMods (m : Module) : Bool := dupNames (m.submodules.map (·.1))

/-- two functions of this module have the same name -/
def dupFns (m : Module) : Bool := dupNames (m.functions.map (·.1))

/-- the imports of a module, as `executeImports` computes them (`[]` if they are rejected) -/
def importsOf (imps : List String) : List (String × String) :=
  match executeImports imps with
  | .ok l => l
  | .error _ => []

/-- the functions of one module, in order, numbered from `i` (handles not yet assigned) -/
def fnEntries (ns : List String) (imports : List (String × String)) : List (String × Func) → Nat → List FunctionIr
  | [], _ => []
  | (name, f) :: rest, i =>
    { functionIndex := i, name := name, arguments := f.arguments, cards := f.cards, ns := ns,
      imports := imports, handle := 0 } :: fnEntries ns imports rest (i + 1)

mutual
  /-- every function of the tree, in the order of the walk: the functions of a module, then its
  submodules in order (handles not yet assigned) -/
  def entries : Module → List String → List FunctionIr
    | .mk subs fns imps, ns => fnEntries ns (importsOf imps) fns 0 ++ entriesSubs subs ns
  def entriesSubs : List (String × Module) → List String → List FunctionIr
    | [], _ => []
    | (n, s) :: rest, ns => entries s (ns ++ [n]) ++ entriesSubs rest ns
end

/-- assign the handles `Handle::from_u64(k)`, `Handle::from_u64(k+1)`, … -/
def withHandles : Nat → List FunctionIr → List FunctionIr
  | _, [] => []
  | k, f :: l => { f with handle := Hash.handleFromU64 (UInt64.ofNat k) } :: withHandles (k + 1) l

@[simp] theorem withHandles_length : ∀ (k : Nat) (l : List FunctionIr), (withHandles k l).length = l.length
  | _, [] => rfl
  | k, f :: l => by simp [withHandles, withHandles_length (k + 1) l]

theorem withHandles_append : ∀ (k : Nat) (a b : List FunctionIr),
    withHandles k (a ++ b) = withHandles k a ++ withHandles (k + a.length) b
  | _, [], b => by simp [withHandles]
  | k, f :: a, b => by
    simp only [List.cons_append, withHandles, List.length_cons, withHandles_append (k + 1) a b]
    congr 3; omega

theorem flattenFns_eq (ns : List String) (imports : List (String × String)) :
    ∀ (fns : List (String × Func)) (i : Nat) (out : Array FunctionIr),
      flattenFns ns imports fns i out =
        if fns.any (fun p => !isNameValid p.1) then .error .badFunctionName
        else .ok ⟨out.toList ++ withHandles out.size (fnEntries ns imports fns i)⟩
  | [], i, out => by simp [flattenFns, fnEntries, withHandles]; rfl
  | (n, f) :: rest, i, out => by
    simp only [flattenFns, List.any_cons]
    by_cases hv : isNameValid n = true
    · simp only [hv, Bool.not_true, Bool.false_eq_true, if_false, Bool.false_or]
      rw [flattenFns_eq ns imports rest (i + 1)]
      simp [fnEntries, withHandles]
    · simp only [Bool.not_eq_true] at hv
      simp only [hv, Bool.not_false, if_true, Bool.true_or]
      rfl

theorem importsOf_ok {imps : List String} {l : List (String × String)} (h : executeImports imps = .ok l) :
    importsOf imps = l := by
  unfold importsOf; rw [h]

/-- exact characterisation of a successful `flatten` -/
theorem flatten_ok_iff_all (limit : Nat) :
    (∀ m ns out out', flatten m limit ns out = .ok out' ↔
      anyMod (defect limit) m ns = false ∧
      out' = ⟨out.toList ++ withHandles out.size (entries m ns)⟩) ∧
    (∀ subs ns out out', flattenSubs subs limit ns out = .ok out' ↔
      (subs.any (fun p => !isNameValid p.1) = false ∧ anyModSubs (defect limit) subs ns = false) ∧
      out' = ⟨out.toList ++ withHandles out.size (entriesSubs subs ns)⟩) := by
  apply Module.tree_induct
  · intro subs fns imps ih ns out out'
    simp only [flatten, anyMod, entries, defect, tooDeep, importBad, badName, Module.functions,
      Module.submodules, Module.imports]
    by_cases hd : ns.length ≥ limit
    · simp only [hd, if_true]
      constructor
      · intro h; cases h
      · simp [hd]
    · simp only [hd, if_false]
      cases hi : executeImports imps with
      | error e =>
        constructor
        · intro h; cases h
        · simp
      | ok imports =>
        simp only [importsOf_ok hi]
        show (flattenFns ns imports fns 0 out >>= fun o => flattenSubs subs limit ns o) = .ok out' ↔ _
        rw [flattenFns_eq]
        have hd' : decide (limit ≤ ns.length) = false := by simpa using hd
        by_cases hf : (fns.any fun p => !isNameValid p.1) = true
        · simp only [hf, if_true]
          constructor
          · intro h; cases h
          · simp
        · simp only [hf]
          show flattenSubs subs limit ns _ = .ok out' ↔ _
          rw [ih]
          simp only [Bool.not_eq_true] at hf
          simp only [hd', hf, Bool.false_or, Bool.or_eq_false_iff, List.size_toArray, List.length_append,
            withHandles_length, Array.length_toList, withHandles_append, List.append_assoc]
          constructor
          · rintro ⟨⟨h1, h2⟩, rfl⟩
            exact ⟨⟨⟨⟨by simp, trivial⟩, h1⟩, h2⟩, rfl⟩
          · rintro ⟨⟨⟨_, h1⟩, h2⟩, rfl⟩
            exact ⟨⟨h1, h2⟩, rfl⟩
  · intro ns out out'
    simp only [flattenSubs, anyModSubs, entriesSubs, withHandles, List.append_nil, List.any_nil, true_and]
    constructor
    · intro h; cases h; rfl
    · intro h; rw [h]; rfl
  · intro n s rest ih1 ih2 ns out out'
    simp only [flattenSubs, anyModSubs, entriesSubs, List.any_cons]
    by_cases hv : isNameValid n = true
    · simp only [hv, Bool.not_true, Bool.false_eq_true, if_false, Bool.false_or, ebind_ok, ih1,
        Bool.or_eq_false_iff]
      constructor
      · rintro ⟨o1, ⟨h1, rfl⟩, h2⟩
        rw [ih2] at h2
        obtain ⟨⟨h2, h3⟩, rfl⟩ := h2
        refine ⟨⟨h2, h1, h3⟩, ?_⟩
        simp [withHandles_append, List.append_assoc]
      · rintro ⟨⟨h2, h1, h3⟩, rfl⟩
        refine ⟨_, ⟨h1, rfl⟩, ?_⟩
        rw [ih2]
        refine ⟨⟨h2, h3⟩, ?_⟩
        simp [withHandles_append, List.append_assoc]
    · simp only [Bool.not_eq_true] at hv
      simp only [hv, Bool.not_false, if_true, Bool.true_or]
      constructor
      · intro h; cases h
      · simp

/-! ### `executeImports` -/

/-- the key of an import: the last `.`-segment of the path -/
def lastSeg (imp : String) : String := (imp.splitOn ".").getLast!

/-- an import path has at least two `.`-segments -/
def dotted (imp : String) : Bool := decide (2 ≤ (imp.splitOn ".").length)

/-- one step of `executeImports` -/
def importStep (acc : List (String × String)) (imp : String) : Except CErrKind (List (String × String)) :=
  match imp.splitOn "." with
  | [] | [_] => .error .badImport
  | parts =>
    let name := parts.getLast!
    if acc.any (fun p => p.1 == name) then .error .ambigousImport
    else .ok (acc ++ [(name, imp)])

theorem executeImports_eq (imps : List String) : executeImports imps = imps.foldlM importStep [] := rfl

theorem importStep_eq (acc : List (String × String)) (imp : String) :
    importStep acc imp =
      if dotted imp = false then .error .badImport
      else if acc.any (fun p => p.1 == lastSeg imp) then .error .ambigousImport
      else .ok (acc ++ [(lastSeg imp, imp)]) := by
  unfold importStep dotted lastSeg
  rcases imp.splitOn "." with _ | ⟨a, _ | ⟨b, l⟩⟩
  · rfl
  · rfl
  · simp

theorem foldlM_importStep_ok : ∀ (imps : List String) (acc l : List (String × String)),
    imps.foldlM importStep acc = .ok l ↔
      (∀ imp ∈ imps, dotted imp = true) ∧
      (imps.map lastSeg).Pairwise (· ≠ ·) ∧
      (∀ imp ∈ imps, ∀ p ∈ acc, p.1 ≠ lastSeg imp) ∧
      l = acc ++ imps.map (fun imp => (lastSeg imp, imp))
  | [], acc, l => by
    simp only [List.foldlM_nil, pure, Except.pure, Except.ok.injEq, List.map_nil, List.append_nil]
    constructor
    · rintro rfl; simp
    · rintro ⟨_, _, _, rfl⟩; rfl
  | imp :: imps, acc, l => by
    rw [List.foldlM_cons, importStep_eq]
    by_cases hd : dotted imp = false
    · simp only [hd, if_true]
      constructor
      · intro h; cases h
      · rintro ⟨h, _⟩; have := h imp (List.mem_cons_self ..); rw [hd] at this; cases this
    · simp only [hd, if_false]
      simp only [Bool.not_eq_false] at hd
      by_cases ha : (acc.any fun p => p.1 == lastSeg imp) = true
      · simp only [ha, if_true]
        constructor
        · intro h; cases h
        · rintro ⟨_, _, h, _⟩
          obtain ⟨p, hp, hpe⟩ := List.any_eq_true.1 ha
          exact absurd (by simpa using hpe) (h imp (List.mem_cons_self ..) p hp)
      · simp only [ha]
        show imps.foldlM importStep (acc ++ [(lastSeg imp, imp)]) = .ok l ↔ _
        rw [foldlM_importStep_ok imps]
        have ha' : ∀ p ∈ acc, p.1 ≠ lastSeg imp := by
          intro p hp he
          exact ha (List.any_eq_true.2 ⟨p, hp, by simpa using he⟩)
        simp only [List.mem_cons, forall_eq_or_imp, List.map_cons, List.pairwise_cons, List.mem_map,
          forall_exists_index, and_imp, forall_apply_eq_imp_iff₂, List.mem_append, List.mem_singleton,
          List.append_assoc, List.cons_append, List.nil_append]
        constructor
        · rintro ⟨h1, h2, h3, rfl⟩
          refine ⟨⟨hd, h1⟩, ⟨fun a ha => ?_, h2⟩, ⟨ha', fun a ha p hp => h3 a ha p (Or.inl hp)⟩, rfl⟩
          exact fun he => h3 a ha _ (Or.inr (Or.inl rfl)) he
        · rintro ⟨⟨_, h1⟩, ⟨h2a, h2⟩, ⟨_, h3⟩, rfl⟩
          refine ⟨h1, h2, fun a ha p hp => ?_, rfl⟩
          rcases hp with hp | rfl | hp
          · exact h3 a ha p hp
          · exact h2a a ha
          · cases hp

/-- exact characterisation of accepted import lists -/
theorem executeImports_ok_iff (imps : List String) (l : List (String × String)) :
    executeImports imps = .ok l ↔
      (∀ imp ∈ imps, dotted imp = true) ∧ (imps.map lastSeg).Pairwise (· ≠ ·) ∧
      l = imps.map (fun imp => (lastSeg imp, imp)) := by
  rw [executeImports_eq, foldlM_importStep_ok]
  simp

theorem foldlM_importStep_error : ∀ (imps : List String) (acc : List (String × String)) (k : CErrKind),
    imps.foldlM importStep acc = .error k →
      (k = .badImport ∧ ∃ imp ∈ imps, dotted imp = false) ∨
      (k = .ambigousImport ∧ ¬ ((acc.map (·.1) ++ imps.map lastSeg).Pairwise (· ≠ ·)))
  | [], acc, k => by intro h; cases h
  | imp :: imps, acc, k => by
    rw [List.foldlM_cons, importStep_eq]
    by_cases hd : dotted imp = false
    · simp only [hd, if_true]
      intro h; cases h
      exact Or.inl ⟨rfl, imp, List.mem_cons_self .., hd⟩
    · simp only [hd, if_false]
      by_cases ha : (acc.any fun p => p.1 == lastSeg imp) = true
      · simp only [ha, if_true]
        intro h; cases h
        refine Or.inr ⟨rfl, fun hp => ?_⟩
        obtain ⟨p, hp', hpe⟩ := List.any_eq_true.1 ha
        rw [List.pairwise_append] at hp
        exact hp.2.2 p.1 (List.mem_map_of_mem hp') (lastSeg imp) (by simp) (by simpa using hpe)
      · simp only [ha]
        intro h
        rcases foldlM_importStep_error imps _ k h with ⟨rfl, i, hi, hid⟩ | ⟨rfl, hp⟩
        · exact Or.inl ⟨rfl, i, List.mem_cons_of_mem _ hi, hid⟩
        · refine Or.inr ⟨rfl, fun hq => hp ?_⟩
          simpa [List.append_assoc] using hq

/-- the two ways an import list is rejected -/
theorem executeImports_error {imps : List String} {k : CErrKind} (h : executeImports imps = .error k) :
    (k = .badImport ∧ ∃ imp ∈ imps, dotted imp = false) ∨
    (k = .ambigousImport ∧ ¬ (imps.map lastSeg).Pairwise (· ≠ ·)) := by
  have := foldlM_importStep_error imps [] k h
  simpa using this

/-- the reference semantics' import table (`Sem.flattenFns`): malformed imports are skipped -/
def semImports (imps : List String) : List (String × String) :=
  imps.filterMap (fun imp =>
    match imp.splitOn "." with
    | [] | [_] => none
    | parts => some (parts.getLast!, imp))

theorem semImports_of_dotted {imps : List String} (hd : ∀ imp ∈ imps, dotted imp = true) :
    semImports imps = imps.map (fun imp => (lastSeg imp, imp)) := by
  unfold semImports
  induction imps with
  | nil => rfl
  | cons imp imps ih =>
    have h1 := hd imp (List.mem_cons_self ..)
    rw [List.filterMap_cons, List.map_cons, ih (fun i hi => hd i (List.mem_cons_of_mem _ hi))]
    unfold dotted at h1
    unfold lastSeg
    rcases hsp : imp.splitOn "." with _ | ⟨a, _ | ⟨b, l⟩⟩
    · rw [hsp] at h1; simp at h1
    · rw [hsp] at h1; simp at h1
    · rfl

theorem semImports_eq_of_ok {imps : List String} {l : List (String × String)}
    (h : executeImports imps = .ok l) : semImports imps = l := by
  obtain ⟨hd, _, rfl⟩ := (executeImports_ok_iff imps l).1 h
  exact semImports_of_dotted hd

/-- which defect of the tree an error of `flatten` reports -/
theorem flatten_error_all (limit : Nat) (k : CErrKind) :
    (∀ m ns out, flatten m limit ns out = .error k → anyMod (defectK limit k) m ns = true) ∧
    (∀ subs ns out, flattenSubs subs limit ns out = .error k →
      (k = .badFunctionName ∧ subs.any (fun p => !isNameValid p.1) = true) ∨
      anyModSubs (defectK limit k) subs ns = true) := by
  apply Module.tree_induct
  · intro subs fns imps ih ns out
    simp only [flatten, anyMod, Bool.or_eq_true]
    by_cases hd : ns.length ≥ limit
    · simp only [hd, if_true]
      intro h; cases h
      exact Or.inl (by simpa [defectK, tooDeep] using hd)
    · simp only [hd, if_false]
      cases hi : executeImports imps with
      | error e =>
        intro h; cases h
        left
        have hk : importErr k (.mk subs fns imps) = true := by simp [importErr, Module.imports, hi]
        rcases executeImports_error hi with ⟨rfl, _⟩ | ⟨rfl, _⟩ <;> exact hk
      | ok imports =>
        show (flattenFns ns imports fns 0 out >>= fun o => flattenSubs subs limit ns o) = .error k → _
        rw [flattenFns_eq]
        by_cases hf : (fns.any fun p => !isNameValid p.1) = true
        · simp only [hf, if_true]
          intro h; cases h
          exact Or.inl (by simp [defectK, badName, Module.functions, hf])
        · simp only [hf]
          intro h
          rcases ih ns _ h with ⟨rfl, hs⟩ | hs
          · exact Or.inl (by simp [defectK, badName, Module.submodules, hs])
          · exact Or.inr hs
  · intro ns out h; cases h
  · intro n s rest ih1 ih2 ns out
    simp only [flattenSubs, anyModSubs, List.any_cons, Bool.or_eq_true]
    by_cases hv : isNameValid n = true
    · simp only [hv, Bool.not_true, Bool.false_eq_true, if_false, false_or, ebind_error]
      rintro (h | ⟨o, _, h⟩)
      · exact Or.inr (Or.inl (ih1 _ _ h))
      · rcases ih2 _ _ h with h | h
        · exact Or.inl h
        · exact Or.inr (Or.inr h)
    · simp only [Bool.not_eq_true] at hv
      simp only [hv, Bool.not_false, if_true, true_or, and_true]
      intro h; cases h
      exact Or.inl rfl

/-! ### `ensureInvariants` -/

theorem ensureInvariants_all :
    (∀ m ns, ensureInvariants m =
      if anyMod (fun _ m => dupMods m) m ns then .error .duplicateModule else .ok ()) ∧
    (∀ subs ns, ensureInvariantsSubs subs =
      if anyModSubs (fun _ m => dupMods m) subs ns then .error .duplicateModule else .ok ()) := by
  apply Module.tree_induct
  · intro subs fns imps ih ns
    simp only [ensureInvariants, anyMod, dupMods, Module.submodules]
    by_cases hd : dupNames (subs.map (·.1)) = true
    · simp only [hd, if_true, Bool.true_or]; rfl
    · simp only [hd, if_false, Bool.false_or]
      exact ih ns
  · intro ns; rfl
  · intro n s rest ih1 ih2 ns
    simp only [ensureInvariantsSubs, anyModSubs]
    rw [ih1 (ns ++ [n]), ih2 ns]
    by_cases h1 : anyMod (fun _ m => dupMods m) s (ns ++ [n]) = true <;>
    by_cases h2 : anyModSubs (fun _ m => dupMods m) rest ns = true <;> simp [h1, h2] <;> rfl

theorem ensureInvariants_eq (m : Module) (ns : List String) :
    ensureInvariants m = if anyMod (fun _ m => dupMods m) m ns then .error .duplicateModule else .ok () :=
  ensureInvariants_all.1 m ns

/-! ### `intoIrStream` -/

/- (`withStd`: the tree `intoIrStream` works on, the standard library injected as submodule `std` —
    defined in `Lemmas/WithStd.lean`) -/
example (m std : Module) : withStd m std = Module.mk (m.submodules ++ [("std", std)]) m.functions m.imports := rfl

/-- the stream `intoIrStream` returns for a well-formed tree: all functions of the tree in walk
order, with handles `from_u64(position in the walk)`, then `main` swapped to the front -/
def irStream (m std : Module) (mainIdx : Nat) : Array FunctionIr :=
  let out : Array FunctionIr := ⟨withHandles 0 (entries (withStd m std) [])⟩
  (out.set! 0 out[mainIdx]!).set! mainIdx out[0]!

/-- exact characterisation of a successful `intoIrStream` -/
theorem intoIrStream_ok_iff (m std : Module) (limit : Nat) (fns : Array FunctionIr) :
    intoIrStream m std limit = .ok fns ↔
      anyMod (fun _ m => dupMods m) (withStd m std) [] = false ∧
      anyMod (defect limit) (withStd m std) [] = false ∧
      ∃ mainIdx, m.functions.findIdx? (fun p => p.1 == "main") = some mainIdx ∧
        fns = irStream m std mainIdx := by
  unfold intoIrStream
  simp only [ebind_ok]
  change (∃ a, ensureInvariants (withStd m std) = Except.ok a ∧
      (match List.findIdx? (fun p => p.fst == "main") m.functions with
        | some i => (do
          let mainIdx ← pure i
          let out ← flatten (withStd m std) limit [] #[]
          pure ((out.set! 0 out[mainIdx]!).set! mainIdx out[0]!) : Except CErrKind (Array FunctionIr))
        | none => do
          let mainIdx ← throw CErrKind.noMain
          let out ← flatten (withStd m std) limit [] #[]
          pure ((out.set! 0 out[mainIdx]!).set! mainIdx out[0]!)) = Except.ok fns) ↔ _
  rw [ensureInvariants_eq _ []]
  cases hdup : anyMod (fun _ m => dupMods m) (withStd m std) [] with
  | true => simp
  | false =>
    simp only [Bool.false_eq_true, if_false, true_and, Except.ok.injEq, exists_const]
    cases hmain : m.functions.findIdx? (fun p => p.1 == "main") with
    | none =>
      simp only [reduceCtorEq, false_and, exists_false, and_false, iff_false]
      intro h; cases h
    | some mainIdx =>
      simp only [Option.some.injEq, exists_eq_left']
      show (flatten (withStd m std) limit [] #[] >>= fun out => _) = _ ↔ _
      rw [ebind_ok]
      simp only [(flatten_ok_iff_all limit).1]
      constructor
      · rintro ⟨out, ⟨h1, rfl⟩, h2⟩
        cases h2
        exact ⟨h1, rfl⟩
      · rintro ⟨h1, rfl⟩
        exact ⟨_, ⟨h1, rfl⟩, rfl⟩

/-- the stages of `intoIrStream`, in order: duplicate sibling modules, `main`, the walk -/
theorem intoIrStream_eq (m std : Module) (limit : Nat) :
    intoIrStream m std limit =
      if anyMod (fun _ m => dupMods m) (withStd m std) [] then .error .duplicateModule
      else match m.functions.findIdx? (fun p => p.1 == "main") with
        | none => .error .noMain
        | some mainIdx =>
          (flatten (withStd m std) limit [] #[]).map
            (fun out => (out.set! 0 out[mainIdx]!).set! mainIdx out[0]!) := by
  unfold intoIrStream
  show (ensureInvariants (withStd m std) >>= fun _ => _) = _
  rw [ensureInvariants_eq _ []]
  cases hdup : anyMod (fun _ m => dupMods m) (withStd m std) [] with
  | true => rfl
  | false =>
    have hfn : (Module.mk (m.submodules ++ [("std", std)]) m.functions m.imports).functions = m.functions := rfl
    simp only [Bool.false_eq_true, if_false, hfn]
    cases hmain : m.functions.findIdx? (fun p => p.1 == "main") with
    | none => rfl
    | some mainIdx =>
      show (flatten (withStd m std) limit [] #[] >>= fun out => _) = _
      cases flatten (withStd m std) limit [] #[] <;> rfl

theorem intoIrStream_error {m std : Module} {limit : Nat} {k : CErrKind}
    (h : intoIrStream m std limit = .error k) :
    (k = .duplicateModule ∧ anyMod (fun _ m => dupMods m) (withStd m std) [] = true) ∨
    (k = .noMain ∧ m.functions.findIdx? (fun p => p.1 == "main") = none) ∨
    anyMod (defectK limit k) (withStd m std) [] = true := by
  rw [intoIrStream_eq] at h
  cases hdup : anyMod (fun _ m => dupMods m) (withStd m std) [] with
  | true => rw [hdup] at h; cases h; exact Or.inl ⟨rfl, rfl⟩
  | false =>
    rw [hdup] at h
    simp only [Bool.false_eq_true, if_false] at h
    cases hmain : m.functions.findIdx? (fun p => p.1 == "main") with
    | none => rw [hmain] at h; cases h; exact Or.inr (Or.inl ⟨rfl, rfl⟩)
    | some mainIdx =>
      rw [hmain] at h
      cases hf : flatten (withStd m std) limit [] #[] with
      | ok out => rw [hf] at h; cases h
      | error e =>
        rw [hf] at h; cases h
        exact Or.inr (Or.inr ((flatten_error_all limit k).1 _ _ _ hf))

/-! ## 5. what the card compiler leaves alone

`Keeps s s'`: the jump table, the installed namespace / imports / function handle are unchanged
and the label log only grows. Every action of the card compiler (everything below
`processFunction`) keeps them: a syntax-directed pass like `Mono` in `CompilerLemmas`. -/

structure Keeps (s s' : CState) : Prop where
  jt : s'.jumpTable = s.jumpTable
  ns : s'.ns = s.ns
  imports : s'.imports = s.imports
  fnHandle : s'.fnHandle = s.fnHandle
  labels : ∃ t, s'.labels = s.labels ++ t

theorem Keeps.refl (s : CState) : Keeps s s := ⟨rfl, rfl, rfl, rfl, [], (List.append_nil _).symm⟩

theorem Keeps.trans {s s1 s2 : CState} (h1 : Keeps s s1) (h2 : Keeps s1 s2) : Keeps s s2 := by
  obtain ⟨a1, b1, c1, d1, t1, e1⟩ := h1
  obtain ⟨a2, b2, c2, d2, t2, e2⟩ := h2
  exact ⟨a2.trans a1, b2.trans b1, c2.trans c1, d2.trans d1, t1 ++ t2, by rw [e2, e1, List.append_assoc]⟩

structure Kp {α : Type} (m : CM α) : Prop where
  run : ∀ s a s', m s = .ok (a, s') → Keeps s s'

theorem kp_bind {α β : Type} {m : CM α} {f : α → CM β} (hm : Kp m) (hf : ∀ a, Kp (f a)) : Kp (m >>= f) := by
  constructor
  intro s b s'' h
  obtain ⟨a, s', h1, h2⟩ := bind_ok.1 h
  exact (hm.run s a s' h1).trans ((hf a).run s' b s'' h2)

theorem kp_pure {α : Type} {a : α} : Kp (pure a : CM α) := by
  constructor
  intro s b s' hr
  simp only [pure_run, Except.ok.injEq, Prod.mk.injEq] at hr
  obtain ⟨_, rfl⟩ := hr
  exact Keeps.refl _

theorem kp_get : Kp (get : CM CState) := by
  constructor
  intro s b s' hr
  simp only [get_run, Except.ok.injEq, Prod.mk.injEq] at hr
  obtain ⟨_, rfl⟩ := hr
  exact Keeps.refl _

theorem kp_modify {f : CState → CState} (h : ∀ s, Keeps s (f s)) : Kp (modify f : CM Unit) := by
  constructor
  intro s b s' hr
  simp only [modify_run, Except.ok.injEq, Prod.mk.injEq] at hr
  obtain ⟨_, rfl⟩ := hr
  exact h s

theorem kp_modify_rfl {f : CState → CState} (h1 : ∀ s, (f s).jumpTable = s.jumpTable)
    (h2 : ∀ s, (f s).ns = s.ns) (h3 : ∀ s, (f s).imports = s.imports)
    (h4 : ∀ s, (f s).fnHandle = s.fnHandle) (h5 : ∀ s, (f s).labels = s.labels) :
    Kp (modify f : CM Unit) :=
  kp_modify fun s => ⟨h1 s, h2 s, h3 s, h4 s, [], by rw [h5 s, List.append_nil]⟩

theorem kp_throw {α : Type} {e : CErr} : Kp (throw e : CM α) := by
  constructor; intro s b s' hr; simp at hr

theorem kp_fail {α : Type} {e : CErrKind} : Kp (fail e : CM α) := by
  constructor; intro s b s' hr; simp at hr

theorem kp_throw_bind {α β : Type} {e : CErr} {f : α → CM β} : Kp ((throw e : CM α) >>= f) := by
  constructor; intro s b s' hr
  obtain ⟨a, s1, h1, _⟩ := bind_ok.1 hr
  simp at h1

theorem kp_fail_bind {α β : Type} {e : CErrKind} {f : α → CM β} : Kp ((fail e : CM α) >>= f) := by
  constructor; intro s b s' hr
  obtain ⟨a, s1, h1, _⟩ := bind_ok.1 hr
  simp at h1

theorem kp_ite {α : Type} {c : Prop} [Decidable c] {x y : CM α} (hx : Kp x) (hy : Kp y) :
    Kp (if c then x else y) := by
  split <;> assumption

/-- extensible: closes a goal `Kp m` for a known action `m` -/
syntax "kp_prim" : tactic
macro_rules | `(tactic| kp_prim) => `(tactic| assumption)

macro "kp_step" : tactic => `(tactic| first
  | kp_prim
  | dsimp only
  | with_reducible exact kp_throw_bind
  | with_reducible exact kp_fail_bind
  | with_reducible exact kp_pure
  | with_reducible exact kp_get
  | with_reducible exact kp_throw
  | with_reducible exact kp_fail
  | with_reducible exact kp_modify_rfl (fun _ => rfl) (fun _ => rfl) (fun _ => rfl) (fun _ => rfl) (fun _ => rfl)
  | with_reducible apply kp_bind
  | with_reducible apply kp_ite
  | intro _
  | split)
macro "kp" : tactic => `(tactic| repeat' kp_step)

theorem emitBytes_kp (bs : List UInt8) : Kp (emitBytes bs) := by unfold emitBytes; kp
macro_rules | `(tactic| kp_prim) => `(tactic| with_reducible exact emitBytes_kp _)

theorem emitU32_kp (x : Nat) : Kp (emitU32 x) := emitBytes_kp _
macro_rules | `(tactic| kp_prim) => `(tactic| with_reducible exact emitU32_kp _)

theorem curTrace_kp : Kp curTrace := by unfold curTrace; kp
macro_rules | `(tactic| kp_prim) => `(tactic| with_reducible exact curTrace_kp)

theorem pushInstr_kp (o : UInt8) : Kp (pushInstr o) := by unfold pushInstr; kp
macro_rules | `(tactic| kp_prim) => `(tactic| with_reducible exact pushInstr_kp _)

theorem pushSub_kp (i : Nat) : Kp (pushSub i) := by unfold pushSub; kp
theorem popSub_kp : Kp popSub := by unfold popSub; kp
macro_rules | `(tactic| kp_prim) => `(tactic| with_reducible exact pushSub_kp _)
macro_rules | `(tactic| kp_prim) => `(tactic| with_reducible exact popSub_kp)

theorem insertLabel_kp (h : UInt32) (pos : Nat) : Kp (insertLabel h pos) := by
  unfold insertLabel; kp
  exact kp_modify fun s => ⟨rfl, rfl, rfl, rfl, _, rfl⟩
macro_rules | `(tactic| kp_prim) => `(tactic| with_reducible exact insertLabel_kp _ _)


theorem patchI32_kp (at_ v : Nat) : Kp (patchI32 at_ v) := by unfold patchI32; kp
macro_rules | `(tactic| kp_prim) => `(tactic| with_reducible exact patchI32_kp _ _)

theorem scopeBegin_kp : Kp scopeBegin := by unfold scopeBegin; kp
macro_rules | `(tactic| kp_prim) => `(tactic| with_reducible exact scopeBegin_kp)

theorem scopeEnd_kp : Kp scopeEnd := by unfold scopeEnd; kp
macro_rules | `(tactic| kp_prim) => `(tactic| with_reducible exact scopeEnd_kp)

theorem addLocalUnchecked_kp (n : String) : Kp (addLocalUnchecked n) := by
  unfold addLocalUnchecked; kp
macro_rules | `(tactic| kp_prim) => `(tactic| with_reducible exact addLocalUnchecked_kp _)

theorem validateVarName_kp (n : String) : Kp (validateVarName n) := by
  unfold validateVarName; kp
macro_rules | `(tactic| kp_prim) => `(tactic| with_reducible exact validateVarName_kp _)

theorem addLocal_kp (n : String) : Kp (addLocal n) := by
  unfold addLocal; kp
macro_rules | `(tactic| kp_prim) => `(tactic| with_reducible exact addLocal_kp _)

theorem addUpvalue_kp (i : UInt8) (l : Bool) (f : Nat) : Kp (addUpvalue i l f) := by
  unfold addUpvalue; kp
macro_rules | `(tactic| kp_prim) => `(tactic| with_reducible exact addUpvalue_kp _ _ _)

theorem resolveUpvalue_kp (n : String) : ∀ fid, Kp (resolveUpvalue n fid)
  | 0 => by unfold resolveUpvalue; kp
  | fid+1 => by
    have ih := resolveUpvalue_kp n fid
    unfold resolveUpvalue; kp
macro_rules | `(tactic| kp_prim) => `(tactic| with_reducible exact resolveUpvalue_kp _ _)

theorem resolveVar_kp (n : String) : Kp (resolveVar n) := by
  unfold resolveVar; kp
macro_rules | `(tactic| kp_prim) => `(tactic| with_reducible exact resolveVar_kp _)

theorem readLocalVar_kp (i : Nat) : Kp (readLocalVar i) := by unfold readLocalVar; kp
theorem writeLocalVar_kp (i : Nat) : Kp (writeLocalVar i) := by unfold writeLocalVar; kp
theorem readUpvalue_kp (i : Nat) : Kp (readUpvalue i) := by unfold readUpvalue; kp
theorem writeUpvalue_kp (i : Nat) : Kp (writeUpvalue i) := by unfold writeUpvalue; kp
macro_rules | `(tactic| kp_prim) => `(tactic| with_reducible exact readLocalVar_kp _)
macro_rules | `(tactic| kp_prim) => `(tactic| with_reducible exact writeLocalVar_kp _)
macro_rules | `(tactic| kp_prim) => `(tactic| with_reducible exact readUpvalue_kp _)
macro_rules | `(tactic| kp_prim) => `(tactic| with_reducible exact writeUpvalue_kp _)

theorem pushStr_kp (x : String) : Kp (pushStr x) := by unfold pushStr; kp
macro_rules | `(tactic| kp_prim) => `(tactic| with_reducible exact pushStr_kp _)

theorem globalId_kp (x : String) : Kp (globalId x) := by unfold globalId; kp
macro_rules | `(tactic| kp_prim) => `(tactic| with_reducible exact globalId_kp _)

theorem readProps_kp : ∀ ps, Kp (readProps ps)
  | [] => by unfold readProps; kp
  | p :: ps => by
    have ih := readProps_kp ps
    unfold readProps; kp
macro_rules | `(tactic| kp_prim) => `(tactic| with_reducible exact readProps_kp _)

theorem readVarCard_kp (x : String) : Kp (readVarCard x) := by unfold readVarCard; kp
macro_rules | `(tactic| kp_prim) => `(tactic| with_reducible exact readVarCard_kp _)

theorem resolveFunction_kp (x : String) : Kp (resolveFunction x) := by
  unfold resolveFunction; kp
macro_rules | `(tactic| kp_prim) => `(tactic| with_reducible exact resolveFunction_kp _)

theorem encodeJump_kp (x : String) : Kp (encodeJump x) := by unfold encodeJump; kp
macro_rules | `(tactic| kp_prim) => `(tactic| with_reducible exact encodeJump_kp _)


/-! ### the combinators of `processCard` -/

theorem cardLabel_kp : Kp cardLabel := by unfold cardLabel; kp
macro_rules | `(tactic| kp_prim) => `(tactic| with_reducible exact cardLabel_kp)

theorem withSub_kp {i : Nat} {m : CM Unit} (hm : Kp m) : Kp (withSub i m) := by
  unfold withSub; kp
macro_rules | `(tactic| kp_prim) => `(tactic| with_reducible apply withSub_kp)

theorem encodeIfThen_kp {skip : UInt8} {m : CM Unit} (hm : Kp m) :
    Kp (encodeIfThen skip m) := by
  unfold encodeIfThen; kp
macro_rules | `(tactic| kp_prim) => `(tactic| with_reducible apply encodeIfThen_kp)

theorem encodeIfThenRet_kp {skip : UInt8} {m : CM Nat} (hm : Kp m) :
    Kp (encodeIfThenRet skip m) := by
  unfold encodeIfThenRet; kp

theorem addLocals_kp : ∀ ps, Kp (addLocals ps)
  | [] => by unfold addLocals; kp
  | p :: ps => by
    have ih := addLocals_kp ps
    unfold addLocals; kp
macro_rules | `(tactic| kp_prim) => `(tactic| with_reducible exact addLocals_kp _)

theorem emitUpvalues_kp : ∀ ups, Kp (emitUpvalues ups)
  | [] => by unfold emitUpvalues; kp
  | (l, i) :: rest => by
    have ih := emitUpvalues_kp rest
    unfold emitUpvalues; kp
macro_rules | `(tactic| kp_prim) => `(tactic| with_reducible exact emitUpvalues_kp _)

theorem scalarIntCode_kp (i : Int64) : Kp (scalarIntCode i) := by
  unfold scalarIntCode; kp
macro_rules | `(tactic| kp_prim) => `(tactic| with_reducible exact scalarIntCode_kp _)

theorem processScalarInt_kp (i : Int64) : Kp (processScalarInt i) := by
  unfold processScalarInt; kp
macro_rules | `(tactic| kp_prim) => `(tactic| with_reducible exact processScalarInt_kp _)

theorem bindLoopVar_kp (n : Option String) (src : Nat) : Kp (bindLoopVar n src) := by
  unfold bindLoopVar; kp
macro_rules | `(tactic| kp_prim) => `(tactic| with_reducible exact bindLoopVar_kp _ _)

theorem forEachCode_kp {i kk v : Option String} {it body : CM Unit}
    (h1 : Kp it) (h2 : Kp body) : Kp (forEachCode i kk v it body) := by
  unfold forEachCode; kp

theorem whileCode_kp {c b : CM Unit} (h1 : Kp c) (h2 : Kp b) :
    Kp (whileCode c b) := by
  unfold whileCode; kp

theorem repeatCode_kp {i : Option String} {n b : CM Unit} (h1 : Kp n) (h2 : Kp b) :
    Kp (repeatCode i n b) := by
  unfold repeatCode; kp

theorem setVarTarget_kp (n : String) : Kp (setVarTarget n) := by
  unfold setVarTarget; kp
macro_rules | `(tactic| kp_prim) => `(tactic| with_reducible exact setVarTarget_kp _)

theorem setVarCode_kp {n : String} {v : CM Unit} (h : Kp v) : Kp (setVarCode n v) := by
  unfold setVarCode; kp

theorem setGlobalVarCode_kp {n : String} {v : CM Unit} (h : Kp v) :
    Kp (setGlobalVarCode n v) := by
  unfold setGlobalVarCode; kp

theorem ifElseCode_kp {c t e : CM Unit} (h1 : Kp c) (h2 : Kp t) (h3 : Kp e) :
    Kp (ifElseCode c t e) := by
  unfold ifElseCode
  apply kp_bind (withSub_kp h1); intro _
  apply kp_bind (pushSub_kp _); intro _
  apply kp_bind
  · apply encodeIfThenRet_kp
    kp
  · intro idx
    kp

theorem ifCode_kp {skip : UInt8} {c b : CM Unit} (h1 : Kp c) (h2 : Kp b) :
    Kp (ifCode skip c b) := by
  unfold ifCode; kp

theorem callCode_kp {n : String} {a : CM Unit} (h : Kp a) : Kp (callCode n a) := by
  unfold callCode; kp

theorem callNativeCode_kp {n : String} {a : CM Unit} (h : Kp a) :
    Kp (callNativeCode n a) := by
  unfold callNativeCode; kp

theorem compileBegin_kp : Kp compileBegin := by unfold compileBegin; kp
theorem compileEnd_kp : Kp compileEnd := by unfold compileEnd; kp
macro_rules | `(tactic| kp_prim) => `(tactic| with_reducible exact compileBegin_kp)
macro_rules | `(tactic| kp_prim) => `(tactic| with_reducible exact compileEnd_kp)

theorem closureCode_kp {args : List String} {b : CM Unit} (h : Kp b) :
    Kp (closureCode args b) := by
  unfold closureCode; kp

theorem arrayCode_kp {items : Nat → CM Unit} (h : ∀ tv, Kp (items tv)) :
    Kp (arrayCode items) := by
  unfold arrayCode; kp
  exact h _

theorem unCode_kp {u : UnKind} {c : CM Unit} (h : Kp c) : Kp (unCode u c) := by
  unfold unCode; kp

theorem binCode_kp {bk : BinKind} {a b : CM Unit} (h1 : Kp a) (h2 : Kp b) :
    Kp (binCode bk a b) := by
  unfold binCode
  split
  · exact whileCode_kp h1 h2
  · exact ifCode_kp h1 h2
  · exact ifCode_kp h1 h2
  · kp

theorem triCode_kp {tk : TriKind} {a b c : CM Unit} (h1 : Kp a) (h2 : Kp b)
    (h3 : Kp c) : Kp (triCode tk a b c) := by
  unfold triCode
  split
  · exact ifElseCode_kp h1 h2 h3
  · kp

theorem dynamicCallCode_kp {a f : CM Unit} (h1 : Kp a) (h2 : Kp f) :
    Kp (dynamicCallCode a f) := by
  unfold dynamicCallCode; kp


macro_rules | `(tactic| kp_prim) => `(tactic| with_reducible apply forEachCode_kp)
macro_rules | `(tactic| kp_prim) => `(tactic| with_reducible apply repeatCode_kp)
macro_rules | `(tactic| kp_prim) => `(tactic| with_reducible apply setVarCode_kp)
macro_rules | `(tactic| kp_prim) => `(tactic| with_reducible apply setGlobalVarCode_kp)
macro_rules | `(tactic| kp_prim) => `(tactic| with_reducible apply callCode_kp)
macro_rules | `(tactic| kp_prim) => `(tactic| with_reducible apply callNativeCode_kp)
macro_rules | `(tactic| kp_prim) => `(tactic| with_reducible apply closureCode_kp)
macro_rules | `(tactic| kp_prim) => `(tactic| with_reducible apply arrayCode_kp)
macro_rules | `(tactic| kp_prim) => `(tactic| with_reducible apply unCode_kp)
macro_rules | `(tactic| kp_prim) => `(tactic| with_reducible apply binCode_kp)
macro_rules | `(tactic| kp_prim) => `(tactic| with_reducible apply triCode_kp)
macro_rules | `(tactic| kp_prim) => `(tactic| with_reducible apply dynamicCallCode_kp)

theorem processCard_kp_all :
    (∀ c, Kp (processCard c)) ∧
    (∀ tv i cs, Kp (processArrayItems tv i cs)) ∧
    (∀ i cs, Kp (compileSubexprFrom i cs)) := by
  apply processCard.mutual_induct
    (motive_1 := fun c => Kp (processCard c))
    (motive_2 := fun tv i cs => Kp (processArrayItems tv i cs))
    (motive_3 := fun i cs => Kp (compileSubexprFrom i cs))
  all_goals
    intros
    simp only [processCard, processArrayItems, compileSubexprFrom]
    kp

theorem processCard_kp (c : Card) : Kp (processCard c) := processCard_kp_all.1 c
macro_rules | `(tactic| kp_prim) => `(tactic| with_reducible exact processCard_kp _)

theorem processArrayItems_kp (tv i : Nat) (cs : List Card) : Kp (processArrayItems tv i cs) :=
  processCard_kp_all.2.1 tv i cs
theorem compileSubexprFrom_kp (i : Nat) (cs : List Card) : Kp (compileSubexprFrom i cs) :=
  processCard_kp_all.2.2 i cs

theorem processFunctionCards_kp : ∀ i cs, Kp (processFunctionCards i cs)
  | _, [] => by unfold processFunctionCards; kp
  | i, c :: cs => by
    have ih := processFunctionCards_kp (i + 1) cs
    unfold processFunctionCards; kp


/-! ## 6. `encodeJump`, `addFunctions`, the stages of `compileUnit` -/

theorem emitBytes_run (bs : List UInt8) (s : CState) :
    emitBytes bs s = .ok ((), { s with bytecode := s.bytecode ++ bs.toArray }) := by
  unfold emitBytes
  rw [modify_run, foldl_push_eq]

/-- on success `encodeJump` appends exactly the little-endian handle and arity of the function
the resolution designates, and changes nothing else; on failure it reports the resolution error -/
theorem encodeJump_run (name : String) (s : CState) :
    encodeJump name s =
      match resolveSpec s.jumpTable s.ns s.imports name with
      | .ok (h, a) => .ok ((), { s with bytecode := s.bytecode ++ (le32 h).toArray ++ (le32 a).toArray })
      | .error k => .error (.err k (some (traceOf s))) := by
  unfold encodeJump
  show (resolveFunction name >>= fun x => _) s = _
  show StateT.bind (resolveFunction name) _ s = _
  unfold StateT.bind
  simp only [resolveFunction_run]
  cases resolveSpec s.jumpTable s.ns s.imports name with
  | error k => rfl
  | ok r =>
    obtain ⟨h, a⟩ := r
    simp only [toRun, bind, Except.bind]
    show (emitBytes (le32 h) >>= fun _ => emitBytes (le32 a)) s = _
    show StateT.bind (emitBytes (le32 h)) _ s = _
    unfold StateT.bind
    simp only [emitBytes_run, bind, Except.bind]

theorem addFunction_run (f : FunctionIr) (s : CState) :
    addFunction f s =
      if s.jumpTable.any (fun p => p.1 == f.fullName) then .error (.err .duplicateName (some (traceOf s)))
      else .ok ((), { s with jumpTable := s.jumpTable ++ [(f.fullName, tgt f)] }) := by
  unfold addFunction
  show StateT.bind get _ s = _
  unfold StateT.bind
  simp only [get_run, bind, Except.bind]
  split <;> rfl

/-- `addFunctions` succeeds exactly when no full name clashes (with the table or among the new
functions), and then it appends one entry per function, in order -/
theorem addFunctions_ok : ∀ (fs : List FunctionIr) (s s' : CState),
    addFunctions fs s = .ok ((), s') ↔
      (∀ f ∈ fs, ∀ p ∈ s.jumpTable, p.1 ≠ f.fullName) ∧
      (fs.map FunctionIr.fullName).Pairwise (· ≠ ·) ∧
      s' = { s with jumpTable := s.jumpTable ++ jumpTableOf fs }
  | [], s, s' => by
    simp only [addFunctions, pure_run, Except.ok.injEq, Prod.mk.injEq, true_and, List.not_mem_nil,
      false_imp_iff, implies_true, List.map_nil, List.Pairwise.nil, jumpTableOf, List.append_nil]
    exact eq_comm
  | f :: fs, s, s' => by
    unfold addFunctions
    rw [bind_ok]
    simp only [addFunction_run]
    by_cases hc : (s.jumpTable.any fun p => p.1 == f.fullName) = true
    · simp only [hc, if_true, reduceCtorEq, false_and, exists_false, false_iff]
      rintro ⟨h, _⟩
      obtain ⟨p, hp, hpe⟩ := List.any_eq_true.1 hc
      exact h f (List.mem_cons_self ..) p hp (by simpa using hpe)
    · have hc' : ∀ p ∈ s.jumpTable, p.1 ≠ f.fullName := by
        intro p hp he
        exact hc (List.any_eq_true.2 ⟨p, hp, by simpa using he⟩)
      simp only [if_neg hc]
      constructor
      · rintro ⟨u, s1, h1, h2⟩
        cases h1
        rw [addFunctions_ok fs] at h2
        obtain ⟨h1, h2, rfl⟩ := h2
        simp only [List.mem_append, List.mem_singleton] at h1
        refine ⟨?_, ?_, ?_⟩
        · intro a ha p hp
          rcases List.mem_cons.1 ha with rfl | ha
          · exact hc' p hp
          · exact h1 a ha p (Or.inl hp)
        · simp only [List.map_cons, List.pairwise_cons, List.mem_map, forall_exists_index, and_imp,
            forall_apply_eq_imp_iff₂]
          exact ⟨fun a ha he => h1 a ha _ (Or.inr rfl) he, h2⟩
        · simp [jumpTableOf, List.append_assoc]
      · rintro ⟨h1, h2, rfl⟩
        refine ⟨(), _, rfl, ?_⟩
        rw [addFunctions_ok fs]
        simp only [List.map_cons, List.pairwise_cons, List.mem_map, forall_exists_index, and_imp,
          forall_apply_eq_imp_iff₂] at h2
        refine ⟨?_, h2.2, ?_⟩
        · intro a ha p hp
          simp only [List.mem_append, List.mem_singleton] at hp
          rcases hp with hp | rfl
          · exact h1 a (List.mem_cons_of_mem _ ha) p hp
          · exact h2.1 a ha
        · simp [jumpTableOf, List.append_assoc]

/-- the only error of `addFunctions` is `DuplicateName` -/
theorem addFunctions_error : ∀ (fs : List FunctionIr) (s : CState) (e : CErr),
    addFunctions fs s = .error e → e = .err .duplicateName (some (traceOf s))
  | [], s, e => by intro h; cases h
  | f :: fs, s, e => by
    unfold addFunctions
    show StateT.bind (addFunction f) _ s = _ → _
    unfold StateT.bind
    rw [addFunction_run]
    by_cases hc : (s.jumpTable.any fun p => p.1 == f.fullName) = true
    · rw [if_pos hc]
      intro h; cases h; rfl
    · rw [if_neg hc]
      intro h
      exact addFunctions_error fs { s with jumpTable := s.jumpTable ++ [(f.fullName, tgt f)] } e h

theorem Extends.refl (s : CState) : Extends s s :=
  ⟨Nat.le_refl _, fun _ _ => rfl, [], by simp, by simp⟩

theorem Extends.trans {s s1 s2 : CState} (h1 : Extends s s1) (h2 : Extends s1 s2) : Extends s s2 := by
  obtain ⟨a1, b1, t1, c1, d1⟩ := h1
  obtain ⟨a2, b2, t2, c2, d2⟩ := h2
  refine ⟨Nat.le_trans a1 a2, fun i hi => by rw [b2 i (by omega), b1 i hi], t1 ++ t2,
    by rw [c2, c1, List.append_assoc], ?_⟩
  intro p hp
  rcases List.mem_append.1 hp with hp | hp
  · have := d1 p hp; omega
  · have := d2 p hp; omega

/-- the weaker frame of the function-level actions: the jump table is unchanged and the label
log only grows (the namespace / imports are re-installed for every function) -/
structure KeepsJ (s s' : CState) : Prop where
  jt : s'.jumpTable = s.jumpTable
  labels : ∃ t, s'.labels = s.labels ++ t

theorem Keeps.toJ {s s' : CState} (h : Keeps s s') : KeepsJ s s' := ⟨h.jt, h.labels⟩
theorem KeepsJ.refl (s : CState) : KeepsJ s s := ⟨rfl, [], (List.append_nil _).symm⟩
theorem KeepsJ.trans {s s1 s2 : CState} (h1 : KeepsJ s s1) (h2 : KeepsJ s1 s2) : KeepsJ s s2 := by
  obtain ⟨a1, t1, e1⟩ := h1
  obtain ⟨a2, t2, e2⟩ := h2
  exact ⟨a2.trans a1, t1 ++ t2, by rw [e2, e1, List.append_assoc]⟩
theorem KeepsJ.mem {s s' : CState} (h : KeepsJ s s') {p : UInt32 × Nat} (hp : p ∈ s.labels) : p ∈ s'.labels := by
  obtain ⟨t, e⟩ := h.labels
  rw [e]; exact List.mem_append_left _ hp

theorem addLocals_bytecode : ∀ (ps : List String) (s s' : CState),
    addLocals ps s = .ok ((), s') → s'.bytecode = s.bytecode
  | [], s, s' => by
    intro h
    simp only [addLocals, pure_run, Except.ok.injEq, Prod.mk.injEq, true_and] at h
    rw [h]
  | p :: ps, s, s' => by
    intro h
    unfold addLocals at h
    obtain ⟨i, s1, h1, h2⟩ := bind_ok.1 h
    rw [addLocals_bytecode ps s1 s' h2]
    unfold addLocal at h1
    obtain ⟨_, s2, h3, h4⟩ := bind_ok.1 h1
    have e2 : s2 = s := by
      unfold validateVarName at h3
      split at h3
      · simp at h3
      · simp only [pure_run, Except.ok.injEq, Prod.mk.injEq, true_and] at h3; exact h3.symm
    subst e2
    unfold addLocalUnchecked at h4
    obtain ⟨st, s3, h5, h6⟩ := bind_ok.1 h4
    simp only [get_run, Except.ok.injEq, Prod.mk.injEq] at h5
    obtain ⟨rfl, rfl⟩ := h5
    split at h6
    · obtain ⟨_, _, h7, _⟩ := bind_ok.1 h6
      simp at h7
    · obtain ⟨_, s4, h7, h8⟩ := bind_ok.1 h6
      simp only [modify_run, Except.ok.injEq, Prod.mk.injEq, true_and] at h7
      simp only [pure_run, Except.ok.injEq, Prod.mk.injEq] at h8
      rw [← h8.2, ← h7]

/-- the body of `f` was compiled starting at bytecode position `pos`, with the jump table `jt`
and `f`'s own namespace and imports installed (and kept while its cards are compiled); the
final state `final` still has those bytes -/
def BodyAt (jt : JumpTable) (f : FunctionIr) (pos : Nat) (final : CState) : Prop :=
  ∃ sb sb', sb.jumpTable = jt ∧ sb.ns = f.ns ∧ sb.imports = f.imports ∧ sb.fnHandle = f.handle ∧
    sb.bytecode.size = pos ∧ processFunctionCards 0 f.cards sb = .ok ((), sb') ∧ Keeps sb sb' ∧
    Extends sb' final

theorem BodyAt.mono {jt : JumpTable} {f : FunctionIr} {pos : Nat} {s s' : CState}
    (h : BodyAt jt f pos s) (he : Extends s s') : BodyAt jt f pos s' := by
  obtain ⟨sb, sb', h1, h2, h3, h4, h5, h6, h7, h8⟩ := h
  exact ⟨sb, sb', h1, h2, h3, h4, h5, h6, h7, h8.trans he⟩

theorem processFunction_spec {f : FunctionIr} {s s' : CState} (h : processFunction f s = .ok ((), s')) :
    BodyAt s.jumpTable f s.bytecode.size s' ∧ KeepsJ s s' := by
  unfold processFunction at h
  obtain ⟨_, s1, h1, h⟩ := bind_ok.1 h
  obtain ⟨_, s2, h2, h3⟩ := bind_ok.1 h
  simp only [modify_run, Except.ok.injEq, Prod.mk.injEq, true_and] at h1
  subst h1
  have hb := addLocals_bytecode _ _ _ h2
  have hk := ((addLocals_kp f.arguments.reverse).run _ _ _ h2)
  have hk3 := ((processFunctionCards_kp 0 f.cards).run _ _ _ h3)
  refine ⟨⟨s2, s', hk.jt, hk.ns, hk.imports, hk.fnHandle, by rw [hb], h3, hk3, Extends.refl _⟩, ?_⟩
  exact KeepsJ.trans ⟨hk.jt, hk.labels⟩ hk3.toJ

theorem kp_run {α : Type} {m : CM α} (hm : Kp m) {s s' : CState} {a : α} (h : m s = .ok (a, s')) :
    Keeps s s' := hm.run s a s' h

theorem extends_run {α : Type} {m : CM α} (hm : ∀ k, Mono k m) {s s' : CState} {a : α}
    (h : m s = .ok (a, s')) : Extends s s' := Mono.extends hm h

theorem compileFunction_spec {f : FunctionIr} {s s' : CState} (h : compileFunction f s = .ok ((), s')) :
    f.handle ≠ 0 ∧ (f.handle, s.bytecode.size) ∈ s'.labels ∧
    BodyAt s.jumpTable f s.bytecode.size s' ∧ KeepsJ s s' ∧ Extends s s' := by
  have hext : Extends s s' := extends_run (fun _ => compileFunction_mono f) h
  unfold compileFunction at h
  obtain ⟨_, s1, h1, h⟩ := bind_ok.1 h
  obtain ⟨st, s2, h2, h⟩ := bind_ok.1 h
  obtain ⟨_, s3, h3, h⟩ := bind_ok.1 h
  obtain ⟨_, s4, h4, h⟩ := bind_ok.1 h
  obtain ⟨_, s5, h5, h⟩ := bind_ok.1 h
  obtain ⟨_, s6, h6, h⟩ := bind_ok.1 h
  obtain ⟨_, s7, h7, h8⟩ := bind_ok.1 h
  simp only [modify_run, Except.ok.injEq, Prod.mk.injEq, true_and] at h1
  subst h1
  simp only [get_run, Except.ok.injEq, Prod.mk.injEq] at h2
  obtain ⟨rfl, rfl⟩ := h2
  -- the label
  have hne : f.handle ≠ 0 := by
    intro h0
    unfold insertLabel at h3
    simp [h0] at h3
    obtain ⟨_, _, h9, _⟩ := bind_ok.1 h3
    simp at h9
  have hs3 : s3 = { s with labels := s.labels ++ [(f.handle, s.bytecode.size)],
                           curFunction := f.functionIndex, curIndices := ([] : List Nat) } := by
    unfold insertLabel at h3
    have : (f.handle == 0) = false := by simpa using hne
    simp only [this, Bool.false_eq_true, if_false] at h3
    simp only [modify_run, Except.ok.injEq, Prod.mk.injEq, true_and] at h3
    exact h3.symm
  have k4 := kp_run scopeBegin_kp h4
  have e4 : s4.bytecode = s3.bytecode := by
    unfold scopeBegin at h4
    simp only [modify_run, Except.ok.injEq, Prod.mk.injEq, true_and] at h4
    rw [← h4]
  obtain ⟨hbody, k5⟩ := processFunction_spec h5
  have k6 := kp_run scopeEnd_kp h6
  have k7 := kp_run (pushInstr_kp _) h7
  have k8 := kp_run (pushInstr_kp _) h8
  have x6 := extends_run (fun _ => scopeEnd_mono) h6
  have x7 := extends_run (fun _ => pushInstr_mono _) h7
  have x8 := extends_run (fun _ => pushInstr_mono _) h8
  have k3 : KeepsJ s s3 := by rw [hs3]; exact ⟨rfl, _, rfl⟩
  have kall : KeepsJ s s' :=
    k3.trans (k4.toJ.trans (k5.trans (k6.toJ.trans (k7.toJ.trans k8.toJ))))
  refine ⟨hne, ?_, ?_, kall, hext⟩
  · have : (f.handle, s.bytecode.size) ∈ s3.labels := by rw [hs3]; simp
    exact (k4.toJ.trans (k5.trans (k6.toJ.trans (k7.toJ.trans k8.toJ)))).mem this
  · have hb := hbody.mono (x6.trans (x7.trans x8))
    have e1 : s4.jumpTable = s.jumpTable := by rw [k4.jt, hs3]
    have e2 : s4.bytecode.size = s.bytecode.size := by rw [e4, hs3]
    rw [e1, e2] at hb
    exact hb

theorem compileFunctions_spec : ∀ (fs : List FunctionIr) (s s' : CState),
    compileFunctions fs s = .ok ((), s') →
      KeepsJ s s' ∧ Extends s s' ∧
      ∀ i (hi : i < fs.length), fs[i].handle ≠ 0 ∧
        ∃ pos, (fs[i].handle, pos) ∈ s'.labels ∧ BodyAt s.jumpTable fs[i] pos s'
  | [], s, s' => by
    intro h
    simp only [compileFunctions, pure_run, Except.ok.injEq, Prod.mk.injEq, true_and] at h
    subst h
    exact ⟨KeepsJ.refl _, Extends.refl _, fun i hi => absurd hi (by simp)⟩
  | f :: fs, s, s' => by
    intro h
    unfold compileFunctions at h
    obtain ⟨_, s1, h1, h2⟩ := bind_ok.1 h
    obtain ⟨hne, hl, hb, hk, hx⟩ := compileFunction_spec h1
    obtain ⟨hk2, hx2, hrest⟩ := compileFunctions_spec fs s1 s' h2
    refine ⟨hk.trans hk2, hx.trans hx2, fun i hi => ?_⟩
    cases i with
    | zero => exact ⟨hne, _, hk2.mem hl, hb.mono hx2⟩
    | succ i =>
      obtain ⟨h3, pos, h4, h5⟩ := hrest i (by simpa using hi)
      rw [hk.jt] at h5
      exact ⟨h3, pos, h4, h5⟩

/-- the structure of a successful `compileUnit` run from the initial state: the full names are
pairwise distinct, the jump table is `jumpTableOf unit` throughout stage 2, `main`'s body starts at
position 0, and every other function has its handle labelled with the position where its body
starts -/
theorem compileUnit_spec {unit : Array FunctionIr} {s' : CState} (h : compileUnit unit {} = .ok ((), s')) :
    0 < unit.size ∧
    (unit.toList.map FunctionIr.fullName).Pairwise (· ≠ ·) ∧
    s'.jumpTable = jumpTableOf unit.toList ∧
    BodyAt (jumpTableOf unit.toList) unit[0]! 0 s' ∧
    ∀ i (hi : i < unit.size), 0 < i → unit[i].handle ≠ 0 ∧
      ∃ pos, (unit[i].handle, pos) ∈ s'.labels ∧ BodyAt (jumpTableOf unit.toList) unit[i] pos s' := by
  unfold compileUnit at h
  by_cases he : unit.isEmpty = true
  · simp only [he, if_true] at h
    obtain ⟨_, _, h9, _⟩ := bind_ok.1 h
    simp at h9
  simp only [he, Bool.false_eq_true, if_false] at h
  obtain ⟨_, s1, h1, h⟩ := bind_ok.1 h
  obtain ⟨_, s2, h2, h⟩ := bind_ok.1 h
  obtain ⟨_, s3, h3, h⟩ := bind_ok.1 h
  obtain ⟨_, s4, h4, h⟩ := bind_ok.1 h
  obtain ⟨_, s5, h5, h⟩ := bind_ok.1 h
  obtain ⟨_, s6, h6, h⟩ := bind_ok.1 h
  obtain ⟨_, s7, h7, h⟩ := bind_ok.1 h
  obtain ⟨_, s8, h8, h⟩ := bind_ok.1 h
  obtain ⟨_, s9, h9, h10⟩ := bind_ok.1 h
  have hpos : 0 < unit.size := by
    rcases Nat.eq_zero_or_pos unit.size with h0 | h0
    · exact absurd (by simpa using h0) he
    · exact h0
  obtain ⟨_, hpw, rfl⟩ := (addFunctions_ok _ _ _).1 h1
  simp only [modify_run, Except.ok.injEq, Prod.mk.injEq, true_and] at h2 h5 h9
  subst h2
  have e3 : s3.jumpTable = jumpTableOf unit.toList ∧ s3.bytecode = #[] := by
    unfold scopeBegin at h3
    simp only [modify_run, Except.ok.injEq, Prod.mk.injEq, true_and] at h3
    rw [← h3]; exact ⟨by simp, rfl⟩
  obtain ⟨hbody, k4⟩ := processFunction_spec h4
  rw [e3.1, e3.2] at hbody
  subst h5
  have k6 := (kp_run scopeEnd_kp h6).toJ
  have k7 := (kp_run (processCard_kp _) h7).toJ
  obtain ⟨k8, x8, hfs⟩ := compileFunctions_spec _ _ _ h8
  subst h9
  have k10 := (kp_run (pushInstr_kp _) h10).toJ
  have x6 := extends_run (fun _ => scopeEnd_mono) h6
  have x7 := extends_run (fun _ => processCard_mono _) h7
  have x10 := extends_run (fun _ => pushInstr_mono _) h10
  have x6' : Extends s4 s6 := ⟨x6.1, x6.2, x6.3⟩
  have x10' : Extends s8 s' := ⟨x10.1, x10.2, x10.3⟩
  have jt4 : s4.jumpTable = jumpTableOf unit.toList := by rw [k4.jt, e3.1]
  have jt7 : s7.jumpTable = jumpTableOf unit.toList := by rw [k7.jt, k6.jt]; exact jt4
  refine ⟨hpos, hpw, ?_, ?_, ?_⟩
  · rw [k10.jt]; show s8.jumpTable = _; rw [k8.jt, jt7]
  · exact hbody.mono (x6'.trans (x7.trans (x8.trans x10')))
  · intro i hi hi0
    have hlen : i - 1 < (unit.toList.drop 1).length := by simp; omega
    obtain ⟨hne, pos, hl, hb⟩ := hfs (i - 1) hlen
    have hget : (unit.toList.drop 1)[i - 1] = unit[i] := by
      simp only [List.getElem_drop, Array.getElem_toList]
      congr 1; omega
    rw [hget] at hne hl hb
    rw [jt7] at hb
    refine ⟨hne, pos, ?_, hb.mono x10'⟩
    have k9 : KeepsJ s8 { s8 with imports := [] } := ⟨rfl, [], (List.append_nil _).symm⟩
    exact (k9.trans k10).mem hl

/-! ## 7. the resolved label table: the last insertion of a key wins -/

theorem resolveLog_find_aux {β : Type} (h : UInt32) :
    ∀ (log acc : List (UInt32 × β)),
      (log.foldl (fun acc p => acc.filter (fun q => !(q.1 == p.1)) ++ [p]) acc).find? (fun q => q.1 == h) =
        (log.reverse.find? (fun q => q.1 == h)).orElse (fun _ => acc.find? (fun q => q.1 == h))
  | [], acc => by simp
  | p :: log, acc => by
    rw [List.foldl_cons, resolveLog_find_aux h log, List.reverse_cons, List.find?_append]
    cases hr : log.reverse.find? (fun q => q.1 == h) with
    | some x => simp [hr]
    | none =>
      simp only [hr, Option.orElse_eq_orElse, Option.orElse_eq_or, Option.none_or, List.find?_append,
        List.find?_filter]
      by_cases hp : p.1 = h
      · have : (fun q : UInt32 × β => decide ((!(q.1 == p.1)) = true ∧ (q.1 == h) = true)) = fun _ => false := by
          funext q; subst hp; cases hq : (q.1 == p.1) <;> simp [hq]
        rw [this]
        have hn : List.find? (fun _ : UInt32 × β => false) acc = none := by
          induction acc with
          | nil => rfl
          | cons a l ih => simp [List.find?_cons, ih]
        simp [hp, hn]
      · have : (fun q : UInt32 × β => decide ((!(q.1 == p.1)) = true ∧ (q.1 == h) = true)) = fun q => (q.1 == h) := by
          funext q
          cases hq : (q.1 == h)
          · simp
          · have h1 : q.1 = h := by simpa using hq
            have : ¬ q.1 = p.1 := by rw [h1]; exact fun e => hp e.symm
            simp [this]
        have hp' : (p.1 == h) = false := by simpa using hp
        rw [this]
        simp [hp']

/-- the resolved label table maps a key to its last insertion in the log -/
theorem resolveLog_find {β : Type} (log : List (UInt32 × β)) (h : UInt32) :
    (resolveLog log).find? (fun q => q.1 == h) = log.reverse.find? (fun q => q.1 == h) := by
  unfold resolveLog
  rw [resolveLog_find_aux h log []]
  cases log.reverse.find? (fun q => q.1 == h) <;> simp

/-- if every insertion under key `h` has the same value, that is the value of `h` -/
theorem resolveLog_find_of_unique {β : Type} {log : List (UInt32 × β)} {h : UInt32} {v : β}
    (hm : (h, v) ∈ log) (hu : ∀ q ∈ log, q.1 = h → q.2 = v) :
    (resolveLog log).find? (fun q => q.1 == h) = some (h, v) := by
  rw [resolveLog_find]
  cases hf : log.reverse.find? (fun q => q.1 == h) with
  | none =>
    have := List.find?_eq_none.1 hf (h, v) (List.mem_reverse.2 hm)
    simp at this
  | some q =>
    have h1 : q.1 = h := by simpa using List.find?_some hf
    have h2 := hu q (List.mem_reverse.1 (List.mem_of_find?_eq_some hf)) h1
    rw [← h1, ← h2]

/-! ## 8. duplicate names -/

theorem dupNames_iff (l : List String) : dupNames l = true ↔ ¬ l.Pairwise (· ≠ ·) := by
  induction l with
  | nil => simp [dupNames]
  | cons a l ih =>
    simp only [dupNames, Bool.or_eq_true, List.contains_iff_mem, List.pairwise_cons, not_and, ih]
    constructor
    · rintro (h | h) h1
      · exact absurd rfl (h1 a h)
      · exact h
    · intro h
      by_cases ha : a ∈ l
      · exact Or.inl ha
      · exact Or.inr (h (fun b hb e => ha (e ▸ hb)))

theorem dupNames_append_singleton {l : List String} {x : String} (h : x ∈ l) : dupNames (l ++ [x]) = true := by
  rw [dupNames_iff, List.pairwise_append]
  intro hp
  exact hp.2.2 x h x (List.mem_singleton.2 rfl) rfl

theorem fnEntries_fullName (ns : List String) (imports : List (String × String)) :
    ∀ (fns : List (String × Func)) (i : Nat),
      (fnEntries ns imports fns i).map FunctionIr.fullName = fns.map (fun p => joinNs ns p.1)
  | [], _ => rfl
  | (n, f) :: rest, i => by
    simp only [fnEntries, List.map_cons, fnEntries_fullName ns imports rest (i + 1), fullName_eq_joinNs]

theorem withHandles_fullName : ∀ (k : Nat) (l : List FunctionIr),
    (withHandles k l).map FunctionIr.fullName = l.map FunctionIr.fullName
  | _, [] => rfl
  | k, f :: l => by
    simp only [withHandles, List.map_cons, withHandles_fullName (k + 1) l, FunctionIr.fullName]

/-- two same-named functions in one module give two stream entries with the same full name -/
theorem dupFns_entries_all :
    (∀ m ns, anyMod (fun _ m => dupFns m) m ns = true →
      ¬ ((entries m ns).map FunctionIr.fullName).Pairwise (· ≠ ·)) ∧
    (∀ subs ns, anyModSubs (fun _ m => dupFns m) subs ns = true →
      ¬ ((entriesSubs subs ns).map FunctionIr.fullName).Pairwise (· ≠ ·)) := by
  apply Module.tree_induct
  · intro subs fns imps ih ns
    simp only [anyMod, entries, Bool.or_eq_true, List.map_append, List.pairwise_append]
    rintro (h | h) hp
    · simp only [dupFns, Module.functions] at h
      rw [dupNames_iff] at h
      apply h
      have := hp.1
      rw [fnEntries_fullName] at this
      have h2 : (fns.map (fun p => joinNs ns p.1)) = (fns.map (·.1)).map (joinNs ns) := by simp
      rw [h2, List.pairwise_map] at this
      exact this.imp (fun hne e => hne (by rw [e]))
    · exact ih ns h hp.2.1
  · intro ns h; simp [anyModSubs] at h
  · intro n s rest ih1 ih2 ns
    simp only [anyModSubs, entriesSubs, Bool.or_eq_true, List.map_append, List.pairwise_append]
    rintro (h | h) hp
    · exact ih1 _ h hp.1
    · exact ih2 _ h hp.2.1

/-- `intoIrStream`'s result is a permutation of the walk (main swapped to the front) -/
theorem irStream_perm {m std : Module} {mainIdx : Nat}
    (h : mainIdx < (entries (withStd m std) []).length) :
    (irStream m std mainIdx).toList.Perm (withHandles 0 (entries (withStd m std) [])) := by
  unfold irStream
  generalize hl : withHandles 0 (entries (withStd m std) []) = l
  have hlen : mainIdx < l.length := by rw [← hl]; simpa using h
  have h0 : 0 < l.length := by omega
  have e : (((⟨l⟩ : Array FunctionIr).set! 0 (⟨l⟩ : Array FunctionIr)[mainIdx]!).set! mainIdx (⟨l⟩ : Array FunctionIr)[0]!)
      = (⟨l⟩ : Array FunctionIr).swap 0 mainIdx (by simpa using h0) (by simpa using hlen) := by
    simp only [Array.swap, Array.set!_eq_setIfInBounds]
    rw [getElem!_pos (⟨l⟩ : Array FunctionIr) mainIdx (by simpa using hlen),
      getElem!_pos (⟨l⟩ : Array FunctionIr) 0 (by simpa using h0)]
    apply Array.ext
    · simp
    · intro i h1 h2
      simp [Array.getElem_setIfInBounds, Array.getElem_set]
  simp only [e]
  exact (Array.swap_perm _ _).toList

/-! ## 9. handles -/

/-- `Handle::from_u64` is injective on the first `n` stream positions (an assumption: it is a
64→32 bit mixing hash, see `Hash.hashU64`) -/
def HandleInj (n : Nat) : Prop :=
  ∀ i j, i < n → j < n →
    Hash.handleFromU64 (UInt64.ofNat i) = Hash.handleFromU64 (UInt64.ofNat j) → i = j

theorem withHandles_handles : ∀ (k : Nat) (l : List FunctionIr),
    (withHandles k l).map (·.handle) =
      (List.range' k l.length).map (fun i => Hash.handleFromU64 (UInt64.ofNat i))
  | _, [] => rfl
  | k, f :: l => by
    simp only [withHandles, List.map_cons, List.length_cons, List.range'_succ, withHandles_handles (k + 1) l]

theorem withHandles_handles_nodup {l : List FunctionIr} (h : HandleInj l.length) :
    ((withHandles 0 l).map (·.handle)).Pairwise (· ≠ ·) := by
  rw [withHandles_handles, List.pairwise_map]
  have hlt : (List.range' 0 l.length).Pairwise (· < ·) := List.pairwise_lt_range'
  refine hlt.imp_of_mem ?_
  intro a b ha hb hab he
  have ha' := (List.mem_range'_1.1 ha).2
  have hb' := (List.mem_range'_1.1 hb).2
  have := h a b (by omega) (by omega) he
  omega

/-! ## 10. the reference semantics' function table (`Sem.flattenFns`, restated as a total
function: the original is a `partial def`, hence opaque to proofs) -/

mutual
  def semFlatten : Module → List String → List Sem.FnDef
    | .mk subs fns imps, ns =>
      fns.map (fun p => { fullName := joinNs ns p.1, ns := ns, imports := semImports imps,
                          params := p.2.arguments, cards := p.2.cards : Sem.FnDef }) ++
      semFlattenSubs subs ns
  def semFlattenSubs : List (String × Module) → List String → List Sem.FnDef
    | [], _ => []
    | (n, s) :: rest, ns => semFlatten s (ns ++ [n]) ++ semFlattenSubs rest ns
end

theorem fnEntries_toFnDef (ns : List String) (imports : List (String × String)) :
    ∀ (fns : List (String × Func)) (i : Nat),
      (fnEntries ns imports fns i).map toFnDef =
        fns.map (fun p => { fullName := joinNs ns p.1, ns := ns, imports := imports,
                            params := p.2.arguments, cards := p.2.cards : Sem.FnDef })
  | [], _ => rfl
  | (n, f) :: rest, i => by
    simp only [fnEntries, List.map_cons, fnEntries_toFnDef ns imports rest (i + 1), toFnDef]

theorem withHandles_toFnDef : ∀ (k : Nat) (l : List FunctionIr),
    (withHandles k l).map toFnDef = l.map toFnDef
  | _, [] => rfl
  | k, f :: l => by
    simp only [withHandles, List.map_cons, withHandles_toFnDef (k + 1) l, toFnDef]

/-- on a tree whose import lists are all accepted, the compiler's stream and the reference
function table list the same functions, in the same order, with the same namespaces and imports -/
theorem entries_toFnDef_all :
    (∀ m ns, anyMod (fun _ m => importBad m) m ns = false → (entries m ns).map toFnDef = semFlatten m ns) ∧
    (∀ subs ns, anyModSubs (fun _ m => importBad m) subs ns = false →
      (entriesSubs subs ns).map toFnDef = semFlattenSubs subs ns) := by
  apply Module.tree_induct
  · intro subs fns imps ih ns
    simp only [anyMod, entries, semFlatten, Bool.or_eq_false_iff, List.map_append]
    rintro ⟨h1, h2⟩
    rw [ih ns h2, fnEntries_toFnDef]
    simp only [importBad, Module.imports] at h1
    cases hi : executeImports imps with
    | error e => rw [hi] at h1; cases h1
    | ok l => rw [importsOf_ok hi, semImports_eq_of_ok hi]
  · intro ns _; rfl
  · intro n s rest ih1 ih2 ns
    simp only [anyModSubs, entriesSubs, semFlattenSubs, Bool.or_eq_false_iff, List.map_append]
    rintro ⟨h1, h2⟩
    rw [ih1 _ h1, ih2 _ h2]

/-! ## 11. the compiler's resolution over the jump table of a stream = the generic resolution
over the reference function table, relabelled -/

theorem map_toFnDef_toArray (fns : Array FunctionIr) : (fns.toList.map toFnDef).toArray = fns.map toFnDef := by
  apply Array.ext'
  simp

theorem resolveSpec_eq_map (fns : Array FunctionIr) (ns : List String) (imports : List (String × String))
    (name : String) :
    resolveSpec (jumpTableOf fns.toList) ns imports name =
      (resolveWith (Sem.findFn (fns.map toFnDef)) ns imports name).map
        (fun j => tgt (fns.toList.getD j default)) := by
  unfold resolveSpec
  rw [← resolveWith_map]
  congr 1
  funext n
  rw [look_jumpTableOf, map_toFnDef_toArray]

theorem sem_resolve_stream (fns : Array FunctionIr) (home : Nat) (hh : home < fns.size) (name : String) :
    Sem.resolve (fns.map toFnDef) home name =
      semWith (Sem.findFn (fns.map toFnDef)) fns[home].ns fns[home].imports name := by
  have : (fns.map toFnDef)[home]? = some (toFnDef fns[home]) := by simp [hh]
  rw [sem_resolve_eq_semWith _ _ _ this]
  rfl

theorem getD_toList (fns : Array FunctionIr) (j : Nat) (hj : j < fns.size) :
    fns.toList.getD j default = fns[j] := by
  simp [List.getD, hj]

/-! ## 12. a successful compilation resolved every static call

`calls c`: the names of all static calls (`Call`) and function references (`Function`) in a card
tree. `Res T m Q`: every successful run of `m` from a state whose tables are `T` establishes `Q`.
A successful `processCard c` established that every name of `calls c` resolves under `T`. -/

mutual
  def calls : Card → List String
    | .bin _ a b => calls a ++ calls b
    | .un _ c => calls c
    | .tri _ a b c => calls a ++ (calls b ++ calls c)
    | .function name => [name]
    | .setVar _ v => calls v
    | .setGlobalVar _ v => calls v
    | .callNative _ args => callsList args
    | .call name args => name :: callsList args
    | .repeat _ n body => calls n ++ calls body
    | .forEach _ _ _ it body => calls it ++ calls body
    | .composite _ cards => callsList cards
    | .dynamicCall args f => callsList args ++ calls f
    | .array cards => callsList cards
    | .closure _ cards => callsList cards
    | .scalarNil | .createTable | .abort | .scalarInt _ | .scalarFloat _ | .stringLiteral _
    | .comment _ | .nativeFunction _ | .readVar _ => []
  def callsList : List Card → List String
    | [] => []
    | c :: cs => calls c ++ callsList cs
end

/-- the resolution tables in force while one function is compiled -/
structure Tables where
  jt : JumpTable
  ns : List String
  imports : List (String × String)

def Tables.holds (T : Tables) (s : CState) : Prop :=
  s.jumpTable = T.jt ∧ s.ns = T.ns ∧ s.imports = T.imports

theorem Tables.holds_of_keeps {T : Tables} {s s' : CState} (h : T.holds s) (k : Keeps s s') : T.holds s' :=
  ⟨k.jt.trans h.1, k.ns.trans h.2.1, k.imports.trans h.2.2⟩

/-- the name resolves under `T` -/
def Resolves (T : Tables) (n : String) : Prop := ∃ r, resolveSpec T.jt T.ns T.imports n = .ok r

def ResolvesAll (T : Tables) (l : List String) : Prop := ∀ n ∈ l, Resolves T n

def Res (T : Tables) {α : Type} (m : CM α) (Q : Prop) : Prop :=
  ∀ s a s', T.holds s → m s = .ok (a, s') → Q

theorem res_bind_left {T : Tables} {α β : Type} {m : CM α} {f : α → CM β} {Q : Prop} (h : Res T m Q) :
    Res T (m >>= f) Q := by
  intro s b s'' hT hr
  obtain ⟨a, s', h1, _⟩ := bind_ok.1 hr
  exact h s a s' hT h1

theorem res_bind_right {T : Tables} {α β : Type} {m : CM α} {f : α → CM β} {Q : Prop} (hk : Kp m)
    (h : ∀ a, Res T (f a) Q) : Res T (m >>= f) Q := by
  intro s b s'' hT hr
  obtain ⟨a, s', h1, h2⟩ := bind_ok.1 hr
  exact h a s' b s'' (Tables.holds_of_keeps hT (hk.run s a s' h1)) h2

theorem res_nil {T : Tables} {α : Type} {m : CM α} : Res T m (ResolvesAll T []) :=
  fun _ _ _ _ _ n hn => nomatch hn

theorem res_append {T : Tables} {α : Type} {m : CM α} {a b : List String}
    (ha : Res T m (ResolvesAll T a)) (hb : Res T m (ResolvesAll T b)) : Res T m (ResolvesAll T (a ++ b)) := by
  intro s x s' hT hr n hn
  rcases List.mem_append.1 hn with h | h
  · exact ha s x s' hT hr n h
  · exact hb s x s' hT hr n h

theorem res_cons {T : Tables} {α : Type} {m : CM α} {n : String} {l : List String}
    (hn : Res T m (Resolves T n)) (hl : Res T m (ResolvesAll T l)) : Res T m (ResolvesAll T (n :: l)) := by
  intro s x s' hT hr k hk
  rcases List.mem_cons.1 hk with rfl | h
  · exact hn s x s' hT hr
  · exact hl s x s' hT hr k h

theorem res_encodeJump {T : Tables} (name : String) : Res T (encodeJump name) (Resolves T name) := by
  intro s a s' hT hr
  rw [encodeJump_run] at hr
  obtain ⟨h1, h2, h3⟩ := hT
  rw [h1, h2, h3] at hr
  cases hx : resolveSpec T.jt T.ns T.imports name with
  | ok r => exact ⟨r, hx⟩
  | error k => rw [hx] at hr; cases hr

macro_rules | `(tactic| kp_prim) => `(tactic| with_reducible exact compileSubexprFrom_kp _ _)
macro_rules | `(tactic| kp_prim) => `(tactic| with_reducible exact processArrayItems_kp _ _ _)

/-- find the sub-action that establishes the goal's `Q` (a hypothesis, or `encodeJump`) inside a
tree of binds, skipping prefixes that keep the tables -/
syntax "res_nav" : tactic
macro_rules | `(tactic| res_nav) => `(tactic| first
  | assumption
  | exact (by assumption : ∀ tv : Nat, Res _ (processArrayItems tv _ _) _) _
  | with_reducible exact res_encodeJump _
  | (with_reducible apply res_bind_left; res_nav)
  | (with_reducible apply res_bind_right (by kp); intro _; res_nav)
  | (split <;> res_nav))

macro "res_all" : tactic => `(tactic|
  (repeat' (first | exact res_nil | apply res_append | apply res_cons)) <;> res_nav)

section
variable {T : Tables} {Q : Prop}

theorem withSub_res {i : Nat} {m : CM Unit} (h : Res T m Q) : Res T (withSub i m) Q := by
  unfold withSub; res_nav

theorem encodeIfThen_res {skip : UInt8} {m : CM Unit} (h : Res T m Q) : Res T (encodeIfThen skip m) Q := by
  unfold encodeIfThen; res_nav

theorem encodeIfThenRet_res {skip : UInt8} {m : CM Nat} (h : Res T m Q) : Res T (encodeIfThenRet skip m) Q := by
  unfold encodeIfThenRet; res_nav

theorem forEachCode_res1 {i k v : Option String} {it body : CM Unit} (hb : Kp body) (h : Res T it Q) :
    Res T (forEachCode i k v it body) Q := by
  unfold forEachCode
  exact res_bind_left (withSub_res h)

end

theorem processCard_res_all (T : Tables) :
    (∀ c, Res T (processCard c) (ResolvesAll T (calls c))) ∧
    (∀ tv i cs, Res T (processArrayItems tv i cs) (ResolvesAll T (callsList cs))) ∧
    (∀ i cs, Res T (compileSubexprFrom i cs) (ResolvesAll T (callsList cs))) := by
  apply processCard.mutual_induct
    (motive_1 := fun c => Res T (processCard c) (ResolvesAll T (calls c)))
    (motive_2 := fun tv i cs => Res T (processArrayItems tv i cs) (ResolvesAll T (callsList cs)))
    (motive_3 := fun i cs => Res T (compileSubexprFrom i cs) (ResolvesAll T (callsList cs)))
  all_goals
    intros
    simp only [processCard, processArrayItems, compileSubexprFrom, calls, callsList,
      withSub, forEachCode, whileCode, repeatCode, setVarCode, setGlobalVarCode, ifElseCode, ifCode,
      callCode, callNativeCode, closureCode, arrayCode, unCode, dynamicCallCode, encodeIfThen,
      encodeIfThenRet]
    try unfold binCode
    try unfold triCode
    try simp only [withSub, whileCode, ifElseCode, ifCode, encodeIfThen, encodeIfThenRet]
    res_all

theorem processCard_res (T : Tables) (c : Card) : Res T (processCard c) (ResolvesAll T (calls c)) :=
  (processCard_res_all T).1 c

theorem processFunctionCards_res (T : Tables) : ∀ i cs,
    Res T (processFunctionCards i cs) (ResolvesAll T (callsList cs))
  | _, [] => by unfold processFunctionCards; simp only [callsList]; exact res_nil
  | i, c :: cs => by
    have ih := processFunctionCards_res T (i + 1) cs
    have hc := processCard_res T c
    unfold processFunctionCards
    simp only [callsList]
    res_all

/-- every static call / function reference in the body of a compiled function resolved, with the
full jump table and the function's own namespace and imports -/
theorem BodyAt.resolves {jt : JumpTable} {f : FunctionIr} {pos : Nat} {final : CState}
    (h : BodyAt jt f pos final) :
    ∀ n ∈ callsList f.cards, ∃ r, resolveSpec jt f.ns f.imports n = .ok r := by
  obtain ⟨sb, sb', h1, h2, h3, _, _, h6, _, _⟩ := h
  exact processFunctionCards_res ⟨jt, f.ns, f.imports⟩ 0 f.cards sb () sb' ⟨h1, h2, h3⟩ h6

/-! ## 13. the import tables of the stream are results of `executeImports` -/

theorem fnEntries_mem_imports (ns : List String) (imports : List (String × String)) :
    ∀ (fns : List (String × Func)) (i : Nat), ∀ f ∈ fnEntries ns imports fns i, f.imports = imports
  | [], _, f, hf => nomatch hf
  | (n, fn) :: rest, i, f, hf => by
    simp only [fnEntries, List.mem_cons] at hf
    rcases hf with rfl | hf
    · rfl
    · exact fnEntries_mem_imports ns imports rest (i + 1) f hf

theorem withHandles_mem_imports : ∀ (k : Nat) (l : List FunctionIr), ∀ f ∈ withHandles k l,
    ∃ g ∈ l, g.imports = f.imports
  | _, [], f, hf => nomatch hf
  | k, g :: l, f, hf => by
    simp only [withHandles, List.mem_cons] at hf
    rcases hf with rfl | hf
    · exact ⟨g, List.mem_cons_self .., rfl⟩
    · obtain ⟨g', hg', he⟩ := withHandles_mem_imports (k + 1) l f hf
      exact ⟨g', List.mem_cons_of_mem _ hg', he⟩

theorem entries_imports_all :
    (∀ m ns, anyMod (fun _ m => importBad m) m ns = false →
      ∀ f ∈ entries m ns, ∃ imps, executeImports imps = .ok f.imports) ∧
    (∀ subs ns, anyModSubs (fun _ m => importBad m) subs ns = false →
      ∀ f ∈ entriesSubs subs ns, ∃ imps, executeImports imps = .ok f.imports) := by
  apply Module.tree_induct
  · intro subs fns imps ih ns
    simp only [anyMod, entries, Bool.or_eq_false_iff, List.mem_append]
    rintro ⟨h1, h2⟩ f (hf | hf)
    · rw [fnEntries_mem_imports _ _ _ _ f hf]
      simp only [importBad, Module.imports] at h1
      cases hi : executeImports imps with
      | error e => rw [hi] at h1; cases h1
      | ok l => exact ⟨imps, by rw [importsOf_ok hi]; exact hi⟩
    · exact ih ns h2 f hf
  · intro ns _ f hf; cases hf
  · intro n s rest ih1 ih2 ns
    simp only [anyModSubs, entriesSubs, Bool.or_eq_false_iff, List.mem_append]
    rintro ⟨h1, h2⟩ f (hf | hf)
    · exact ih1 _ h1 f hf
    · exact ih2 _ h2 f hf

end Cao.Compiler
