import CaoModel.Vm
import CaoModel.Sem
import CaoProofs.Lemmas.CompilerLemmas
/-!
# Infrastructure for the compile-correctness proofs (C01)

* running the VM monad (`runM`), one lemma per instruction of the fragment (`step_*`);
* `Reach`: counted multi-step execution of the dispatch loop and its link to `Vm.exec`;
* `StackIs`: the live part of the value stack as a list (top first);
* byte-level decoding of what the compiler emitted (`rdU32_le32`, `rdU64_le64`).
-/
namespace Cao.Sim
open Cao Cao.Vm

/-! ## running `M` -/

def runM {α : Type} (m : M α) (s : VmState) : Except ErrKind α × VmState := m.run.run s

theorem runM_def {α : Type} (m : M α) (s : VmState) : StateT.run (ExceptT.run m) s = runM m s := rfl

@[simp] theorem runM_pure {α : Type} (a : α) (s : VmState) : runM (pure a : M α) s = (.ok a, s) := rfl

@[simp] theorem runM_bind {α β : Type} (x : M α) (f : α → M β) (s : VmState) :
    runM (x >>= f) s = match runM x s with
      | (.ok a, s') => runM (f a) s'
      | (.error e, s') => (.error e, s') := by
  unfold runM
  rw [ExceptT.run_bind, StateT.run_bind]
  rcases x.run.run s with ⟨r, s'⟩
  cases r <;> rfl

@[simp] theorem runM_map {α β : Type} (x : M α) (f : α → β) (s : VmState) :
    runM (f <$> x) s = match runM x s with
      | (.ok a, s') => (.ok (f a), s')
      | (.error e, s') => (.error e, s') := by
  rw [map_eq_pure_bind, runM_bind]
  rcases runM x s with ⟨r, s'⟩
  cases r <;> rfl

@[simp] theorem runM_get (s : VmState) : runM (get : M VmState) s = (.ok s, s) := rfl
@[simp] theorem runM_set (s' s : VmState) : runM (set s' : M Unit) s = (.ok (), s') := rfl
@[simp] theorem runM_modify (f : VmState → VmState) (s : VmState) :
    runM (modify f : M Unit) s = (.ok (), f s) := rfl
@[simp] theorem runM_throwE {α : Type} (e : ErrKind) (s : VmState) :
    runM (throwE e : M α) s = (.error e, s) := rfl

theorem runM_push {v : Val} {s : VmState} {st' : VStack Val} (hp : s.stack.push v = (st', .ok ())) :
    runM (push v) s = (.ok (), { s with stack := st' }) := by
  unfold push
  simp [hp]

theorem runM_push' {v : Val} {st st' : VStack Val} (hp : st.push v = (st', .ok ())) {s : VmState}
    (hs : s.stack = st) : runM (push v) s = (.ok (), { s with stack := st' }) :=
  runM_push (hs ▸ hp)

theorem runM_pop (s : VmState) :
    runM pop s = (.ok s.stack.pop.2, { s with stack := s.stack.pop.1 }) := by
  unfold pop
  simp

/-! ## one lemma per instruction -/

section steps
variable {P : Prog} {re : Reenter} {ip : Nat} {s : VmState}

/-- unfold `step` at a known opcode -/
macro "step_unfold" h:ident : tactic => `(tactic|
  (unfold step
   simp only [$h:ident]
   simp (config := {decide := true}) only [if_false, if_true]
   simp only [runM_def]))

theorem step_scalarNil {st' : VStack Val}
    (h : P.bytecode.getD ip 0 = Compiler.op.scalarNil) (hp : s.stack.push .nil = (st', .ok ())) :
    runM (step P re ip) s = (.ok { ip := ip + 1 }, { s with stack := st' }) := by
  unfold runM
  step_unfold h
  simp [runM_push hp]

theorem step_scalarInt {st' : VStack Val}
    (h : P.bytecode.getD ip 0 = Compiler.op.scalarInt)
    (hp : s.stack.push (.int (rdU64 P.bytecode (ip + 1)).toInt64) = (st', .ok ())) :
    runM (step P re ip) s = (.ok { ip := ip + 1 + 8 }, { s with stack := st' }) := by
  unfold runM
  step_unfold h
  simp [runM_push hp]

theorem step_scalarFloat {st' : VStack Val}
    (h : P.bytecode.getD ip 0 = Compiler.op.scalarFloat)
    (hp : s.stack.push (.real (rdU64 P.bytecode (ip + 1))) = (st', .ok ())) :
    runM (step P re ip) s = (.ok { ip := ip + 1 + 8 }, { s with stack := st' }) := by
  unfold runM
  step_unfold h
  simp [runM_push hp]

theorem step_exit (h : P.bytecode.getD ip 0 = Compiler.op.exit) :
    runM (step P re ip) s = (.ok { ip := ip + 1, exit := true }, s) := by
  unfold runM
  step_unfold h
  simp

theorem step_not {st' : VStack Val}
    (h : P.bytecode.getD ip 0 = Compiler.op.not)
    (hp : s.stack.pop.1.push (boolVal (!(OVal.asBool hostF64 (ownD s.heap s.stack.pop.2)))) = (st', .ok ())) :
    runM (step P re ip) s = (.ok { ip := ip + 1 }, { s with stack := st' }) := by
  unfold runM
  step_unfold h
  simp [runM_pop, runM_push' hp]

theorem step_pop (h : P.bytecode.getD ip 0 = Compiler.op.pop) :
    runM (step P re ip) s = (.ok { ip := ip + 1 }, { s with stack := s.stack.pop.1 }) := by
  unfold runM
  step_unfold h
  simp [runM_pop]

theorem step_goto (h : P.bytecode.getD ip 0 = Compiler.op.goto) :
    runM (step P re ip) s = (.ok { ip := rdU32 P.bytecode (ip + 1) }, s) := by
  unfold runM
  step_unfold h
  simp

theorem step_gotoIfFalse (h : P.bytecode.getD ip 0 = Compiler.op.gotoIfFalse) :
    runM (step P re ip) s =
      (.ok { ip := if OVal.asBool hostF64 (ownD s.heap s.stack.pop.2) then ip + 1 + 4
                   else rdU32 P.bytecode (ip + 1) },
       { s with stack := s.stack.pop.1 }) := by
  unfold runM
  step_unfold h
  simp [runM_pop]

theorem step_gotoIfTrue (h : P.bytecode.getD ip 0 = Compiler.op.gotoIfTrue) :
    runM (step P re ip) s =
      (.ok { ip := if OVal.asBool hostF64 (ownD s.heap s.stack.pop.2) then rdU32 P.bytecode (ip + 1)
                   else ip + 1 + 4 },
       { s with stack := s.stack.pop.1 }) := by
  unfold runM
  step_unfold h
  simp [runM_pop]

theorem step_setGlobalVar (h : P.bytecode.getD ip 0 = Compiler.op.setGlobalVar) :
    runM (step P re ip) s =
      (.ok { ip := ip + 1 + 4 },
       { s with stack := s.stack.pop.1,
                globals :=
                  (if s.globals.length ≤ rdU32 P.bytecode (ip + 1) then
                    s.globals ++ List.replicate (rdU32 P.bytecode (ip + 1) + 1 - s.globals.length) .nil
                   else s.globals).set (rdU32 P.bytecode (ip + 1)) s.stack.pop.2 }) := by
  unfold runM
  step_unfold h
  simp [runM_pop]

theorem step_readGlobalVar {st' : VStack Val} {v : Val}
    (h : P.bytecode.getD ip 0 = Compiler.op.readGlobalVar)
    (hv : s.globals[rdU32 P.bytecode (ip + 1)]? = some v)
    (hp : s.stack.push v = (st', .ok ())) :
    runM (step P re ip) s = (.ok { ip := ip + 1 + 4 }, { s with stack := st' }) := by
  unfold runM
  step_unfold h
  simp [hv, runM_push hp]

/-- the operator cards that compile to a single two-operand instruction computing on values -/
def isValOp : BinKind → Bool
  | .add | .sub | .mul | .div | .less | .lessOrEq | .equals | .notEquals | .and | .or | .xor => true
  | _ => false

def numVal (x : OVal) : Val := match x with
  | .int i => .int i | .real r => .real r | _ => .nil

/-- the value computed by the two-operand instruction of `k` from the deep operand values -/
def binVal (k : BinKind) (oa ob : OVal) : Val :=
  match k with
  | .add => numVal (OVal.arith hostF64 .add oa ob)
  | .sub => numVal (OVal.arith hostF64 .sub oa ob)
  | .mul => numVal (OVal.arith hostF64 .mul oa ob)
  | .div => numVal (OVal.arith hostF64 .div oa ob)
  | .less => boolVal (OVal.vlt hostF64 oa ob)
  | .lessOrEq => boolVal (OVal.vle hostF64 oa ob)
  | .equals => boolVal (OVal.veq hostF64 oa ob)
  | .notEquals => boolVal (!(OVal.veq hostF64 oa ob))
  | .and => boolVal (OVal.asBool hostF64 oa && OVal.asBool hostF64 ob)
  | .or => boolVal (OVal.asBool hostF64 oa || OVal.asBool hostF64 ob)
  | .xor => boolVal (OVal.asBool hostF64 oa != OVal.asBool hostF64 ob)
  | _ => .nil

theorem step_bin {st' : VStack Val} (k : BinKind) (hk : isValOp k = true)
    (h : P.bytecode.getD ip 0 = Compiler.binOp k)
    (hp : s.stack.pop.1.pop.1.push
            (binVal k (ownD s.heap s.stack.pop.1.pop.2) (ownD s.heap s.stack.pop.2)) = (st', .ok ())) :
    runM (step P re ip) s = (.ok { ip := ip + 1 }, { s with stack := st' }) := by
  unfold runM
  cases k <;> simp only [isValOp, Bool.false_eq_true] at hk <;> simp only [Compiler.binOp] at h <;>
  · step_unfold h
    simp only [binVal] at hp
    simp only [runM_bind, runM_pop, runM_get, runM_pure]
    rw [runM_push' (st' := st') (hs := rfl)]
    exact hp

end steps

/-! ## decoding the operands the compiler emitted -/

theorem range4 : List.range 4 = [0, 1, 2, 3] := by decide
theorem range8 : List.range 8 = [0, 1, 2, 3, 4, 5, 6, 7] := by decide
theorem foldl4 {α β : Type} (f : α → β → α) (a : α) (x0 x1 x2 x3 : β) :
    List.foldl f a [x0, x1, x2, x3] = f (f (f (f a x0) x1) x2) x3 := rfl
theorem foldl8 {α β : Type} (f : α → β → α) (a : α) (x0 x1 x2 x3 x4 x5 x6 x7 : β) :
    List.foldl f a [x0, x1, x2, x3, x4, x5, x6, x7] =
      f (f (f (f (f (f (f (f a x0) x1) x2) x3) x4) x5) x6) x7 := rfl

theorem rdU32_def (b : Array UInt8) (p : Nat) :
    rdU32 b p = (b.getD p 0).toNat + (b.getD (p + 1) 0).toNat * 256 + (b.getD (p + 2) 0).toNat * 65536 +
      (b.getD (p + 3) 0).toNat * 16777216 := by
  unfold rdU32
  rw [range4, foldl4]
  have e0 : (256:Nat) ^ 0 = 1 := by simp only [Nat.reducePow]
  have e1 : (256:Nat) ^ 1 = 256 := by simp only [Nat.reducePow]
  have e2 : (256:Nat) ^ 2 = 65536 := by simp only [Nat.reducePow]
  have e3 : (256:Nat) ^ 3 = 16777216 := by simp only [Nat.reducePow]
  rw [e0, e1, e2, e3, Nat.add_zero, Nat.zero_add, Nat.mul_one]

theorem le32_bytes (x : UInt32) :
    ((Hash.le32 x).getD 0 0).toNat = x.toNat % 256 ∧
    ((Hash.le32 x).getD 1 0).toNat = x.toNat / 256 % 256 ∧
    ((Hash.le32 x).getD 2 0).toNat = x.toNat / 65536 % 256 ∧
    ((Hash.le32 x).getD 3 0).toNat = x.toNat / 16777216 % 256 := by
  simp [Hash.le32, List.range, List.range.loop, UInt32.toNat_shiftRight, Nat.shiftRight_eq_div_pow]

theorem rdU32_eq (b : Array UInt8) (p : Nat) (x : UInt32)
    (h : ∀ i, i < 4 → b.getD (p + i) 0 = (Hash.le32 x).getD i 0) : rdU32 b p = x.toNat := by
  have h0 := h 0 (by omega); have h1 := h 1 (by omega); have h2 := h 2 (by omega); have h3 := h 3 (by omega)
  obtain ⟨e0, e1, e2, e3⟩ := le32_bytes x
  rw [Nat.add_zero] at h0
  rw [rdU32_def, h0, h1, h2, h3, e0, e1, e2, e3]
  have := x.toNat_lt
  omega

theorem rdU64_def (b : Array UInt8) (p : Nat) :
    rdU64 b p = UInt64.ofNat ((b.getD p 0).toNat + (b.getD (p + 1) 0).toNat * 256 + (b.getD (p + 2) 0).toNat * 65536 +
      (b.getD (p + 3) 0).toNat * 16777216 + (b.getD (p + 4) 0).toNat * 4294967296 +
      (b.getD (p + 5) 0).toNat * 1099511627776 + (b.getD (p + 6) 0).toNat * 281474976710656 +
      (b.getD (p + 7) 0).toNat * 72057594037927936) := by
  unfold rdU64
  rw [range8, foldl8]
  have e0 : (256:Nat) ^ 0 = 1 := by simp only [Nat.reducePow]
  have e1 : (256:Nat) ^ 1 = 256 := by simp only [Nat.reducePow]
  have e2 : (256:Nat) ^ 2 = 65536 := by simp only [Nat.reducePow]
  have e3 : (256:Nat) ^ 3 = 16777216 := by simp only [Nat.reducePow]
  have e4 : (256:Nat) ^ 4 = 4294967296 := by simp only [Nat.reducePow]
  have e5 : (256:Nat) ^ 5 = 1099511627776 := by simp only [Nat.reducePow]
  have e6 : (256:Nat) ^ 6 = 281474976710656 := by simp only [Nat.reducePow]
  have e7 : (256:Nat) ^ 7 = 72057594037927936 := by simp only [Nat.reducePow]
  rw [e0, e1, e2, e3, e4, e5, e6, e7, Nat.add_zero, Nat.zero_add, Nat.mul_one]

theorem le64_bytes (x : UInt64) :
    ((Hash.le64 x).getD 0 0).toNat = x.toNat % 256 ∧
    ((Hash.le64 x).getD 1 0).toNat = x.toNat / 256 % 256 ∧
    ((Hash.le64 x).getD 2 0).toNat = x.toNat / 65536 % 256 ∧
    ((Hash.le64 x).getD 3 0).toNat = x.toNat / 16777216 % 256 ∧
    ((Hash.le64 x).getD 4 0).toNat = x.toNat / 4294967296 % 256 ∧
    ((Hash.le64 x).getD 5 0).toNat = x.toNat / 1099511627776 % 256 ∧
    ((Hash.le64 x).getD 6 0).toNat = x.toNat / 281474976710656 % 256 ∧
    ((Hash.le64 x).getD 7 0).toNat = x.toNat / 72057594037927936 % 256 := by
  simp [Hash.le64, List.range, List.range.loop, UInt64.toNat_shiftRight, Nat.shiftRight_eq_div_pow]

theorem rdU64_eq (b : Array UInt8) (p : Nat) (x : UInt64)
    (h : ∀ i, i < 8 → b.getD (p + i) 0 = (Hash.le64 x).getD i 0) : rdU64 b p = x := by
  have h0 := h 0 (by omega); have h1 := h 1 (by omega); have h2 := h 2 (by omega); have h3 := h 3 (by omega)
  have h4 := h 4 (by omega); have h5 := h 5 (by omega); have h6 := h 6 (by omega); have h7 := h 7 (by omega)
  obtain ⟨e0, e1, e2, e3, e4, e5, e6, e7⟩ := le64_bytes x
  rw [Nat.add_zero] at h0
  rw [rdU64_def, h0, h1, h2, h3, h4, h5, h6, h7, e0, e1, e2, e3, e4, e5, e6, e7]
  have hx := x.toNat_lt
  have : x.toNat % 256 + x.toNat / 256 % 256 * 256 + x.toNat / 65536 % 256 * 65536 +
      x.toNat / 16777216 % 256 * 16777216 + x.toNat / 4294967296 % 256 * 4294967296 +
      x.toNat / 1099511627776 % 256 * 1099511627776 + x.toNat / 281474976710656 % 256 * 281474976710656 +
      x.toNat / 72057594037927936 % 256 * 72057594037927936 = x.toNat := by omega
  rw [this]
  exact UInt64.ofNat_toNat

/-! ## counted execution of the dispatch loop -/

/-- the bookkeeping of one dispatch: one unit of the instruction budget, one more dispatch -/
def tick (s : VmState) : VmState :=
  { s with remaining := s.remaining - 1, dispatches := s.dispatches + 1 }

/-- one dispatched instruction that neither fails nor exits -/
structure StepOk (P : Prog) (ip : Nat) (s : VmState) (ip' : Nat) (s' : VmState) : Prop where
  inb : ip < P.bytecode.size
  rem : s'.remaining = s.remaining - 1
  run : ∀ re, runM (step P re ip) (tick s) = (.ok { ip := ip', exit := false }, s')

inductive Reach (P : Prog) : Nat → Nat → VmState → Nat → VmState → Prop
  | refl (ip : Nat) (s : VmState) : Reach P 0 ip s ip s
  | step {n ip ip1 ip2 : Nat} {s s1 s2 : VmState} :
      StepOk P ip s ip1 s1 → Reach P n ip1 s1 ip2 s2 → Reach P (n + 1) ip s ip2 s2

theorem Reach.one {P : Prog} {ip ip' : Nat} {s s' : VmState} (h : StepOk P ip s ip' s') :
    Reach P 1 ip s ip' s' := Reach.step h (Reach.refl _ _)

theorem Reach.trans {P : Prog} {n m k : Nat} {a b c : Nat} {s t u : VmState}
    (h1 : Reach P n a s b t) (h2 : Reach P m b t c u) (hk : k = n + m) : Reach P k a s c u := by
  subst hk
  induction h1 with
  | refl => simpa using h2
  | step hs _ ih =>
    have := Reach.step hs (ih h2)
    rw [Nat.add_right_comm]
    exact this

theorem Reach.remaining {P : Prog} {n a b : Nat} {s t : VmState} (h : Reach P n a s b t) :
    t.remaining = s.remaining - n := by
  induction h with
  | refl => simp
  | step hs _ ih => rw [ih, hs.rem]; omega

theorem exec_step {P : Prog} {gas ip ip' : Nat} {s s' : VmState} (h : StepOk P ip s ip' s')
    (hr : 2 ≤ s.remaining) : exec P (gas + 1) (.loop ip) s = exec P gas (.loop ip') s' := by
  have h3 := h.run (fun f => liftRun (exec P gas (.call f)))
  rw [exec]
  have hlt : ¬ ip ≥ P.bytecode.size := Nat.not_le.2 h.inb
  have hne : (s.remaining - 1 == 0) = false := by
    rw [beq_eq_false_iff_ne]; omega
  simp only [hlt, if_false, hne, Bool.false_eq_true]
  change (match runM (step P _ ip) (tick s) with
    | (.error e, s') => _ | (.ok ctl, s') => _) = _
  rw [h3]
  simp

theorem exec_reach {P : Prog} {n a b : Nat} {s t : VmState} (h : Reach P n a s b t) :
    n < s.remaining → ∀ gas, exec P (gas + n) (.loop a) s = exec P gas (.loop b) t := by
  induction h with
  | refl => intros; rfl
  | step hs _ ih =>
    intro hr gas
    rw [← Nat.add_assoc, exec_step hs (by omega)]
    exact ih (by rw [hs.rem]; omega) gas

theorem exec_exit {P : Prog} {gas ip : Nat} {s : VmState} (hin : ip < P.bytecode.size)
    (h : P.bytecode.getD ip 0 = Compiler.op.exit) (hr : 2 ≤ s.remaining) :
    exec P (gas + 1) (.loop ip) s = (tick s, .ok none) := by
  rw [exec]
  have hlt : ¬ ip ≥ P.bytecode.size := Nat.not_le.2 hin
  have hne : (s.remaining - 1 == 0) = false := by
    rw [beq_eq_false_iff_ne]; omega
  simp only [hlt, if_false, hne, Bool.false_eq_true]
  change (match runM (step P _ ip) (tick s) with
    | (.error e, s') => _ | (.ok ctl, s') => _) = _
  rw [step_exit h]
  simp


/-! ## the value stack as a list -/

theorem take_set_succ {α : Type} (l : List α) (n : Nat) (v : α) (h : n < l.length) :
    (l.set n v).take (n + 1) = l.take n ++ [v] := by
  induction l generalizing n with
  | nil => simp at h
  | cons a l ih =>
    cases n with
    | zero => simp
    | succ n => simp at h ⊢; exact ih n (by omega)

theorem take_set_self {α : Type} (l : List α) (n : Nat) (v : α) :
    (l.set n v).take n = l.take n := by
  induction l generalizing n with
  | nil => simp
  | cons a l ih =>
    cases n with
    | zero => simp
    | succ n => simp [ih]

/-- the live part of the value stack is `l` (top first) and the stack has `cap` slots -/
structure StackIs (st : VStack Val) (cap : Nat) (l : List Val) : Prop where
  count : st.count = l.length
  cap : st.data.length = cap
  live : st.data.take st.count = l.reverse

theorem StackIs.push {st : VStack Val} {cap : Nat} {l : List Val} (h : StackIs st cap l) (v : Val)
    (hroom : l.length + 1 < cap) :
    ∃ st', st.push v = (st', .ok ()) ∧ StackIs st' cap (v :: l) := by
  obtain ⟨hc, hcap, hl⟩ := h
  refine ⟨{ count := st.count + 1, data := st.data.set st.count v }, ?_, ?_, ?_, ?_⟩
  · unfold VStack.push
    rw [if_pos (by omega)]
  · simp [hc]
  · simpa using hcap
  · show (st.data.set st.count v).take (st.count + 1) = (v :: l).reverse
    rw [List.reverse_cons, ← hl, take_set_succ _ _ _ (by omega)]

theorem StackIs.pop {st : VStack Val} {cap : Nat} {l : List Val} {v : Val} (h : StackIs st cap (v :: l)) :
    st.pop.2 = v ∧ StackIs st.pop.1 cap l := by
  obtain ⟨hc, hcap, hl⟩ := h
  rw [List.length_cons] at hc
  have hpos : st.count ≠ 0 := by omega
  have hlt : st.count - 1 < st.data.length := by
    have := congrArg List.length hl
    rw [List.length_take, List.length_reverse, List.length_cons] at this
    omega
  unfold VStack.pop
  rw [if_neg hpos]
  refine ⟨?_, ?_, ?_, ?_⟩
  · show st.data.getD (st.count - 1) default = v
    have h1 : (st.data.take st.count)[st.count - 1]? = some v := by
      rw [hl]; simp [hc]
    rw [List.getElem?_take] at h1
    simp only [show st.count - 1 < st.count by omega, if_true] at h1
    simp [List.getD, h1]
  · show st.count - 1 = l.length
    simp [hc]
  · show (st.data.set (st.count - 1) default).length = cap
    simpa using hcap
  · show (st.data.set (st.count - 1) default).take (st.count - 1) = l.reverse
    rw [take_set_self]
    have : st.data.take (st.count - 1) = (st.data.take st.count).take (st.count - 1) := by
      rw [List.take_take]; congr 1; omega
    rw [this, hl]
    simp [hc]


end Cao.Sim

namespace Cao.Compiler
open Cao

/-! ## the global-variable table and the data segment only grow

`VR m`: a successful run of `m` extends the table of global-variable ids and the data segment
by appending, and keeps the invariant `VInv` of the id table (ids are below `nextVar` and
pairwise distinct). -/

/-- ids handed out so far are below `nextVar`, and no id was handed out twice -/
structure VInv (s : CState) : Prop where
  len : s.nextVar = s.varIds.length
  lt : ∀ p ∈ s.varIds, p.2 < s.nextVar
  inj : s.varIds.Pairwise (fun p q => p.2 ≠ q.2)

structure VExt (s s' : CState) : Prop where
  ids : ∃ t, s'.varIds = s.varIds ++ t
  data : ∃ d : Array UInt8, s'.data = s.data ++ d
  inv : VInv s → VInv s'

theorem VExt.refl (s : CState) : VExt s s := ⟨⟨[], by simp⟩, ⟨#[], by simp⟩, id⟩

theorem VExt.trans {s s1 s2 : CState} (h1 : VExt s s1) (h2 : VExt s1 s2) : VExt s s2 := by
  obtain ⟨⟨t1, a1⟩, ⟨d1, b1⟩, c1⟩ := h1
  obtain ⟨⟨t2, a2⟩, ⟨d2, b2⟩, c2⟩ := h2
  exact ⟨⟨t1 ++ t2, by rw [a2, a1, List.append_assoc]⟩, ⟨d1 ++ d2, by rw [b2, b1, Array.append_assoc]⟩,
    fun h => c2 (c1 h)⟩

theorem VExt.of_eq {s s' : CState} (h1 : s'.varIds = s.varIds) (h2 : s'.nextVar = s.nextVar)
    (h3 : s'.data = s.data) : VExt s s' :=
  ⟨⟨[], by simp [h1]⟩, ⟨#[], by simp [h3]⟩, fun h => ⟨by rw [h1, h2]; exact h.len, by rw [h1, h2]; exact h.lt, by rw [h1]; exact h.inj⟩⟩

structure VR {α : Type} (m : CM α) : Prop where
  run : ∀ s a s', m s = .ok (a, s') → VExt s s'

theorem vr_bind {α β : Type} {m : CM α} {f : α → CM β} (hm : VR m) (hf : ∀ a, VR (f a)) : VR (m >>= f) := by
  constructor
  intro s b s'' h
  obtain ⟨a, s', h1, h2⟩ := bind_ok.1 h
  exact (hm.run s a s' h1).trans ((hf a).run s' b s'' h2)

theorem vr_pure {α : Type} {a : α} : VR (pure a : CM α) := by
  constructor
  intro s b s' hr
  simp only [pure_run, Except.ok.injEq, Prod.mk.injEq] at hr
  obtain ⟨_, rfl⟩ := hr
  exact VExt.refl _

theorem vr_get : VR (get : CM CState) := by
  constructor
  intro s b s' hr
  simp only [get_run, Except.ok.injEq, Prod.mk.injEq] at hr
  obtain ⟨_, rfl⟩ := hr
  exact VExt.refl _

theorem vr_modify {f : CState → CState} (h : ∀ s, VExt s (f s)) : VR (modify f : CM Unit) := by
  constructor
  intro s b s' hr
  simp only [modify_run, Except.ok.injEq, Prod.mk.injEq] at hr
  obtain ⟨_, rfl⟩ := hr
  exact h s

theorem vr_modify_other {f : CState → CState} (h1 : ∀ s, (f s).varIds = s.varIds)
    (h2 : ∀ s, (f s).nextVar = s.nextVar) (h3 : ∀ s, (f s).data = s.data) : VR (modify f : CM Unit) :=
  vr_modify fun s => VExt.of_eq (h1 s) (h2 s) (h3 s)

theorem vr_throw {α : Type} {e : CErr} : VR (throw e : CM α) := by
  constructor; intro s b s' hr; simp at hr

theorem vr_fail {α : Type} {e : CErrKind} : VR (fail e : CM α) := by
  constructor; intro s b s' hr; simp at hr

theorem vr_throw_bind {α β : Type} {e : CErr} {f : α → CM β} : VR ((throw e : CM α) >>= f) := by
  constructor; intro s b s' hr
  obtain ⟨a, s1, h1, _⟩ := bind_ok.1 hr
  simp at h1

theorem vr_fail_bind {α β : Type} {e : CErrKind} {f : α → CM β} : VR ((fail e : CM α) >>= f) := by
  constructor; intro s b s' hr
  obtain ⟨a, s1, h1, _⟩ := bind_ok.1 hr
  simp at h1

theorem vr_ite {α : Type} {c : Prop} [Decidable c] {x y : CM α} (hx : VR x) (hy : VR y) :
    VR (if c then x else y) := by
  split <;> assumption

/-- extensible: closes a goal `VR m` for a known action `m` -/
syntax "vr_prim" : tactic
macro_rules | `(tactic| vr_prim) => `(tactic| assumption)

macro "vr_step" : tactic => `(tactic| first
  | vr_prim
  | dsimp only
  | with_reducible exact vr_throw_bind
  | with_reducible exact vr_fail_bind
  | with_reducible exact vr_pure
  | with_reducible exact vr_get
  | with_reducible exact vr_throw
  | with_reducible exact vr_fail
  | with_reducible exact vr_modify_other (fun _ => rfl) (fun _ => rfl) (fun _ => rfl)
  | with_reducible apply vr_bind
  | with_reducible apply vr_ite
  | intro _
  | split)
macro "vr" : tactic => `(tactic| repeat' vr_step)

theorem emitBytes_vr (bs : List UInt8) : VR (emitBytes bs) := by unfold emitBytes; vr
macro_rules | `(tactic| vr_prim) => `(tactic| with_reducible exact emitBytes_vr _)

theorem curTrace_vr : VR curTrace := by unfold curTrace; vr
macro_rules | `(tactic| vr_prim) => `(tactic| with_reducible exact curTrace_vr)

theorem pushInstr_vr (o : UInt8) : VR (pushInstr o) := by unfold pushInstr; vr
macro_rules | `(tactic| vr_prim) => `(tactic| with_reducible exact pushInstr_vr _)

theorem patchI32_vr (a v : Nat) : VR (patchI32 a v) := by unfold patchI32; vr
macro_rules | `(tactic| vr_prim) => `(tactic| with_reducible exact patchI32_vr _ _)

theorem pairwise_append_single {α : Type} {R : α → α → Prop} {l : List α} {a : α}
    (h : l.Pairwise R) (ha : ∀ x ∈ l, R x a) : (l ++ [a]).Pairwise R := by
  rw [List.pairwise_append]
  exact ⟨h, List.pairwise_singleton _ _, fun x hx y hy => by
    simp only [List.mem_singleton] at hy; subst hy; exact ha x hx⟩

theorem globalId_vr (x : String) : VR (globalId x) := by
  unfold globalId
  vr
  · -- the allocation of a new id
    refine vr_modify fun s => ⟨⟨_, rfl⟩, ⟨#[], by simp⟩, fun h => ⟨?_, ?_, ?_⟩⟩
    · simp [h.len]
    · intro p hp
      rcases List.mem_append.1 hp with hp | hp
      · exact Nat.lt_succ_of_lt (h.lt p hp)
      · simp only [List.mem_singleton] at hp; subst hp; exact Nat.lt_succ_self _
    · exact pairwise_append_single h.inj fun q hq => Nat.ne_of_lt (h.lt q hq)
macro_rules | `(tactic| vr_prim) => `(tactic| with_reducible exact globalId_vr _)

theorem emitU32_vr (x : Nat) : VR (emitU32 x) := emitBytes_vr _
macro_rules | `(tactic| vr_prim) => `(tactic| with_reducible exact emitU32_vr _)

theorem pushStr_vr (x : String) : VR (pushStr x) := by
  unfold pushStr
  refine vr_bind vr_get fun st => vr_bind (emitU32_vr _) fun _ => vr_modify fun s => ?_
  exact ⟨⟨[], by simp⟩, ⟨_, foldl_push_eq _ _⟩, fun h => ⟨h.len, h.lt, h.inj⟩⟩
macro_rules | `(tactic| vr_prim) => `(tactic| with_reducible exact pushStr_vr _)

theorem pushSub_vr (i : Nat) : VR (pushSub i) := by unfold pushSub; vr
theorem popSub_vr : VR popSub := by unfold popSub; vr
macro_rules | `(tactic| vr_prim) => `(tactic| with_reducible exact pushSub_vr _)
macro_rules | `(tactic| vr_prim) => `(tactic| with_reducible exact popSub_vr)

theorem insertLabel_vr (h : UInt32) (pos : Nat) : VR (insertLabel h pos) := by
  unfold insertLabel; vr
macro_rules | `(tactic| vr_prim) => `(tactic| with_reducible exact insertLabel_vr _ _)


theorem scopeBegin_vr : VR scopeBegin := by unfold scopeBegin; vr
macro_rules | `(tactic| vr_prim) => `(tactic| with_reducible exact scopeBegin_vr)

theorem scopeEnd_vr : VR scopeEnd := by unfold scopeEnd; vr
macro_rules | `(tactic| vr_prim) => `(tactic| with_reducible exact scopeEnd_vr)

theorem addLocalUnchecked_vr (n : String) : VR (addLocalUnchecked n) := by
  unfold addLocalUnchecked; vr
macro_rules | `(tactic| vr_prim) => `(tactic| with_reducible exact addLocalUnchecked_vr _)

theorem validateVarName_vr (n : String) : VR (validateVarName n) := by
  unfold validateVarName; vr
macro_rules | `(tactic| vr_prim) => `(tactic| with_reducible exact validateVarName_vr _)

theorem addLocal_vr (n : String) : VR (addLocal n) := by
  unfold addLocal; vr
macro_rules | `(tactic| vr_prim) => `(tactic| with_reducible exact addLocal_vr _)

theorem addUpvalue_vr (i : UInt8) (l : Bool) (f : Nat) : VR (addUpvalue i l f) := by
  unfold addUpvalue; vr
macro_rules | `(tactic| vr_prim) => `(tactic| with_reducible exact addUpvalue_vr _ _ _)

theorem resolveUpvalue_vr (n : String) : ∀ fid, VR (resolveUpvalue n fid)
  | 0 => by unfold resolveUpvalue; vr
  | fid+1 => by
    have ih := resolveUpvalue_vr n fid
    unfold resolveUpvalue; vr
macro_rules | `(tactic| vr_prim) => `(tactic| with_reducible exact resolveUpvalue_vr _ _)

theorem resolveVar_vr (n : String) : VR (resolveVar n) := by
  unfold resolveVar; vr
macro_rules | `(tactic| vr_prim) => `(tactic| with_reducible exact resolveVar_vr _)

theorem readLocalVar_vr (i : Nat) : VR (readLocalVar i) := by unfold readLocalVar; vr
theorem writeLocalVar_vr (i : Nat) : VR (writeLocalVar i) := by unfold writeLocalVar; vr
theorem readUpvalue_vr (i : Nat) : VR (readUpvalue i) := by unfold readUpvalue; vr
theorem writeUpvalue_vr (i : Nat) : VR (writeUpvalue i) := by unfold writeUpvalue; vr
macro_rules | `(tactic| vr_prim) => `(tactic| with_reducible exact readLocalVar_vr _)
macro_rules | `(tactic| vr_prim) => `(tactic| with_reducible exact writeLocalVar_vr _)
macro_rules | `(tactic| vr_prim) => `(tactic| with_reducible exact readUpvalue_vr _)
macro_rules | `(tactic| vr_prim) => `(tactic| with_reducible exact writeUpvalue_vr _)

theorem readProps_vr : ∀ ps, VR (readProps ps)
  | [] => by unfold readProps; vr
  | p :: ps => by
    have ih := readProps_vr ps
    unfold readProps; vr
macro_rules | `(tactic| vr_prim) => `(tactic| with_reducible exact readProps_vr _)

theorem readVarCard_vr (x : String) : VR (readVarCard x) := by unfold readVarCard; vr
macro_rules | `(tactic| vr_prim) => `(tactic| with_reducible exact readVarCard_vr _)

theorem resolveFunction_vr (x : String) : VR (resolveFunction x) := by
  unfold resolveFunction; vr
macro_rules | `(tactic| vr_prim) => `(tactic| with_reducible exact resolveFunction_vr _)

theorem encodeJump_vr (x : String) : VR (encodeJump x) := by unfold encodeJump; vr
macro_rules | `(tactic| vr_prim) => `(tactic| with_reducible exact encodeJump_vr _)


/-! ### the combinators of `processCard` -/

theorem cardLabel_vr : VR cardLabel := by unfold cardLabel; vr
macro_rules | `(tactic| vr_prim) => `(tactic| with_reducible exact cardLabel_vr)

theorem withSub_vr {i : Nat} {m : CM Unit} (hm : VR m) : VR (withSub i m) := by
  unfold withSub; vr
macro_rules | `(tactic| vr_prim) => `(tactic| with_reducible apply withSub_vr)

theorem encodeIfThen_vr {skip : UInt8} {m : CM Unit} (hm : VR m) :
    VR (encodeIfThen skip m) := by
  unfold encodeIfThen; vr
macro_rules | `(tactic| vr_prim) => `(tactic| with_reducible apply encodeIfThen_vr)

theorem encodeIfThenRet_vr {skip : UInt8} {m : CM Nat} (hm : VR m) :
    VR (encodeIfThenRet skip m) := by
  unfold encodeIfThenRet; vr
macro_rules | `(tactic| vr_prim) => `(tactic| with_reducible apply encodeIfThenRet_vr)

theorem addLocals_vr : ∀ ps, VR (addLocals ps)
  | [] => by unfold addLocals; vr
  | p :: ps => by
    have ih := addLocals_vr ps
    unfold addLocals; vr
macro_rules | `(tactic| vr_prim) => `(tactic| with_reducible exact addLocals_vr _)

theorem emitUpvalues_vr : ∀ ups, VR (emitUpvalues ups)
  | [] => by unfold emitUpvalues; vr
  | (l, i) :: rest => by
    have ih := emitUpvalues_vr rest
    unfold emitUpvalues; vr
macro_rules | `(tactic| vr_prim) => `(tactic| with_reducible exact emitUpvalues_vr _)

theorem scalarIntCode_vr (i : Int64) : VR (scalarIntCode i) := by
  unfold scalarIntCode; vr
macro_rules | `(tactic| vr_prim) => `(tactic| with_reducible exact scalarIntCode_vr _)

theorem processScalarInt_vr (i : Int64) : VR (processScalarInt i) := by
  unfold processScalarInt; vr
macro_rules | `(tactic| vr_prim) => `(tactic| with_reducible exact processScalarInt_vr _)

theorem bindLoopVar_vr (n : Option String) (src : Nat) : VR (bindLoopVar n src) := by
  unfold bindLoopVar; vr
macro_rules | `(tactic| vr_prim) => `(tactic| with_reducible exact bindLoopVar_vr _ _)

theorem forEachCode_vr {i kk v : Option String} {it body : CM Unit}
    (h1 : VR it) (h2 : VR body) : VR (forEachCode i kk v it body) := by
  unfold forEachCode; vr

theorem whileCode_vr {c b : CM Unit} (h1 : VR c) (h2 : VR b) :
    VR (whileCode c b) := by
  unfold whileCode; vr

theorem repeatCode_vr {i : Option String} {n b : CM Unit} (h1 : VR n) (h2 : VR b) :
    VR (repeatCode i n b) := by
  unfold repeatCode; vr

theorem setVarTarget_vr (n : String) : VR (setVarTarget n) := by
  unfold setVarTarget; vr
macro_rules | `(tactic| vr_prim) => `(tactic| with_reducible exact setVarTarget_vr _)

theorem setVarCode_vr {n : String} {v : CM Unit} (h : VR v) : VR (setVarCode n v) := by
  unfold setVarCode; vr

theorem setGlobalVarCode_vr {n : String} {v : CM Unit} (h : VR v) :
    VR (setGlobalVarCode n v) := by
  unfold setGlobalVarCode; vr

theorem ifElseCode_vr {c t e : CM Unit} (h1 : VR c) (h2 : VR t) (h3 : VR e) :
    VR (ifElseCode c t e) := by
  unfold ifElseCode; vr

theorem ifCode_vr {skip : UInt8} {c b : CM Unit} (h1 : VR c) (h2 : VR b) :
    VR (ifCode skip c b) := by
  unfold ifCode; vr

theorem callCode_vr {n : String} {a : CM Unit} (h : VR a) : VR (callCode n a) := by
  unfold callCode; vr

theorem callNativeCode_vr {n : String} {a : CM Unit} (h : VR a) :
    VR (callNativeCode n a) := by
  unfold callNativeCode; vr

theorem compileBegin_vr : VR compileBegin := by unfold compileBegin; vr
theorem compileEnd_vr : VR compileEnd := by unfold compileEnd; vr
macro_rules | `(tactic| vr_prim) => `(tactic| with_reducible exact compileBegin_vr)
macro_rules | `(tactic| vr_prim) => `(tactic| with_reducible exact compileEnd_vr)

theorem closureCode_vr {args : List String} {b : CM Unit} (h : VR b) :
    VR (closureCode args b) := by
  unfold closureCode; vr

theorem arrayCode_vr {items : Nat → CM Unit} (h : ∀ tv, VR (items tv)) :
    VR (arrayCode items) := by
  unfold arrayCode; vr
  exact h _

theorem unCode_vr {u : UnKind} {c : CM Unit} (h : VR c) : VR (unCode u c) := by
  unfold unCode; vr

theorem binCode_vr {bk : BinKind} {a b : CM Unit} (h1 : VR a) (h2 : VR b) :
    VR (binCode bk a b) := by
  unfold binCode
  split
  · exact whileCode_vr h1 h2
  · exact ifCode_vr h1 h2
  · exact ifCode_vr h1 h2
  · vr

theorem triCode_vr {tk : TriKind} {a b c : CM Unit} (h1 : VR a) (h2 : VR b)
    (h3 : VR c) : VR (triCode tk a b c) := by
  unfold triCode
  split
  · exact ifElseCode_vr h1 h2 h3
  · vr

theorem dynamicCallCode_vr {a f : CM Unit} (h1 : VR a) (h2 : VR f) :
    VR (dynamicCallCode a f) := by
  unfold dynamicCallCode; vr


macro_rules | `(tactic| vr_prim) => `(tactic| with_reducible apply forEachCode_vr)
macro_rules | `(tactic| vr_prim) => `(tactic| with_reducible apply repeatCode_vr)
macro_rules | `(tactic| vr_prim) => `(tactic| with_reducible apply setVarCode_vr)
macro_rules | `(tactic| vr_prim) => `(tactic| with_reducible apply setGlobalVarCode_vr)
macro_rules | `(tactic| vr_prim) => `(tactic| with_reducible apply callCode_vr)
macro_rules | `(tactic| vr_prim) => `(tactic| with_reducible apply callNativeCode_vr)
macro_rules | `(tactic| vr_prim) => `(tactic| with_reducible apply closureCode_vr)
macro_rules | `(tactic| vr_prim) => `(tactic| with_reducible apply arrayCode_vr)
macro_rules | `(tactic| vr_prim) => `(tactic| with_reducible apply unCode_vr)
macro_rules | `(tactic| vr_prim) => `(tactic| with_reducible apply binCode_vr)
macro_rules | `(tactic| vr_prim) => `(tactic| with_reducible apply triCode_vr)
macro_rules | `(tactic| vr_prim) => `(tactic| with_reducible apply dynamicCallCode_vr)

/-- all three recursive functions extend the state -/
theorem processCard_vr_all :
    (∀ c, VR (processCard c)) ∧
    (∀ tv i cs, VR (processArrayItems tv i cs)) ∧
    (∀ i cs, VR (compileSubexprFrom i cs)) := by
  apply processCard.mutual_induct
    (motive_1 := fun c => VR (processCard c))
    (motive_2 := fun tv i cs => VR (processArrayItems tv i cs))
    (motive_3 := fun i cs => VR (compileSubexprFrom i cs))
  all_goals
    intros
    simp only [processCard, processArrayItems, compileSubexprFrom]
    vr

theorem processCard_vr (c : Card) : VR (processCard c) := processCard_vr_all.1 c
theorem processArrayItems_vr (tv i : Nat) (cs : List Card) :
    VR (processArrayItems tv i cs) := processCard_vr_all.2.1 tv i cs
theorem compileSubexprFrom_vr (i : Nat) (cs : List Card) :
    VR (compileSubexprFrom i cs) := processCard_vr_all.2.2 i cs
theorem compileSubexpr_vr (cs : List Card) : VR (compileSubexpr cs) :=
  compileSubexprFrom_vr 0 cs


theorem processFunctionCards_vr : ∀ i cs, VR (processFunctionCards i cs)
  | _, [] => by unfold processFunctionCards; vr
  | i, c :: cs => by
    have ih := processFunctionCards_vr (i + 1) cs
    have hc := processCard_vr c
    unfold processFunctionCards; vr
macro_rules | `(tactic| vr_prim) => `(tactic| with_reducible exact processFunctionCards_vr _ _)

theorem processFunction_vr (f : FunctionIr) : VR (processFunction f) := by
  unfold processFunction; vr
macro_rules | `(tactic| vr_prim) => `(tactic| with_reducible exact processFunction_vr _)

theorem addFunction_vr (f : FunctionIr) : VR (addFunction f) := by
  unfold addFunction; vr
macro_rules | `(tactic| vr_prim) => `(tactic| with_reducible exact addFunction_vr _)

theorem addFunctions_vr : ∀ fs, VR (addFunctions fs)
  | [] => by unfold addFunctions; vr
  | f :: fs => by
    have ih := addFunctions_vr fs
    unfold addFunctions; vr
macro_rules | `(tactic| vr_prim) => `(tactic| with_reducible exact addFunctions_vr _)

theorem compileFunction_vr (f : FunctionIr) : VR (compileFunction f) := by
  unfold compileFunction; vr
macro_rules | `(tactic| vr_prim) => `(tactic| with_reducible exact compileFunction_vr _)

theorem compileFunctions_vr : ∀ fs, VR (compileFunctions fs)
  | [] => by unfold compileFunctions; vr
  | f :: fs => by
    have ih := compileFunctions_vr fs
    unfold compileFunctions; vr
macro_rules | `(tactic| vr_prim) => `(tactic| with_reducible exact compileFunctions_vr _)

theorem compileUnit_vr (unit : Array FunctionIr) : VR (compileUnit unit) := by
  have hc := processCard_vr .abort
  unfold compileUnit; vr
/-! ## running the emission primitives -/

theorem pushInstr_eq (o : UInt8) (s : CState) :
    pushInstr o s = .ok ((), { s with
      trace := s.trace ++ [(s.bytecode.size, { ns := s.ns, function := s.curFunction, indices := s.curIndices })],
      bytecode := s.bytecode.push o }) := rfl

theorem emitBytes_eq (bs : List UInt8) (s : CState) :
    emitBytes bs s = .ok ((), { s with bytecode := s.bytecode ++ bs.toArray }) := by
  show Except.ok ((), { s with bytecode := bs.foldl (fun a b => a.push b) s.bytecode }) = _
  rw [foldl_push_eq]

theorem cardLabel_ok {a : Unit} {s s0 : CState} (h : cardLabel s = .ok (a, s0)) :
    s0 = { s with labels := s.labels ++ [(indexHandle s.curFunction s.curIndices, s.bytecode.size)] } := by
  unfold cardLabel insertLabel at h
  obtain ⟨s1, s2, h0, h1⟩ := bind_ok.1 h
  simp only [get_run, Except.ok.injEq, Prod.mk.injEq] at h0
  obtain ⟨rfl, rfl⟩ := h0
  split at h1
  · obtain ⟨_, _, h2, _⟩ := bind_ok.1 h1
    simp at h2
  · simp only [modify_run, Except.ok.injEq, Prod.mk.injEq, true_and] at h1
    exact h1.symm

theorem withSub_ok {i : Nat} {m : CM Unit} {a : Unit} {s s' : CState} (h : withSub i m s = .ok (a, s')) :
    ∃ s1, m { s with curIndices := s.curIndices ++ [i] } = .ok ((), s1) ∧
      s' = { s1 with curIndices := s1.curIndices.dropLast } := by
  unfold withSub pushSub popSub at h
  obtain ⟨_, s0, h0, h1⟩ := bind_ok.1 h
  obtain ⟨_, s1, h2, h3⟩ := bind_ok.1 h1
  simp only [modify_run, Except.ok.injEq, Prod.mk.injEq, true_and] at h0 h3
  subst h0 h3
  exact ⟨s1, h2, rfl⟩

/-! ## which bytes of the final program were written by which part of the compilation -/

/-- the bytes in `[lo, hi)` are the same in `s` and `s'`, and the bytecode did not shrink -/
structure Keep (lo hi : Nat) (s s' : CState) : Prop where
  size_le : s.bytecode.size ≤ s'.bytecode.size
  same : ∀ i, lo ≤ i → i < hi → s'.bytecode[i]? = s.bytecode[i]?

theorem Keep.refl (lo hi : Nat) (s : CState) : Keep lo hi s s := ⟨Nat.le_refl _, fun _ _ _ => rfl⟩

theorem Keep.trans {lo hi : Nat} {s s1 s2 : CState} (h1 : Keep lo hi s s1) (h2 : Keep lo hi s1 s2) :
    Keep lo hi s s2 :=
  ⟨Nat.le_trans h1.size_le h2.size_le, fun i a b => by rw [h2.same i a b, h1.same i a b]⟩

theorem Keep.weaken {lo hi lo' hi' : Nat} {s s' : CState} (h : Keep lo hi s s') (h1 : lo ≤ lo') (h2 : hi' ≤ hi) :
    Keep lo' hi' s s' :=
  ⟨h.size_le, fun i a b => h.same i (by omega) (by omega)⟩

theorem Keep.of_bytecode_eq {lo hi : Nat} {s s' : CState} (h : s'.bytecode = s.bytecode) : Keep lo hi s s' :=
  ⟨by rw [h]; exact Nat.le_refl _, fun _ _ _ => by rw [h]⟩

theorem Ext.keep {k lo : Nat} {s s' : CState} (h : Ext k s s') : Keep lo k s s' :=
  ⟨h.size_le, fun i _ hi => h.pref i hi⟩

theorem MonoV.keep {α : Type} {k lo : Nat} {Q : α → Prop} {m : CM α} (hm : MonoV k Q m) {s s' : CState} {a : α}
    (h : m s = .ok (a, s')) (hk : k ≤ s.bytecode.size) : Keep lo k s s' :=
  (hm.run s a s' h hk).1.keep

/-- the final bytecode `B` agrees with the bytecode of the compiler state `s` from `lo` on -/
structure AgreeFrom (B : Array UInt8) (s : CState) (lo : Nat) : Prop where
  size_le : s.bytecode.size ≤ B.size
  same : ∀ i, lo ≤ i → i < s.bytecode.size → B[i]? = s.bytecode[i]?

theorem AgreeFrom.back {B : Array UInt8} {s1 s' : CState} {lo lo1 : Nat} (h : AgreeFrom B s' lo)
    (hk : Keep lo1 s1.bytecode.size s1 s') (hlo : lo ≤ lo1) : AgreeFrom B s1 lo1 :=
  ⟨Nat.le_trans hk.size_le h.size_le, fun i a b => by
    rw [h.same i (by omega) (Nat.lt_of_lt_of_le b hk.size_le), hk.same i a b]⟩

theorem AgreeFrom.getD {B : Array UInt8} {s : CState} {lo : Nat} (h : AgreeFrom B s lo) {i : Nat}
    (h1 : lo ≤ i) (h2 : i < s.bytecode.size) : B.getD i 0 = s.bytecode.getD i 0 := by
  have := h.same i h1 h2
  simp only [Array.getD_eq_getD_getElem?, this]

theorem getD_push_append_left (a : Array UInt8) (o : UInt8) (bs : Array UInt8) :
    (a.push o ++ bs).getD a.size 0 = o := by
  simp [Array.getD_eq_getD_getElem?, Array.getElem?_append]

theorem getD_push_append_right (a : Array UInt8) (o : UInt8) (bs : List UInt8) (j : Nat) (hj : j < bs.length) :
    (a.push o ++ bs.toArray).getD (a.size + 1 + j) 0 = bs.getD j 0 := by
  simp [Array.getD_eq_getD_getElem?, Array.getElem?_append, hj, List.getD_eq_getElem?_getD]
  rw [if_neg (by omega), show a.size + 1 + j - a.size = j + 1 by omega]
  simp [hj]


end Cao.Compiler

namespace Cao.Sim
open Cao Cao.Vm

/-- a variable name without property path -/
def simpleName (n : String) : Bool := decide (n.splitOn "." = [n]) && !n.isEmpty

/-- value-producing cards of the fragment: literals, operators, reads of (global) variables -/
def isExpr : Card → Bool
  | .scalarInt _ | .scalarFloat _ | .scalarNil => true
  | .un .not c => isExpr c
  | .bin k a b => isValOp k && isExpr a && isExpr b
  | .readVar n => simpleName n
  | _ => false

mutual
  /-- statement cards of the fragment -/
  def isStmt : Card → Bool
    | .setGlobalVar n e => !n.isEmpty && isExpr e
    | .bin .ifTrue c b => isExpr c && isStmt b
    | .bin .ifFalse c b => isExpr c && isStmt b
    | .bin .while c b => isExpr c && isStmt b
    | .tri .ifElse c t e => isExpr c && isStmt t && isStmt e
    | .composite _ cs => isStmts cs
    | .comment _ => true
    | _ => false
  def isStmts : List Card → Bool
    | [] => true
    | c :: cs => isStmt c && isStmts cs
end

/-- id of the global `n` in the variable table `F` of the compiled program -/
def gidOf (F : List (UInt32 × Nat)) (n : String) : Option Nat :=
  (F.find? (fun p => p.1 == Vm.hName n)).map (·.2)

section code
variable (B : Array UInt8) (F : List (UInt32 × Nat))


/-- `B` contains, between `pc` and `pc'`, the code of the expression card -/
def ECode : Card → Nat → Nat → Prop
  | .scalarInt i, pc, pc' => B.getD pc 0 = Compiler.op.scalarInt ∧ rdU64 B (pc + 1) = i.toUInt64 ∧ pc' = pc + 9
  | .scalarFloat b, pc, pc' => B.getD pc 0 = Compiler.op.scalarFloat ∧ rdU64 B (pc + 1) = b ∧ pc' = pc + 9
  | .scalarNil, pc, pc' => B.getD pc 0 = Compiler.op.scalarNil ∧ pc' = pc + 1
  | .un .not c, pc, pc' => ∃ m, ECode c pc m ∧ B.getD m 0 = Compiler.op.not ∧ pc' = m + 1
  | .bin k a b, pc, pc' => ∃ m1 m2, ECode a pc m1 ∧ ECode b m1 m2 ∧ B.getD m2 0 = Compiler.binOp k ∧ pc' = m2 + 1
  | .readVar n, pc, pc' => ∃ id, gidOf F n = some id ∧ B.getD pc 0 = Compiler.op.readGlobalVar ∧
      rdU32 B (pc + 1) = id ∧ pc' = pc + 5
  | _, _, _ => False

mutual
  /-- `B` contains, between `pc` and `pc'`, the code of the statement card (jump operands are
      absolute addresses) -/
  def SCode : Card → Nat → Nat → Prop
    | .setGlobalVar n e, pc, pc' => ∃ m id, ECode B F e pc m ∧ B.getD m 0 = Compiler.op.setGlobalVar ∧
        gidOf F n = some id ∧ rdU32 B (m + 1) = id ∧ pc' = m + 5
    | .bin .ifTrue c b, pc, pc' => ∃ m, ECode B F c pc m ∧ B.getD m 0 = Compiler.op.gotoIfFalse ∧
        rdU32 B (m + 1) = pc' ∧ SCode b (m + 5) pc'
    | .bin .ifFalse c b, pc, pc' => ∃ m, ECode B F c pc m ∧ B.getD m 0 = Compiler.op.gotoIfTrue ∧
        rdU32 B (m + 1) = pc' ∧ SCode b (m + 5) pc'
    | .bin .while c b, pc, pc' => ∃ m1 m2, ECode B F c pc m1 ∧ B.getD m1 0 = Compiler.op.gotoIfFalse ∧
        rdU32 B (m1 + 1) = pc' ∧ SCode b (m1 + 5) m2 ∧ B.getD m2 0 = Compiler.op.goto ∧
        rdU32 B (m2 + 1) = pc ∧ pc' = m2 + 5
    | .tri .ifElse c t e, pc, pc' => ∃ m1 m2, ECode B F c pc m1 ∧ B.getD m1 0 = Compiler.op.gotoIfFalse ∧
        rdU32 B (m1 + 1) = m2 + 5 ∧ SCode t (m1 + 5) m2 ∧ B.getD m2 0 = Compiler.op.goto ∧
        rdU32 B (m2 + 1) = pc' ∧ SCode e (m2 + 5) pc'
    | .composite _ cs, pc, pc' => SCodes cs pc pc'
    | .comment _, pc, pc' => pc' = pc
    | _, _, _ => False
  def SCodes : List Card → Nat → Nat → Prop
    | [], pc, pc' => pc' = pc
    | c :: cs, pc, pc' => ∃ m, SCode c pc m ∧ SCodes cs m pc'
end
end code
end Cao.Sim

namespace Cao.Compiler
open Cao Cao.Sim

/-- compiling the top level of `main`: no enclosing function, no locals -/
structure NoLoc (s : CState) : Prop where
  fid : s.functionId = 0
  none : s.locals.getD 0 [] = []

theorem resolveVar_global {n : String} {s : CState} (hn : n.isEmpty = false) (hl : NoLoc s) :
    resolveVar n s = .ok (.global, s) := by
  have h0 := hl.none
  simp only [List.getD_eq_getElem?_getD] at h0
  unfold resolveVar validateVarName
  simp [hn, bind, StateT.bind, Except.bind, pure, StateT.pure, Except.pure, get, getThe, MonadStateOf.get, StateT.get,
    hl.fid, h0, resolveUpvalue]

theorem find?_append_of_some {α : Type} {p : α → Bool} {l t : List α} {a : α} (h : l.find? p = some a) :
    (l ++ t).find? p = some a := by
  rw [List.find?_append, h]; rfl

theorem globalId_ok {n : String} {s s1 : CState} {id : Nat} (h : globalId n s = .ok (id, s1)) :
    s1 = { s with varIds := s1.varIds, nextVar := s1.nextVar, varNames := s1.varNames } ∧
    ∃ h', s1.varIds.find? (fun p => p.1 == Vm.hName n) = some (h', id) := by
  unfold globalId at h
  split at h
  · obtain ⟨_, _, h2, _⟩ := bind_ok.1 h
    simp at h2
  · obtain ⟨s0, s0', h0, h1⟩ := bind_ok.1 h
    simp only [get_run, Except.ok.injEq, Prod.mk.injEq] at h0
    obtain ⟨rfl, rfl⟩ := h0
    have jp : ∀ (idv : Nat) (sa sb : CState) (r : Nat),
        (do
          let s ← (get : CM CState)
          have __do_jp : Unit → CM Nat := fun __r => pure idv
          if (!s.varNames.any fun p => p.fst == Hash.handleFromU32 (UInt32.ofNat idv)) = true then do
              let __r ←
                modify fun (s : CState) =>
                    { s with varNames := s.varNames ++ [(Hash.handleFromU32 (UInt32.ofNat idv), n)] }
              __do_jp __r
            else __do_jp ()) sa = .ok (r, sb) → r = idv ∧ sb = { sa with varNames := sb.varNames } := by
      intro idv sa sb r hj
      obtain ⟨s4, s4', h6, h7⟩ := bind_ok.1 hj
      simp only [get_run, Except.ok.injEq, Prod.mk.injEq] at h6
      obtain ⟨rfl, rfl⟩ := h6
      split at h7
      · obtain ⟨_, s5, h8, h9⟩ := bind_ok.1 h7
        simp only [modify_run, pure_run, Except.ok.injEq, Prod.mk.injEq, true_and] at h8 h9
        obtain ⟨rfl, rfl⟩ := h9
        subst h8
        exact ⟨rfl, rfl⟩
      · simp only [pure_run, Except.ok.injEq, Prod.mk.injEq] at h7
        obtain ⟨rfl, rfl⟩ := h7
        exact ⟨rfl, rfl⟩
    rcases hfind : List.find? (fun p => p.fst == Hash.handleFromBytes n.toUTF8.toList) s.varIds with _ | ⟨hd, id'⟩
    · simp only [hfind] at h1
      obtain ⟨_, s3, h4, h5⟩ := bind_ok.1 h1
      simp only [modify_run, Except.ok.injEq, Prod.mk.injEq, true_and] at h4
      subst h4
      obtain ⟨id2, s6, h6, h7⟩ := bind_ok.1 h5
      simp only [pure_run, Except.ok.injEq, Prod.mk.injEq] at h6
      obtain ⟨rfl, rfl⟩ := h6
      obtain ⟨rfl, k⟩ := jp _ _ _ _ h7
      refine ⟨by rw [k], Hash.handleFromBytes n.toUTF8.toList, ?_⟩
      rw [k]
      show List.find? _ (s.varIds ++ [_]) = _
      rw [List.find?_append]
      unfold Vm.hName
      rw [hfind]
      simp
    · simp only [hfind] at h1
      obtain ⟨id2, s6, h6, h7⟩ := bind_ok.1 h1
      simp only [pure_run, Except.ok.injEq, Prod.mk.injEq] at h6
      obtain ⟨rfl, rfl⟩ := h6
      obtain ⟨rfl, k⟩ := jp _ _ _ _ h7
      refine ⟨by rw [k], hd, ?_⟩
      rw [k]
      exact hfind


theorem agree_instr {B : Array UInt8} {s' : CState} {a : Array UInt8} {o : UInt8} {bs : List UInt8}
    (hb : s'.bytecode = a.push o ++ bs.toArray) (hag : AgreeFrom B s' a.size) :
    B.getD a.size 0 = o ∧ (∀ j, j < bs.length → B.getD (a.size + 1 + j) 0 = bs.getD j 0) ∧
    s'.bytecode.size = a.size + 1 + bs.length := by
  have hsz : s'.bytecode.size = a.size + 1 + bs.length := by rw [hb]; simp; omega
  refine ⟨?_, ?_, hsz⟩
  · rw [hag.getD (Nat.le_refl _) (by omega), hb, getD_push_append_left]
  · intro j hj
    rw [hag.getD (by omega) (by omega), hb, getD_push_append_right _ _ _ _ hj]

theorem le32_length (x : UInt32) : (le32 x).length = 4 := by simp [le32, Hash.le32]
theorem le64_length (x : UInt64) : (le64 x).length = 8 := by simp [le64, Hash.le64]

/-- the scoping bookkeeping is unchanged -/
structure QL (s s' : CState) : Prop where
  locals : s'.locals = s.locals
  fid : s'.functionId = s.functionId
  depth : s'.scopeDepth = s.scopeDepth
  jt : s'.jumpTable = s.jumpTable

/-- the global-variable table and the data segment are unchanged -/
structure QV (s s' : CState) : Prop where
  ids : s'.varIds = s.varIds
  next : s'.nextVar = s.nextVar
  data : s'.data = s.data

theorem QL.refl (s : CState) : QL s s := ⟨rfl, rfl, rfl, rfl⟩
theorem QV.refl (s : CState) : QV s s := ⟨rfl, rfl, rfl⟩
theorem QL.trans {a b c : CState} (h1 : QL a b) (h2 : QL b c) : QL a c :=
  ⟨h2.locals.trans h1.locals, h2.fid.trans h1.fid, h2.depth.trans h1.depth, h2.jt.trans h1.jt⟩
theorem QV.trans {a b c : CState} (h1 : QV a b) (h2 : QV b c) : QV a c :=
  ⟨h2.ids.trans h1.ids, h2.next.trans h1.next, h2.data.trans h1.data⟩

theorem NoLoc.of_ql {s s' : CState} (h : NoLoc s) (q : QL s s') : NoLoc s' :=
  ⟨q.fid.trans h.fid, by rw [q.locals]; exact h.none⟩

theorem pushInstr_ok {o : UInt8} {s s' : CState} {a : Unit} (h : pushInstr o s = .ok (a, s')) :
    s'.bytecode = s.bytecode.push o ∧ QL s s' ∧ QV s s' := by
  rw [pushInstr_eq] at h
  simp only [Except.ok.injEq, Prod.mk.injEq, true_and] at h
  subst h
  exact ⟨rfl, ⟨rfl, rfl, rfl, rfl⟩, ⟨rfl, rfl, rfl⟩⟩

theorem emitBytes_ok {bs : List UInt8} {s s' : CState} {a : Unit} (h : emitBytes bs s = .ok (a, s')) :
    s'.bytecode = s.bytecode ++ bs.toArray ∧ QL s s' ∧ QV s s' := by
  rw [emitBytes_eq] at h
  simp only [Except.ok.injEq, Prod.mk.injEq, true_and] at h
  subst h
  exact ⟨rfl, ⟨rfl, rfl, rfl, rfl⟩, ⟨rfl, rfl, rfl⟩⟩

theorem cardLabel_ok' {s s' : CState} {a : Unit} (h : cardLabel s = .ok (a, s')) :
    s'.bytecode = s.bytecode ∧ QL s s' ∧ QV s s' := by
  have := cardLabel_ok h
  subst this
  exact ⟨rfl, ⟨rfl, rfl, rfl, rfl⟩, ⟨rfl, rfl, rfl⟩⟩

theorem withSub_ok' {i : Nat} {m : CM Unit} {a : Unit} {s s' : CState} (h : withSub i m s = .ok (a, s')) :
    ∃ sa s1, m sa = .ok ((), s1) ∧ sa.bytecode = s.bytecode ∧ QL s sa ∧ QV s sa ∧
      s'.bytecode = s1.bytecode ∧ QL s1 s' ∧ QV s1 s' := by
  obtain ⟨s1, h1, rfl⟩ := withSub_ok h
  exact ⟨_, s1, h1, rfl, ⟨rfl, rfl, rfl, rfl⟩, ⟨rfl, rfl, rfl⟩, rfl, ⟨rfl, rfl, rfl, rfl⟩, ⟨rfl, rfl, rfl⟩⟩

theorem globalId_ok' {n : String} {s s1 : CState} {id : Nat} (h : globalId n s = .ok (id, s1)) :
    s1.bytecode = s.bytecode ∧ QL s s1 ∧ s1.data = s.data ∧
    ∃ h', s1.varIds.find? (fun p => p.1 == Vm.hName n) = some (h', id) := by
  obtain ⟨h1, h2⟩ := globalId_ok h
  refine ⟨by rw [h1], ⟨by rw [h1], by rw [h1], by rw [h1], by rw [h1]⟩, by rw [h1], h2⟩

theorem Keep.of_append {lo : Nat} {s s' : CState} {bs : Array UInt8} (h : s'.bytecode = s.bytecode ++ bs) :
    Keep lo s.bytecode.size s s' :=
  ⟨by rw [h]; simp, fun i _ hi => by rw [h, Array.getElem?_append_left hi]⟩

theorem Keep.of_push {lo : Nat} {s s' : CState} {o : UInt8} (h : s'.bytecode = s.bytecode.push o) :
    Keep lo s.bytecode.size s s' :=
  Keep.of_append (bs := #[o]) (by rw [h, Array.push_eq_append])

theorem AgreeFrom.weaken {B : Array UInt8} {s : CState} {lo lo' : Nat} (h : AgreeFrom B s lo) (hl : lo ≤ lo') :
    AgreeFrom B s lo' :=
  ⟨h.size_le, fun i a b => h.same i (by omega) b⟩

theorem vpre_back {F : List (UInt32 × Nat)} {s1 s' : CState} (h : ∃ t, F = s'.varIds ++ t) (hv : VExt s1 s') :
    ∃ t, F = s1.varIds ++ t := by
  obtain ⟨t, ht⟩ := h
  obtain ⟨t', ht'⟩ := hv.ids
  exact ⟨t' ++ t, by rw [ht, ht', List.append_assoc]⟩

theorem binCode_valop (k : BinKind) (hk : isValOp k = true) (a b : CM Unit) :
    binCode k a b = (do withSub 0 a; withSub 1 b; pushInstr (binOp k)) := by
  cases k <;> simp only [isValOp, Bool.false_eq_true] at hk <;> rfl

theorem agree_op {B : Array UInt8} {s' : CState} {a : Array UInt8} {o : UInt8} {lo : Nat}
    (hb : s'.bytecode = a.push o) (hag : AgreeFrom B s' lo) (hlo : lo ≤ a.size) :
    B.getD a.size 0 = o ∧ s'.bytecode.size = a.size + 1 := by
  obtain ⟨h1, _, h3⟩ := agree_instr (o := o) (bs := []) (by rw [hb]; simp) (hag.weaken hlo)
  exact ⟨h1, by simpa using h3⟩


theorem processCard_size_le {c : Card} {s s' : CState} (h : processCard c s = .ok ((), s')) :
    s.bytecode.size ≤ s'.bytecode.size :=
  ((processCard_mono (k := 0) c).run _ _ _ h (Nat.zero_le _)).1.size_le

theorem ecode_of_processCard (B : Array UInt8) (F : List (UInt32 × Nat))
    (hF : ∀ p ∈ F, p.2 < 4294967296) :
    ∀ (e : Card), isExpr e = true → ∀ (s s' : CState), processCard e s = .ok ((), s') → NoLoc s →
      AgreeFrom B s' s.bytecode.size → (∃ t, F = s'.varIds ++ t) →
      NoLoc s' ∧ ECode B F e s.bytecode.size s'.bytecode.size
  | .scalarInt i => by
    intro _ s s' h hl hag _
    simp only [processCard] at h
    obtain ⟨_, s0, h0, h1⟩ := bind_ok.1 h
    obtain ⟨b0, l0, v0⟩ := cardLabel_ok' h0
    unfold scalarIntCode at h1
    obtain ⟨_, s1, h2, h3⟩ := bind_ok.1 h1
    obtain ⟨b1, l1, v1⟩ := pushInstr_ok h2
    obtain ⟨b2, l2, v2⟩ := emitBytes_ok h3
    obtain ⟨a1, a2, a3⟩ := agree_instr (a := s.bytecode) (by rw [b2, b1, b0]) hag
    refine ⟨hl.of_ql ((l0.trans l1).trans l2), ?_⟩
    simp only [ECode]
    refine ⟨a1, ?_, ?_⟩
    · exact Sim.rdU64_eq _ _ _ (fun j hj => a2 j (by rw [le64_length]; exact hj))
    · rw [a3, le64_length]
  | .scalarFloat b => by
    intro _ s s' h hl hag _
    simp only [processCard] at h
    obtain ⟨_, s0, h0, h1⟩ := bind_ok.1 h
    obtain ⟨b0, l0, v0⟩ := cardLabel_ok' h0
    obtain ⟨_, s1, h2, h3⟩ := bind_ok.1 h1
    obtain ⟨b1, l1, v1⟩ := pushInstr_ok h2
    obtain ⟨b2, l2, v2⟩ := emitBytes_ok h3
    obtain ⟨a1, a2, a3⟩ := agree_instr (a := s.bytecode) (by rw [b2, b1, b0]) hag
    refine ⟨hl.of_ql ((l0.trans l1).trans l2), ?_⟩
    simp only [ECode]
    refine ⟨a1, ?_, ?_⟩
    · exact Sim.rdU64_eq _ _ _ (fun j hj => a2 j (by rw [le64_length]; exact hj))
    · rw [a3, le64_length]
  | .scalarNil => by
    intro _ s s' h hl hag _
    simp only [processCard] at h
    obtain ⟨_, s0, h0, h1⟩ := bind_ok.1 h
    obtain ⟨b0, l0, v0⟩ := cardLabel_ok' h0
    obtain ⟨b1, l1, v1⟩ := pushInstr_ok h1
    obtain ⟨a1, a3⟩ := agree_op (a := s.bytecode) (by rw [b1, b0]) hag (Nat.le_refl _)
    exact ⟨hl.of_ql (l0.trans l1), by simp only [ECode]; exact ⟨a1, a3⟩⟩
  | .un .not c => by
    intro he s s' h hl hag hv
    simp only [isExpr] at he
    simp only [processCard] at h
    obtain ⟨_, s0, h0, h1⟩ := bind_ok.1 h
    obtain ⟨b0, l0, v0⟩ := cardLabel_ok' h0
    unfold unCode at h1
    obtain ⟨_, s1', h2, h3⟩ := bind_ok.1 h1
    obtain ⟨sa, s1, h4, ba, la, va, b1, l1, v1⟩ := withSub_ok' h2
    obtain ⟨b3, l3, v3⟩ := pushInstr_ok h3
    have esz : sa.bytecode.size = s.bytecode.size := by rw [ba, b0]
    have hsz := processCard_size_le h4
    have hk : Keep s.bytecode.size s1.bytecode.size s1 s' := Keep.of_push (by rw [b3, b1])
    obtain ⟨hl1, hc⟩ := ecode_of_processCard B F hF c he sa s1 h4 (hl.of_ql (l0.trans la))
      (by rw [esz]; exact hag.back hk (Nat.le_refl _)) (by rw [← v1.ids, ← v3.ids]; exact hv)
    obtain ⟨a1, a3⟩ := agree_op (a := s1.bytecode) (by rw [b3, b1]) hag (by omega)
    refine ⟨hl1.of_ql (l1.trans l3), ?_⟩
    simp only [ECode]
    rw [esz] at hc
    exact ⟨_, hc, a1, a3⟩
  | .bin k a b => by
    intro he s s' h hl hag hv
    simp only [isExpr, Bool.and_eq_true] at he
    obtain ⟨⟨hk, hea⟩, heb⟩ := he
    simp only [processCard] at h
    obtain ⟨_, s0, h0, h1⟩ := bind_ok.1 h
    obtain ⟨b0, l0, v0⟩ := cardLabel_ok' h0
    rw [binCode_valop k hk] at h1
    obtain ⟨_, s1', h2, h3⟩ := bind_ok.1 h1
    obtain ⟨sa, s1, h4, ba, la, va, b1, l1, v1⟩ := withSub_ok' h2
    obtain ⟨_, s2', h5, h6⟩ := bind_ok.1 h3
    obtain ⟨sb, s2, h7, bb, lb, vb, b2, l2, v2⟩ := withSub_ok' h5
    obtain ⟨b3, l3, v3⟩ := pushInstr_ok h6
    have esa : sa.bytecode.size = s.bytecode.size := by rw [ba, b0]
    have esb : sb.bytecode.size = s1.bytecode.size := by rw [bb, b1]
    have hsz1 := processCard_size_le h4
    have hext2 := ((processCard_mono (k := sb.bytecode.size) b).run _ _ _ h7 (Nat.le_refl _)).1
    have hk2 : Keep s.bytecode.size s2.bytecode.size s2 s' := Keep.of_push (by rw [b3, b2])
    have hkb : Keep s.bytecode.size s1.bytecode.size s1 s2 :=
      ⟨by rw [← esb]; exact hext2.size_le, fun i _ hi => by
        rw [hext2.pref i (by rw [esb]; exact hi), bb, b1]⟩
    have hk1 : Keep s.bytecode.size s1.bytecode.size s1 s' :=
      hkb.trans (hk2.weaken (Nat.le_refl _) hkb.size_le)
    have hv2 := (processCard_vr b).run _ _ _ h7
    obtain ⟨hl1, hca⟩ := ecode_of_processCard B F hF a hea sa s1 h4 (hl.of_ql (l0.trans la))
      (by rw [esa]; exact hag.back hk1 (Nat.le_refl _))
      (by
        have : ∃ t, F = s2.varIds ++ t := by rw [← v2.ids, ← v3.ids]; exact hv
        obtain ⟨t, ht⟩ := vpre_back this hv2
        exact ⟨t, by rw [ht, vb.ids, v1.ids]⟩)
    obtain ⟨hl2, hcb⟩ := ecode_of_processCard B F hF b heb sb s2 h7 (hl1.of_ql (l1.trans lb))
      (by rw [esb]; exact hag.back (hk2.weaken (by omega) (Nat.le_refl _)) (by omega))
      (by rw [← v2.ids, ← v3.ids]; exact hv)
    obtain ⟨a1, a3⟩ := agree_op (a := s2.bytecode) (by rw [b3, b2]) hag (by have := hkb.size_le; omega)
    refine ⟨hl2.of_ql (l2.trans l3), ?_⟩
    simp only [ECode]
    rw [esa] at hca
    rw [esb] at hcb
    exact ⟨_, _, hca, hcb, a1, a3⟩
  | .readVar n => by
    intro he s s' h hl hag hv
    simp only [isExpr, simpleName, Bool.and_eq_true, decide_eq_true_eq, Bool.not_eq_true'] at he
    obtain ⟨hsplit, hne⟩ := he
    simp only [processCard] at h
    obtain ⟨_, s0, h0, h1⟩ := bind_ok.1 h
    obtain ⟨b0, l0, v0⟩ := cardLabel_ok' h0
    unfold readVarCard at h1
    simp only [hsplit] at h1
    obtain ⟨var, s0', h2, h3⟩ := bind_ok.1 h1
    rw [resolveVar_global hne (hl.of_ql l0)] at h2
    simp only [Except.ok.injEq, Prod.mk.injEq] at h2
    obtain ⟨rfl, rfl⟩ := h2
    simp only [readProps] at h3
    obtain ⟨id, s1, h4, h5⟩ := bind_ok.1 h3
    obtain ⟨b1, l1, d1, hd, hfind⟩ := globalId_ok' h4
    obtain ⟨_, s2, h6, h7⟩ := bind_ok.1 h5
    obtain ⟨b2, l2, v2⟩ := pushInstr_ok h6
    obtain ⟨_, s3, h8, h9⟩ := bind_ok.1 h7
    obtain ⟨b3, l3, v3⟩ := emitBytes_ok h8
    simp only [pure_run, Except.ok.injEq, Prod.mk.injEq, true_and] at h9
    subst h9
    obtain ⟨a1, a2, a3⟩ := agree_instr (a := s.bytecode) (by rw [b3, b2, b1, b0]) hag
    refine ⟨hl.of_ql (((l0.trans l1).trans l2).trans l3), ?_⟩
    have hgid : gidOf F n = some id := by
      obtain ⟨t, ht⟩ := hv
      unfold gidOf
      rw [ht, v3.ids, v2.ids, find?_append_of_some hfind]
      rfl
    have hlt : id < 4294967296 := by
      unfold gidOf at hgid
      rcases hf : List.find? (fun p => p.fst == Vm.hName n) F with _ | ⟨x⟩
      · rw [hf] at hgid; cases hgid
      · rw [hf] at hgid
        simp only [Option.map_some, Option.some.injEq] at hgid
        have := hF x (List.mem_of_find?_eq_some hf)
        omega
    simp only [ECode]
    refine ⟨id, hgid, a1, ?_, ?_⟩
    · rw [Sim.rdU32_eq _ _ (UInt32.ofNat id) (fun j hj => a2 j (by rw [le32_length]; exact hj))]
      simp only [UInt32.toNat_ofNat']
      omega
    · rw [a3, le32_length]
  | .un .ret _ | .un .len _ | .un .popTable _ | .tri _ _ _ _ | .createTable | .abort | .stringLiteral _
  | .comment _ | .function _ | .nativeFunction _ | .setVar _ _ | .setGlobalVar _ _ | .callNative _ _
  | .call _ _ | .repeat _ _ _ | .forEach _ _ _ _ _ | .composite _ _ | .dynamicCall _ _ | .array _
  | .closure _ _ => by
    intro he
    simp [isExpr] at he

end Cao.Compiler

namespace Cao.Compiler
open Cao Cao.Sim

theorem patchI32_ok {at_ v : Nat} {s s' : CState} {a : Unit} (h : patchI32 at_ v s = .ok (a, s'))
    (hat : at_ + 4 ≤ s.bytecode.size) :
    s'.bytecode.size = s.bytecode.size ∧
    (∀ i, (i < at_ ∨ at_ + 4 ≤ i) → s'.bytecode[i]? = s.bytecode[i]?) ∧
    (∀ j, j < 4 → s'.bytecode.getD (at_ + j) 0 = (le32 (UInt32.ofNat v)).getD j 0) ∧ QL s s' ∧ QV s s' := by
  unfold patchI32 at h
  simp only [modify_run, Except.ok.injEq, Prod.mk.injEq, true_and] at h
  subst h
  have hr : List.range 4 = [0, 1, 2, 3] := by decide
  refine ⟨?_, ?_, ?_, ⟨rfl, rfl, rfl, rfl⟩, ⟨rfl, rfl, rfl⟩⟩
  · simp only [hr, List.foldl_cons, List.foldl_nil, Array.set!_eq_setIfInBounds]
    simp
  · intro i hi
    simp only [hr, List.foldl_cons, List.foldl_nil, Array.set!_eq_setIfInBounds]
    repeat rw [Array.getElem?_setIfInBounds_ne (by omega)]
  · intro j hj
    simp only [hr, List.foldl_cons, List.foldl_nil, Array.set!_eq_setIfInBounds, Array.getD_eq_getD_getElem?]
    have : j = 0 ∨ j = 1 ∨ j = 2 ∨ j = 3 := by omega
    rcases this with rfl | rfl | rfl | rfl
    · rw [Array.getElem?_setIfInBounds_ne (by omega), Array.getElem?_setIfInBounds_ne (by omega),
        Array.getElem?_setIfInBounds_ne (by omega), Array.getElem?_setIfInBounds_self_of_lt (by omega)]
      rfl
    · rw [Array.getElem?_setIfInBounds_ne (by omega), Array.getElem?_setIfInBounds_ne (by omega),
        Array.getElem?_setIfInBounds_self_of_lt (by simp; omega)]
      rfl
    · rw [Array.getElem?_setIfInBounds_ne (by omega),
        Array.getElem?_setIfInBounds_self_of_lt (by simp; omega)]
      rfl
    · rw [Array.getElem?_setIfInBounds_self_of_lt (by simp; omega)]
      rfl

theorem getD_congr {a b : Array UInt8} {i : Nat} (h : a[i]? = b[i]?) : a.getD i 0 = b.getD i 0 := by
  simp only [Array.getD_eq_getD_getElem?, h]

theorem rdU32_congr {a b : Array UInt8} {p : Nat} (h : ∀ j, j < 4 → a[p + j]? = b[p + j]?) :
    Vm.rdU32 a p = Vm.rdU32 b p := by
  rw [Sim.rdU32_def, Sim.rdU32_def]
  have h0 := getD_congr (h 0 (by omega)); have h1 := getD_congr (h 1 (by omega))
  have h2 := getD_congr (h 2 (by omega)); have h3 := getD_congr (h 3 (by omega))
  rw [Nat.add_zero] at h0
  rw [h0, h1, h2, h3]

theorem AgreeFrom.rdU32 {B : Array UInt8} {s : CState} {lo p : Nat} (h : AgreeFrom B s lo) (h1 : lo ≤ p)
    (h2 : p + 4 ≤ s.bytecode.size) : Vm.rdU32 B p = Vm.rdU32 s.bytecode p :=
  rdU32_congr fun j hj => h.same (p + j) (by omega) (by omega)

theorem rdU32_patched {b : Array UInt8} {p v : Nat} (hv : v < 4294967296)
    (h : ∀ j, j < 4 → b.getD (p + j) 0 = (le32 (UInt32.ofNat v)).getD j 0) : Vm.rdU32 b p = v := by
  rw [Sim.rdU32_eq b p (UInt32.ofNat v) h]
  simp only [UInt32.toNat_ofNat']
  omega

/-- what `encodeIfThenRet skip block` does to the bytecode: `skip`, a placeholder that is patched
    to the end address, then the block -/
theorem encodeIfThenRet_ok {skip : UInt8} {block : CM Nat} {s s' : CState} {r : Nat}
    (hm : ∀ k, Mono k block) (h : encodeIfThenRet skip block s = .ok (r, s')) :
    ∃ s3 s4, block s3 = .ok (r, s4) ∧ s3.bytecode.size = s.bytecode.size + 5 ∧ QL s s3 ∧ QV s s3 ∧
      s'.bytecode.size = s4.bytecode.size ∧ QL s4 s' ∧ QV s4 s' ∧
      s.bytecode.size + 5 ≤ s4.bytecode.size ∧
      s'.bytecode.getD s.bytecode.size 0 = skip ∧
      (∀ j, j < 4 → s'.bytecode.getD (s.bytecode.size + 1 + j) 0 =
        (le32 (UInt32.ofNat s4.bytecode.size)).getD j 0) ∧
      (∀ i, s.bytecode.size + 5 ≤ i → s'.bytecode[i]? = s4.bytecode[i]?) ∧
      (∀ i, i < s.bytecode.size → s'.bytecode[i]? = s.bytecode[i]?) := by
  unfold encodeIfThenRet at h
  obtain ⟨_, s1, h1, h⟩ := bind_ok.1 h
  obtain ⟨b1, l1, v1⟩ := pushInstr_ok h1
  obtain ⟨s1', s1'', hg, h⟩ := bind_ok.1 h
  simp only [get_run, Except.ok.injEq, Prod.mk.injEq] at hg
  obtain ⟨rfl, rfl⟩ := hg
  obtain ⟨_, s3, h3, h⟩ := bind_ok.1 h
  obtain ⟨b3, l3, v3⟩ := emitBytes_ok h3
  obtain ⟨r', s4, h4, h⟩ := bind_ok.1 h
  obtain ⟨s4', s4'', hg, h⟩ := bind_ok.1 h
  simp only [get_run, Except.ok.injEq, Prod.mk.injEq] at hg
  obtain ⟨rfl, rfl⟩ := hg
  obtain ⟨_, s5, h5, h⟩ := bind_ok.1 h
  simp only [pure_run, Except.ok.injEq, Prod.mk.injEq] at h
  obtain ⟨rfl, rfl⟩ := h
  have e1 : s1.bytecode.size = s.bytecode.size + 1 := by rw [b1]; simp
  have e3 : s3.bytecode.size = s.bytecode.size + 5 := by
    rw [b3, b1]; simp [le32_length]
  have hext := ((hm s3.bytecode.size).run _ _ _ h4 (Nat.le_refl _)).1
  obtain ⟨p1, p2, p3, p4, p5⟩ := patchI32_ok h5 (by have := hext.size_le; omega)
  refine ⟨s3, s4, h4, e3, l1.trans l3, v1.trans v3, p1, p4, p5, by have := hext.size_le; omega, ?_, ?_, ?_, ?_⟩
  · rw [getD_congr (p2 _ (Or.inl (by omega))), getD_congr (hext.pref _ (by omega)), b3, b1]
    exact getD_push_append_left _ _ _
  · intro j hj
    have := p3 j hj
    rw [e1] at this
    exact this
  · intro i hi
    exact p2 i (Or.inr (by omega))
  · intro i hi
    rw [p2 i (Or.inl (by omega)), hext.pref i (by omega), b3, b1]
    rw [Array.getElem?_append_left (by simp; omega), Array.getElem?_push_lt hi]
    simp


theorem encodeIfThen_ok {skip : UInt8} {block : CM Unit} {s s' : CState} {r : Unit}
    (hm : ∀ k, Mono k block) (h : encodeIfThen skip block s = .ok (r, s')) :
    ∃ s3 s4, block s3 = .ok ((), s4) ∧ s3.bytecode.size = s.bytecode.size + 5 ∧ QL s s3 ∧ QV s s3 ∧
      s'.bytecode.size = s4.bytecode.size ∧ QL s4 s' ∧ QV s4 s' ∧
      s.bytecode.size + 5 ≤ s4.bytecode.size ∧
      s'.bytecode.getD s.bytecode.size 0 = skip ∧
      (∀ j, j < 4 → s'.bytecode.getD (s.bytecode.size + 1 + j) 0 =
        (le32 (UInt32.ofNat s4.bytecode.size)).getD j 0) ∧
      (∀ i, s.bytecode.size + 5 ≤ i → s'.bytecode[i]? = s4.bytecode[i]?) ∧
      (∀ i, i < s.bytecode.size → s'.bytecode[i]? = s.bytecode[i]?) := by
  unfold encodeIfThen at h
  obtain ⟨_, s1, h1, h⟩ := bind_ok.1 h
  obtain ⟨b1, l1, v1⟩ := pushInstr_ok h1
  obtain ⟨s1', s1'', hg, h⟩ := bind_ok.1 h
  simp only [get_run, Except.ok.injEq, Prod.mk.injEq] at hg
  obtain ⟨rfl, rfl⟩ := hg
  obtain ⟨_, s3, h3, h⟩ := bind_ok.1 h
  obtain ⟨b3, l3, v3⟩ := emitBytes_ok h3
  obtain ⟨r', s4, h4, h⟩ := bind_ok.1 h
  obtain ⟨s4', s4'', hg, h5⟩ := bind_ok.1 h
  simp only [get_run, Except.ok.injEq, Prod.mk.injEq] at hg
  obtain ⟨rfl, rfl⟩ := hg
  have e1 : s1.bytecode.size = s.bytecode.size + 1 := by rw [b1]; simp
  have e3 : s3.bytecode.size = s.bytecode.size + 5 := by
    rw [b3, b1]; simp [le32_length]
  have hext := ((hm s3.bytecode.size).run _ _ _ h4 (Nat.le_refl _)).1
  obtain ⟨p1, p2, p3, p4, p5⟩ := patchI32_ok h5 (by have := hext.size_le; omega)
  refine ⟨s3, s4, h4, e3, l1.trans l3, v1.trans v3, p1, p4, p5, by have := hext.size_le; omega, ?_, ?_, ?_, ?_⟩
  · rw [getD_congr (p2 _ (Or.inl (by omega))), getD_congr (hext.pref _ (by omega)), b3, b1]
    exact getD_push_append_left _ _ _
  · intro j hj
    have := p3 j hj
    rw [e1] at this
    exact this
  · intro i hi
    exact p2 i (Or.inr (by omega))
  · intro i hi
    rw [p2 i (Or.inl (by omega)), hext.pref i (by omega), b3, b1]
    rw [Array.getElem?_append_left (by simp; omega), Array.getElem?_push_lt hi]
    simp

theorem pushSub_ok {i : Nat} {s s' : CState} {a : Unit} (h : pushSub i s = .ok (a, s')) :
    s'.bytecode = s.bytecode ∧ QL s s' ∧ QV s s' := by
  unfold pushSub at h
  simp only [modify_run, Except.ok.injEq, Prod.mk.injEq, true_and] at h
  subst h
  exact ⟨rfl, ⟨rfl, rfl, rfl, rfl⟩, ⟨rfl, rfl, rfl⟩⟩

theorem popSub_ok {s s' : CState} {a : Unit} (h : popSub s = .ok (a, s')) :
    s'.bytecode = s.bytecode ∧ QL s s' ∧ QV s s' := by
  unfold popSub at h
  simp only [modify_run, Except.ok.injEq, Prod.mk.injEq, true_and] at h
  subst h
  exact ⟨rfl, ⟨rfl, rfl, rfl, rfl⟩, ⟨rfl, rfl, rfl⟩⟩

/-- `B` agrees with `s1` from `lo1` on, given that it agrees with the final state `s'` and that the
    bytes of `s1` are still there in `s'` -/
theorem AgreeFrom.sub {B : Array UInt8} {s1 s' : CState} {lo lo1 : Nat} (h : AgreeFrom B s' lo) (hlo : lo ≤ lo1)
    (hsz : s1.bytecode.size ≤ s'.bytecode.size)
    (hs : ∀ i, lo1 ≤ i → i < s1.bytecode.size → s'.bytecode[i]? = s1.bytecode[i]?) : AgreeFrom B s1 lo1 :=
  h.back ⟨hsz, hs⟩ hlo

theorem vpre_eq {F : List (UInt32 × Nat)} {s1 s' : CState} (h : ∃ t, F = s'.varIds ++ t) (e : s'.varIds = s1.varIds) :
    ∃ t, F = s1.varIds ++ t := by rw [← e]; exact h

end Cao.Compiler

namespace Cao.Compiler
open Cao Cao.Sim

theorem scopeBegin_ok {s s' : CState} {a : Unit} (h : scopeBegin s = .ok (a, s')) :
    s'.bytecode = s.bytecode ∧ s'.locals = s.locals ∧ s'.functionId = s.functionId ∧ QV s s' := by
  unfold scopeBegin at h
  simp only [modify_run, Except.ok.injEq, Prod.mk.injEq, true_and] at h
  subst h
  exact ⟨rfl, rfl, rfl, ⟨rfl, rfl, rfl⟩⟩

/-- without locals `scopeEnd` emits nothing -/
theorem scopeEnd_noloc {s s' : CState} {a : Unit} (hl : NoLoc s) (h : scopeEnd s = .ok (a, s')) :
    s'.bytecode = s.bytecode ∧ QV s s' ∧ NoLoc s' := by
  unfold scopeEnd at h
  obtain ⟨_, s1, h1, h⟩ := bind_ok.1 h
  simp only [modify_run, Except.ok.injEq, Prod.mk.injEq, true_and] at h1
  obtain ⟨s2, s2', hg, h⟩ := bind_ok.1 h
  simp only [get_run, Except.ok.injEq, Prod.mk.injEq] at hg
  obtain ⟨rfl, rfl⟩ := hg
  have hfid : s1.functionId = 0 := by rw [← h1]; exact hl.fid
  have hls : s1.locals.getD s1.functionId [] = [] := by
    rw [← h1]; show s.locals.getD s.functionId [] = []; rw [hl.fid]; exact hl.none
  simp only [hls, List.reverse_nil, List.dropWhile_nil, List.length_nil, List.drop_nil, List.map_nil] at h
  obtain ⟨_, s3, h3, h4⟩ := bind_ok.1 h
  simp only [modify_run, Except.ok.injEq, Prod.mk.injEq, true_and] at h3
  obtain ⟨b4, l4, v4⟩ := emitBytes_ok h4
  have hl3 : NoLoc s3 := by
    subst h3
    refine ⟨hfid, ?_⟩
    show (s1.locals.set s1.functionId []).getD 0 [] = []
    rw [hfid] at hls ⊢
    simp only [List.getD_eq_getElem?_getD] at hls ⊢
    by_cases h0 : 0 < s1.locals.length
    · rw [List.getElem?_set_self h0]; rfl
    · rw [List.getElem?_eq_none (by rw [List.length_set]; omega)]; rfl
  subst h3
  subst h1
  refine ⟨by rw [b4]; simp, ⟨by rw [v4.ids], by rw [v4.next], by rw [v4.data]⟩, hl3.of_ql l4⟩

section
variable (B : Array UInt8) (F : List (UInt32 × Nat)) (hB : B.size < 4294967296)
  (hF : ∀ p ∈ F, p.2 < 4294967296)
include hB hF

theorem ifCode_spec {skip : UInt8} {c b : Card} (PB : Nat → Nat → Prop)
    (ihb : ∀ s s', processCard b s = .ok ((), s') → NoLoc s → AgreeFrom B s' s.bytecode.size →
      (∃ t, F = s'.varIds ++ t) → NoLoc s' ∧ PB s.bytecode.size s'.bytecode.size)
    (hc : isExpr c = true) {s0 s' : CState}
    (h : ifCode skip (processCard c) (processCard b) s0 = .ok ((), s')) (hl : NoLoc s0)
    (hag : AgreeFrom B s' s0.bytecode.size) (hv : ∃ t, F = s'.varIds ++ t) :
    NoLoc s' ∧ ∃ m, ECode B F c s0.bytecode.size m ∧ B.getD m 0 = skip ∧
      Vm.rdU32 B (m + 1) = s'.bytecode.size ∧ PB (m + 5) s'.bytecode.size := by
  unfold ifCode at h
  obtain ⟨_, s1', h2, h⟩ := bind_ok.1 h
  obtain ⟨sa, s1, h4, ba, la, va, b1, l1, v1⟩ := withSub_ok' h2
  obtain ⟨_, s1'', h5, h⟩ := bind_ok.1 h
  obtain ⟨b2, l2, v2⟩ := pushSub_ok h5
  obtain ⟨_, s5, h6, h7⟩ := bind_ok.1 h
  obtain ⟨b7, l7, v7⟩ := popSub_ok h7
  obtain ⟨s3, s4, h8, e3, l3, v3, e5, l5, v5, hge, g1, g2, g3, g4⟩ :=
    encodeIfThen_ok (fun k => processCard_mono (k := k) b) h6
  have em : s1''.bytecode.size = s1.bytecode.size := by rw [b2, b1]
  rw [em] at e3 hge g1 g2 g3 g4
  have hsz1 := processCard_size_le h4
  have esa : sa.bytecode.size = s0.bytecode.size := by rw [ba]
  have esz' : s'.bytecode.size = s4.bytecode.size := by rw [b7, e5]
  have hvr := (processCard_vr b).run _ _ _ h8
  have hv4 : ∃ t, F = s4.varIds ++ t := vpre_eq (vpre_eq hv v7.ids) v5.ids
  obtain ⟨hl1, hcc⟩ := ecode_of_processCard B F hF c hc sa s1 h4 (hl.of_ql la)
    (by
      rw [ba]
      refine hag.sub (Nat.le_refl _) (by omega) fun i _ hi => ?_
      rw [b7, g4 i hi, b2, b1])
    (by
      obtain ⟨t, ht⟩ := vpre_back hv4 hvr
      exact ⟨t, by rw [ht, v3.ids, v2.ids, v1.ids]⟩)
  obtain ⟨hl4, hcb⟩ := ihb s3 s4 h8 (hl1.of_ql ((l1.trans l2).trans l3))
    (by
      rw [e3]
      refine hag.sub (by omega) (by omega) fun i hi _ => ?_
      rw [b7, g3 i hi])
    hv4
  have hlt : s4.bytecode.size < 4294967296 := by have := hag.size_le; omega
  refine ⟨hl4.of_ql (l5.trans l7), s1.bytecode.size, by rw [ba] at hcc; exact hcc, ?_, ?_, ?_⟩
  · rw [hag.getD (by omega) (by omega), b7]; exact g1
  · rw [hag.rdU32 (by omega) (by omega), b7, e5]
    exact rdU32_patched hlt g2
  · rw [e3] at hcb; rw [esz']; exact hcb

theorem whileCode_spec {c b : Card} (PB : Nat → Nat → Prop)
    (ihb : ∀ s s', processCard b s = .ok ((), s') → NoLoc s → AgreeFrom B s' s.bytecode.size →
      (∃ t, F = s'.varIds ++ t) → NoLoc s' ∧ PB s.bytecode.size s'.bytecode.size)
    (hc : isExpr c = true) {s0 s' : CState}
    (h : whileCode (processCard c) (processCard b) s0 = .ok ((), s')) (hl : NoLoc s0)
    (hag : AgreeFrom B s' s0.bytecode.size) (hv : ∃ t, F = s'.varIds ++ t) :
    NoLoc s' ∧ ∃ m1 m2, ECode B F c s0.bytecode.size m1 ∧ B.getD m1 0 = op.gotoIfFalse ∧
      Vm.rdU32 B (m1 + 1) = s'.bytecode.size ∧ PB (m1 + 5) m2 ∧ B.getD m2 0 = op.goto ∧
      Vm.rdU32 B (m2 + 1) = s0.bytecode.size ∧ s'.bytecode.size = m2 + 5 := by
  unfold whileCode at h
  obtain ⟨s0', s0'', hg, h⟩ := bind_ok.1 h
  simp only [get_run, Except.ok.injEq, Prod.mk.injEq] at hg
  obtain ⟨rfl, rfl⟩ := hg
  obtain ⟨_, s1', h2, h⟩ := bind_ok.1 h
  obtain ⟨sa, s1, h4, ba, la, va, b1, l1, v1⟩ := withSub_ok' h2
  obtain ⟨_, s1'', h5, h⟩ := bind_ok.1 h
  obtain ⟨b2, l2, v2⟩ := pushSub_ok h5
  obtain ⟨_, s5, h6, h7⟩ := bind_ok.1 h
  obtain ⟨b7, l7, v7⟩ := popSub_ok h7
  obtain ⟨s3, s4, h8, e3, l3, v3, e5, l5, v5, hge, g1, g2, g3, g4⟩ :=
    encodeIfThen_ok (fun k => by have := processCard_mono (k := k) b; mono) h6
  obtain ⟨_, s3b, h8b, h⟩ := bind_ok.1 h8
  obtain ⟨bsb, lsb, fsb, vsb⟩ := scopeBegin_ok h8b
  obtain ⟨_, s6, h9, h⟩ := bind_ok.1 h
  obtain ⟨_, s6e, h9e, h⟩ := bind_ok.1 h
  obtain ⟨_, s7, h10, h11⟩ := bind_ok.1 h
  obtain ⟨b10, l10, v10⟩ := pushInstr_ok h10
  obtain ⟨b11, l11, v11⟩ := emitBytes_ok h11
  have em : s1''.bytecode.size = s1.bytecode.size := by rw [b2, b1]
  rw [em] at e3 hge g1 g2 g3 g4
  have e3b : s3b.bytecode.size = s1.bytecode.size + 5 := by rw [bsb, e3]
  have hsz1 := processCard_size_le h4
  have hsz6 := processCard_size_le h9
  have esa : sa.bytecode.size = s0.bytecode.size := by rw [ba]
  have esz' : s'.bytecode.size = s4.bytecode.size := by rw [b7, e5]
  have hb4e : s4.bytecode = s6e.bytecode.push op.goto ++ (le32 (UInt32.ofNat s0.bytecode.size)).toArray := by
    rw [b11, b10]
  have hext6 := ((scopeEnd_mono (k := s6.bytecode.size)).run _ _ _ h9e (Nat.le_refl _)).1
  have hsz6e := hext6.size_le
  have e4e : s4.bytecode.size = s6e.bytecode.size + 5 := by rw [hb4e]; simp [le32_length]
  have hvr := (processCard_vr b).run _ _ _ h9
  have hv4 : ∃ t, F = s4.varIds ++ t := vpre_eq (vpre_eq hv v7.ids) v5.ids
  have hv6e : ∃ t, F = s6e.varIds ++ t := vpre_eq (vpre_eq hv4 v11.ids) v10.ids
  obtain ⟨hl1, hcc⟩ := ecode_of_processCard B F hF c hc sa s1 h4 (hl.of_ql la)
    (by
      rw [ba]
      refine hag.sub (Nat.le_refl _) (by omega) fun i _ hi => ?_
      rw [b7, g4 i hi, b2, b1])
    (by
      obtain ⟨t, ht⟩ := vpre_back (vpre_back hv6e (scopeEnd_vr.run _ _ _ h9e)) hvr
      exact ⟨t, by rw [ht, vsb.ids, v3.ids, v2.ids, v1.ids]⟩)
  have hv6 : ∃ t, F = s6.varIds ++ t := vpre_back hv6e (scopeEnd_vr.run _ _ _ h9e)
  have h46 : ∀ i, i < s6.bytecode.size → s4.bytecode[i]? = s6.bytecode[i]? := fun i hi => by
    rw [hb4e, Array.getElem?_append_left (by simp; omega), ← hext6.pref i hi,
      Array.getElem?_push_lt (by omega)]
    simp
  have hl3b : NoLoc s3b := by
    have hl3 := hl1.of_ql ((l1.trans l2).trans l3)
    exact ⟨fsb.trans hl3.fid, by rw [lsb]; exact hl3.none⟩
  obtain ⟨hl6, hcb⟩ := ihb s3b s6 h9 hl3b
    (by
      rw [e3b]
      refine hag.sub (by omega) (by omega) fun i hi hi' => ?_
      rw [b7, g3 i hi, h46 i hi'])
    hv6
  obtain ⟨b6e, _, hl6e⟩ := scopeEnd_noloc hl6 h9e
  have hb4 : s4.bytecode = s6.bytecode.push op.goto ++ (le32 (UInt32.ofNat s0.bytecode.size)).toArray := by
    rw [hb4e, b6e]
  have e4 : s4.bytecode.size = s6.bytecode.size + 5 := by rw [hb4]; simp [le32_length]
  have hlt : s4.bytecode.size < 4294967296 := by have := hag.size_le; omega
  have hag4 : AgreeFrom B s4 (s1.bytecode.size + 5) :=
    hag.sub (by omega) (by omega) fun i hi _ => by rw [b7, g3 i hi]
  obtain ⟨a1, a2, a3⟩ := agree_instr (a := s6.bytecode) hb4 (hag4.weaken (by omega))
  refine ⟨hl6e.of_ql (((l10.trans l11).trans l5).trans l7), s1.bytecode.size, s6.bytecode.size,
    by rw [ba] at hcc; exact hcc, ?_, ?_, ?_, a1, ?_, by omega⟩
  · rw [hag.getD (by omega) (by omega), b7]; exact g1
  · rw [hag.rdU32 (by omega) (by omega), b7, e5]
    exact rdU32_patched hlt g2
  · rw [e3b] at hcb; exact hcb
  · exact rdU32_patched (by have := hag.size_le; omega) (fun j hj => a2 j (by rw [le32_length]; exact hj))

theorem ifElseCode_spec {c t e : Card} (PT PE : Nat → Nat → Prop)
    (iht : ∀ s s', processCard t s = .ok ((), s') → NoLoc s → AgreeFrom B s' s.bytecode.size →
      (∃ t, F = s'.varIds ++ t) → NoLoc s' ∧ PT s.bytecode.size s'.bytecode.size)
    (ihe : ∀ s s', processCard e s = .ok ((), s') → NoLoc s → AgreeFrom B s' s.bytecode.size →
      (∃ t, F = s'.varIds ++ t) → NoLoc s' ∧ PE s.bytecode.size s'.bytecode.size)
    (hc : isExpr c = true) {s0 s' : CState}
    (h : ifElseCode (processCard c) (processCard t) (processCard e) s0 = .ok ((), s')) (hl : NoLoc s0)
    (hag : AgreeFrom B s' s0.bytecode.size) (hv : ∃ t, F = s'.varIds ++ t) :
    NoLoc s' ∧ ∃ m1 m2, ECode B F c s0.bytecode.size m1 ∧ B.getD m1 0 = op.gotoIfFalse ∧
      Vm.rdU32 B (m1 + 1) = m2 + 5 ∧ PT (m1 + 5) m2 ∧ B.getD m2 0 = op.goto ∧
      Vm.rdU32 B (m2 + 1) = s'.bytecode.size ∧ PE (m2 + 5) s'.bytecode.size := by
  unfold ifElseCode at h
  obtain ⟨_, s1', h2, h⟩ := bind_ok.1 h
  obtain ⟨sa, s1, h4, ba, la, va, b1, l1, v1⟩ := withSub_ok' h2
  obtain ⟨_, s1'', h5, h⟩ := bind_ok.1 h
  obtain ⟨b2, l2, v2⟩ := pushSub_ok h5
  obtain ⟨idxRef, s5, h6, h⟩ := bind_ok.1 h
  obtain ⟨_, s5', h7, h⟩ := bind_ok.1 h
  obtain ⟨b7, l7, v7⟩ := popSub_ok h7
  obtain ⟨_, s8', h12, h⟩ := bind_ok.1 h
  obtain ⟨sc, s8, h13, bc, lc, vc, b8, l8, v8⟩ := withSub_ok' h12
  obtain ⟨s9, s9', hg, h14⟩ := bind_ok.1 h
  simp only [get_run, Except.ok.injEq, Prod.mk.injEq] at hg
  obtain ⟨rfl, rfl⟩ := hg
  obtain ⟨s3, s4, h8, e3, l3, v3, e5, l5, v5, hge, g1, g2, g3, g4⟩ :=
    encodeIfThenRet_ok (fun k => by have := processCard_mono (k := k) t; mono) h6
  obtain ⟨_, s6, h9, h⟩ := bind_ok.1 h8
  obtain ⟨_, s7, h10, h⟩ := bind_ok.1 h
  obtain ⟨b10, l10, v10⟩ := pushInstr_ok h10
  obtain ⟨s7', s7'', hg, h⟩ := bind_ok.1 h
  simp only [get_run, Except.ok.injEq, Prod.mk.injEq] at hg
  obtain ⟨rfl, rfl⟩ := hg
  obtain ⟨_, s4', h11, h⟩ := bind_ok.1 h
  simp only [pure_run, Except.ok.injEq, Prod.mk.injEq] at h
  obtain ⟨hidx, hs4⟩ := h
  have hs4' := hs4.symm
  subst hs4'
  subst hidx
  obtain ⟨b11, l11, v11⟩ := emitBytes_ok h11
  have em : s1''.bytecode.size = s1.bytecode.size := by rw [b2, b1]
  rw [em] at e3 hge g1 g2 g3 g4
  have hsz1 := processCard_size_le h4
  have hsz6 := processCard_size_le h9
  have hsz8 := processCard_size_le h13
  have esa : sa.bytecode.size = s0.bytecode.size := by rw [ba]
  have e7 : s7.bytecode.size = s6.bytecode.size + 1 := by rw [b10]; simp
  have hb4 : s4.bytecode = s6.bytecode.push op.goto ++ (le32 (UInt32.ofNat 0xEEF)).toArray := by
    rw [b11, b10]
  have e4 : s4.bytecode.size = s6.bytecode.size + 5 := by rw [hb4]; simp [le32_length]
  have esc : sc.bytecode.size = s6.bytecode.size + 5 := by rw [bc, b7, e5, e4]
  have e8' : s8'.bytecode.size = s8.bytecode.size := by rw [b8]
  obtain ⟨p1, p2, p3, p4, p5⟩ := patchI32_ok h14 (by omega)
  have hext8 := ((processCard_mono (k := sc.bytecode.size) e).run _ _ _ h13 (Nat.le_refl _)).1
  -- bytes of the final state outside the second placeholder are those of `s8`
  have f8 : ∀ i, (i < s6.bytecode.size + 1 ∨ s6.bytecode.size + 5 ≤ i) → s'.bytecode[i]? = s8.bytecode[i]? :=
    fun i hi => by rw [p2 i (by omega), b8]
  -- below the else branch, `s8` still has the bytes of `s5`
  have f5 : ∀ i, i < s6.bytecode.size + 5 → s8.bytecode[i]? = s5.bytecode[i]? := fun i hi => by
    rw [hext8.pref i (by omega), bc, b7]
  have h46 : ∀ i, i < s6.bytecode.size → s4.bytecode[i]? = s6.bytecode[i]? := fun i hi => by
    rw [hb4, Array.getElem?_append_left (by simp; omega), Array.getElem?_push_lt hi]; simp
  have hvr6 := (processCard_vr t).run _ _ _ h9
  have hvr8 := (processCard_vr e).run _ _ _ h13
  have hv8 : ∃ t, F = s8.varIds ++ t := vpre_eq (vpre_eq hv p5.ids) v8.ids
  have hv6 : ∃ t, F = s6.varIds ++ t := by
    obtain ⟨t, ht⟩ := vpre_back hv8 hvr8
    exact ⟨t, by rw [ht, vc.ids, v7.ids, v5.ids, v11.ids, v10.ids]⟩
  obtain ⟨hl1, hcc⟩ := ecode_of_processCard B F hF c hc sa s1 h4 (hl.of_ql la)
    (by
      rw [ba]
      refine hag.sub (Nat.le_refl _) (by omega) fun i _ hi => ?_
      rw [f8 i (by omega), f5 i (by omega), g4 i hi, b2, b1])
    (by
      obtain ⟨t, ht⟩ := vpre_back hv6 hvr6
      exact ⟨t, by rw [ht, v3.ids, v2.ids, v1.ids]⟩)
  obtain ⟨hl6, hct⟩ := iht s3 s6 h9 (hl1.of_ql ((l1.trans l2).trans l3))
    (by
      rw [e3]
      refine hag.sub (by omega) (by omega) fun i hi hi' => ?_
      rw [f8 i (by omega), f5 i (by omega), g3 i hi, h46 i hi'])
    hv6
  obtain ⟨hl8, hce⟩ := ihe sc s8 h13 (hl6.of_ql ((((l10.trans l11).trans l5).trans l7).trans lc))
    (by
      rw [esc]
      refine hag.sub (by omega) (by omega) fun i hi _ => ?_
      rw [f8 i (by omega)])
    hv8
  have hlt : s8.bytecode.size < 4294967296 := by have := hag.size_le; omega
  have hag8 : ∀ i, s0.bytecode.size ≤ i → i < s6.bytecode.size + 1 → B.getD i 0 = s5.bytecode.getD i 0 :=
    fun i h1 h2 => by
      rw [hag.getD h1 (by omega)]
      exact getD_congr (by rw [f8 i (by omega), f5 i (by omega)])
  refine ⟨hl8.of_ql (l8.trans p4), s1.bytecode.size, s6.bytecode.size,
    by rw [ba] at hcc; exact hcc, ?_, ?_, by rw [e3] at hct; exact hct, ?_, ?_, ?_⟩
  · rw [hag8 _ (by omega) (by omega)]; exact g1
  · have : Vm.rdU32 B (s1.bytecode.size + 1) = Vm.rdU32 s5.bytecode (s1.bytecode.size + 1) := by
      rw [hag.rdU32 (by omega) (by omega)]
      exact rdU32_congr fun j hj => by rw [f8 _ (by omega), f5 _ (by omega)]
    rw [this, rdU32_patched (by omega) g2, e4]
  · rw [hag8 _ (by omega) (by omega)]
    rw [getD_congr (g3 _ (by omega)), hb4]
    exact getD_push_append_left _ _ _
  · rw [hag.rdU32 (by omega) (by omega), p1, e8']
    exact rdU32_patched hlt (by rw [e7, e8'] at p3; exact p3)
  · rw [esc] at hce; rw [p1, e8']; exact hce
end
end Cao.Compiler

namespace Cao.Compiler
open Cao Cao.Sim

section
variable (B : Array UInt8) (F : List (UInt32 × Nat)) (hB : B.size < 4294967296)
  (hF : ∀ p ∈ F, p.2 < 4294967296)
include hB hF

set_option linter.unusedSectionVars false in
mutual
theorem scode_of_processCard :
    ∀ (c : Card), isStmt c = true → ∀ (s s' : CState), processCard c s = .ok ((), s') → NoLoc s →
      AgreeFrom B s' s.bytecode.size → (∃ t, F = s'.varIds ++ t) →
      NoLoc s' ∧ SCode B F c s.bytecode.size s'.bytecode.size
  | .comment _ => by
    intro _ s s' h hl hag hv
    simp only [processCard] at h
    obtain ⟨_, s0, h0, h1⟩ := bind_ok.1 h
    obtain ⟨b0, l0, v0⟩ := cardLabel_ok' h0
    simp only [pure_run, Except.ok.injEq, Prod.mk.injEq, true_and] at h1
    subst h1
    exact ⟨hl.of_ql l0, by simp only [SCode]; rw [b0]⟩
  | .composite _ cs => by
    intro hc s s' h hl hag hv
    simp only [isStmt] at hc
    simp only [processCard] at h
    obtain ⟨_, s0, h0, h1⟩ := bind_ok.1 h
    obtain ⟨b0, l0, v0⟩ := cardLabel_ok' h0
    have := scodes_of_compileSubexprFrom cs hc 0 s0 s' h1 (hl.of_ql l0) (by rw [b0]; exact hag) hv
    rw [b0] at this
    exact ⟨this.1, by simp only [SCode]; exact this.2⟩
  | .setGlobalVar n e => by
    intro hc s s' h hl hag hv
    simp only [isStmt, Bool.and_eq_true, Bool.not_eq_true'] at hc
    obtain ⟨hne, he⟩ := hc
    simp only [processCard] at h
    obtain ⟨_, s0, h0, h1⟩ := bind_ok.1 h
    obtain ⟨b0, l0, v0⟩ := cardLabel_ok' h0
    unfold setGlobalVarCode at h1
    obtain ⟨_, s1', h2, h1⟩ := bind_ok.1 h1
    obtain ⟨sa, s1, h4, ba, la, va, b1, l1, v1⟩ := withSub_ok' h2
    obtain ⟨_, s2, h5, h1⟩ := bind_ok.1 h1
    obtain ⟨b2, l2, v2⟩ := pushInstr_ok h5
    rw [if_neg (by simp [hne])] at h1
    obtain ⟨id, s3, h7, h8⟩ := bind_ok.1 h1
    obtain ⟨b3, l3, d3, hd, hfind⟩ := globalId_ok' h7
    obtain ⟨b4, l4, v4⟩ := emitBytes_ok h8
    have esa : sa.bytecode.size = s.bytecode.size := by rw [ba, b0]
    have hsz1 := processCard_size_le h4
    have hb' : s'.bytecode = s1.bytecode.push op.setGlobalVar ++ (le32 (UInt32.ofNat id)).toArray := by
      rw [b4, b3, b2, b1]
    have hvr := (globalId_vr n).run _ _ _ h7
    obtain ⟨hl1, hce⟩ := ecode_of_processCard B F hF e he sa s1 h4 (hl.of_ql (l0.trans la))
      (by
        rw [esa]
        refine hag.sub (Nat.le_refl _) (by rw [hb']; simp) fun i _ hi => ?_
        rw [hb', Array.getElem?_append_left (by simp; omega), Array.getElem?_push_lt hi]; simp)
      (by
        obtain ⟨t, ht⟩ := vpre_back (vpre_eq hv v4.ids) hvr
        exact ⟨t, by rw [ht, v2.ids, v1.ids]⟩)
    obtain ⟨a1, a2, a3⟩ := agree_instr (a := s1.bytecode) hb' (hag.weaken (by omega))
    have hgid : gidOf F n = some id := by
      obtain ⟨t, ht⟩ := hv
      unfold gidOf
      rw [ht, v4.ids, find?_append_of_some hfind]
      rfl
    have hlt : id < 4294967296 := by
      unfold gidOf at hgid
      rcases hf : List.find? (fun p => p.fst == Vm.hName n) F with _ | ⟨x⟩
      · rw [hf] at hgid; cases hgid
      · rw [hf] at hgid
        simp only [Option.map_some, Option.some.injEq] at hgid
        have := hF x (List.mem_of_find?_eq_some hf)
        omega
    refine ⟨hl1.of_ql (((l1.trans l2).trans l3).trans l4), ?_⟩
    simp only [SCode]
    rw [esa] at hce
    refine ⟨_, id, hce, a1, hgid, ?_, ?_⟩
    · exact rdU32_patched hlt (fun j hj => a2 j (by rw [le32_length]; exact hj))
    · rw [a3, le32_length]
  | .bin .ifTrue c b => by
    intro hc s s' h hl hag hv
    simp only [isStmt, Bool.and_eq_true] at hc
    simp only [processCard] at h
    obtain ⟨_, s0, h0, h1⟩ := bind_ok.1 h
    obtain ⟨b0, l0, v0⟩ := cardLabel_ok' h0
    have := ifCode_spec B F hB hF (SCode B F b) (fun s s' => scode_of_processCard b hc.2 s s') hc.1
      (show ifCode op.gotoIfFalse (processCard c) (processCard b) s0 = .ok ((), s') from h1)
      (hl.of_ql l0) (by rw [b0]; exact hag) hv
    rw [b0] at this
    obtain ⟨hl', m, q1, q2, q3, q4⟩ := this
    exact ⟨hl', by simp only [SCode]; exact ⟨m, q1, q2, q3, q4⟩⟩
  | .bin .ifFalse c b => by
    intro hc s s' h hl hag hv
    simp only [isStmt, Bool.and_eq_true] at hc
    simp only [processCard] at h
    obtain ⟨_, s0, h0, h1⟩ := bind_ok.1 h
    obtain ⟨b0, l0, v0⟩ := cardLabel_ok' h0
    have := ifCode_spec B F hB hF (SCode B F b) (fun s s' => scode_of_processCard b hc.2 s s') hc.1
      (show ifCode op.gotoIfTrue (processCard c) (processCard b) s0 = .ok ((), s') from h1)
      (hl.of_ql l0) (by rw [b0]; exact hag) hv
    rw [b0] at this
    obtain ⟨hl', m, q1, q2, q3, q4⟩ := this
    exact ⟨hl', by simp only [SCode]; exact ⟨m, q1, q2, q3, q4⟩⟩
  | .bin .while c b => by
    intro hc s s' h hl hag hv
    simp only [isStmt, Bool.and_eq_true] at hc
    simp only [processCard] at h
    obtain ⟨_, s0, h0, h1⟩ := bind_ok.1 h
    obtain ⟨b0, l0, v0⟩ := cardLabel_ok' h0
    have := whileCode_spec B F hB hF (SCode B F b) (fun s s' => scode_of_processCard b hc.2 s s') hc.1
      (show whileCode (processCard c) (processCard b) s0 = .ok ((), s') from h1)
      (hl.of_ql l0) (by rw [b0]; exact hag) hv
    rw [b0] at this
    obtain ⟨hl', m1, m2, q1, q2, q3, q4, q5, q6, q7⟩ := this
    exact ⟨hl', by simp only [SCode]; exact ⟨m1, m2, q1, q2, q3, q4, q5, q6, q7⟩⟩
  | .tri .ifElse c t e => by
    intro hc s s' h hl hag hv
    simp only [isStmt, Bool.and_eq_true] at hc
    simp only [processCard] at h
    obtain ⟨_, s0, h0, h1⟩ := bind_ok.1 h
    obtain ⟨b0, l0, v0⟩ := cardLabel_ok' h0
    have := ifElseCode_spec B F hB hF (SCode B F t) (SCode B F e)
      (fun s s' => scode_of_processCard t hc.1.2 s s') (fun s s' => scode_of_processCard e hc.2 s s') hc.1.1
      (show ifElseCode (processCard c) (processCard t) (processCard e) s0 = .ok ((), s') from h1)
      (hl.of_ql l0) (by rw [b0]; exact hag) hv
    rw [b0] at this
    obtain ⟨hl', m1, m2, q1, q2, q3, q4, q5, q6, q7⟩ := this
    exact ⟨hl', by simp only [SCode]; exact ⟨m1, m2, q1, q2, q3, q4, q5, q6, q7⟩⟩
  | .bin .add _ _ | .bin .sub _ _ | .bin .mul _ _ | .bin .div _ _ | .bin .less _ _ | .bin .lessOrEq _ _
  | .bin .equals _ _ | .bin .notEquals _ _ | .bin .and _ _ | .bin .or _ _ | .bin .xor _ _
  | .bin .getProperty _ _ | .bin .get _ _ | .bin .appendTable _ _
  | .un _ _ | .tri .setProperty _ _ _ | .scalarNil | .createTable | .abort | .scalarInt _ | .scalarFloat _
  | .stringLiteral _ | .function _ | .nativeFunction _ | .readVar _ | .setVar _ _ | .callNative _ _
  | .call _ _ | .repeat _ _ _ | .forEach _ _ _ _ _ | .dynamicCall _ _ | .array _ | .closure _ _ => by
    intro hc
    simp [isStmt] at hc

theorem scodes_of_compileSubexprFrom :
    ∀ (cs : List Card), isStmts cs = true → ∀ (i : Nat) (s s' : CState),
      compileSubexprFrom i cs s = .ok ((), s') → NoLoc s →
      AgreeFrom B s' s.bytecode.size → (∃ t, F = s'.varIds ++ t) →
      NoLoc s' ∧ SCodes B F cs s.bytecode.size s'.bytecode.size
  | [] => by
    intro _ i s s' h hl _ _
    simp only [compileSubexprFrom, pure_run, Except.ok.injEq, Prod.mk.injEq, true_and] at h
    subst h
    exact ⟨hl, by simp only [SCodes]⟩
  | c :: cs => by
    intro hc i s s' h hl hag hv
    simp only [isStmts, Bool.and_eq_true] at hc
    simp only [compileSubexprFrom] at h
    obtain ⟨_, s1', h2, h3⟩ := bind_ok.1 h
    obtain ⟨sa, s1, h4, ba, la, va, b1, l1, v1⟩ := withSub_ok' h2
    have esa : sa.bytecode.size = s.bytecode.size := by rw [ba]
    have hsz1 := processCard_size_le h4
    have hext := ((compileSubexprFrom_mono (k := s1'.bytecode.size) (i + 1) cs).run _ _ _ h3 (Nat.le_refl _)).1
    have hvr := (compileSubexprFrom_vr (i + 1) cs).run _ _ _ h3
    obtain ⟨hl1, hcc⟩ := scode_of_processCard c hc.1 sa s1 h4 (hl.of_ql la)
      (by
        rw [esa]
        refine hag.sub (Nat.le_refl _) (by rw [← b1]; exact hext.size_le) fun i _ hi => ?_
        rw [hext.pref i (by rw [b1]; exact hi), b1])
      (by
        obtain ⟨t, ht⟩ := vpre_back hv hvr
        exact ⟨t, by rw [ht, v1.ids]⟩)
    obtain ⟨hl2, hcs⟩ := scodes_of_compileSubexprFrom cs hc.2 (i + 1) s1' s' h3 (hl1.of_ql l1)
      (by rw [b1]; exact hag.weaken (by omega)) hv
    refine ⟨hl2, ?_⟩
    simp only [SCodes]
    rw [esa] at hcc
    rw [b1] at hcs
    exact ⟨_, hcc, hcs⟩
end
end
end Cao.Compiler

namespace Cao.Compiler
open Cao Cao.Sim

section
variable (B : Array UInt8) (F : List (UInt32 × Nat)) (hB : B.size < 4294967296)
  (hF : ∀ p ∈ F, p.2 < 4294967296)
include hB hF

theorem scodes_of_processFunctionCards :
    ∀ (cs : List Card), isStmts cs = true → ∀ (i : Nat) (s s' : CState),
      processFunctionCards i cs s = .ok ((), s') → NoLoc s →
      AgreeFrom B s' s.bytecode.size → (∃ t, F = s'.varIds ++ t) →
      NoLoc s' ∧ SCodes B F cs s.bytecode.size s'.bytecode.size
  | [] => by
    intro _ i s s' h hl _ _
    simp only [processFunctionCards, pure_run, Except.ok.injEq, Prod.mk.injEq, true_and] at h
    subst h
    exact ⟨hl, by simp only [SCodes]⟩
  | c :: cs => by
    intro hc i s s' h hl hag hv
    simp only [isStmts, Bool.and_eq_true] at hc
    simp only [processFunctionCards] at h
    obtain ⟨_, sa, h1, h⟩ := bind_ok.1 h
    obtain ⟨ba, la, va⟩ := popSub_ok h1
    obtain ⟨_, sb, h2, h⟩ := bind_ok.1 h
    obtain ⟨bb, lb, vb⟩ := pushSub_ok h2
    obtain ⟨_, s1, h4, h3⟩ := bind_ok.1 h
    have esb : sb.bytecode.size = s.bytecode.size := by rw [bb, ba]
    have hsz1 := processCard_size_le h4
    have hext := ((processFunctionCards_mono (k := s1.bytecode.size) (i + 1) cs).run _ _ _ h3 (Nat.le_refl _)).1
    have hvr := (processFunctionCards_vr (i + 1) cs).run _ _ _ h3
    obtain ⟨hl1, hcc⟩ := scode_of_processCard B F hB hF c hc.1 sb s1 h4 (hl.of_ql (la.trans lb))
      (by
        rw [esb]
        exact hag.sub (Nat.le_refl _) hext.size_le fun i _ hi => hext.pref i hi)
      (vpre_back hv hvr)
    obtain ⟨hl2, hcs⟩ := scodes_of_processFunctionCards cs hc.2 (i + 1) s1 s' h3 hl1
      (hag.weaken (by omega)) hv
    refine ⟨hl2, ?_⟩
    simp only [SCodes]
    rw [esb] at hcc
    exact ⟨_, hcc, hcs⟩
end

theorem addFunctions_okS : ∀ (fs : List FunctionIr) {s s' : CState} {a : Unit},
    addFunctions fs s = .ok (a, s') → s' = { s with jumpTable := s'.jumpTable }
  | [], s, s', a, h => by
    simp only [addFunctions, pure_run, Except.ok.injEq, Prod.mk.injEq] at h
    rw [← h.2]
  | f :: fs, s, s', a, h => by
    simp only [addFunctions] at h
    obtain ⟨_, s1, h1, h2⟩ := bind_ok.1 h
    have e2 := addFunctions_okS fs h2
    unfold addFunction at h1
    obtain ⟨s0, s0', hg, h1⟩ := bind_ok.1 h1
    simp only [get_run, Except.ok.injEq, Prod.mk.injEq] at hg
    obtain ⟨rfl, rfl⟩ := hg
    split at h1
    · obtain ⟨_, _, h3, _⟩ := bind_ok.1 h1
      simp at h3
    · simp only [modify_run, Except.ok.injEq, Prod.mk.injEq, true_and] at h1
      rw [e2, ← h1]

theorem pairwise_inj {α : Type} {l : List α} {f : α → Nat} (h : l.Pairwise (fun p q => f p ≠ f q)) :
    ∀ a b, a ∈ l → b ∈ l → f a = f b → a = b := by
  induction l with
  | nil => intro a b ha; cases ha
  | cons x l ih =>
    rw [List.pairwise_cons] at h
    intro a b ha hb hab
    rcases List.mem_cons.1 ha with ha | ha <;> rcases List.mem_cons.1 hb with hb | hb
    · rw [ha, hb]
    · rw [ha] at hab; exact absurd hab (h.1 b hb)
    · rw [hb] at hab; exact absurd hab.symm (h.1 a ha)
    · exact ih h.2 a b ha hb hab

theorem compileUnit_main {unit : Array FunctionIr} {sf : CState} (h : compileUnit unit {} = .ok ((), sf))
    (hargs : unit[0]!.arguments = []) (hst : isStmts unit[0]!.cards = true)
    (hB : sf.bytecode.size < 4294967296) (hV : sf.varIds.length < 4294967296) :
    ∃ mainEnd, SCodes sf.bytecode sf.varIds unit[0]!.cards 0 mainEnd ∧
      sf.bytecode.getD mainEnd 0 = op.exit ∧ mainEnd < sf.bytecode.size ∧ VInv sf := by
  have hinv : VInv sf := ((compileUnit_vr unit).run _ _ _ h).inv ⟨rfl, fun p hp => (by cases hp), List.Pairwise.nil⟩
  have hF : ∀ p ∈ sf.varIds, p.2 < 4294967296 := fun p hp => by
    have := hinv.lt p hp; rw [hinv.len] at this; omega
  unfold compileUnit at h
  split at h
  · obtain ⟨_, _, h1, _⟩ := bind_ok.1 h
    simp at h1
  · obtain ⟨_, s1, h1, h⟩ := bind_ok.1 h
    have e1 := addFunctions_okS _ h1
    obtain ⟨_, s2, h2, h⟩ := bind_ok.1 h
    simp only [modify_run, Except.ok.injEq, Prod.mk.injEq, true_and] at h2
    obtain ⟨_, s3, h3, h⟩ := bind_ok.1 h
    unfold scopeBegin at h3
    simp only [modify_run, Except.ok.injEq, Prod.mk.injEq, true_and] at h3
    obtain ⟨_, s5, h5, h⟩ := bind_ok.1 h
    unfold processFunction at h5
    obtain ⟨_, s4, h4, h5⟩ := bind_ok.1 h5
    simp only [modify_run, Except.ok.injEq, Prod.mk.injEq, true_and] at h4
    rw [hargs] at h5
    simp only [List.reverse_nil, addLocals, pure_bind] at h5
    obtain ⟨_, s6, h6, h⟩ := bind_ok.1 h
    simp only [modify_run, Except.ok.injEq, Prod.mk.injEq, true_and] at h6
    obtain ⟨_, s7, h7, h⟩ := bind_ok.1 h
    obtain ⟨_, s8, h8, h⟩ := bind_ok.1 h
    obtain ⟨_, s9, h9, h⟩ := bind_ok.1 h
    obtain ⟨_, s10, h10, h11⟩ := bind_ok.1 h
    simp only [modify_run, Except.ok.injEq, Prod.mk.injEq, true_and] at h10
    -- the state in which the cards of `main` are compiled
    have hb4 : s4.bytecode = #[] := by rw [← h4, ← h3, ← h2, e1]
    have hl4 : NoLoc s4 := by
      constructor
      · rw [← h4, ← h3, ← h2, e1]
      · rw [← h4, ← h3, ← h2, e1]; rfl
    -- what follows only appends
    have x6 : Ext s5.bytecode.size s5 s6 := Ext.of_eq (by rw [← h6]) (by rw [← h6])
    have x7 := ((scopeEnd_mono (k := s5.bytecode.size)).run _ _ _ h7 x6.size_le).1
    have x8 := ((processCard_mono (k := s5.bytecode.size) .abort).run _ _ _ h8
      (Nat.le_trans x6.size_le x7.size_le)).1
    have x9 := ((compileFunctions_mono (k := s8.bytecode.size) _).run _ _ _ h9 (Nat.le_refl _)).1
    have x10 : Ext s8.bytecode.size s9 s10 := Ext.of_eq (by rw [← h10]) (by rw [← h10])
    have x11 := ((pushInstr_mono (k := s8.bytecode.size) op.exit).run _ _ _ h11
      (Nat.le_trans x9.size_le x10.size_le)).1
    have x8f : Ext s8.bytecode.size s8 sf := (x9.trans x10).trans x11
    have x5f : Ext s5.bytecode.size s5 sf :=
      ((x6.trans x7).trans x8).trans (x8f.weaken (Nat.le_trans (Nat.le_trans x6.size_le x7.size_le) x8.size_le))
    have v6 : VExt s5 s6 := VExt.of_eq (by rw [← h6]) (by rw [← h6]) (by rw [← h6])
    have v10 : VExt s9 s10 := VExt.of_eq (by rw [← h10]) (by rw [← h10]) (by rw [← h10])
    have v5f : VExt s5 sf :=
      ((((v6.trans (scopeEnd_vr.run _ _ _ h7)).trans ((processCard_vr .abort).run _ _ _ h8)).trans
        ((compileFunctions_vr _).run _ _ _ h9)).trans v10).trans ((pushInstr_vr _).run _ _ _ h11)
    obtain ⟨t, ht⟩ := v5f.ids
    obtain ⟨hl5, hcs⟩ := scodes_of_processFunctionCards sf.bytecode sf.varIds hB hF _ hst 0 s4 s5 h5 hl4
      ⟨x5f.size_le, fun i _ hi => x5f.pref i hi⟩ ⟨t, ht⟩
    rw [hb4] at hcs
    -- the `Exit` after the cards of `main`
    have hl6 : NoLoc s6 := ⟨by rw [← h6]; exact hl5.fid, by rw [← h6]; exact hl5.none⟩
    obtain ⟨b7, _⟩ := scopeEnd_noloc hl6 h7
    simp only [processCard] at h8
    obtain ⟨_, s7', h8a, h8b⟩ := bind_ok.1 h8
    obtain ⟨b8a, _, _⟩ := cardLabel_ok' h8a
    obtain ⟨b8b, _, _⟩ := pushInstr_ok h8b
    have e8 : s8.bytecode = s5.bytecode.push op.exit := by rw [b8b, b8a, b7, ← h6]
    have hsz8 : s8.bytecode.size = s5.bytecode.size + 1 := by rw [e8]; simp
    refine ⟨s5.bytecode.size, by simpa using hcs, ?_, by have := x8f.size_le; omega, hinv⟩
    rw [getD_congr (x8f.pref s5.bytecode.size (by omega)), e8]
    simp [Array.getD_eq_getD_getElem?]

end Cao.Compiler

namespace Cao.Compiler
open Cao Cao.Sim

theorem except_bind_ok {ε α β : Type} {x : Except ε α} {f : α → Except ε β} {b : β}
    (h : (x >>= f) = .ok b) : ∃ a, x = .ok a ∧ f a = .ok b := by
  cases x with
  | error e => cases h
  | ok a => exact ⟨a, rfl, h⟩

theorem flattenFns_spec (ns : List String) (imports : List (String × String)) :
    ∀ (fns : List (String × Func)) (i : Nat) (out out' : Array FunctionIr),
      Compiler.flattenFns ns imports fns i out = .ok out' →
      out'.size = out.size + fns.length ∧ (∀ j, j < out.size → out'[j]? = out[j]?) ∧
      (∀ j, j < fns.length → ∃ ir nf, out'[out.size + j]? = some ir ∧ fns[j]? = some nf ∧
        ir.arguments = nf.2.arguments ∧ ir.cards = nf.2.cards ∧ ir.name = nf.1 ∧ ir.ns = ns)
  | [], i, out, out', h => by
    simp only [Compiler.flattenFns, pure, Except.pure, Except.ok.injEq] at h
    subst h
    exact ⟨rfl, fun _ _ => rfl, fun j hj => by cases hj⟩
  | (name, f) :: rest, i, out, out', h => by
    simp only [Compiler.flattenFns] at h
    split at h
    · cases h
    · obtain ⟨h1, h2, h3⟩ := flattenFns_spec ns imports rest (i + 1) _ out' h
      simp only [Array.size_push] at h1 h2 h3
      refine ⟨by simp only [List.length_cons]; omega, fun j hj => ?_, fun j hj => ?_⟩
      · rw [h2 j (by omega), Array.getElem?_push_lt hj]; simp
      · cases j with
        | zero =>
          refine ⟨FunctionIr.mk i name f.arguments f.cards ns imports (Hash.handleFromU64 (UInt64.ofNat out.size)),
            (name, f), ?_, rfl, rfl, rfl, rfl, rfl⟩
          rw [Nat.add_zero, h2 _ (by omega)]
          simp
        | succ j =>
          obtain ⟨ir, nf, e1, e2, e3, e4, e5, e6⟩ := h3 j (by simp only [List.length_cons] at hj; omega)
          exact ⟨ir, nf, by rw [← e1]; congr 1; omega, by simpa using e2, e3, e4, e5, e6⟩

mutual
theorem flatten_ext : ∀ (m : Module) (limit : Nat) (ns : List String) (out out' : Array FunctionIr),
    flatten m limit ns out = .ok out' → out.size ≤ out'.size ∧ ∀ j, j < out.size → out'[j]? = out[j]?
  | .mk subs fns imps, limit, ns, out, out', h => by
    simp only [flatten] at h
    split at h
    · cases h
    · obtain ⟨imports, _, h⟩ := except_bind_ok h
      obtain ⟨out1, h1, h2⟩ := except_bind_ok h
      obtain ⟨a1, a2, _⟩ := flattenFns_spec ns imports fns 0 out out1 h1
      obtain ⟨b1, b2⟩ := flattenSubs_ext subs limit ns out1 out' h2
      exact ⟨by omega, fun j hj => by rw [b2 j (by omega), a2 j hj]⟩
theorem flattenSubs_ext : ∀ (subs : List (String × Module)) (limit : Nat) (ns : List String)
    (out out' : Array FunctionIr),
    flattenSubs subs limit ns out = .ok out' → out.size ≤ out'.size ∧ ∀ j, j < out.size → out'[j]? = out[j]?
  | [], limit, ns, out, out', h => by
    simp only [flattenSubs, pure, Except.pure, Except.ok.injEq] at h
    subst h
    exact ⟨Nat.le_refl _, fun _ _ => rfl⟩
  | (name, s) :: rest, limit, ns, out, out', h => by
    simp only [flattenSubs] at h
    split at h
    · cases h
    · obtain ⟨out1, h1, h2⟩ := except_bind_ok h
      obtain ⟨a1, a2⟩ := flatten_ext s limit (ns ++ [name]) out out1 h1
      obtain ⟨b1, b2⟩ := flattenSubs_ext rest limit ns out1 out' h2
      exact ⟨by omega, fun j hj => by rw [b2 j (by omega), a2 j hj]⟩
end

theorem intoIrStream_main {m std : Module} {limit : Nat} {unit : Array FunctionIr}
    (h : intoIrStream m std limit = .ok unit) {i : Nat} {nf : String × Func}
    (hi : m.functions.findIdx? (fun p => p.1 == "main") = some i) (hf : m.functions[i]? = some nf) :
    unit[0]!.arguments = nf.2.arguments ∧ unit[0]!.cards = nf.2.cards := by
  unfold intoIrStream at h
  obtain ⟨_, _, h⟩ := except_bind_ok h
  have hfn : (Module.mk (m.submodules ++ [("std", std)]) m.functions m.imports).functions = m.functions := rfl
  rw [hfn, hi] at h
  obtain ⟨i', hi', h⟩ := except_bind_ok h
  simp only [pure, Except.pure, Except.ok.injEq] at hi'
  subst hi'
  obtain ⟨out, hout, h⟩ := except_bind_ok h
  simp only [pure, Except.pure, Except.ok.injEq] at h
  simp only [flatten] at hout
  split at hout
  · cases hout
  · obtain ⟨imports, _, hout⟩ := except_bind_ok hout
    obtain ⟨out1, h1, h2⟩ := except_bind_ok hout
    obtain ⟨a1, a2, a3⟩ := flattenFns_spec [] imports m.functions 0 #[] out1 h1
    obtain ⟨b1, b2⟩ := flattenSubs_ext _ limit [] out1 out h2
    have hlt : i < m.functions.length := by
      rcases Nat.lt_or_ge i m.functions.length with h' | h'
      · exact h'
      · rw [List.getElem?_eq_none h'] at hf; cases hf
    obtain ⟨ir, nf', e1, e2, e3, e4, _, _⟩ := a3 i hlt
    rw [hf] at e2
    cases e2
    have hsz1 : out1.size = m.functions.length := by simpa using a1
    have eo : out[i]? = some ir := by
      rw [b2 i (by omega)]; simpa using e1
    have hszo : i < out.size := by omega
    have key : unit[0]! = ir := by
      rw [← h]
      simp only [Array.set!_eq_setIfInBounds, getElem!_def]
      by_cases hz : i = 0
      · subst hz
        rw [Array.getElem?_setIfInBounds_self_of_lt (by simpa using hszo)]
        simp only [eo]
      · rw [Array.getElem?_setIfInBounds_ne (by omega),
          Array.getElem?_setIfInBounds_self_of_lt (by omega)]
        simp only [eo]
    rw [key]
    exact ⟨e3, e4⟩

/-- the layout of a compiled program whose `main` is in the fragment: the code of the cards of
    `main` from address 0, then `Exit` -/
theorem compile_main {m std : Module} {limit : Nat} {p : Program} (h : compile m std limit = .ok p)
    {i : Nat} {nf : String × Func}
    (hi : m.functions.findIdx? (fun p => p.1 == "main") = some i) (hf : m.functions[i]? = some nf)
    (hargs : nf.2.arguments = []) (hst : isStmts nf.2.cards = true)
    (hB : p.bytecode.size < 4294967296) (hV : p.varIds.length < 4294967296) :
    ∃ mainEnd, SCodes p.bytecode p.varIds nf.2.cards 0 mainEnd ∧
      p.bytecode.getD mainEnd 0 = op.exit ∧ mainEnd < p.bytecode.size ∧
      (∀ a b, a ∈ p.varIds → b ∈ p.varIds → a.2 = b.2 → a = b) := by
  unfold compile at h
  split at h
  · cases h
  · rename_i unit hunit
    split at h
    · cases h
    · rename_i s hs
      simp only [Except.ok.injEq] at h
      subst h
      obtain ⟨e1, e2⟩ := intoIrStream_main hunit hi hf
      obtain ⟨mainEnd, c1, c2, c3, c4⟩ := compileUnit_main (unit := unit) (sf := s) hs (by rw [e1, hargs])
        (by rw [e2, hst]) hB hV
      rw [e2] at c1
      exact ⟨mainEnd, c1, c2, c3, pairwise_inj (f := fun (p : UInt32 × Nat) => p.2) c4.inj⟩

end Cao.Compiler
